#!/bin/sh
# MANIFEST.setup_cmd: build models, proofs and the driver from files on disk (offline).
here="$(cd "$(dirname "$0")" && pwd)"
cd "$here/lean" || exit 2
/venv/bin/python "$here/harness/translate_math.py" 2>/dev/null || true
lake build 2>&1 | tail -n 40
test -x .lake/build/bin/driver
