import DesperModel.Dict
import DesperModel.Proto
/-
  Model of `desper.Prototype.__iter__` (logic/__init__.py:299-330): iterating a prototype yields
  one new component per listed type, in order, built by the type's entry in `init_methods` if
  there is one, else by the method named `init_prefix + type.__name__` if the prototype class
  defines or inherits one, else by calling the type without arguments.

  A prototype class is data: its base (single inheritance chain of Prototype subclasses) and the
  class attributes it defines itself; attribute lookup walks the chain (Python attribute
  inheritance), ending at `Prototype`'s defaults `()`, `{}`, `'init_'`.
-/
namespace Desper.Logic
open Desper

structure PClass where
  base : Option Nat
  types : Option (List Nat)
  pfx : Option String
  im : Option (List (Nat × String))
  methods : List (String × String)
deriving Repr, Inhabited

/-- class attribute lookup along the base chain (`fuel` ≥ length of the chain) -/
def attr {α : Type} (cs : List PClass) (f : PClass → Option α) : Nat → Nat → Option α
  | 0, _ => none
  | fuel + 1, p =>
    match cs[p]? with
    | none => none
    | some c =>
      match f c with
      | some v => some v
      | none =>
        match c.base with
        | some b => attr cs f fuel b
        | none => none

def typesOf (cs : List PClass) (p : Nat) : List Nat := (attr cs (·.types) (cs.length + 1) p).getD []
def prefixOf (cs : List PClass) (p : Nat) : String := (attr cs (·.pfx) (cs.length + 1) p).getD "init_"
def imOf (cs : List PClass) (p : Nat) : List (Nat × String) := (attr cs (·.im) (cs.length + 1) p).getD []
def methodOf (cs : List PClass) (p : Nat) (name : String) : Option String :=
  attr cs (fun c => Dict.get? c.methods name) (cs.length + 1) p

inductive Source where
  | initMethods (f : String)
  | method (g : String)
  | default
deriving Repr, DecidableEq, Inhabited

/-- which of the three construction sources builds a component of type `t` -/
def source (cs : List PClass) (names : Nat → String) (p : Nat) (t : Nat) : Source :=
  match Dict.get? (imOf cs p) t with
  | some f => .initMethods f
  | none =>
    match methodOf cs p (prefixOf cs p ++ names t) with
    | some g => .method g
    | none => .default

/-- `list(prototype)` -/
def build (cs : List PClass) (names : Nat → String) (p : Nat) : List (Nat × Source) :=
  (typesOf cs p).map fun t => (t, source cs names p t)

/-! ### line protocol -/
open Proto

structure Parsed where
  names : Dict Nat String := []
  classes : List PClass := []
  out : List String := []
  bad : Bool := false

def optTok (s : String) : Option String := if s = "inherit" then none else some s

def parsePairsNat (s : String) : Option (List (Nat × String)) :=
  (splitList s).mapM fun t => match t.splitOn ":" with
    | [a, b] => a.toNat?.map (·, b)
    | _ => none

def parsePairsStr (s : String) : Option (List (String × String)) :=
  (splitList s).mapM fun t => match t.splitOn ":" with
    | [a, b] => some (a, b)
    | _ => none

def kv (key tok : String) : Option String :=
  if tok.startsWith (key ++ "=") then some (tok.drop (key.length + 1)).toString else none

def showSource : Source → String
  | .initMethods f => s!"im:{f}"
  | .method g => s!"method:{g}"
  | .default => "default"

def parseLine (p : Parsed) (line : String) : Parsed :=
  match tokens line with
  | ["ptype", t, n] =>
    match t.toNat?, kv "name" n with
    | some t, some n => { p with names := Dict.set p.names t n }
    | _, _ => { p with bad := true }
  | ["pclass", pid, b, ts, pf, im, ms] =>
    match pid.toNat?, kv "base" b, kv "types" ts, kv "prefix" pf, kv "im" im, (kv "methods" ms).bind parsePairsStr with
    | some i, some b, some ts, some pf, some im, some ms =>
      let base := if b = "-" then some none else b.toNat?.map some
      let types := match optTok ts with | none => some none | some x => (natList? x).map some
      let imv := match optTok im with | none => some none | some x => (parsePairsNat x).map some
      -- prefix tokens are written as `q<prefix>` so that the empty prefix is expressible
      let pfx := (optTok pf).map (fun x => (x.drop 1).toString)
      match base, types, imv with
      | some base, some types, some imv =>
        if i = p.classes.length then
          { p with classes := p.classes ++ [{ base := base, types := types, pfx := pfx, im := imv, methods := ms }] }
        else { p with bad := true }
      | _, _, _ => { p with bad := true }
    | _, _, _, _, _, _ => { p with bad := true }
  | ["iter", pid] =>
    match pid.toNat? with
    | some i =>
      let names := fun t => (Dict.get? p.names t).getD ""
      { p with out := p.out ++ (build p.classes names i).map fun x => s!"built {x.1} {showSource x.2}" }
    | none => { p with bad := true }
  | [] => p
  | _ => { p with bad := true }

def runScenario (lines : List String) : List String :=
  let p := lines.foldl parseLine {}
  if p.bad then ["bad-op"] else p.out

end Desper.Logic
