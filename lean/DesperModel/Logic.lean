import DesperModel.Dict
import DesperModel.Proto
/-
  Model of `desper.Prototype.__iter__` (logic/__init__.py:299-330): iterating a prototype yields
  one new component per listed type, in order, built by the type's entry in `init_methods` if
  there is one, else by the method named `init_prefix + type.__name__` if the prototype class
  defines or inherits one, else by calling the type without arguments.

  A prototype class is data: its base (single inheritance chain of Prototype subclasses) and the
  class attributes it defines itself; attribute lookup walks the chain (Python attribute
  inheritance), ending at `Prototype`'s defaults `()`, `{}`, `'init_'`.
-/
namespace Desper.Logic
open Desper

structure PClass where
  base : Option Nat
  types : Option (List Nat)
  pfx : Option String
  im : Option (List (Nat × String))
  methods : List (String × String)
deriving Repr, Inhabited

/-- class attribute lookup along the base chain (`fuel` ≥ length of the chain) -/
def attr {α : Type} (cs : List PClass) (f : PClass → Option α) : Nat → Nat → Option α
  | 0, _ => none
  | fuel + 1, p =>
    match cs[p]? with
    | none => none
    | some c =>
      match f c with
      | some v => some v
      | none =>
        match c.base with
        | some b => attr cs f fuel b
        | none => none

def typesOf (cs : List PClass) (p : Nat) : List Nat := (attr cs (·.types) (cs.length + 1) p).getD []
def prefixOf (cs : List PClass) (p : Nat) : String := (attr cs (·.pfx) (cs.length + 1) p).getD "init_"
def imOf (cs : List PClass) (p : Nat) : List (Nat × String) := (attr cs (·.im) (cs.length + 1) p).getD []
def methodOf (cs : List PClass) (p : Nat) (name : String) : Option String :=
  attr cs (fun c => Dict.get? c.methods name) (cs.length + 1) p

inductive Source where
  | initMethods (f : String)
  | method (g : String)
  | default
deriving Repr, DecidableEq, Inhabited

/-- which of the three construction sources builds a component of type `t` -/
def source (cs : List PClass) (names : Nat → String) (p : Nat) (t : Nat) : Source :=
  match Dict.get? (imOf cs p) t with
  | some f => .initMethods f
  | none =>
    match methodOf cs p (prefixOf cs p ++ names t) with
    | some g => .method g
    | none => .default

/-- `list(prototype)` -/
def build (cs : List PClass) (names : Nat → String) (p : Nat) : List (Nat × Source) :=
  (typesOf cs p).map fun t => (t, source cs names p t)

/-! ### iteration is lazy: init methods may change what builds the later components

`__iter__` returns a generator expression: `iter(self.component_types)` is taken when `__iter__` is
called, everything else (`self.init_methods`, `self.init_prefix`, the `getattr`) is evaluated anew
for every item, when `next()` asks for it.  An init method, a factory of `init_methods`, a component
constructor — or the consumer between two `next()` calls — can therefore change, on the instance
or on a class, what is in charge of the types that come later.  Attribute lookup goes to the
instance first, then along the class chain, then to `Prototype`'s own defaults. -/

/-- attributes set on the prototype instance -/
structure InstOv where
  im : Option (List (Nat × String)) := none
  pfx : Option String := none
  types : Option (List Nat) := none
  /-- functions stored as instance attributes (`self.init_X = f`) -/
  methods : List (String × String) := []
deriving Repr, Inhabited

structure PState where
  cs : List PClass
  /-- `Prototype.init_methods`, the dictionary every class that does not define its own shares -/
  protoIm : List (Nat × String) := []
  inst : InstOv := {}
deriving Repr, Inhabited

/-- what user code running during (or between the steps of) an iteration does to the prototype -/
inductive Eff where
  /-- `self.init_methods[T] = f`: in place, on the dictionary the lookup finds -/
  | imSet (t : Nat) (f : String)
  /-- `self.init_methods.pop(T, None)`: in place -/
  | imDel (t : Nat)
  /-- `self.init_methods = {..}` -/
  | instIm (im : List (Nat × String))
  | instPrefix (p : String)
  /-- `self.<name> = f` -/
  | instMeth (name label : String)
  /-- `self.__dict__.pop(name, None)` -/
  | instMethDel (name : String)
  | instTypes (ts : List Nat)
  /-- `P<c>.init_methods = {..}` and so on: class attributes of a class of the scenario -/
  | clsIm (c : Nat) (im : List (Nat × String))
  | clsPrefix (c : Nat) (p : String)
  | clsMeth (c : Nat) (name label : String)
  | clsMethDel (c : Nat) (name : String)
  | clsTypes (c : Nat) (ts : List Nat)
deriving Repr, Inhabited

def typesOfS (s : PState) (p : Nat) : List Nat :=
  match s.inst.types with
  | some ts => ts
  | none => typesOf s.cs p

def prefixOfS (s : PState) (p : Nat) : String :=
  match s.inst.pfx with
  | some x => x
  | none => prefixOf s.cs p

def imOfS (s : PState) (p : Nat) : List (Nat × String) :=
  match s.inst.im with
  | some im => im
  | none => (attr s.cs (·.im) (s.cs.length + 1) p).getD s.protoIm

def methodOfS (s : PState) (p : Nat) (name : String) : Option String :=
  match Dict.get? s.inst.methods name with
  | some g => some g
  | none => methodOf s.cs p name

/-- the source in charge of type `t` in the state `s` -/
def sourceS (s : PState) (names : Nat → String) (p : Nat) (t : Nat) : Source :=
  match Dict.get? (imOfS s p) t with
  | some f => .initMethods f
  | none =>
    match methodOfS s p (prefixOfS s p ++ names t) with
    | some g => .method g
    | none => .default

/-- the class along the chain of `p` whose own attribute the lookup finds -/
def owner {α : Type} (cs : List PClass) (f : PClass → Option α) : Nat → Nat → Option Nat
  | 0, _ => none
  | fuel + 1, p =>
    match cs[p]? with
    | none => none
    | some c =>
      match f c with
      | some _ => some p
      | none =>
        match c.base with
        | some b => owner cs f fuel b
        | none => none

def modifyAt {α : Type} (l : List α) (i : Nat) (f : α → α) : List α :=
  (List.range l.length).zipWith (fun k a => if k = i then f a else a) l

/-- in-place change of the dictionary `self.init_methods` evaluates to -/
def mutateIm (s : PState) (p : Nat) (f : List (Nat × String) → List (Nat × String)) : PState :=
  match s.inst.im with
  | some im => { s with inst := { s.inst with im := some (f im) } }
  | none =>
    match owner s.cs (·.im) (s.cs.length + 1) p with
    | some c => { s with cs := modifyAt s.cs c (fun pc => { pc with im := pc.im.map f }) }
    | none => { s with protoIm := f s.protoIm }

def applyEff (p : Nat) (s : PState) : Eff → PState
  | .imSet t f => mutateIm s p (fun im => Dict.set im t f)
  | .imDel t => mutateIm s p (fun im => Dict.erase im t)
  | .instIm im => { s with inst := { s.inst with im := some im } }
  | .instPrefix x => { s with inst := { s.inst with pfx := some x } }
  | .instMeth n g => { s with inst := { s.inst with methods := Dict.set s.inst.methods n g } }
  | .instMethDel n => { s with inst := { s.inst with methods := Dict.erase s.inst.methods n } }
  | .instTypes ts => { s with inst := { s.inst with types := some ts } }
  | .clsIm c im => { s with cs := modifyAt s.cs c (fun pc => { pc with im := some im }) }
  | .clsPrefix c x => { s with cs := modifyAt s.cs c (fun pc => { pc with pfx := some x }) }
  | .clsMeth c n g => { s with cs := modifyAt s.cs c (fun pc => { pc with methods := Dict.set pc.methods n g }) }
  | .clsMethDel c n => { s with cs := modifyAt s.cs c (fun pc => { pc with methods := Dict.erase pc.methods n }) }
  | .clsTypes c ts => { s with cs := modifyAt s.cs c (fun pc => { pc with types := some ts }) }

def applyEffs (p : Nat) (s : PState) (es : List Eff) : PState := es.foldl (applyEff p) s

/-- one `next()`: the source is looked up now, the component is built, its builder's effects happen -/
def nextStep (E : Nat → Source → List Eff) (names : Nat → String) (p : Nat) (s : PState) (t : Nat) :
    PState × (Nat × Source) :=
  let src := sourceS s names p t
  (applyEffs p s (E t src), (t, src))

/-- the rest of an iteration over the captured types -/
def buildFrom (E : Nat → Source → List Eff) (names : Nat → String) (p : Nat) :
    PState → List Nat → PState × List (Nat × Source)
  | s, [] => (s, [])
  | s, t :: ts =>
    let r := nextStep E names p s t
    let rest := buildFrom E names p r.1 ts
    (rest.1, r.2 :: rest.2)

/-- `list(prototype)`: the types are those of the moment `__iter__` is called -/
def buildLazy (E : Nat → Source → List Eff) (names : Nat → String) (p : Nat) (s : PState) :
    PState × List (Nat × Source) :=
  buildFrom E names p s (typesOfS s p)

/-! ### line protocol -/
open Proto

structure Parsed where
  names : Dict Nat String := []
  classes : List PClass := []
  protoIm : List (Nat × String) := []
  /-- `effect <tid> <source> : op ; ..` what the builder of a component of that type does -/
  effects : Dict (Nat × String) (List Eff) := []
  /-- `ceffect <k> : op ; ..` what the consumer does between two `next()` calls -/
  ceffects : Dict Nat (List Eff) := []
  out : List String := []
  bad : Bool := false

def optTok (s : String) : Option String := if s = "inherit" then none else some s

def parsePairsNat (s : String) : Option (List (Nat × String)) :=
  (splitList s).mapM fun t => match t.splitOn ":" with
    | [a, b] => a.toNat?.map (·, b)
    | _ => none

def parsePairsStr (s : String) : Option (List (String × String)) :=
  (splitList s).mapM fun t => match t.splitOn ":" with
    | [a, b] => some (a, b)
    | _ => none

def kv (key tok : String) : Option String :=
  if tok.startsWith (key ++ "=") then some (tok.drop (key.length + 1)).toString else none

def showSource : Source → String
  | .initMethods f => s!"im:{f}"
  | .method g => s!"method:{g}"
  | .default => "default"

def unq (x : String) : String := (x.drop 1).toString

def parseEff : List String → Option Eff
  | ["im-set", t, f] => t.toNat?.map (.imSet · f)
  | ["im-del", t] => t.toNat?.map .imDel
  | ["inst-im", im] => (parsePairsNat im).map .instIm
  | ["inst-prefix", x] => some (.instPrefix (unq x))
  | ["inst-meth", n, g] => some (.instMeth n g)
  | ["inst-meth-del", n] => some (.instMethDel n)
  | ["inst-types", ts] => (natList? ts).map .instTypes
  | ["cls-im", c, im] => match c.toNat?, parsePairsNat im with
    | some c, some im => some (.clsIm c im)
    | _, _ => none
  | ["cls-prefix", c, x] => c.toNat?.map (.clsPrefix · (unq x))
  | ["cls-meth", c, n, g] => c.toNat?.map (.clsMeth · n g)
  | ["cls-meth-del", c, n] => c.toNat?.map (.clsMethDel · n)
  | ["cls-types", c, ts] => match c.toNat?, natList? ts with
    | some c, some ts => some (.clsTypes c ts)
    | _, _ => none
  | _ => none

/-- `op ; op ; op` -/
def parseEffs (toks : List String) : Option (List Eff) :=
  let groups := toks.foldr (fun t acc =>
      if t = ";" then [] :: acc else match acc with
        | [] => [[t]]
        | g :: gs => (t :: g) :: gs) [[]]
  (groups.filter (· ≠ [])).mapM parseEff

/-- stepwise consumption: `A` / `B` call `iter(proto)`, `a` / `b` call `next()` on that iterator,
`L` is `list(proto)`, `e<k>` lets the consumer act -/
structure RunSt where
  s : PState
  a : Option (List Nat) := none
  b : Option (List Nat) := none
  out : List String := []
  bad : Bool := false

def runTok (E : Nat → Source → List Eff) (names : Nat → String) (ce : Nat → List Eff) (p : Nat)
    (r : RunSt) (tok : String) : RunSt :=
  let next := fun (tag : String) (it : Option (List Nat)) =>
    match it with
    | none => ({ r with bad := true }, it)
    | some [] => ({ r with out := r.out ++ [s!"stop {tag}"] }, some [])
    | some (t :: ts) =>
      let x := nextStep E names p r.s t
      ({ r with s := x.1, out := r.out ++ [s!"built {tag} {x.2.1} {showSource x.2.2}"] }, some ts)
  match tok.toList with
  | ['A'] => { r with a := some (typesOfS r.s p) }
  | ['B'] => { r with b := some (typesOfS r.s p) }
  | ['a'] => let (r', it) := next "A" r.a; { r' with a := it }
  | ['b'] => let (r', it) := next "B" r.b; { r' with b := it }
  | ['L'] =>
    let x := buildLazy E names p r.s
    { r with s := x.1, out := r.out ++ x.2.map (fun y => s!"built L {y.1} {showSource y.2}") }
  | 'e' :: ds =>
    match (String.ofList ds).toNat? with
    | some k => { r with s := applyEffs p r.s (ce k) }
    | none => { r with bad := true }
  | _ => { r with bad := true }

def parseLine (p : Parsed) (line : String) : Parsed :=
  match tokens line with
  | ["ptype", t, n] =>
    match t.toNat?, kv "name" n with
    | some t, some n => { p with names := Dict.set p.names t n }
    | _, _ => { p with bad := true }
  | ["pclass", pid, b, ts, pf, im, ms] =>
    match pid.toNat?, kv "base" b, kv "types" ts, kv "prefix" pf, kv "im" im, (kv "methods" ms).bind parsePairsStr with
    | some i, some b, some ts, some pf, some im, some ms =>
      let base := if b = "-" then some none else b.toNat?.map some
      let types := match optTok ts with | none => some none | some x => (natList? x).map some
      let imv := match optTok im with | none => some none | some x => (parsePairsNat x).map some
      -- prefix tokens are written as `q<prefix>` so that the empty prefix is expressible
      let pfx := (optTok pf).map (fun x => (x.drop 1).toString)
      match base, types, imv with
      | some base, some types, some imv =>
        if i = p.classes.length then
          { p with classes := p.classes ++ [{ base := base, types := types, pfx := pfx, im := imv, methods := ms }] }
        else { p with bad := true }
      | _, _, _ => { p with bad := true }
    | _, _, _, _, _, _ => { p with bad := true }
  | "effect" :: t :: src :: ":" :: rest =>
    match t.toNat?, parseEffs rest with
    | some t, some es => { p with effects := Dict.set p.effects (t, src) es }
    | _, _ => { p with bad := true }
  | "ceffect" :: k :: ":" :: rest =>
    match k.toNat?, parseEffs rest with
    | some k, some es => { p with ceffects := Dict.set p.ceffects k es }
    | _, _ => { p with bad := true }
  | ["iter", pid] =>
    -- `list(P<pid>())` on a new instance; class level effects stay
    match pid.toNat? with
    | some i =>
      let names := fun t => (Dict.get? p.names t).getD ""
      let E := fun t src => (Dict.get? p.effects (t, showSource src)).getD []
      let x := buildLazy E names i { cs := p.classes, protoIm := p.protoIm }
      { p with classes := x.1.cs, protoIm := x.1.protoIm,
               out := p.out ++ x.2.map fun y => s!"built {y.1} {showSource y.2}" }
    | none => { p with bad := true }
  | "run" :: pid :: toks =>
    match pid.toNat? with
    | some i =>
      let names := fun t => (Dict.get? p.names t).getD ""
      let E := fun t src => (Dict.get? p.effects (t, showSource src)).getD []
      let ce := fun k => (Dict.get? p.ceffects k).getD []
      let r := toks.foldl (runTok E names ce i) { s := { cs := p.classes, protoIm := p.protoIm } }
      { p with classes := r.s.cs, protoIm := r.s.protoIm, out := p.out ++ r.out, bad := p.bad || r.bad }
    | none => { p with bad := true }
  | [] => p
  | _ => { p with bad := true }

def runScenario (lines : List String) : List String :=
  let p := lines.foldl parseLine {}
  if p.bad then ["bad-op"] else p.out

end Desper.Logic
