import DesperModel.Disp
/-
  Model of `desper/logic/spatial.py` (Transform2D / Transform3D): three stored fields whose
  setters store the value and then dispatch the matching `on_*_change` event with the stored value
  (spatial.py:41-62, 96-117); Transform2D reduces the rotation modulo 360 (spatial.py:34,52).
  A transform *is* an EventDispatcher, so the dispatcher part is `Disp.St`.

  Values are opaque tokens, except 2D rotations which are integers in units of 1/2 degree
  (the harness feeds k/2 as a float, exact in binary floating point), so `% 360.` is `% 720` here.
-/
namespace Desper.Spatial
open Desper Desper.Disp

inductive Field where
  | position | rotation | scale
deriving Repr, DecidableEq, Inhabited

def Field.event : Field → String
  | .position => "on_position_change"
  | .rotation => "on_rotation_change"
  | .scale => "on_scale_change"

/-- values: opaque tokens (vectors) or, for 2D rotations, integers in units of 1/2 degree -/
inductive Val where
  | tok (s : String)
  | half (k : Int)
deriving Repr, DecidableEq, Inhabited

def Val.show : Val → String
  | .tok s => s
  | .half k => toString k

structure TSt where
  d : Disp.St := {}
  is3D : Bool := false
  position : Val := .tok "p0_0"
  rotation : Val := .half 0
  scale : Val := .tok "p1_1"
deriving Inhabited

/-- what the setter stores (spatial.py:43,52,61 / 98,107,116); `vector % 360.` is a TypeError -/
def stored (is3D : Bool) (f : Field) (v : Val) : Option Val :=
  match f, is3D, v with
  | .rotation, false, .half k => some (.half (k % 720))
  | .rotation, false, .tok _ => none
  | _, _, v => some v

def TSt.read (t : TSt) : Field → Val
  | .position => t.position
  | .rotation => t.rotation
  | .scale => t.scale

def TSt.write (t : TSt) (f : Field) (v : Val) : TSt :=
  match f with
  | .position => { t with position := v }
  | .rotation => { t with rotation := v }
  | .scale => { t with scale := v }

/-- the property setters: store, then dispatch the stored value -/
def setField (U : Universe) (fuel : Nat) (t : TSt) (f : Field) (v : Val) : TSt × Outcome :=
  match stored t.is3D f v with
  | none => (t, .raised "TypeError")
  | some sv =>
    let t := t.write f sv
    let r := execOp U fuel t.d (.dispatch f.event sv.show)
    ({ t with d := r.1 }, r.2)

/-- `Vec2(*value)` / `Vec3(*value)`: the vector of the given components, whatever sequence type they came
in (value tokens start with `p` for a vector, `t` for a tuple, `l` for a list) -/
def asVec : Val → Val
  | .tok s => if s.startsWith "t" || s.startsWith "l" then .tok ("p" ++ (s.drop 1).toString) else .tok s
  | v => v

/-- constructor: vectors are rebuilt from the given components (`Vec2(*position)`), the 2D rotation is
reduced like in the setter, nothing is dispatched (spatial.py:28-35,83-90) -/
def construct (is3D : Bool) (held : List Obj) (pos rot scale : Option Val) : Option TSt :=
  let p := asVec (pos.getD (.tok (if is3D then "p0_0_0" else "p0_0")))
  let s := asVec (scale.getD (.tok (if is3D then "p1_1_1" else "p1_1")))
  let r := rot.getD (if is3D then .tok "p0_0_0" else .half 0)
  let r := if is3D then asVec r else r
  (stored is3D .rotation r).map fun r' =>
    { d := { held := held }, is3D := is3D, position := p, rotation := r', scale := s }

/-! ### line protocol: several transforms, one shared hint stream -/
open Proto

structure MSt where
  ts : List TSt := []
  hints : List Obj := []
  /-- invocation counters of the scripted listener reactions: one script for the whole scenario,
  whichever transform a listener is called from -/
  calls : Dict (Obj × String) Nat := []
  /-- the objects the program still holds (one program, whichever transform they listen to) -/
  held : List Obj := []
  out : List String := []

def parseField : String → Option Field
  | "position" => some .position
  | "rotation" => some .rotation
  | "scale" => some .scale
  | _ => none

def parseVal (s : String) : Val :=
  match s.toInt? with
  | some k => .half k
  | none => .tok s

def opt (s : String) : Option Val := if s = "-" then none else some (parseVal s)

def stepLine (U : Universe) (held : List Obj) (m : MSt) (toks : List String) : Option MSt :=
  match toks with
  | ["transform", dim, p, r, s] =>
    match construct (dim = "3") held (opt p) (opt r) (opt s) with
    | some t => some { m with ts := m.ts ++ [t] }
    | none => some { m with ts := m.ts ++ [default], out := m.out ++ ["res raised TypeError"] }
  | "top" :: i :: rest =>
    match i.toNat? with
    | none => none
    | some i =>
      match m.ts[i]? with
      | none => none
      | some t =>
        let t := { t with d := { t.d with hints := m.hints, calls := m.calls, held := m.held, log := [] } }
        let r : Option (TSt × List String) :=
          match rest with
          | ["set", f, v] => (parseField f).map fun f =>
              let (t', o) := setField U defaultFuel t f (parseVal v)
              (t', (t'.d.log.reverse.map showEntry) ++ [s!"res {showOutcome o}"])
          | ["read", f] => (parseField f).map fun f => (t, [s!"val {(t.read f).show}"])
          | _ => (Disp.parseOp rest).map fun op =>
              let (d, o) := execOp U defaultFuel t.d op
              ({ t with d := d }, (d.log.reverse.map showEntry) ++ [s!"res {showOutcome o}"])
        r.map fun (t', lines) =>
          { ts := m.ts.set i t', hints := t'.d.hints, calls := t'.d.calls, held := t'.d.held, out := m.out ++ lines.map (s!"t{i} " ++ ·) }
  | _ => none

def runScenario (lines : List String) : List String :=
  -- declarations (class/obj/hint) are parsed by the dispatcher model's parser
  let decl := lines.filter fun l => match tokens l with
    | "class" :: _ => true | "obj" :: _ => true | "hint" :: _ => true | "react" :: _ => true | _ => false
  let p := decl.foldl Disp.parseLine {}
  if p.bad then ["bad-op"] else
  let U := p.universe
  let body := lines.filter fun l => match tokens l with
    | "transform" :: _ => true | "top" :: _ => true | _ => false
  let rec go (m : MSt) : List String → Option MSt
    | [] => some m
    | l :: ls => match stepLine U p.objClass.keys m (tokens l) with
      | some m' => go m' ls
      | none => none
  match go { hints := p.hints, held := p.objClass.keys } body with
  | some m => m.out
  | none => ["bad-op"]

end Desper.Spatial
