import DesperModel.Dict
import DesperModel.Proto
namespace Desper.Disp
def runScenario (_lines : List String) : List String := ["not-implemented"]
end Desper.Disp
