import DesperModel.Dict
import DesperModel.Proto
/-
  Model of `desper/events.py` (EventDispatcher, event_handler).

  Mirrors, statement by statement:
    add_handler              events.py:50-69
    is_handler               events.py:71-75
    _remove_weak_handler     events.py:77-88   (also the weak-reference callback)
    remove_handler           events.py:90-95
    dispatch                 events.py:97-116  (snapshot of the listener set; dead referents skipped)
    dispatch_enabled setter  events.py:122-136 (pop one queued event at a time while enabled)
    clear                    events.py:138-148
    event_handler            events.py:151-177

  Callbacks are not opaque: a call is a log entry followed by the receiver's scripted reaction
  (a list of operations of this same model, possibly ending in `raise`).  Re-entrancy is real
  recursion, bounded by a fuel parameter that stands for "the user's program terminates".

  Python leaves the iteration order of the listener `set` unspecified.  The model is a relation:
  it follows a hint stream (the receivers in the order the implementation called them) and
  validates every hint (it must name a live member of the current snapshot that has not been
  called yet); an invalid hint makes the run end with `Outcome.badHint`.
-/
namespace Desper.Disp
open Desper

abbrev Obj := Nat
abbrev Mapping := Dict String String

structure ClassDecl where
  bases : List Nat
  names : List String
  kw : List (String × String)
  /-- methods this class defines itself (overriding what it inherits) -/
  over : List String := []
deriving Repr, Inhabited

/-- `event_handler(*names, **kw)(cls)` : events.py:161-175.  `inherited` is what
`getattr(cls, '__events__', ...)` finds through the bases (none: attribute absent). -/
def decorate (inherited : Option Mapping) (names : List String) (kw : List (String × String)) :
    Option Mapping :=
  if names.isEmpty && kw.isEmpty then inherited
  else
    let base := inherited.getD []
    let m1 := names.foldl (fun m n => Dict.set m n n) base
    some (kw.foldl (fun m p => Dict.set m p.1 p.2) m1)

/-- attribute lookup of `__events__` through the bases (single handler lineage, see DESIGN §2) -/
def inheritedOf (tbl : List (Option Mapping)) (bases : List Nat) : Option Mapping :=
  bases.findSome? (fun b => (tbl[b]?).join)

/-- `__events__` of every class, in creation order -/
def classTable (cs : List ClassDecl) : List (Option Mapping) :=
  cs.foldl (fun tbl c => tbl ++ [decorate (inheritedOf tbl c.bases) c.names c.kw]) []

inductive Op where
  | add (o : Obj)
  | remove (o : Obj)
  | dispatch (ev : String) (args : String)
  | enable (b : Bool)
  | clear
  | drop (o : Obj)
  | isHandler (o : Obj)
  | raise (e : String)
deriving Repr, DecidableEq, Inhabited

inductive Outcome where
  | ok
  | raised (e : String)
  | outOfFuel
  | badHint
deriving Repr, DecidableEq, Inhabited

inductive Entry where
  | cb (recv : Option Obj) (meth : String) (args : String)
  | ish (o : Obj) (b : Bool)
  | gone (o : Obj)
  | res (out : Outcome)
deriving Repr, DecidableEq, Inhabited

structure Universe where
  /-- `type(o).__events__` of every declared object (none: not a handler) -/
  mapping : Obj → Option Mapping
  /-- the function `getattr(type(o), method_name)` resolves to, as `name@definingClass`
  (events.py:62,67: the callback is looked up on the handler's own class) -/
  impl : Obj → String → String := fun _ m => m
  /-- scripted reaction of the k-th invocation of a method of an object -/
  reaction : Obj → String → Nat → List Op

structure St where
  events : Dict String (List (Obj × String)) := []
  handlers : Dict Obj (List (String × String)) := []
  enabled : Bool := true
  queue : List (String × String) := []
  /-- objects the program still holds a strong reference to -/
  held : List Obj := []
  /-- receivers of the callbacks that are executing now (innermost first) -/
  pinned : List Obj := []
  /-- dropped while pinned: finalised when their last executing callback returns -/
  dying : List Obj := []
  calls : Dict (Obj × String) Nat := []
  hints : List Obj := []
  /-- newest first -/
  log : List Entry := []
  /-- history (ghost, never read by the model): every event appended to the queue since the last
  `clear`, and every event taken out of it for delivery, both in order -/
  enqueued : List (String × String) := []
  released : List (String × String) := []
deriving Inhabited

def St.alive (s : St) (r : Obj) : Bool := s.held.contains r || s.pinned.contains r

/-- one iteration of the loop of `_remove_weak_handler` (events.py:85-86); `set.remove` raises
KeyError when the entry is absent -/
def remStep (r : Obj) (acc : Dict String (List (Obj × String)) × Outcome) (p : String × String) :
    Dict String (List (Obj × String)) × Outcome :=
  match acc.2 with
  | .ok =>
    match Dict.get? acc.1 p.1 with
    | none => (acc.1, Outcome.raised "KeyError")
    | some l =>
      if l.contains (r, p.2) then (Dict.set acc.1 p.1 (l.filter (· ≠ (r, p.2))), Outcome.ok)
      else (acc.1, Outcome.raised "KeyError")
  | _ => acc

/-- events.py:77-88 -/
def removeWeak (s : St) (r : Obj) : St × Outcome :=
  match Dict.get? s.handlers r with
  | none => (s, .ok)
  | some entries =>
    let res := entries.foldl (remStep r) (s.events, Outcome.ok)
    match res.2 with
    | .ok => ({ s with events := res.1, handlers := Dict.erase s.handlers r }, .ok)
    | o => ({ s with events := res.1 }, o)

/-- events.py:50-69 -/
def addHandler (s : St) (r : Obj) (m : Mapping) : St :=
  let ev := m.foldl (fun ev p => Dict.set ev p.1 (setAdd ((Dict.get? ev p.1).getD []) (r, p.2)))
    s.events
  { s with events := ev, handlers := Dict.set s.handlers r m }

/-- the weak reference callback fired when the last strong reference goes away -/
def finalize (s : St) (r : Obj) : St :=
  (removeWeak { s with dying := s.dying.filter (· ≠ r) } r).1

def dropObj (s : St) (r : Obj) : St :=
  let s := { s with held := s.held.filter (· ≠ r) }
  if s.pinned.contains r then { s with dying := r :: s.dying } else finalize s r

def unpin (s : St) (r : Obj) : St :=
  let s := { s with pinned := s.pinned.erase r }
  if s.dying.contains r && !s.pinned.contains r then finalize s r else s

def St.push (s : St) (e : Entry) : St := { s with log := e :: s.log }

mutual
/-- one operation; the state at the stop point is always returned -/
def execOp (U : Universe) : Nat → St → Op → St × Outcome
  | 0, s, _ => (s, .outOfFuel)
  | fuel + 1, s, op =>
    match op with
    | .raise e => (s, .raised e)
    | .isHandler o =>
      if s.held.contains o then (s.push (.ish o (Dict.contains s.handlers o)), .ok)
      else (s.push (.gone o), .ok)
    | .add o =>
      if s.held.contains o then
        match U.mapping o with
        | some m => (addHandler s o m, .ok)
        | none => (s, .raised "AssertionError")
      else (s.push (.gone o), .ok)
    | .remove o =>
      if s.held.contains o then removeWeak s o else (s.push (.gone o), .ok)
    | .drop o =>
      if s.held.contains o then (dropObj s o, .ok) else (s.push (.gone o), .ok)
    | .clear => ({ s with queue := [], events := [], handlers := [], enabled := true,
                          enqueued := [], released := [] }, .ok)
    | .dispatch ev args =>
      -- events.py:105-116
      match Dict.get? s.events ev with
      | none => (s, .ok)
      | some listeners =>
        if !s.enabled then ({ s with queue := s.queue ++ [(ev, args)],
                                     enqueued := s.enqueued ++ [(ev, args)] }, .ok)
        else deliver U fuel s listeners args
    | .enable b =>
      -- events.py:122-136
      let s := { s with enabled := b }
      if !b then (s, .ok) else release U fuel s

/-- a list of operations, stopping at the first one that does not complete -/
def execOps (U : Universe) : Nat → St → List Op → St × Outcome
  | 0, s, _ => (s, .outOfFuel)
  | _ + 1, s, [] => (s, .ok)
  | fuel + 1, s, op :: rest =>
    match execOp U fuel s op with
    | (s', .ok) => execOps U fuel s' rest
    | r => r

/-- iterate the snapshot; `remaining` are the members not called yet -/
def deliver (U : Universe) : Nat → St → List (Obj × String) → String → St × Outcome
  | 0, s, _, _ => (s, .outOfFuel)
  | fuel + 1, s, remaining, args =>
    let live := remaining.filter (fun p => s.alive p.1)
    if live.isEmpty then (s, .ok)
    else
      match s.hints with
      | [] => (s, .badHint)
      | h :: hs =>
        match live.find? (fun p => p.1 = h) with
        | none => (s, .badHint)
        | some (r, m) =>
          let k := (Dict.get? s.calls (r, m)).getD 0
          let s := { s with hints := hs, calls := Dict.set s.calls (r, m) (k + 1),
                            pinned := r :: s.pinned, log := .cb (some r) (U.impl r m) args :: s.log }
          match execOps U fuel s (U.reaction r m k) with
          | (s', .ok) => deliver U fuel (unpin s' r) (remaining.filter (· ≠ (r, m))) args
          | (s', o) => (unpin s' r, o)

/-- the enabling assignment: events.py:133-136 -/
def release (U : Universe) : Nat → St → St × Outcome
  | 0, s => (s, .outOfFuel)
  | fuel + 1, s =>
    match s.queue with
    | [] => (s, .ok)
    | (ev, args) :: q =>
      if !s.enabled then (s, .ok)
      else
        match execOp U fuel { s with queue := q, released := s.released ++ [(ev, args)] }
            (.dispatch ev args) with
        | (s', .ok) => release U fuel s'
        | r => r
end

/-- top-level operation: its outcome is logged (the harness catches the exception) -/
def topOp (U : Universe) (fuel : Nat) (s : St) (op : Op) : St :=
  let (s', o) := execOp U fuel s op
  s'.push (.res o)

def run (U : Universe) (fuel : Nat) (s : St) (ops : List Op) : St :=
  ops.foldl (topOp U fuel) s

/-! ### line protocol -/
open Proto

def parseOp : List String → Option Op
  | ["add", o] => o.toNat?.map .add
  | ["remove", o] => o.toNat?.map .remove
  | ["dispatch", ev, args] => some (.dispatch ev args)
  | ["enable", b] => (bool? b).map .enable
  | ["clear"] => some .clear
  | ["drop", o] => o.toNat?.map .drop
  | ["ishandler", o] => o.toNat?.map .isHandler
  | ["raise", e] => some (.raise e)
  | _ => none

/-- `op ; op ; op` -/
def parseOps (toks : List String) : Option (List Op) :=
  let groups := toks.foldr (fun t acc =>
      if t = ";" then [] :: acc else match acc with
        | [] => [[t]]
        | g :: gs => (t :: g) :: gs) [[]]
  (groups.filter (· ≠ [])).mapM parseOp

def parsePairs (s : String) : Option (List (String × String)) :=
  (splitList s).mapM (fun t => match t.splitOn ":" with
    | [a, b] => some (a, b)
    | _ => none)

def showOutcome : Outcome → String
  | .ok => "ok"
  | .raised e => s!"raised {e}"
  | .outOfFuel => "hang"
  | .badHint => "bad-hint"

def showMapping : Option Mapping → String
  | none => "none"
  | some m =>
    let sorted := m.foldl (fun acc p =>
      acc.takeWhile (fun q => q.1 ≤ p.1) ++ [p] ++ acc.dropWhile (fun q => q.1 ≤ p.1)) []
    joinList (sorted.map fun p => s!"{p.1}:{p.2}")

def showEntry : Entry → String
  | .cb (some r) m a => s!"cb {r} {m} {a}"
  | .cb none m a => s!"cb None {m} {a}"
  | .ish o b => s!"ish {o} {showBool b}"
  | .gone o => s!"gone {o}"
  | .res o => s!"res {showOutcome o}"

structure Parsed where
  classes : List ClassDecl := []
  objClass : Dict Obj Nat := []
  /-- an `__events__` mapping stored on the instance itself (it hides the class's) -/
  objEvents : Dict Obj Mapping := []
  reactions : Dict (Obj × String × Nat) (List Op) := []
  hints : List Obj := []
  ops : List Op := []
  bad : Bool := false

def stripPrefix (p s : String) : Option String :=
  if s.startsWith p then some (s.drop p.length).toString else none

def parseLine (p : Parsed) (line : String) : Parsed :=
  match tokens line with
  | "class" :: cid :: b :: n :: k :: rest =>
    let over := match rest with
      | [o] => (stripPrefix "over=" o).map splitList
      | [] => some []
      | _ => none
    match cid.toNat?, (stripPrefix "bases=" b).bind natList?, stripPrefix "names=" n,
          (stripPrefix "kw=" k).bind parsePairs, over with
    | some c, some bs, some ns, some kw, some ov =>
      if c = p.classes.length then
        { p with classes := p.classes ++ [{ bases := bs, names := splitList ns, kw := kw, over := ov }] }
      else { p with bad := true }
    | _, _, _, _, _ => { p with bad := true }
  | "obj" :: o :: c :: rest =>
    match o.toNat?, (stripPrefix "class=" c).bind String.toNat? with
    | some o, some c =>
      let p := { p with objClass := Dict.set p.objClass o c }
      match rest.filterMap (stripPrefix "ev=") with
      | [] => p
      | e :: _ =>
        match parsePairs e with
        | some m => { p with objEvents := Dict.set p.objEvents o m }
        | none => { p with bad := true }
    | _, _ => { p with bad := true }
  | "react" :: o :: m :: k :: ":" :: rest =>
    match o.toNat?, k.toNat?, parseOps rest with
    | some o, some k, some ops => { p with reactions := Dict.set p.reactions (o, m, k) ops }
    | _, _, _ => { p with bad := true }
  | ["hint", l] =>
    match natList? l with
    | some hs => { p with hints := p.hints ++ hs }
    | none => { p with bad := true }
  | "op" :: rest =>
    match parseOp rest with
    | some op => { p with ops := p.ops ++ [op] }
    | none => { p with bad := true }
  -- harness-only: a second, independent dispatcher doing other things in the same process
  | "decoy" :: _ => p
  -- harness-only: Python-level traits of a handler class (instances compare equal / are unhashable)
  | "trait" :: _ => p
  | [] => p
  | _ => { p with bad := true }

/-- the class whose definition of `m` an instance of class `c` uses: `c` itself if it defines
`m`, else what its handler base uses, else the root (`R`) -/
def implClass (cs : List ClassDecl) (tbl : List (Option Mapping)) (m : String) : Nat → Nat → String
  | 0, _ => "R"
  | fuel + 1, c =>
    match cs[c]? with
    | none => "R"
    | some d =>
      if d.over.contains m then toString c
      else
        match d.bases.find? (fun b => ((tbl[b]?).join).isSome) with
        | some b => implClass cs tbl m fuel b
        | none => "R"

/-- a Python dict built from pairs: later pairs win, keys are unique -/
def dictOfPairs (m : Mapping) : Mapping := m.foldl (fun d kv => Dict.set d kv.1 kv.2) []

def Parsed.universe (p : Parsed) : Universe :=
  let tbl := classTable p.classes
  { mapping := fun o => ((Dict.get? p.objEvents o).map dictOfPairs).orElse fun _ =>
      ((Dict.get? p.objClass o).bind (fun c => tbl[c]?)).join
    impl := fun o m =>
      match Dict.get? p.objClass o with
      | some c => m ++ "@" ++ implClass p.classes tbl m (p.classes.length + 1) c
      | none => m
    reaction := fun o m k => (Dict.get? p.reactions (o, m, k)).getD [] }

def defaultFuel : Nat := 100000

def runScenario (lines : List String) : List String :=
  let p := lines.foldl parseLine {}
  if p.bad then ["bad-op"] else
  let tbl := classTable p.classes
  let evLines := (List.range tbl.length).map fun c => s!"events {c} {showMapping (tbl[c]?).join}"
  let s0 : St := { held := p.objClass.keys, hints := p.hints }
  let s := run p.universe defaultFuel s0 p.ops
  evLines ++ s.log.reverse.map showEntry

end Desper.Disp
