/-
  Line-protocol helpers shared by every model's `runScenario`.
  A scenario is a list of lines; a line is a list of space separated tokens.
  Malformed input is answered with `bad-op`, never defaulted.
-/
namespace Desper.Proto

def tokens (line : String) : List String :=
  (line.splitOn " ").filter (· ≠ "")

/-- `a,b,c` → `[a,b,c]`; `-` → `[]` -/
def splitList (s : String) : List String :=
  if s = "-" then [] else (s.splitOn ",").filter (· ≠ "")

def joinList (l : List String) : String :=
  if l.isEmpty then "-" else ",".intercalate l

def natList? (s : String) : Option (List Nat) :=
  (splitList s).mapM String.toNat?

def intList? (s : String) : Option (List Int) :=
  (splitList s).mapM String.toInt?

def showNats (l : List Nat) : String := joinList (l.map toString)
def showInts (l : List Int) : String := joinList (l.map toString)

/-- insertion sort on naturals (observation of a Python `set`) -/
def sortNats (l : List Nat) : List Nat :=
  l.foldl (fun acc x => (acc.takeWhile (· ≤ x)) ++ [x] ++ (acc.dropWhile (· ≤ x))) []

def bool? : String → Option Bool
  | "1" => some true
  | "0" => some false
  | _ => none

def showBool (b : Bool) : String := if b then "1" else "0"

end Desper.Proto
