import DesperModel.Dict
import DesperModel.Proto
namespace Desper.MathExec
def runScenario (_lines : List String) : List String := ["not-implemented"]
end Desper.MathExec
