import DesperModel.Dict
import DesperModel.Proto
namespace Desper.World
def runScenario (_lines : List String) : List String := ["not-implemented"]
end Desper.World
