import DesperModel.Dict
import DesperModel.Proto
import DesperModel.Disp
/-
  Model of `desper/logic/world.py` (World, Processor) with `desper/bisect.py`, the Controller
  shorthands of `desper/logic/__init__.py` and the dispatcher of `desper/events.py` reduced to
  what a World with *passive* callbacks can observe of it (registered set, known event names,
  enabled flag, FIFO of postponed events).

  Mirrors (after the `fix:` commits recorded in /verif/known_findings.jsonl):
    create_entity            world.py:62-123     add_component        world.py:125-169
    _on_single_dispatch      world.py:171-179    has_component        world.py:181-201
    entity_exists/entities   world.py:203-218    get/_get             world.py:220-251
    get_component(s)         world.py:253-281    delete_entity        world.py:283-304
    _clear_dead_entities     world.py:306-318    remove_component     world.py:320-378
    add_processor            world.py:380-427    remove_processor     world.py:429-471
    get_processor/processors world.py:473-492    process              world.py:494-504
    clear                    world.py:506-525    bisect_right/insort  bisect.py:4-50

  Callbacks are passive log entries (they may raise, scripted per invocation, but they do not
  call back into the world): histories in which lifecycle callbacks mutate the world are covered
  by the dispatcher model (Disp.lean), not here.
-/
namespace Desper.World
open Desper

abbrev Obj := Nat
abbrev Ty := Nat
abbrev Ent := Nat
abbrev Mapping := Disp.Mapping
abbrev Outcome := Disp.Outcome

structure WClass where
  bases : List Ty
  isProc : Bool := false
  /-- class-level `priority` (processors) -/
  prio : Int := 0
  /-- subclass of `desper.Controller`: its `on_add` records entity and world -/
  isCtrl : Bool := false
  /-- subclass of `desper.OnUpdateProcessor` -/
  isOnUpdate : Bool := false
deriving Repr, Inhabited

/-- postponed events -/
inductive QEv where
  /-- `on_single_dispatch(event, handler, *args)`; `ent = none` for processors -/
  | relay (event : String) (h : Obj) (ent : Option Ent)
  | plain (ev : String) (args : String)
deriving Repr, DecidableEq, Inhabited

inductive Entry where
  /-- `on_add` / `on_remove` of a component (ent = some e) or processor (ent = none) -/
  | life (event : String) (o : Obj) (meth : String) (ent : Option Ent)
  /-- delivery of a plain event dispatched on the world -/
  | probe (o : Obj) (meth : String) (args : String)
  /-- `Processor.process(dt)` -/
  | proc (p : Obj) (dt : String)
  | res (out : Outcome)
  | ret (v : String)
  | out (line : String)
deriving Repr, DecidableEq, Inhabited

/-- the entity a lifecycle callback is told about -/
def Entry.entity : Entry → Option Ent
  | .life _ _ _ ent => ent
  | _ => none

structure St where
  ents : Dict Ent (Dict Ty Obj) := []
  comps : Dict Ty (List Ent) := []
  dead : List Ent := []
  /-- next value of the default `count(1)` id generator -/
  nextId : Nat := 1
  procs : Dict Ty Obj := []
  sorted : List Obj := []
  /-- instance-level `priority` (set by an explicit priority argument) -/
  prio : Dict Obj Int := []
  /-- processors whose `.world` was set to this world -/
  pworld : List Obj := []
  /-- handlers registered in the dispatcher -/
  registered : List Obj := []
  /-- the world listens to itself for `on_single_dispatch` (world.py:50, 524-525) -/
  selfReg : Bool := true
  /-- keys of `_events` -/
  known : List String := ["on_single_dispatch"]
  enabled : Bool := true
  queue : List QEv := []
  calls : Dict (Obj × String) Nat := []
  /-- what `Controller.on_add` recorded -/
  ctrl : Dict Obj Ent := []
  sweepHints : List (List Ent) := []
  log : List Entry := []
deriving Inhabited

inductive Op where
  | create (id? : Option Ent) (cs : List Obj)
  | add (e : Ent) (c : Obj)
  | remove (e : Ent) (t : Ty)
  | delete (e : Ent) (immediate : Bool)
  | process (dt : String)
  | clear
  | addProc (p : Obj) (prio? : Option Int)
  | rmProc (t : Ty)
  | enable (b : Bool)
  | dispatch (ev : String) (args : String)
deriving Repr, DecidableEq, Inhabited

structure Universe where
  classes : List WClass
  /-- `cls.__events__` (none: the class is not an event handler) -/
  mapping : Ty → Option Mapping
  objTy : Obj → Option Ty
  /-- scripted failure of the k-th invocation of a method of an object -/
  raises : Obj → String → Nat → Option String
  /-- scripted reaction of the k-th invocation of a method of an object: the callback itself calls
  `world.delete_entity(e)` (deferred deletion: the entity is marked, world.py:301-302) before it
  returns or raises.  Callbacks are otherwise passive. -/
  reacts : Obj → String → Nat → Option Ent := fun _ _ _ => none
  /-- what the other world calls made by the k-th invocation of a method of an object do (re-entrant
  `add_component`, `remove_component`, `delete_entity`, `create_entity`, `remove_processor`, … issued by
  the callback before it returns): a state transformer, tied to the scripted operations through `step`
  itself by `Universe.tie` below.  The default does nothing. -/
  runReact : St → Obj → String → Nat → Option Ent → St × Outcome := fun s _ _ _ _ => (s, .ok)

/-- no callback makes re-entrant calls other than `delete_entity` (deferred) -/
class Universe.NoReenter (U : Universe) : Prop where
  noReenter : ∀ s o m k x, U.runReact s o m k x = (s, .ok)

/-- no callback calls back into the world -/
class Universe.Passive (U : Universe) : Prop extends U.NoReenter where
  noReact : ∀ o m k, U.reacts o m k = none

def Universe.cls (U : Universe) (t : Ty) : WClass := (U.classes[t]?).getD { bases := [] }

/-- `T.__subclasses__()`: the classes naming `T` as a base, in creation order.  A base is created
before its subclasses, hence only later indices can qualify. -/
def subs (U : Universe) (t : Ty) : List Ty :=
  (List.range U.classes.length).filter (fun k => decide (t < k) && (U.cls k).bases.contains t)

/-- pop order of the `fringe` loops (world.py:190-196, 239-251, …): pop from the end, then
`fringe += subtype.__subclasses__()` — a pre-order walk taking children from last to first.
`h` bounds the depth; `visit` passes the number of classes above `t`, which is enough because
subclasses have larger indices. -/
def desc (U : Universe) : Nat → Ty → List Ty
  | 0, t => [t]
  | h + 1, t => t :: ((subs U t).reverse.flatMap (desc U h))

def visit (U : Universe) (t : Ty) : List Ty := desc U (U.classes.length - t) t

def onAdd := "on_add"
def onRemove := "on_remove"
def onSingle := "on_single_dispatch"

def Universe.mapOf (U : Universe) (o : Obj) : Option Mapping := (U.objTy o).bind U.mapping

def tyOf (U : Universe) (o : Obj) : Ty := (U.objTy o).getD 0

def row (s : St) (e : Ent) : Dict Ty Obj := (Dict.get? s.ents e).getD []
def idx (s : St) (t : Ty) : List Ent := (Dict.get? s.comps t).getD []

/-- a callback: log entry, invocation counter, scripted reaction (`delete_entity` of some entity,
deferred), scripted failure -/
def callCb (U : Universe) (s : St) (o : Obj) (meth : String) (e : Entry) : St × Outcome :=
  let k := (Dict.get? s.calls (o, meth)).getD 0
  let s := { s with calls := Dict.set s.calls (o, meth) (k + 1), log := e :: s.log }
  let s := match U.reacts o meth k with
    | some x => { s with dead := setAdd s.dead x }
    | none => s
  match U.runReact s o meth k e.entity with
  | (s, .ok) =>
    match U.raises o meth k with
    | some x => (s, .raised x)
    | none => (s, .ok)
  | r => r        -- an exception of a nested call propagates out of the callback

/-- insert into a set kept in ascending order (the model's canonical iteration order of the
listener set: listeners are passive, so Python's set order is not observable) -/
def insertSorted (l : List Obj) (o : Obj) : List Obj :=
  if l.contains o then l else l.takeWhile (· < o) ++ [o] ++ l.dropWhile (· < o)

/-- `add_handler` (events.py:50-69), abstracted to the registered set and the known names -/
def addHandler (s : St) (o : Obj) (m : Mapping) : St :=
  { s with registered := insertSorted s.registered o,
           known := m.foldl (fun k p => setAdd k p.1) s.known }

def removeHandler (s : St) (o : Obj) : St := { s with registered := s.registered.filter (· ≠ o) }

/-- deliver a plain event to every registered listener mapping it (listeners are passive, so the
set iteration order is not observable; `registered` is kept in ascending order) -/
def deliverPlain (U : Universe) (s : St) (ev args : String) : St × Outcome :=
  s.registered.foldl (fun (acc : St × Outcome) o =>
    match acc.2 with
    | .ok =>
      match (U.mapOf o).bind (fun m => Dict.get? m ev) with
      | some meth => callCb U acc.1 o meth (.probe o meth args)
      | none => acc
    | _ => acc) (s, .ok)

/-- `World.dispatch(ev, args)` for a plain event (events.py:97-121) -/
def dispatchPlain (U : Universe) (s : St) (ev args : String) : St × Outcome :=
  if !s.known.contains ev then (s, .ok)
  else if !s.enabled then ({ s with queue := s.queue ++ [.plain ev args] }, .ok)
  else deliverPlain U s ev args

/-- `Controller.on_add` stores the entity (logic/__init__.py:89-95) -/
def ctrlRecord (U : Universe) (s : St) (event : String) (o : Obj) (ent : Option Ent) : St :=
  if event = onAdd && (U.cls (tyOf U o)).isCtrl then
    match ent with
    | some e => { s with ctrl := Dict.set s.ctrl o e }
    | none => s
  else s

/-- lifecycle callback of `o` for `event` with the owner `ent`: direct call when enabled, relay
through `on_single_dispatch` when disabled (world.py:108-121 and its four replicas) -/
def lifecycle (U : Universe) (s : St) (event : String) (o : Obj) (m : Mapping) (ent : Option Ent) :
    St × Outcome :=
  match Dict.get? m event with
  | none => (s, .ok)
  | some meth =>
    if s.enabled then callCb U (ctrlRecord U s event o ent) o meth (.life event o meth ent)
    else if s.known.contains onSingle then
      ({ s with queue := s.queue ++ [.relay event o ent] }, .ok)
    else (s, .ok)

/-- the table part of `remove_component` (world.py:337-349): discard from the index, free the
index entry when empty, delete from the row, free the row when empty (an entity that is gone is
not awaiting deletion any more) -/
def detach (s : St) (e : Ent) (st : Ty) : St :=
  let ix := (idx s st).filter (· ≠ e)
  let comps := if ix.isEmpty then Dict.erase s.comps st else Dict.set s.comps st ix
  let r := Dict.erase (row s e) st
  if r.isEmpty then { s with comps := comps, ents := Dict.erase s.ents e, dead := s.dead.filter (· ≠ e) }
  else { s with comps := comps, ents := Dict.set s.ents e r }

/-- `remove_component` (world.py:320-378): first match in fringe order -/
def removeComponent (U : Universe) (s : St) (e : Ent) (t : Ty) : St × Outcome × Option Obj :=
  match (visit U t).find? (fun st => (Dict.get? (row s e) st).isSome) with
  | none => (s, .ok, none)
  | some st =>
    match Dict.get? (row s e) st with
    | none => (s, .ok, none)
    | some removed =>
      let s := detach s e st
      match U.mapOf removed with
      | none => (s, .ok, some removed)
      | some m =>
        match lifecycle U s onRemove removed m (some e) with
        | (s', .ok) => (removeHandler s' removed, .ok, some removed)
        | (s', o) => (s', o, some removed)

/-- remove the given component types of an entity one by one, stopping at a failure -/
def removeTypes (U : Universe) (s : St) (e : Ent) : List Ty → St × Outcome
  | [] => (s, .ok)
  | t :: ts =>
    match removeComponent U s e t with
    | (s', .ok, _) => removeTypes U s' e ts
    | (s', o, _) => (s', o)

/-- event handling of a freshly attached component / processor (world.py:104-121, 152-169) -/
def attachEvents (U : Universe) (s : St) (o : Obj) (ent : Option Ent) : St × Outcome :=
  match U.mapOf o with
  | none => (s, .ok)
  | some m => lifecycle U (addHandler s o m) onAdd o m ent

def attachAll (U : Universe) (s : St) (e : Ent) : List Obj → St × Outcome
  | [] => (s, .ok)
  | c :: cs =>
    match attachEvents U s c (some e) with
    | (s', .ok) => attachAll U s' e cs
    | r => r

/-- the table part of attaching `c` to `e` (world.py:94-100, 143-150): index insert, row insert -/
def attachTables (U : Universe) (s : St) (e : Ent) (c : Obj) : St :=
  { s with comps := Dict.set s.comps ((U.objTy c).getD 0) (setAdd (idx s ((U.objTy c).getD 0)) e),
           ents := Dict.set s.ents e (Dict.set (row s e) ((U.objTy c).getD 0) c) }

/-- first value of `count(n)` that is not a key of `_entities` (world.py:77-81) -/
def freshFrom (keys : List Ent) : Nat → Nat → Nat
  | 0, n => n
  | fuel + 1, n => if keys.contains n then freshFrom keys fuel (n + 1) else n

/-- `create_entity` (world.py:62-123) -/
def createEntity (U : Universe) (s : St) (id? : Option Ent) (cs : List Obj) : St × Outcome × Ent :=
  let (e, s) := match id? with
    | some e => (e, s)
    | none =>
      let n := freshFrom (Dict.keys s.ents) ((Dict.keys s.ents).length + 1) s.nextId
      (n, { s with nextId := n + 1 })
  -- replaced components (an imposed id may be in use)
  let replaced := (Dict.keys (row s e)).filter (fun t => cs.any (fun c => tyOf U c = t))
  match removeTypes U s e replaced with
  | (s, .ok) =>
    let s := cs.foldl (fun s c => attachTables U s e c) s
    match attachAll U s e cs with
    | (s, o) => (s, o, e)
  | (s, o) => (s, o, e)

/-- `add_component` (world.py:125-169) -/
def addComponent (U : Universe) (s : St) (e : Ent) (c : Obj) : St × Outcome :=
  let t := tyOf U c
  let r := if (Dict.get? (row s e) t).isSome then
      let x := removeComponent U s e t
      (x.1, x.2.1)
    else (s, Disp.Outcome.ok)
  match r with
  | (s, .ok) => attachEvents U (attachTables U s e c) c (some e)
  | r => r

/-- `delete_entity` (world.py:283-304) -/
def deleteEntity (U : Universe) (s : St) (e : Ent) (immediate : Bool) : St × Outcome :=
  if immediate then
    match Dict.get? s.ents e with
    | none => (s, .raised "KeyError")
    | some r => removeTypes U s e (Dict.keys r)
  else ({ s with dead := setAdd s.dead e }, .ok)

def sweep (U : Universe) (s : St) : List Ent → St × Outcome
  | [] => (s, .ok)
  | e :: es =>
    match Dict.get? s.ents e with
    | none => (s, .raised "KeyError")
    | some r =>
      match removeTypes U s e (Dict.keys r) with
      | (s', .ok) => sweep U s' es
      | r => r

def nodupB : List Nat → Bool
  | [] => true
  | a :: l => !l.contains a && nodupB l

/-- `a` is a permutation of the duplicate-free list `b` (a Python set) -/
def isPerm (a b : List Nat) : Bool :=
  nodupB a && a.all (b.contains ·) && b.all (a.contains ·) && a.length == b.length

/-- `_clear_dead_entities` (world.py:306-318); the iteration order of the set is taken from a
validated hint -/
def clearDead (U : Universe) (s : St) : St × Outcome :=
  if !isPerm (s.sweepHints.head?.getD s.dead) s.dead then (s, .badHint)
  else sweep U { s with dead := [], sweepHints := s.sweepHints.drop 1 } (s.sweepHints.head?.getD s.dead)

def priority (U : Universe) (s : St) (p : Obj) : Int :=
  (Dict.get? s.prio p).getD (U.cls (tyOf U p)).prio

/-- `bisect_right` with a key (bisect.py:19-50): `while lo < hi` -/
def bisectRight (keys : List Int) (x : Int) : Nat → Nat → Nat → Nat
  | 0, lo, _ => lo
  | fuel + 1, lo, hi =>
    if lo < hi then
      let mid := (lo + hi) / 2
      if x < keys[mid]?.getD 0 then bisectRight keys x fuel lo mid
      else bisectRight keys x fuel (mid + 1) hi
    else lo

def insort (U : Universe) (s : St) (p : Obj) : List Obj :=
  let keys := s.sorted.map (priority U s)
  let i := bisectRight keys (priority U s p) (keys.length + 1) 0 keys.length
  s.sorted.take i ++ [p] ++ s.sorted.drop i

/-- the table part of `remove_processor` (world.py:445-450): filter the sorted list by exact
type, delete the dictionary entry -/
def dropProc (U : Universe) (s : St) (st : Ty) : St :=
  { s with sorted := s.sorted.filter (fun p => tyOf U p ≠ st), procs := Dict.erase s.procs st }

/-- `remove_processor` (world.py:429-471) -/
def removeProcessor (U : Universe) (s : St) (t : Ty) : St × Outcome × Option Obj :=
  match (visit U t).find? (fun st => (Dict.get? s.procs st).isSome) with
  | none => (s, .ok, none)
  | some st =>
    match Dict.get? s.procs st with
    | none => (s, .ok, none)
    | some removed =>
      let s := dropProc U s st
      match U.mapOf removed with
      | none => (s, .ok, some removed)
      | some m =>
        match lifecycle U s onRemove removed m none with
        | (s', .ok) => (removeHandler s' removed, .ok, some removed)
        | (s', o) => (s', o, some removed)

/-- `processor.priority = priority` when a priority is given (world.py:401-402) -/
def setPrio (s : St) (p : Obj) : Option Int → St
  | some v => { s with prio := Dict.set s.prio p v }
  | none => s

/-- insort by priority, dictionary entry, `processor.world = self` (world.py:404-408) -/
def insertProc (U : Universe) (s : St) (p : Obj) : St :=
  { s with sorted := insort U s p, procs := Dict.set s.procs (tyOf U p) p,
           pworld := setAdd s.pworld p }

/-- `add_processor` (world.py:380-427) -/
def addProcessor (U : Universe) (s : St) (p : Obj) (prio? : Option Int) : St × Outcome :=
  let r := if (Dict.get? s.procs (tyOf U p)).isSome then
      let x := removeProcessor U s (tyOf U p)
      (x.1, x.2.1)
    else (s, Disp.Outcome.ok)
  match r with
  | (s, .ok) => attachEvents U (insertProc U (setPrio s p prio?) p) p none
  | r => r

def getProcessor (U : Universe) (s : St) (t : Ty) : Option Obj :=
  ((visit U t).findSome? (fun st => Dict.get? s.procs st))

def runProcs (U : Universe) (s : St) (dt : String) : List Obj → St × Outcome
  | [] => (s, .ok)
  | p :: ps =>
    match callCb U s p "process" (.proc p dt) with
    | (s', .ok) =>
      let r := if (U.cls (tyOf U p)).isOnUpdate then dispatchPlain U s' "on_update" dt else (s', .ok)
      match r with
      | (s'', .ok) => runProcs U s'' dt ps
      | r => r
    | r => r

/-- `process` (world.py:494-504) -/
def process (U : Universe) (s : St) (dt : String) : St × Outcome :=
  match clearDead U s with
  | (s', .ok) => runProcs U s' dt s'.sorted
  | r => r

def removeProcs (U : Universe) (s : St) : List Obj → St × Outcome
  | [] => (s, .ok)
  | p :: ps =>
    match removeProcessor U s (tyOf U p) with
    | (s', .ok, _) => removeProcs U s' ps
    | (s', o, _) => (s', o)

def deleteAll (U : Universe) (s : St) : List Ent → St × Outcome
  | [] => (s, .ok)
  | e :: es =>
    match deleteEntity U s e true with
    | (s', .ok) => deleteAll U s' es
    | r => r

/-- `clear` (world.py:506-525) -/
def clear (U : Universe) (s : St) : St × Outcome :=
  match deleteAll U s (Dict.keys s.ents) with
  | (s, .ok) =>
    let s := { s with dead := [] }
    match removeProcs U s s.sorted with
    | (s, .ok) =>
      -- id generator restarted; EventDispatcher.clear(); the world keeps listening to itself
      ({ s with nextId := 1, queue := [], registered := [], known := [onSingle], selfReg := true,
                enabled := true }, .ok)
    | r => r
  | r => r

/-- `_on_single_dispatch(event, handler, *args)` reached through
`dispatch('on_single_dispatch', …)` (world.py:171-179) -/
def deliverRelay (U : Universe) (s : St) (event : String) (h : Obj) (ent : Option Ent) : St × Outcome :=
  if !(s.known.contains onSingle && s.selfReg) then (s, .ok)
  else
    match (U.mapOf h).bind (fun m => Dict.get? m event) with
    | none => (s, .raised "KeyError")
    | some meth => callCb U (ctrlRecord U s event h ent) h meth (.life event h meth ent)

/-- delivery of one postponed event -/
def deliverQ (U : Universe) (s : St) : QEv → St × Outcome
  | .plain ev args => if s.known.contains ev then deliverPlain U s ev args else (s, .ok)
  | .relay event h ent => deliverRelay U s event h ent

/-- the `dispatch_enabled = True` loop (events.py:133-139); callbacks are passive, so nothing
can disable dispatching in between and the loop is a recursion on the queue -/
def releaseQ (U : Universe) (s : St) : List QEv → St × Outcome
  | [] => ({ s with queue := [] }, .ok)
  | q :: qs =>
    match deliverQ U { s with queue := qs } q with
    | (s', .ok) => releaseQ U s' qs
    | r => r

def setEnabled (U : Universe) (s : St) (b : Bool) : St × Outcome :=
  let s := { s with enabled := b }
  if b then releaseQ U s s.queue else (s, .ok)

/-! ### queries -/

def hasComponent (U : Universe) (s : St) (e : Ent) (t : Ty) : Bool :=
  (visit U t).any (fun st => (Dict.get? (row s e) st).isSome)

def getComponent (U : Universe) (s : St) (e : Ent) (t : Ty) : Option Obj :=
  (visit U t).findSome? (fun st => Dict.get? (row s e) st)

def getComponents (s : St) (e : Ent) : List Obj := Dict.values (row s e)

/-- `get(object)`: every attached component, whatever its type (the walk from the root of all classes
reaches every class) -/
def getAll (s : St) : List (Ent × Obj) :=
  s.ents.flatMap fun er => er.2.map fun tc => (er.1, tc.2)

def entityExists (s : St) (e : Ent) : Bool := (Dict.get? s.ents e).isSome && !s.dead.contains e

def entities (s : St) : List Ent := (Dict.keys s.ents).filter (fun e => !s.dead.contains e)

/-- the `visited` set of `_get`: first occurrences, in order -/
def dedup : List Ty → List Ty
  | [] => []
  | a :: l => a :: (dedup l).filter (· ≠ a)

/-- `_get` (world.py:229-251): every visited subtype once -/
def get (U : Universe) (s : St) (t : Ty) : List (Ent × Obj) :=
  (dedup (visit U t)).flatMap fun st =>
    (idx s st).filterMap fun e => (Dict.get? (row s e) st).map fun c => (e, c)

/-- one top-level operation: new state, outcome and returned value (as a token) -/
def step (U : Universe) (s : St) : Op → St × Outcome × String
  | .create id? cs => let r := createEntity U s id? cs; (r.1, r.2.1, toString r.2.2)
  | .add e c => let r := addComponent U s e c; (r.1, r.2, "-")
  | .remove e t =>
    let r := removeComponent U s e t
    (r.1, r.2.1, match r.2.2 with | some c => toString c | none => "None")
  | .delete e imm => let r := deleteEntity U s e imm; (r.1, r.2, "-")
  | .process dt => let r := process U s dt; (r.1, r.2, "-")
  | .clear => let r := clear U s; (r.1, r.2, "-")
  | .addProc p prio? => let r := addProcessor U s p prio?; (r.1, r.2, "-")
  | .rmProc t =>
    let r := removeProcessor U s t
    (r.1, r.2.1, match r.2.2 with | some c => toString c | none => "None")
  | .enable b => let r := setEnabled U s b; (r.1, r.2, "-")
  | .dispatch ev args => let r := dispatchPlain U s ev args; (r.1, r.2, "-")

/-- In a scripted reaction the entity identifier 0 (never a real identifier in scenarios) stands for
"the entity this callback was told about". -/
def Op.forEntity (x : Option Ent) : Op → Op
  | .add e c => .add (if e = 0 then x.getD 0 else e) c
  | .remove e t => .remove (if e = 0 then x.getD 0 else e) t
  | .delete e i => .delete (if e = 0 then x.getD 0 else e) i
  | op => op

/-- scripted operations one after the other, stopping at the first exception -/
def runOps (U : Universe) (s : St) : List Op → St × Outcome
  | [] => (s, .ok)
  | op :: ops =>
    match step U s op with
    | (s', .ok, _) => runOps U s' ops
    | (s', o, _) => (s', o)

/-- The universe in which the calls a callback makes back into the world are carried out by `step`
itself: `script o m k` is what the k-th invocation of method `m` of `o` does.  Every scripted reaction
fires at most once (the invocation counter only grows), so nesting is bounded by the number of scripted
reactions; `fuel` is that bound. -/
def Universe.tie (U : Universe) (script : Obj → String → Nat → List Op) : Nat → Universe
  | 0 => { U with runReact := fun s o m k _ =>
      if (script o m k).isEmpty then (s, .ok) else (s, .raised "RecursionError") }
  | fuel + 1 =>
    let inner := U.tie script fuel
    { U with runReact := fun s o m k x => runOps inner s ((script o m k).map (Op.forEntity x)) }

def run (U : Universe) (s : St) (ops : List Op) : St := ops.foldl (fun s op => (step U s op).1) s

/-! ### Controller shorthands and reference descriptors (logic/__init__.py:27-196) -/

/-- what is asked through a controller `k`: the module-level shorthands, `ComponentReference`
and `ProcessorReference` get / set / delete -/
inductive Via where
  | add (c : Obj) | remove (t : Ty) | has (t : Ty) | get (t : Ty) | comps | delete
  | cget (t : Ty) | cset (c : Obj) | cdel (t : Ty)
  | pget (t : Ty) | pset (p : Obj) | pdel (t : Ty)
deriving Repr, DecidableEq, Inhabited

def showOptObj : Option Obj → String
  | some c => toString c
  | none => "None"

/-- the World call a shorthand stands for, given the entity the controller recorded -/
def viaWorld (U : Universe) (s : St) (e : Ent) : Via → St × Outcome × String
  | .add c | .cset c => step U s (.add e c)
  | .remove t => step U s (.remove e t)
  | .cdel t => let r := step U s (.remove e t); (r.1, r.2.1, "-")
  | .has t => (s, .ok, if hasComponent U s e t then "True" else "False")
  | .get t | .cget t => (s, .ok, showOptObj (getComponent U s e t))
  | .comps => (s, .ok, Proto.showNats (Proto.sortNats (getComponents s e)))
  | .delete => step U s (.delete e false)
  | .pget t => (s, .ok, showOptObj (getProcessor U s t))
  | .pset p => step U s (.addProc p none)
  | .pdel t => let r := step U s (.rmProc t); (r.1, r.2.1, "-")

/-- a shorthand used through controller `k`: `controller.world.<op>(controller.entity, …)`;
a controller that was never attached has `world = None` -/
def stepVia (U : Universe) (s : St) (k : Obj) (v : Via) : St × Outcome × String :=
  match Dict.get? s.ctrl k with
  | some e => viaWorld U s e v
  | none => (s, .raised "AttributeError", "-")

end Desper.World

/-! ### line protocol -/
namespace Desper.World
open Desper Proto

inductive ScOp where
  | snap
  /-- the program drops its own reference to an object: nothing happens in the world -/
  | forget
  | op (o : Op)
  | via (k : Obj) (v : Via)

structure Parsed where
  classes : List WClass := []
  decls : List Disp.ClassDecl := []
  /-- `__events__` per class, built like `Disp.classTable` but with `Controller`'s own mapping
  under root controller classes -/
  maps : List (Option Mapping) := []
  objTy : Dict Obj Ty := []
  raises : Dict (Obj × String × Nat) String := []
  reacts : Dict (Obj × String × Nat) Ent := []
  reactOps : Dict (Obj × String × Nat) (List Op) := []
  sweeps : List (List Ent) := []
  entUniverse : List Ent := []
  ops : List ScOp := []
  bad : Bool := false

def kv (key : String) (tok : String) : Option String := Disp.stripPrefix (key ++ "=") tok

def parseClass (p : Parsed) (cid kind b n k pr : String) : Parsed :=
  match cid.toNat?, (kv "bases" b).bind natList?, kv "names" n, (kv "kw" k).bind Disp.parsePairs,
        (kv "prio" pr).bind String.toInt?, kv "kind" kind with
  | some c, some bs, some ns, some kw, some prio, some kd =>
    if c ≠ p.classes.length then { p with bad := true } else
    let inherited := (Disp.inheritedOf p.maps bs).orElse fun _ =>
      if kd = "ctrl" then some [("on_add", "on_add")] else none
    let m := Disp.decorate inherited (splitList ns) kw
    { p with classes := p.classes ++ [{ bases := bs, isProc := kd = "p" || kd = "upd", prio := prio,
                                        isCtrl := kd = "ctrl", isOnUpdate := kd = "upd" }],
             maps := p.maps ++ [m] }
  | _, _, _, _, _, _ => { p with bad := true }

def parseEnt (s : String) : Option (Option Ent) :=
  if s = "auto" then some none else s.toNat?.map some

def parseVia : List String → Option Via
  | ["add", c] => c.toNat?.map .add
  | ["remove", t] => t.toNat?.map .remove
  | ["has", t] => t.toNat?.map .has
  | ["get", t] => t.toNat?.map .get
  | ["comps"] => some .comps
  | ["delete"] => some .delete
  | ["cget", t] => t.toNat?.map .cget
  | ["cset", c] => c.toNat?.map .cset
  | ["cdel", t] => t.toNat?.map .cdel
  | ["pget", t] => t.toNat?.map .pget
  | ["pset", p] => p.toNat?.map .pset
  | ["pdel", t] => t.toNat?.map .pdel
  | _ => none

def parseOp : List String → Option ScOp
  | ["create", id, cs] => do
    let i ← parseEnt id
    let l ← natList? cs
    pure (.op (.create i l))
  | ["add", e, c] => do pure (.op (.add (← e.toNat?) (← c.toNat?)))
  | ["remove", e, t] => do pure (.op (.remove (← e.toNat?) (← t.toNat?)))
  | ["delete", e, i] => do pure (.op (.delete (← e.toNat?) (← bool? i)))
  | ["process", dt] => some (.op (.process dt))
  | ["clear"] => some (.op .clear)
  | ["addproc", p, pr] => do
    let p ← p.toNat?
    if pr = "-" then pure (.op (.addProc p none)) else pure (.op (.addProc p (some (← pr.toInt?))))
  | ["rmproc", t] => do pure (.op (.rmProc (← t.toNat?)))
  | ["enable", b] => do pure (.op (.enable (← bool? b)))
  | ["dispatch", ev, args] => some (.op (.dispatch ev args))
  | ["snap"] => some .snap
  | ["forget", _] => some .forget
  | "via" :: k :: rest => do pure (.via (← k.toNat?) (← parseVia rest))
  | _ => none

/-- split a token list at every `sep` -/
def splitToks (sep : String) : List String → List (List String)
  | [] => [[]]
  | t :: ts =>
    match splitToks sep ts with
    | [] => [[t]]
    | g :: gs => if t = sep then [] :: g :: gs else (t :: g) :: gs

def allSome {α : Type} : List (Option α) → Option (List α)
  | [] => some []
  | some a :: l => (allSome l).map (a :: ·)
  | none :: _ => none

def parseLine (p : Parsed) (line : String) : Parsed :=
  match tokens line with
  | ["class", cid, kind, b, n, k, pr] => parseClass p cid kind b n k pr
  -- harness-only declarations: Python-level traits of a class (value equality, falsy instances) and a
  -- second, independent world doing other things in the same process — invisible to a correct World
  | "trait" :: _ => p
  | "decoy" :: _ => p
  | "obj" :: o :: c :: _ =>
    match o.toNat?, (kv "class" c).bind String.toNat? with
    | some o, some c => { p with objTy := Dict.set p.objTy o c }
    | _, _ => { p with bad := true }
  | ["raise", o, m, k, x] =>
    match o.toNat?, k.toNat? with
    | some o, some k => { p with raises := Dict.set p.raises (o, m, k) x }
    | _, _ => { p with bad := true }
  | ["react", o, m, k, "delete", x] =>
    match o.toNat?, k.toNat?, x.toNat? with
    | some o, some k, some x => { p with reacts := Dict.set p.reacts (o, m, k) x }
    | _, _, _ => { p with bad := true }
  | "react" :: o :: m :: k :: "do" :: rest =>
    let ops := (splitToks ";" rest).map fun toks => match parseOp toks with
      | some (.op op) => some op
      | _ => none
    match o.toNat?, k.toNat?, allSome ops with
    | some o, some k, some ops => { p with reactOps := Dict.set p.reactOps (o, m, k) ops }
    | _, _, _ => { p with bad := true }
  | ["hint", "sweep", l] =>
    match natList? l with
    | some es => { p with sweeps := p.sweeps ++ [es] }
    | none => { p with bad := true }
  | ["ents", l] =>
    match natList? l with
    | some es => { p with entUniverse := es }
    | none => { p with bad := true }
  | "op" :: rest =>
    match parseOp rest with
    | some op => { p with ops := p.ops ++ [op] }
    | none => { p with bad := true }
  | [] => p
  | _ => { p with bad := true }

def Parsed.universe0 (p : Parsed) : Universe :=
  { classes := p.classes
    mapping := fun t => (p.maps[t]?).join
    objTy := fun o => Dict.get? p.objTy o
    raises := fun o m k => Dict.get? p.raises (o, m, k)
    reacts := fun o m k => Dict.get? p.reacts (o, m, k) }

def Parsed.universe (p : Parsed) : Universe :=
  p.universe0.tie (fun o m k => (Dict.get? p.reactOps (o, m, k)).getD []) (p.reactOps.length + 1)

def showEntry : Entry → List String
  | .life _ o m (some e) => [s!"cb {o} {m} e{e}"]
  | .life _ o m none => [s!"cb {o} {m} _"]
  | .probe o m a => [s!"cb {o} {m} {a}"]
  | .proc p dt => [s!"cb {p} process {dt}"]
  | .res o => [s!"res {Disp.showOutcome o}"]
  | .ret v => [s!"ret {v}"]
  | .out l => [l]

def showOpt : Option Nat → String
  | some n => toString n
  | none => "None"

def snapshot (U : Universe) (p : Parsed) (s : St) : List String :=
  let tys := List.range U.classes.length
  let ctys := tys.filter (fun t => !(U.cls t).isProc)
  let ptys := tys.filter (fun t => (U.cls t).isProc)
  let pairKey := fun (x : Ent × Obj) => x.1 * 100000 + x.2
  (ctys.map fun t =>
      let l := sortNats ((get U s t).map pairKey)
      s!"get {t} " ++ joinList (l.map fun k => s!"{k / 100000}:{k % 100000}")) ++
  (p.entUniverse.flatMap fun e =>
      [s!"row {e} {showNats (sortNats (getComponents s e))}",
       s!"exists {e} {showBool (entityExists s e)}"] ++
      (ctys.map fun t => s!"has {e} {t} {showBool (hasComponent U s e t)} {showOpt (getComponent U s e t)} {
          match getComponent U s e t with | some c => toString c | none => "D"}")) ++
  [s!"getall " ++ joinList ((sortNats ((getAll s).map pairKey)).map fun k => s!"{k / 100000}:{k % 100000}"),
   s!"entities {showNats (sortNats (entities s))}",
   s!"procs {showNats s.sorted}"] ++
  (ptys.map fun t => s!"gp {t} {showOpt (getProcessor U s t)}") ++
  [s!"pw {showNats (sortNats s.pworld)}"] ++
  ((Dict.keys p.objTy).filterMap fun o =>
      if (U.mapOf o).isSome then some s!"ish {o} {showBool (s.registered.contains o)}" else none) ++
  ((Dict.keys p.objTy).filterMap fun o =>
      if (U.cls (tyOf U o)).isCtrl then some s!"ctl {o} {showOpt (Dict.get? s.ctrl o)}" else none) ++
  [s!"enabled {showBool s.enabled}"]

def runScenario (lines : List String) : List String :=
  let p := lines.foldl parseLine {}
  if p.bad then ["bad-op"] else
  let U := p.universe
  let s0 : St := { sweepHints := p.sweeps }
  let s := p.ops.foldl (fun (s : St) op =>
    match op with
    | .snap => { s with log := (snapshot U p { s with log := [] }).reverse.map Entry.out ++ s.log }
    | .forget => { s with log := Entry.ret "-" :: Entry.res .ok :: s.log }
    | .op op =>
      let r := step U s op
      { r.1 with log := Entry.ret r.2.2 :: Entry.res r.2.1 :: r.1.log }
    | .via k v =>
      let r := stepVia U s k v
      { r.1 with log := Entry.ret r.2.2 :: Entry.res r.2.1 :: r.1.log }) s0
  s.log.reverse.flatMap showEntry

end Desper.World
