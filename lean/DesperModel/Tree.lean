import DesperModel.Dict
import DesperModel.Proto
namespace Desper.Tree
def runScenario (_lines : List String) : List String := ["not-implemented"]
end Desper.Tree
