import DesperModel.Dict
import DesperModel.Proto
/-
  Model of `desper/model/tree.py` (Handle, StaticResourceMap, ResourceMap).

  Python objects are heap objects with aliasing and back pointers, so the model is a *heap*:
  two typed stores (maps, handles) indexed by object ids, plus a store of static snapshots.
  Every operation is recursion on the *path* (`key.split('/')`) with store lookups; there is no
  nested inductive type and no fuel, except for `get_static_map`, whose Python recursion over the
  tree takes a depth fuel (running out of it is Python's `RecursionError` on a cyclic tree).

  Mirrors, statement by statement (line numbers of the repaired file):
    Handle.__call__ / clear / cached          tree.py:40-56
    StaticResourceMap.__setattr__/__delattr__ tree.py:70-76
    StaticResourceMap.__getitem__             tree.py:78-85
    StaticResourceMap.__getattribute__        tree.py:87-97
    StaticResourceMap.get                     tree.py:99-109
    ResourceMap.get                           tree.py:156-184
    ResourceMap.__getitem__                   tree.py:186-211
    ResourceMap.__setitem__                   tree.py:213-263
    ResourceMap.clear                         tree.py:265-293
    ResourceMap.get_static_map                tree.py:295-331
  `ResourceMap.handles` is a `collections.ChainMap`: `layer0 :: lower` is its `maps` list (lookup =
  first layer that has the name, `in` = some layer has it, assignment acts on layer 0).

  Loaded resources are opaque tokens `(handle id, load number)`; the model never looks at them.
-/
namespace Desper.Tree
open Desper

/-- identity of a ResourceMap object: created by the program (`decl`) or by `__setitem__` for
an intermediate key part (`anon`, numbered by the allocation counter) -/
inductive MId where
  | decl (n : Nat)
  | anon (n : Nat)
deriving DecidableEq, Repr, Inhabited

abbrev HId := Nat

/-- what a loader returned: `tok h n` is the object produced by the n-th `load()` of handle h;
`none` is the `None` that `Handle.clear` stores -/
inductive Val where
  | none
  | tok (h : HId) (n : Nat)
  /-- not a value: the exception the n-th invocation of `load()` of handle h raised, on its way out of
  the access -/
  | exc (h : HId) (n : Nat)
deriving DecidableEq, Repr, Inhabited

/-- a value stored in a map -/
inductive Ref where
  | map (i : MId)
  | handle (h : HId)
deriving DecidableEq, Repr, Inhabited

/-- tree.py:147-154 -/
structure MapNode where
  parent : Option MId := none
  key : Option String := none
  /-- `self.maps` -/
  maps : Dict String MId := []
  /-- `self.handles.maps[0]` -/
  layer0 : Dict String HId := []
  /-- `self.handles.maps[1:]` -/
  lower : List (Dict String HId) := []
deriving Repr, Inhabited, DecidableEq

def MapNode.layers (n : MapNode) : List (Dict String HId) := n.layer0 :: n.lower

/-- tree.py:25-29 -/
structure HNode where
  parent : Option MId := none
  key : Option String := none
  cached : Bool := false
  cache : Val := .none
  /-- number of `load()` invocations that returned -/
  loads : Nat := 0
  /-- number of `load()` invocations, the raising ones included -/
  tries : Nat := 0
deriving Repr, Inhabited, DecidableEq

inductive SAttr where
  | handle (h : HId)
  | sub (s : Nat)
deriving DecidableEq, Repr, Inhabited

/-- an instance of the `StaticSubmap` class that `get_static_map` builds: its `_handle_names`
and its attributes (slot or `__dict__` entry: indistinguishable through the API) -/
structure SNode where
  handleNames : List String := []
  attrs : Dict String SAttr := []
deriving Repr, Inhabited, DecidableEq

structure St where
  mapsD : Dict MId MapNode := []
  hsD : Dict HId HNode := []
  /-- allocation counter of implicitly created maps -/
  next : Nat := 0
  snaps : Dict Nat SNode := []
  snext : Nat := 0
  /-- the loaders' script: does the k-th invocation of `load()` of handle h raise?  (never written) -/
  failing : HId → Nat → Bool := fun _ _ => false
deriving Inhabited

/-- the program's initial state for a given loader script: every map empty, every handle fresh -/
def init (failing : HId → Nat → Bool) : St := { failing := failing }

/-- the map object `i` (objects that were never written are fresh `ResourceMap()`s) -/
def St.m (st : St) (i : MId) : MapNode := (Dict.get? st.mapsD i).getD {}
def St.h (st : St) (h : HId) : HNode := (Dict.get? st.hsD h).getD {}
def St.s (st : St) (s : Nat) : SNode := (Dict.get? st.snaps s).getD {}
def St.setM (st : St) (i : MId) (n : MapNode) : St := { st with mapsD := Dict.set st.mapsD i n }
def St.setH (st : St) (h : HId) (n : HNode) : St := { st with hsD := Dict.set st.hsD h n }

/-- advance the allocation counter (a `ResourceMap()` was created) -/
def St.bump (st : St) : St := { st with next := st.next + 1 }

/-! ### ChainMap -/

/-- `ChainMap.__getitem__` / `__contains__`: first layer that has the name -/
def chainGet? (layers : List (Dict String HId)) (k : String) : Option HId :=
  layers.findSome? (fun l => Dict.get? l k)

/-- `ChainMap.__iter__`: `d = {}; for mapping in reversed(maps): d.update(dict.fromkeys(mapping))` -/
def chainKeys (layers : List (Dict String HId)) : List String :=
  Dict.keys (layers.reverse.foldl
    (fun (d : Dict String Unit) l => l.foldl (fun d p => Dict.set d p.1 ()) d) [])

/-! ### Handle : tree.py:40-56 -/

/-- `Handle.__call__` : tree.py:40-46 -/
def callH (st : St) (h : HId) : St × Val :=
  let n := st.h h
  if n.cached then (st, n.cache)
  else if st.failing h (n.tries + 1) then
    -- self.load() raises: nothing is assigned, the exception leaves __call__
    (st.setH h { n with tries := n.tries + 1 }, .exc h (n.tries + 1))
  else
    -- self._cache = self.load(); self._cached = True
    let v := Val.tok h (n.loads + 1)
    (st.setH h { n with cache := v, cached := true, loads := n.loads + 1, tries := n.tries + 1 }, v)

/-- `Handle.clear` : tree.py:48-51 -/
def clearH (st : St) (h : HId) : St :=
  st.setH h { st.h h with cached := false, cache := .none }

/-- `Handle.cached` : tree.py:53-56 -/
def cachedH (st : St) (h : HId) : Bool := (st.h h).cached

/-! ### keys -/

def splitChars (sep : Char) : List Char → List (List Char)
  | [] => [[]]
  | c :: cs =>
    if c = sep then [] :: splitChars sep cs
    else match splitChars sep cs with
      | [] => [[c]]
      | w :: ws => (c :: w) :: ws

/-- `key.split('/')` (never empty; empty components are legal names) -/
def splitKey (key : String) : List String :=
  (splitChars '/' key.toList).map String.ofList

/-- `'/'.join(ks)` -/
def joinKey (ks : List String) : String :=
  String.ofList (List.intercalate ['/'] (ks.map String.toList))

/-- `(keys[:-1], keys[-1])` -/
def keyPath (key : String) : List String × String :=
  let ks := splitKey key
  (ks.dropLast, ks.getLastD "")

/-! ### ResourceMap.get / __getitem__ : tree.py:156-211 -/

/-- `for subkey in keys[:-1]: value = value.maps[subkey]` (none: KeyError) -/
def walk (st : St) : MId → List String → Option MId
  | i, [] => some i
  | i, k :: ks =>
    match Dict.get? (st.m i).maps k with
    | none => none
    | some c => walk st c ks

/-- `if last_key in value.handles: value.handles[last_key] else: value.maps[last_key]` -/
def lookup (st : St) (i : MId) (k : String) : Option Ref :=
  match chainGet? (st.m i).layers k with
  | some h => some (.handle h)
  | none => (Dict.get? (st.m i).maps k).map .map

/-- `ResourceMap.get` on split keys; `none` is the `except KeyError: return default` -/
def getPath (st : St) (i : MId) (ps : List String) (last : String) : Option Ref :=
  match walk st i ps with
  | none => none
  | some t => lookup st t last

/-- `ResourceMap.get(key, default)` : tree.py:156-184 -/
def get (st : St) (i : MId) (key : String) : Option Ref :=
  getPath st i (keyPath key).1 (keyPath key).2

/-- result of `[]`: a loaded resource or a sub-map -/
inductive Item where
  | val (v : Val)
  | map (i : MId)
  | smap (s : Nat)
deriving DecidableEq, Repr, Inhabited

inductive Outcome (α : Type) where
  | ok (a : α)
  | raised (e : String)
  /-- the program went on to index a loaded resource (`m['h']['x']`): not desper's business -/
  | stuck
deriving DecidableEq, Repr, Inhabited

/-- what an access that called the handle hands on: the loaded resource, or the loader's exception -/
def itemOf : Val → Outcome Item
  | .exc _ _ => .raised "LoadError"
  | v => .ok (.val v)

/-- `ResourceMap.__getitem__` on split keys : tree.py:200-211 -/
def getItemPath (st : St) (i : MId) (ps : List String) (last : String) : St × Outcome Item :=
  match walk st i ps with
  | none => (st, .raised "KeyError")
  | some t =>
    match chainGet? (st.m t).layers last with
    | some h => let r := callH st h; (r.1, itemOf r.2)
    | none =>
      match Dict.get? (st.m t).maps last with
      | some c => (st, .ok (.map c))
      | none => (st, .raised "KeyError")

/-- `ResourceMap.__getitem__(key)` : tree.py:186-211 -/
def getItem (st : St) (i : MId) (key : String) : St × Outcome Item :=
  getItemPath st i (keyPath key).1 (keyPath key).2

/-- `m[k1][k2]...[kn]` with single names -/
def chainItems (st : St) (i : MId) : List String → St × Outcome Item
  | [] => (st, .ok (.map i))
  | k :: ks =>
    match getItemPath st i [] k with
    | (st', .ok (.map c)) => chainItems st' c ks
    | (st', .ok it) => if ks.isEmpty then (st', .ok it) else (st', .stuck)
    | r => r

/-- `m.get(k1).get(k2)....get(kn)` with single names (none: some `get` returned its default) -/
def getChain (st : St) (i : MId) : List String → Option Ref
  | [] => some (.map i)
  | k :: ks =>
    match lookup st i k with
    | some (.map c) => getChain st c ks
    | some (.handle h) => if ks.isEmpty then some (.handle h) else none
    | none => none

/-! ### ResourceMap.__setitem__ : tree.py:213-263 -/

/-- the single-key tail of `__setitem__` : tree.py:250-263 -/
def assign (st : St) (t : MId) (last : String) (v : Ref) : St :=
  match v with
  | .map c =>
    -- for layer in target_map.handles.maps: layer.pop(last_key, None)
    -- target_map.maps[last_key] = value
    let n := st.m t
    let st := st.setM t { n with layer0 := Dict.erase n.layer0 last,
                                 lower := n.lower.map (Dict.erase · last),
                                 maps := Dict.set n.maps last c }
    -- value.parent = target_map; value.key = last_key
    st.setM c { st.m c with parent := some t, key := some last }
  | .handle h =>
    -- target_map.maps.pop(last_key, None); target_map.handles[last_key] = value
    let n := st.m t
    let st := st.setM t { n with maps := Dict.erase n.maps last,
                                 layer0 := Dict.set n.layer0 last h }
    st.setH h { st.h h with parent := some t, key := some last }

/-- the loop over `keys[:-1]` : tree.py:236-242.  Returns the target map. -/
def descend (st : St) (t : MId) : List String → St × MId
  | [] => (st, t)
  | k :: ks =>
    -- target_map.handles.pop(subkey, None)      (ChainMap.pop: first layer only)
    let n := st.m t
    let st := st.setM t { n with layer0 := Dict.erase n.layer0 k }
    -- if subkey not in target_map.maps: target_map[subkey] = ResourceMap()
    -- target_map = target_map.maps[subkey]
    match Dict.get? (st.m t).maps k with
    | some c => descend st c ks
    | none =>
      let c := MId.anon st.next
      descend (assign st.bump t k (.map c)) c ks

def setItemPath (st : St) (i : MId) (ps : List String) (last : String) (v : Ref) : St :=
  let r := descend st i ps
  assign r.1 r.2 last v

/-- `ResourceMap.__setitem__(key, value)` -/
def setItem (st : St) (i : MId) (key : String) (v : Ref) : St :=
  setItemPath st i (keyPath key).1 (keyPath key).2 v

/-- `m[key] = value` with a key that is not a `str`, or a value that is neither a ResourceMap nor a
Handle: the assertions at tree.py:225-228 fail before anything is touched -/
def setItemRejected (st : St) (_m : MId) : St × Outcome Unit := (st, .raised "AssertionError")

/-- `m.handles.maps.insert(0, {})` (what the populator does on a conflict, model/__init__.py:180) -/
def addLayer (st : St) (i : MId) : St :=
  let n := st.m i
  st.setM i { n with layer0 := [], lower := n.layer0 :: n.lower }

/-! ### ResourceMap.clear : tree.py:265-293 -/

def detachH (i : MId) (st : St) (h : HId) : St :=
  -- if handle.parent == self: handle.parent = None; handle.key = None
  if (st.h h).parent = some i then st.setH h { st.h h with parent := none, key := none } else st

def detachM (i : MId) (st : St) (c : MId) : St :=
  if (st.m c).parent = some i then st.setM c { st.m c with parent := none, key := none } else st

def clearMap (st : St) (i : MId) : St :=
  let n := st.m i
  -- for layer in self.handles.maps: for handle in layer.values(): ...
  let st := (n.layers.flatMap Dict.values).foldl (detachH i) st
  -- for map_ in self.maps.values(): ...
  let st := (Dict.values n.maps).foldl (detachM i) st
  -- self.maps.clear(); del self.handles.maps[1:]; self.handles.clear()
  st.setM i { st.m i with maps := [], layer0 := [], lower := [] }

/-! ### static maps : tree.py:59-109, 295-331 -/

/-- names the model does not cover: members of `StaticResourceMap` itself (the property excludes
them).  For such a name every static access answers `unmodelled`. -/
def reserved (k : String) : Bool :=
  k = "get" || k = "_handle_names" || (k.startsWith "__" && k.endsWith "__")

/-- `self.handles.items()` as attributes : tree.py:321-322 -/
def handleAttrs (n : MapNode) : Dict String SAttr :=
  (chainKeys n.layers).foldl (fun a k =>
    match chainGet? n.layers k with
    | some h => Dict.set a k (.handle h)
    | none => a) []

/-- one turn of `for key, value in self.maps.items(): object.__setattr__(subself, key,
value.get_static_map())` : tree.py:328-329; `rec` is the recursive call -/
def snapStep (rec : St → MId → St × Option Nat) (acc : St × Option (Dict String SAttr))
    (kc : String × MId) : St × Option (Dict String SAttr) :=
  match acc.2 with
  | none => acc
  | some a =>
    match rec acc.1 kc.2 with
    | (st', some s) => (st', some (Dict.set a kc.1 (.sub s)))
    | (st', none) => (st', none)

/-- allocate the `StaticSubmap()` instance -/
def allocSnap (st : St) (node : SNode) : St × Nat :=
  ({ st with snaps := Dict.set st.snaps st.snext node, snext := st.snext + 1 }, st.snext)

/-- `get_static_map` : tree.py:295-331.  `none`: the recursion did not end (`RecursionError`). -/
def snapshot : Nat → St → MId → St × Option Nat
  | 0, st, _ => (st, none)
  | fuel + 1, st, i =>
    let n := st.m i
    -- handles first, `_handle_names`, then the sub-maps (which win a name clash)
    let r := n.maps.foldl (snapStep (snapshot fuel)) (st, some (handleAttrs n))
    match r.2 with
    | some a =>
      let q := allocSnap r.1 { handleNames := chainKeys n.layers, attrs := a }
      (q.1, some q.2)
    | none => (r.1, none)

/-- `StaticResourceMap.get` : tree.py:99-109 (`object.__getattribute__`) -/
def sGet1 (st : St) (s : Nat) (k : String) : Option SAttr := Dict.get? (st.s s).attrs k

/-- `StaticResourceMap.__getattribute__` (and `__getitem__`, which is `getattr`) : tree.py:78-97 -/
def sGetAttr1 (st : St) (s : Nat) (k : String) : St × Outcome Item :=
  if (st.s s).handleNames.contains k then
    -- return object.__getattribute__(self, name)()
    match Dict.get? (st.s s).attrs k with
    | some (.handle h) => let r := callH st h; (r.1, itemOf r.2)
    | some (.sub _) => (st, .raised "TypeError")
    | none => (st, .raised "AttributeError")
  else
    match Dict.get? (st.s s).attrs k with
    | some (.handle _) => (st, .raised "NotUnwrapped")   -- cannot happen: every handle is named
    | some (.sub s') => (st, .ok (.smap s'))
    | none => (st, .raised "AttributeError")

/-- `s[k1][k2]...[kn]` / `s.k1.k2. ... .kn` -/
def sItems (st : St) (s : Nat) : List String → St × Outcome Item
  | [] => (st, .ok (.smap s))
  | k :: ks =>
    match sGetAttr1 st s k with
    | (st', .ok (.smap s')) => sItems st' s' ks
    | (st', .ok it) => if ks.isEmpty then (st', .ok it) else (st', .stuck)
    | r => r

/-- `s.get(k1).get(k2)....get(kn)` (none: AttributeError somewhere on the way) -/
def sGetChain (st : St) (s : Nat) : List String → Option SAttr
  | [] => some (.sub s)
  | k :: ks =>
    match sGet1 st s k with
    | some (.sub s') => sGetChain st s' ks
    | some (.handle h) => if ks.isEmpty then some (.handle h) else none
    | none => none

/-- `setattr(s, name, v)` / `delattr(s, name)` : tree.py:70-76 -/
def sSetAttr (st : St) (_s : Nat) (_k : String) : St × Outcome Unit := (st, .raised "ValueError")
def sDelAttr (st : St) (_s : Nat) (_k : String) : St × Outcome Unit := (st, .raised "ValueError")

/-! ### histories -/

inductive Op where
  | set (m : MId) (key : String) (v : Ref)
  /-- an assignment the assertions reject (bad key, non-resource value) -/
  | reject (m : MId)
  | layer (m : MId)
  | clear (m : MId)
  | getitem (m : MId) (key : String)
  | get (m : MId) (key : String)
  | chain (m : MId) (ks : List String)
  | call (h : HId)
  | hclear (h : HId)
  | cached (h : HId)
  | snap (m : MId)
  | sitems (s : Nat) (ks : List String)
  | sget (s : Nat) (ks : List String)
  | ssetattr (s : Nat) (k : String)
  | sdelattr (s : Nat) (k : String)
deriving Repr, DecidableEq, Inhabited

inductive Out where
  | unit
  | item (o : Outcome Item)
  | got (r : Option Ref)
  | sgot (r : Option SAttr)
  | val (v : Val)
  | bool (b : Bool)
  | snap (s : Option Nat)
  | res (o : Outcome Unit)
deriving Repr, DecidableEq, Inhabited

/-- enough for every acyclic tree with at most this many maps on a branch -/
def snapFuel (st : St) : Nat := st.mapsD.length + 2

def step (st : St) : Op → St × Out
  | .set m key v => (setItem st m key v, .unit)
  | .reject m => let r := setItemRejected st m; (r.1, .res r.2)
  | .layer m => (addLayer st m, .unit)
  | .clear m => (clearMap st m, .unit)
  | .getitem m key => let r := getItem st m key; (r.1, .item r.2)
  | .get m key => (st, .got (get st m key))
  | .chain m ks => let r := chainItems st m ks; (r.1, .item r.2)
  | .call h => let r := callH st h; (r.1, .val r.2)
  | .hclear h => (clearH st h, .unit)
  | .cached h => (st, .bool (cachedH st h))
  | .snap m => let r := snapshot (snapFuel st) st m; (r.1, .snap r.2)
  | .sitems s ks => let r := sItems st s ks; (r.1, .item r.2)
  | .sget s ks => (st, .sgot (sGetChain st s ks))
  | .ssetattr s k => let r := sSetAttr st s k; (r.1, .res r.2)
  | .sdelattr s k => let r := sDelAttr st s k; (r.1, .res r.2)

/-- run a history, collecting the outputs (oldest first) -/
def run (st : St) : List Op → St × List Out
  | [] => (st, [])
  | op :: ops =>
    let r := step st op
    let r' := run r.1 ops
    (r'.1, r.2 :: r'.2)

def exec (st : St) (ops : List Op) : St := (run st ops).1

/-! ### re-entrant user code

  A user subclass may make `parent` / `key` properties whose setters run arbitrary code, and a
  loader may use the resource tree while it loads.  Such code is a *script*: a list of operations
  of this same model, executed silently (what they return is dropped, what they raise is caught by
  the script) at the moment the library assigns the attribute / calls `load()`.  The functions
  below are the re-entrant versions of the operations above, mirroring the same statements of
  tree.py, with the hooks at the places where the Python code runs user code:
    `value.parent = …`, `value.key = …`        tree.py:262-263 (`__setitem__`), 283-284, 288-289 (`clear`)
    `self.load()`                               tree.py:43 (`Handle.__call__`)
  Re-entrancy is real recursion, bounded by a fuel parameter ("the user's program terminates").
  `clear` iterates live dictionaries (tree.py:281-289): a Python dict that changed size while it is
  iterated raises RuntimeError at the next step; the loops below re-read the dictionary at every
  step and compare its size with the size at the start of the loop.
  Without scripts these functions compute what the plain ones compute; the theorems of C11/C12/C17
  are about the plain ones (objects without re-entrant user code).
-/

/-- where the library runs user code -/
inductive Hook where
  /-- the setter of `x.parent` -/
  | parent (x : Ref)
  /-- the setter of `x.key` -/
  | key (x : Ref)
  /-- `h.load()` -/
  | load (h : HId)
deriving DecidableEq, Repr, Inhabited

/-- state plus how often each hook has run -/
structure RSt where
  st : St := {}
  fired : Dict Hook Nat := []
deriving Inhabited

/-- the script of the k-th run (0-based) of a hook -/
abbrev Scripts := Hook → Nat → List Op

mutual
/-- run the script of this hook (silently) -/
def fire (S : Scripts) : Nat → RSt → Hook → RSt
  | 0, rs, _ => rs
  | fuel + 1, rs, hk =>
    let k := (Dict.get? rs.fired hk).getD 0
    execOpsR S fuel { rs with fired := Dict.set rs.fired hk (k + 1) } (S hk k)

/-- `x.parent = p` -/
def setParentR (S : Scripts) : Nat → RSt → Ref → Option MId → RSt
  | 0, rs, _, _ => rs
  | fuel + 1, rs, x, p =>
    let st := match x with
      | .map c => rs.st.setM c { rs.st.m c with parent := p }
      | .handle h => rs.st.setH h { rs.st.h h with parent := p }
    fire S fuel { rs with st := st } (.parent x)

/-- `x.key = k` -/
def setKeyR (S : Scripts) : Nat → RSt → Ref → Option String → RSt
  | 0, rs, _, _ => rs
  | fuel + 1, rs, x, k =>
    let st := match x with
      | .map c => rs.st.setM c { rs.st.m c with key := k }
      | .handle h => rs.st.setH h { rs.st.h h with key := k }
    fire S fuel { rs with st := st } (.key x)

/-- the single-key tail of `__setitem__` : tree.py:250-263 -/
def assignR (S : Scripts) : Nat → RSt → MId → String → Ref → RSt
  | 0, rs, _, _, _ => rs
  | fuel + 1, rs, t, last, v =>
    let n := rs.st.m t
    let st := match v with
      | .map c => rs.st.setM t { n with layer0 := Dict.erase n.layer0 last,
                                        lower := n.lower.map (Dict.erase · last),
                                        maps := Dict.set n.maps last c }
      | .handle h => rs.st.setM t { n with maps := Dict.erase n.maps last,
                                           layer0 := Dict.set n.layer0 last h }
    -- value.parent = target_map; value.key = last_key
    let rs := setParentR S fuel { rs with st := st } v (some t)
    setKeyR S fuel rs v (some last)

/-- `__setitem__`: the maps created for intermediate key parts are plain ResourceMaps (no user code) -/
def setItemR (S : Scripts) : Nat → RSt → MId → String → Ref → RSt
  | 0, rs, _, _, _ => rs
  | fuel + 1, rs, i, key, v =>
    let r := descend rs.st i (keyPath key).1
    assignR S fuel { rs with st := r.1 } r.2 (keyPath key).2 v

/-- `for handle in layer.values()` over the live layer `li` of map `i`, from position `idx`;
`n0`: the size of that dictionary when the loop started -/
def clearHandlesR (S : Scripts) : Nat → RSt → MId → Nat → Nat → Nat → RSt × Outcome Unit
  | 0, rs, _, _, _, _ => (rs, .raised "RecursionError")
  | fuel + 1, rs, i, li, idx, n0 =>
    match (rs.st.m i).layers[li]? with
    | none => (rs, .ok ())
    | some layer =>
      if layer.length ≠ n0 then (rs, .raised "RuntimeError")
      else
        match layer[idx]? with
        | none => (rs, .ok ())
        | some (_, h) =>
          let rs :=
            if (rs.st.h h).parent = some i then
              setKeyR S fuel (setParentR S fuel rs (.handle h) none) (.handle h) none
            else rs
          clearHandlesR S fuel rs i li (idx + 1) n0

/-- `for layer in self.handles.maps` (a live list, by index) -/
def clearLayersR (S : Scripts) : Nat → RSt → MId → Nat → RSt × Outcome Unit
  | 0, rs, _, _ => (rs, .raised "RecursionError")
  | fuel + 1, rs, i, li =>
    match (rs.st.m i).layers[li]? with
    | none => (rs, .ok ())
    | some layer =>
      match clearHandlesR S fuel rs i li 0 layer.length with
      | (rs', .ok _) => clearLayersR S fuel rs' i (li + 1)
      | r => r

/-- `for map_ in self.maps.values()` over the live dictionary -/
def clearMapsR (S : Scripts) : Nat → RSt → MId → Nat → Nat → RSt × Outcome Unit
  | 0, rs, _, _, _ => (rs, .raised "RecursionError")
  | fuel + 1, rs, i, idx, n0 =>
    let maps := (rs.st.m i).maps
    if maps.length ≠ n0 then (rs, .raised "RuntimeError")
    else
      match maps[idx]? with
      | none => (rs, .ok ())
      | some (_, c) =>
        let rs :=
          if (rs.st.m c).parent = some i then
            setKeyR S fuel (setParentR S fuel rs (.map c) none) (.map c) none
          else rs
        clearMapsR S fuel rs i (idx + 1) n0

/-- `ResourceMap.clear` : tree.py:265-293 -/
def clearR (S : Scripts) : Nat → RSt → MId → RSt × Outcome Unit
  | 0, rs, _ => (rs, .raised "RecursionError")
  | fuel + 1, rs, i =>
    match clearLayersR S fuel rs i 0 with
    | (rs, .ok _) =>
      match clearMapsR S fuel rs i 0 (rs.st.m i).maps.length with
      | (rs, .ok _) =>
        ({ rs with st := rs.st.setM i { rs.st.m i with maps := [], layer0 := [], lower := [] } }, .ok ())
      | r => r
    | r => r

/-- `Handle.__call__` : tree.py:40-46, with a loader that may use the tree -/
def callHR (S : Scripts) : Nat → RSt → HId → RSt × Val
  | 0, rs, _ => (rs, .none)
  | fuel + 1, rs, h =>
    let n := rs.st.h h
    if n.cached then (rs, n.cache)
    else
      -- self.load() is entered
      let k := n.tries + 1
      let rs := { rs with st := rs.st.setH h { n with tries := k } }
      if rs.st.failing h k then (rs, .exc h k)
      else
        -- the loader's own code, then it returns its object
        let rs := fire S fuel rs (.load h)
        -- self._cache = <returned>; self._cached = True   (whatever happened to the handle meanwhile)
        let n := rs.st.h h
        let v := Val.tok h (n.loads + 1)
        ({ rs with st := rs.st.setH h { n with cache := v, cached := true, loads := n.loads + 1 } }, v)

def getItemPathR (S : Scripts) : Nat → RSt → MId → List String → String → RSt × Outcome Item
  | 0, rs, _, _, _ => (rs, .raised "RecursionError")
  | fuel + 1, rs, i, ps, last =>
    match walk rs.st i ps with
    | none => (rs, .raised "KeyError")
    | some t =>
      match chainGet? (rs.st.m t).layers last with
      | some h => let r := callHR S fuel rs h; (r.1, itemOf r.2)
      | none =>
        match Dict.get? (rs.st.m t).maps last with
        | some c => (rs, .ok (.map c))
        | none => (rs, .raised "KeyError")

def chainItemsR (S : Scripts) : Nat → RSt → MId → List String → RSt × Outcome Item
  | 0, rs, _, _ => (rs, .raised "RecursionError")
  | _ + 1, rs, i, [] => (rs, .ok (.map i))
  | fuel + 1, rs, i, k :: ks =>
    match getItemPathR S fuel rs i [] k with
    | (rs', .ok (.map c)) => chainItemsR S fuel rs' c ks
    | (rs', .ok it) => if ks.isEmpty then (rs', .ok it) else (rs', .stuck)
    | r => r

def sGetAttr1R (S : Scripts) : Nat → RSt → Nat → String → RSt × Outcome Item
  | 0, rs, _, _ => (rs, .raised "RecursionError")
  | fuel + 1, rs, s, k =>
    if (rs.st.s s).handleNames.contains k then
      match Dict.get? (rs.st.s s).attrs k with
      | some (.handle h) => let r := callHR S fuel rs h; (r.1, itemOf r.2)
      | some (.sub _) => (rs, .raised "TypeError")
      | none => (rs, .raised "AttributeError")
    else
      match Dict.get? (rs.st.s s).attrs k with
      | some (.handle _) => (rs, .raised "NotUnwrapped")
      | some (.sub s') => (rs, .ok (.smap s'))
      | none => (rs, .raised "AttributeError")

def sItemsR (S : Scripts) : Nat → RSt → Nat → List String → RSt × Outcome Item
  | 0, rs, _, _ => (rs, .raised "RecursionError")
  | _ + 1, rs, s, [] => (rs, .ok (.smap s))
  | fuel + 1, rs, s, k :: ks =>
    match sGetAttr1R S fuel rs s k with
    | (rs', .ok (.smap s')) => sItemsR S fuel rs' s' ks
    | (rs', .ok it) => if ks.isEmpty then (rs', .ok it) else (rs', .stuck)
    | r => r

/-- one operation of a script: what it returns or raises is dropped -/
def execR (S : Scripts) : Nat → RSt → Op → RSt
  | 0, rs, _ => rs
  | fuel + 1, rs, op =>
    match op with
    | .set m key v => setItemR S fuel rs m key v
    | .layer m => { rs with st := addLayer rs.st m }
    | .clear m => (clearR S fuel rs m).1
    | .getitem m key => (getItemPathR S fuel rs m (keyPath key).1 (keyPath key).2).1
    | .chain m ks => (chainItemsR S fuel rs m ks).1
    | .call h => (callHR S fuel rs h).1
    | .hclear h => { rs with st := clearH rs.st h }
    | .snap m => { rs with st := (snapshot (snapFuel rs.st) rs.st m).1 }
    | .sitems s ks => (sItemsR S fuel rs s ks).1
    | _ => rs

def execOpsR (S : Scripts) : Nat → RSt → List Op → RSt
  | 0, rs, _ => rs
  | _ + 1, rs, [] => rs
  | fuel + 1, rs, op :: ops => execOpsR S fuel (execR S fuel rs op) ops
end

/-- a top-level operation of a program with re-entrant user code (same results as `step`) -/
def stepR (S : Scripts) (fuel : Nat) (rs : RSt) : Op → RSt × Out
  | .set m key v => (setItemR S fuel rs m key v, .unit)
  | .clear m => let r := clearR S fuel rs m; (r.1, .res r.2)
  | .getitem m key => let r := getItemPathR S fuel rs m (keyPath key).1 (keyPath key).2; (r.1, .item r.2)
  | .chain m ks => let r := chainItemsR S fuel rs m ks; (r.1, .item r.2)
  | .call h => let r := callHR S fuel rs h; (r.1, .val r.2)
  | .sitems s ks => let r := sItemsR S fuel rs s ks; (r.1, .item r.2)
  | op => let r := step rs.st op; ({ rs with st := r.1 }, r.2)

def reactFuel : Nat := 4000

/-! ### line protocol -/
open Proto

structure RS where
  st : St := {}
  menv : Dict String MId := []
  hdecl : List Nat := []
  mdecl : List Nat := []
  senv : Dict String Nat := []
  /-- anonymous maps in discovery order -/
  anon : List Nat := []
  alphabet : List String := []
  out : List String := []      -- newest first
  bad : Bool := false
  /-- re-entrant user code: the script of the k-th run of a hook -/
  scripts : Dict (Hook × Nat) (List Op) := []
  fired : Dict Hook Nat := []

/-- run one operation: with the plain semantics, or — when the scenario scripts user code — with the
re-entrant one -/
def RS.runOp (r : RS) (op : Op) : RS × Out :=
  if r.scripts.isEmpty then
    let q := step r.st op
    ({ r with st := q.1 }, q.2)
  else
    let S : Scripts := fun hk k => (Dict.get? r.scripts (hk, k)).getD []
    let q := stepR S reactFuel { st := r.st, fired := r.fired } op
    ({ r with st := q.1.st, fired := q.1.fired }, q.2)

def RS.emit (r : RS) (l : String) : RS := { r with out := l :: r.out }

def sortStrings (l : List String) : List String := l.mergeSort (fun a b => decide (a ≤ b))

def indexOf? (l : List Nat) (a : Nat) : Option Nat :=
  let rec go : List Nat → Nat → Option Nat
    | [], _ => none
    | x :: xs, i => if x = a then some i else go xs (i + 1)
  go l 0

/-- display name of a map object; anonymous ones are numbered in discovery order -/
def nameM (r : RS) : MId → RS × String
  | .decl n => (r, s!"m{n}")
  | .anon n =>
    match indexOf? r.anon n with
    | some i => (r, s!"a{i}")
    | none => ({ r with anon := r.anon ++ [n] }, s!"a{r.anon.length}")

def nameOpt (r : RS) : Option MId → RS × String
  | none => (r, "None")
  | some i => nameM r i

def showKey : Option String → String
  | none => "None"
  | some k => ":" ++ k

def showPath (p : List String) : String :=
  if p.isEmpty then "-" else ":" ++ "/".intercalate p

def showVal : Val → String
  | .none => "val None"
  | .exc _ _ => "raised LoadError"
  | .tok h n => s!"val h{h} {n}"

def parsePathTok (t : String) : Option String :=
  if t.startsWith ":" then some (String.ofList (t.toList.drop 1)) else none

/-- `name=value` -/
def optionTok (t : String) : Bool := t.toList.contains '=' && !t.startsWith "="

def stripFail (t : String) : Option String :=
  if t.startsWith "fail=" then some (String.ofList (t.toList.drop 5)) else none

def parseNamed (c : Char) (t : String) : Option Nat :=
  match t.toList with
  | c' :: rest => if c' = c then (String.ofList rest).toNat? else none
  | [] => none

def emitItem (r : RS) (tag : String) : Outcome Item → RS
  | .ok (.val v) => r.emit s!"{tag} {showVal v}"
  | .ok (.map i) => let (r, n) := nameM r i; r.emit s!"{tag} map {n}"
  | .ok (.smap _) => r.emit s!"{tag} smap"
  | .raised e => r.emit s!"{tag} raised {e}"
  | .stuck => r.emit s!"{tag} stuck"

/-- `dump`: the tree below a map, to depth 4 -/
def dumpMap : Nat → RS → List String → MId → RS
  | 0, r, _, _ => r
  | d + 1, r, path, i =>
    let n := r.st.m i
    let (r, nm) := nameM r i
    let (r, pn) := nameOpt r n.parent
    let r := r.emit s!"map {showPath path} {nm} parent={pn} key={showKey n.key} nlayers={n.layers.length}"
    let r := (List.range n.layers.length).foldl (fun r li =>
      let layer := (n.layers[li]?).getD []
      (sortStrings (Dict.keys layer)).foldl (fun r k =>
        match Dict.get? layer k with
        | none => r
        | some h =>
          let hn := r.st.h h
          let (r, pn) := nameOpt r hn.parent
          r.emit s!"hnd {showPath path} {li} {showKey (some k)} h{h} parent={pn} key={showKey hn.key}") r) r
    (sortStrings (Dict.keys n.maps)).foldl (fun r k =>
      match Dict.get? n.maps k with
      | none => r
      | some c => dumpMap d r (path ++ [k]) c) r

/-- `sdump`: the snapshot probed with `get` over the scenario's alphabet, to depth 4 -/
def dumpSnap : Nat → RS → List String → Nat → RS
  | 0, r, _, _ => r
  | d + 1, r, path, s =>
    r.alphabet.foldl (fun r k =>
      if reserved k then r else
      match sGet1 r.st s k with
      | none => r
      | some (.handle h) => r.emit s!"snode {showPath (path ++ [k])} handle h{h}"
      | some (.sub s') => dumpSnap d (r.emit s!"snode {showPath (path ++ [k])} smap") (path ++ [k]) s') r

/-- `.parent` / `.key` of the anonymous maps from position `j` of the discovery list on (the list may grow
while it is printed: a parent may be an anonymous map not seen before) -/
def linkAnon : Nat → RS → Nat → RS
  | 0, r, _ => r
  | fuel + 1, r, j =>
    match r.anon[j]? with
    | none => r
    | some a =>
      let n := r.st.m (.anon a)
      let (r, pn) := nameOpt r n.parent
      linkAnon fuel (r.emit s!"link a{j} parent={pn} key={showKey n.key}") (j + 1)

def compsOf (t : String) : Option (List String) :=
  (parsePathTok t).map splitKey

def parseRef (r : RS) (t : String) : Option Ref :=
  match parseNamed 'h' t with
  | some h => if r.hdecl.contains h then some (.handle h) else none
  | none => (Dict.get? r.menv t).map .map

def anyReserved (ks : List String) : Bool := ks.any reserved

/-- an operation inside a script (maps and handles by their declared names) -/
def parseReactOp : List String → Option Op
  | ["set", m, p, v] =>
    match parseNamed 'm' m, parsePathTok p with
    | some k, some key =>
      match parseNamed 'h' v, parseNamed 'm' v with
      | some h, _ => some (.set (.decl k) key (.handle h))
      | none, some c => some (.set (.decl k) key (.map (.decl c)))
      | none, none => none
    | _, _ => none
  | ["clear", m] => (parseNamed 'm' m).map fun k => .clear (.decl k)
  | ["getitem", m, p] =>
    match parseNamed 'm' m, parsePathTok p with
    | some k, some key => some (.getitem (.decl k) key)
    | _, _ => none
  | ["get", m, p] =>
    match parseNamed 'm' m, parsePathTok p with
    | some k, some key => some (.get (.decl k) key)
    | _, _ => none
  | ["chain", m, p] =>
    match parseNamed 'm' m, compsOf p with
    | some k, some ks => some (.chain (.decl k) ks)
    | _, _ => none
  | ["call", h] => (parseNamed 'h' h).map .call
  | ["hclear", h] => (parseNamed 'h' h).map .hclear
  | ["snap", m] => (parseNamed 'm' m).map fun k => .snap (.decl k)
  | _ => none

/-- `op ; op ; op` -/
def parseReactOps (toks : List String) : Option (List Op) :=
  let groups := toks.foldr (fun t acc =>
      if t = ";" then [] :: acc else match acc with
        | [] => [[t]]
        | g :: gs => (t :: g) :: gs) [[]]
  (groups.filter (· ≠ [])).mapM parseReactOp

def parseHook (kind obj : String) : Option Hook :=
  let x : Option Ref := match parseNamed 'h' obj, parseNamed 'm' obj with
    | some h, _ => some (.handle h)
    | none, some k => some (.map (.decl k))
    | none, none => none
  match kind, x with
  | "parent", some x => some (.parent x)
  | "key", some x => some (.key x)
  | "load", some (.handle h) => some (.load h)
  | _, _ => none

def execLine (r : RS) (line : String) : RS :=
  if r.bad then r else
  let bad : RS := { r with bad := true }
  match tokens line with
  | [] => r
  | "newmap" :: m :: opts =>
    -- options describe the program's class of the map (`split=` its key delimiter, `eq=`/`ueq=` value
    -- equality, `falsy=`): objects are identities and keys are lists of names here, so none of them matters
    if !opts.all optionTok then bad else
    match parseNamed 'm' m with
    | some k =>
      if Dict.contains r.menv m then bad
      else { r with menv := Dict.set r.menv m (.decl k), mdecl := r.mdecl ++ [k] }
    | none => bad
  | "newhandle" :: h :: _kind :: opts =>
    -- `fail=1,3`: the 1st and the 3rd invocation of this handle's load() raise; the other options (`eq=`,
    -- `ueq=`, `falsy=`: value equality / truthiness of the handle object) do not matter for identities
    if !opts.all optionTok then bad else
    match parseNamed 'h' h, (((opts.filterMap stripFail).head?).getD "-" |> natList?) with
    | some k, some fails =>
      if r.hdecl.contains k then bad
      else
        let old := r.st.failing
        { r with hdecl := r.hdecl ++ [k],
                 st := { r.st with failing := fun g n => if g = k then fails.contains n else old g n } }
    | _, _ => bad
  | "react" :: kind :: obj :: k :: ":" :: rest =>
    -- the k-th run (0-based) of a `parent` / `key` setter of a user subclass, or of a loader, does this
    match parseHook kind obj, k.toNat?, parseReactOps rest with
    | some hk, some k, some ops => { r with scripts := Dict.set r.scripts (hk, k) ops }
    | _, _, _ => bad
  | ["op", "setkey", m, _badkey, _v] =>
    -- `m[<not a str>] = v`
    match parseNamed 'm' m with
    | some _ =>
      match Dict.get? r.menv m with
      | some i =>
        match (step r.st (.reject i)).2 with
        | .res (.raised e) => r.emit s!"res raised {e}"
        | _ => r.emit "res ok"
      | none => r.emit "unbound"
    | none => bad
  | ["op", "bind", m, src, p] =>
    match parseNamed 'm' m, parseNamed 'm' src, parsePathTok p with
    | some _, some _, some key =>
      if Dict.contains r.menv m then bad else
      match Dict.get? r.menv src with
      | none => r.emit "unbound"
      | some i =>
        match get r.st i key with
        | some (.map c) =>
          let (r, n) := nameM r c
          ({ r with menv := Dict.set r.menv m c }).emit s!"bound {n}"
        | _ => r.emit "bound none"
    | _, _, _ => bad
  | ["op", "set", m, p, v] =>
    match parseNamed 'm' m, parsePathTok p with
    | some _, some key =>
      if v.startsWith "x" then
        -- a value that is neither a ResourceMap nor a Handle
        match Dict.get? r.menv m with
        | some i =>
          match (step r.st (.reject i)).2 with
          | .res (.raised e) => r.emit s!"res raised {e}"
          | _ => r.emit "res ok"
        | none => r.emit "unbound"
      else
      match Dict.get? r.menv m, parseRef r v with
      | some i, some v => (r.runOp (.set i key v)).1.emit "res ok"
      | _, _ => r.emit "unbound"
    | _, _ => bad
  | ["op", kind, x] =>
    if kind = "layer" || kind = "clear" || kind = "dump" then
      match parseNamed 'm' x with
      | none => bad
      | some _ =>
        match Dict.get? r.menv x with
        | none => r.emit "unbound"
        | some i =>
          if kind = "layer" then (r.runOp (.layer i)).1.emit "res ok"
          else if kind = "clear" then
            let q := r.runOp (.clear i)
            match q.2 with
            | .res (.raised e) => q.1.emit s!"res raised {e}"
            | _ => q.1.emit "res ok"
          else (dumpMap 5 r [] i).emit "end-dump"
    else if kind = "call" || kind = "hclear" || kind = "cached" || kind = "stat" then
      match parseNamed 'h' x with
      | none => bad
      | some h =>
        if !r.hdecl.contains h then bad
        else if kind = "call" then
          let q := r.runOp (.call h)
          match q.2 with
          | .val v => q.1.emit (showVal v)
          | _ => q.1.emit "bad-out"
        else if kind = "hclear" then ({ r with st := clearH r.st h }).emit "res ok"
        else if kind = "cached" then r.emit s!"cached h{h} {showBool (cachedH r.st h)}"
        else r.emit s!"stat h{h} loads={(r.st.h h).loads} tries={(r.st.h h).tries} cached={showBool (r.st.h h).cached}"
    else if kind = "sdump" then
      match parseNamed 's' x with
      | none => bad
      | some _ =>
        match Dict.get? r.senv x with
        | none => r.emit "sunbound"
        | some s => (dumpSnap 4 r [] s).emit "end-sdump"
    else bad
  | ["op", "links"] =>
    let r := r.hdecl.foldl (fun r h =>
      let hn := r.st.h h
      let (r, pn) := nameOpt r hn.parent
      r.emit s!"link h{h} parent={pn} key={showKey hn.key}") r
    let r := r.mdecl.foldl (fun r k =>
      let n := r.st.m (.decl k)
      let (r, pn) := nameOpt r n.parent
      r.emit s!"link m{k} parent={pn} key={showKey n.key}") r
    -- the anonymous maps that have been seen so far (those met just above included), in discovery order
    let r := linkAnon 64 r 0
    r.emit "end-links"
  | ["op", "snap", s, m] =>
    match parseNamed 's' s, parseNamed 'm' m with
    | some _, some _ =>
      match Dict.get? r.menv m with
      | none => r.emit "unbound"
      | some i =>
        let q := snapshot (snapFuel r.st) r.st i
        match q.2 with
        | some sid => ({ r with st := q.1, senv := Dict.set r.senv s sid }).emit "sres ok"
        | none => ({ r with st := q.1 }).emit "sres raised RecursionError"
    | _, _ => bad
  | ["op", kind, x, p] =>
    match compsOf p, parsePathTok p with
    | some ks, some key =>
      if kind = "getitem" || kind = "get" || kind = "chain" then
        match parseNamed 'm' x with
        | none => bad
        | some _ =>
          match Dict.get? r.menv x with
          | none => r.emit "unbound"
          | some i =>
            if kind = "getitem" then
              let q := r.runOp (.getitem i key)
              match q.2 with
              | .item o => emitItem q.1 "item" o
              | _ => q.1.emit "bad-out"
            else if kind = "chain" then
              let q := r.runOp (.chain i ks)
              match q.2 with
              | .item o => emitItem q.1 "item" o
              | _ => q.1.emit "bad-out"
            else
              match get r.st i key with
              | none => r.emit "got default"
              | some (.handle h) => r.emit s!"got handle h{h}"
              | some (.map c) => let (r, n) := nameM r c; r.emit s!"got map {n}"
      else if kind = "sgetitem" || kind = "sgetattr" || kind = "sget" || kind = "ssetattr"
              || kind = "sdelattr" then
        match parseNamed 's' x with
        | none => bad
        | some _ =>
          match Dict.get? r.senv x with
          | none => r.emit "sunbound"
          | some s =>
            if anyReserved ks then r.emit "unmodelled"
            else if kind = "sgetitem" || kind = "sgetattr" then
              let q := r.runOp (.sitems s ks)
              match q.2 with
              | .item o => emitItem q.1 "sitem" o
              | _ => q.1.emit "bad-out"
            else if kind = "sget" then
              match sGetChain r.st s ks with
              | none => r.emit "sgot raised AttributeError"
              | some (.handle h) => r.emit s!"sgot handle h{h}"
              | some (.sub _) => r.emit "sgot smap"
            else
              -- navigate with `get` to the owner of the last name, then setattr / delattr
              match sGetChain r.st s ks.dropLast with
              | some (.sub s') =>
                let q := if kind = "ssetattr" then sSetAttr r.st s' (ks.getLastD "")
                         else sDelAttr r.st s' (ks.getLastD "")
                match q.2 with
                | .raised e => ({ r with st := q.1 }).emit s!"sres raised {e}"
                | _ => ({ r with st := q.1 }).emit "sres ok"
              | _ => r.emit "sres nav-failed"
      else bad
    | _, _ => bad
  | _ => bad

/-- every path component that occurs in the scenario, sorted (the probe alphabet of `sdump`) -/
def alphabetOf (lines : List String) : List String :=
  let comps := lines.flatMap fun l =>
    (tokens l).flatMap fun t => match compsOf t with
      | some ks => ks
      | none => []
  sortStrings comps.eraseDups

def runScenario (lines : List String) : List String :=
  let r0 : RS := { alphabet := alphabetOf lines }
  let r := lines.foldl execLine r0
  if r.bad then ["bad-op"] else r.out.reverse

end Desper.Tree
