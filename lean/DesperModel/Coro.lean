import DesperModel.Dict
import DesperModel.Proto
/-
  Model of `desper/logic/coroutines.py` (CoroutineProcessor, CoroutinePromise).

  Mirrors, statement by statement (line numbers of the tree after the `fix:` commits 6ed741d —
  D10, start right after kill —, 4dad2ae — D29, self-kill followed by return — and 79d5dfb — D31,
  a body raising out of process):
    __init__   coroutines.py:113-121
    start      coroutines.py:123-149   (a pending kill is cancelled; a paused generator's heap entry
                                        is voided and the generator queued as runnable)
    kill       coroutines.py:151-175
    state      coroutines.py:177-197
    process    coroutines.py:199-272   (wake-up loop 205-224, rotation 231, run loop 234-272)

  Python objects and how they appear here
    * `_generators`, `_promises` (dicts that are only read with get / written / deleted, never
      iterated) are partial functions `Gen → Option _`; `del d[k]` on a missing key is
      `Outcome.raised "KeyError"`, never a default.
    * `_kill_queue` (a set, never iterated) is a predicate `Gen → Bool`.
    * `_active_queue` is the deque itself: `List (Option Gen)`, `none` is the `None` sentinel.
    * `_wait_queue` is the heap *as a bag*: `heapq` pops a record with minimal deadline; which one
      among equal deadlines is not specified by the property and is resolved by a `hint` (the order
      in which the implementation ran the woken generators).  Every hint is valid by construction
      (it is used only as a tie-break of a sort by deadline); theorems quantify over all hints.
    * a `_WaitingGenerator` record is `Rec`; `record.generator = None` (voided by `start`) is
      `gen := none`.  Record identity is by the generator it carries (unique by the invariant
      proved in DesperProofs/Lemmas/CoroInv.lean).
    * a generator object is a *script*: a list of steps, each a list of in-body actions
      (`start h`, `kill h`, `state h` — also of itself; exceptions are caught by the body and
      logged) followed by `yield w?` or `return v?`.  `pc`, `fin` are the generator object's own
      state (its frame), which survives kill/start.
    * times are `Int` in units of 1/8 s (the harness feeds `k/8.0`, exact in binary).

  A step may also end in `raise X`: the exception leaves `next`; `process` drops the generator that
  raised from every table, brings the sentinel back to the front (coroutines.py:254-263, commit
  79d5dfb, D31) and is left with that exception (`Outcome.crashed X`, distinct from
  `Outcome.raised`, which is reserved for exceptions of the bookkeeping itself); the caller may go
  on calling `process`.
  Out of scope (stated in the plug-ins' ASSUMPTIONS): bodies that call `process` recursively,
  yielding non-numbers.
-/
namespace Desper.Coro
open Desper

abbrev Gen := Nat

inductive Act where
  | start (g : Gen)
  | kill (g : Gen)
  | state (g : Gen)
deriving Repr, DecidableEq, Inhabited

inductive Fin where
  | yield (w : Option Int)
  | ret (v : Option Int)
  /-- the body leaves with an exception that is not StopIteration (`desper.Quit`, `SwitchWorld`
  from `quit_loop()` / `switch()`, or any error) -/
  | raise (e : String)
deriving Repr, DecidableEq, Inhabited

structure Step where
  acts : List Act
  fin : Fin
deriving Repr, DecidableEq, Inhabited

abbrev Script := List Step

/-- `CoroutineState` : coroutines.py:18-22 -/
inductive CState where
  | terminated
  | paused
  | active
deriving Repr, DecidableEq, Inhabited

inductive Outcome where
  | ok
  | raised (e : String)
  | state (c : CState)
  | outOfFuel
  /-- an exception raised by a generator body propagated out of `process` -/
  | crashed (e : String)
deriving Repr, DecidableEq, Inhabited

/-- `_WaitingGenerator` : coroutines.py:52-60 -/
structure Rec where
  gen : Option Gen
  deadline : Int
deriving Repr, DecidableEq, Inhabited

inductive Entry where
  /-- the body of step `i` of generator `g` starts executing -/
  | step (g : Gen) (i : Nat)
  /-- result of an in-body action -/
  | act (g : Gen) (i : Nat) (a : Act) (r : Outcome)
  | yielded (g : Gen) (w : Option Int)
  /-- `g` returned `v`, stored in promise `p` (none: no promise was found) -/
  | returned (g : Gen) (v : Option Int)
  | stored (g : Gen) (p : Nat) (v : Option Int)
  /-- the body of `g` raised `e` -/
  | crashed (g : Gen) (e : String)
  /-- a successful `start` (handing out promise `p`) / `kill`, from outside or from a body -/
  | started (g : Gen) (p : Nat)
  | killed (g : Gen)
  /-- result of a top-level operation -/
  | res (r : Outcome)
  | value (vs : List (Option Int))
  | states (l : List CState)
deriving Repr, DecidableEq, Inhabited

structure Universe where
  /-- the generator objects of the program; `none`: not a generator object -/
  script : Gen → Option Script

structure St where
  gens : Gen → Option (Option Int) := fun _ => none
  active : List (Option Gen) := [none]
  waiting : List Rec := []
  kill : Gen → Bool := fun _ => false
  promises : Gen → Option Nat := fun _ => none
  timer : Int := 0
  /-- generator frames: next step to execute, exhausted flag -/
  pc : Gen → Nat := fun _ => 0
  fin : Gen → Bool := fun _ => false
  /-- promise objects: id counter, values (`None` initially), who they were handed out for -/
  nextPromise : Nat := 0
  values : Nat → Option Int := fun _ => none
  handed : List (Nat × Gen) := []
  /-- newest first -/
  log : List Entry := []

instance : Inhabited St := ⟨{}⟩

/-- coroutines.py:113-121 -/
def init : St := {}

def upd {α : Type} (f : Gen → α) (g : Gen) (v : α) : Gen → α :=
  fun x => if x = g then v else f x

def St.push (s : St) (e : Entry) : St := { s with log := e :: s.log }

/-- `state` : coroutines.py:177-197.  `Except.error` is the raised exception. -/
def stateOf (U : Universe) (s : St) (g : Gen) : Except String CState :=
  match U.script g with
  | none => .error "TypeError"                       -- :186-187
  | some _ =>
    match s.gens g with                              -- :189
    | none => .ok .terminated                        -- :190-191
    | some w =>
      if s.kill g then .ok .terminated               -- :190-191
      else match w with
        | none => .ok .active                        -- :194-195
        | some _ => .ok .paused                      -- :196-197

/-- `waiting_gen.generator = None` on the record of `g` -/
def voidRec (g : Gen) (r : Rec) : Rec :=
  if r.gen = some g then { r with gen := none } else r

/-- the tail of `start` : coroutines.py:146-149 -/
def startCommit (s : St) (g : Gen) : St × Outcome :=
  let p := s.nextPromise
  ({ s with gens := upd s.gens g (some none),          -- :146
            promises := upd s.promises g (some p),     -- :147-148
            nextPromise := p + 1, handed := (p, g) :: s.handed,
            log := .started g p :: s.log }, .ok)

/-- `start` : coroutines.py:123-149 -/
def start (U : Universe) (s : St) (g : Gen) : St × Outcome :=
  match stateOf U s g with                           -- :132
  | .error e => (s, .raised e)
  | .ok st =>
    if st ≠ .terminated then (s, .raised "ValueError")   -- :134-135
    else if s.kill g then                            -- :137
      let s := { s with kill := upd s.kill g false }   -- :139
      match s.gens g with                            -- :140
      | none => (s, .raised "KeyError")
      | some none => startCommit s g
      | some (some _) =>                             -- :141-143
        startCommit { s with waiting := s.waiting.map (voidRec g), active := s.active ++ [some g] } g
    else startCommit { s with active := s.active ++ [some g] } g   -- :144-145

/-- `kill` : coroutines.py:151-175 -/
def kill (U : Universe) (s : St) (g : Gen) : St × Outcome :=
  match U.script g with
  | none => (s, .raised "TypeError")                 -- :167-168
  | some _ =>
    if (s.gens g).isNone || s.kill g then (s, .raised "ValueError")   -- :171-173
    else ({ s with kill := upd s.kill g true, log := .killed g :: s.log }, .ok)   -- :175

/-- an in-body action: the body catches the exception and carries on -/
def execAct (U : Universe) (g : Gen) (i : Nat) (s : St) (a : Act) : St :=
  match a with
  | .start h => let (s', o) := start U s h; s'.push (.act g i a o)
  | .kill h => let (s', o) := kill U s h; s'.push (.act g i a o)
  | .state h =>
    match stateOf U s h with
    | .ok c => s.push (.act g i a (.state c))
    | .error e => s.push (.act g i a (.raised e))

def execActs (U : Universe) (g : Gen) (i : Nat) (s : St) (acts : List Act) : St :=
  acts.foldl (execAct U g i) s

inductive Next where
  | yield (w : Option Int)
  | stop (v : Option Int)
  /-- any other exception: it propagates out of `next` and out of `process` -/
  | crash (e : String)
deriving Repr, DecidableEq, Inhabited

/-- `next(gen)` on the generator object `g` -/
def runBody (U : Universe) (s : St) (g : Gen) : St × Next :=
  if s.fin g then (s, .stop none)                    -- exhausted generator: StopIteration(None)
  else
    let i := s.pc g
    match ((U.script g).getD [])[i]? with
    | none => ({ s with fin := upd s.fin g true }, .stop none)   -- body falls off its end
    | some st =>
      let s := { s with pc := upd s.pc g (i + 1), log := .step g i :: s.log }
      let s := execActs U g i s st.acts
      match st.fin with
      | .yield w => (s.push (.yielded g w), .yield w)
      | .ret v => ({ s with fin := upd s.fin g true, log := .returned g v :: s.log }, .stop v)
      -- a generator object that raised is finished: later `next` calls give StopIteration(None)
      | .raise e => ({ s with fin := upd s.fin g true, log := .crashed g e :: s.log }, .crash e)

/-! ### process : coroutines.py:199-272 -/

/-- position of the record's generator in the hint (tie-break among equal deadlines) -/
def rank (hint : List Gen) (r : Rec) : Nat :=
  match r.gen with
  | none => 0
  | some g => hint.idxOf g

def recLe (hint : List Gen) (a b : Rec) : Bool :=
  a.deadline < b.deadline || (a.deadline == b.deadline && rank hint a ≤ rank hint b)

def insertRec (hint : List Gen) (r : Rec) : List Rec → List Rec
  | [] => [r]
  | x :: xs => if recLe hint r x then r :: x :: xs else x :: insertRec hint r xs

/-- the order in which `heappop` hands out the due records -/
def sortRecs (hint : List Gen) (l : List Rec) : List Rec :=
  l.foldr (insertRec hint) []

/-- body of the wake-up loop for one popped record : coroutines.py:210-221 -/
def wakeOne (s : St) (r : Rec) : St × Outcome :=
  match r.gen with
  | none => (s, .ok)                                 -- :211-212 entry voided by start
  | some g =>
    if s.kill g then                                 -- :215
      match s.gens g with
      | none => (s, .raised "KeyError")              -- :216
      | some _ =>
        let s := { s with gens := upd s.gens g none, kill := upd s.kill g false }   -- :216-217
        match s.promises g with
        | none => (s, .raised "KeyError")            -- :218
        | some _ => ({ s with promises := upd s.promises g none }, .ok)
    else
      ({ s with active := s.active ++ [some g], gens := upd s.gens g (some none) }, .ok)  -- :220-221

def wakeAll (s : St) : List Rec → St × Outcome
  | [] => (s, .ok)
  | r :: rs =>
    match wakeOne s r with
    | (s', .ok) => wakeAll s' rs
    | (s', o) => ({ s' with waiting := rs ++ s'.waiting }, o)

/-- coroutines.py:205-224 -/
def wakePhase (s : St) (dt : Int) (hint : List Gen) : St × Outcome :=
  if s.waiting.isEmpty then (s, .ok)                 -- :205
  else
    let t := s.timer + dt                            -- :206
    let due := sortRecs hint (s.waiting.filter (fun r => r.deadline ≤ t))   -- :208-210
    let rest := s.waiting.filter (fun r => !decide (r.deadline ≤ t))
    match wakeAll { s with timer := t, waiting := rest } due with
    | (s', .ok) => (if s'.waiting.isEmpty then { s' with timer := 0 } else s', .ok)  -- :223-224
    | r => r

/-- `deque.rotate(-1)` -/
def rotl {α : Type} : List α → List α
  | [] => []
  | h :: t => t ++ [h]

/-- `wait is not None and wait > 0` : coroutines.py:266 -/
def positive : Option Int → Bool
  | some n => decide (n > 0)
  | none => false

/-- `deque.rotate(-deque.index(None))`: the sentinel comes to the front, the entries that were in
front of it go to the back, every relative order is kept -/
def frontNone (l : List (Option Gen)) : List (Option Gen) :=
  l.dropWhile (·.isSome) ++ l.takeWhile (·.isSome)

/-- result of one iteration of the run loop -/
inductive Iter where
  /-- the sentinel is in front: the loop ends -/
  | exit
  | next (s : St)
  | raise (s : St) (e : String)
  /-- the body raised: the generator that raised is dropped from every table, the sentinel is
  brought back to the front and `process` is left with that exception -/
  | crash (s : St) (e : String)

/-- one iteration of `while self._active_queue[0] is not None` : coroutines.py:234-272 -/
def iter (U : Universe) (s : St) : Iter :=
  match s.active with
  | [] => .raise s "IndexError"                      -- :234
  | none :: _ => .exit
  | some g :: tl =>                                  -- :235
    if s.kill g then                                 -- :238
      match s.gens g with
      | none => .raise s "KeyError"                  -- :239
      | some _ =>
        let s := { s with gens := upd s.gens g none, kill := upd s.kill g false,
                          active := tl }             -- :239-241
        match s.promises g with
        | none => .raise s "KeyError"                -- :242
        | some _ => .next { s with promises := upd s.promises g none }   -- :242-243
    else
      match runBody U s g with                       -- :246
      | (s, .stop v) =>
        match s.active with                          -- :248 popleft
        | [] => .raise s "IndexError"
        | none :: tl' => .raise { s with active := tl' } "KeyError"
        | some g' :: tl' =>
          let s := { s with active := tl' }
          match s.gens g' with
          | none => .raise s "KeyError"              -- :249
          | some _ =>
            let s := { s with gens := upd s.gens g' none, kill := upd s.kill g' false }  -- :249-250
            match s.promises g' with
            | none => .raise s "KeyError"            -- :251
            | some p =>
              .next { s with values := fun q => if q = p then v else s.values q,
                             promises := upd s.promises g' none,
                             log := .stored g' p v :: s.log }   -- :251-252
      | (s, .crash e) =>                             -- :254 any other exception
        match s.active with                          -- :258 popleft
        | [] => .raise s "IndexError"
        | none :: tl' => .raise { s with active := tl' } "KeyError"
        | some g' :: tl' =>
          let s := { s with active := tl' }
          match s.gens g' with
          | none => .raise s "KeyError"              -- :259
          | some _ =>
            let s := { s with gens := upd s.gens g' none, kill := upd s.kill g' false }  -- :259-260
            match s.promises g' with
            | none => .raise s "KeyError"            -- :261
            | some _ =>
              let s := { s with promises := upd s.promises g' none }
              if s.active.contains none then         -- :262 rotate(-index(None))
                .crash { s with active := frontNone s.active } e      -- :263 raise
              else .raise s "ValueError"
      | (s, .yield w) =>
        if positive w then                           -- :266
          let d := w.getD 0 + s.timer                -- :267
          .next { s with waiting := ⟨some g, d⟩ :: s.waiting,     -- :268
                         gens := upd s.gens g (some (some d)),    -- :269
                         active := s.active.tail }                -- :270
        else .next { s with active := rotl s.active }             -- :272

/-- the run loop : coroutines.py:234-272.  Fuel: the number of iterations is bounded by the
number of entries in front of the sentinel (proved: never exhausted). -/
def loop (U : Universe) : Nat → St → St × Outcome
  | 0, s => (s, .outOfFuel)
  | fuel + 1, s =>
    match iter U s with
    | .exit => (s, .ok)
    | .raise s e => (s, .raised e)
    | .crash s e => (s, .crashed e)
    | .next s => loop U fuel s

/-- `process` : coroutines.py:199-272 -/
def process (U : Universe) (s : St) (dt : Int) (hint : List Gen) : St × Outcome :=
  match wakePhase s dt hint with
  | (s, .ok) =>
    let s := { s with active := rotl s.active }      -- :231
    loop U (s.active.length + 1) s
  | r => r

/-! ### top-level operations -/

inductive Op where
  | start (g : Gen)
  | kill (g : Gen)
  | state (g : Gen)
  | process (dt : Int) (hint : List Gen)
  | value (g : Gen)
deriving Repr, DecidableEq, Inhabited

def execOp (U : Universe) (s : St) : Op → St
  | .start g => let (s', o) := start U s g; s'.push (.res o)
  | .kill g => let (s', o) := kill U s g; s'.push (.res o)
  | .state g =>
    match stateOf U s g with
    | .ok c => s.push (.res (.state c))
    | .error e => s.push (.res (.raised e))
  | .process dt hint => let (s', o) := process U s dt hint; s'.push (.res o)
  | .value g =>
    s.push (.value ((s.handed.reverse.filter (fun p => p.2 = g)).map (fun p => s.values p.1)))

def run (U : Universe) (s : St) (ops : List Op) : St :=
  ops.foldl (execOp U) s

/-! ### vocabulary of the theorems (DesperProofs/Props/C08.lean, C09.lean) -/

/-- the generator object `g` still has code to run: `next(g)` executes a step -/
def hasCode (U : Universe) (s : St) (g : Gen) : Prop :=
  s.fin g = false ∧ s.pc g < ((U.script g).getD []).length

instance (U : Universe) (s : St) (g : Gen) : Decidable (hasCode U s g) := by
  unfold hasCode; infer_instance

/-- no body of the program ever leaves with an exception -/
class NoRaise (U : Universe) : Prop where
  out : ∀ g sc, U.script g = some sc → ∀ st ∈ sc, ∀ e, st.fin ≠ .raise e

/-- the step that `next(g)` would execute now -/
def curStep (U : Universe) (s : St) (g : Gen) : Option Step :=
  ((U.script g).getD [])[s.pc g]?

/-- `g` is in the deque when the run loop of a `process(dt)` call starts: it is queued as
runnable, or its wait elapses in this call and no kill is pending for it -/
def runnableIn (s : St) (dt : Int) (g : Gen) : Prop :=
  some g ∈ s.active ∨ ∃ d, (⟨some g, d⟩ : Rec) ∈ s.waiting ∧ d ≤ s.timer + dt ∧ s.kill g = false

def isStarted (g : Gen) : Entry → Bool
  | .started g' _ => g' == g
  | _ => false

/-- number of successful `start`s of `g` so far, from outside or from a body -/
def nStart (s : St) (g : Gen) : Nat := s.log.countP (isStarted g)

/-- `state g` reads TERMINATED for the generator object `g`: unknown to the processor, or marked -/
def Dead (g : Gen) (s : St) : Prop := s.gens g = none ∨ s.kill g = true

/-- the most recent successful `start` (`some true`) or `kill` (`some false`) of `g` in a log
(newest first); `none`: never started -/
def lastLife (g : Gen) : List Entry → Option Bool
  | [] => none
  | .started g' _ :: t => if g' = g then some true else lastLife g t
  | .killed g' :: t => if g' = g then some false else lastLife g t
  | _ :: t => lastLife g t

/-- the promise handed out by the most recent successful `start` of `g` in a log (newest first) -/
def lastPromise (g : Gen) : List Entry → Option Nat
  | [] => none
  | .started g' p :: t => if g' = g then some p else lastPromise g t
  | _ :: t => lastPromise g t

/-- the generators whose bodies executed a step, newest first (the execution log of the bodies) -/
def stepGens (log : List Entry) : List Gen :=
  log.filterMap fun e => match e with
    | .step g _ => some g
    | _ => none

/-- the dt accumulated by a list of top-level operations -/
def elapsed : List Op → Int
  | [] => 0
  | .process dt _ :: rest => dt + elapsed rest
  | _ :: rest => elapsed rest

def nonnegDt : Op → Prop
  | .process dt _ => 0 ≤ dt
  | _ => True

/-! ### line protocol -/
open Proto

/-- a number of the scenario text: an integer (units of 1/8 s), optionally preceded by the letter
that tells the harness which Python type to use for it (`F` fractions.Fraction, `I` int, `B` bool;
none: float).  The value is all the model needs: it works over exact integers. -/
def num? (t : String) : Option Int :=
  if t.startsWith "F" || t.startsWith "I" || t.startsWith "B" then (t.drop 1).toString.toInt?
  else t.toInt?

def optInt? (t : String) : Option (Option Int) :=
  if t = "N" then some none else (num? t).map some

def parseAct : List String → Option Act
  | ["start", g] => g.toNat?.map .start
  | ["kill", g] => g.toNat?.map .kill
  | ["state", g] => g.toNat?.map .state
  | _ => none

def splitOnTok (sep : String) (toks : List String) : List (List String) :=
  toks.foldr (fun t acc =>
      if t = sep then [] :: acc else match acc with
        | [] => [[t]]
        | g :: gs => (t :: g) :: gs) [[]]

/-- `act ; act ; yield w` -/
def parseStep (toks : List String) : Option Step :=
  let parts := (splitOnTok ";" toks).filter (· ≠ [])
  match parts.reverse with
  | [] => none
  | last :: revActs =>
    match revActs.reverse.mapM parseAct with
    | none => none
    | some acts =>
      match last with
      | ["yield", w] => (optInt? w).map fun w => ⟨acts, .yield w⟩
      | ["ret", v] => (optInt? v).map fun v => ⟨acts, .ret v⟩
      | ["raise", e] => some ⟨acts, .raise e⟩
      | _ => none

def parseScript (toks : List String) : Option Script :=
  ((splitOnTok "|" toks).filter (· ≠ [])).mapM parseStep

def parseOp (hint : List Gen) : List String → Option Op
  | ["start", g] => g.toNat?.map .start
  | ["kill", g] => g.toNat?.map .kill
  | ["state", g] => g.toNat?.map .state
  | ["value", g] => g.toNat?.map .value
  | ["process", dt] => (num? dt).map (.process · hint)
  | _ => none

/-- operations of the scenario text.  Besides the operations of one processor (`Op`): a world that
holds the processor — `dstart g` starts `g` through the `@desper.coroutine` decorator, i.e. on the
world's *current* CoroutineProcessor (AssertionError when it has none), `replace` puts a fresh
CoroutineProcessor in its place (`world.add_processor(CoroutineProcessor())`: a new, empty
processor state; the generator objects keep their own progress), `remove` takes it away. -/
inductive POp where
  | core (op : Op)
  | dstart (g : Gen)
  | replace
  | remove
deriving Repr, Inhabited

structure Parsed where
  scripts : List Script := []
  hints : List (List Gen) := []
  /-- reversed; process ops carry the index of their hint -/
  ops : List (List String) := []
  bad : Bool := false

def parseLine (p : Parsed) (line : String) : Parsed :=
  match tokens line with
  | "gen" :: g :: ":" :: rest =>
    match g.toNat?, parseScript rest with
    | some g, some sc =>
      if g = p.scripts.length then { p with scripts := p.scripts ++ [sc] } else { p with bad := true }
    | _, _ => { p with bad := true }
  | ["hint", l] =>
    match natList? l with
    | some h => { p with hints := p.hints ++ [h] }
    | none => { p with bad := true }
  | "op" :: rest => { p with ops := rest :: p.ops }
  | ["world"] => p                                   -- the processor lives in a World (harness side)
  | ["unit", _] => p                                 -- length of one time unit in seconds (harness side)
  | [] => p
  | _ => { p with bad := true }

def parsePOp (hint : List Gen) : List String → Option POp
  | ["dstart", g] => g.toNat?.map .dstart
  | ["dstart0", g] => g.toNat?.map .dstart
  | ["replace"] => some .replace
  | ["remove"] => some .remove
  | toks => (parseOp hint toks).map .core

/-- attach the k-th hint to the k-th process op -/
def buildOps : List (List String) → List (List Gen) → Option (List POp)
  | [], _ => some []
  | toks :: rest, hints =>
    match toks with
    | ["process", _] =>
      match parsePOp (hints.headD []) toks, buildOps rest hints.tail with
      | some op, some ops => some (op :: ops)
      | _, _ => none
    | _ =>
      match parsePOp [] toks, buildOps rest hints with
      | some op, some ops => some (op :: ops)
      | _, _ => none

def showOptInt : Option Int → String
  | none => "N"
  | some n => toString n

def showCState : CState → String
  | .terminated => "T"
  | .paused => "P"
  | .active => "A"

def showOutcome : Outcome → String
  | .ok => "ok"
  | .raised e => s!"raised {e}"
  | .state c => showCState c
  | .outOfFuel => "hang"
  | .crashed e => s!"raised {e}"

def showAct : Act → String
  | .start g => s!"start {g}"
  | .kill g => s!"kill {g}"
  | .state g => s!"state {g}"

def showEntry : Entry → Option String
  | .step g i => some s!"step {g} {i}"
  | .act g i a r => some s!"act {g} {i} {showAct a} {showOutcome r}"
  | .res r => some s!"res {showOutcome r}"
  | .value vs => some s!"res value {joinList (vs.map showOptInt)}"
  | .states l => some s!"states {joinList (l.map showCState)}"
  | _ => none

def Parsed.universe (p : Parsed) : Universe :=
  { script := fun g => p.scripts[g]? }

/-- what the harness sees after every top-level operation: the state of every generator -/
def statesOf (U : Universe) (n : Nat) (s : St) : List CState :=
  (List.range n).map fun g =>
    match stateOf U s g with
    | .ok c => c
    | .error _ => .terminated

/-- generators the processor still references in any of its tables -/
def retained (n : Nat) (s : St) : List Gen :=
  (List.range n).filter fun g =>
    (s.gens g).isSome || s.active.contains (some g) || s.waiting.any (fun r => r.gen = some g)
      || s.kill g || (s.promises g).isSome

/-- a fresh CoroutineProcessor: empty tables; generator objects, promises handed out so far and
the log are the program's, not the processor's -/
def freshProcessor (s : St) : St :=
  { s with gens := init.gens, active := init.active, waiting := init.waiting, kill := init.kill,
           promises := init.promises, timer := init.timer }

/-- one scenario operation; `hasProc`: the world currently has a CoroutineProcessor -/
def execPOp (U : Universe) (s : St) (hasProc : Bool) : POp → St × Bool
  | .core op =>
    if hasProc then (execOp U s op, true)
    else match op with
      | .process _ _ => (s.push (.res .ok), false)   -- world.process(): no coroutine processor to run
      | .value _ => (execOp U s op, false)
      | _ => (s.push (.res (.raised "AttributeError")), false)
  | .dstart g =>
    if hasProc then (execOp U s (.start g), true)
    else (s.push (.res (.raised "AssertionError")), false)   -- coroutines.py:313-314
  | .replace => ((freshProcessor s).push (.res .ok), true)
  | .remove => ((freshProcessor s).push (.res .ok), false)

/-- one processor (one world) -/
def runOne (lines : List String) : List String :=
  let p := lines.foldl parseLine {}
  if p.bad then ["bad-op"] else
  match buildOps p.ops.reverse p.hints with
  | none => ["bad-op"]
  | some ops =>
    let U := p.universe
    let n := p.scripts.length
    let r := ops.foldl (fun (sp : St × Bool) op =>
      let (s', hp) := execPOp U sp.1 sp.2 op
      (s'.push (.states (if hp then statesOf U n s' else (List.range n).map fun _ => .terminated)), hp))
      (init, true)
    r.1.log.reverse.filterMap showEntry ++
      [s!"retained {showNats (if r.2 then retained n r.1 else [])}"]

/-- the instance a scenario line belongs to (`@k ...`; none: instance 0) and the line without the mark -/
def instanceOf (line : String) : Nat × String :=
  match tokens line with
  | t :: rest =>
    if t.startsWith "@" then
      match (t.drop 1).toString.toNat? with
      | some k => (k, " ".intercalate rest)
      | none => (0, line)
    else (0, line)
  | [] => (0, line)

/-- Several CoroutineProcessor instances in one program are several independent model states: the
lines marked `@k` are the scenario of instance `k`; every instance is run on its own and its
observations are given back marked in the same way (instance 0 unmarked).  Whatever one instance
does is invisible to the others. -/
def runScenario (lines : List String) : List String :=
  let marked := lines.map instanceOf
  let ids := marked.foldl (fun acc m => if acc.contains m.1 then acc else acc ++ [m.1]) [0]
  ids.flatMap fun k =>
    let out := runOne ((marked.filter (·.1 = k)).map (·.2))
    if k = 0 then out else out.map fun o => s!"@{k} {o}"

end Desper.Coro
