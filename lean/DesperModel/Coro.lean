import DesperModel.Dict
import DesperModel.Proto
namespace Desper.Coro
def runScenario (_lines : List String) : List String := ["not-implemented"]
end Desper.Coro
