import DesperModel.Proto
/-
  Model of `desper/loop.py` (switch, quit_loop, Loop, SimpleLoop) together with the handle cache
  of `desper/model/tree.py:40-56`, `WorldHandle.load` (`desper/model/world.py:44-61`) and the
  part of `desper/events.py` that makes a disabled dispatcher hold its events (97-136).

  Mirrors, statement by statement (line numbers of `desper/loop.py` after the `fix:` commits
  2f4005b (D16), df8dc89 (D15), 0ba2868 (D25)):
    Handle.__call__ / clear      model/tree.py:40-51           callHandle / clearHandle
    WorldHandle.load             model/world.py:44-61          (inside callHandle)
    EventDispatcher.dispatch     events.py:97-121              dispatchWith
    dispatch_enabled setter      events.py:127-145             disable / release / enable
    quit_loop                    loop.py:18-34                 quitWith, act (.quit, .quitTo)
    switch                       loop.py:37-83                 restartOf, switchOut, switchIn, doSwitch
    World.process                logic/world.py:503-513        processWorld / runProcs / runProc
    Loop.start                   loop.py:127-139               start
    Loop.switch                  loop.py:148-176               loopSwitch
    SimpleLoop.start             loop.py:203-211               start
    SimpleLoop.loop              loop.py:213-244               loopStep / loopRun / handleSwitch
    SimpleLoop.switch            loop.py:246-254               simpleSwitch

  World instances are named `(handle, load number)`.  Each world has one passive listener that
  listens to every event name used here: a delivery is a log entry `ev instance event args`
  followed by the scripted reaction of that delivery (`react n` for the n-th delivery overall):
  nothing, `switch(...)`, `raise SwitchWorld(...)`, `quit_loop()`, `quit_loop(h())`, `raise Quit`,
  `raise Other`.  Re-entrancy (a callback that switches, whose on_switch_out callback quits, ...)
  is real recursion bounded by a fuel that stands for "the user's callbacks terminate".
  The clock is a finite list of frames (one per iteration, with that iteration's script); a frame
  carries the reading of each of the scenario's two time functions and `St.clock` says which of
  them is `loop.time_function` now; the time functions raise `ClockExhausted` when the list is used
  up, which ends the run like any other exception — so the loop itself is a structural recursion
  over the frame list.  Processors (plain ones and coroutine steps) may, besides user code, call
  the public API of the running loop without raising (`PAct`): `loop.switch(handle, cc, cn)` — the
  method itself: the frame goes on, the next iteration processes the new current world —,
  `loop.time_function = …` and reading `loop.current_world`.
-/
namespace Desper.Loop
open Desper

abbrev Handle := Nat

/-- a world instance: the `n`-th world loaded by handle `h` (printed `h#n`) -/
structure Inst where
  h : Handle
  n : Nat
deriving DecidableEq, Repr, Inhabited

inductive Ev where
  | worldLoad | switchIn | switchOut | quit | update
  | custom (k : Nat)
deriving DecidableEq, Repr, Inhabited

inductive Args where
  | unit
  | worlds (frm : Option Inst) (to : Inst)
  | loaded (h : Handle) (i : Inst)
  | dt (d : Int)
  | tok (k : Nat)
deriving DecidableEq, Repr, Inhabited

inductive Exc where
  | quit
  | switch (h : Handle) (cc cn : Bool)
  | other
  | attributeError
  | clockExhausted
  /-- a world instance that was never loaded was addressed: unreachable, never defaulted -/
  | noWorld
deriving DecidableEq, Repr, Inhabited

inductive Outcome where
  | ok
  | raised (e : Exc)
  | outOfFuel
deriving DecidableEq, Repr, Inhabited

/-- what a processor, a callback or a coroutine step does -/
inductive Act where
  | none
  | switch (h : Handle) (cc cn : Bool)
  | raiseSwitch (h : Handle) (cc cn : Bool)
  | quit
  | quitTo (h : Handle)
  | raiseQuit
  | raiseOther
deriving DecidableEq, Repr, Inhabited

/-- what a processor (plain or coroutine step) does in a frame: user code as above, or a call of the
public API of the running loop that does not raise: `loop.switch(handle, cc, cn)` (the method),
`loop.time_function = <clock k>`, reading `loop.current_world` -/
inductive PAct where
  | user (a : Act)
  | loopSwitch (h : Handle) (cc cn : Bool)
  | setClock (k : Nat)
  | peek
deriving DecidableEq, Repr, Inhabited

inductive ProcKind where
  | plain | update | coro
deriving DecidableEq, Repr, Inhabited

structure World where
  enabled : Bool
  queue : List (Ev × Args)
  /-- coroutine processors whose generator ended with an exception -/
  dead : List Nat
deriving DecidableEq, Repr, Inhabited

inductive Entry where
  | load (i : Inst)
  | ev (i : Inst) (e : Ev) (a : Args)
  | frame (i : Inst) (dt : Int)
  | proc (i : Inst) (p : Nat) (dt : Int)
  /-- model-only marker: `Loop.switch` made `i` the current world -/
  | enter (i : Inst)
  /-- the loop read its (current) time function and got `r` -/
  | tick (r : Int)
  /-- a processor read `loop.current_world` -/
  | peek (cur : Option Inst)
  | ret (o : Outcome) (running : Bool) (cur : Option Inst) (h : Option Handle)
  | res (o : Outcome) (cur : Option Inst) (h : Option Handle)
deriving DecidableEq, Repr, Inhabited

/-- one iteration's worth of scenario: what the time function number 0 (`reading`) and number 1
(`alt`) return when the loop reads the clock, and what processor 0, 1, .. does -/
structure Frame where
  reading : Int
  alt : Int
  acts : List PAct
deriving DecidableEq, Repr, Inhabited

structure Universe where
  /-- events dispatched by the transform functions of handle `h` while its world is loaded -/
  loadEvents : Handle → List (Ev × Args)
  /-- processors of the worlds of handle `h`, in priority order -/
  procs : Handle → List ProcKind
  /-- reaction of the n-th delivery (counted over the whole scenario) -/
  react : Nat → Act

def upd {α β : Type} [DecidableEq α] (f : α → β) (a : α) (b : β) : α → β :=
  fun x => if x = a then b else f x

structure St where
  worlds : Inst → Option World := fun _ => none
  /-- `Handle._cached/_cache`: the load number of the cached instance -/
  cache : Handle → Option Nat := fun _ => none
  loads : Handle → Nat := fun _ => 0
  current : Option Inst := none
  currentHandle : Option Handle := none
  running : Bool := false
  last : Option Int := none
  /-- which of the scenario's time functions is `loop.time_function` -/
  clock : Nat := 0
  delivered : Nat := 0
  /-- newest first -/
  log : List Entry := []

/-- `Handle.__call__` model/tree.py:40-46; the `load` of the scenario's handles is
`WorldHandle.load` model/world.py:44-61: a new world with dispatching disabled, the transform
functions (their events are queued), `dispatch('on_world_load', handle, world)` (queued). -/
def callHandle (U : Universe) (s : St) (h : Handle) : St × Inst :=
  match s.cache h with
  | some n => (s, ⟨h, n⟩)
  | none =>
    let n := s.loads h + 1
    let i : Inst := ⟨h, n⟩
    let w : World := { enabled := false, queue := U.loadEvents h ++ [(.worldLoad, .loaded h i)],
                       dead := [] }
    ({ s with loads := upd s.loads h n, worlds := upd s.worlds i (some w),
              cache := upd s.cache h (some n), log := .load i :: s.log }, i)

/-- `Handle.clear` model/tree.py:48-51 -/
def clearHandle (s : St) (h : Handle) : St := { s with cache := upd s.cache h none }

def setWorld (s : St) (i : Inst) (w : World) : St := { s with worlds := upd s.worlds i (some w) }

/-- `world.dispatch_enabled = False` events.py:122-131 -/
def disable (s : St) (i : Inst) : St × Outcome :=
  match s.worlds i with
  | none => (s, .raised .noWorld)
  | some w => (setWorld s i { w with enabled := false }, .ok)

/-- `EventDispatcher.dispatch` events.py:97-116 for a world with one listener; `k` runs the
reaction of the delivery. -/
def dispatchWith (U : Universe) (k : St → Act → St × Outcome) (s : St) (i : Inst) (e : Ev)
    (a : Args) : St × Outcome :=
  match s.worlds i with
  | none => (s, .raised .noWorld)
  | some w =>
    if !w.enabled then (setWorld s i { w with queue := w.queue ++ [(e, a)] }, .ok)
    else k { s with delivered := s.delivered + 1, log := .ev i e a :: s.log } (U.react s.delivered)

/-- `quit_loop(target)` loop.py: `target.dispatch('on_quit')`, then `raise Quit()` -/
def quitWith (U : Universe) (k : St → Act → St × Outcome) (s : St) (i : Inst) : St × Outcome :=
  match dispatchWith U k s i .quit .unit with
  | (s', .ok) => (s', .raised .quit)
  | r => r

/-- `switch()`: `target_handle.cached and target_handle() is from_world` under `clear_current` -/
def restartOf (s : St) (h : Handle) (cc : Bool) : Bool :=
  cc && (match s.cache h with
    | some n => decide (s.current = some ⟨h, n⟩)
    | none => false)

/-- `switch()`: `if from_world is not None:` dispatch on_switch_out(from, to) in the world being
left, then `from_world.dispatch_enabled = False` -/
def switchOut (U : Universe) (k : St → Act → St × Outcome) (s : St) (frm : Option Inst)
    (to : Inst) : St × Outcome :=
  match frm with
  | none => (s, .ok)
  | some f =>
    match dispatchWith U k s f .switchOut (.worlds (some f) to) with
    | (s2, .ok) => disable s2 f
    | r => r

/-- `switch()`: `to_world.dispatch_enabled = False`, dispatch on_switch_in(from, to) in it (it is
queued), `raise SwitchWorld(target_handle, clear_current and not restart, False)` -/
def switchIn (U : Universe) (k : St → Act → St × Outcome) (s : St) (frm : Option Inst) (to : Inst)
    (h : Handle) (cc : Bool) : St × Outcome :=
  match disable s to with
  | (s4, .ok) =>
    match dispatchWith U k s4 to .switchIn (.worlds frm to) with
    | (s5, .ok) => (s5, .raised (.switch h cc false))
    | r => r
  | r => r

/-- `switch(target_handle, clear_current, clear_next)` with `from_world=None`:
`from_world = desper.default_loop.current_world`; a handle that is to be cleared is cleared
before it is loaded (D15 repair) — a world that switches to its own handle with `clear_current`
asks for the same thing; `to_world = target_handle()`; then the two halves above. -/
def doSwitch (U : Universe) (k : St → Act → St × Outcome) (s : St) (h : Handle) (cc cn : Bool) :
    St × Outcome :=
  let restart := restartOf s h cc
  let s0 := if cn || restart then clearHandle s h else s
  let r := callHandle U s0 h
  match switchOut U k r.1 s.current r.2 with
  | (s3, .ok) => switchIn U k s3 s.current r.2 h (cc && !restart)
  | r => r

/-- One action of user code.  The state at the stop point is always returned. -/
def act (U : Universe) : Nat → St → Act → St × Outcome
  | 0, s, _ => (s, .outOfFuel)
  | fuel + 1, s, a =>
    match a with
    | .none => (s, .ok)
    | .raiseQuit => (s, .raised .quit)
    | .raiseOther => (s, .raised .other)
    | .raiseSwitch h cc cn => (s, .raised (.switch h cc cn))
    | .quit =>
      -- quit_loop(): target = desper.default_loop.current_world; `if target is not None:`
      match s.current with
      | none => (s, .raised .quit)
      | some i => quitWith U (act U fuel) s i
    | .quitTo h =>
      -- quit_loop(handle()): the argument expression loads the handle if it is not cached
      let r := callHandle U s h
      quitWith U (act U fuel) r.1 r.2
    | .switch h cc cn => doSwitch U (act U fuel) s h cc cn

def dispatch (U : Universe) (fuel : Nat) (s : St) (i : Inst) (e : Ev) (a : Args) : St × Outcome :=
  dispatchWith U (act U fuel) s i e a

def markDead (s : St) (i : Inst) (p : Nat) : St :=
  match s.worlds i with
  | none => s
  | some w => setWorld s i { w with dead := p :: w.dead }

/-- `Loop.switch` -/
def loopSwitch (U : Universe) (s : St) (h : Handle) (cc cn : Bool) : St :=
  let s1 := if cc then
      match s.currentHandle with
      | some ch => clearHandle s ch
      | none => s
    else s
  let s2 := if cn then clearHandle s1 h else s1
  let (s3, i) := callHandle U { s2 with currentHandle := some h } h
  { s3 with current := some i, log := .enter i :: s3.log }

/-- the enabling assignment events.py:122-136 (repaired setter: pop one queued event at a time
while enabled) -/
def release (U : Universe) (fuel : Nat) : Nat → St → Inst → St × Outcome
  | 0, s, _ => (s, .outOfFuel)
  | n + 1, s, i =>
    match s.worlds i with
    | none => (s, .raised .noWorld)
    | some w =>
      match w.queue with
      | [] => (s, .ok)
      | (e, a) :: q =>
        if !w.enabled then (s, .ok)
        else
          match dispatch U fuel (setWorld s i { w with queue := q }) i e a with
          | (s', .ok) => release U fuel n s' i
          | r => r

/-- `world.dispatch_enabled = True` -/
def enable (U : Universe) (fuel : Nat) (s : St) (i : Inst) : St × Outcome :=
  match s.worlds i with
  | none => (s, .raised .noWorld)
  | some w => release U fuel fuel (setWorld s i { w with enabled := true }) i

/-- `SimpleLoop.switch`: `super().switch(...)`, then `world_handle().dispatch_enabled = True` -/
def simpleSwitch (U : Universe) (fuel : Nat) (s : St) (h : Handle) (cc cn : Bool) : St × Outcome :=
  let s1 := loopSwitch U s h cc cn
  let (s2, i) := callHandle U s1 h
  enable U fuel s2 i

/-- a processor's action: user code, or a non-raising call of the loop's public API -/
def pact (U : Universe) (fuel : Nat) (s : St) : PAct → St × Outcome
  | .user a => act U fuel s a
  -- `loop.switch(handle, cc, cn)` called directly: no exception, the frame goes on
  | .loopSwitch h cc cn => simpleSwitch U fuel s h cc cn
  -- `loop.time_function = clocks[k]`
  | .setClock k => ({ s with clock := k }, .ok)
  -- `loop.current_world` is read (and logged by the scenario's processor)
  | .peek => ({ s with log := .peek s.current :: s.log }, .ok)

/-- `Processor.process(dt)` of processor number `p` of instance `i`: the scenario's processors log
the call, then a plain processor performs the frame's action, an `OnUpdateProcessor`
(logic/__init__.py:333-341) dispatches `on_update(dt)`, a `CoroutineProcessor` advances its
generator by one step (the step performs the action; an exception ends the generator for good). -/
def runProc (U : Universe) (fuel : Nat) (s : St) (i : Inst) (dt : Int) (p : Nat) (k : ProcKind)
    (a : PAct) : St × Outcome :=
  let s := { s with log := .proc i p dt :: s.log }
  match k with
  | .plain => pact U fuel s a
  | .update => dispatch U fuel s i .update (.dt dt)
  | .coro =>
    match s.worlds i with
    | none => (s, .raised .noWorld)
    | some w =>
      if w.dead.contains p then (s, .ok)
      else
        match pact U fuel s a with
        | (s', .ok) => (s', .ok)
        | (s', .outOfFuel) => (s', .outOfFuel)
        | (s', o) => (markDead s' i p, o)

/-- `for processor in self._sorted_processors: processor.process(dt)` logic/world.py:512-513 -/
def runProcs (U : Universe) (fuel : Nat) (i : Inst) (dt : Int) :
    St → Nat → List ProcKind → List PAct → St × Outcome
  | s, _, [], _ => (s, .ok)
  | s, p, k :: ks, acts =>
    match runProc U fuel s i dt p k (acts.headD (.user .none)) with
    | (s', .ok) => runProcs U fuel i dt s' (p + 1) ks acts.tail
    | r => r

/-- `World.process(dt)` logic/world.py:503-513 (no dead entities in these scenarios) -/
def processWorld (U : Universe) (fuel : Nat) (s : St) (i : Inst) (dt : Int) (acts : List PAct) :
    St × Outcome :=
  runProcs U fuel i dt { s with log := .frame i dt :: s.log } 0 (U.procs i.h) acts

/-- the `except SwitchWorld` clause of `SimpleLoop.loop` (D25 repair: a callback released while
a world is entered may request a switch itself; that request is served as well) -/
def handleSwitch (U : Universe) (fuel : Nat) : Nat → St → Handle → Bool → Bool → St × Outcome
  | 0, s, _, _, _ => (s, .outOfFuel)
  | n + 1, s, h, cc, cn =>
    match simpleSwitch U fuel s h cc cn with
    | (s', .raised (.switch h' cc' cn')) => handleSwitch U fuel n s' h' cc' cn'
    | r => r

/-- the delta time of a frame: loop.py `if self.last_timestamp is None: dt = 0 else ...` -/
def dtOf (last : Option Int) (reading : Int) : Int :=
  match last with
  | none => 0
  | some l => reading - l

/-- what `self.time_function()` returns for this iteration: the reading of the installed clock -/
def readingOf (c : Nat) (f : Frame) : Int := if c = 0 then f.reading else f.alt

/-- `timestamp = self.time_function()` … `self.last_timestamp = timestamp` -/
def tickSt (s : St) (r : Int) : St := { s with last := some r, log := .tick r :: s.log }

/-- one iteration of `while True:` in `SimpleLoop.loop`: the clock that is installed *now* is read,
`process` of the world that is current *now* is called -/
def loopStep (U : Universe) (fuel : Nat) (s : St) (f : Frame) : St × Outcome :=
  let r := readingOf s.clock f
  match s.current with
  | none => (tickSt s r, .raised .attributeError)
  | some i =>
    match processWorld U fuel (tickSt s r) i (dtOf s.last r) f.acts with
    | (s', .raised (.switch h cc cn)) => handleSwitch U fuel fuel s' h cc cn
    | r => r

/-- `SimpleLoop.loop`: the time function raises `ClockExhausted` when the readings are used up -/
def loopRun (U : Universe) (fuel : Nat) : St → List Frame → St × Outcome
  | s, [] => (s, .raised .clockExhausted)
  | s, f :: fs =>
    match loopStep U fuel s f with
    | (s', .ok) => loopRun U fuel s' fs
    | r => r

/-- `SimpleLoop.start` around `Loop.start` (D16 repair: both resets are in `finally` clauses) -/
def start (U : Universe) (fuel : Nat) (s : St) (frames : List Frame) : St × Outcome :=
  let (s', o) := loopRun U fuel { s with running := true } frames
  let s'' := { s' with running := false, last := none }
  match o with
  | .raised .quit => (s'', .ok)
  | o => (s'', o)

inductive Op where
  | load (h : Handle)
  | switch (h : Handle) (cc cn : Bool)
  | start (frames : List Frame)
deriving Repr, Inhabited

def St.push (s : St) (e : Entry) : St := { s with log := e :: s.log }

/-- top-level operation of the test program: its outcome is logged -/
def topOp (U : Universe) (fuel : Nat) (s : St) : Op → St
  | .load h =>
    let (s', _) := callHandle U s h
    s'.push (.res .ok s'.current s'.currentHandle)
  | .switch h cc cn =>
    let (s', o) := simpleSwitch U fuel s h cc cn
    s'.push (.res o s'.current s'.currentHandle)
  | .start frames =>
    let (s', o) := start U fuel s frames
    s'.push (.ret o s'.running s'.current s'.currentHandle)

def run (U : Universe) (fuel : Nat) (s : St) (ops : List Op) : St :=
  ops.foldl (topOp U fuel) s

/-! ### line protocol -/
open Proto

def parseAct : List String → Option Act
  | ["none"] => some .none
  | ["switch", h, cc, cn] => do some (.switch (← h.toNat?) (← bool? cc) (← bool? cn))
  | ["rswitch", h, cc, cn] => do some (.raiseSwitch (← h.toNat?) (← bool? cc) (← bool? cn))
  | ["quit"] => some .quit
  | ["quitto", h] => h.toNat?.map .quitTo
  | ["rquit"] => some .raiseQuit
  | ["rother"] => some .raiseOther
  | _ => none

/-- `act ; act ; act` -/
def parseActs (toks : List String) : Option (List Act) :=
  let groups := toks.foldr (fun t acc =>
      if t = ";" then [] :: acc else match acc with
        | [] => [[t]]
        | g :: gs => (t :: g) :: gs) [[]]
  (groups.filter (· ≠ [])).mapM parseAct

def parsePAct : List String → Option PAct
  | ["lswitch", h, cc, cn] => do some (.loopSwitch (← h.toNat?) (← bool? cc) (← bool? cn))
  | ["setclock", k] => k.toNat?.map .setClock
  | ["peek"] => some .peek
  | toks => (parseAct toks).map .user

/-- `pact ; pact ; pact` -/
def parsePActs (toks : List String) : Option (List PAct) :=
  let groups := toks.foldr (fun t acc =>
      if t = ";" then [] :: acc else match acc with
        | [] => [[t]]
        | g :: gs => (t :: g) :: gs) [[]]
  (groups.filter (· ≠ [])).mapM parsePAct

/-- `r` or `r/alt` -/
def parseReading (t : String) : Option (Int × Int) :=
  match t.splitOn "/" with
  | [r] => do let r ← r.toInt?; some (r, r)
  | [r, a] => do some (← r.toInt?, ← a.toInt?)
  | _ => none

def parseKind : String → Option ProcKind
  | "p" => some .plain
  | "u" => some .update
  | "c" => some .coro
  | _ => none

def parseLoadEv (t : String) : Option (Ev × Args) :=
  match t.splitOn ":" with
  | [k, v] => do some (.custom (← k.toNat?), .tok (← v.toNat?))
  | _ => none

structure HandleDecl where
  procs : List ProcKind
  loadEvents : List (Ev × Args)

structure Parsed where
  handles : List HandleDecl := []
  reacts : List (Nat × Act) := []
  /-- newest first; frames of the newest `start` newest first -/
  ops : List Op := []
  bad : Bool := false

def stripPrefix (p s : String) : Option String :=
  if s.startsWith p then some (s.drop p.length).toString else none

def actHandles : Act → List Handle
  | .switch h _ _ => [h]
  | .raiseSwitch h _ _ => [h]
  | .quitTo h => [h]
  | _ => []

def pactOk (n : Nat) : PAct → Bool
  | .user a => (actHandles a).all (· < n)
  | .loopSwitch h _ _ => h < n
  | .setClock k => k < 2
  | .peek => true

def parseLine (p : Parsed) (line : String) : Parsed :=
  match tokens line with
  | ["handle", h, pr, ld] =>
    match h.toNat?, (stripPrefix "procs=" pr).bind (fun s => (splitList s).mapM parseKind),
          (stripPrefix "load=" ld).bind (fun s => (splitList s).mapM parseLoadEv) with
    | some h, some ks, some evs =>
      if h = p.handles.length && !ks.isEmpty then
        { p with handles := p.handles ++ [{ procs := ks, loadEvents := evs }] }
      else { p with bad := true }
    | _, _, _ => { p with bad := true }
  | "react" :: n :: rest =>
    match n.toNat?, parseAct rest with
    | some n, some a => { p with reacts := (n, a) :: p.reacts }
    | _, _ => { p with bad := true }
  | ["op", "load", h] =>
    match h.toNat? with
    | some h => { p with ops := .load h :: p.ops }
    | none => { p with bad := true }
  | ["op", "switch", h, cc, cn] =>
    match h.toNat?, bool? cc, bool? cn with
    | some h, some cc, some cn => { p with ops := .switch h cc cn :: p.ops }
    | _, _, _ => { p with bad := true }
  | ["op", "start"] => { p with ops := .start [] :: p.ops }
  -- how the implementation side represents a reading (float r/8, int r, Fraction r/7): the model
  -- computes in reading units over all of Int whatever the representation
  -- Python protocol dressing of a handle and its worlds (value-equal, unhashable, falsy): handles
  -- and worlds are identified by identity here, the line changes nothing
  | ["identity", h, _, _, _, _] => if h.toNat?.isSome then p else { p with bad := true }
  | ["clock", k] => if k = "f8" || k = "int" || k = "frac" then p else { p with bad := true }
  | "frame" :: r :: rest =>
    match parseReading r, parsePActs rest, p.ops with
    | some r, some acts, .start fs :: ops =>
      { p with ops := .start ({ reading := r.1, alt := r.2, acts := acts } :: fs) :: ops }
    | _, _, _ => { p with bad := true }
  | [] => p
  | _ => { p with bad := true }

def Parsed.finish (p : Parsed) : List Op :=
  p.ops.reverse.map fun
    | .start fs => .start fs.reverse
    | o => o

def Parsed.universe (p : Parsed) : Universe :=
  { loadEvents := fun h => ((p.handles[h]?).map (·.loadEvents)).getD []
    procs := fun h => ((p.handles[h]?).map (·.procs)).getD []
    react := fun n => ((p.reacts.find? (·.1 = n)).map (·.2)).getD .none }

/-- every handle named by the scenario is declared -/
def Parsed.wellFormed (p : Parsed) : Bool :=
  let n := p.handles.length
  let okAct := fun (a : Act) => (actHandles a).all (· < n)
  p.reacts.all (fun r => okAct r.2) &&
  p.ops.all fun
    | .load h => h < n
    | .switch h _ _ => h < n
    | .start fs => fs.all (fun f => f.acts.all (pactOk n))

def showInst (i : Inst) : String := s!"{i.h}#{i.n}"
def showOInst : Option Inst → String
  | none => "None"
  | some i => showInst i
def showOHandle : Option Handle → String
  | none => "None"
  | some h => toString h

def showExc : Exc → String
  | .quit => "Quit"
  | .switch .. => "SwitchWorld"
  | .other => "Other"
  | .attributeError => "AttributeError"
  | .clockExhausted => "ClockExhausted"
  | .noWorld => "NoWorld"

def showOutcome : Outcome → String
  | .ok => "ok"
  | .raised e => s!"raised {showExc e}"
  | .outOfFuel => "hang"

def showEv : Ev → String
  | .worldLoad => "on_world_load"
  | .switchIn => "on_switch_in"
  | .switchOut => "on_switch_out"
  | .quit => "on_quit"
  | .update => "on_update"
  | .custom k => s!"c{k}"

def showArgs : Args → String
  | .unit => "_"
  | .worlds f t => s!"{showOInst f},{showInst t}"
  | .loaded h i => s!"{h},{showInst i}"
  | .dt d => toString d
  | .tok k => toString k

def showEntry : Entry → String
  | .load i => s!"load {showInst i}"
  | .ev i e a => s!"ev {showInst i} {showEv e} {showArgs a}"
  | .frame i dt => s!"frame {showInst i} {dt}"
  | .proc i p dt => s!"proc {showInst i} {p} {dt}"
  | .enter i => s!"enter {showInst i}"
  | .tick r => s!"tick {r}"
  | .peek c => s!"peek {showOInst c}"
  | .ret o r c h =>
    s!"ret {showOutcome o} running={showBool r} current={showOInst c} handle={showOHandle h}"
  | .res o c h => s!"res {showOutcome o} current={showOInst c} handle={showOHandle h}"

def defaultFuel : Nat := 200

def runScenario (lines : List String) : List String :=
  let p := lines.foldl parseLine {}
  if p.bad || !p.wellFormed then ["bad-op"] else
  let s := run p.universe defaultFuel {} p.finish
  s.log.reverse.map showEntry

end Desper.Loop
