import DesperModel.Dict
import DesperModel.Proto
namespace Desper.Loop
def runScenario (_lines : List String) : List String := ["not-implemented"]
end Desper.Loop
