/-
  Python's `dict` as an insertion-ordered association list.
  Core Lean only (this library is linked into the compiled driver).
-/
namespace Desper

/-- Association list with Python `dict` semantics: `set` updates in place when the
key is present and appends otherwise; `erase` removes the (unique) entry. -/
abbrev Dict (κ : Type) (ν : Type) := List (κ × ν)

namespace Dict
variable {κ ν : Type} [DecidableEq κ]

def get? : Dict κ ν → κ → Option ν
  | [], _ => none
  | (k', v) :: rest, k => if k' = k then some v else get? rest k

def contains (d : Dict κ ν) (k : κ) : Bool := (get? d k).isSome

def set : Dict κ ν → κ → ν → Dict κ ν
  | [], k, v => [(k, v)]
  | (k', v') :: rest, k, v => if k' = k then (k', v) :: rest else (k', v') :: set rest k v

def erase : Dict κ ν → κ → Dict κ ν
  | [], _ => []
  | (k', v') :: rest, k => if k' = k then erase rest k else (k', v') :: erase rest k

def keys (d : Dict κ ν) : List κ := d.map (·.1)
def values (d : Dict κ ν) : List ν := d.map (·.2)

/-- `d.setdefault(k, v)` : the dict afterwards and the value now stored. -/
def setDefault (d : Dict κ ν) (k : κ) (v : ν) : Dict κ ν × ν :=
  match get? d k with
  | some v' => (d, v')
  | none => (set d k v, v)

end Dict

/-- Insert into a duplicate-free list used as a Python `set` (insertion order kept, the
observation of a set is always sorted by the driver). -/
def setAdd {α : Type} [DecidableEq α] (s : List α) (a : α) : List α :=
  if a ∈ s then s else s ++ [a]

def setDiscard {α : Type} [DecidableEq α] (s : List α) (a : α) : List α :=
  s.filter (· ≠ a)

end Desper
