import DesperModel.Dict
import DesperModel.Proto
namespace Desper.Pop
def runScenario (_lines : List String) : List String := ["not-implemented"]
end Desper.Pop
