import DesperModel.Dict
import DesperModel.Proto
import DesperModel.Tree
/-
  Model of `DirectoryResourcePopulator.__call__` (desper/model/__init__.py:105-191) on top of the
  heap model of `desper/model/tree.py` (`DesperModel/Tree.lean`).

  The file system is an *input*: for every rule, either "the path does not exist", or "it exists
  and is not a directory", or the listing that `glob.iglob(dir/**, recursive=True)` produces — an
  ordered list of entries (path components relative to the populator's root, is it a directory).
  The listing is what the real glob returned on the real tree (a hint); `ListingOk` is checked
  on it: the rule directory itself comes first, every other entry comes after its parent
  directory, nothing is listed twice, no name starts with a dot.

  `os.path` on component lists:
    splitext            `splitext`   (genericpath._splitext, on the last component)
    relpath + normpath  the components relative to the root, `.`/empty parts dropped,
                        `.` for the root itself (`keyComps`)
    replace(sep, '/')   `Tree.joinKey`
-/
namespace Desper.Pop
open Desper Desper.Tree

/-- `os.path.splitext` on one path component (genericpath._splitext): the extension starts at
the last dot, unless only dots precede it -/
def splitextC (name : List Char) : List Char × List Char :=
  let r := name.reverse
  let extRev := r.takeWhile (· ≠ '.')
  match r.dropWhile (· ≠ '.') with
  | [] => (name, [])
  | _ :: stemRev =>
    if stemRev.any (· ≠ '.') then (stemRev.reverse, '.' :: extRev.reverse) else (name, [])

def splitext (name : String) : String × String :=
  let r := splitextC name.toList
  (String.ofList r.1, String.ofList r.2)

/-- `DirectoryPopulatorRule` : model/__init__.py:35-45 -/
structure Rule where
  /-- `directory_path`, split at '/' -/
  dir : List String
  factory : Nat
  /-- the extra positional and keyword arguments, as one opaque token -/
  args : String
  /-- `file_exts`; empty = every extension -/
  exts : List String
deriving Repr, DecidableEq, Inhabited

/-- one result of `glob.iglob`: path components relative to the root, and `os.path.isdir` -/
abbrev Entry := List String × Bool

/-- what the file system says about `os.path.join(root, rule.directory_path)` -/
inductive Status where
  | missing
  | notDir
  | dir (listing : List Entry)
deriving Repr, DecidableEq, Inhabited

/-- `normpath` of a relative path without `..`: empty and `.` components disappear -/
def normComps (cs : List String) : List String := cs.filter (fun c => c ≠ "" && c ≠ ".")

/-- components of `normpath(relpath(full, root))` -/
def keyComps (cs : List String) : List String := if cs.isEmpty then ["."] else cs

/-- a handle the populator created: `rule.instantiate(full_file_path)` -/
structure Made where
  h : HId
  factory : Nat
  path : List String
  args : String
deriving Repr, DecidableEq, Inhabited

structure PSt where
  tree : Tree.St := {}
  /-- next handle object -/
  hnext : Nat := 0
  /-- newest first -/
  made : List Made := []
deriving Inhabited

/-- `for layer in p.handles.maps: if layer.get(key) is handle: del layer[key]`
(`key = None` is in no layer) -/
def dropHandle (st : Tree.St) (p : MId) (key : Option String) (h : HId) : Tree.St :=
  match key with
  | none => st
  | some k =>
    let n := st.m p
    let f := fun (l : Dict String HId) => if Dict.get? l k = some h then Dict.erase l k else l
    st.setM p { n with layer0 := f n.layer0, lower := n.lower.map f }

/-- `[init]` and `last` of a non-empty component list -/
def unsnoc (cs : List String) : List String × String := (cs.dropLast, cs.getLastD "")

/-- the extension filter : model/__init__.py:154-157.  `isSelf`: the first glob result, the rule
directory itself, which glob spells with a trailing separator (so `splitext` finds no extension) -/
def accepts (rule : Rule) (isSelf : Bool) (e : Entry) : Bool :=
  let ext := if isSelf then "" else (splitext (e.1.getLastD "")).2
  rule.exts.isEmpty || rule.exts.contains ext

/-- the components of `resource_string` : model/__init__.py:160-165 -/
def entryKey (trim : Bool) (e : Entry) : List String :=
  let kc := keyComps e.1
  if trim && !e.2 then kc.dropLast ++ [(splitext (kc.getLastD "")).1] else kc

/-- what happens to the handle that holds the key, before the assignment : model/__init__.py:175-188
(the nest branch 175-180, the replace branch 181-188).
`none`: AttributeError on `handle.parent` (a stale back-link, only with aliasing) -/
def prepare (tree : Tree.St) (m : MId) (key : String) (nest : Bool) : Option Tree.St :=
  if nest then
    match Tree.get tree m key with
    | none => some tree
    | some r =>
      -- handle.parent.handles.maps[0].get(handle.key)
      let link : Option MId × Option String := match r with
        | .map c => ((tree.m c).parent, (tree.m c).key)
        | .handle h => ((tree.h h).parent, (tree.h h).key)
      match link.1 with
      | none => none
      | some p =>
        let cand := link.2.bind (fun k => Dict.get? (tree.m p).layer0 k)
        if (cand.map Ref.handle) = some r then some (addLayer tree p) else some tree
  else
    -- without nesting the visible handle is removed from the layer that holds it
    match Tree.get tree m key with
    | some (.handle h) =>
      match (tree.h h).parent with
      | none => none
      | some p => some (dropHandle tree p (tree.h h).key h)
    | _ => some tree

inductive POutcome where
  | ok
  | raised (e : String)
deriving Repr, DecidableEq, Inhabited

/-- the body of the loop over the glob results for one entry : model/__init__.py:151-191 -/
def placeEntry (ps : PSt) (m : MId) (rule : Rule) (nest trim : Bool) (isSelf : Bool) (e : Entry) :
    PSt × POutcome :=
  if !accepts rule isSelf e then (ps, .ok)
  else
    let key := joinKey (entryKey trim e)
    if e.2 then
      -- 168-170: a directory, and nothing under that key yet
      if (Tree.get ps.tree m key).isNone then
        let c := MId.anon ps.tree.next
        ({ ps with tree := setItem ps.tree.bump m key (.map c) }, .ok)
      else (ps, .ok)
    else
      -- 171-172: new_resource = rule.instantiate(full_file_path)
      let g := ps.hnext
      let made : Made := { h := g, factory := rule.factory, path := e.1, args := rule.args }
      -- 175-191
      match prepare ps.tree m key nest with
      | some t => ({ tree := setItem t m key (.handle g), hnext := g + 1, made := made :: ps.made }, .ok)
      | none => ({ ps with hnext := g + 1, made := made :: ps.made }, .raised "AttributeError")

def placeAll (ps : PSt) (m : MId) (rule : Rule) (nest trim : Bool) : Bool → List Entry → PSt × POutcome
  | _, [] => (ps, .ok)
  | isSelf, e :: rest =>
    match placeEntry ps m rule nest trim isSelf e with
    | (ps', .ok) => placeAll ps' m rule nest trim false rest
    | r => r

/-- `DirectoryResourcePopulator.__call__` : model/__init__.py:136-191 -/
def populate (ps : PSt) (m : MId) (nest trim : Bool) : List (Rule × Status) → PSt × POutcome
  | [] => (ps, .ok)
  | (rule, status) :: rest =>
    match status with
    | .missing => populate ps m nest trim rest            -- 141-142
    | .notDir => (ps, .raised "ValueError")               -- 144-147
    | .dir listing =>
      match placeAll ps m rule nest trim true listing with
      | (ps', .ok) => populate ps' m nest trim rest
      | r => r

/-! ### ListingOk -/

def hidden (name : String) : Bool := name.startsWith "."

/-- every entry is listed after its parent directory (`seen`: the directories listed so far) -/
def parentsFirst (seen : List (List String)) : List Entry → Bool
  | [] => true
  | e :: es =>
    !e.1.isEmpty && seen.contains e.1.dropLast && parentsFirst (if e.2 then e.1 :: seen else seen) es

/-- `ListingOk dir listing` for the normalised rule directory `dir` -/
def listingOk (dir : List String) (listing : List Entry) : Bool :=
  match listing with
  | [] => false
  | first :: rest =>
    first == (dir, true) &&
    rest.all (fun e => !hidden (e.1.getLastD "") && e.1 != dir) &&
    (listing.map (·.1)).eraseDups.length == listing.length &&
    parentsFirst [dir] rest

/-! ### line protocol -/
open Proto

structure PopDecl where
  nest : Bool
  trim : Bool
  rules : List Rule := []
deriving Inhabited

structure RS where
  t : Tree.RS := {}
  ps : PSt := { hnext := 100000 }
  fsDirs : List (List String) := [[]]
  fsFiles : List (List String) := []
  pops : Dict String PopDecl := []
  /-- hints: (call index, rule index) -> status -/
  globs : Dict (Nat × Nat) Status := []
  calls : Nat := 0
  bad : Bool := false
  badHint : Bool := false

def parseFlag (name : String) (t : String) : Option (Option Bool) :=
  if t = name ++ "=N" then some none
  else if t = name ++ "=1" then some (some true)
  else if t = name ++ "=0" then some (some false)
  else none

def stripPrefix (p s : String) : Option String :=
  if s.startsWith p then some (String.ofList (s.toList.drop p.length)) else none

def parseEntry (t : String) : Option Entry :=
  match t.toList with
  | 'd' :: ':' :: rest => some (normComps (splitKey (String.ofList rest)), true)
  | 'f' :: ':' :: rest => some (normComps (splitKey (String.ofList rest)), false)
  | _ => none

def parseStatus : List String → Option Status
  | ["missing"] => some .missing
  | ["notdir"] => some .notDir
  | ["dir", l] => ((l.splitOn ";").filter (· ≠ "")).mapM parseEntry |>.map .dir
  | _ => none

/-- the entries of the declared tree below (and including) `dir` -/
def subtree (r : RS) (dir : List String) : List Entry :=
  (r.fsDirs.filter (fun d => dir.isPrefixOf d)).map (·, true) ++
  (r.fsFiles.filter (fun f => dir.isPrefixOf f)).map (·, false)

/-- does the hinted status agree with the declared tree and is the listing `ListingOk`? -/
def validStatus (r : RS) (dir : List String) : Status → Bool
  | .missing => !r.fsDirs.contains dir && !r.fsFiles.contains dir
  | .notDir => r.fsFiles.contains dir
  | .dir listing =>
    r.fsDirs.contains dir && listingOk dir listing &&
    listing.all (fun e => (subtree r dir).contains e) && listing.length == (subtree r dir).length

def syncTree (r : RS) (t : Tree.RS) : RS := { r with t := t, ps := { r.ps with tree := t.st } }

def execLine (r : RS) (line : String) : RS :=
  if r.bad || r.badHint then r else
  let bad : RS := { r with bad := true }
  match tokens line with
  | [] => r
  | "glob" :: call :: rule :: rest =>
    match call.toNat?, rule.toNat?, parseStatus rest with
    | some c, some k, some s => { r with globs := Dict.set r.globs (c, k) s }
    | _, _, _ => bad
  | ["fs", kind, p] =>
    match parsePathTok p with
    | none => bad
    | some path =>
      let cs := normComps (splitKey path)
      if kind = "dir" then { r with fsDirs := r.fsDirs ++ [cs] }
      else if kind = "file" then { r with fsFiles := r.fsFiles ++ [cs] }
      else if kind = "rm" then
        -- a file or a whole subtree disappears (between two populations)
        { r with fsDirs := r.fsDirs.filter (fun d => !cs.isPrefixOf d),
                 fsFiles := r.fsFiles.filter (fun f => !cs.isPrefixOf f) }
      else bad
  | ["pop", p, n, t] =>
    match parseFlag "nest" n, parseFlag "trim" t with
    | some (some n), some (some t) => { r with pops := Dict.set r.pops p { nest := n, trim := t } }
    | _, _ => bad
  | ["pop", p, n, t, spell] =>
    -- `root=<spelling>`: how the program spells the root (trailing separator, relative, '.', '').  The
    -- model works on the listing relative to the root: the spelling is normalised away and ignored.
    match parseFlag "nest" n, parseFlag "trim" t, stripPrefix "root=" spell with
    | some (some n), some (some t), some _ => { r with pops := Dict.set r.pops p { nest := n, trim := t } }
    | _, _, _ => bad
  | "rule" :: p :: d :: f :: e :: a :: opts =>
    -- `cont=<type>`: the container type the program passes `file_exts` in (list, set, generator, ...): the
    -- rule keeps the set of its elements whatever the container
    if !opts.all optionTok then bad else
    match Dict.get? r.pops p, parsePathTok d, (stripPrefix "fac=" f).bind String.toNat?,
          stripPrefix "exts=" e, stripPrefix "args=" a with
    | some decl, some dir, some fac, some exts, some args =>
      let rule : Rule := { dir := splitKey dir, factory := fac, args := args, exts := splitList exts }
      { r with pops := Dict.set r.pops p { decl with rules := decl.rules ++ [rule] } }
    | _, _, _, _, _ => bad
  | ["op", "splitext", n] =>
    match parsePathTok n with
    | some name => let s := splitext name
                   { r with t := r.t.emit s!"splitext :{s.1} :{s.2}" }
    | none => bad
  | ["op", "populate", p, m, n, t, _root] =>
    match Dict.get? r.pops p, parseFlag "nest" n, parseFlag "trim" t with
    | some decl, some n, some t =>
      match Dict.get? r.t.menv m with
      | none => { r with t := r.t.emit "unbound" }
      | some i =>
        let nest := n.getD decl.nest
        let trim := t.getD decl.trim
        let call := r.calls
        let r := { r with calls := call + 1 }
        -- the hinted listings, validated against the declared tree
        let sts := (List.range decl.rules.length).map fun k => Dict.get? r.globs (call, k)
        let okHints := (decl.rules.zip sts).all fun (rule, s) =>
          match s with
          | some s => validStatus r (normComps rule.dir) s
          | none => false
        if !okHints then { r with badHint := true }
        else
          let rs := decl.rules.zip (sts.map (·.getD .missing))
          let before := r.ps.made.length
          let (ps', out) := populate r.ps i nest trim rs
          let news := (ps'.made.take (ps'.made.length - before)).reverse
          let t := news.foldl (fun t (md : Made) =>
            t.emit s!"made h{md.h} fac={md.factory} path={showPath md.path} args={md.args}") r.t
          let t := { t with st := ps'.tree, hdecl := t.hdecl ++ news.map (fun (md : Made) => md.h) }
          let t := match out with
            | .ok => t.emit "res ok"
            | .raised e => t.emit s!"res raised {e}"
          { r with t := t, ps := ps' }
    | _, _, _ => bad
  | _ =>
    -- everything else is an operation of the tree model
    let t := Tree.execLine r.t line
    if t.bad then bad else syncTree r t

def runScenario (lines : List String) : List String :=
  let r0 : RS := { t := { alphabet := alphabetOf lines } }
  let r := lines.foldl execLine r0
  if r.bad then ["bad-op"] else if r.badHint then ["bad-hint"] else r.t.out.reverse

end Desper.Pop
