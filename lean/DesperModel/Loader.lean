import DesperModel.Dict
import DesperModel.Proto
/-
  Model of the world loader: `desper/model/world.py` and the part of `desper/logic/world.py`
  it drives.

  Mirrors (line numbers of the tree after the `fix:` commits 1bc36b3 and feef4cd):
    OBJECT/RESOURCE/HANDLE_STRING_REGEX + `re.match`    model/world.py:14-16   (`reMatch`)
    WorldHandle.load                                     model/world.py:43-60   (`loadHandle`)
    populate_world_from_dict                             model/world.py:63-112  (`populate`)
    WorldFromFileTransformer.__call__                    model/world.py:127-141 (`fileTransformer`,
                                                                                `transformDesc`)
    WorldFromFileTransformer._apply_transformers         model/world.py:143-160 (`applyTransformers`)
    _copy_containers                                     model/world.py:163-177 (no effect, see there)
    default_processors_transformer                       model/world.py:180-190 (`defaultProcessors`)
    WorldFromFileHandle.__init__                         model/world.py:206-215 (`loadFile`)
    type_dict_transformer                                model/world.py:251-264 (`typeT`)
    object_dict_transformer                              model/world.py:267-293 (`objectMap`, `objectT`)
    resource_dict_transformer                            model/world.py:296-350 (`resourceMap`, `resourceT`)
    World.create_entity                                  logic/world.py  (`createEntity`)
    World.remove_component (exact type)                  logic/world.py  (`removeComponent`)
    World.add_processor / remove_processor (exact type)  logic/world.py  (`addProcessor`,
                                                                         `removeProcessor`)
    World._on_single_dispatch                            logic/world.py  (`callMapped`)
    EventDispatcher.dispatch / dispatch_enabled setter   events.py:97-139       (`emit`, `deliver`,
                                                                                `setEnabled`)

  Parameters of the model (given as tables by the scenario, quantified over by the theorems):
    `resolve`   : `object_from_string`  (importlib + getattr chain, lru_cache)
    `getItem`   : `root_map[path]`      (loaded value of a handle / a sub-map / KeyError)
    `getHandle` : `root_map.get(path)`  (handle / sub-map / None)
    `inTree`    : whether climbing `.parent` from the world handle ends in a ResourceMap
    `info`      : what the `class` statements of the program say (Processor or not, `__events__`,
                  `priority`)
  Strings are `List Char` so that every function reduces in the kernel.

  Constructors of components and processors are opaque to desper: an instance is the record of
  the class and of the positional and keyword arguments it was built from.  Callbacks are passive
  log entries (the loader never reacts to them).

  Not modelled: `json.load` (the description is given parsed), `importlib`, `lru_cache`, the
  `_components` index of the world (C01), `process`.
-/
namespace Desper.Loader
open Desper

abbrev Str := List Char
abbrev Exc := String

/-! ### the three regular expressions, used with `re.match` (model/world.py:14-16) -/

/-- what `.` can run over: up to the first newline (no DOTALL flag) -/
def firstLine (cs : Str) : Str := cs.takeWhile (· ≠ '\n')

/-- everything before the last `}` of `cs` (`none`: there is no `}`) -/
def beforeLastBrace : Str → Option Str
  | [] => none
  | c :: cs =>
    match beforeLastBrace cs with
    | some r => some (c :: r)
    | none => if c = '}' then some [] else none

/-- `(.+)\}` matched at the start of `cs`: greedy `.+` backtracks to the last `}` of the first
line; the group must not be empty. -/
def group (cs : Str) : Option Str :=
  match beforeLastBrace (firstLine cs) with
  | some (c :: r) => some (c :: r)
  | _ => none

def stripPrefix : Str → Str → Option Str
  | [], cs => some cs
  | _ :: _, [] => none
  | p :: ps, c :: cs => if p = c then stripPrefix ps cs else none

/-- `re.compile(marker + r'(.+)\}').match(cs)`: anchored at position 0 only -/
def reMatch (marker cs : Str) : Option Str := (stripPrefix marker cs).bind group

def objMarker : Str := ['$', '{']
def resMarker : Str := ['$', 'r', 'e', 's', '{']
def handleMarker : Str := ['$', 'h', 'a', 'n', 'd', 'l', 'e', '{']

def splitOn (sep : Char) : Str → List Str
  | [] => [[]]
  | c :: cs =>
    match splitOn sep cs with
    | [] => if c = sep then [[], []] else [[c]]
    | w :: ws => if c = sep then [] :: w :: ws else (c :: w) :: ws

def joinWith (sep : Char) : List Str → Str
  | [] => []
  | [w] => w
  | w :: ws => w ++ sep :: joinWith sep ws

/-- `root_map.split_char.join(name.split('.'))` : model/world.py:335,341 -/
def resPath (name : Str) : Str := joinWith '/' (splitOn '.' name)

/-! ### data -/

inductive Json where
  | null
  | bool (b : Bool)
  | int (i : Int)
  | str (s : Str)
  | list (l : List Json)
  | obj (o : List (Str × Json))
deriving Inhabited

/-- a Python value as far as the loader can tell values apart -/
inductive Val where
  | json (j : Json)
  /-- a class of the program (class id) -/
  | cls (c : Nat)
  /-- any other named object of the program (module, instance, ...) -/
  | obj (o : Nat)
  /-- the value `handle()` of the handle `h` of the resource tree; `gen` tells the objects of
  successive `load()` calls of one handle apart (`Handle.clear()` in between) -/
  | loaded (h : Nat) (gen : Nat)
  | handle (h : Nat)
  /-- a sub-map of the resource tree -/
  | map (m : Nat)
  /-- the world handle that is being loaded -/
  | worldHandle
deriving Inhabited

inductive EntId where
  | int (i : Int)
  | str (s : Str)
deriving DecidableEq, Inhabited

/-- `{'type': .., 'args': [..], 'kwargs': {..}}`; `label` names the instance built from it -/
structure Item where
  label : Nat
  type : Val
  args : List Val
  kwargs : List (Str × Val)
deriving Inhabited

structure Desc where
  processors : List Item
  entities : List (Option EntId × List Item)
deriving Inhabited

structure ClsInfo where
  isProc : Bool
  /-- `__events__` (`none`: the attribute is absent) -/
  events : Option (Dict Str Str)
  priority : Int
deriving Inhabited

/-- names of instances: the default processors, the instance built from the description item
with that label, the n-th instance built by a scripted reaction -/
inductive Label where
  | dflt (k : Nat)
  | item (n : Nat)
  | spawn (n : Nat)
deriving DecidableEq, Inhabited

/-- what a scripted callback does to the world it is called with -/
inductive ROp where
  /-- `world.dispatch_enabled = b` -/
  | enable (b : Bool)
  /-- `world.create_entity(K(), .., entity_id=eid)` -/
  | spawn (eid : Option EntId) (classes : List Nat)
  /-- `world.add_component(e, K())` -/
  | add (e : EntId) (c : Nat)
  /-- `world.remove_component(e, K)` -/
  | remove (e : EntId) (c : Nat)
  /-- `world.dispatch(ev)` -/
  | dispatch (ev : Str)
deriving Inhabited

structure Universe where
  resolve : Str → Except Exc Val
  getItem : Str → Except Exc Val
  getHandle : Str → Val
  inTree : Bool
  /-- classes of the program; ids 0 and 1 are reserved, see `infoOf` -/
  userInfo : Nat → Option ClsInfo
  /-- does the constructor call that builds the instance with this label raise (constructors are
  the program's; the scenario scripts "the n-th call of class C raises") -/
  ctorRaises : Nat → Bool := fun _ => false
  /-- scripted reaction of the k-th call of a method of an instance (callbacks are the program's) -/
  reaction : Label → Str → Nat → List ROp := fun _ _ _ => []
  /-- the classes of the program in creation order and the base each one names (`__subclasses__`) -/
  classIds : List Nat := []
  baseOf : Nat → Option Nat := fun _ => none

def clsOnUpdate : Nat := 0
def clsCoroutine : Nat := 1

/-- `desper.OnUpdateProcessor` and `desper.CoroutineProcessor` are class 0 and class 1: plain
processors (no `__events__`) of priority 0 (logic/__init__.py:333, logic/coroutines.py:63). -/
def infoOf (U : Universe) (c : Nat) : Option ClsInfo :=
  if c = clsOnUpdate ∨ c = clsCoroutine then some { isProc := true, events := none, priority := 0 }
  else U.userInfo c

def eventsOf (U : Universe) (c : Nat) : Option (Dict Str Str) := (infoOf U c).bind (·.events)
def prioOf (U : Universe) (c : Nat) : Int := ((infoOf U c).map (·.priority)).getD 0
def isProc (U : Universe) (c : Nat) : Bool := ((infoOf U c).map (·.isProc)).getD false

/-! ### dict transformers (model/world.py:251-350) -/

def mapE {α β : Type} (f : α → Except Exc β) : List α → Except Exc (List β)
  | [] => .ok []
  | a :: as =>
    match f a with
    | .error e => .error e
    | .ok b =>
      match mapE f as with
      | .error e => .error e
      | .ok bs => .ok (b :: bs)

/-- `callable(type_object)`: classes are, the other named objects of a scenario are not -/
def callable : Val → Bool
  | .cls _ => true
  | _ => false

/-- model/world.py:251-264 -/
def typeT (U : Universe) (d : Item) : Except Exc Item :=
  match d.type with
  | .json (.str t) =>
    match U.resolve t with
    | .error e => .error e
    | .ok v => if callable v then .ok { d with type := v } else .error "TypeError"
  | _ => .error "AssertionError"

/-- `map_function` of `object_dict_transformer`: model/world.py:279-287 -/
def objectMap (U : Universe) : Val → Except Exc Val
  | .json (.str s) =>
    match reMatch objMarker s with
    | some name => U.resolve name
    | none => .ok (.json (.str s))
  | v => .ok v

/-- `map_function` of `resource_dict_transformer`: model/world.py:328-344.  The world handle must
hang in a ResourceMap only when a reference is actually met (`get_root_map`, 315-326). -/
def resourceMap (U : Universe) : Val → Except Exc Val
  | .json (.str s) =>
    match reMatch resMarker s with
    | some name => if U.inTree then U.getItem (resPath name) else .error "TypeError"
    | none =>
      match reMatch handleMarker s with
      | some name => if U.inTree then .ok (U.getHandle (resPath name)) else .error "TypeError"
      | none => .ok (.json (.str s))
  | v => .ok v

/-- `args_list[:] = map(f, args_list); kwargs_map.update({k: f(v) for k, v in kwargs_map.items()})`
(model/world.py:289-293, 346-350): only the arguments themselves are mapped, strings nested in
lists or dictionaries are not looked at. -/
def mapArgs (f : Val → Except Exc Val) (d : Item) : Except Exc Item :=
  match mapE f d.args with
  | .error e => .error e
  | .ok args =>
    match mapE (fun (kv : Str × Val) => (f kv.2).map (fun v => (kv.1, v))) d.kwargs with
    | .error e => .error e
    | .ok kwargs => .ok { d with args := args, kwargs := kwargs }

def objectT (U : Universe) (d : Item) : Except Exc Item := mapArgs (objectMap U) d
def resourceT (U : Universe) (d : Item) : Except Exc Item := mapArgs (resourceMap U) d

/-- what one argument goes through: object transformer, then resource transformer -/
def transformArg (U : Universe) (v : Val) : Except Exc Val :=
  match objectMap U v with
  | .error e => .error e
  | .ok v' => resourceMap U v'

/-- `_apply_transformers` with the transformers of `WorldFromFileHandle` in their order
(model/world.py:143-160, 210-215).  The snapshot handed to each transformer as `initial_dict`
copies the JSON containers only, so it has no effect on the result; an exception is re-raised
with the same class. -/
def applyTransformers (U : Universe) (d : Item) : Except Exc Item :=
  match typeT U d with
  | .error e => .error e
  | .ok d1 =>
    match objectT U d1 with
    | .error e => .error e
    | .ok d2 => resourceT U d2

def transformEntity (U : Universe) (e : Option EntId × List Item) :
    Except Exc (Option EntId × List Item) :=
  (mapE (applyTransformers U) e.2).map (fun cs => (e.1, cs))

/-- model/world.py:132-139: every processor dictionary, then every component dictionary -/
def transformDesc (U : Universe) (d : Desc) : Except Exc Desc :=
  match mapE (applyTransformers U) d.processors with
  | .error e => .error e
  | .ok ps =>
    match mapE (transformEntity U) d.entities with
    | .error e => .error e
    | .ok es => .ok { processors := ps, entities := es }

/-- handles that `root_map[...]` unwrapped while the transformers ran over the description, in
order, up to the first exception (a handle that is already cached is listed too: `handle()` is
called either way; whether `load()` runs is the handle's business, C12) -/
def valLoads (U : Universe) : List Val → List Nat × Bool
  | [] => ([], true)
  | v :: r =>
    match resourceMap U v with
    | .error _ => ([], false)
    | .ok x =>
      let (l, c) := valLoads U r
      ((match x with | .loaded h _ => [h] | _ => []) ++ l, c)

def itemLoads (U : Universe) (d : Item) : List Nat × Bool :=
  match typeT U d with
  | .error _ => ([], false)
  | .ok d1 =>
    match objectT U d1 with
    | .error _ => ([], false)
    | .ok d2 => valLoads U (d2.args ++ d2.kwargs.map (·.2))

def itemsLoads (U : Universe) : List Item → List Nat × Bool
  | [] => ([], true)
  | d :: ds =>
    match itemLoads U d with
    | (l, false) => (l, false)
    | (l, true) => let (l', c) := itemsLoads U ds; (l ++ l', c)

def descLoads (U : Universe) (d : Desc) : List Nat :=
  (itemsLoads U (d.processors ++ d.entities.flatMap (·.2))).1

/-! ### the world (logic/world.py) -/


/-- an instance: the class and the arguments its constructor was called with -/
structure Inst where
  label : Label
  cls : Nat
  args : List Val
  kwargs : List (Str × Val)
deriving Inhabited

inductive CbArgs where
  /-- `on_add()` of a processor -/
  | none
  /-- `on_add(entity, world)` -/
  | entWorld (e : EntId)
  /-- `on_world_load(handle, world)` -/
  | handleWorld
deriving DecidableEq, Inhabited

inductive Ev where
  /-- `dispatch('on_single_dispatch', event, handler, *args)` -/
  | single (event : Str) (h : Inst) (args : CbArgs)
  /-- `dispatch('on_world_load', handle, world)` -/
  | worldLoad
  /-- `dispatch(name)` by a scripted reaction -/
  | event (name : Str)
deriving Inhabited

structure Entry where
  recv : Label
  meth : Str
  args : CbArgs
deriving DecidableEq, Inhabited

structure World where
  /-- `_sorted_processors` -/
  sorted : List Inst := []
  /-- `_processors` -/
  procs : Dict Nat Inst := []
  /-- `_entities` -/
  entities : Dict EntId (Dict Nat Inst) := []
  /-- next value of `count(1)` -/
  nextAuto : Nat := 1
  enabled : Bool := true
  queue : List Ev := []
  /-- registered handlers, in registration order -/
  handlers : List Inst := []
  log : List Entry := []
  /-- exception that escaped from releasing the queue -/
  failed : Option Exc := none
deriving Inhabited

def onAdd : Str := "on_add".toList
def onRemove : Str := "on_remove".toList
def onWorldLoad : Str := "on_world_load".toList

/-- `getattr(handler, handler.__events__[event])(*args)` : `World._on_single_dispatch` -/
def callMapped (U : Universe) (w : World) (event : Str) (h : Inst) (a : CbArgs) : World :=
  match (eventsOf U h.cls).bind (fun m => Dict.get? m event) with
  | some meth => { w with log := w.log ++ [⟨h.label, meth, a⟩] }
  | none => { w with failed := some "KeyError" }

/-- delivery of one event to its listeners (events.py:115-116; the listener set is visited in
registration order here, Python leaves the order open) -/
def deliver (U : Universe) (w : World) : Ev → World
  | .single event h a => callMapped U w event h a
  | .worldLoad =>
    (w.handlers.filter (fun h => ((eventsOf U h.cls).bind (fun m => Dict.get? m onWorldLoad)).isSome)).foldl
      (fun w h => callMapped U w onWorldLoad h .handleWorld) w
  | .event name =>
    (w.handlers.filter (fun h => ((eventsOf U h.cls).bind (fun m => Dict.get? m name)).isSome)).foldl
      (fun w h => callMapped U w name h .none) w

/-- the lifecycle idiom of logic/world.py "call directly when enabled, else relay through
on_single_dispatch" -/
def emit (U : Universe) (w : World) (event : Str) (h : Inst) (a : CbArgs) : World :=
  if w.enabled then callMapped U w event h a
  else { w with queue := w.queue ++ [.single event h a] }

def hasEvent (U : Universe) (c : Nat) (event : Str) : Bool :=
  ((eventsOf U c).bind (fun m => Dict.get? m event)).isSome

/-- `bisect.insort(self._sorted_processors, processor, key=priority)`: on a sorted list the
bisection finds the end of the run of elements that are not greater. -/
def insort (U : Universe) (l : List Inst) (p : Inst) : List Inst :=
  l.takeWhile (fun q => prioOf U q.cls ≤ prioOf U p.cls) ++ p ::
    l.dropWhile (fun q => prioOf U q.cls ≤ prioOf U p.cls)

/-- `remove_processor` for a type that is registered itself (the only way the loader gets here:
`add_processor` found the exact type in `_processors`, so the subclass walk stops at once) -/
def removeProcessor (U : Universe) (w : World) (c : Nat) : World :=
  match Dict.get? w.procs c with
  | none => w
  | some removed =>
    let w := { w with sorted := w.sorted.filter (fun p => p.cls ≠ c), procs := Dict.erase w.procs c }
    match eventsOf U c with
    | none => w
    | some m =>
      let w := if (Dict.get? m onRemove).isSome then emit U w onRemove removed .none else w
      { w with handlers := w.handlers.filter (fun h => h.label ≠ removed.label) }

/-- `World.add_processor(processor)` -/
def addProcessor (U : Universe) (w : World) (p : Inst) : World :=
  let w := if Dict.contains w.procs p.cls then removeProcessor U w p.cls else w
  let w := { w with sorted := insort U w.sorted p, procs := Dict.set w.procs p.cls p }
  match eventsOf U p.cls with
  | none => w
  | some m =>
    let w := { w with handlers := w.handlers ++ [p] }
    if (Dict.get? m onAdd).isSome then emit U w onAdd p .none else w

def setComp (ents : Dict EntId (Dict Nat Inst)) (e : EntId) (c : Inst) : Dict EntId (Dict Nat Inst) :=
  Dict.set ents e (Dict.set ((Dict.get? ents e).getD []) c.cls c)

/-- the event handling loop of `create_entity`, one component.  (Two components of one type in a
single call: both are registered and both get `on_add`, the table keeps the second; CPython then
drops the first, which nothing references any more, from the weakly held listeners — outside the
well-formed descriptions and not modelled.) -/
def registerComp (U : Universe) (e : EntId) (w : World) (c : Inst) : World :=
  match eventsOf U c.cls with
  | none => w
  | some m =>
    let w := { w with handlers := w.handlers ++ [c] }
    if (Dict.get? m onAdd).isSome then emit U w onAdd c (.entWorld e) else w

/-- `remove_component(entity, component_type)` for a type the entity owns itself (the subclass
walk finds it first) -/
def removeComponent (U : Universe) (w : World) (e : EntId) (c : Nat) : World :=
  match (Dict.get? w.entities e).bind (fun row => Dict.get? row c) with
  | none => w
  | some removed =>
    let row := Dict.erase ((Dict.get? w.entities e).getD []) c
    let w := { w with entities := if row.isEmpty then Dict.erase w.entities e else Dict.set w.entities e row }
    match eventsOf U c with
    | none => w
    | some m =>
      let w := if (Dict.get? m onRemove).isSome then emit U w onRemove removed (.entWorld e) else w
      { w with handlers := w.handlers.filter (fun h => h.label ≠ removed.label) }

/-- `next(self.id_generator)` until the identifier is not in use; at most `fuel` identifiers can
be in use -/
def nextFree (ents : Dict EntId (Dict Nat Inst)) : Nat → Nat → Nat
  | n, 0 => n
  | n, fuel + 1 => if Dict.contains ents (.int n) then nextFree ents (n + 1) fuel else n

/-- `World.create_entity(*components, entity_id=eid)` -/
def createEntity (U : Universe) (w : World) (eid : Option EntId) (comps : List Inst) : World :=
  let (e, w) := match eid with
    | some e => (e, w)
    | none =>
      let n := nextFree w.entities w.nextAuto (w.entities.length + 1)
      (EntId.int n, { w with nextAuto := n + 1 })
  -- components of an identifier in use that are about to be replaced
  let w := (((Dict.get? w.entities e).getD []).keys.filter (fun c => comps.any (fun x => x.cls = c))).foldl
    (fun w c => removeComponent U w e c) w
  let w := { w with entities := comps.foldl (fun ents c => setComp ents e c) w.entities }
  comps.foldl (registerComp U e) w

def instOf (d : Item) (c : Nat) : Inst := ⟨.item d.label, c, d.args, d.kwargs⟩

/-- `processor_dict['type'](*args, **kwargs)` : calling anything but a class of the scenario is
outside the model; the constructor may raise, which ends the load -/
def construct (U : Universe) (d : Item) : Except Exc Inst :=
  match d.type with
  | .cls c => if U.ctorRaises d.label then .error "CtorError" else .ok (instOf d c)
  | _ => .error "TypeError"

/-- model/world.py:98-101 -/
def populateProcs (U : Universe) : World → List Item → Except Exc World
  | w, [] => .ok w
  | w, d :: ds =>
    match construct U d with
    | .error e => .error e
    | .ok p =>
      -- `assert isinstance(processor, Processor)` in `add_processor`
      if isProc U p.cls then populateProcs U (addProcessor U w p) ds else .error "AssertionError"

/-- model/world.py:103-112 -/
def populateEnts (U : Universe) : World → List (Option EntId × List Item) → Except Exc World
  | w, [] => .ok w
  | w, (eid, cds) :: es =>
    match mapE (construct U) cds with
    | .error e => .error e
    | .ok comps => populateEnts U (createEntity U w eid comps) es

/-- `populate_world_from_dict` : model/world.py:63-112 -/
def populate (U : Universe) (w : World) (d : Desc) : Except Exc World :=
  match populateProcs U w d.processors with
  | .error e => .error e
  | .ok w => populateEnts U w d.entities

def defaultInsts : List Inst :=
  [⟨.dflt 0, clsOnUpdate, [], []⟩, ⟨.dflt 1, clsCoroutine, [], []⟩]

/-- model/world.py:180-190 -/
def defaultProcessors (U : Universe) (w : World) : World :=
  defaultInsts.foldl (addProcessor U) w

/-- `WorldFromFileTransformer.__call__` : model/world.py:127-141 -/
def fileTransformer (U : Universe) (w : World) (d : Desc) : Except Exc World :=
  match transformDesc U d with
  | .error e => .error e
  | .ok td => populate U w td

/-- `WorldHandle.load` : model/world.py:43-60.  `dispatch` drops the event when nobody ever
listened for it (events.py:105); no listener exists at release time either in that case, so
queueing it unconditionally gives the same callbacks. -/
def loadHandle (transform : World → Except Exc World) : Except Exc World :=
  match transform { enabled := false } with
  | .error e => .error e
  | .ok w => .ok { w with queue := w.queue ++ [.worldLoad] }

/-- `WorldFromFileHandle(filename).load()` : model/world.py:193-215 -/
def loadFile (U : Universe) (d : Desc) : Except Exc World :=
  loadHandle (fun w => fileTransformer U (defaultProcessors U w) d)

/-- a `WorldHandle` whose only transform function calls `populate_world_from_dict` -/
def loadDict (U : Universe) (d : Desc) : Except Exc World :=
  loadHandle (fun w => populate U w d)

/-- `Handle.__call__` (model/tree.py:40-46) for a world handle: a cached world is returned as it
is, otherwise `load()` runs and its result is cached; when `load()` raises nothing is cached. -/
def callHandle (cache : Option World) (load : Except Exc World) : Option World × Except Exc World :=
  match cache with
  | some w => (some w, .ok w)
  | none =>
    match load with
    | .ok w => (some w, .ok w)
    | .error e => (none, .error e)

/-- queue depletion of `dispatch_enabled = True` : events.py:133-139 (callbacks are passive, so
the dispatcher stays enabled; an escaping exception leaves the rest of the queue pending) -/
def release (U : Universe) : World → List Ev → World
  | w, [] => { w with queue := [] }
  | w, ev :: rest =>
    let w' := deliver U { w with queue := rest } ev
    if w'.failed.isSome then w' else release U w' rest

def setEnabled (U : Universe) (w : World) (b : Bool) : World :=
  let w := { w with enabled := b }
  if b then release U w w.queue else w

/-! ### callbacks that act on the world (scripted reactions)

Loading itself runs no callback (the world is disabled).  Once dispatching is enabled the postponed
events are delivered, and a callback may do anything to the world: suspend and resume dispatching,
create entities, add and remove components, dispatch events.  Re-entrancy is real recursion,
bounded by a fuel parameter that stands for "the program terminates".  The order in which a
listener `set` is visited is Python's business: the model follows the receiver sequence of the
implementation (`hints`) and validates every step of it. -/

structure RW where
  w : World
  calls : Dict (Label × Str) Nat := []
  hints : List Label := []
  nextSpawn : Nat := 0
  /-- keys of `_events`: names some handler that was ever registered listens to; `dispatch` drops
  any other event at once (events.py: "unknown events are silently dropped") -/
  known : List Str := []
  /-- `bad-hint` / `hang` -/
  bad : Option String := none
deriving Inhabited

def RW.stop (rw : RW) : Bool := rw.bad.isSome || rw.w.failed.isSome

/-- snapshot of the listeners of an event, `set(self._events[event_name])` -/
def listeners (U : Universe) (w : World) (ev : Str) : List Inst :=
  w.handlers.filter (fun h => ((eventsOf U h.cls).bind (fun m => Dict.get? m ev)).isSome)

def eventNames (U : Universe) (c : Nat) : List Str := ((eventsOf U c).getD []).keys

/-- `add_handler` -/
def RW.register (U : Universe) (rw : RW) (c : Inst) : RW :=
  { rw with w := { rw.w with handlers := rw.w.handlers ++ [c] },
            known := rw.known ++ (eventNames U c.cls).filter (fun n => !rw.known.contains n) }

def subclassesOf (U : Universe) (c : Nat) : List Nat := U.classIds.filter (fun d => U.baseOf d = some c)

/-- the walk of `remove_component`: `fringe.pop()`, the type itself first, then its subclasses -/
def findOwned (U : Universe) (row : Dict Nat Inst) : Nat → List Nat → Option Nat
  | 0, _ => none
  | fuel + 1, fringe =>
    match fringe.getLast? with
    | none => none
    | some sub =>
      if Dict.contains row sub then some sub
      else findOwned U row fuel (fringe.dropLast ++ subclassesOf U sub)

mutual
/-- a callback: log entry, then the scripted reaction -/
def callR (U : Universe) : Nat → RW → Str → Inst → CbArgs → RW
  | 0, rw, _, _, _ => { rw with bad := some "hang" }
  | f + 1, rw, event, h, a =>
    match (eventsOf U h.cls).bind (fun m => Dict.get? m event) with
    | none => { rw with w := { rw.w with failed := some "KeyError" } }
    | some meth =>
      match rw.hints with
      | [] => { rw with bad := some "bad-hint" }
      | x :: hs =>
        if x ≠ h.label then { rw with bad := some "bad-hint" } else
        let k := (Dict.get? rw.calls (h.label, meth)).getD 0
        let rw := { rw with w := { rw.w with log := rw.w.log ++ [⟨h.label, meth, a⟩] },
                            calls := Dict.set rw.calls (h.label, meth) (k + 1), hints := hs }
        execOps U f rw (U.reaction h.label meth k)

def execOps (U : Universe) : Nat → RW → List ROp → RW
  | 0, rw, _ => { rw with bad := some "hang" }
  | _ + 1, rw, [] => rw
  | f + 1, rw, op :: rest =>
    let rw := execOp U f rw op
    if rw.stop then rw else execOps U f rw rest

def execOp (U : Universe) : Nat → RW → ROp → RW
  | 0, rw, _ => { rw with bad := some "hang" }
  | f + 1, rw, .enable b =>
    -- events.py: the setter; enabling depletes the queue
    let rw := { rw with w := { rw.w with enabled := b } }
    if b then releaseR U f rw else rw
  | f + 1, rw, .dispatch ev =>
    if !rw.known.contains ev then rw else
    if rw.w.enabled then deliverSetR U f rw ev .none (listeners U rw.w ev)
    else { rw with w := { rw.w with queue := rw.w.queue ++ [.event ev] } }
  | f + 1, rw, .spawn eid cs =>
    -- World.create_entity
    let insts := (List.range cs.length).zipWith (fun i c => (⟨.spawn (rw.nextSpawn + i), c, [], []⟩ : Inst)) cs
    let rw := { rw with nextSpawn := rw.nextSpawn + cs.length }
    let (e, w) := match eid with
      | some e => (e, rw.w)
      | none =>
        let n := nextFree rw.w.entities rw.w.nextAuto (rw.w.entities.length + 1)
        (EntId.int n, { rw.w with nextAuto := n + 1 })
    let rw := { rw with w := w }
    let replaced := (Dict.keys ((Dict.get? rw.w.entities e).getD [])).filter (fun c => cs.any (fun x => x = c))
    let rw := removeAllR U f rw e replaced
    if rw.stop then rw else
    let rw := { rw with w := { rw.w with entities := insts.foldl (fun ents c => setComp ents e c) rw.w.entities } }
    registerAllR U f rw e insts
  | f + 1, rw, .add e c =>
    -- World.add_component
    let i : Inst := ⟨.spawn rw.nextSpawn, c, [], []⟩
    let rw := { rw with nextSpawn := rw.nextSpawn + 1 }
    let rw := if Dict.contains ((Dict.get? rw.w.entities e).getD []) c then removeCompR U f rw e c else rw
    if rw.stop then rw else
    let rw := { rw with w := { rw.w with entities := setComp rw.w.entities e i } }
    registerAllR U f rw e [i]
  | f + 1, rw, .remove e c =>
    -- World.remove_component: the type itself, else the first subclass the walk meets
    match findOwned U ((Dict.get? rw.w.entities e).getD []) (U.classIds.length + 2) [c] with
    | none => rw
    | some sub => removeCompR U f rw e sub

def removeAllR (U : Universe) : Nat → RW → EntId → List Nat → RW
  | 0, rw, _, _ => { rw with bad := some "hang" }
  | _ + 1, rw, _, [] => rw
  | f + 1, rw, e, c :: cs =>
    let rw := removeCompR U f rw e c
    if rw.stop then rw else removeAllR U f rw e cs

/-- `remove_component` for a type the entity owns itself -/
def removeCompR (U : Universe) : Nat → RW → EntId → Nat → RW
  | 0, rw, _, _ => { rw with bad := some "hang" }
  | f + 1, rw, e, c =>
    match (Dict.get? rw.w.entities e).bind (fun row => Dict.get? row c) with
    | none => rw
    | some removed =>
      let row := Dict.erase ((Dict.get? rw.w.entities e).getD []) c
      let ents := if row.isEmpty then Dict.erase rw.w.entities e else Dict.set rw.w.entities e row
      let rw := { rw with w := { rw.w with entities := ents } }
      match eventsOf U c with
      | none => rw
      | some m =>
        let rw := if (Dict.get? m onRemove).isSome then emitR U f rw onRemove removed (.entWorld e) else rw
        { rw with w := { rw.w with handlers := rw.w.handlers.filter (fun h => h.label ≠ removed.label) } }

/-- the event handling loop of `create_entity` / the tail of `add_component` -/
def registerAllR (U : Universe) : Nat → RW → EntId → List Inst → RW
  | 0, rw, _, _ => { rw with bad := some "hang" }
  | _ + 1, rw, _, [] => rw
  | f + 1, rw, e, c :: cs =>
    match eventsOf U c.cls with
    | none => registerAllR U f rw e cs
    | some m =>
      let rw := rw.register U c
      let rw := if (Dict.get? m onAdd).isSome then emitR U f rw onAdd c (.entWorld e) else rw
      if rw.stop then rw else registerAllR U f rw e cs

def emitR (U : Universe) : Nat → RW → Str → Inst → CbArgs → RW
  | 0, rw, _, _, _ => { rw with bad := some "hang" }
  | f + 1, rw, event, h, a =>
    if rw.w.enabled then callR U f rw event h a
    else { rw with w := { rw.w with queue := rw.w.queue ++ [.single event h a] } }

/-- `for handler_ref, method_ref in set(...)`: the snapshot is visited in the order the
implementation visited it; every hinted receiver must be a member that was not called yet -/
def deliverSetR (U : Universe) : Nat → RW → Str → CbArgs → List Inst → RW
  | 0, rw, _, _, _ => { rw with bad := some "hang" }
  | _ + 1, rw, _, _, [] => rw
  | f + 1, rw, ev, a, remaining =>
    match rw.hints with
    | [] => { rw with bad := some "bad-hint" }
    | x :: _ =>
      match remaining.find? (fun h => h.label = x) with
      | none => { rw with bad := some "bad-hint" }
      | some h =>
        let rw := callR U f rw ev h a
        if rw.stop then rw else deliverSetR U f rw ev a (remaining.filter (fun h => h.label ≠ x))

/-- `while self._event_queue and self._dispatch_enabled: pop(0); dispatch(...)` : events.py -/
def releaseR (U : Universe) : Nat → RW → RW
  | 0, rw => { rw with bad := some "hang" }
  | f + 1, rw =>
    match rw.w.queue with
    | [] => rw
    | ev :: q =>
      if !rw.w.enabled then rw else
      let rw := deliverEvR U f { rw with w := { rw.w with queue := q } } ev
      if rw.stop then rw else releaseR U f rw

/-- `dispatch(event_name, *args)` of a released event while dispatching is enabled -/
def deliverEvR (U : Universe) : Nat → RW → Ev → RW
  | 0, rw, _ => { rw with bad := some "hang" }
  | f + 1, rw, .single event h a => callR U f rw event h a
  | f + 1, rw, .worldLoad => deliverSetR U f rw onWorldLoad .handleWorld (listeners U rw.w onWorldLoad)
  | f + 1, rw, .event name => deliverSetR U f rw name .none (listeners U rw.w name)
end

/-- `world.dispatch_enabled = True` by the program that loaded the world -/
def setEnabledR (U : Universe) (fuel : Nat) (rw : RW) : RW := execOp U fuel rw (.enable true)

/-! ### line protocol -/
open Proto

def hexVal (c : Char) : Option Nat :=
  if '0' ≤ c ∧ c ≤ '9' then some (c.toNat - '0'.toNat)
  else if 'A' ≤ c ∧ c ≤ 'F' then some (c.toNat - 'A'.toNat + 10)
  else none

def pctDecode : Str → Option Str
  | [] => some []
  | '%' :: a :: b :: rest =>
    match hexVal a, hexVal b, pctDecode rest with
    | some x, some y, some r => some (Char.ofNat (16 * x + y) :: r)
    | _, _, _ => none
  | '%' :: _ => none
  | c :: rest => (pctDecode rest).map (c :: ·)

def hexDigit (n : Nat) : Char :=
  if n < 10 then Char.ofNat ('0'.toNat + n) else Char.ofNat ('A'.toNat + n - 10)

def safeChar (c : Char) : Bool :=
  c.isAlphanum || c = '_' || c = '.' || c = '$' || c = '/' || c = '{' || c = '}' || c = '-'

def pctEncode (s : Str) : String :=
  String.ofList (s.flatMap fun c =>
    if safeChar c then [c] else ['%', hexDigit (c.toNat / 16 % 16), hexDigit (c.toNat % 16)])

def decTok (t : String) : Option Str := pctDecode t.toList

/-- `d[k] = v` for every pair, as `json.load` does for repeated keys -/
def dictOfPairs {ν : Type} (l : List (Str × ν)) : List (Str × ν) :=
  l.foldl (fun d kv => Dict.set d kv.1 kv.2) []

mutual
def parseJson : Nat → List String → Option (Json × List String)
  | 0, _ => none
  | _, [] => none
  | fuel + 1, t :: rest =>
    match t.toList with
    | ['n'] => some (.null, rest)
    | ['t'] => some (.bool true, rest)
    | ['f'] => some (.bool false, rest)
    | 'i' :: ds => (String.ofList ds).toInt?.map (fun i => (.int i, rest))
    | 's' :: cs => (pctDecode cs).map (fun s => (.str s, rest))
    | 'L' :: ds =>
      match (String.ofList ds).toNat? with
      | some n => (parseJsons fuel n rest).map (fun r => (.list r.1, r.2))
      | none => none
    | 'O' :: ds =>
      match (String.ofList ds).toNat? with
      | some n => (parsePairs fuel n rest).map (fun r => (.obj (dictOfPairs r.1), r.2))
      | none => none
    | _ => none
def parseJsons : Nat → Nat → List String → Option (List Json × List String)
  | 0, _, _ => none
  | _, 0, rest => some ([], rest)
  | fuel + 1, n + 1, toks =>
    match parseJson fuel toks with
    | none => none
    | some (j, rest) => (parseJsons fuel n rest).map (fun r => (j :: r.1, r.2))
def parsePairs : Nat → Nat → List String → Option (List (Str × Json) × List String)
  | 0, _, _ => none
  | _, 0, rest => some ([], rest)
  | _, _ + 1, [] => none
  | fuel + 1, n + 1, k :: toks =>
    match k.toList with
    | 'k' :: kc =>
      match pctDecode kc, parseJson fuel toks with
      | some key, some (j, rest) => (parsePairs fuel n rest).map (fun r => ((key, j) :: r.1, r.2))
      | _, _ => none
    | _ => none
end

mutual
def showJson : Json → List String
  | .null => ["n"]
  | .bool true => ["t"]
  | .bool false => ["f"]
  | .int i => [s!"i{i}"]
  | .str s => ["s" ++ pctEncode s]
  | .list l => s!"L{l.length}" :: showJsons l
  | .obj o => s!"O{o.length}" :: showPairs o
def showJsons : List Json → List String
  | [] => []
  | j :: js => showJson j ++ showJsons js
def showPairs : List (Str × Json) → List String
  | [] => []
  | (k, v) :: r => ("k" ++ pctEncode k) :: (showJson v ++ showPairs r)
end

def showVal : Val → List String
  | .json j => showJson j
  | .cls c => [s!"C{c}"]
  | .obj o => [s!"P{o}"]
  | .loaded h g => [s!"R{h}.{g}"]
  | .handle h => [s!"H{h}"]
  | .map m => [s!"M{m}"]
  | .worldHandle => ["HW"]

def showEntId : EntId → String
  | .int i => s!"i{i}"
  | .str s => "s" ++ pctEncode s

def showLabel : Label → String
  | .dflt k => s!"d{k}"
  | .item n => s!"i{n}"
  | .spawn n => s!"x{n}"

def showCbArgs : CbArgs → String
  | .none => "()"
  | .entWorld e => s!"E{showEntId e},W"
  | .handleWorld => "HW,W"

def showInst (i : Inst) : String :=
  " ".intercalate ([s!"inst {showLabel i.label} C{i.cls} A{i.args.length}"] ++ i.args.flatMap showVal ++
    [s!"K{i.kwargs.length}"] ++ i.kwargs.flatMap (fun kv => ("k" ++ pctEncode kv.1) :: showVal kv.2))

def showInstRef (i : Inst) : String := s!"{showLabel i.label}:C{i.cls}"

/-- `<n>`, or `-` for a key that is absent from the dictionary (`.get('args', [])`) -/
def count? (ds : Str) : Option Nat :=
  if ds = ['-'] then some 0 else (String.ofList ds).toNat?

/-- `A<n> v.. K<m> k v ..` -/
def parseArgs (toks : List String) : Option (List Json × List (Str × Json)) :=
  match toks with
  | a :: rest =>
    match a.toList with
    | 'A' :: ds =>
      match count? ds with
      | none => none
      | some n =>
        match parseJsons 1000 n rest with
        | some (args, k :: rest2) =>
          match k.toList with
          | 'K' :: ds2 =>
            match count? ds2 with
            | none => none
            | some m =>
              match parsePairs 1000 m rest2 with
              | some (kw, []) => some (args, dictOfPairs kw)
              | _ => none
          | _ => none
        | _ => none
    | _ => none
  | [] => none

inductive Mode where
  | file
  | dict
  | direct
deriving DecidableEq, Inhabited

inductive Node where
  | handle (h : Nat)
  | map (m : Nat)
  | world
deriving Inhabited

/-- what happens between two loads of the same file against the same resource tree -/
inductive Step where
  /-- `Handle.clear()` of a resource handle -/
  | clear (h : Nat)
  /-- `parent_map[key] = <new handle h>` under the path of an existing handle -/
  | replace (path : Str) (h : Nat)
  /-- `world_handle()` once more: the cached world if there is one, else a load -/
  | call
  /-- `world_handle.clear(); world_handle()` -/
  | reload
  /-- a second `WorldFromFileHandle` for the same file, stored in the same tree, is loaded -/
  | load2
  /-- `outer[key] = <the map at path ip, seen from the root above the world handle>` (`-`: that
  root): a map is mounted into the bigger tree `outer`; if it holds the world handle the root above
  the handle changes -/
  | mount (ip : Str) (key : Str)
  /-- `outer.clear()`: the maps mounted directly in `outer` become roots again -/
  | unmount
deriving Inhabited

/-- the resource tree as it is now: nodes, cached values, `load()` counters -/
structure TreeSt where
  /-- generation of the value a handle has cached -/
  cached : Dict Nat Nat := []
  /-- number of `load()` calls of a handle so far -/
  counts : Dict Nat Nat := []
  /-- number of constructor calls of a class so far -/
  ctorCounts : Dict Nat Nat := []
  /-- `_cache` of the world handle (`none`: not cached) -/
  worldCache : Option World := none
  /-- the ResourceMap objects: contents of every map, by map id -/
  maps : Dict Nat (Dict Str Node) := []
  /-- `.parent` of a map (absent: `None`) -/
  parent : Dict Nat Nat := []
  /-- the map that holds the world handle (its `.parent`) -/
  worldParent : Option Nat := none
  /-- fresh ids for maps that `__setitem__` creates on the way of a composite key -/
  nextImplicit : Nat := 2000000
  /-- number of the next load -/
  loadNo : Nat := 1
  /-- path of the world handle from that root, along its `parent` links (a mounted map stays
  reachable under its old path too, but `parent` points to where it was put last) -/
  worldPath : Option Str := none
deriving Inhabited

structure Parsed where
  classes : Dict Nat ClsInfo := []
  names : Dict Str Val := []
  moduleName : Str := []
  tree : Dict Str Node := []
  outer : Dict Str Node := []
  mode : Mode := .file
  inTree : Bool := true
  procs : List Item := []
  ents : List (Option EntId × List Item) := []
  rx : List Str := []
  /-- `raise=`: the constructor calls (0-based, counted per class over the whole scenario) that raise -/
  raises : Dict Nat (List Nat) := []
  /-- `base=` of the class statements, classes in creation order -/
  bases : Dict Nat Nat := []
  /-- `react <label> <method> <k> : op ; op ..` -/
  reactions : Dict (Label × Str × Nat) (List ROp) := []
  /-- `hint <load number> <labels>`: receivers of the callbacks of that load, as the implementation
  called them -/
  hints : Dict Nat (List Label) := []
  steps : List Step := []
  nextLabel : Nat := 0
  bad : Bool := false
deriving Inhabited

def parseEvents (s : String) : Option (Option (Dict Str Str)) :=
  if s = "none" then some none else
  ((splitList s).mapM (fun (t : String) => match (t.splitOn ":" : List String) with
    | [a, b] => some (String.toList a, String.toList b)
    | _ => none)).map some

def stripPfx (p s : String) : Option String :=
  if s.startsWith p then some (s.drop p.length).toString else none

def parseEntId (t : String) : Option (Option EntId) :=
  match t.toList with
  | ['-'] => some none
  | 'i' :: ds => (String.ofList ds).toInt?.map (fun i => some (.int i))
  | 's' :: cs => (pctDecode cs).map (fun s => some (.str s))
  | _ => none

def mkItem (p : Parsed) (ty : Val) (args : List Json) (kw : List (Str × Json)) : Item :=
  { label := p.nextLabel, type := ty, args := args.map .json, kwargs := kw.map (fun kv => (kv.1, .json kv.2)) }

/-- in the dictionary modes the description holds the classes themselves -/
def typeVal (p : Parsed) (name : Str) : Option Val :=
  if p.mode = .file then some (.json (.str name))
  else match Dict.get? p.names name with
    | some (.cls c) => some (.cls c)
    | _ => none

def parseLabel (t : String) : Option Label :=
  match t.toList with
  | 'd' :: ds => (String.ofList ds).toNat?.map .dflt
  | 'i' :: ds => (String.ofList ds).toNat?.map .item
  | 'x' :: ds => (String.ofList ds).toNat?.map .spawn
  | _ => none

def parseROp : List String → Option ROp
  | ["enable", b] => (bool? b).map .enable
  | ["spawn", id, cs] =>
    match parseEntId id, natList? cs with
    | some eid, some cs => some (.spawn eid cs)
    | _, _ => none
  | ["add", id, c] =>
    match parseEntId id, c.toNat? with
    | some (some e), some c => some (.add e c)
    | _, _ => none
  | ["remove", id, c] =>
    match parseEntId id, c.toNat? with
    | some (some e), some c => some (.remove e c)
    | _, _ => none
  | ["dispatch", ev] => some (.dispatch ev.toList)
  | _ => none

/-- `op ; op ; op` -/
def parseROps (toks : List String) : Option (List ROp) :=
  let groups := toks.foldr (fun t acc =>
      if t = ";" then [] :: acc else match acc with
        | [] => [[t]]
        | g :: gs => (t :: g) :: gs) [[]]
  (groups.filter (· ≠ [])).mapM parseROp

def parseLine (p : Parsed) (line : String) : Parsed :=
  match tokens line with
  | "cls" :: cid :: kind :: pr :: ev :: rest =>
    -- `base=<cid>` (the class statement names an earlier class as its base) is for the
    -- implementation side: nothing on the loader's path looks at subclasses (exact types only)
    let baseOk := rest.all (fun b => match stripPfx "base=" b, stripPfx "raise=" b with
      | some b, _ => match b.toNat?, cid.toNat? with
        | some b, some c => b < c
        | _, _ => false
      | none, some r => (natList? r).isSome
      | none, none => false) && rest.length ≤ 2
    let raiseSpec := (rest.findSome? (fun b => (stripPfx "raise=" b).bind natList?)).getD []
    match cid.toNat?, (stripPfx "prio=" pr).bind String.toInt?, (stripPfx "ev=" ev).bind parseEvents with
    | some c, some prio, some evs =>
      if c < 2 ∨ (kind ≠ "proc" ∧ kind ≠ "comp") ∨ !baseOk then { p with bad := true } else
      { p with classes := Dict.set p.classes c { isProc := kind = "proc", events := evs, priority := prio },
               raises := Dict.set p.raises c raiseSpec,
               bases := match rest.findSome? (fun b => (stripPfx "base=" b).bind String.toNat?) with
                 | some b => Dict.set p.bases c b
                 | none => p.bases }
    | _, _, _ => { p with bad := true }
  | ["module", m] =>
    match decTok m with
    | some m => { p with moduleName := m }
    | none => { p with bad := true }
  | ["name", n, "cls", c] =>
    match decTok n, c.toNat? with
    | some n, some c => { p with names := Dict.set p.names n (.cls c) }
    | _, _ => { p with bad := true }
  | ["name", n, "obj", o, _copy] =>
    match decTok n, o.toNat? with
    | some n, some o => { p with names := Dict.set p.names n (.obj o) }
    | _, _ => { p with bad := true }
  | ["name", n, "str", s] =>
    match decTok n, s.toList with
    | some n, 's' :: cs =>
      match pctDecode cs with
      | some v => { p with names := Dict.set p.names n (.json (.str v)) }
      | none => { p with bad := true }
    | _, _ => { p with bad := true }
  | ["tree", path, "handle", h] =>
    match decTok path, h.toNat? with
    | some path, some h => { p with tree := Dict.set p.tree path (.handle h) }
    | _, _ => { p with bad := true }
  | ["tree", path, "map", m] =>
    match decTok path, m.toNat? with
    | some path, some m => { p with tree := Dict.set p.tree path (.map m) }
    | _, _ => { p with bad := true }
  | ["tree2", path, "handle", h] =>
    match decTok path, h.toNat? with
    | some path, some h => { p with outer := Dict.set p.outer path (.handle h) }
    | _, _ => { p with bad := true }
  | ["tree2", path, "map", m] =>
    match decTok path, m.toNat? with
    | some path, some m => { p with outer := Dict.set p.outer path (.map m) }
    | _, _ => { p with bad := true }
  | ["step", "mount", ip, key] =>
    match decTok ip, decTok key with
    | some ip, some key => { p with steps := p.steps ++ [.mount ip key] }
    | _, _ => { p with bad := true }
  | ["step", "unmount"] => { p with steps := p.steps ++ [.unmount] }
  | "tree" :: path :: "world" :: _ =>
    match decTok path with
    | some path => { p with tree := Dict.set p.tree path .world }
    | none => { p with bad := true }
  | ["mode", "file", "intree"] => { p with mode := .file, inTree := true }
  | ["mode", "file", "bare"] => { p with mode := .file, inTree := false }
  | ["mode", "dict"] => { p with mode := .dict }
  | ["mode", "direct"] => { p with mode := .direct }
  | "proc" :: ty :: rest =>
    match decTok ty, parseArgs rest with
    | some ty, some (args, kw) =>
      match typeVal p ty with
      | some tv => { p with procs := p.procs ++ [mkItem p tv args kw], nextLabel := p.nextLabel + 1 }
      | none => { p with bad := true }
    | _, _ => { p with bad := true }
  | ["ent", "same"] =>
    -- the previous entity dictionary is listed once more (the very same object on the dictionary
    -- path): one more entity, built from the same description
    match p.ents.getLast? with
    | some (eid, cs) =>
      let cs' := (List.range cs.length).zipWith (fun i (c : Item) => { c with label := p.nextLabel + i }) cs
      { p with ents := p.ents ++ [(eid, cs')], nextLabel := p.nextLabel + cs.length }
    | none => { p with bad := true }
  | ["ent", id] =>
    match parseEntId id with
    | some eid => { p with ents := p.ents ++ [(eid, [])] }
    | none => { p with bad := true }
  | "comp" :: ty :: rest =>
    match decTok ty, parseArgs rest, p.ents.getLast? with
    | some ty, some (args, kw), some (eid, cs) =>
      match typeVal p ty with
      | some tv =>
        { p with ents := p.ents.dropLast ++ [(eid, cs ++ [mkItem p tv args kw])], nextLabel := p.nextLabel + 1 }
      | none => { p with bad := true }
    | _, _, _ => { p with bad := true }
  | ["step", "clear", h] =>
    match h.toNat? with
    | some h => { p with steps := p.steps ++ [.clear h] }
    | none => { p with bad := true }
  | ["step", "replace", path, h] =>
    match decTok path, h.toNat? with
    | some path, some h => { p with steps := p.steps ++ [.replace path h] }
    | _, _ => { p with bad := true }
  | "react" :: lab :: meth :: k :: ":" :: rest =>
    match parseLabel lab, k.toNat?, parseROps rest with
    | some l, some k, some ops => { p with reactions := Dict.set p.reactions (l, meth.toList, k) ops }
    | _, _, _ => { p with bad := true }
  | ["hint", k, labs] =>
    match k.toNat?, (splitList labs).mapM parseLabel with
    | some k, some ls => { p with hints := Dict.set p.hints k ls }
    | _, _ => { p with bad := true }
  | ["step", "call"] => { p with steps := p.steps ++ [.call] }
  | ["step", "reload"] => { p with steps := p.steps ++ [.reload] }
  | ["step", "load2"] => { p with steps := p.steps ++ [.load2] }
  | ["rx", s] =>
    match s.toList with
    | 's' :: cs =>
      match pctDecode cs with
      | some v => { p with rx := p.rx ++ [v] }
      | none => { p with bad := true }
    | _ => { p with bad := true }
  | [] => p
  | _ => { p with bad := true }

/-- what `object_from_string` does with a name the scenario does not declare: the first
component is imported (`ValueError` when empty, `ModuleNotFoundError` unless it is the scenario's
module), every further component is a `getattr` (`AttributeError`). -/
def resolveDefault (moduleName name : Str) : Exc :=
  match splitOn '.' name with
  | [] :: _ => "ValueError"
  | h :: _ => if h = moduleName then "AttributeError" else "ModuleNotFoundError"
  | [] => "ValueError"

def innerRoot : Nat := 0
def outerRoot : Nat := 1000000

def TreeSt.contents (t : TreeSt) (m : Nat) : Dict Str Node := (Dict.get? t.maps m).getD []

/-- `for subkey in keys[:-1]: value = value.maps[subkey]` : model/tree.py -/
def TreeSt.walk (t : TreeSt) : Nat → List Str → Option Nat
  | m, [] => some m
  | m, c :: cs =>
    match Dict.get? (t.contents m) c with
    | some (.map m') => t.walk m' cs
    | _ => none

/-- what `ResourceMap.get(path)` finds from the map `root` -/
def TreeSt.node (t : TreeSt) (root : Nat) (path : Str) : Option Node :=
  let comps := splitOn '/' path
  match t.walk root comps.dropLast, comps.getLast? with
  | some m, some last => Dict.get? (t.contents m) last
  | _, _ => none

/-- `while root_map.parent is not None: root_map = root_map.parent` from the world handle:
model/world.py, `get_root_map` -/
def TreeSt.climb (t : TreeSt) : Nat → Nat → Nat
  | 0, m => m
  | fuel + 1, m =>
    match Dict.get? t.parent m with
    | some p => t.climb fuel p
    | none => m

def TreeSt.root (t : TreeSt) : Nat := t.climb (t.maps.length + 1) (t.worldParent.getD innerRoot)

/-- `m[name] = value` for a single name: the value's `parent` is the map -/
def TreeSt.setEntry (t : TreeSt) (m : Nat) (name : Str) (n : Node) : TreeSt :=
  let t := { t with maps := Dict.set t.maps m (Dict.set (t.contents m) name n) }
  match n with
  | .map c => { t with maps := if Dict.contains t.maps c then t.maps else Dict.set t.maps c [],
                       parent := Dict.set t.parent c m }
  | .world => { t with worldParent := some m }
  | .handle _ => t

/-- `ResourceMap.__setitem__(path, value)` from the map `m`: missing maps on the way are created -/
def TreeSt.insert (t : TreeSt) : Nat → List Str → Node → TreeSt
  | _, [], _ => t
  | m, [name], n => t.setEntry m name n
  | m, c :: cs, n =>
    match Dict.get? (t.contents m) c with
    | some (.map m') => t.insert m' cs n
    | _ =>
      let fresh := t.nextImplicit
      ({ t.setEntry m c (.map fresh) with nextImplicit := fresh + 1 }).insert fresh cs n

def TreeSt.build (t : TreeSt) (root : Nat) (entries : Dict Str Node) : TreeSt :=
  entries.foldl (fun t e => t.insert root (splitOn '/' e.1) e.2)
    { t with maps := if Dict.contains t.maps root then t.maps else Dict.set t.maps root [] }

/-- the value `handle()` returns now: the cached one, else the one the next `load()` builds -/
def TreeSt.genOf (t : TreeSt) (h : Nat) : Nat :=
  match Dict.get? t.cached h with
  | some g => g
  | none => (Dict.get? t.counts h).getD 0 + 1

/-- the parameters of one load: the program's names and the resource tree as it is now -/
def Parsed.universeAt (p : Parsed) (t : TreeSt) : Universe where
  resolve := fun n => match Dict.get? p.names n with
    | some v => .ok v
    | none => .error (resolveDefault p.moduleName n)
  getItem := fun path => match t.node t.root path with
    | some (.handle h) => .ok (.loaded h (t.genOf h))
    | some (.map m) => .ok (.map m)
    | some .world => .error "RecursionError"
    | none => .error "KeyError"
  getHandle := fun path => match t.node t.root path with
    | some (.handle h) => .handle h
    | some (.map m) => .map m
    | some .world => .worldHandle
    | none => .json .null
  inTree := p.inTree
  userInfo := fun c => Dict.get? p.classes c
  reaction := fun l m k => (Dict.get? p.reactions (l, m, k)).getD []
  classIds := p.classes.keys
  baseOf := fun c => Dict.get? p.bases c

def showGroup : Option Str → String
  | none => "-"
  | some g => "s" ++ pctEncode g

def showRx (s : Str) : String :=
  s!"rx {showGroup (reMatch objMarker s)} {showGroup (reMatch resMarker s)} {showGroup (reMatch handleMarker s)}"

def isItemLabel : Label → Bool
  | .item _ => true
  | _ => false

/-- `handle()` for every handle in `hs`: those without a cached value are loaded -/
def TreeSt.call (t : TreeSt) (hs : List Nat) : TreeSt :=
  hs.foldl (fun t h =>
    if Dict.contains t.cached h then t else
      let n := (Dict.get? t.counts h).getD 0 + 1
      { t with counts := Dict.set t.counts h n, cached := Dict.set t.cached h n }) t

/-- callbacks of the `on_world_load` delivery come out of a `set`: sorted -/
def sortLabels (l : List Entry) : List Entry :=
  let key : Entry → Nat := fun e => match e.recv with | .dflt k => k | .item n => n + 2 | .spawn n => n + 1000000
  l.foldl (fun acc x => acc.takeWhile (fun y => key y ≤ key x) ++ [x] ++ acc.dropWhile (fun y => key y ≤ key x)) []

def canonLog (l : List Entry) : List Entry :=
  let rec go (run : List Entry) : List Entry → List Entry
    | [] => sortLabels run
    | e :: rest =>
      if e.args = .handleWorld then go (run ++ [e]) rest
      else sortLabels run ++ e :: go [] rest
  go [] l

def showEntry (e : Entry) : String :=
  s!"cb {showLabel e.recv} {String.ofList e.meth} {showCbArgs e.args}"

def showWorld (w : World) : List String :=
  let comps := w.entities.flatMap (fun e => e.2.map (·.2))
  [s!"enabled {showBool w.enabled}",
   "procs " ++ joinList (w.sorted.map showInstRef),
   "ents " ++ joinList (w.entities.map (fun e => showEntId e.1))] ++
  w.entities.map (fun e => s!"ent {showEntId e.1} " ++ joinList (e.2.map (fun c => showInstRef c.2))) ++
  ((w.sorted ++ comps).filter (fun i => isItemLabel i.label)).map showInst

/-- which constructor call of this load raises (scripted per class and call number), and the call
counters afterwards: instances are built in the order of the description, processors first; a
raising call ends the load -/
def planCtors (p : Parsed) : Dict Nat Nat → List Item → Option Nat × Dict Nat Nat
  | counts, [] => (none, counts)
  | counts, d :: ds =>
    match d.type with
    | .cls c =>
      let k := (Dict.get? counts c).getD 0
      let counts := Dict.set counts c (k + 1)
      if ((Dict.get? p.raises c).getD []).contains k then (some d.label, counts) else planCtors p counts ds
    | _ => (none, counts)

def reactFuel : Nat := 4000

/-- one load and the observation block it produces; the program state remembers what was loaded
and how often constructors ran -/
def runLoad (p : Parsed) (t : TreeSt) : List String × TreeSt × Except Exc World :=
  let U0 := p.universeAt t
  let d : Desc := { processors := p.procs, entities := p.ents }
  let built : Option Desc := match p.mode with
    | .file => match transformDesc U0 d with
      | .ok td => some td
      | .error _ => none
    | _ => some d
  let plan : Option Nat × Dict Nat Nat := match built with
    | some td => planCtors p t.ctorCounts
        (td.processors ++ td.entities.flatMap (fun (e : Option EntId × List Item) => e.2))
    | none => (none, t.ctorCounts)
  let raising := plan.1
  let ctorCounts := plan.2
  let U := { U0 with ctorRaises := fun l => raising = some l }
  let res := match p.mode with
    | .file => loadFile U d
    | .dict => loadDict U d
    | .direct => populate U {} d
  let called := if p.mode = .file then (descLoads U d).eraseDups else []
  let t' := { t.call called with ctorCounts := ctorCounts, loadNo := t.loadNo + 1 }
  match res with
  | .error e => ([s!"res raised {e}"], t', res)
  | .ok w =>
    let pre := w.log.length
    if !p.reactions.isEmpty then
      -- callbacks act on the world: the program enables dispatching (again while a callback left
      -- it suspended, at most three more times) and the world is looked at once more afterwards
      let again := fun (acc : RW × Nat) (_ : Nat) =>
        if acc.1.w.enabled || acc.1.stop then acc else (setEnabledR U reactFuel acc.1, acc.2 + 1)
      -- `WorldHandle.load` dispatched on_world_load while nobody listened for it: dropped at once
      -- (a listener that a reaction creates later does not hear it)
      let known := (w.handlers.flatMap (fun h => eventNames U h.cls)).eraseDups
      let w1 := if known.contains onWorldLoad then w else
        { w with queue := w.queue.filter (fun ev => match ev with | .worldLoad => false | _ => true) }
      let rw0 := setEnabledR U reactFuel
        { w := w1, hints := (Dict.get? p.hints t.loadNo).getD [], known := known }
      let (rw, n) := [0, 1, 2].foldl again (rw0, 0)
      (["res ok"] ++ showWorld w ++
        (if p.mode = .file then
          ["loaded " ++ showNats (sortNats (called.filter (fun h => !Dict.contains t.cached h)))] else []) ++
        [s!"pre {pre}",
         match rw.bad, rw.w.failed with
          | some b, _ => s!"res-enable {b}"
          | none, some e => s!"res-enable raised {e}"
          | none, none => "res-enable ok",
         s!"re-enabled {n}"] ++
        rw.w.log.map showEntry ++ (showWorld rw.w).map (fun l => "post-" ++ l), t', res)
    else
    let w2 := if p.mode = .direct then w else setEnabled U w true
    (["res ok"] ++ showWorld w ++
      (if p.mode = .file then
        ["loaded " ++ showNats (sortNats (called.filter (fun h => !Dict.contains t.cached h)))] else []) ++
      [s!"pre {pre}"] ++
      (if p.mode = .direct then [] else
        [match w2.failed with | some e => s!"res-enable raised {e}" | none => "res-enable ok"]) ++
      (canonLog w2.log).map showEntry, t', res)

/-- `world_handle()` : `Handle.__call__` around one load -/
def runCall (p : Parsed) (t : TreeSt) : List String × TreeSt :=
  match t.worldCache with
  | some _ => (["res same-world"], { t with loadNo := t.loadNo + 1 })
  | none =>
    let (obs, t', res) := runLoad p t
    (obs, { t' with worldCache := (callHandle t.worldCache res).1 })

/-- `outer[key] = m` where `m` is the map at `ip` seen from the root above the world handle
(`-`: that root itself) -/
def TreeSt.mount (t : TreeSt) (ip key : Str) : TreeSt :=
  let m? : Option Nat := if ip = ['-'] then some t.root else
    match t.node t.root ip with
    | some (.map m) => some m
    | _ => none
  match m? with
  | some m => t.insert outerRoot (splitOn '/' key) (.map m)
  | none => t

/-- `outer.clear()`: contained maps whose parent it is lose their parent (model/tree.py:259-283) -/
def TreeSt.unmount (t : TreeSt) : TreeSt :=
  let kids := (t.contents outerRoot).filterMap (fun e => match e.2 with | .map c => some c | _ => none)
  { t with parent := kids.foldl (fun par c => if Dict.get? par c = some outerRoot then Dict.erase par c else par) t.parent,
           maps := Dict.set t.maps outerRoot [] }

def runSteps (p : Parsed) : TreeSt → Nat → List Step → List String
  | _, _, [] => []
  | t, k, .mount ip key :: rest => runSteps p (t.mount ip key) k rest
  | t, k, .unmount :: rest => runSteps p t.unmount k rest
  | t, k, .clear h :: rest => runSteps p { t with cached := Dict.erase t.cached h } k rest
  | t, k, .replace path h :: rest =>
    runSteps p (t.insert t.root (splitOn '/' path) (.handle h)) k rest
  | t, k, .call :: rest =>
    let (obs, t') := runCall p t
    s!"load {k} call" :: obs ++ runSteps p t' (k + 1) rest
  | t, k, .reload :: rest =>
    let (obs, t') := runCall p { t with worldCache := none }
    s!"load {k} reload" :: obs ++ runSteps p t' (k + 1) rest
  | t, k, .load2 :: rest =>
    let (obs, t', _) := runLoad p t
    s!"load {k} load2" :: obs ++ runSteps p t' (k + 1) rest

def stepOk (p : Parsed) : Step → Bool
  | .call => p.mode ≠ .direct
  | .reload => p.mode ≠ .direct
  | _ => p.mode = .file && p.inTree

def runScenario (lines : List String) : List String :=
  let p := lines.foldl parseLine {}
  if p.bad || !p.steps.all (stepOk p) ||
      (!p.reactions.isEmpty && (p.mode = .direct || p.raises.any (fun r => !r.2.isEmpty))) then ["bad-op"] else
  let (obs, t) := if p.mode = .direct then (let r := runLoad p (((({} : TreeSt).build innerRoot p.tree).build outerRoot p.outer)); (r.1, r.2.1))
    else runCall p (((({} : TreeSt).build innerRoot p.tree).build outerRoot p.outer))
  p.rx.map showRx ++ obs ++ runSteps p t 2 p.steps

end Desper.Loader
