import DesperModel.Dict
import DesperModel.Proto
namespace Desper.Loader
def runScenario (_lines : List String) : List String := ["not-implemented"]
end Desper.Loader
