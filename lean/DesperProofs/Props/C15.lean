import DesperModel.Loader
import DesperProofs.Lemmas.LoaderRegex
import DesperProofs.Lemmas.LoaderWorld
import DesperProofs.Lemmas.LoaderLoad
import DesperProofs.Lemmas.LoaderExamples
import DesperProofs.Lemmas.LoaderReact
open Desper Desper.Loader

/-!
# C15 — a loaded world contains exactly what its description says

Model: `DesperModel/Loader.lean`.  Vocabulary of the statements (definitions in `Lemmas/Loader*.lean`):

* `transformArg U v` — what one argument of a processor / component dictionary becomes when it goes
  through `object_dict_transformer` and then `resource_dict_transformer`;
* `transformDesc U d = .ok td` — the three dict transformers ran over every dictionary of the file
  `d` without raising; `DescTransformed U d td` says what `td` is, item by item
  (`ItemTransformed`: same label, `type` resolved to a class, every argument `transformArg`ed);
* `WellFormed U pre td` (decidable) — every `type` is a class, processors are `Processor`s, the
  processor types are distinct and distinct from `pre` (the default ones), the component types of
  each entity are distinct, the identifiers (given, or 1, 2, 3, .. for the entities without one)
  are distinct;
* `toInst d` — the instance `d['type'](*d['args'], **d['kwargs'])`, i.e. class + recorded arguments;
* `withIds 1 es` — the listed entities with their identifiers; `expectedEntities` — one row per
  entity that has components: `(id, [(class, instance), ..])` in the listed order;
* `owedLog U td` — `on_add` of every handler processor (no arguments) and handler component
  (`entity, world`) in the order of the description, then `on_world_load(handle, world)` of every
  handler that listens for it.
-/

/-- An argument that is not a string, or a string that does not begin with `${`, `$res{` or
`$handle{`, goes through both transformers unchanged — for all character lists. -/
theorem C15_passthrough (U : Universe) (v : Val)
    (h : ∀ s, v = .json (.str s) → beginsWithMarker s = false) : transformArg U v = .ok v :=
  transformArg_passthrough U v h

example : transformArg exU (exStr " ${m.o}") = .ok (exStr " ${m.o}") ∧
    transformArg exU (exStr "$res {a.r}") = .ok (exStr "$res {a.r}") ∧
    transformArg exU (.json (.list [.str "${m.o}".toList])) = .ok (.json (.list [.str "${m.o}".toList])) :=
  ⟨C15_passthrough _ _ (by intro s hs; cases hs; decide),
   C15_passthrough _ _ (by intro s hs; cases hs; decide),
   C15_passthrough _ _ (by intro s hs; cases hs)⟩

/-- A dictionary all of whose arguments are of that kind keeps its `args` and `kwargs`. -/
theorem C15_passthrough_item (U : Universe) (d d' : Item) (h : applyTransformers U d = .ok d')
    (ha : ∀ v ∈ d.args, ∀ s, v = .json (.str s) → beginsWithMarker s = false)
    (hk : ∀ kv ∈ d.kwargs, ∀ s, kv.2 = .json (.str s) → beginsWithMarker s = false) :
    d'.args = d.args ∧ d'.kwargs = d.kwargs := by
  obtain ⟨_, _, hargs, hkw⟩ := applyTransformers_ok h
  refine ⟨all₂_eq_of hargs ?_, all₂_eq_of hkw ?_⟩
  · intro a hmem b hab
    have := transformArg_passthrough U a (ha a hmem)
    unfold ArgTransformed at hab
    rw [this] at hab
    exact (Except.ok.inj hab).symm
  · intro a hmem b hab
    have := transformArg_passthrough U a.2 (hk a hmem)
    obtain ⟨h1, h2⟩ := hab
    unfold ArgTransformed at h2
    rw [this] at h2
    have h3 := Except.ok.inj h2
    cases a; cases b; simp_all

example : applyTransformers exU ⟨2, exStr "m.C", [exStr "x${m.o}", .json (.int 1)], [("k".toList, exStr "$")]⟩ =
    .ok ⟨2, .cls 4, [exStr "x${m.o}", .json (.int 1)], [("k".toList, exStr "$")]⟩ := by rfl

/-- `"${name}"`, `"$res{name}"`, `"$handle{name}"` for every non-empty name without newline
(the name may even contain `}`): the object transformer yields `object_from_string(name)`, and the
whole pipeline yields it too unless that object is itself a string beginning with `$res{` /
`$handle{` (guard `NotResourceRef`, known finding D30); a resource reference yields
`root['/'.join(name.split('.'))]`, a handle reference `root.get(...)`, where joining the split name
is replacing every `.` by `/`. -/
theorem C15_references (U : Universe) (name : Str) (hne : name ≠ []) (hnl : '\n' ∉ name) :
    objectMap U (.json (.str (objMarker ++ (name ++ ['}'])))) = U.resolve name ∧
    (∀ v, U.resolve name = .ok v → NotResourceRef v →
      transformArg U (.json (.str (objMarker ++ (name ++ ['}'])))) = .ok v) ∧
    (U.inTree = true →
      transformArg U (.json (.str (resMarker ++ (name ++ ['}'])))) = U.getItem (resPath name)) ∧
    (U.inTree = true →
      transformArg U (.json (.str (handleMarker ++ (name ++ ['}'])))) = .ok (U.getHandle (resPath name))) ∧
    resPath name = name.map (fun c => if c = '.' then '/' else c) := by
  refine ⟨?_, ?_, ?_, ?_, resPath_eq_map name⟩
  · simp [objectMap, reMatch_exact objMarker hne hnl]
  · intro v hv hg
    simp [transformArg, objectMap, reMatch_exact objMarker hne hnl, hv,
      resourceMap_of_notResourceRef U hg]
  · intro ht
    simp [transformArg, objectMap, resourceMap, reMatch_obj_of_res, reMatch_exact resMarker hne hnl, ht]
  · intro ht
    simp [transformArg, objectMap, resourceMap, reMatch_obj_of_handle, reMatch_res_of_handle,
      reMatch_exact handleMarker hne hnl, ht]

example : transformArg exU (exStr "${m.o}") = .ok (.obj 7) ∧
    transformArg exU (exStr "$res{a.r}") = .ok (.loaded 5 1) ∧
    transformArg exU (exStr "$handle{a.r}") = .ok (.handle 5) :=
  ⟨(C15_references exU "m.o".toList (by decide) (by decide)).2.1 _ rfl trivial,
   (C15_references exU "a.r".toList (by decide) (by decide)).2.2.1 rfl,
   (C15_references exU "a.r".toList (by decide) (by decide)).2.2.2.1 rfl⟩

/-- The guard of `C15_references` cannot be dropped (D30): a name that resolves to the Python string
`"$res{a.r}"` ends up as the loaded resource, not as the named string. -/
theorem C15_references_guard_needed :
    exU.resolve "m.s".toList = .ok (exStr "$res{a.r}") ∧
    transformArg exU (exStr "${m.s}") = .ok (.loaded 5 1) ∧
    ¬ NotResourceRef (exStr "$res{a.r}") := by
  refine ⟨rfl, rfl, ?_⟩
  simp only [exStr, NotResourceRef]
  decide

/-- Exact content, JSON file through a `WorldFromFileHandle`: if the transformers succeed with `td`
(which is `d` with every type resolved and every argument transformed) and `td` is well formed,
the load succeeds; `World.processors` is a permutation of the two default processors followed by
the listed ones, sorted by priority, and processors of equal priority keep the order "defaults,
then as listed"; `World._entities` is exactly one row per listed entity with components, under the
given or the next automatic identifier, holding exactly the listed components in order. -/
theorem C15_exact_content (U : Universe) (d td : Desc) (htd : transformDesc U d = .ok td)
    (hwf : WellFormed U [clsOnUpdate, clsCoroutine] td) :
    DescTransformed U d td ∧
    ∃ w, loadFile U d = .ok w ∧
      w.sorted.Perm (defaultInsts ++ td.processors.map toInst) ∧
      w.sorted.Pairwise (fun a b => prioOf U a.cls ≤ prioOf U b.cls) ∧
      (∀ k : Int, w.sorted.filter (fun i => prioOf U i.cls = k) =
        (defaultInsts ++ td.processors.map toInst).filter (fun i => prioOf U i.cls = k)) ∧
      w.entities = expectedEntities (withIds 1 td.entities) := by
  refine ⟨transformDesc_ok htd, loadedFile U td, loadFile_wf U d td htd hwf, ?_⟩
  obtain ⟨h1, h2, h3⟩ := foldl_insort_spec U (td.processors.map toInst) defaultInsts (sortedP_defaults U)
  simp only [loadedFile, populated, defaultProcessors_disabled]
  exact ⟨h1, h2, h3, rfl⟩

example : transformDesc exU exDesc = .ok exTd ∧ WellFormed exU [clsOnUpdate, clsCoroutine] exTd ∧
    ∃ w, loadFile exU exDesc = .ok w ∧
      w.sorted.map (·.label) = [.item 0, .dflt 0, .dflt 1] ∧
      w.entities.map (fun e => (e.1, e.2.map (fun c => (c.1, c.2.label)))) =
        [(.int 1, [(3, .item 1), (4, .item 2)]), (.str "foo".toList, [(3, .item 3)])] :=
  ⟨rfl, by decide, _, rfl, by decide, by decide⟩

/-- Exact content, dictionary path: `populate_world_from_dict` run by a `WorldHandle`
(`loadDict`, world returned disabled) or directly on a fresh `World` (`populate U {}`). -/
theorem C15_exact_content_dict (U : Universe) (td : Desc) (hwf : WellFormed U [] td) :
    (∃ w, loadDict U td = .ok w ∧ w.enabled = false ∧
      w.sorted.Perm (td.processors.map toInst) ∧
      w.sorted.Pairwise (fun a b => prioOf U a.cls ≤ prioOf U b.cls) ∧
      (∀ k : Int, w.sorted.filter (fun i => prioOf U i.cls = k) =
        (td.processors.map toInst).filter (fun i => prioOf U i.cls = k)) ∧
      w.entities = expectedEntities (withIds 1 td.entities)) ∧
    (∃ w, populate U {} td = .ok w ∧
      w.sorted.Perm (td.processors.map toInst) ∧
      w.sorted.Pairwise (fun a b => prioOf U a.cls ≤ prioOf U b.cls) ∧
      (∀ k : Int, w.sorted.filter (fun i => prioOf U i.cls = k) =
        (td.processors.map toInst).filter (fun i => prioOf U i.cls = k)) ∧
      w.entities = expectedEntities (withIds 1 td.entities) ∧
      w.log = (td.processors.map toInst).flatMap (onAddEntry U .none) ++ entLog U (withIds 1 td.entities)) := by
  obtain ⟨h1, h2, h3⟩ := foldl_insort_spec U (td.processors.map toInst) [] List.Pairwise.nil
  simp only [List.nil_append] at h1 h3
  refine ⟨⟨loadedDict U td, loadDict_wf U td hwf, rfl, ?_⟩, ⟨populated U {} td, populate_wf U {} td hwf rfl rfl, ?_⟩⟩
  · simp only [loadedDict, populated]
    exact ⟨h1, h2, h3, rfl⟩
  · simp only [populated]
    exact ⟨h1, h2, h3, rfl, by simp⟩

example : WellFormed exU [] exTd ∧ ∃ w, populate exU {} exTd = .ok w ∧
    w.log = [⟨.item 0, "padd".toList, .none⟩, ⟨.item 1, "cadd".toList, .entWorld (.int 1)⟩,
             ⟨.item 3, "cadd".toList, .entWorld (.str "foo".toList)⟩] :=
  ⟨by decide, _, rfl, by decide⟩

/-- The world is returned with dispatching disabled and no callback has run; enabling dispatching
empties the queue without an exception and the callback log is then exactly `owedLog`: `on_add`
once for every handler (operation order), followed by `on_world_load(handle, world)` once for every
listener; tables are not touched.  (In the model the listeners are visited in registration order;
Python leaves the order within the `on_world_load` block open.) -/
theorem C15_disabled_then_events (U : Universe) (d td : Desc) (htd : transformDesc U d = .ok td)
    (hwf : WellFormed U [clsOnUpdate, clsCoroutine] td) :
    ∃ w, loadFile U d = .ok w ∧ w.enabled = false ∧ w.log = [] ∧
      (setEnabled U w true).enabled = true ∧ (setEnabled U w true).queue = [] ∧
      (setEnabled U w true).failed = none ∧ (setEnabled U w true).log = owedLog U td ∧
      (setEnabled U w true).sorted = w.sorted ∧ (setEnabled U w true).entities = w.entities := by
  refine ⟨loadedFile U td, loadFile_wf U d td htd hwf, ?_⟩
  have h := release_loaded U (defaultProcessors U { enabled := false }) td
    (by rw [defaultProcessors_disabled]) (by rw [defaultProcessors_disabled])
    (by rw [defaultProcessors_disabled]) (by rw [defaultProcessors_disabled])
    (by rw [defaultProcessors_disabled]) (by rw [defaultProcessors_disabled])
  exact h

example : ∃ w, loadFile exU exDesc = .ok w ∧ w.enabled = false ∧ w.log = [] ∧
    (setEnabled exU w true).log =
      [⟨.item 0, "padd".toList, .none⟩, ⟨.item 1, "cadd".toList, .entWorld (.int 1)⟩,
       ⟨.item 3, "cadd".toList, .entWorld (.str "foo".toList)⟩,
       ⟨.item 1, "wl".toList, .handleWorld⟩, ⟨.item 3, "wl".toList, .handleWorld⟩] :=
  ⟨_, rfl, rfl, rfl, by decide⟩

/-- The same for a `WorldHandle` that populates from a dictionary. -/
theorem C15_disabled_then_events_dict (U : Universe) (td : Desc) (hwf : WellFormed U [] td) :
    ∃ w, loadDict U td = .ok w ∧ w.enabled = false ∧ w.log = [] ∧
      (setEnabled U w true).enabled = true ∧ (setEnabled U w true).queue = [] ∧
      (setEnabled U w true).failed = none ∧ (setEnabled U w true).log = owedLog U td ∧
      (setEnabled U w true).sorted = w.sorted ∧ (setEnabled U w true).entities = w.entities :=
  ⟨loadedDict U td, loadDict_wf U td hwf, release_loaded U { enabled := false } td rfl rfl rfl rfl rfl rfl⟩

example : ∃ w, loadDict exU exTd = .ok w ∧ (setEnabled exU w true).log = owedLog exU exTd ∧
    (owedLog exU exTd).length = 5 :=
  ⟨_, rfl, by decide, by decide⟩

/-- A load that fails part-way (a transformer or a constructor raises) hands the exception to the
caller of `handle()` and leaves nothing cached in the handle; the next `handle()` therefore loads
again from scratch and — the cause being repaired, i.e. in a universe `U'` where the description
transforms and is well formed — returns exactly the world `loadFile U' d` builds (for which
`C15_exact_content` and `C15_disabled_then_events` hold) and caches it; calls after that return
this same world without loading. -/
theorem C15_failed_load_not_cached (U U' : Universe) (d td : Desc) (e : Exc)
    (hfail : loadFile U d = .error e) (htd : transformDesc U' d = .ok td)
    (hwf : WellFormed U' [clsOnUpdate, clsCoroutine] td) :
    callHandle none (loadFile U d) = (none, .error e) ∧
    ∃ w, loadFile U' d = .ok w ∧
      callHandle (callHandle none (loadFile U d)).1 (loadFile U' d) = (some w, .ok w) ∧
      ∀ load, callHandle (some w) load = (some w, .ok w) := by
  have h1 : callHandle none (loadFile U d) = (none, .error e) := by simp [callHandle, hfail]
  refine ⟨h1, loadedFile U' td, loadFile_wf U' d td htd hwf, ?_, fun _ => rfl⟩
  rw [h1, loadFile_wf U' d td htd hwf]
  rfl

/-- non-vacuity: with the handle `a/r` missing from the tree the load of `exDesc` fails with
`KeyError`; with a raising constructor of the component labelled 1 it fails with `CtorError`; the
repaired universe `exU` satisfies the other hypotheses -/
example : loadFile { exU with getItem := fun _ => .error "KeyError" } exDesc = .error "KeyError" ∧
    loadFile { exU with ctorRaises := fun l => l = 1 } exDesc = .error "CtorError" ∧
    transformDesc exU exDesc = .ok exTd ∧ WellFormed exU [clsOnUpdate, clsCoroutine] exTd :=
  ⟨rfl, rfl, rfl, by decide⟩

/-- The re-entrant model of the release (`setEnabledR`: callbacks with scripted reactions that may
suspend / resume dispatching, create entities, add and remove components, dispatch events; listener
sets visited in the order the implementation reports, validated step by step) agrees with the
passive one of `C15_disabled_then_events` whenever no callback of the program reacts: given as
hints the receivers of `owedLog` in order, it accepts every hint, uses all of them up, raises
nothing and ends in the very world `setEnabled` ends in — whose log is `owedLog`.  For every fuel
above the size of the queue plus the number of handlers. -/
theorem C15_reentrant_release_passive (U : Universe) (d td : Desc) (hp : Passive U)
    (htd : transformDesc U d = .ok td) (hwf : WellFormed U [clsOnUpdate, clsCoroutine] td)
    (hlab : ((td.processors ++ td.entities.flatMap (·.2)).map (·.label)).Nodup) (n : Nat) :
    ∃ w, loadFile U d = .ok w ∧
      (setEnabledR U (n + w.queue.length + w.handlers.length + 6)
        { w := w, hints := (owedLog U td).map (·.recv) }).w = setEnabled U w true ∧
      (setEnabled U w true).log = owedLog U td ∧
      (setEnabledR U (n + w.queue.length + w.handlers.length + 6)
        { w := w, hints := (owedLog U td).map (·.recv) }).bad = none ∧
      (setEnabledR U (n + w.queue.length + w.handlers.length + 6)
        { w := w, hints := (owedLog U td).map (·.recv) }).hints = [] := by
  obtain ⟨hf, hg, hn⟩ := loadedFile_facts U td hlab
  have hrel := release_loaded U (defaultProcessors U { enabled := false }) td
    (by rw [defaultProcessors_disabled]) (by rw [defaultProcessors_disabled])
    (by rw [defaultProcessors_disabled]) (by rw [defaultProcessors_disabled])
    (by rw [defaultProcessors_disabled]) (by rw [defaultProcessors_disabled])
  have hlog : (setEnabled U (loadedFile U td) true).log = owedLog U td := hrel.2.2.2.2.2.1
  have hlog0 : (loadedFile U td).log = [] := hrel.2.1
  have hq : (loadedFile U td).queue.flatMap (entriesOf U (loadedFile U td).handlers) = owedLog U td := by
    have := hlog
    simp only [setEnabled, ite_true] at this
    rw [release_good U (loadedFile U td).queue { loadedFile U td with enabled := true } hg hf] at this
    simpa [hlog0] using this
  have hmain := setEnabledR_passive hp (loadedFile U td) n hf hg hn
  simp only [hq] at hmain
  exact ⟨loadedFile U td, loadFile_wf U d td htd hwf, hmain.1, hlog, hmain.2.1, hmain.2.2⟩

/-- non-vacuity: the hypotheses hold of the example universe and description -/
example : Passive exU ∧ transformDesc exU exDesc = .ok exTd ∧
    WellFormed exU [clsOnUpdate, clsCoroutine] exTd ∧
    ((exTd.processors ++ exTd.entities.flatMap (·.2)).map (·.label)).Nodup :=
  ⟨fun _ _ _ => rfl, rfl, by decide, by decide⟩
