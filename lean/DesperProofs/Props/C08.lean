import DesperModel.Coro
import DesperProofs.Lemmas.CoroGen
open Desper Desper.Coro

/-
  C08 — coroutines advance one step per frame and wake exactly on time.

  Vocabulary (all defined in DesperModel/Coro.lean): `run U init ops` is the state after the history
  `ops` of top-level operations (start / kill / state / value / process dt, bodies doing their own
  start / kill / state); `s.pc g` is the number of steps generator object `g` has executed
  (`C08_progress_counts_logged_steps`); `runnableIn s dt g`: `g` is in the deque when the run loop of
  `process dt` starts (queued as runnable, or its wait elapses in this call and no kill is pending);
  `hasCode`: `next(g)` would execute a step; `curStep U s g`: that step; `nStart s g`: number of
  successful starts of `g` so far; `elapsed ops`: the dt accumulated by `ops`.  Times are integers
  (units of 1/8 s).  Every statement holds for all scripts `U`, all histories, all dt, all heap
  tie-breaks (`hint`).

  Bodies may leave with an exception (`raise X` step endings: quit_loop() / switch() inside a
  coroutine, a bug).  `process` then returns `Outcome.crashed X` instead of `Outcome.ok`; the
  statements below hold for every program and say explicitly which of them concern calls that
  return normally (hypothesis `(process …).2 = .ok`).  Reachable states include those left behind
  by aborted calls, so "the call after an aborted one" is covered by every statement (D31).
-/

/-- a small program for the non-vacuity examples: 0 waits 2 s then 1/8 s; 1 yields every frame;
2 yields 0 and a negative number -/
def C08_demo : Universe :=
  { script := fun g =>
      if g = 0 then some [⟨[], .yield (some 16)⟩, ⟨[], .yield (some 1)⟩, ⟨[], .ret none⟩]
      else if g = 1 then some [⟨[], .yield none⟩, ⟨[], .yield none⟩, ⟨[], .yield none⟩, ⟨[], .ret none⟩]
      else if g = 2 then some [⟨[], .yield (some 0)⟩, ⟨[], .yield (some (-8))⟩, ⟨[], .ret none⟩]
      else none }

def C08_history : List Op := [.start 0, .start 1, .process 8 [], .start 2, .process 3 []]

/-- `pc` is what the execution log shows: the number of `step g _` entries logged so far. -/
theorem C08_progress_counts_logged_steps (U : Universe) (ops : List Op) (g : Gen) :
    (run U init ops).pc g = (stepGens (run U init ops).log).count g :=
  run_pcLog_gen U top_init ops pcLog_init g

example : stepGens (run C08_demo init C08_history).log = [2, 1, 1, 0] := by decide

/-- **One step per frame** (every program, every reachable state — also right after a call that a
body aborted).  In a `process dt` call every generator executes at most one step, and one that is
not in the deque when the run loop starts (still waiting, unknown, or started during the call)
executes none.  If the call returns normally, every generator that is in the deque, not marked for
killing, with code left, executes exactly one step — unless one of the steps executed in this very
call kills it (the explicit, decidable side condition; top-level kills happen between calls) — and
one that is not in the deque is not exhausted by the call.  (A call that a body aborts stops at
the body that raises: the generators behind it are not advanced in that call, cf.
`C08_aborted_call`.) -/
theorem C08_one_step (U : Universe) (ops : List Op) (dt : Int) (hint : List Gen) (g : Gen) :
    let s := run U init ops
    let s' := (process U s dt hint).1
    s'.pc g ≤ s.pc g + 1 ∧ s.pc g ≤ s'.pc g ∧
    (¬ runnableIn s dt g → s'.pc g = s.pc g) ∧
    ((process U s dt hint).2 = .ok →
      (¬ runnableIn s dt g → s'.fin g = s.fin g) ∧
      (runnableIn s dt g → s.kill g = false → hasCode U s g →
        (∀ h, runnableIn s dt h → ∀ st, curStep U s h = some st → Act.kill g ∉ st.acts) →
        s'.pc g = s.pc g + 1)) := by
  intro s s'
  have T := run_top_gen U top_init ops
  obtain ⟨b1, b2⟩ := process_pc_le U T.inv dt hint g
  refine ⟨b2, b1, fun hn => ?_, fun hok => ?_⟩
  · obtain ⟨pend, hact, _⟩ := process_frame (san U) T dt hint
    apply process_pc_notin U T.inv
    intro hm
    exact hn ((pend_mem (san U) T dt hint hact g).mp (by rw [hact] at hm; simpa using hm))
  · obtain ⟨_, _, h3, h4⟩ := one_step_ok U T dt hint g hok
    exact ⟨fun hn => (h3 hn).2, h4⟩

example : (process C08_demo (run C08_demo init C08_history) 8 []).1.pc 1 = 3 ∧
    (run C08_demo init C08_history).pc 1 = 2 := by decide

/-- **Within a frame bodies run in deque order, each at most once** (a call that returns normally).  `pend` is the deque when the
run loop starts (the runnable generators in their order, followed by the newly woken ones); the
steps logged by the call are those of a sub-sequence `ran` of `pend`, in that order. -/
theorem C08_frame_runs_in_deque_order (U : Universe) (ops : List Op) (dt : Int) (hint : List Gen) :
    let s := run U init ops
    (process U s dt hint).2 = .ok →
    ∃ pend ran : List Gen, (wakePhase s dt hint).1.active = none :: pend.map some ∧ pend.Nodup ∧
      ran.Sublist pend ∧ stepGens (process U s dt hint).1.log = ran.reverse ++ stepGens s.log :=
  fun hok => process_steps_ok U (run_top_gen U top_init ops) dt hint hok

/-- **Order is stable from frame to frame** — whether the call returns normally or a body aborts it
(the clean-up brings the sentinel back to the front without disturbing any relative order).  The generators that are in the deque after the call
and were not started during it (`nStart` unchanged) appear there in the order in which the run loop
met them.  With `C08_frame_runs_in_deque_order` for this and for the next call: coroutines that
stay runnable execute in the same relative order in consecutive frames. -/
theorem C08_order_stable (U : Universe) (ops : List Op) (dt : Int) (hint : List Gen) :
    let s := run U init ops
    let s' := (process U s dt hint).1
    ∃ pend : List Gen, (wakePhase s dt hint).1.active = none :: pend.map some ∧
      (s'.active.filter (fun e => match e with
        | some x => nStart s' x == nStart s x
        | none => false)).Sublist (pend.map some) := by
  intro s s'
  have T := run_top_gen U top_init ops
  obtain ⟨pend, h1, h2⟩ : ∃ pend : List Gen, (wakePhase s dt hint).1.active = none :: pend.map some ∧
      (s'.active.filter (unrestarted s s')).Sublist (pend.map some) := by
    rcases process_outcome U T.inv dt hint with hok | ⟨e, hc⟩
    · exact process_order_ok U T dt hint hok
    · exact process_order_crashed U T dt hint hc
  refine ⟨pend, h1, ?_⟩
  have : (fun e : Option Gen => match e with
        | some x => nStart s' x == nStart s x
        | none => false) = unrestarted s s' := by
    funext e; cases e <;> rfl
  rw [this]; exact h2

example : (run C08_demo init C08_history).active = [none, some 1, some 2] := by decide

/-- **A positive wait starts in full; anything else means next frame.**  When a generator that runs
in this call ends its step with `yield w`: if `w = n > 0` the heap holds the record `⟨g, n + clock⟩`
when the call returns — a remaining wait of exactly `n` (unless a body started `g` again in the same
call); otherwise (`None`, zero, negative) `g` is in the deque when the call returns, hence
`runnableIn` for the next call whatever its dt, where `C08_one_step` applies to it. -/
theorem C08_nonpositive_is_next_frame (U : Universe) (ops : List Op) (dt : Int) (hint : List Gen)
    (g : Gen) (st : Step) (w : Option Int) :
    let s := run U init ops
    let s' := (process U s dt hint).1
    (process U s dt hint).2 = .ok → runnableIn s dt g → s.kill g = false → hasCode U s g → curStep U s g = some st →
    st.fin = .yield w →
    (∀ h, runnableIn s dt h → ∀ st, curStep U s h = some st → Act.kill g ∉ st.acts) →
    (positive w = true →
      ((⟨some g, w.getD 0 + s'.timer⟩ : Rec) ∈ s'.waiting ∨ nStart s g < nStart s' g)) ∧
    (positive w = false → some g ∈ s'.active ∧ ∀ dt', runnableIn s' dt' g) := by
  intro s s' hok hr hk hc hs hw hno
  obtain ⟨h1, h2⟩ := process_after_yield_ok U (run_top_gen U top_init ops) dt hint hok hr hk hc hs hw hno
  exact ⟨h1, fun hp => ⟨h2 hp, fun _ => .inl (h2 hp)⟩⟩

example : (⟨some 0, 16 + 0⟩ : Rec) ∈ (run C08_demo init [.start 0, .process 8 []]).waiting := by decide

/-- **Wake exactly on time.**  Take any reachable state in which the record `⟨g, d⟩` is in the heap
(remaining wait `d - clock`) and any further history `ops` with non-negative dt.
*Never earlier*: as long as the accumulated dt has not reached the remaining wait and `g` has not
been started again, the record is still in the heap, the clock has advanced by exactly the
accumulated dt (so the remaining wait shrank by exactly that much, whatever else is waiting: the
clock is reset only when the heap is empty), and `g` has executed no step.
*Never later*: in the first `process dt` call by which the accumulated dt reaches the remaining wait,
`g` is in the deque when the run loop starts and — if no kill is pending or issued in that call and
it has code and the call returns normally — executes exactly one step in that call.  The history
`ops` may contain calls that a body aborted: they count like any other call. -/
theorem C08_wake_exact (U : Universe) (ops0 ops : List Op) (g : Gen) (d : Int) (dt : Int)
    (hint : List Gen) :
    let s := run U init ops0
    let s1 := run U s ops
    let s2 := (process U s1 dt hint).1
    (⟨some g, d⟩ : Rec) ∈ s.waiting → (∀ op ∈ ops, nonnegDt op) →
    s.timer + elapsed ops < d → nStart s1 g = nStart s g →
    ((⟨some g, d⟩ : Rec) ∈ s1.waiting ∧ s1.timer = s.timer + elapsed ops ∧ s1.pc g = s.pc g) ∧
    (d ≤ s.timer + elapsed ops + dt → s1.kill g = false →
      (runnableIn s1 dt g ∧
        ((process U s1 dt hint).2 = .ok → hasCode U s1 g →
          (∀ h, runnableIn s1 dt h → ∀ st, curStep U s1 h = some st → Act.kill g ∉ st.acts) →
          s2.pc g = s.pc g + 1))) := by
  intro s s1 s2 hm hnn hd hns
  have T := run_top_gen U top_init ops0
  obtain ⟨k1, k2, k3⟩ := wake_exact_gen U T ops hm hnn hd hns
  refine ⟨⟨k1, k2, k3⟩, fun hdue hk => ?_⟩
  have hr : runnableIn s1 dt g := .inr ⟨d, k1, by rw [k2]; exact hdue, hk⟩
  refine ⟨hr, fun hok hc hno => ?_⟩
  have T1 : Top s1 := run_top_gen U T ops
  have := (one_step_ok U T1 dt hint g hok).2.2.2 hr hk hc hno
  rw [this, k3]

example : (run C08_demo init [.start 0, .start 1, .process 8 [], .process 8 [], .process 7 []]).pc 0 = 1 ∧
    (run C08_demo init [.start 0, .start 1, .process 8 [], .process 8 [], .process 7 [], .process 1 []]).pc 0 = 2 := by
  decide

/-- a program with a body that raises: generator 1 leaves with `Quit` in its second step, generator
0 is queued in front of it, 2 and 3 behind it -/
def C08_raising : Universe :=
  { script := fun g =>
      if g = 1 then some [⟨[], .yield none⟩, ⟨[], .raise "Quit"⟩, ⟨[], .ret none⟩]
      else if g < 4 then some [⟨[], .yield none⟩, ⟨[], .yield none⟩, ⟨[], .yield none⟩,
                               ⟨[], .yield none⟩, ⟨[], .ret none⟩]
      else none }

def C08_raising_history : List Op :=
  [.start 0, .start 1, .start 2, .start 3, .process 1 [], .process 1 []]

/-- **A call that a body aborts** (every program, every reachable state): when `process` is left
by the exception of a body, the sentinel is in front of the deque again when the call returns
(hence the next call meets *every* runnable coroutine: `C08_one_step` applies to it in full, and
`C08_order_stable` says the order was kept), no generator was advanced more than once
(`C08_one_step`), and the generator that raised — it was in the deque of this call — is in no table
any more and exhausted. -/
theorem C08_aborted_call (U : Universe) (ops : List Op) (dt : Int) (hint : List Gen) (e : String) :
    let s := run U init ops
    let s' := (process U s dt hint).1
    (process U s dt hint).2 = .crashed e →
    (∃ rest, s'.active = none :: rest) ∧
    ∃ g, runnableIn s dt g ∧ s'.gens g = none ∧ some g ∉ s'.active ∧ s'.fin g = true := by
  intro s s' hc
  obtain ⟨g, hr, hg, hf, T'⟩ := process_crashed U (run_top_gen U top_init ops) dt hint hc
  exact ⟨T'.head, g, hr, hg, (T'.inv.nowhere g hg).1, hf⟩

/-- D31, positively: generator 1 raises in the second frame (`C08_raising_history` ends with that
aborted call); the next call advances 0, 2 and 3 — each exactly once —, and so does the one after. -/
example :
    let s := run C08_raising init C08_raising_history
    let s1 := (process C08_raising s 1 []).1
    let s2 := (process C08_raising s1 1 []).1
    s.log.head? = some (.res (.crashed "Quit")) ∧ s.active = [none, some 0, some 2, some 3] ∧
    (s1.pc 0, s1.pc 2, s1.pc 3) = (s.pc 0 + 1, s.pc 2 + 1, s.pc 3 + 1) ∧
    (s2.pc 0, s2.pc 2, s2.pc 3) = (s1.pc 0 + 1, s1.pc 2 + 1, s1.pc 3 + 1) ∧
    stepGens s2.log = [3, 2, 0, 3, 2, 0, 1, 0, 3, 2, 1, 0] := by
  decide
