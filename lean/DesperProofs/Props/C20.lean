import DesperModel.Spatial
import DesperProofs.Lemmas.DispTop
/-
  C20 — Transform setters notify listeners with the value that was stored.

  Model: DesperModel/Spatial.lean (mirrors desper/logic/spatial.py; a transform is an
  EventDispatcher, so notification is `Disp.execOp … (.dispatch event value)`).
-/
open Desper Desper.Disp Desper.Spatial

/-- 2D rotations are stored reduced modulo 360 into [0, 360) (units of 1/2 degree: modulo 720). -/
theorem C20_rotation_mod (k : Int) :
    stored false .rotation (.half k) = some (.half (k % 720)) ∧ 0 ≤ k % 720 ∧ k % 720 < 720 := by
  refine ⟨rfl, ?_, ?_⟩ <;> omega

/-- Every other assignment (position, scale, 3D rotation) stores the value itself. -/
theorem C20_stored_verbatim (is3D : Bool) (f : Field) (v : Val)
    (h : f ≠ .rotation ∨ is3D = true) : stored is3D f v = some v := by
  cases f <;> cases is3D <;> cases v <;> simp_all [stored]

/-- The setter stores the value and notifies — exactly once each and with exactly the stored value,
the very value a read of the property returns right afterwards — the listeners registered for the
matching event, and nobody else (every new log entry belongs to a listener of that event);
the other two properties are untouched. -/
theorem C20_notify_stored (U : Universe) (hp : Passive U) (fuel : Nat) (t : TSt) (f : Field)
    (v sv : Val) (hs : stored t.is3D f v = some sv)
    (hdy : t.d.dying = []) (hen : t.d.enabled = true)
    (hok : (setField U fuel t f v).2 = .ok) :
    (setField U fuel t f v).1.read f = sv ∧
    (∀ g, g ≠ f → (setField U fuel t f v).1.read g = t.read g) ∧
    ∃ called : List (Obj × String),
      (setField U fuel t f v).1.d.log =
        (called.map (cbEntry U ((setField U fuel t f v).1.read f).show)).reverse ++ t.d.log ∧
      DeliveredOnce t.d f.event called := by
  have hr : (setField U fuel t f v).1.read f = sv := by
    simp only [setField, hs]; cases f <;> rfl
  refine ⟨hr, ?_, ?_⟩
  · intro g hg
    simp only [setField, hs]
    cases f <;> cases g <;> first | rfl | exact absurd rfl hg
  · rw [hr]
    have hd : (t.write f sv).d = t.d := by cases f <;> rfl
    simp only [setField, hs, hd] at hok ⊢
    obtain ⟨called, h1, h2, _⟩ := dispatch_passive hp fuel t.d f.event sv.show hdy hen hok
    exact ⟨called, h1, h2⟩

/-- Whatever the listeners do from inside their callbacks (raise, add or remove listeners, switch
notification off, dispatch again — `U` is arbitrary here, and so is the outcome of the assignment): the
value is stored, the other two properties are untouched, and the dispatcher part of the result is
exactly the dispatcher's own `dispatch` of the matching event with the stored value, so a listener
that raised leaves nothing behind that `Disp.execOp` itself would not leave (C03/C04/C10 speak about
that state). -/
theorem C20_stored_whatever_listeners_do (U : Universe) (fuel : Nat) (t : TSt) (f : Field)
    (v sv : Val) (hs : stored t.is3D f v = some sv) :
    (setField U fuel t f v).1.read f = sv ∧
    (∀ g, g ≠ f → (setField U fuel t f v).1.read g = t.read g) ∧
    (setField U fuel t f v).1.d = (execOp U fuel t.d (.dispatch f.event sv.show)).1 ∧
    (setField U fuel t f v).2 = (execOp U fuel t.d (.dispatch f.event sv.show)).2 := by
  have hd : (t.write f sv).d = t.d := by cases f <;> rfl
  refine ⟨?_, ?_, ?_, ?_⟩
  · simp only [setField, hs]; cases f <;> rfl
  · intro g hg
    simp only [setField, hs]
    cases f <;> cases g <;> first | rfl | exact absurd rfl hg
  · simp only [setField, hs, hd]
  · simp only [setField, hs, hd]

/-- A rejected assignment (a vector as 2D rotation: `vector % 360.` is a TypeError) stores nothing and
notifies nobody. -/
theorem C20_rejected_noop (U : Universe) (fuel : Nat) (t : TSt) (f : Field) (v : Val)
    (hs : stored t.is3D f v = none) : setField U fuel t f v = (t, .raised "TypeError") := by
  simp only [setField, hs]

/-- Values given at construction are stored as the setters would store them - position, scale and the 3D
rotation as the vector of the given components (`Vec2(*value)`: `asVec`), the 2D rotation reduced - and
nothing is notified. -/
theorem C20_ctor (is3D : Bool) (held : List Obj) (pos rot scale : Option Val) (t : TSt)
    (h : construct is3D held pos rot scale = some t) :
    (∀ p, pos = some p → t.read .position = asVec p) ∧
    (∀ s, scale = some s → t.read .scale = asVec s) ∧
    (∀ r, rot = some r →
      stored is3D .rotation (if is3D then asVec r else r) = some (t.read .rotation)) ∧
    t.d.log = [] := by
  unfold construct at h
  simp only [Option.map_eq_some_iff] at h
  obtain ⟨r', hr, ht⟩ := h
  subst ht
  refine ⟨?_, ?_, ?_, rfl⟩
  · intro p hp; subst hp; rfl
  · intro s hs; subst hs; rfl
  · intro r hr'; subst hr'; exact hr

/-- a vector stays the vector it is; a tuple or list becomes the vector of its components -/
example : asVec (.tok "p1_2") = .tok "p1_2" ∧ asVec (.tok "t1_2") = .tok "p1_2" ∧
    asVec (.tok "l3_4_5") = .tok "p3_4_5" ∧ asVec (.half 7) = .half 7 := by decide +kernel

/-! non-vacuity -/
private def exU : Universe :=
  { mapping := fun o => if o < 1 then some [("on_rotation_change", "m0")] else none,
    reaction := fun _ _ _ => [] }

example :
    let t : TSt := { d := (run exU 100 (init [0] [0]) [.add 0]) }
    stored t.is3D .rotation (.half 740) = some (.half 20) ∧ t.d.dying = [] ∧ t.d.enabled = true ∧
    (setField exU 100 t .rotation (.half 740)).2 = .ok ∧
    (setField exU 100 t .rotation (.half 740)).1.d.log.head? = some (.cb (some 0) "m0" "20") := by
  decide
