import DesperModel.Disp
open Desper Desper.Disp

/-- `event_handler` without arguments leaves the class untouched (events.py:164-165). -/
theorem C03_decorator_noop (inh : Option Mapping) : decorate inh [] [] = inh := by
  simp [decorate]
