import DesperProofs.Lemmas.DispTop
/-
  C03 — An enabled dispatcher delivers each event once to each listener.

  Model: DesperModel/Disp.lean (mirrors desper/events.py).  `run U fuel (init held hints) ops` is
  the state after the top-level operations `ops` of a scenario in universe `U` (class mappings and
  scripted, possibly re-entrant, callback reactions); `evl s ev` is the listener set of `ev`,
  `hl s r` the pairs recorded for handler `r`.
-/
open Desper Desper.Disp

/-- `event_handler()` without arguments leaves the class untouched (events.py:164-165). -/
theorem C03_decorator_noop (inh : Option Mapping) : decorate inh [] [] = inh := by
  simp [decorate]

/-- Decorating a class never alters the mapping of a class created before it (its bases):
the table of `__events__` is only ever extended (events.py:169-171 builds a new dict with `|`). -/
theorem C03_bases_unchanged (cs : List ClassDecl) (c : ClassDecl) :
    classTable (cs ++ [c]) =
      classTable cs ++ [decorate (inheritedOf (classTable cs) c.bases) c.names c.kw] := by
  simp [classTable, List.foldl_append]

/-- The mapping of a decorated class is the inherited one, extended and overridden by the positional
names (event = method) and then by the keyword mappings: its keys stay unique. -/
theorem C03_decorator_keys_unique (inh : Option Mapping) (names : List String)
    (kw : List (String × String)) (h : ∀ m, inh = some m → (m.map (·.1)).Nodup) :
    ∀ m, decorate inh names kw = some m → (m.map (·.1)).Nodup :=
  decorate_nodup inh names kw h

/-- A keyword mapping wins over everything for its event. -/
theorem C03_decorator_kw_wins (inh : Option Mapping) (names : List String)
    (kw : List (String × String)) (e m : String) :
    ∃ mp, decorate inh names (kw ++ [(e, m)]) = some mp ∧ Dict.get? mp e = some m := by
  have hne : (names.isEmpty && (kw ++ [(e, m)]).isEmpty) = false := by simp
  simp only [decorate, hne, Bool.false_eq_true, if_false, List.foldl_append, List.foldl_cons,
    List.foldl_nil]
  exact ⟨_, rfl, by simp [Dict.get?_set]⟩

/-- Every universe a scenario can describe is well formed (so the theorems below are not vacuous). -/
theorem C03_scenario_universe_wf (p : Parsed) : p.universe.WF := parsed_universe_wf p

/-- `_events` and `_handlers` stay inverse tables under every sequence of operations, including
operations issued from inside callbacks (events.py:50-95). -/
theorem C03_inverse_tables (U : Universe) (hU : U.WF) (held hints : List Obj) (fuel : Nat)
    (ops : List Op) (r : Obj) (ev m : String) :
    (r, m) ∈ evl (run U fuel (init held hints) ops) ev ↔
      (ev, m) ∈ hl (run U fuel (init held hints) ops) r :=
  (top_state hU held hints fuel ops).1.inverse r ev m

/-- `remove_handler` never fails (the `set.remove` of events.py:86 always finds its entry). -/
theorem C03_remove_total (U : Universe) (hU : U.WF) (held hints : List Obj) (fuel : Nat)
    (ops : List Op) (o : Obj) :
    (removeWeak (run U fuel (init held hints) ops) o).2 = .ok :=
  (inv_removeWeak hU (top_state hU held hints fuel ops).1.toTInv o).1

/-- Delivery: an enabled dispatcher whose listeners' callbacks do nothing else calls, for
`dispatch ev args`, exactly once and with exactly `args` the mapped method of each handler that is
registered for `ev` (and alive), and calls nothing else: the log grows by one `cb` entry per
member of the listener set, no member twice, nothing outside the set. -/
theorem C03_delivery_once (U : Universe) (hU : U.WF) (hp : Passive U) (held hints : List Obj)
    (fuel fuel' : Nat) (ops : List Op) (ev args : String)
    (hen : (run U fuel (init held hints) ops).enabled = true)
    (hok : (execOp U fuel' (run U fuel (init held hints) ops) (.dispatch ev args)).2 = .ok) :
    ∃ called : List (Obj × String),
      (execOp U fuel' (run U fuel (init held hints) ops) (.dispatch ev args)).1.log =
        (called.map (cbEntry U args)).reverse ++ (run U fuel (init held hints) ops).log ∧
      called.Nodup ∧
      (∀ p, p ∈ called ↔ p ∈ evl (run U fuel (init held hints) ops) ev ∧
                          (run U fuel (init held hints) ops).alive p.1 = true) := by
  obtain ⟨_, _, hdy, _, _⟩ := top_state hU held hints fuel ops
  obtain ⟨called, h1, ⟨h2, h3⟩, _⟩ := dispatch_passive hp fuel' _ ev args hdy hen hok
  exact ⟨called, h1, h2, h3⟩

/-- Registering a handler twice does not duplicate anything: the listener sets have the same
members (and deliveries go to distinct members, `C03_delivery_once`). -/
theorem C03_idempotent_add (s : St) (o : Obj) (m : Mapping) (ev : String) (x : Obj × String) :
    x ∈ evl (addHandler (addHandler s o m) o m) ev ↔ x ∈ evl (addHandler s o m) ev := by
  rw [(addHandler_spec _ o m).1, (addHandler_spec s o m).1]
  constructor
  · rintro ((h | h) | h)
    · exact .inl h
    · exact .inr h
    · exact .inr h
  · exact fun h => .inl h

/-- A removed handler is in no listener set any more, hence (by `C03_delivery_once`) receives
nothing from later dispatches until it is added again. -/
theorem C03_removed_silent (U : Universe) (hU : U.WF) (held hints : List Obj) (fuel : Nat)
    (ops : List Op) (o : Obj) (ev : String) (x : Obj × String)
    (hx : x ∈ evl (removeWeak (run U fuel (init held hints) ops) o).1 ev) : x.1 ≠ o :=
  ((inv_removeWeak hU (top_state hU held hints fuel ops).1.toTInv o).2.1 ev x |>.mp hx).2

/-- Events nobody listens to are ignored silently: state and log unchanged, no error. -/
theorem C03_unknown_event (U : Universe) (fuel : Nat) (s : St) (ev args : String)
    (h : Dict.get? s.events ev = none) :
    execOp U (fuel + 1) s (.dispatch ev args) = (s, .ok) := by
  simp [execOp, h]

/-- Callbacks invoked by the model are always invoked on a receiver (never `None`), whatever the
callbacks themselves do (re-entrant universes included). -/
theorem C03_receiver_present (U : Universe) (hU : U.WF) (held hints : List Obj) (fuel : Nat)
    (ops : List Op) (m a : String) :
    Entry.cb none m a ∉ (run U fuel (init held hints) ops).log :=
  (top_state hU held hints fuel ops).2.2.2.2 m a

/-! non-vacuity: a concrete universe with two listeners; the hypotheses of `C03_delivery_once`
hold and both listeners are called -/
private def exU : Universe :=
  { mapping := fun o => if o < 2 then some [("e0", "m0")] else none, reaction := fun _ _ _ => [] }

example : exU.WF ∧ Passive exU ∧
    (run exU 100 (init [0, 1] [1, 0]) [.add 0, .add 1]).enabled = true ∧
    (execOp exU 100 (run exU 100 (init [0, 1] [1, 0]) [.add 0, .add 1]) (.dispatch "e0" "7")).2 = .ok ∧
    ((execOp exU 100 (run exU 100 (init [0, 1] [1, 0]) [.add 0, .add 1]) (.dispatch "e0" "7")).1.log.take 2
      = [.cb (some 0) "m0" "7", .cb (some 1) "m0" "7"]) := by
  refine ⟨⟨?_⟩, fun _ _ _ => rfl, by decide, by decide, by decide⟩
  intro o m h
  simp only [exU] at h
  split at h
  · simp at h; subst h; simp
  · simp at h
