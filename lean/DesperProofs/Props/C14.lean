import DesperProofs.Lemmas.LoopExamples
open Desper Desper.Loop

/-
  C14 — SimpleLoop feeds exact time deltas and stops cleanly on Quit.

  Model: `DesperModel/Loop.lean` (it mirrors `desper/loop.py` after the `fix:` commits D15, D16, D25).
  The clock is an input: a finite list of readings (`Frame.reading`, integers in units of 1/8 s),
  one per iteration; the scenario's time function raises `ClockExhausted` after the last one, so a
  run of the loop is a structural recursion over the frame list and no theorem needs a fuel for
  the loop itself (the fuel bounds the nesting depth of callbacks only; every statement holds for
  every fuel).  A frame carries the reading of each of the scenario's two time functions (`reading`
  for function 0, `alt` for function 1); `s.clock` says which one is `loop.time_function` now
  (a processor may assign it while the loop runs: `PAct.setClock`) and `readingOf s.clock f` is what
  the loop reads.  `ticks ext` are the readings the loop took in a log segment, `frameDts ext` the
  deltas of the `World.process(dt)` calls, both oldest first; `fromFrames frames rs` says that `rs`
  are readings of a prefix of `frames`, one per frame; `deltas last rs` is what the property demands: `0` first if there is no previous
  reading, then differences of consecutive readings; `Idle s` is what holds between the top-level
  operations of any test program (well-formed, not running, no remembered reading).

  Reading domain: `Frame.reading, Frame.alt : Int` — ALL integers.  No theorem below assumes that the readings
  are small, non-negative or non-decreasing: `C14_dt` and `C14_telescopes` hold for nanosecond
  clocks far above 2^53, for negative readings and for clocks that step backwards (the delta is then
  the negative difference).  The difference is exact integer subtraction; on the implementation
  side the correspondence feeds the same integers as floats r/8, as Python ints of any size and as
  exact Fractions r/7 and compares the delta handed to `process` with the difference of the two
  readings as exact rationals, never through float (scenario line `clock f8|int|frac`).
-/

/-- The deltas passed to `process` between a `start` and its return are `0, r₁−r₀, r₂−r₁, …` for the
readings `r` the loop took during that start (`s.last = none` holds whenever a start begins:
`C14_restart`), each `rⱼ` being the reading of the j-th frame from one of the time functions —
whatever the frames do: switches of every kind (a frame abandoned by a switch has consumed its
reading), callbacks, coroutines, assignments of `loop.time_function`, and whatever ends the run. -/
theorem C14_dt (U : Universe) (fuel : Nat) (s s' : St) (frames : List Frame) (o : Outcome)
    (wf : WF s) (h : start U fuel s frames = (s', o)) :
    ∃ ext, s'.log = ext ++ s.log ∧ fromFrames frames (ticks ext) = true ∧
      (frames ≠ [] → ticks ext ≠ []) ∧
      (s.current ≠ none → frameDts ext = deltas s.last (ticks ext)) := by
  unfold start at h
  cases hl : loopRun U fuel { s with running := true } frames with
  | mk s1 o1 =>
    have wf0 : WF { s with running := true } := ⟨wf.fresh, wf.cached, wf.cur⟩
    obtain ⟨ext, h1, h2, h3, h4⟩ := loopRun_dts U fuel _ _ _ _ wf0 hl
    rw [hl] at h
    have : s'.log = s1.log := by
      simp only at h
      split at h <;> simp only [Prod.mk.injEq] at h <;> obtain ⟨rfl, _⟩ := h <;> rfl
    exact ⟨ext, by rw [this]; exact h1, h2, h3, h4⟩

example : (start Ex.U 10 Ex.s0 [⟨8, 8, []⟩, ⟨10, 10, [.user .none, .user (.switch 1 false true)]⟩,
      ⟨15, 15, []⟩, ⟨15, 15, [.user .raiseQuit]⟩]).2 = .ok ∧
    frameDts (start Ex.U 10 Ex.s0 [⟨8, 8, []⟩,
      ⟨10, 10, [.user .none, .user (.switch 1 false true)]⟩, ⟨15, 15, []⟩,
      ⟨15, 15, [.user .raiseQuit]⟩]).1.log = [0, 2, 5, 0] := by decide

example : frameDts (start Ex.U 10 Ex.s0 [⟨1700000000123456789, 0, []⟩,
      ⟨1700000000140123456, 0, []⟩, ⟨1700000000140123457, 0, []⟩, ⟨-5, 0, []⟩,
      ⟨9007199254740993, 0, [.user .raiseQuit]⟩]).1.log
    = [0, 16666667, 1, -1700000000140123462, 9007199254740998] := by decide

-- a direct `loop.switch` in the second frame and a new time function in the third: the deltas follow
-- the readings actually taken (8, 10, 15 from function 0, then 103 from function 1)
example : frameDts (start Ex.U 10 Ex.s0 [⟨8, 100, []⟩, ⟨10, 101, [.loopSwitch 1 false false]⟩,
      ⟨15, 102, [.setClock 1]⟩, ⟨20, 103, [.user .raiseQuit]⟩]).1.log = [0, 2, 5, 88] ∧
    ticks (start Ex.U 10 Ex.s0 [⟨8, 100, []⟩, ⟨10, 101, [.loopSwitch 1 false false]⟩,
      ⟨15, 102, [.setClock 1]⟩, ⟨20, 103, [.user .raiseQuit]⟩]).1.log = [8, 10, 15, 103] := by
  decide

/-- No elapsed time is lost or counted twice (for every integer reading sequence, see the header):
the deltas of a start add up to the difference between the last and the first reading it took. -/
theorem C14_telescopes (U : Universe) (fuel : Nat) (s s' : St) (frames : List Frame) (o : Outcome)
    (wf : WF s) (hlast : s.last = none) (hcur : s.current ≠ none)
    (h : start U fuel s frames = (s', o)) :
    ∃ ext, s'.log = ext ++ s.log ∧
      ∀ r0 rest, ticks ext = r0 :: rest → (frameDts ext).sum = lastReading r0 rest - r0 := by
  obtain ⟨ext, h1, _, _, h4⟩ := C14_dt U fuel s s' frames o wf h
  refine ⟨ext, h1, fun r0 rest hr => ?_⟩
  rw [h4 hcur, hlast, hr, deltas_sum_none]

example : lastReading 8 [10, 15, 15] - 8 = ([0, 2, 5, 0] : List Int).sum := by decide

example : lastReading 1700000000123456789 [1700000000140123456, -5, 9007199254740993]
      - 1700000000123456789
    = ([0, 16666667, -1700000000140123461, 9007199254740998] : List Int).sum := by decide

/-- One iteration reads the time function that is installed NOW (`tick (readingOf s.clock f)`),
remembers the reading whatever happens later in the frame, and calls `process` of the world that is
current NOW exactly once, with `dt = 0` if no reading is remembered and the difference to the
remembered reading otherwise; every processor of that world that is called gets this same `dt`,
processors are called in order, each at most once (`procIdx ext1 = [0, …, m-1]`; `ext1` may also
hold what a direct `loop.switch` call logs); what follows (`ext2`) is the service of a switch request
and contains no `process` call and no clock reading. -/
theorem C14_once_per_iteration (U : Universe) (fuel : Nat) (s s' : St) (f : Frame) (o : Outcome)
    (wf : WF s) (h : loopStep U fuel s f = (s', o)) :
    s'.last = some (readingOf s.clock f) ∧
    ((s.current = none ∧ s'.log = .tick (readingOf s.clock f) :: s.log ∧
        o = .raised .attributeError) ∨
     ∃ i ext1 ext2 m, s.current = some i ∧
       s'.log = ext2 ++ ext1 ++ .frame i (dtOf s.last (readingOf s.clock f)) ::
         .tick (readingOf s.clock f) :: s.log ∧
       (∀ e ∈ ext1, PsP i (dtOf s.last (readingOf s.clock f)) e) ∧ procIdx ext1 = List.range m ∧
       m ≤ (U.procs i.h).length ∧ (∀ e ∈ ext2, SwP e) ∧
       frameDts (ext2 ++ ext1 ++ [.frame i (dtOf s.last (readingOf s.clock f)),
         .tick (readingOf s.clock f)]) = [dtOf s.last (readingOf s.clock f)] ∧
       ticks (ext2 ++ ext1 ++ [.frame i (dtOf s.last (readingOf s.clock f)),
         .tick (readingOf s.clock f)]) = [readingOf s.clock f]) := by
  obtain ⟨h1, h2⟩ := loopStep_trace U fuel wf h
  refine ⟨h1, ?_⟩
  rcases h2 with h2 | ⟨i, ext1, ext2, m, a, b, c, d, e, g, _⟩
  · exact Or.inl h2
  · obtain ⟨x, y⟩ := frameDts_step (r := readingOf s.clock f) c g
    exact Or.inr ⟨i, ext1, ext2, m, a, b, c, d, e, g, x, y⟩

example : (loopStep Ex.U 10 Ex.s0 ⟨8, 8, []⟩).1.log
    = .proc ⟨0, 1⟩ 1 0 :: .proc ⟨0, 1⟩ 0 0 :: .frame ⟨0, 1⟩ 0 :: .tick 8 :: Ex.s0.log := by decide

/-- The loop's public attributes used from inside a frame without raising: after a processor
assigned `loop.time_function` the very next iteration reads the new function; after a processor
called `loop.switch(h, cc, cn)` directly (and the callbacks released on entry returned normally)
the very next iteration processes the world that call made current (see also `C13_direct_switch`),
with the delta still measured from the reading of the frame in which the call happened. -/
theorem C14_current_world_and_clock (U : Universe) (fuel : Nat) (s s1 : St) (a : PAct)
    (wf : WF s) (hp : pact U fuel s a = (s1, .ok)) (f' : Frame) :
    (∀ k, a = .setClock k →
      (loopStep U fuel s1 f').1.last = some (if k = 0 then f'.reading else f'.alt)) ∧
    (∀ h cc cn, a = .loopSwitch h cc cn → ∃ n ext', s1.current = some ⟨h, n⟩ ∧
      s1.cache h = some n ∧ s1.last = s.last ∧
      (loopStep U fuel s1 f').1.log = ext' ++ .frame ⟨h, n⟩ (dtOf s.last (readingOf s1.clock f')) ::
        .tick (readingOf s1.clock f') :: s1.log) := by
  refine ⟨?_, ?_⟩
  · intro k hk
    subst hk
    simp only [pact, Prod.mk.injEq, and_true] at hp
    subst hp
    cases hl : loopStep U fuel { s with clock := k } f' with
    | mk s3 o3 =>
      have := (loopStep_trace U fuel (s := { s with clock := k }) ⟨wf.fresh, wf.cached, wf.cur⟩ hl).1
      simpa [readingOf] using this
  · intro h cc cn ha
    subst ha
    have hp' := hp
    simp only [pact] at hp'
    obtain ⟨wf1, _, sc1, _⟩ := simpleSwitch_spec U fuel wf hp'
    obtain ⟨_, n, hcache, hcur⟩ := simpleSwitch_ok U fuel wf hp'
    cases hl : loopStep U fuel s1 f' with
    | mk s3 o3 =>
      obtain ⟨_, htr⟩ := loopStep_trace U fuel wf1 hl
      rcases htr with ⟨hn, _⟩ | ⟨j, ext1, ext2, m, hj, hlog, _⟩
      · rw [hcur] at hn; cases hn
      · rw [hcur] at hj; cases hj
        exact ⟨n, ext2 ++ ext1, hcur, hcache, sc1.last, by simp [hlog, sc1.last]⟩

example : (pact Ex.U 10 Ex.s0 (.setClock 1)).2 = .ok ∧
    (pact Ex.U 10 Ex.s0 (.loopSwitch 1 true false)).2 = .ok := by decide

/-- `Quit` raised anywhere in a frame — by any processor, callback or coroutine step of any frame —
ends the frame and the run at once and makes `start` return normally with `running = false` (and no
remembered reading); the loop's current world and handle are what they were when the frame began
(unless a processor of this very frame called `loop.switch` directly before: then they are what
that call made them — `hns` excludes it here).
`quit_loop()` first delivers on_quit to the current world, `quit_loop(h())` to the given world (held
if that world is muted), before raising. -/
theorem C14_quit (U : Universe) (fuel : Nat) (s s1 : St) (f : Frame) (fs : List Frame) (i : Inst)
    (wf : WF s) (hcur : s.current = some i)
    (hp : processWorld U fuel (tickSt { s with running := true } (readingOf s.clock f)) i
      (dtOf s.last (readingOf s.clock f)) f.acts = (s1, .raised .quit)) :
    start U fuel s (f :: fs) = ({ s1 with running := false, last := none }, .ok) ∧
    ((∀ a ∈ f.acts, a.noSwitch = true) →
      s1.current = s.current ∧ s1.currentHandle = s.currentHandle) ∧
    (∀ t w, t.current = some i → t.worlds i = some w → w.enabled = true →
      U.react t.delivered = .none →
      act U (fuel + 2) t .quit = (logEv t i .quit .unit, .raised .quit)) ∧
    (∀ t h n w, t.cache h = some n → t.worlds ⟨h, n⟩ = some w → w.enabled = false →
      act U (fuel + 2) t (.quitTo h)
        = (setWorld t ⟨h, n⟩ { w with queue := w.queue ++ [(.quit, .unit)] }, .raised .quit)) := by
  have wf0 : WF (tickSt { s with running := true } (readingOf s.clock f)) :=
    ⟨wf.fresh, wf.cached, wf.cur⟩
  have hstep : loopStep U fuel { s with running := true } f = (s1, .raised .quit) := by
    unfold loopStep
    simp only
    split
    · rename_i hn
      have hn' : s.current = none := hn
      rw [hcur] at hn'; cases hn'
    · rename_i j hj
      have hj' : s.current = some j := hj
      rw [hcur] at hj'; cases hj'; rw [hp]
  refine ⟨by simp [start, loopRun, hstep], ?_, ?_, ?_⟩
  · intro hns
    obtain ⟨_, e1⟩ := processWorld_spec U fuel wf0 hns hp
    exact ⟨e1.current, e1.currentHandle⟩
  · intro t w ht hw hen hr
    rw [act]
    simp only [ht, quitWith]
    rw [dispatchWith_enabled U _ _ _ hw hen, hr, act_none]
  · intro t h n w hc hw hen
    rw [act]
    simp only [callHandle, hc, quitWith]
    rw [dispatchWith_muted U _ _ _ hw hen]

example : (processWorld Ex.U 10 (tickSt { Ex.s0 with running := true } 8) ⟨0, 1⟩
    (dtOf Ex.s0.last 8) [.user .none, .user .quit]).2 = .raised .quit := by decide

/-- Any exception other than `Quit` (and other than a `SwitchWorld` the loop serves) raised in a frame
propagates out of `start` unchanged — and `start` still leaves `running = false` and no remembered
reading behind (D16 repair). -/
theorem C14_other_propagates (U : Universe) (fuel : Nat) (s s1 : St) (frames : List Frame)
    (o : Outcome) (hl : loopRun U fuel { s with running := true } frames = (s1, o))
    (hq : o ≠ .raised .quit) :
    start U fuel s frames = ({ s1 with running := false, last := none }, o) ∧
    (∀ (t t1 : St) (f : Frame) (i : Inst) (e : Exc), t.current = some i →
      (∀ h cc cn, e ≠ .switch h cc cn) →
      processWorld U fuel (tickSt t (readingOf t.clock f)) i (dtOf t.last (readingOf t.clock f))
        f.acts = (t1, .raised e) →
      loopStep U fuel t f = (t1, .raised e)) := by
  refine ⟨?_, ?_⟩
  · cases o with
    | ok => simp [start, hl]
    | outOfFuel => simp [start, hl]
    | raised x =>
      cases x with
      | quit => exact absurd rfl hq
      | _ => simp [start, hl]
  · intro t t1 f i e hc hne hp
    unfold loopStep
    simp only
    split
    · rename_i hn; rw [hc] at hn; cases hn
    · rename_i j hj; rw [hc] at hj; cases hj; rw [hp]
      cases e with
      | switch h cc cn => exact absurd rfl (hne h cc cn)
      | _ => rfl

example : (loopRun Ex.U 10 { Ex.s0 with running := true } [⟨8, 8, []⟩,
    ⟨9, 9, [.user .raiseOther]⟩]).2 = .raised .other := by decide

/-- Restarts: between the top-level operations of any test program (any sequence of `handle()`,
`loop.switch(...)` and `start()` calls, however each start ended — Quit, a propagated exception, an
exhausted clock) the loop is not running and remembers no reading; hence every `start` that
processes at least one frame begins with `dt = 0`. -/
theorem C14_restart (U : Universe) (fuel : Nat) (ops : List Op) (frames : List Frame) :
    Idle (run U fuel {} ops) ∧
    ((run U fuel {} ops).current ≠ none → frames ≠ [] →
      ∃ ext rest, (start U fuel (run U fuel {} ops) frames).1.log = ext ++ (run U fuel {} ops).log ∧
        frameDts ext = 0 :: rest) := by
  have hi := run_idle U fuel ops _ idle_init
  refine ⟨hi, fun hc hf => ?_⟩
  cases hs : start U fuel (run U fuel {} ops) frames with
  | mk s' o =>
    obtain ⟨ext, h1, _, h3, h4⟩ := C14_dt U fuel _ _ _ _ hi.wf hs
    have hk := h3 hf
    cases ht : ticks ext with
    | nil => exact absurd ht hk
    | cons r rs =>
      refine ⟨ext, deltas (some r) rs, h1, ?_⟩
      rw [h4 hc, hi.last, ht]
      simp [deltas, dtOf]

example : frameDts (run Ex.U 10 {} [.switch 0 false false,
      .start [⟨3, 3, []⟩, ⟨5, 5, [.user .none, .user .raiseOther]⟩],
      .start [⟨9, 9, []⟩, ⟨10, 10, [.user .raiseQuit]⟩]]).log
    = [0, 2, 0, 1] := by decide
