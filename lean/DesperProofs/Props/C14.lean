import DesperProofs.Lemmas.LoopExamples
open Desper Desper.Loop

/-
  C14 — SimpleLoop feeds exact time deltas and stops cleanly on Quit.

  Model: `DesperModel/Loop.lean` (it mirrors `desper/loop.py` after the `fix:` commits D15, D16, D25).
  The clock is an input: a finite list of readings (`Frame.reading`, integers in units of 1/8 s),
  one per iteration; the scenario's time function raises `ClockExhausted` after the last one, so a
  run of the loop is a structural recursion over the frame list and no theorem needs a fuel for
  the loop itself (the fuel bounds the nesting depth of callbacks only; every statement holds for
  every fuel).  `frameDts ext` are the deltas of the `World.process(dt)` calls of a log segment,
  oldest first; `deltas last rs` is what the property demands: `0` first if there is no previous
  reading, then differences of consecutive readings; `Idle s` is what holds between the top-level
  operations of any test program (well-formed, not running, no remembered reading).

  Reading domain: `Frame.reading : Int` — ALL integers.  No theorem below assumes that the readings
  are small, non-negative or non-decreasing: `C14_dt` and `C14_telescopes` hold for nanosecond
  clocks far above 2^53, for negative readings and for clocks that step backwards (the delta is then
  the negative difference).  The difference is exact integer subtraction; on the implementation
  side the correspondence feeds the same integers as floats r/8, as Python ints of any size and as
  exact Fractions r/7 and compares the delta handed to `process` with the difference of the two
  readings as exact rationals, never through float (scenario line `clock f8|int|frac`).
-/

/-- The deltas passed to `process` between a `start` and its return are `0, r₁−r₀, r₂−r₁, …` for the
readings consumed by that start (`s.last = none` holds whenever a start begins: `C14_restart`) —
whatever the frames do: switches (a frame abandoned by a switch has consumed its reading), callbacks,
coroutines, and whatever ends the run. -/
theorem C14_dt (U : Universe) (fuel : Nat) (s s' : St) (frames : List Frame) (o : Outcome)
    (wf : WF s) (h : start U fuel s frames = (s', o)) :
    ∃ ext k, s'.log = ext ++ s.log ∧ k ≤ frames.length ∧
      frameDts ext = deltas s.last ((frames.take k).map (·.reading)) ∧
      (s.current ≠ none → frames ≠ [] → 0 < k) := by
  unfold start at h
  cases hl : loopRun U fuel { s with running := true } frames with
  | mk s1 o1 =>
    have wf0 : WF { s with running := true } := ⟨wf.fresh, wf.cached, wf.cur⟩
    obtain ⟨ext, k, h1, h2, h3, h4⟩ := loopRun_dts U fuel _ _ _ _ wf0 hl
    rw [hl] at h
    have : s'.log = s1.log := by
      simp only at h
      split at h <;> simp only [Prod.mk.injEq] at h <;> obtain ⟨rfl, _⟩ := h <;> rfl
    exact ⟨ext, k, by rw [this]; exact h1, h2, h3, h4⟩

example : (start Ex.U 10 Ex.s0 [⟨8, []⟩, ⟨10, [.none, .switch 1 false true]⟩, ⟨15, []⟩,
      ⟨15, [.raiseQuit]⟩]).2 = .ok ∧
    frameDts (start Ex.U 10 Ex.s0 [⟨8, []⟩, ⟨10, [.none, .switch 1 false true]⟩, ⟨15, []⟩,
      ⟨15, [.raiseQuit]⟩]).1.log = [0, 2, 5, 0] := by decide

example : frameDts (start Ex.U 10 Ex.s0 [⟨1700000000123456789, []⟩, ⟨1700000000140123456, []⟩,
      ⟨1700000000140123457, []⟩, ⟨-5, []⟩, ⟨9007199254740993, [.raiseQuit]⟩]).1.log
    = [0, 16666667, 1, -1700000000140123462, 9007199254740998] := by decide

/-- No elapsed time is lost or counted twice (for every integer reading sequence, see the header): the deltas of a start add up to the difference between
the last and the first reading it consumed. -/
theorem C14_telescopes (U : Universe) (fuel : Nat) (s s' : St) (frames : List Frame) (o : Outcome)
    (wf : WF s) (hlast : s.last = none) (h : start U fuel s frames = (s', o)) :
    ∃ ext k, s'.log = ext ++ s.log ∧ k ≤ frames.length ∧
      ∀ r0 rest, (frames.take k).map (·.reading) = r0 :: rest →
        (frameDts ext).sum = lastReading r0 rest - r0 := by
  obtain ⟨ext, k, h1, h2, h3, _⟩ := C14_dt U fuel s s' frames o wf h
  refine ⟨ext, k, h1, h2, fun r0 rest hr => ?_⟩
  rw [h3, hlast, hr, deltas_sum_none]

example : lastReading 8 [10, 15, 15] - 8 = ([0, 2, 5, 0] : List Int).sum := by decide

example : lastReading 1700000000123456789 [1700000000140123456, -5, 9007199254740993]
      - 1700000000123456789
    = ([0, 16666667, -1700000000140123461, 9007199254740998] : List Int).sum := by decide

/-- One iteration reads the clock once, remembers the reading whatever happens later in the frame,
and calls `process` of the current world exactly once, with `dt = 0` if no reading is remembered
and the difference to the remembered reading otherwise; every processor of that world that is
called gets this same `dt`, processors are called in order, each at most once
(`procIdx ext1 = [0, …, m-1]`); what follows (`ext2`) is the service of a switch request and
contains no `process` call. -/
theorem C14_once_per_iteration (U : Universe) (fuel : Nat) (s s' : St) (f : Frame) (o : Outcome)
    (wf : WF s) (h : loopStep U fuel s f = (s', o)) :
    s'.last = some f.reading ∧
    ((s.current = none ∧ s'.log = s.log ∧ o = .raised .attributeError) ∨
     ∃ i ext1 ext2 m, s.current = some i ∧
       s'.log = ext2 ++ ext1 ++ .frame i (dtOf s.last f.reading) :: s.log ∧
       (∀ e ∈ ext1, PrP i (dtOf s.last f.reading) e) ∧ procIdx ext1 = List.range m ∧
       m ≤ (U.procs i.h).length ∧ (∀ e ∈ ext2, SwP e) ∧
       frameDts (ext2 ++ ext1 ++ [.frame i (dtOf s.last f.reading)]) = [dtOf s.last f.reading]) := by
  obtain ⟨h1, h2⟩ := loopStep_trace U fuel wf h
  refine ⟨h1, ?_⟩
  rcases h2 with h2 | ⟨i, ext1, ext2, m, a, b, c, d, e, g⟩
  · exact Or.inl h2
  · exact Or.inr ⟨i, ext1, ext2, m, a, b, c, d, e, g, frameDts_step c g⟩

example : (loopStep Ex.U 10 Ex.s0 ⟨8, []⟩).1.log
    = .proc ⟨0, 1⟩ 1 0 :: .proc ⟨0, 1⟩ 0 0 :: .frame ⟨0, 1⟩ 0 :: Ex.s0.log := by decide

/-- `Quit` raised anywhere in a frame — by any processor, callback or coroutine step of any frame —
ends the frame and the run at once with the loop's current world and handle as they were when the
frame began, and makes `start` return normally with `running = false` (and no remembered reading).
`quit_loop()` first delivers on_quit to the current world, `quit_loop(h())` to the given world (held
if that world is muted), before raising. -/
theorem C14_quit (U : Universe) (fuel : Nat) (s s1 : St) (f : Frame) (fs : List Frame) (i : Inst)
    (wf : WF s) (hcur : s.current = some i)
    (hp : processWorld U fuel { s with running := true, last := some f.reading } i
      (dtOf s.last f.reading) f.acts = (s1, .raised .quit)) :
    start U fuel s (f :: fs) = ({ s1 with running := false, last := none }, .ok) ∧
    s1.current = s.current ∧ s1.currentHandle = s.currentHandle ∧
    (∀ t w, t.current = some i → t.worlds i = some w → w.enabled = true →
      U.react t.delivered = .none →
      act U (fuel + 2) t .quit = (logEv t i .quit .unit, .raised .quit)) ∧
    (∀ t h n w, t.cache h = some n → t.worlds ⟨h, n⟩ = some w → w.enabled = false →
      act U (fuel + 2) t (.quitTo h)
        = (setWorld t ⟨h, n⟩ { w with queue := w.queue ++ [(.quit, .unit)] }, .raised .quit)) := by
  have wf0 : WF { s with running := true, last := some f.reading } := ⟨wf.fresh, wf.cached, wf.cur⟩
  obtain ⟨_, e1⟩ := processWorld_spec U fuel wf0 hp
  have hstep : loopStep U fuel { s with running := true } f = (s1, .raised .quit) := by
    unfold loopStep
    simp only
    split
    · rename_i hn
      have hn' : s.current = none := hn
      rw [hcur] at hn'; cases hn'
    · rename_i j hj
      have hj' : s.current = some j := hj
      rw [hcur] at hj'; cases hj'; rw [hp]
  refine ⟨by simp [start, loopRun, hstep], e1.current, e1.currentHandle, ?_, ?_⟩
  · intro t w ht hw hen hr
    rw [act]
    simp only [ht, quitWith]
    rw [dispatchWith_enabled U _ _ _ hw hen, hr, act_none]
  · intro t h n w hc hw hen
    rw [act]
    simp only [callHandle, hc, quitWith]
    rw [dispatchWith_muted U _ _ _ hw hen]

example : (processWorld Ex.U 10 { Ex.s0 with running := true, last := some 8 } ⟨0, 1⟩
    (dtOf Ex.s0.last 8) [.none, .quit]).2 = .raised .quit := by decide

/-- Any exception other than `Quit` (and other than a `SwitchWorld` the loop serves) raised in a frame
propagates out of `start` unchanged — and `start` still leaves `running = false` and no remembered
reading behind (D16 repair). -/
theorem C14_other_propagates (U : Universe) (fuel : Nat) (s s1 : St) (frames : List Frame)
    (o : Outcome) (hl : loopRun U fuel { s with running := true } frames = (s1, o))
    (hq : o ≠ .raised .quit) :
    start U fuel s frames = ({ s1 with running := false, last := none }, o) ∧
    (∀ (t t1 : St) (f : Frame) (i : Inst) (e : Exc), t.current = some i →
      (∀ h cc cn, e ≠ .switch h cc cn) →
      processWorld U fuel { t with last := some f.reading } i (dtOf t.last f.reading) f.acts
        = (t1, .raised e) →
      loopStep U fuel t f = (t1, .raised e)) := by
  refine ⟨?_, ?_⟩
  · cases o with
    | ok => simp [start, hl]
    | outOfFuel => simp [start, hl]
    | raised x =>
      cases x with
      | quit => exact absurd rfl hq
      | _ => simp [start, hl]
  · intro t t1 f i e hc hne hp
    unfold loopStep
    simp only
    split
    · rename_i hn; rw [hc] at hn; cases hn
    · rename_i j hj; rw [hc] at hj; cases hj; rw [hp]
      cases e with
      | switch h cc cn => exact absurd rfl (hne h cc cn)
      | _ => rfl

example : (loopRun Ex.U 10 { Ex.s0 with running := true } [⟨8, []⟩, ⟨9, [.raiseOther]⟩]).2
    = .raised .other := by decide

/-- Restarts: between the top-level operations of any test program (any sequence of `handle()`,
`loop.switch(...)` and `start()` calls, however each start ended — Quit, a propagated exception, an
exhausted clock) the loop is not running and remembers no reading; hence every `start` that
processes at least one frame begins with `dt = 0`. -/
theorem C14_restart (U : Universe) (fuel : Nat) (ops : List Op) (frames : List Frame) :
    Idle (run U fuel {} ops) ∧
    ((run U fuel {} ops).current ≠ none → frames ≠ [] →
      ∃ ext rest, (start U fuel (run U fuel {} ops) frames).1.log = ext ++ (run U fuel {} ops).log ∧
        frameDts ext = 0 :: rest) := by
  have hi := run_idle U fuel ops _ idle_init
  refine ⟨hi, fun hc hf => ?_⟩
  cases hs : start U fuel (run U fuel {} ops) frames with
  | mk s' o =>
    obtain ⟨ext, k, h1, _, h3, h4⟩ := C14_dt U fuel _ _ _ _ hi.wf hs
    have hk := h4 hc hf
    cases frames with
    | nil => exact absurd rfl hf
    | cons f fs =>
      cases k with
      | zero => cases hk
      | succ k =>
        refine ⟨ext, deltas (some f.reading) ((fs.take k).map (·.reading)), h1, ?_⟩
        rw [h3, hi.last]
        simp [deltas, dtOf]

example : frameDts (run Ex.U 10 {} [.switch 0 false false,
      .start [⟨3, []⟩, ⟨5, [.none, .raiseOther]⟩], .start [⟨9, []⟩, ⟨10, [.raiseQuit]⟩]]).log
    = [0, 2, 0, 1] := by decide
