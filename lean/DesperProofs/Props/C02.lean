import DesperProofs.Lemmas.WorldAtt
/-
  C02 — Component lifecycle callbacks fire exactly once per attach/detach.

  Model: DesperModel/World.lean.  `attachEvents` is the event handling that follows every attach
  (create_entity, add_component, add_processor), `removeComponent` the one detach path
  (explicit removal, replacement, immediate and deferred deletion, clear all go through it),
  `lifecycle` the replicated "direct call if enabled, relay through on_single_dispatch if
  disabled" code, `releaseQ` the release of postponed events when dispatching is re-enabled.

  Known findings carried by explicit guards (see /verif/known_findings.jsonl):
    D23  `clear()` while dispatching is disabled wipes the postponed callbacks;
    D5a  `create_entity(a, b)` with `type(a) is type(b)`: `a` is never attached but gets on_add.
-/
open Desper Desper.World

/-- Attach, dispatching enabled: a handler component that declares `on_add` receives it exactly
once (one new log entry, carrying its real owner), nothing is postponed, and the component is
registered as a listener of the world. -/
theorem C02_attach_enabled (U : Universe) [U.Passive] (hn : NoRaise U) (s : St) (c : Obj) (e : Ent) (m : Mapping)
    (meth : String) (hm : U.mapOf c = some m) (hon : Dict.get? m onAdd = some meth)
    (hen : s.enabled = true) :
    (attachEvents U s c (some e)).2 = .ok ∧
    (attachEvents U s c (some e)).1.log = .life onAdd c meth (some e) :: s.log ∧
    (attachEvents U s c (some e)).1.queue = s.queue ∧
    c ∈ (attachEvents U s c (some e)).1.registered := by
  unfold attachEvents lifecycle
  simp only [hm, hon]
  have he : (addHandler s c m).enabled = true := hen
  simp only [he, if_true]
  rw [callCb_eq hn]
  obtain ⟨_, _, c3, c4, _, c6, _⟩ := ctrlRecord_fields U (addHandler s c m) onAdd c (some e)
  refine ⟨rfl, ?_, ?_, ?_⟩
  · show _ :: (ctrlRecord U (addHandler s c m) onAdd c (some e)).log = _
    rw [c3]; rfl
  · show (ctrlRecord U (addHandler s c m) onAdd c (some e)).queue = _
    rw [c4]; rfl
  · show c ∈ (ctrlRecord U (addHandler s c m) onAdd c (some e)).registered
    rw [c6]; exact mem_insertSorted_self _ _

/-- Attach, dispatching disabled: the callback is postponed rather than lost — exactly one relay
is appended at the end of the queue, nothing is called now, the component is registered. -/
theorem C02_attach_disabled (U : Universe) (s : St) (c : Obj) (e : Ent) (m : Mapping) (meth : String)
    (hm : U.mapOf c = some m) (hon : Dict.get? m onAdd = some meth) (hen : s.enabled = false)
    (hk : s.known.contains onSingle = true) :
    (attachEvents U s c (some e)).1.log = s.log ∧
    (attachEvents U s c (some e)).1.queue = s.queue ++ [.relay onAdd c (some e)] ∧
    c ∈ (attachEvents U s c (some e)).1.registered := by
  unfold attachEvents lifecycle
  simp only [hm, hon]
  have he : (addHandler s c m).enabled = false := hen
  have hk' : (addHandler s c m).known.contains onSingle = true := by
    have : ∀ (l : List (String × String)) (k : List String), k.contains onSingle = true →
        (l.foldl (fun k p => setAdd k p.1) k).contains onSingle = true := by
      intro l
      induction l with
      | nil => intro k h; exact h
      | cons p l ih =>
        intro k h
        apply ih
        have : onSingle ∈ k := by simpa using h
        have : onSingle ∈ setAdd k p.1 := (mem_setAdd _ _ _).mpr (.inl this)
        simpa using this
    exact this m s.known hk
  simp only [he, Bool.false_eq_true, if_false, hk', if_true]
  exact ⟨rfl, rfl, mem_insertSorted_self _ _⟩

/-- A component that is not an event handler, or declares no `on_add`, is attached silently. -/
theorem C02_attach_silent (U : Universe) (s : St) (c : Obj) (e : Ent)
    (h : U.mapOf c = none ∨ ∃ m, U.mapOf c = some m ∧ Dict.get? m onAdd = none) :
    (attachEvents U s c (some e)).1.log = s.log ∧ (attachEvents U s c (some e)).1.queue = s.queue := by
  unfold attachEvents lifecycle
  rcases h with h | ⟨m, h1, h2⟩
  · simp [h]
  · simp only [h1, h2]; exact ⟨rfl, rfl⟩

/-- Detach (every way of detaching goes through `remove_component`), dispatching enabled: the
component stops being attached, receives `on_remove` exactly once with its real owner, and is
not a listener of the world any more. -/
theorem C02_detach_enabled (U : Universe) [U.Passive] (hn : NoRaise U) (s : St) (e : Ent) (t : Ty) (c : Obj)
    (m : Mapping) (meth : String) (hc : Dict.get? (row s e) t = some c)
    (hm : U.mapOf c = some m) (hon : Dict.get? m onRemove = some meth) (hen : s.enabled = true) :
    (removeComponent U s e t).2.1 = .ok ∧ (removeComponent U s e t).2.2 = some c ∧
    Dict.get? (row (removeComponent U s e t).1 e) t = none ∧
    (removeComponent U s e t).1.log = .life onRemove c meth (some e) :: s.log ∧
    (removeComponent U s e t).1.queue = s.queue ∧
    c ∉ (removeComponent U s e t).1.registered := by
  have hrow : Dict.get? (row (removeComponent U s e t).1 e) t = none := by
    rw [row_of_ents (removeComponent_exact hn s e t c hc).2.ents, row_detach]; simp
  have hdq : (detach s e t).queue = s.queue := by unfold detach; simp only; split <;> rfl
  rw [removeComponent_enabled_eq hn s e t c m meth hc hm hon hen] at hrow ⊢
  refine ⟨rfl, rfl, hrow, ?_, ?_, ?_⟩
  · show _ :: (detach s e t).log = _
    rw [detach_log]
  · exact hdq
  · simp [removeHandler]

/-- Postponed callbacks are delivered in operation order, each exactly once, when dispatching is
re-enabled: with a queue of relays whose handlers declare the relayed event, enabling logs one
lifecycle entry per relay, in queue order, and empties the queue. -/
theorem C02_postponed_in_order (U : Universe) [U.Passive] (hn : NoRaise U) (s : St)
    (hk : s.known.contains onSingle = true) (hs : s.selfReg = true)
    (rel : List (String × Obj × Option Ent × String))
    (hq : s.queue = rel.map (fun r => QEv.relay r.1 r.2.1 r.2.2.1))
    (hmeth : ∀ r ∈ rel, (U.mapOf r.2.1).bind (fun m => Dict.get? m r.1) = some r.2.2.2) :
    (setEnabled U s true).2 = .ok ∧ (setEnabled U s true).1.queue = [] ∧
    (setEnabled U s true).1.log =
      (rel.map (fun r => Entry.life r.1 r.2.1 r.2.2.2 r.2.2.1)).reverse ++ s.log := by
  have key := releaseQ_relays hn rel hmeth { s with enabled := true } hk hs
  have hl : ({ s with enabled := true } : St).log = s.log := rfl
  rw [hl] at key
  have heq : setEnabled U s true =
      releaseQ U { s with enabled := true } (rel.map (fun r => QEv.relay r.1 r.2.1 r.2.2.1)) := by
    unfold setEnabled
    simp only [if_true]
    show releaseQ U { s with enabled := true } s.queue = _
    rw [hq]
  rw [heq]; exact key

/-- After `clear()` the world keeps listening to itself, so callbacks postponed on the cleared
and reused world are relayed again (they used to be dropped silently). -/
theorem C02_clear_keeps_relay (U : Universe) (s : St) (h : (clear U s).2 = .ok) :
    (clear U s).1.known.contains onSingle = true ∧ (clear U s).1.selfReg = true ∧
    (clear U s).1.enabled = true ∧ (clear U s).1.registered = [] := by
  obtain ⟨h1, h2, h3, h4, _⟩ := clear_dispatcher U s h
  exact ⟨by rw [h1]; decide, h2, h3, h4⟩

/-- Registered as a listener of the world's events exactly while attached — after every history
(create, add, replace, remove, deferred or immediate delete, process, clear, processors, dispatch
toggles) in which instances are attached fresh (`FreshHist`: an instance is attached to at most one
entity at a time, a `create_entity` call gets components of pairwise distinct types — the D5a
finding is outside —, components are not processors) and no callback raises.  A handler processor
is registered exactly while it is one of the world's processors. -/
theorem C02_registered_iff_attached (U : Universe) [U.Passive] (hn : NoRaise U) (hints : List (List Ent))
    (ops : List Op) (hf : FreshHist U { sweepHints := hints } ops) (o : Obj)
    (ho : (U.mapOf o).isSome) :
    let s := run U { sweepHints := hints } ops
    (o ∈ s.registered ↔ (Attached s o ∨ o ∈ s.sorted)) ∧
    (∀ e t e' t' x, Dict.get? (row s e) t = some x → Dict.get? (row s e') t' = some x → e = e' ∧ t = t') :=
  ⟨(regInv_run hn hints ops hf).reg o ho, (regInv_run hn hints ops hf).one⟩

/-! ### the guards are needed: known findings, as checked witnesses -/

private def exU : Universe :=
  { classes := [{ bases := [] }], objTy := fun _ => some 0, raises := fun _ _ _ => none,
    mapping := fun _ => some [("on_add", "on_add"), ("on_remove", "on_remove")] }

/-- D23 (known finding): `clear()` while dispatching is disabled loses the postponed `on_add`:
it is in the queue before the clear and neither delivered nor queued afterwards. -/
theorem C02_D23_clear_while_disabled_loses :
    let s := run exU {} [.enable false, .create none [0]]
    s.queue = [.relay "on_add" 0 (some 1)] ∧
    (run exU s [.clear, .enable true]).log = [] ∧ (run exU s [.clear, .enable true]).queue = [] := by
  decide

/-- D5a (known finding): `create_entity(a, b)` with two components of one type registers and
notifies `a` although only `b` ends up attached. -/
theorem C02_D5a_duplicate_type_in_create :
    let s := run exU {} [.create none [0, 1]]
    getComponents s 1 = [1] ∧ 0 ∈ s.registered ∧ .life "on_add" 0 "on_add" (some 1) ∈ s.log := by
  decide

/-! non-vacuity of the theorems above -/
example : FreshHist exU {} [.create none [0], .add 1 1, .remove 1 0, .clear, .create none [0]] := by
  refine ⟨⟨by decide, by decide, ?_⟩, ⟨?_, ?_⟩, trivial, trivial, ⟨by decide, by decide, ?_⟩, trivial⟩
  · intro c hc; simp only [List.mem_singleton] at hc; subst hc
    exact ⟨not_attached_of_attachedB (by decide), by decide⟩
  · exact not_attached_of_attachedB (by decide)
  · decide
  · intro c hc; simp only [List.mem_singleton] at hc; subst hc
    exact ⟨not_attached_of_attachedB (by decide), by decide⟩

example : exU.mapOf 0 = some [("on_add", "on_add"), ("on_remove", "on_remove")] ∧ NoRaise exU ∧
    Dict.get? (row (run exU {} [.create none [0]]) 1) 0 = some 0 ∧
    (run exU {} [.create none [0]]).enabled = true := by
  refine ⟨rfl, fun _ _ _ => rfl, by decide, by decide⟩
