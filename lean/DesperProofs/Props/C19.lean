import DesperModel.Logic
import DesperProofs.Lemmas.WorldReg
/-
  C19 — Controllers, references and prototypes are faithful shorthands.

  Model: DesperModel/World.lean (`stepVia` / `viaWorld`: the module-level shorthands, the Controller
  method aliases and the ComponentReference / ProcessorReference descriptors of
  logic/__init__.py:27-196 follow the chain `controller.world.<op>(controller.entity, …)`;
  `ctrlRecord` is `Controller.on_add`; `runProcs` relays `on_update` for OnUpdateProcessor) and
  DesperModel/Logic.lean (`Prototype.__iter__`).  The shorthand equalities hold by unfolding in the
  model: for that clause the assurance is the twin-world differential run on the real code
  (harness/props/C19.py), the theorem records what is being compared.
-/
open Desper Desper.World

/-- Every shorthand used through a controller has exactly the effect and the result of the
corresponding World call for the entity the controller recorded, whatever the state of the world. -/
theorem C19_shorthand_eq (U : Universe) (s : St) (k : Obj) (e : Ent) (h : Dict.get? s.ctrl k = some e) :
    (∀ c, stepVia U s k (.add c) = step U s (.add e c)) ∧
    (∀ t, stepVia U s k (.remove t) = step U s (.remove e t)) ∧
    (∀ t, stepVia U s k (.has t) = (s, .ok, if hasComponent U s e t then "True" else "False")) ∧
    (∀ t, stepVia U s k (.get t) = (s, .ok, showOptObj (getComponent U s e t))) ∧
    (stepVia U s k .comps = (s, .ok, Proto.showNats (Proto.sortNats (getComponents s e)))) ∧
    (stepVia U s k .delete = step U s (.delete e false)) ∧
    (∀ t, stepVia U s k (.cget t) = (s, .ok, showOptObj (getComponent U s e t))) ∧
    (∀ c, stepVia U s k (.cset c) = step U s (.add e c)) ∧
    (∀ t, (stepVia U s k (.cdel t)).1 = (step U s (.remove e t)).1) ∧
    (∀ t, stepVia U s k (.pget t) = (s, .ok, showOptObj (getProcessor U s t))) ∧
    (∀ p, stepVia U s k (.pset p) = step U s (.addProc p none)) ∧
    (∀ t, (stepVia U s k (.pdel t)).1 = (step U s (.rmProc t)).1) := by
  simp [stepVia, h, viaWorld]

/-- A controller that was never attached has no world: every shorthand raises and changes nothing. -/
theorem C19_unattached_controller (U : Universe) (s : St) (k : Obj) (v : Via)
    (h : Dict.get? s.ctrl k = none) : stepVia U s k v = (s, .raised "AttributeError", "-") := by
  simp [stepVia, h]

/-- A Controller attached to an entity knows that entity: after the `on_add` of a Controller
subclass instance — delivered directly (dispatching enabled) — the recorded entity is the owner. -/
theorem C19_on_add_records_owner (U : Universe) [U.Passive] (hn : NoRaise U) (s : St) (c : Obj) (e : Ent)
    (m : Mapping) (meth : String) (hm : U.mapOf c = some m) (hon : Dict.get? m onAdd = some meth)
    (hc : (U.cls (tyOf U c)).isCtrl = true) (hen : s.enabled = true) :
    Dict.get? (attachEvents U s c (some e)).1.ctrl c = some e := by
  unfold attachEvents lifecycle
  simp only [hm, hon]
  have he : (addHandler s c m).enabled = true := hen
  simp only [he, if_true]
  rw [callCb_eq hn]
  simp only [ctrlRecord, hc, Bool.and_true, decide_true, if_true]
  exact (Dict.get?_set _ _ _ _).trans (by simp)

/-- … and when the `on_add` was postponed, the relay that delivers it records the owner as well. -/
theorem C19_relayed_on_add_records_owner (U : Universe) [U.Passive] (hn : NoRaise U) (s : St) (c : Obj) (e : Ent)
    (meth : String) (hm : (U.mapOf c).bind (fun m => Dict.get? m onAdd) = some meth)
    (hc : (U.cls (tyOf U c)).isCtrl = true) (hk : s.known.contains onSingle = true)
    (hs : s.selfReg = true) :
    Dict.get? (deliverRelay U s onAdd c (some e)).1.ctrl c = some e := by
  unfold deliverRelay
  rw [if_neg (by rw [hk, hs]; decide)]
  simp only [hm]
  rw [callCb_eq hn]
  simp only [ctrlRecord, hc, Bool.and_true, decide_true, if_true]
  exact (Dict.get?_set _ _ _ _).trans (by simp)

/-- OnUpdateProcessor relays each frame's `dt` exactly once to every `on_update` listener of its
world: the listener set is duplicate free after every history, and one dispatch logs one entry per
registered listener mapping the event, carrying exactly `dt`. -/
theorem C19_on_update (U : Universe) [U.Passive] (hn : NoRaise U) (hints : List (List Ent)) (ops : List Op)
    (dt : String) :
    let s := run U { sweepHints := hints } ops
    s.registered.Nodup ∧
    (deliverPlain U s "on_update" dt).1.log =
      (s.registered.filterMap fun o =>
        ((U.mapOf o).bind (fun m => Dict.get? m "on_update")).map fun meth => Entry.probe o meth dt).reverse
        ++ s.log :=
  ⟨registered_nodup_run U hints ops, deliverPlain_exact hn _ _ _⟩

open Desper.Logic in
/-- Iterating a Prototype yields one component per listed type, in order, and each is built by the
type's entry in `init_methods` if there is one, else by the method named `init_prefix + type name`
if the class defines or inherits one, else by calling the type without arguments. -/
theorem C19_prototype (cs : List PClass) (names : Nat → String) (p : Nat) :
    (build cs names p).map (·.1) = typesOf cs p ∧
    ∀ t src, (t, src) ∈ build cs names p →
      (∀ f, Dict.get? (imOf cs p) t = some f → src = .initMethods f) ∧
      (Dict.get? (imOf cs p) t = none →
        (∀ g, methodOf cs p (prefixOf cs p ++ names t) = some g → src = .method g) ∧
        (methodOf cs p (prefixOf cs p ++ names t) = none → src = .default)) := by
  refine ⟨?_, ?_⟩
  · simp only [build, List.map_map]
    induction typesOf cs p with
    | nil => rfl
    | cons a l ih => simp only [List.map_cons, Function.comp]; rw [ih]
  intro t src hmem
  simp only [build, List.mem_map] at hmem
  obtain ⟨t', _, heq⟩ := hmem
  simp only [Prod.mk.injEq] at heq
  obtain ⟨rfl, rfl⟩ := heq
  refine ⟨?_, ?_⟩
  · intro f hf; simp [source, hf]
  · intro hnone
    refine ⟨?_, ?_⟩
    · intro g hg; simp [source, hnone, hg]
    · intro hg; simp [source, hnone, hg]

open Desper.Logic in
/-- Class attributes of a prototype are inherited: a subclass that does not define an attribute
sees its base's value, one that defines it overrides the base. -/
theorem C19_prototype_inheritance {α : Type} (cs : List PClass) (f : PClass → Option α) (fuel p : Nat)
    (c : PClass) (hc : cs[p]? = some c) :
    attr cs f (fuel + 1) p =
      match f c with
      | some v => some v
      | none => match c.base with
        | some b => attr cs f fuel b
        | none => none := by
  simp only [attr, hc]
  cases f c with
  | some v => rfl
  | none => cases c.base <;> rfl

open Desper.Logic in
/-- Iteration is lazy.  Over the types captured when `__iter__` was called, the components come out
one per type, in order, and the i-th one is built by the source that is in charge of its type in the
state reached after the effects of the builders of the components before it — whatever those
builders (init methods, `init_methods` factories, component constructors; `E`) did to the instance
or to the classes: entries of `init_methods` set or deleted, `init_prefix`, `component_types`,
init functions rebound.  That state is the fold of `applyEffs` over the earlier steps. -/
theorem C19_prototype_lazy (E : Nat → Source → List Eff) (names : Nat → String) (p : Nat) (s : PState)
    (ts : List Nat) :
    (buildFrom E names p s ts).2.map (·.1) = ts ∧
    (∀ i (h : i < ts.length),
      (buildFrom E names p s ts).2[i]? =
        some (ts[i], sourceS (buildFrom E names p s (ts.take i)).1 names p ts[i])) ∧
    (∀ t rest, (buildFrom E names p s (t :: rest)).1 =
      (buildFrom E names p (applyEffs p s (E t (sourceS s names p t))) rest).1) := by
  refine ⟨?_, ?_, fun _ _ => rfl⟩
  · induction ts generalizing s with
    | nil => rfl
    | cons t ts ih => simp only [buildFrom, List.map_cons, nextStep]; rw [ih]
  · induction ts generalizing s with
    | nil => intro i h; simp at h
    | cons t ts ih =>
      intro i h
      cases i with
      | zero => simp [buildFrom, nextStep]
      | succ i =>
        have := ih (nextStep E names p s t).1 i (by simpa using h)
        simpa [buildFrom, List.take_succ_cons] using this

open Desper.Logic in
/-- The static statement `C19_prototype` is the special case in which nothing acts on the prototype:
`list(P())` on a new instance is `build`, and the state is left as it was. -/
theorem C19_prototype_no_effects (cs : List PClass) (names : Nat → String) (p : Nat)
    (E : Nat → Source → List Eff) (hE : ∀ t src, E t src = []) :
    buildLazy E names p { cs := cs } = ({ cs := cs }, build cs names p) := by
  have hsrc : ∀ t, sourceS { cs := cs } names p t = source cs names p t := by
    intro t
    simp [sourceS, source, imOfS, imOf, methodOfS, prefixOfS, Dict.get?]
  have hb : ∀ ts, buildFrom E names p { cs := cs } ts = ({ cs := cs }, ts.map fun t => (t, source cs names p t)) := by
    intro ts
    induction ts with
    | nil => rfl
    | cons t ts ih => simp [buildFrom, nextStep, hE, applyEffs, hsrc, ih]
  simp [buildLazy, typesOfS, hb, build]

/-! non-vacuity -/
private def exU : Universe :=
  { classes := [{ bases := [], isCtrl := true }, { bases := [] }], objTy := fun o => some (o % 2),
    raises := fun _ _ _ => none, mapping := fun t => if t = 0 then some [("on_add", "on_add")] else none }

example :
    let s := run exU {} [.create none [0]]
    Dict.get? s.ctrl 0 = some 1 ∧ (stepVia exU s 0 (.add 1)).1.ents = (step exU s (.add 1 1)).1.ents ∧
    getComponents (stepVia exU s 0 (.add 1)).1 1 = [0, 1] := by
  decide

open Desper.Logic in
example :
    let cs : List PClass := [{ base := none, types := some [0, 1, 2], pfx := none, im := some [(0, "f")],
                               methods := [("init_B", "g")] },
                             { base := some 0, types := none, pfx := none, im := none, methods := [] }]
    build cs (fun t => ["A", "B", "C"].getD t "") 1 =
      [(0, .initMethods "f"), (1, .method "g"), (2, .default)] := by
  decide

open Desper.Logic in
/-- a real effect: `init_A` (method `ga`) registers a factory for `B` in the instance's own table and
switches to the `heavy_` family of init methods; the factory of `B` removes the entry of `C`.  Built
eagerly ("resolve everything first") the list would be ga, gb, fc. -/
example :
    let cs : List PClass := [{ base := none, types := some [0, 1, 2], pfx := none, im := some [(2, "fc")],
                               methods := [("init_A", "ga"), ("init_B", "gb"), ("heavy_C", "hc")] }]
    let names := fun t => ["A", "B", "C"].getD t ""
    let E : Nat → Source → List Eff := fun t src =>
      if t = 0 ∧ src = .method "ga" then [.instIm [(2, "fc")], .imSet 1 "fb", .instPrefix "heavy_"]
      else if t = 1 ∧ src = .initMethods "fb" then [.imDel 2]
      else []
    (buildLazy E names 0 { cs := cs }).2 = [(0, .method "ga"), (1, .initMethods "fb"), (2, .method "hc")] ∧
    build cs names 0 = [(0, .method "ga"), (1, .method "gb"), (2, .initMethods "fc")] := by
  decide
