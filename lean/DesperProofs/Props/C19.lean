import DesperModel.Logic
import DesperProofs.Lemmas.WorldLife
open Desper

theorem C19_placeholder : (1 : Nat) = 1 := rfl
