import DesperProofs.Lemmas.TreeC17
open Desper Desper.Tree

/-!
C17 — a static resource map is a faithful, immutable mirror.

Model: `snapshot` is `ResourceMap.get_static_map` (it allocates one `SNode` — the instance of the
generated `StaticSubmap` class — per map of the tree; `none` = the Python recursion did not end,
which happens exactly on cyclic trees); `sItems` is an item chain `s['a']['b']` and equally an
attribute chain `s.a.b` (`__getitem__` is `getattr`, tree.py:85); `sGetChain` is
`s.get('a').get('b')`; `sSetAttr` / `sDelAttr` are `setattr` / `delattr`.  Whether a name is stored
in a slot or in the instance `__dict__` (identifier or not) cannot be observed through these
operations and is not part of the model.  "Every path" is a chain of single names (DESIGN §2).

Hypothesis of the property, `hres`: no name of the path is a member of `StaticResourceMap`
itself (`get`, `_handle_names`, `__dunder__` names — `reserved`); the model has no such members,
so it says nothing about those names (the hypothesis is not needed by the proof, it delimits
what the model is claimed for).
-/

/-- **The snapshot mirrors the map.**  Take a snapshot `s` of map `i` after any history, then let
the program go on with any operations that do not change the tree (reads through every spelling,
handle calls and clears, further snapshots: `ops2`).  For every chain of names `ks`:
(1) `s[k1]…[kn]` / `s.k1.….kn` and `m[k1]…[kn]` leave the *same state* (the same handle was
loaded, through the same cache cell — so C12 applies to snapshot accesses) and give corresponding
answers (`ItemRel`: the same loaded resource; a sub-snapshot where the map has a sub-map; absent
in both; the exception of a loader that raises, in both; both went on to index a loaded
resource).  `F` is the loaders' script (which invocations raise), arbitrary;  (2) `s.get(k1)….get(kn)` and
`m.get(k1)….get(kn)` give the same handle object, a sub-snapshot for a sub-map, or are both
absent (`GetRel`). -/
theorem C17_mirror (F : HId → Nat → Bool) (ops ops2 : List Op) (i : MId) (fuel : Nat) (st1 : St) (s : Nat)
    (hs : snapshot fuel (exec (init F) ops) i = (st1, some s))
    (h2 : ∀ op ∈ ops2, op.mutates = false)
    (ks : List String) (_hres : ∀ k ∈ ks, reserved k = false) :
    let st := exec st1 ops2
    (sItems st s ks).1 = (chainItems st i ks).1 ∧
    ItemRel (sItems st s ks).2 (chainItems st i ks).2 ∧
    GetRel (sGetChain st s ks) (getChain st i ks) := by
  intro st
  have ho : OneKind (exec (init F) ops) := exec_oneKind (init F) ops (OneKind_initF F)
  have hk : KeysOk (exec (init F) ops) := exec_keysOk (init F) ops (KeysOk_initF F)
  obtain ⟨_, hm⟩ := snapshot_spec fuel (exec (init F) ops) i ho hk st1 s hs
  have hst := exec_stable st1 ops2 h2
  have hm' : ∀ d, MirrorN st st.snext d s i :=
    fun d => MirrorN.stable hst (Nat.le_refl _) hst.2.1 (hm d)
  exact ⟨(mirror_items st _ ks s i hm').1, (mirror_items st _ ks s i hm').2, mirror_get st _ ks s i hm'⟩

example :
    let st0 := exec {} [.set (.decl 0) "a/x-y" (.handle 0), .set (.decl 0) "b" (.handle 1),
      .layer (.decl 0), .set (.decl 0) "b" (.handle 2)]
    let r := snapshot 5 st0 (.decl 0)
    r.2 = some 1 ∧ (sItems r.1 1 ["a", "x-y"]).2 = .ok (.val (.tok 0 1)) ∧
    (chainItems r.1 (.decl 0) ["a", "x-y"]).2 = .ok (.val (.tok 0 1)) ∧
    sGetChain r.1 1 ["b"] = some (.handle 2) ∧ (sItems r.1 1 ["zz"]).2 = .raised "AttributeError" := by
  decide

/-- **The snapshot is immutable.**  In every state, for every snapshot object `s` (a snapshot
or any of its sub-snapshots) and every name — present or absent — `setattr` and `delattr` raise
`ValueError` and leave the whole state, hence the snapshot, unchanged. -/
theorem C17_immutable (st : St) (s : Nat) (k : String) :
    step st (.ssetattr s k) = (st, .res (.raised "ValueError")) ∧
    step st (.sdelattr s k) = (st, .res (.raised "ValueError")) := ⟨rfl, rfl⟩

example : (step (snapshot 3 (exec {} [.set (.decl 0) "a" (.handle 0)]) (.decl 0)).1 (.ssetattr 0 "a")).2
    = .res (.raised "ValueError") := by decide

/-- **Names absent from the map are absent from the snapshot, and only those.**  Corollary of
`C17_mirror`, spelled out because the property states it separately: under the same hypotheses,
for every chain of names, `m.get(k1)….get(kn)` finds nothing exactly when
`s.get(k1)….get(kn)` finds nothing, and `m[k1]…[kn]` raises `KeyError` exactly when
`s[k1]…[kn]` / `s.k1.….kn` raises `AttributeError` — the snapshot neither loses a name of the map
nor invents one. -/
theorem C17_absent_names (F : HId → Nat → Bool) (ops ops2 : List Op) (i : MId) (fuel : Nat) (st1 : St) (s : Nat)
    (hs : snapshot fuel (exec (init F) ops) i = (st1, some s))
    (h2 : ∀ op ∈ ops2, op.mutates = false)
    (ks : List String) (hres : ∀ k ∈ ks, reserved k = false) :
    (getChain (exec st1 ops2) i ks = none ↔ sGetChain (exec st1 ops2) s ks = none) ∧
    ((chainItems (exec st1 ops2) i ks).2 = .raised "KeyError" ↔
      (sItems (exec st1 ops2) s ks).2 = .raised "AttributeError") := by
  obtain ⟨_, hi, hg⟩ := C17_mirror F ops ops2 i fuel st1 s hs h2 ks hres
  constructor
  · generalize sGetChain (exec st1 ops2) s ks = a at hg
    generalize getChain (exec st1 ops2) i ks = b at hg
    rcases a with _ | a <;> rcases b with _ | b
    · simp
    · simp [GetRel] at hg
    · cases a <;> simp [GetRel] at hg
    · simp
  · generalize (sItems (exec st1 ops2) s ks).2 = a at hi
    generalize (chainItems (exec st1 ops2) i ks).2 = b at hi
    rcases a with x | e | _ <;> rcases b with y | e' | _
    · simp
    · cases x <;> simp [ItemRel] at hi
    · cases x <;> simp [ItemRel] at hi
    · simp [ItemRel] at hi
    · rcases hi with ⟨h1, h2⟩ | ⟨h1, h2⟩ <;> subst h1 <;> subst h2 <;> simp
    · simp [ItemRel] at hi
    · simp [ItemRel] at hi
    · simp [ItemRel] at hi
    · simp

example :
    let st0 := exec {} [.set (.decl 0) "a/x-y" (.handle 0), .set (.decl 0) "b" (.handle 1)]
    let r := snapshot 5 st0 (.decl 0)
    getChain r.1 (.decl 0) ["a", "q"] = none ∧ sGetChain r.1 1 ["a", "q"] = none ∧
    (chainItems r.1 (.decl 0) ["a", "q"]).2 = .raised "KeyError" ∧
    (sItems r.1 1 ["a", "q"]).2 = .raised "AttributeError" := by
  decide
