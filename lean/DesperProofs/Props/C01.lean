import DesperProofs.Lemmas.WorldQuery
import DesperProofs.Lemmas.WorldReenter
/-
  C01 — World queries always agree on who owns which component.

  Model: DesperModel/World.lean.  `run U s₀ ops` is the state after ANY finite sequence of World
  operations (create with automatic or imposed ids, add, replace, remove, deferred or immediate
  delete, process, clear, processors, dispatch toggles — raising callbacks included), so every
  statement below holds after every prefix of every history.  The hypothesis `ReactInv U` says what
  the callbacks may do back to the world: anything that preserves the table invariant.  It holds
  (`C01_callbacks_passive`) when callbacks make no nested call besides `delete_entity`, and
  (`C01_callbacks_reentrant`) in every universe `U.tie script fuel` — callbacks that carry out ANY
  scripted sequences of World operations on the same world (add, remove, delete, create, processors,
  …), nested to any depth, in the middle of the operation that called them.  `row s e` is the entity's row of
  `_entities`, `idx s t` the set `_components[t]`; `Sub U t' t`: `t'` is `t` or a subclass of it.
-/
open Desper Desper.World

/-- Callbacks that make no nested call (besides marking entities for deletion) preserve the table
invariant. -/
theorem C01_callbacks_passive (U : Universe) [hn : U.NoReenter] : ReactInv U := by
  intro s o m k x h
  rw [hn.noReenter]; exact h

/-- Callbacks that call back into the same world — `script o m k` is the list of World operations the
k-th invocation of method `m` of object `o` performs, entity 0 standing for the entity the callback is
told about — preserve the table invariant, nested to any depth. -/
theorem C01_callbacks_reentrant (U : Universe) (script : Obj → String → Nat → List Op) (fuel : Nat) :
    ReactInv (U.tie script fuel) := reactInv_tie U script fuel

/-- The two tables never disagree: an entity is in the index of a type iff its row has a component
filed under that type; a component is filed under its exact type; empty rows do not exist. -/
theorem C01_transpose (U : Universe) (hR : ReactInv U) (hints : List (List Ent)) (ops : List Op) :
    let s := run U { sweepHints := hints } ops
    (∀ e t, e ∈ idx s t ↔ (Dict.get? (row s e) t).isSome) ∧
    (∀ e t c, Dict.get? (row s e) t = some c → tyOf U c = t) ∧
    (∀ e r, Dict.get? s.ents e = some r → r ≠ []) := by
  have h := run_inv hR (tabInv_init U hints) ops
  exact ⟨h.transpose, h.rowTyped, h.noEmptyRow⟩

/-- `get(T)` lists exactly one `(entity, component)` pair for every attached component whose type
is `T` or a subclass of `T`, and nothing else. -/
theorem C01_get (U : Universe) (hR : ReactInv U) (hU : U.WF) (hints : List (List Ent)) (ops : List Op) (t : Ty) :
    let s := run U { sweepHints := hints } ops
    (∀ e c, (e, c) ∈ World.get U s t ↔ ∃ st, Sub U st t ∧ Dict.get? (row s e) st = some c) ∧
    (World.get U s t).Nodup := by
  have h := run_inv hR (tabInv_init U hints) ops
  generalize run U { sweepHints := hints } ops = s at h
  refine ⟨?_, ?_⟩
  · intro e c
    simp only [World.get, List.mem_flatMap, List.mem_filterMap, mem_dedup, Option.map_eq_some_iff,
      Prod.mk.injEq]
    constructor
    · rintro ⟨st, hst, e', _, c', hc', he, hc⟩
      subst he; subst hc
      exact ⟨st, (mem_visit U hU t st).mp hst, hc'⟩
    · rintro ⟨st, hs, hc⟩
      refine ⟨st, (mem_visit U hU t st).mpr hs, e, ?_, c, hc, rfl, rfl⟩
      exact (h.transpose e st).mpr (by simp [hc])
  · unfold World.get
    rw [List.Nodup, List.pairwise_flatMap]
    refine ⟨?_, ?_⟩
    · intro st _
      -- distinct entities give distinct pairs
      have hn := h.idxNodup st
      generalize idx s st = l at hn
      induction l with
      | nil => simp
      | cons a l ih =>
        rw [List.nodup_cons] at hn
        simp only [List.filterMap_cons]
        split
        · exact ih hn.2
        · rename_i b hb
          rw [List.pairwise_cons]
          refine ⟨?_, ih hn.2⟩
          intro x hx
          simp only [List.mem_filterMap, Option.map_eq_some_iff] at hx hb
          obtain ⟨e', he', c', _, rfl⟩ := hx
          obtain ⟨c'', _, rfl⟩ := hb
          intro heq
          simp only [Prod.mk.injEq] at heq
          exact hn.1 (heq.1 ▸ he')
    · -- pairs found under different types are different components
      refine List.Pairwise.imp_of_mem ?_ (nodup_dedup (visit U t))
      intro st1 st2 _ _ hne x hx y hy
      simp only [List.mem_filterMap, Option.map_eq_some_iff] at hx hy
      obtain ⟨e1, _, c1, hc1, rfl⟩ := hx
      obtain ⟨e2, _, c2, hc2, rfl⟩ := hy
      intro heq
      simp only [Prod.mk.injEq] at heq
      obtain ⟨he, hc⟩ := heq
      subst he; subst hc
      exact hne ((h.rowTyped e1 st1 c1 hc1).symm.trans (h.rowTyped e1 st2 c1 hc2))

/-- `get_components(e)` returns precisely the components attached to `e`. -/
theorem C01_get_components (U : Universe) (hR : ReactInv U) (hints : List (List Ent)) (ops : List Op) (e : Ent)
    (c : Obj) :
    let s := run U { sweepHints := hints } ops
    c ∈ getComponents s e ↔ ∃ t, Dict.get? (row s e) t = some c := by
  have h := run_inv hR (tabInv_init U hints) ops
  exact Dict.mem_values_iff _ (h.rowKeys e) c

/-- `get(object)` — the query by the root of every hierarchy — lists precisely the attached
components, one pair per (entity, component). -/
theorem C01_get_object (U : Universe) (hR : ReactInv U) (hints : List (List Ent)) (ops : List Op) (e : Ent) (c : Obj) :
    let s := run U { sweepHints := hints } ops
    (e, c) ∈ getAll s ↔ ∃ t, Dict.get? (row s e) t = some c := by
  have h := run_inv hR (tabInv_init U hints) ops
  intro s
  simp only [getAll, List.mem_flatMap, List.mem_map, Prod.mk.injEq, Prod.exists]
  constructor
  · rintro ⟨e', r, her, t, c', htc, rfl, rfl⟩
    have hr : Dict.get? s.ents e' = some r := (Dict.mem_iff_get? _ h.entKeys e' r).mp her
    have hrow : row s e' = r := by simp [row, hr]
    refine ⟨t, ?_⟩
    rw [hrow]
    have hk : (Dict.keys r).Nodup := by have := h.rowKeys e'; rwa [hrow] at this
    exact (Dict.mem_iff_get? _ hk t c').mp htc
  · rintro ⟨t, ht⟩
    cases hr : Dict.get? s.ents e with
    | none => simp [row, hr, Dict.get?] at ht
    | some r =>
      have hrow : row s e = r := by simp [row, hr]
      rw [hrow] at ht
      exact ⟨e, r, Dict.get?_some_mem hr, t, c, Dict.get?_some_mem ht, rfl, rfl⟩

/-- `entities` / `entity_exists` name exactly the entities that own at least one component and
are not awaiting deletion; `entities` lists each once. -/
theorem C01_entities (U : Universe) (hR : ReactInv U) (hints : List (List Ent)) (ops : List Op) (e : Ent) :
    let s := run U { sweepHints := hints } ops
    (e ∈ entities s ↔ (row s e ≠ [] ∧ e ∉ s.dead)) ∧
    (entityExists s e = true ↔ (row s e ≠ [] ∧ e ∉ s.dead)) ∧ (entities s).Nodup := by
  have h := run_inv hR (tabInv_init U hints) ops
  generalize run U { sweepHints := hints } ops = s at h
  have key : (Dict.get? s.ents e).isSome ↔ row s e ≠ [] := by
    cases hg : Dict.get? s.ents e with
    | none => simp [row, hg]
    | some r => simp [row, hg, h.noEmptyRow e r hg]
  refine ⟨?_, ?_, h.entKeys.sublist List.filter_sublist⟩
  · simp only [entities, List.mem_filter, Dict.mem_keys_iff, key]
    simp
  · simp only [entityExists, Bool.and_eq_true, key]
    simp

/-- An automatically assigned identifier never names an entity that already owns components. -/
theorem C01_fresh_auto_id (U : Universe) (s : St) (cs : List Obj) :
    Dict.get? s.ents (createEntity U s none cs).2.2 = none ∧
    row s (createEntity U s none cs).2.2 = [] := by
  have hk : (createEntity U s none cs).2.2 =
      freshFrom (Dict.keys s.ents) ((Dict.keys s.ents).length + 1) s.nextId := by
    unfold createEntity
    simp only
    split <;> rfl
  have hn := freshFrom_not_mem (Dict.keys s.ents) ((Dict.keys s.ents).length + 1) s.nextId
    (Nat.lt_succ_of_le (List.length_filter_le _ _))
  rw [← hk, Dict.mem_keys_iff] at hn
  have hnone : Dict.get? s.ents (createEntity U s none cs).2.2 = none := by
    cases hg : Dict.get? s.ents (createEntity U s none cs).2.2 with
    | none => rfl
    | some r => simp [hg] at hn
  exact ⟨hnone, by simp [row, hnone]⟩

/-! non-vacuity: replacement, an imposed id, an automatic id that has to skip it -/
private def exU : Universe :=
  { classes := [{ bases := [] }, { bases := [0] }], mapping := fun _ => none,
    objTy := fun o => some (o % 2), raises := fun _ _ _ => none }

example :
    let s := run exU {} [.create (some 1) [0], .add 1 2, .create none [1], .delete 1 false]
    World.get exU s 0 = [(1, 2), (2, 1)] ∧ entities s = [2] ∧ (step exU (run exU {} [.create (some 1) [0]]) (.create none [1])).2.2 = "2" := by
  decide

/-! non-vacuity of the re-entrant part: the `on_remove` callback of component 0 adds component 1 to the
entity it is being removed from, in the middle of `remove_component`; the tables agree afterwards. -/
private def reU : Universe :=
  { classes := [{ bases := [] }, { bases := [] }],
    mapping := fun t => if t = 0 then some [("on_remove", "on_remove")] else none,
    objTy := fun o => some o,
    raises := fun _ _ _ => none }

private def reScript : Obj → String → Nat → List Op := fun o m k =>
  if o = 0 ∧ m = "on_remove" ∧ k = 0 then [.add 0 1] else []

example :
    let V := reU.tie reScript 2
    let s := run V {} [.create none [0], .remove 1 0]
    getComponents s 1 = [1] ∧ World.get V s 1 = [(1, 1)] ∧ World.get V s 0 = [] ∧ entities s = [1] := by
  decide
