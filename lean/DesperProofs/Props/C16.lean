import DesperProofs.Lemmas.TreePopPersist
open Desper Desper.Tree Desper.Pop

/-!
C16 — directory population mirrors the file tree under the rules.

Model: `DesperModel/Pop.lean` on top of the heap model of `tree.py`.  The file system is an input:
per rule `Status.missing`, `Status.notDir` or `Status.dir listing`, the listing being what
`glob.iglob(dir/**, recursive=True)` returned (checked against the real tree on every run,
hypothesis `ListingOk`; the theorems below only need `NamesOk`: no path component contains a
'/').  `populate` is `DirectoryResourcePopulator.__call__` with the two flags already resolved
(construction value or per-call override); `placeEntry` is the body of its loop for one glob
result: `accepts` is the extension filter, `entryKey` the key (`relpath`/`normpath`/`replace` on
component lists, extension trimmed for files when asked), `prepare` the treatment of a handle
that already holds the key.

`PopInv ps n`: the state is a back-linked tree with one kind per name, map `m = .decl n` is a root
(stored nowhere), handle ids from `ps.hnext` on are unused.  It holds for the empty map, is
preserved by every population (`placeAll_inv`), so the theorems cover repeated population.

`C16_files_reachable` and `C16_dirs_are_maps` are statements about the end of a whole population
(any number of rules, any listings) and carry the hypothesis that no accepted entry placed *later*
has a key that clashes with the file's key (`ClearOf`, `ClearOfRules`: neither key is a prefix of
the other).  A clash needs a directory `a1` next to a file `a1.txt` under trim_extensions, two
files `x.txt`, `x.png` under trim_extensions, or two rules accepting the same file: there the real
code lets the later assignment win (C11, or C16_conflict for handle against handle) and the
property cannot hold for both claimants.  `C16_nothing_else_partial` is per placement.
-/

/-- **Rule paths that are not directories.**  A missing path is skipped (the population goes
on as if the rule were not there).  A path that exists but is not a directory raises
`ValueError`: everything the earlier rules added is kept, nothing of this or a later rule is
added. -/
theorem C16_errors (ps : PSt) (m : MId) (nest trim : Bool) (r : Rule)
    (pre post : List (Rule × Status)) :
    populate ps m nest trim (pre ++ (r, .missing) :: post) = populate ps m nest trim (pre ++ post) ∧
    (∀ ps', populate ps m nest trim pre = (ps', .ok) →
      populate ps m nest trim (pre ++ (r, .notDir) :: post) = (ps', .raised "ValueError")) := by
  refine ⟨?_, fun ps' h => ?_⟩
  · rw [populate_append, populate_append]
    rcases populate ps m nest trim pre with ⟨ps1, o⟩
    cases o <;> rfl
  · rw [populate_append, h]; rfl

example : (populate {} (.decl 0) true false
    [({ dir := ["r"], factory := 0, args := "-", exts := [] }, .dir [(["r"], true), (["r", "x.txt"], false)]),
     ({ dir := ["f"], factory := 0, args := "-", exts := [] }, .notDir)]).2 = .raised "ValueError" := by
  decide

/-- **A key that is already taken by a handle.**  Place the file of an accepted entry whose key
denotes the handle `h` (in a state satisfying `PopInv`).  The placement succeeds, the walk along
the directory part of the key arrives at the same map `tt` before and after, `h` is not the new
handle, and: with `nest_on_conflict` the older handle `h` is afterwards in a *lower* layer of
`tt.handles` under the same name (retrievable beneath the new one, which `placeEntry_file`
shows to be the visible one); without it `h` is in no layer of
`tt.handles` any more (replaced). -/
theorem C16_conflict (ps : PSt) (n : Nat) (rule : Rule) (nest trim isSelf : Bool) (e : Entry)
    (hi : PopInv ps n) (hacc : accepts rule isSelf e = true) (hf : e.2 = false) (hn : NamesOk e)
    (h : HId)
    (hget : getPath ps.tree (.decl n) (entryKey trim e).dropLast ((entryKey trim e).getLastD "")
      = some (.handle h)) :
    ∃ ps' tt, placeEntry ps (.decl n) rule nest trim isSelf e = (ps', .ok) ∧
      walk ps.tree (.decl n) (entryKey trim e).dropLast = some tt ∧
      walk ps'.tree (.decl n) (entryKey trim e).dropLast = some tt ∧
      h ≠ ps.hnext ∧
      (nest = true → ∃ l ∈ (ps'.tree.m tt).lower, Dict.get? l ((entryKey trim e).getLastD "") = some h) ∧
      (nest = false → ∀ l ∈ (ps'.tree.m tt).layers, Dict.get? l ((entryKey trim e).getLastD "") ≠ some h) :=
  placeEntry_conflict ps n rule nest trim isSelf e hi hacc hf (keyOk_entryKey trim e hn) h hget

example :
    let rule : Rule := { dir := ["r"], factory := 0, args := "-", exts := [] }
    let l : List Entry := [(["r"], true), (["r", "x.txt"], false)]
    let ps1 := (populate { hnext := 7 } (.decl 0) true true [(rule, .dir l), (rule, .dir l)]).1
    let ps2 := (populate ps1 (.decl 0) false true [(rule, .dir l)]).1
    (ps1.tree.m (.anon 0)).layers = [[("x", 8)], [("x", 7)]] ∧
    (ps2.tree.m (.anon 0)).layers = [[("x", 9)], [("x", 7)]] := by decide

/-- **Accepted files are reachable at the end of the population, through handles built from the
right arguments.**  Populate with any rule list in which some rule's listing contains the regular
file `e`, accepted by that rule's filter.  If the whole population completes, and no accepted
entry that is placed after `e` (the rest `l2` of the same listing, the listings of the later rules
`post`) has a key clashing with the key of `e`, then at the end the key of `e` (relative path,
extension dropped when trimming) denotes a handle `g`, and `g` was built by the rule's factory
from exactly (`e`'s path, the rule's extra arguments). -/
theorem C16_files_reachable (ps : PSt) (n : Nat) (nest trim : Bool) (pre post : List (Rule × Status))
    (rule : Rule) (l1 l2 : List Entry) (e : Entry) (ps' : PSt) (hi : PopInv ps n)
    (hn : AllNamesOk (pre ++ (rule, .dir (l1 ++ e :: l2)) :: post))
    (hok : populate ps (.decl n) nest trim (pre ++ (rule, .dir (l1 ++ e :: l2)) :: post) = (ps', .ok))
    (hacc : accepts rule l1.isEmpty e = true) (hf : e.2 = false)
    (hc2 : ClearOf (entryKey trim e) rule trim l2) (hcp : ClearOfRules (entryKey trim e) trim post) :
    ∃ g, getPath ps'.tree (.decl n) (entryKey trim e).dropLast ((entryKey trim e).getLastD "")
        = some (.handle g) ∧
      ({ h := g, factory := rule.factory, path := e.1, args := rule.args } : Made) ∈ ps'.made ∧
      PopInv ps' n := by
  have hne : NamesOk e := hn (rule, .dir (l1 ++ e :: l2)) (by simp) _ rfl e (by simp)
  have hko := keyOk_entryKey trim e hne
  have hK := dropLast_append_getLastD _ hko.1
  -- the rules before
  rw [populate_append] at hok
  rcases hA : populate ps (.decl n) nest trim pre with ⟨psA, oA⟩
  rw [hA] at hok
  cases oA with
  | raised x => simp only [Prod.mk.injEq] at hok; cases hok.2
  | ok =>
    simp only [populate] at hok
    have hiA := (populate_inv_persist ps n nest trim pre hi (fun x hx => hn x (by simp [hx])) psA hA).1
    -- the listing of the rule: before e, e, after e
    rcases hB : placeAll psA (.decl n) rule nest trim true (l1 ++ e :: l2) with ⟨psB, oB⟩
    rw [hB] at hok
    cases oB with
    | raised x => simp only [Prod.mk.injEq] at hok; cases hok.2
    | ok =>
      simp only at hok
      rw [placeAll_append] at hB
      rcases h1 : placeAll psA (.decl n) rule nest trim true l1 with ⟨ps1, o1⟩
      rw [h1] at hB
      cases o1 with
      | raised x => simp only [Prod.mk.injEq] at hB; cases hB.2
      | ok =>
        simp only [Bool.true_and, placeAll] at hB
        have hnl : ∀ x ∈ l1 ++ e :: l2, NamesOk x := hn (rule, .dir (l1 ++ e :: l2)) (by simp) _ rfl
        have hi1 := placeAll_inv psA n rule nest trim true l1 hiA (fun x hx => hnl x (by simp [hx])) ps1 h1
        rcases h2 : placeEntry ps1 (.decl n) rule nest trim l1.isEmpty e with ⟨ps2, o2⟩
        rw [h2] at hB
        cases o2 with
        | raised x => simp only [Prod.mk.injEq] at hB; cases hB.2
        | ok =>
          simp only at hB
          obtain ⟨hi2, _, hmade, hget2, _, _⟩ :=
            placeEntry_file ps1 n rule nest trim l1.isEmpty e hi1 hacc hf hko ps2 h2
          -- the rest of the listing
          have hgetB := placeAll_persist ps2 n rule nest trim false l2 hi2
            (fun x hx => hnl x (by simp [hx])) psB hB _ _ _ (by rw [hK]; exact hc2) hget2
          have hiB := placeAll_inv ps2 n rule nest trim false l2 hi2 (fun x hx => hnl x (by simp [hx])) psB hB
          have hmadeB := placeAll_made ps2 (.decl n) rule nest trim false l2 psB hB
          -- the later rules
          obtain ⟨hi', hsub, hpers⟩ := populate_inv_persist psB n nest trim post hiB
            (fun x hx => hn x (by simp [hx])) ps' hok
          refine ⟨ps1.hnext, hpers _ _ _ (by rw [hK]; exact hcp) hgetB, hsub _ ?_, hi'⟩
          rw [hmadeB, hmade]; simp

example :
    let rule : Rule := { dir := ["r"], factory := 2, args := "a|k=v", exts := [".txt"] }
    let l : List Entry := [(["r"], true), (["r", "a1"], true), (["r", "a1", "x.txt"], false),
      (["r", "a1", "y.png"], false)]
    let ps1 := (populate { hnext := 5 } (.decl 0) true true [(rule, .dir l)]).1
    Desper.Tree.get ps1.tree (.decl 0) "r/a1/x" = some (.handle 5) ∧
    ps1.made = [{ h := 5, factory := 2, path := ["r", "a1", "x.txt"], args := "a|k=v" }] ∧
    Desper.Tree.get ps1.tree (.decl 0) "r/a1/y" = none := by decide

-- the hypotheses can be met: the empty map satisfies the invariant, keys of different files are independent
example : PopInv { hnext := 5 } 0 := PopInv_init 0 5
example : ClearOf ["r", "a1", "x"] { dir := ["r"], factory := 2, args := "-", exts := [".txt"] } true
    [(["r", "a1", "y.txt"], false)] := by
  intro e' he' b _
  simp only [List.mem_singleton] at he'
  subst he'
  have hk : entryKey true (["r", "a1", "y.txt"], false) = ["r", "a1", "y"] := by decide
  rw [hk]
  exact ⟨by rintro ⟨r, h⟩; simp at h, by rintro ⟨r, h⟩; simp at h⟩

/-- **Handles are built exactly for the accepted files.**  When the population of a rule's
listing completes, the factory was called exactly for the accepted regular files of the listing, in
listing order, each with the file's path and the rule's arguments (`madeByAll`) — for no directory
and for no file the filter rejects. -/
theorem C16_handles_built (ps : PSt) (m : MId) (rule : Rule) (nest trim isSelf : Bool) (l : List Entry)
    (ps' : PSt) (hok : placeAll ps m rule nest trim isSelf l = (ps', .ok)) :
    ps'.made = madeByAll rule isSelf l ps.hnext ++ ps.made :=
  placeAll_made ps m rule nest trim isSelf l ps' hok

example : madeByAll { dir := ["r"], factory := 1, args := "-", exts := [".txt"] } true
    [(["r"], true), (["r", "x.txt"], false), (["r", "d.txt"], true), (["r", "y.png"], false)] 3
    = [{ h := 3, factory := 1, path := ["r", "x.txt"], args := "-" }] := by decide

/-- **Every directory on the way to such a file is a sub-map at the end of the population**: under
the hypotheses of `C16_files_reachable`, every proper prefix of the file's key denotes a map. -/
theorem C16_dirs_are_maps (ps : PSt) (n : Nat) (nest trim : Bool) (pre post : List (Rule × Status))
    (rule : Rule) (l1 l2 : List Entry) (e : Entry) (ps' : PSt) (hi : PopInv ps n)
    (hn : AllNamesOk (pre ++ (rule, .dir (l1 ++ e :: l2)) :: post))
    (hok : populate ps (.decl n) nest trim (pre ++ (rule, .dir (l1 ++ e :: l2)) :: post) = (ps', .ok))
    (hacc : accepts rule l1.isEmpty e = true) (hf : e.2 = false)
    (hc2 : ClearOf (entryKey trim e) rule trim l2) (hcp : ClearOfRules (entryKey trim e) trim post)
    (dirs : List String) (k : String) (suf : List String)
    (hps : (entryKey trim e).dropLast = dirs ++ k :: suf) :
    ∃ c, getPath ps'.tree (.decl n) dirs k = some (.map c) := by
  obtain ⟨g, hget, _, inv⟩ := C16_files_reachable ps n nest trim pre post rule l1 l2 e ps' hi hn hok hacc hf hc2 hcp
  simp only [getPath] at hget
  cases hw : walk ps'.tree (.decl n) (entryKey trim e).dropLast with
  | none => rw [hw] at hget; cases hget
  | some t =>
    rw [hps, walk_append] at hw
    cases hx : walk ps'.tree (.decl n) dirs with
    | none => rw [hx] at hw; cases hw
    | some x =>
      rw [hx] at hw
      simp only [Option.bind_some, walk] at hw
      cases hc : Dict.get? (ps'.tree.m x).maps k with
      | none => rw [hc] at hw; cases hw
      | some c =>
        refine ⟨c, ?_⟩
        simp only [getPath, hx, lookup]
        rw [inv.one x k (by rw [hc]; simp), hc]; rfl

example :
    let rule : Rule := { dir := ["r"], factory := 0, args := "-", exts := [".txt"] }
    let l : List Entry := [(["r"], true), (["r", "a1"], true), (["r", "a1", "x.txt"], false)]
    let ps1 := (populate {} (.decl 0) true false [(rule, .dir l)]).1
    Desper.Tree.get ps1.tree (.decl 0) "r" = some (.map (.anon 0)) ∧
    Desper.Tree.get ps1.tree (.decl 0) "r/a1" = some (.map (.anon 1)) := by decide

/-- **Nothing else is added**, per placement: an entry the rule's filter rejects changes nothing
at all; an accepted entry changes what a (map object, name) pair denotes only along the path of
its own key (`walkEntries` of the key in the resulting tree), builds no handle if it is a
directory and exactly one if it is a file.  Together with `C16_handles_built` this
bounds what a population can add by the keys of the accepted listed entries.
Partial: the statement is per placement and per (map object, name) pair; the path-level statement
over a whole population ("every key reachable afterwards was reachable before or is a prefix of
the key of an accepted entry") is not derived. -/
theorem C16_nothing_else_partial (ps : PSt) (n : Nat) (rule : Rule) (nest trim isSelf : Bool) (e : Entry)
    (hi : PopInv ps n) (hn : NamesOk e) :
    (accepts rule isSelf e = false → placeEntry ps (.decl n) rule nest trim isSelf e = (ps, .ok)) ∧
    (∀ ps', placeEntry ps (.decl n) rule nest trim isSelf e = (ps', .ok) →
      (∀ j k, (j, k) ∉ walkEntries ps'.tree (.decl n) (entryKey trim e) →
        lookup ps'.tree j k = lookup ps.tree j k) ∧
      ps'.made = madeBy rule isSelf e ps.hnext ++ ps.made) := by
  have hko := keyOk_entryKey trim e hn
  refine ⟨fun hacc => by simp [placeEntry, hacc], fun ps' hok => ⟨?_, ?_⟩⟩
  · cases hd : e.2 with
    | true =>
      have := placeEntry_dir ps n rule nest trim isSelf e hi hd hko
      simp only [hok] at this
      exact this.2.2.2.2.2
    | false =>
      by_cases hacc : accepts rule isSelf e = true
      · exact (placeEntry_file ps n rule nest trim isSelf e hi hacc hd hko ps' hok).2.2.2.2.2
      · have : placeEntry ps (.decl n) rule nest trim isSelf e = (ps, .ok) := by simp [placeEntry, hacc]
        rw [this] at hok
        simp only [Prod.mk.injEq, and_true] at hok
        subst hok; intro _ _ _; rfl
  · have := (placeEntry_made ps (.decl n) rule nest trim isSelf e).1
    rw [hok] at this; exact this

example :
    let rule : Rule := { dir := ["r"], factory := 0, args := "-", exts := [".txt"] }
    (placeEntry {} (.decl 0) rule true false false (["r", "y.png"], false)).1.made = [] ∧
    accepts rule false (["r", "y.png"], false) = false := by decide
