import DesperProofs.Lemmas.DispTerm
/-
  C04 — Disabled dispatchers defer events and release them once, in order.

  Model: DesperModel/Disp.lean.  `release` is the loop of the `dispatch_enabled` setter
  (events.py:122-139: pop one queued event at a time while dispatching is enabled).
  `enqueued` / `released` are history variables: every event appended to the queue since the last
  `clear`, and every event taken out of the queue for delivery, both in order.
-/
open Desper Desper.Disp

/-- While dispatching is disabled `dispatch` runs no callback: the log is unchanged, and the event
is appended at the end of the queue iff its name is known (events.py:105-111). -/
theorem C04_silent_while_disabled (U : Universe) (fuel : Nat) (s : St) (ev args : String)
    (hd : s.enabled = false) :
    (execOp U (fuel + 1) s (.dispatch ev args)).1.log = s.log ∧
    (execOp U (fuel + 1) s (.dispatch ev args)).2 = .ok ∧
    (execOp U (fuel + 1) s (.dispatch ev args)).1.queue =
      if (Dict.get? s.events ev).isSome then s.queue ++ [(ev, args)] else s.queue := by
  simp only [execOp]
  cases h : Dict.get? s.events ev <;> simp [hd]

/-- Never twice, never lost, in order — for every history, re-entrant callbacks, raising callbacks
and nested disables included: at every point between two top-level operations the events queued so
far are exactly the ones already taken out for delivery (each taken out once, in dispatch order)
followed by the ones still pending (in dispatch order). -/
theorem C04_never_twice_in_order (U : Universe) (hU : U.WF) (held hints : List Obj) (fuel : Nat)
    (ops : List Op) :
    (run U fuel (init held hints) ops).enqueued =
      (run U fuel (init held hints) ops).released ++ (run U fuel (init held hints) ops).queue :=
  (top_state hU held hints fuel ops).2.2.2.1

/-- The same holds at the very point a delivery fails: one step of the release takes the head of
the queue out *before* delivering it; if that delivery does not complete (a callback raised) the
enabling assignment ends there, in the state the callback left — the event is not in the queue any
more and the rest of the queue is untouched by the release itself. -/
theorem C04_release_step (U : Universe) (fuel : Nat) (s : St) (ev args : String)
    (q : List (String × String)) (hq : s.queue = (ev, args) :: q) (he : s.enabled = true) :
    release U (fuel + 1) s =
      match execOp U fuel { s with queue := q, released := s.released ++ [(ev, args)] }
          (.dispatch ev args) with
      | (s', .ok) => release U fuel s'
      | r => r := by
  rw [release]
  simp only [hq]
  rw [if_neg (by simp [he])]
  generalize execOp U fuel { s with queue := q, released := s.released ++ [(ev, args)] }
    (.dispatch ev args) = res
  obtain ⟨s', o⟩ := res
  cases o <;> rfl

/-- Before the enabling assignment returns normally every pending event has been taken out for
delivery — unless a callback disabled dispatching again, in which case the rest stays pending
(`C04_never_twice_in_order` says in which order).  Re-entrant callbacks included. -/
theorem C04_release_drains (U : Universe) (fuel : Nat) (s : St)
    (h : (execOp U (fuel + 1) s (.enable true)).2 = .ok) :
    (execOp U (fuel + 1) s (.enable true)).1.queue = [] ∨
    (execOp U (fuel + 1) s (.enable true)).1.enabled = false := by
  simp only [execOp] at h ⊢
  exact release_drains U fuel _ h

/-- Fault-free release: with listeners whose callbacks do nothing else, enabling delivers the
queued events in dispatch order, each exactly once to each listener registered (and alive) at
delivery time, and leaves the queue empty. -/
theorem C04_release_in_order (U : Universe) (hU : U.WF) (hp : Passive U) (held hints : List Obj)
    (fuel fuel' : Nat) (ops : List Op)
    (hok : (execOp U (fuel' + 1) (run U fuel (init held hints) ops) (.enable true)).2 = .ok) :
    ∃ lists : List (List (Obj × String)),
      Forall2 (fun e c => DeliveredOnce (run U fuel (init held hints) ops) e.1 c)
        (run U fuel (init held hints) ops).queue lists ∧
      (execOp U (fuel' + 1) (run U fuel (init held hints) ops) (.enable true)).1.log =
        ((List.zipWith (fun e c => c.map (cbEntry U e.2))
            (run U fuel (init held hints) ops).queue lists).flatten).reverse ++
          (run U fuel (init held hints) ops).log ∧
      (execOp U (fuel' + 1) (run U fuel (init held hints) ops) (.enable true)).1.queue = [] := by
  obtain ⟨_, _, hdy, _, _⟩ := top_state hU held hints fuel ops
  simp only [execOp] at hok ⊢
  obtain ⟨lists, f, l2, l3, _⟩ := release_passive hp fuel'
    { run U fuel (init held hints) ops with enabled := true } hdy rfl hok
  refine ⟨lists, ?_, l2, l3⟩
  refine Forall2.imp ?_ f
  intro a b hab
  exact hab

/-- Enabling always terminates (the dispatcher's own loops): with listeners whose callbacks return
without touching the dispatcher, a fuel of `releaseBound` — one unit per loop iteration, i.e.
Σ over the queued events of (#listeners + 4), plus 1 — is never exhausted, after any history.
Callbacks that call back into the dispatcher are the user's program; their termination is the
fuel hypothesis of the other theorems (every iteration of the release loop still removes the head
of the queue first, `C04_release_step`). -/
theorem C04_terminates (U : Universe) (hU : U.WF) (hp : Passive U) (held hints : List Obj)
    (fuel fuel' : Nat) (ops : List Op)
    (hf : releaseBound (run U fuel (init held hints) ops) (run U fuel (init held hints) ops).queue + 1 ≤ fuel') :
    (execOp U fuel' (run U fuel (init held hints) ops) (.enable true)).2 ≠ .outOfFuel := by
  obtain ⟨_, _, hdy, _, _⟩ := top_state hU held hints fuel ops
  cases fuel' with
  | zero => omega
  | succ f =>
    simp only [execOp]
    apply release_passive_fuel hp f { run U fuel (init held hints) ops with enabled := true } hdy rfl
    have hb : ∀ l, releaseBound { run U fuel (init held hints) ops with enabled := true } l =
        releaseBound (run U fuel (init held hints) ops) l := by
      intro l
      induction l with
      | nil => rfl
      | cons a l ih => simp only [releaseBound, ih]; rfl
    show releaseBound _ (run U fuel (init held hints) ops).queue ≤ f
    rw [hb]; omega

/-! non-vacuity: two events queued while disabled are released in order -/
private def exU : Universe :=
  { mapping := fun o => if o < 1 then some [("e0", "m0")] else none, reaction := fun _ _ _ => [] }

example :
    let s := run exU 100 (init [0] [0, 0]) [.add 0, .enable false, .dispatch "e0" "1", .dispatch "e0" "2"]
    s.queue = [("e0", "1"), ("e0", "2")] ∧ s.log.filter (fun e => e matches .cb ..) = [] ∧
    (execOp exU 100 s (.enable true)).2 = .ok ∧
    (execOp exU 100 s (.enable true)).1.log.take 2 = [.cb (some 0) "m0" "2", .cb (some 0) "m0" "1"] := by
  decide
