import DesperModel.Disp
open Desper Desper.Disp

theorem C04_placeholder : (1:Nat) = 1 := rfl
