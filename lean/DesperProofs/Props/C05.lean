import DesperProofs.Lemmas.WorldDead
import DesperProofs.Lemmas.WorldReact
/-
  C05 — Deferred entity deletion is applied at the next process, safely.

  Model: DesperModel/World.lean (`deleteEntity`, `clearDead`/`sweep`, `process`, and the mark
  being dropped together with the row in `detach`, mirror world.py:283-318, 337-349, 494-504).
  `GoodHist U s ops`: every `delete_entity(e)` of the history is applied to an entity that exists
  at that moment (the property's proviso), and no `process` was given an invalid sweep-order hint.
-/
open Desper Desper.World

/-- Step one, at once: the entity stops existing for `entity_exists`/`entities` while its
components remain queryable; nothing else changes and nothing can fail. -/
theorem C05_two_step (U : Universe) (s : St) (e : Ent) :
    (deleteEntity U s e false).2 = .ok ∧
    entityExists (deleteEntity U s e false).1 e = false ∧
    e ∉ entities (deleteEntity U s e false).1 ∧
    (∀ e', getComponents (deleteEntity U s e false).1 e' = getComponents s e') ∧
    (∀ t, World.get U (deleteEntity U s e false).1 t = World.get U s t) := by
  have hd : (deleteEntity U s e false).1 = { s with dead := setAdd s.dead e } := rfl
  have hmem : e ∈ setAdd s.dead e := (mem_setAdd _ _ _).mpr (.inr rfl)
  refine ⟨rfl, ?_, ?_, ?_, ?_⟩
  · rw [hd]; simp [entityExists, hmem]
  · rw [hd]; simp [entities, hmem]
  · intro e'; rfl
  · intro t; rfl

/-- Step two happens at the start of the next `process()`, before any processor runs: the log of
a `process` call is the old log, then `on_remove` callbacks only, then processor (and on_update)
calls only. -/
theorem C05_applied_first (U : Universe) [U.NoReenter] (s : St) (dt : String) :
    ∃ removals calls, (process U s dt).1.log = calls ++ removals ++ s.log ∧
      (∀ x ∈ removals, isLife x) ∧ (∀ x ∈ calls, isProc x ∨ isProbe x) := by
  unfold process
  obtain ⟨l1, hl1, hp1⟩ := clearDead_ext U s
  cases hx : clearDead U s with
  | mk s' o =>
    rw [hx] at hl1
    have hrun : ∀ (s0 : St) (ps : List Obj), ∃ l, (runProcs U s0 dt ps).1.log = l ++ s0.log ∧
        ∀ x ∈ l, isProc x ∨ isProbe x := by
      intro s0 ps
      induction ps generalizing s0 with
      | nil => exact ⟨[], rfl, by simp⟩
      | cons p ps ih =>
        simp only [runProcs]
        have hlog := callCb_log U s0 p "process" (.proc p dt)
        cases hy : callCb U s0 p "process" (.proc p dt) with
        | mk s1 o1 =>
          rw [hy] at hlog
          cases o1 <;> simp only
          · -- optional on_update dispatch
            have hd : ∃ l, (if (U.cls (tyOf U p)).isOnUpdate then dispatchPlain U s1 "on_update" dt
                else (s1, Disp.Outcome.ok)).1.log = l ++ s1.log ∧ ∀ x ∈ l, isProbe x := by
              split
              · exact dispatchPlain_ext U s1 "on_update" dt
              · exact ⟨[], rfl, by simp⟩
            generalize (if (U.cls (tyOf U p)).isOnUpdate then dispatchPlain U s1 "on_update" dt
                else (s1, Disp.Outcome.ok)) = r at hd
            obtain ⟨r1, r2⟩ := r
            obtain ⟨l2, hl2, hp2⟩ := hd
            simp only at hl2
            cases r2 <;> simp only
            · obtain ⟨l3, hl3, hp3⟩ := ih r1
              refine ⟨l3 ++ l2 ++ [.proc p dt], ?_, ?_⟩
              · rw [hl3, hl2, hlog]; simp
              · intro x hx
                simp only [List.mem_append, List.mem_singleton] at hx
                rcases hx with (h | h) | h
                · exact hp3 x h
                · exact .inr (hp2 x h)
                · subst h; exact .inl trivial
            all_goals
              refine ⟨l2 ++ [.proc p dt], by rw [hl2, hlog]; simp, ?_⟩
              intro x hx
              simp only [List.mem_append, List.mem_singleton] at hx
              rcases hx with h | h
              · exact .inr (hp2 x h)
              · subst h; exact .inl trivial
          all_goals exact ⟨[.proc p dt], by rw [hlog]; rfl, by simp [isProc]⟩
    cases o <;> simp only
    · obtain ⟨l2, hl2, hp2⟩ := hrun s' s'.sorted
      exact ⟨l1, l2, by rw [hl2, hl1, List.append_assoc], hp1, hp2⟩
    all_goals exact ⟨l1, [], by simpa using hl1, hp1, by simp⟩

/-- `process()` completes for every history in which each deleted entity existed when
`delete_entity` was called, whatever happened to it in between (components removed one by one,
deleted again, deleted immediately, re-created): the deletion bookkeeping never raises, every
entity awaiting deletion is emptied — its identifier is free again — and nothing is left pending. -/
theorem C05_process_total (U : Universe) [U.Passive] (hn : NoRaise U) (hints : List (List Ent))
    (ops : List Op) (hg : GoodHist U { sweepHints := hints } ops) (dt : String)
    (hb : (process U (run U { sweepHints := hints } ops) dt).2 ≠ .badHint) :
    (process U (run U { sweepHints := hints } ops) dt).2 = .ok ∧
    (∀ e ∈ (run U { sweepHints := hints } ops).dead,
        row (process U (run U { sweepHints := hints } ops) dt).1 e = [] ∧
        entityExists (process U (run U { sweepHints := hints } ops) dt).1 e = false) ∧
    (process U (run U { sweepHints := hints } ops) dt).1.dead = [] := by
  have hinv := tabInv_run (tabInv_init U hints) ops
  have hd := deadOk_run (U := U) (s := { sweepHints := hints }) (by intro x hx; simp at hx) ops hg
  generalize run U { sweepHints := hints } ops = s at hinv hd hb ⊢
  have hdead := process_dead U s dt hb
  have hb' : (clearDead U s).2 ≠ .badHint := by
    intro hc
    apply hb
    unfold process
    cases hx : clearDead U s with
    | mk s' o => rw [hx] at hc; simp only at hc; subst hc; rfl
  obtain ⟨c1, c2⟩ := clearDead_total hn s hinv hd hb'
  have hproc : (process U s dt).2 = .ok ∧
      (process U s dt).1.ents = (clearDead U s).1.ents := by
    unfold process
    cases hx : clearDead U s with
    | mk s' o =>
      rw [hx] at c1
      simp only at c1; subst c1
      simp only
      exact ⟨(runProcs_exact hn s' dt s'.sorted).1, (runProcs_tables U s' dt _).ents⟩
  refine ⟨hproc.1, ?_, hdead⟩
  intro e he
  have hrow : row (process U s dt).1 e = [] := by
    rw [row_of_ents hproc.2]; exact c2 e he
  refine ⟨hrow, ?_⟩
  simp only [entityExists, Bool.and_eq_false_imp, Bool.not_eq_eq_eq_not, Bool.not_false]
  intro hsome
  exfalso
  have hinv' := tabInv_process hinv dt
  obtain ⟨r, hr⟩ := Option.isSome_iff_exists.mp hsome
  have := hinv'.noEmptyRow e r hr
  apply this
  rw [← row_eq_of_get? hr]; exact hrow

/-- A failed `process()` never leaves the world failing on every later frame: whatever stopped
the frame (a raising `on_remove` callback, a raising processor, a `KeyError` for an entity that
never existed), nothing is awaiting deletion afterwards, so the deletion sweep of the next frame
has nothing to do and cannot fail. -/
theorem C05_no_sticky_failure (U : Universe) [U.Passive] (s : St) (dt : String)
    (hb : (process U s dt).2 ≠ .badHint) :
    (process U s dt).1.dead = [] ∧
    ∀ s', s'.dead = [] → s'.sweepHints = [] → clearDead U s' = ({ s' with dead := [], sweepHints := [] }, .ok) := by
  refine ⟨process_dead U s dt hb, ?_⟩
  intro s' h1 h2
  simp [clearDead, h1, h2, isPerm, nodupB, sweep]

/-! ### `delete_entity` called from inside callbacks (no `U.Passive` anywhere below)

A callback — `on_remove` of an owner deleting what it owns, a processor, a plain event callback —
may itself call `delete_entity(x)`, also while the sweep at the start of `process()` is running.
The two steps are the same: at once `x` stops existing, and the mark stays — through the rest of
that sweep, through the processors of that frame, through any later operation that only handles
events — until `x` has lost all of its components. -/

/-- the callback's own `delete_entity(x)` takes effect at once, whether the callback then returns or
raises: `x` is awaiting deletion and does not exist for `entity_exists` / `entities` -/
theorem C05_callback_delete_marks (U : Universe) [U.NoReenter] (s : St) (o : Obj) (m : String) (en : Entry) (x : Ent)
    (h : U.reacts o m ((Dict.get? s.calls (o, m)).getD 0) = some x) :
    x ∈ (callCb U s o m en).1.dead ∧ entityExists (callCb U s o m en).1 x = false ∧
    x ∉ entities (callCb U s o m en).1 ∧ ∀ e', row (callCb U s o m en).1 e' = row s e' := by
  have hm := callCb_marks U s o m en x h
  refine ⟨hm, ?_, ?_, fun e' => row_of_ents (callCb_tables U s o m en).ents e'⟩
  · simp [entityExists, hm]
  · simp [entities, hm]

/-- a mark that is there at any moment of the sweep (made before it, or by a callback of an entity
swept earlier in the same pass) is still there when the sweep ends — completed or cut short by an
exception — unless that entity has no component left; in particular the sweep never wipes the
marks made while it runs -/
theorem C05_marks_survive_sweep (U : Universe) [U.NoReenter] (s : St) (es : List Ent) (x : Ent) (hx : x ∈ s.dead) :
    x ∈ (sweep U s es).1.dead ∨ row (sweep U s es).1 x = [] :=
  (keep_sweep U s es).dead x hx

/-- the same for the removal of one entity's components (immediate deletion, one sweep step) and
for a single `remove_component` -/
theorem C05_marks_survive_removal (U : Universe) [U.NoReenter] (s : St) (e : Ent) (ts : List Ty) (t : Ty) (x : Ent)
    (hx : x ∈ s.dead) :
    (x ∈ (removeTypes U s e ts).1.dead ∨ row (removeTypes U s e ts).1 x = []) ∧
    (x ∈ (removeComponent U s e t).1.dead ∨ row (removeComponent U s e t).1 x = []) :=
  ⟨(keep_removeTypes U s e ts).dead x hx, (keep_removeComponent U s e t).dead x hx⟩

/-- processors and their `on_update` relays never unmark anything (and may mark more) -/
theorem C05_marks_survive_processors (U : Universe) [U.NoReenter] (s : St) (dt : String) (ps : List Obj) (x : Ent)
    (hx : x ∈ s.dead) : x ∈ (runProcs U s dt ps).1.dead :=
  (runProcs_tables U s dt ps).deadMono x hx

/-! non-vacuity: delete, strip the entity component by component before the frame, process twice -/
private def exU : Universe :=
  { classes := [{ bases := [] }], mapping := fun _ => none, objTy := fun _ => some 0,
    raises := fun _ _ _ => none }

instance : exU.Passive := { noReenter := fun _ _ _ _ _ => rfl, noReact := fun _ _ _ => rfl }

example : NoRaise exU ∧ GoodHist exU {} [.create none [0], .delete 1 false, .remove 1 0] ∧
    (process exU (run exU {} [.create none [0], .delete 1 false, .remove 1 0]) "1").2 = .ok ∧
    (process exU (run exU {} [.create none [0], .delete 1 false]) "1").2 = .ok ∧
    entities (process exU (run exU {} [.create none [0], .delete 1 false]) "1").1 = [] := by
  refine ⟨fun _ _ _ => rfl, ?_, by decide, by decide, by decide⟩
  refine ⟨trivial, by decide, ?_, by decide, trivial, by decide, trivial⟩
  show (Dict.get? (step exU {} (Op.create none [0])).1.ents 1).isSome = true
  decide

/-! non-vacuity of the re-entrant part: entity 1 owns a component whose `on_remove` deletes entity 2.
`delete_entity(1)`; the next `process()` removes 1's component, whose callback marks 2 while the
sweep is running: 2 stops existing at once, keeps its component for that frame, and loses it at the
start of the following `process()`. -/
private def petU : Universe :=
  { classes := [{ bases := [] }, { bases := [] }],
    mapping := fun t => if t = 0 then some [("on_remove", "on_remove")] else none,
    objTy := fun o => some o,
    raises := fun _ _ _ => none,
    reacts := fun o m k => if o = 0 ∧ m = "on_remove" ∧ k = 0 then some 2 else none }

example :
    let s1 := run petU {} [.create none [0], .create none [1], .delete 1 false]
    let s2 := (process petU s1 "1").1
    let s3 := (process petU s2 "1").1
    (process petU s1 "1").2 = .ok ∧ s2.dead = [2] ∧ entityExists s2 2 = false ∧ getComponents s2 2 = [1] ∧
    getComponents s2 1 = [] ∧ (process petU s2 "1").2 = .ok ∧ s3.dead = [] ∧ getComponents s3 2 = [] := by
  decide
