import DesperModel.World
open Desper Desper.World

theorem C06_placeholder : (1:Nat) = 1 := rfl
