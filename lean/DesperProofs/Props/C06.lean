import DesperProofs.Lemmas.WorldWalk
import DesperProofs.Lemmas.WorldFrame
import DesperProofs.Lemmas.WorldProcInv
/-
  C06 — Type queries match exactly the subclasses, once each.

  Model: DesperModel/World.lean.  `visit U t` is the pop order of the `fringe` loops of world.py,
  `Sub U t' t` the subclass relation (`t'` is `t` or a direct or indirect subclass of `t`), for any
  hierarchy Python accepts (`U.WF`: bases are created before their subclasses), multiple
  inheritance and diamonds included.  `get` listing each pair once is `C01_get_once` (it needs the
  table invariant of C01).
-/
open Desper Desper.World

/-- The walk reaches exactly the classes that are `t` or a direct or indirect subclass of `t`. -/
theorem C06_walk_sound_complete (U : Universe) (hU : U.WF) (t x : Ty) :
    x ∈ visit U t ↔ Sub U x t := mem_visit U hU t x

/-- The queried type itself is tried first (this is what gives the exact type priority). -/
theorem C06_exact_first (U : Universe) (t : Ty) : ∃ rest, visit U t = t :: rest := visit_head U t

/-- `has_component(e, t)` holds iff the entity owns a component whose type is `t` or a subclass. -/
theorem C06_has_component (U : Universe) (hU : U.WF) (s : St) (e : Ent) (t : Ty) :
    hasComponent U s e t = true ↔ ∃ st c, Sub U st t ∧ Dict.get? (row s e) st = some c := by
  simp only [hasComponent, List.any_eq_true, Option.isSome_iff_exists]
  constructor
  · rintro ⟨st, hst, c, hc⟩; exact ⟨st, c, (mem_visit U hU t st).mp hst, hc⟩
  · rintro ⟨st, c, hs, hc⟩; exact ⟨st, (mem_visit U hU t st).mpr hs, c, hc⟩

/-- `get_component(e, t)`: the result is a component of `e` whose type is `t` or a subclass;
it is `None` only if there is no such component; and when `e` owns a component of exactly type
`t`, that one is returned. -/
theorem C06_get_component (U : Universe) (hU : U.WF) (s : St) (e : Ent) (t : Ty) :
    (∀ c, getComponent U s e t = some c → ∃ st, Sub U st t ∧ Dict.get? (row s e) st = some c) ∧
    (getComponent U s e t = none ↔ ∀ st, Sub U st t → Dict.get? (row s e) st = none) ∧
    (∀ c, Dict.get? (row s e) t = some c → getComponent U s e t = some c) := by
  refine ⟨?_, ?_, ?_⟩
  · intro c h
    obtain ⟨st, hst, hc⟩ := List.exists_of_findSome?_eq_some h
    exact ⟨st, (mem_visit U hU t st).mp hst, hc⟩
  · simp only [getComponent, List.findSome?_eq_none_iff]
    constructor
    · intro h st hs; exact h st ((mem_visit U hU t st).mpr hs)
    · intro h st hst; exact h st ((mem_visit U hU t st).mp hst)
  · intro c hc
    obtain ⟨rest, hr⟩ := visit_head U t
    simp [getComponent, hr, List.findSome?_cons, hc]

/-- `get_processor(t)` likewise, over the processors of the world. -/
theorem C06_get_processor (U : Universe) (hU : U.WF) (s : St) (t : Ty) :
    (∀ p, getProcessor U s t = some p → ∃ st, Sub U st t ∧ Dict.get? s.procs st = some p) ∧
    (getProcessor U s t = none ↔ ∀ st, Sub U st t → Dict.get? s.procs st = none) ∧
    (∀ p, Dict.get? s.procs t = some p → getProcessor U s t = some p) := by
  refine ⟨?_, ?_, ?_⟩
  · intro c h
    obtain ⟨st, hst, hc⟩ := List.exists_of_findSome?_eq_some h
    exact ⟨st, (mem_visit U hU t st).mp hst, hc⟩
  · simp only [getProcessor, List.findSome?_eq_none_iff]
    constructor
    · intro h st hs; exact h st ((mem_visit U hU t st).mpr hs)
    · intro h st hst; exact h st ((mem_visit U hU t st).mp hst)
  · intro c hc
    obtain ⟨rest, hr⟩ := visit_head U t
    simp [getProcessor, hr, List.findSome?_cons, hc]

/-- `remove_component(e, t)` detaches exactly one component — of a type that is `t` or a subclass,
of exactly type `t` when there is one — or none when nothing matches (state unchanged). -/
theorem C06_remove_one (U : Universe) [U.NoReenter] (hU : U.WF) (s : St) (e : Ent) (t : Ty) :
    ((∀ st, Sub U st t → Dict.get? (row s e) st = none) →
        removeComponent U s e t = (s, .ok, none)) ∧
    (∀ c, (removeComponent U s e t).2.2 = some c →
        ∃ st, Sub U st t ∧ Dict.get? (row s e) st = some c ∧
          (∀ c', Dict.get? (row s e) t = some c' → st = t) ∧
          ∀ x, Dict.get? (row (removeComponent U s e t).1 e) x =
                if st = x then none else Dict.get? (row s e) x) := by
  rcases removeComponent_spec U s e t with ⟨hf, heq⟩ | ⟨st, c, hf, hc, hret, hsame⟩
  · refine ⟨fun _ => heq, ?_⟩
    intro c hc; rw [heq] at hc; simp at hc
  · refine ⟨?_, ?_⟩
    · intro hnone
      have hm := List.mem_of_find?_eq_some hf
      have := hnone st ((mem_visit U hU t st).mp hm)
      rw [this] at hc; simp at hc
    · intro c' hc'
      rw [hret] at hc'; simp at hc'; subst hc'
      refine ⟨st, (mem_visit U hU t st).mp (List.mem_of_find?_eq_some hf), hc, ?_, ?_⟩
      · intro c'' hc''
        obtain ⟨rest, hr⟩ := visit_head U t
        rw [hr, List.find?_cons] at hf
        simp only [hc'', Option.isSome_some] at hf
        simpa using hf.symm
      · intro x
        rw [row_of_ents hsame.ents, row_detach]
        simp

/-- `remove_processor(t)` likewise detaches exactly one processor — of a type that is `t` or a
subclass, of exactly type `t` when there is one — or none when nothing matches (state unchanged):
its dictionary entry goes, every other entry stays, and the priority-sorted list loses the
processors of exactly that type and nothing else (order of the rest unchanged). -/
theorem C06_remove_processor_one (U : Universe) [U.NoReenter] (hU : U.WF) (s : St) (t : Ty) :
    ((∀ st, Sub U st t → Dict.get? s.procs st = none) →
        removeProcessor U s t = (s, .ok, none)) ∧
    (∀ p, (removeProcessor U s t).2.2 = some p →
        ∃ st, Sub U st t ∧ Dict.get? s.procs st = some p ∧
          (∀ p', Dict.get? s.procs t = some p' → st = t) ∧
          (∀ x, Dict.get? (removeProcessor U s t).1.procs x =
                if st = x then none else Dict.get? s.procs x) ∧
          (removeProcessor U s t).1.sorted = s.sorted.filter (fun q => tyOf U q ≠ st)) := by
  rcases removeProcessor_spec U s t with ⟨_, heq⟩ | ⟨st, p, hf, hp, hret, hsame⟩
  · refine ⟨fun _ => heq, ?_⟩
    intro c hc; rw [heq] at hc; simp at hc
  · refine ⟨?_, ?_⟩
    · intro hnone
      have hm := List.mem_of_find?_eq_some hf
      have := hnone st ((mem_visit U hU t st).mp hm)
      rw [this] at hp; simp at hp
    · intro p' hp'
      rw [hret] at hp'; simp at hp'; subst hp'
      refine ⟨st, (mem_visit U hU t st).mp (List.mem_of_find?_eq_some hf), hp, ?_, ?_, ?_⟩
      · intro p'' hp''
        obtain ⟨rest, hr⟩ := visit_head U t
        rw [hr, List.find?_cons] at hf
        simp only [hp'', Option.isSome_some] at hf
        simpa using hf.symm
      · intro x
        rw [hsame.procs]
        show Dict.get? (Dict.erase s.procs st) x = _
        rw [Dict.get?_erase]
      · rw [hsame.sorted]; rfl

/-! non-vacuity: a diamond D(B, C), B(A), C(A) -/
private def exU : Universe :=
  { classes := [{ bases := [] }, { bases := [0] }, { bases := [0] }, { bases := [1, 2] }],
    mapping := fun _ => none, objTy := fun _ => some 3, raises := fun _ _ _ => none }

example : exU.WF ∧ visit exU 0 = [0, 2, 3, 1, 3] ∧ Sub exU 3 0 :=
  ⟨exU.wf_of_wfb (by decide), by decide,
   .step (b := 1) (by decide) (.step (b := 0) (by decide) (.refl 0))⟩

/-- non-vacuity of `C06_remove_processor_one`: a processor of the diamond's bottom class `D` is
found and removed by a query for the top class `A`; the sorted list and the dictionary lose it -/
example :
    let s : St := { procs := [(3, 7)], sorted := [7] }
    (removeProcessor exU s 0).2.2 = some 7 ∧ (removeProcessor exU s 0).1.sorted = [] ∧
    Dict.get? (removeProcessor exU s 0).1.procs 3 = none ∧
    (removeProcessor exU s 1).2.2 = some 7 ∧ (removeProcessor exU { s with procs := [] } 0).2.2 = none := by
  decide
