import DesperModel.Coro
import DesperProofs.Lemmas.CoroPromise
open Desper Desper.Coro

/-- a small program used by the non-vacuity examples: generator 0 runs, waits 2 s, runs, returns 5
(killing and restarting itself on the way); generator 1 kills and restarts generator 0 -/
def C09_demo : Universe :=
  { script := fun g =>
      if g = 0 then some [⟨[], .yield none⟩, ⟨[.kill 0, .start 0], .yield (some 16)⟩, ⟨[], .ret (some 5)⟩]
      else if g = 1 then some [⟨[.kill 0, .start 0, .state 0], .yield none⟩, ⟨[], .ret none⟩]
      else none }

/-- the D10 history: start, a frame, kill immediately followed by start -/
def C09_d10 : List Op := [.start 0, .process 8 [], .kill 0, .start 0]

/-- **process never fails because of start/kill bookkeeping.**  Whatever the program (scripts `U`),
whatever the history `ops` of start / kill / state / value / process operations issued from outside
and from inside bodies, with whatever dt values and heap tie-breaks, the next `process` call
completes: no `KeyError`/`IndexError` from the tables, and the loop's fuel is never exhausted
(one frame terminates). -/
theorem C09_process_total (U : Universe) (ops : List Op) (dt : Int) (hint : List Gen) :
    (process U (run U init ops) dt hint).2 = .ok :=
  (process_spec U (run_inv U inv_init ops) dt hint).1

example : (process C09_demo (run C09_demo init C09_d10) 8 []).2 = .ok := by decide

/-- **Key invariant.**  In every reachable state: one sentinel; every generator occurs at most
once in `active ∪ waiting` (voided heap entries do not count); `gens` has an entry exactly for the
generators that occur, `None` for those in the deque and the wait record for those in the heap;
`kill ⊆ dom gens`; `dom promises = dom gens`. -/
theorem C09_tables_coherent (U : Universe) (ops : List Op) :
    let s := run U init ops
    s.active.count none = 1 ∧
    (∀ g, s.active.count (some g) + s.waiting.countP (fun r => r.gen == some g) ≤ 1) ∧
    (∀ g, s.gens g = none ↔ (some g ∉ s.active ∧ ∀ d, (⟨some g, d⟩ : Rec) ∉ s.waiting)) ∧
    (∀ g, s.gens g = some none ↔ some g ∈ s.active) ∧
    (∀ g, (∃ d, s.gens g = some (some d)) ↔ ∃ d, (⟨some g, d⟩ : Rec) ∈ s.waiting) ∧
    (∀ g d, s.gens g = some (some d) → (⟨some g, d⟩ : Rec) ∈ s.waiting) ∧
    (∀ g, s.kill g = true → s.gens g ≠ none) ∧
    (∀ g, s.promises g = none ↔ s.gens g = none) :=
  Inv.explicit (run_inv U inv_init ops)

example : (run C09_demo init C09_d10).active = [none, some 0] := by decide

/-- **state.**  In every reachable state, for a generator object `g`: `state g` is ACTIVE exactly
when `g` is queued as runnable and not marked for killing, PAUSED exactly when it is waiting and not
marked, TERMINATED otherwise. -/
theorem C09_state (U : Universe) (ops : List Op) (g : Gen) (hg : U.script g ≠ none) :
    let s := run U init ops
    (stateOf U s g = .ok .active ↔ (some g ∈ s.active ∧ s.kill g = false)) ∧
    (stateOf U s g = .ok .paused ↔ ((∃ d, (⟨some g, d⟩ : Rec) ∈ s.waiting) ∧ s.kill g = false)) ∧
    (stateOf U s g = .ok .terminated ↔
      ((some g ∉ s.active ∧ ∀ d, (⟨some g, d⟩ : Rec) ∉ s.waiting) ∨ s.kill g = true)) :=
  stateOf_spec U (run_inv U inv_init ops) g hg

example : stateOf C09_demo (run C09_demo init C09_d10) 0 = .ok .active := by rfl

/-- **errors.**  In *any* state: starting a generator that is not TERMINATED and killing one that is
TERMINATED answer `ValueError`; anything that is not a generator object answers `TypeError` (for
start, kill and state); in all these cases nothing changes. -/
theorem C09_errors (U : Universe) (s : St) (g : Gen) :
    (∀ c, stateOf U s g = .ok c → c ≠ .terminated → start U s g = (s, .raised "ValueError")) ∧
    (stateOf U s g = .ok .terminated → kill U s g = (s, .raised "ValueError")) ∧
    (U.script g = none → start U s g = (s, .raised "TypeError") ∧
      kill U s g = (s, .raised "TypeError") ∧ stateOf U s g = .error "TypeError") :=
  errors_spec U s g

example : (start C09_demo (run C09_demo init [.start 0]) 0).2 = .raised "ValueError" := by decide
example : (kill C09_demo (run C09_demo init [.start 0, .kill 0]) 0).2 = .raised "ValueError" := by decide
example : (start C09_demo init 7).2 = .raised "TypeError" := by decide

/-- **kill is final until the next start; a restart carries on where the generator stopped.**
(1) Trace form, covering kills and starts issued from outside and from inside bodies alike: whenever
a step `step g i` is logged, the most recent successful start / kill of `g` before it is a *start*
(so after a successful `kill g` no code of `g` runs until `g` is successfully started again, and a
generator that was never started never runs), and `i` is the number of steps `g` executed before:
steps are neither repeated nor skipped, whatever kills and restarts lie in between.
(2) State form: from a reachable state in which `state g` reads TERMINATED (`Dead`), across any
further history in which `g` is not successfully started, `g` stays TERMINATED and executes nothing;
and a successful `kill g` makes `g` TERMINATED at once. -/
theorem C09_kill_final (U : Universe) (ops : List Op) (g : Gen) :
    (∀ pre post i, (run U init ops).log = post ++ .step g i :: pre →
      lastLife g pre = some true ∧ i = (stepGens pre).count g) ∧
    (∀ more, Dead g (run U init ops) →
      nStart (run U (run U init ops) more) g = nStart (run U init ops) g →
      Dead g (run U (run U init ops) more) ∧
        (run U (run U init ops) more).pc g = (run U init ops).pc g) ∧
    (∀ s, (kill U s g).2 = .ok → Dead g (kill U s g).1) := by
  refine ⟨fun pre post i h => ?_, fun more hd hn => ?_, fun s hk => ?_⟩
  · have L := run_li U top_init ops li_init pcLog_init
    exact goodLog_split (h ▸ L.good)
  · exact (run_frozen U (run_top U top_init ops) more g).dead hn hd
  · unfold kill at hk ⊢
    split
    · simp_all
    · split
      · simp_all
      · exact .inr (by simp)

/-- kill then start (D10), then two frames: the steps logged are 0, 1, 2 -/
example : (run C09_demo init (C09_d10 ++ [.process 8 [], .process 8 [], .process 16 []])).log.filterMap
    (fun e => match e with | .step 0 i => some i | _ => none) = [2, 1, 0] := by decide

/-- **promise.**  (1) Whenever a return value is stored (`stored g p v`: `g` finished with `v`), `p`
is the promise handed out by the most recent successful start of `g` before that moment — the start
that is current — and at the end of every history that promise still holds `v`.
(2) And it *is* stored: when a generator that runs in a `process` call finishes in it (its step ends
with `return v`, or the generator object is already exhausted: `v = None`) — not being killed by a
step executed in that call — a `stored g p v` entry is logged in that call. -/
theorem C09_promise (U : Universe) (ops : List Op) (g : Gen) (v : Option Int) :
    (∀ pre post p, (run U init ops).log = post ++ .stored g p v :: pre →
      lastPromise g pre = some p ∧ (run U init ops).values p = v) ∧
    (∀ dt hint, runnableIn (run U init ops) dt g → (run U init ops).kill g = false →
      (∀ h, runnableIn (run U init ops) dt h → ∀ st, curStep U (run U init ops) h = some st →
        Act.kill g ∉ st.acts) →
      ((hasCode U (run U init ops) g ∧ ∃ st, curStep U (run U init ops) g = some st ∧ st.fin = .ret v) ∨
        (¬ hasCode U (run U init ops) g ∧ v = none)) →
      ∃ new p, (process U (run U init ops) dt hint).1.log = new ++ (run U init ops).log ∧
        Entry.stored g p v ∈ new) := by
  refine ⟨fun pre post p h => ?_, fun dt hint hr hk hno hret => ?_⟩
  · have P := run_pi U top_init ops pi_init
    exact ⟨goodP_split (h ▸ P.good), (P.ret g p v (by rw [h]; simp)).1⟩
  · exact process_returns U (run_top U top_init ops) dt hint hr hk hno hret

/-- generator 0 of the demo is started twice (promises 0 and 1) and returns 5: promise 1 holds 5,
promise 0 (abandoned by the restart) holds nothing -/
example : let s := run C09_demo init (C09_d10 ++ [.process 8 [], .process 8 [], .process 16 []])
    (s.values 2, s.values 1, s.values 0) = (some 5, none, none) := by decide

/-- **released.**  (1) In every reachable state a generator without an entry in `gens` is referenced
by no table at all (deque, live heap records, kill set, promises) — and
(2) after a `process` call in which `g` was not started again, `g` has no entry in `gens` whenever
  (a) it was in the deque with a kill pending (it would have run in this call),
  (b) it was waiting with a kill pending and its wait elapsed in this call, or
  (c) it ran in this call and finished (returned, or was exhausted), not being killed by a step
      executed in this call.
A killed coroutine whose turn or wake-up lies in a later call is released in that call, by (a)/(b)
applied there. -/
theorem C09_released (U : Universe) (ops : List Op) (g : Gen) :
    let s := run U init ops
    (s.gens g = none → some g ∉ s.active ∧ (∀ r ∈ s.waiting, r.gen ≠ some g) ∧ s.kill g = false ∧
      s.promises g = none) ∧
    (∀ dt hint, nStart (process U s dt hint).1 g = nStart s g →
      (some g ∈ s.active → s.kill g = true → (process U s dt hint).1.gens g = none) ∧
      (s.kill g = true → (∃ d, (⟨some g, d⟩ : Rec) ∈ s.waiting ∧ d ≤ s.timer + dt) →
        (process U s dt hint).1.gens g = none) ∧
      (runnableIn s dt g → s.kill g = false →
        (∀ h, runnableIn s dt h → ∀ st, curStep U s h = some st → Act.kill g ∉ st.acts) →
        (∀ st, hasCode U s g → curStep U s g = some st → ∃ v, st.fin = .ret v) →
        (process U s dt hint).1.gens g = none)) := by
  exact ⟨(run_top U top_init ops).inv.nowhere g,
    fun dt hint hn => process_released U (run_top U top_init ops) dt hint g hn⟩

/-- a killed runnable generator is gone after the next frame; a finished one at once -/
example : (process C09_demo (run C09_demo init [.start 1, .kill 1]) 8 []).1.gens 1 = none ∧
    (run C09_demo init [.start 1, .process 1 [], .process 1 []]).gens 1 = none ∧
    retained 3 (run C09_demo init [.start 1, .kill 1, .process 1 []]) = [] := by decide
