import DesperModel.Coro
import DesperProofs.Lemmas.CoroGen
open Desper Desper.Coro

/-- a small program used by the non-vacuity examples: generator 0 runs, waits 2 s, runs, returns 5
(killing and restarting itself on the way); generator 1 kills and restarts generator 0 -/
def C09_demo : Universe :=
  { script := fun g =>
      if g = 0 then some [⟨[], .yield none⟩, ⟨[.kill 0, .start 0], .yield (some 16)⟩, ⟨[], .ret (some 5)⟩]
      else if g = 1 then some [⟨[.kill 0, .start 0, .state 0], .yield none⟩, ⟨[], .ret none⟩]
      else none }

/-- the D10 history: start, a frame, kill immediately followed by start -/
def C09_d10 : List Op := [.start 0, .process 8 [], .kill 0, .start 0]

/-- **process never fails because of start/kill bookkeeping.**  Whatever the program (scripts `U`,
bodies that raise included), whatever the history `ops` of start / kill / state / value / process
operations issued from outside and from inside bodies, with whatever dt values and heap
tie-breaks — also after calls that a body aborted — the next `process` call either completes or is
left by an exception that a generator body raised (`Outcome.crashed`): never a `KeyError` /
`IndexError` / `ValueError` of the tables (`Outcome.raised`), and the loop's fuel is never exhausted
(one frame terminates).  For a program whose bodies do not raise it completes. -/
theorem C09_process_total (U : Universe) (ops : List Op) (dt : Int) (hint : List Gen) :
    ((process U (run U init ops) dt hint).2 = .ok ∨
      ∃ e, (process U (run U init ops) dt hint).2 = .crashed e) ∧
    (NoRaise U → (process U (run U init ops) dt hint).2 = .ok) :=
  ⟨(process_spec_gen U (run_inv U inv_init ops) dt hint).1,
    fun _ => (process_spec U (run_inv U inv_init ops) dt hint).1⟩

example : (process C09_demo (run C09_demo init C09_d10) 8 []).2 = .ok := by decide

/-- **Key invariant.**  In every reachable state: one sentinel; every generator occurs at most
once in `active ∪ waiting` (voided heap entries do not count); `gens` has an entry exactly for the
generators that occur, `None` for those in the deque and the wait record for those in the heap;
`kill ⊆ dom gens`; `dom promises = dom gens`. -/
theorem C09_tables_coherent (U : Universe) (ops : List Op) :  -- every program, raising bodies included
    let s := run U init ops
    s.active.count none = 1 ∧
    (∀ g, s.active.count (some g) + s.waiting.countP (fun r => r.gen == some g) ≤ 1) ∧
    (∀ g, s.gens g = none ↔ (some g ∉ s.active ∧ ∀ d, (⟨some g, d⟩ : Rec) ∉ s.waiting)) ∧
    (∀ g, s.gens g = some none ↔ some g ∈ s.active) ∧
    (∀ g, (∃ d, s.gens g = some (some d)) ↔ ∃ d, (⟨some g, d⟩ : Rec) ∈ s.waiting) ∧
    (∀ g d, s.gens g = some (some d) → (⟨some g, d⟩ : Rec) ∈ s.waiting) ∧
    (∀ g, s.kill g = true → s.gens g ≠ none) ∧
    (∀ g, s.promises g = none ↔ s.gens g = none) :=
  Inv.explicit (run_inv U inv_init ops)

example : (run C09_demo init C09_d10).active = [none, some 0] := by decide

/-- **state.**  In every reachable state, for a generator object `g`: `state g` is ACTIVE exactly
when `g` is queued as runnable and not marked for killing, PAUSED exactly when it is waiting and not
marked, TERMINATED otherwise. -/
theorem C09_state (U : Universe) (ops : List Op) (g : Gen) (hg : U.script g ≠ none) :
    let s := run U init ops
    (stateOf U s g = .ok .active ↔ (some g ∈ s.active ∧ s.kill g = false)) ∧
    (stateOf U s g = .ok .paused ↔ ((∃ d, (⟨some g, d⟩ : Rec) ∈ s.waiting) ∧ s.kill g = false)) ∧
    (stateOf U s g = .ok .terminated ↔
      ((some g ∉ s.active ∧ ∀ d, (⟨some g, d⟩ : Rec) ∉ s.waiting) ∨ s.kill g = true)) :=
  stateOf_spec U (run_inv U inv_init ops) g hg

example : stateOf C09_demo (run C09_demo init C09_d10) 0 = .ok .active := by rfl

/-- **errors.**  In *any* state: starting a generator that is not TERMINATED and killing one that is
TERMINATED answer `ValueError`; anything that is not a generator object answers `TypeError` (for
start, kill and state); in all these cases nothing changes. -/
theorem C09_errors (U : Universe) (s : St) (g : Gen) :
    (∀ c, stateOf U s g = .ok c → c ≠ .terminated → start U s g = (s, .raised "ValueError")) ∧
    (stateOf U s g = .ok .terminated → kill U s g = (s, .raised "ValueError")) ∧
    (U.script g = none → start U s g = (s, .raised "TypeError") ∧
      kill U s g = (s, .raised "TypeError") ∧ stateOf U s g = .error "TypeError") :=
  errors_spec U s g

example : (start C09_demo (run C09_demo init [.start 0]) 0).2 = .raised "ValueError" := by decide
example : (kill C09_demo (run C09_demo init [.start 0, .kill 0]) 0).2 = .raised "ValueError" := by decide
example : (start C09_demo init 7).2 = .raised "TypeError" := by decide

/-- **kill is final until the next start; a restart carries on where the generator stopped.**
(1) Trace form, covering kills and starts issued from outside and from inside bodies alike: whenever
a step `step g i` is logged, the most recent successful start / kill of `g` before it is a *start*
(so after a successful `kill g` no code of `g` runs until `g` is successfully started again, and a
generator that was never started never runs), and `i` is the number of steps `g` executed before:
steps are neither repeated nor skipped, whatever kills and restarts lie in between.
(2) State form: from a reachable state in which `state g` reads TERMINATED (`Dead`), across any
further history in which `g` is not successfully started, `g` stays TERMINATED and executes nothing;
and a successful `kill g` makes `g` TERMINATED at once. -/
theorem C09_kill_final (U : Universe) (ops : List Op) (g : Gen) :
    (∀ pre post i, (run U init ops).log = post ++ .step g i :: pre →
      lastLife g pre = some true ∧ i = (stepGens pre).count g) ∧
    (∀ more, Dead g (run U init ops) →
      nStart (run U (run U init ops) more) g = nStart (run U init ops) g →
      Dead g (run U (run U init ops) more) ∧
        (run U (run U init ops) more).pc g = (run U init ops).pc g) ∧
    (∀ s, (kill U s g).2 = .ok → Dead g (kill U s g).1) := by
  refine ⟨fun pre post i h => ?_, fun more hd hn => ?_, fun s hk => ?_⟩
  · have L := run_li_gen U top_init ops li_init pcLog_init
    exact goodLog_split (h ▸ L.good)
  · exact (run_frozen_gen U (run_top_gen U top_init ops) more g).dead hn hd
  · unfold kill at hk ⊢
    split
    · simp_all
    · split
      · simp_all
      · exact .inr (by simp)

/-- kill then start (D10), then two frames: the steps logged are 0, 1, 2 -/
example : (run C09_demo init (C09_d10 ++ [.process 8 [], .process 8 [], .process 16 []])).log.filterMap
    (fun e => match e with | .step 0 i => some i | _ => none) = [2, 1, 0] := by decide

/-- **promise.**  (1) Whenever a return value is stored (`stored g p v`: `g` finished with `v`), `p`
is the promise handed out by the most recent successful start of `g` before that moment — the start
that is current — and at the end of every history that promise still holds `v`.
(2) And it *is* stored: when a generator that runs in a `process` call that returns normally finishes in it (its step ends
with `return v`, or the generator object is already exhausted: `v = None`) — not being killed by a
step executed in that call — a `stored g p v` entry is logged in that call. -/
theorem C09_promise (U : Universe) (ops : List Op) (g : Gen) (v : Option Int) :
    (∀ pre post p, (run U init ops).log = post ++ .stored g p v :: pre →
      lastPromise g pre = some p ∧ (run U init ops).values p = v) ∧
    (∀ dt hint, (process U (run U init ops) dt hint).2 = .ok →
      runnableIn (run U init ops) dt g → (run U init ops).kill g = false →
      (∀ h, runnableIn (run U init ops) dt h → ∀ st, curStep U (run U init ops) h = some st →
        Act.kill g ∉ st.acts) →
      ((hasCode U (run U init ops) g ∧ ∃ st, curStep U (run U init ops) g = some st ∧ st.fin = .ret v) ∨
        (¬ hasCode U (run U init ops) g ∧ v = none)) →
      ∃ new p, (process U (run U init ops) dt hint).1.log = new ++ (run U init ops).log ∧
        Entry.stored g p v ∈ new) := by
  refine ⟨fun pre post p h => ?_, fun dt hint hok hr hk hno hret => ?_⟩
  · have P := run_pi_gen U top_init ops pi_init
    exact ⟨goodP_split (h ▸ P.good), (P.ret g p v (by rw [h]; simp)).1⟩
  · exact process_returns_ok U (run_top_gen U top_init ops) dt hint hok hr hk hno hret

/-- generator 0 of the demo is started twice (promises 0 and 1) and returns 5: promise 1 holds 5,
promise 0 (abandoned by the restart) holds nothing -/
example : let s := run C09_demo init (C09_d10 ++ [.process 8 [], .process 8 [], .process 16 []])
    (s.values 2, s.values 1, s.values 0) = (some 5, none, none) := by decide

/-- **released.**  (1) In every reachable state a generator without an entry in `gens` is referenced
by no table at all (deque, live heap records, kill set, promises) — and
(2) after a `process` call that returns normally and in which `g` was not started again, `g` has no
entry in `gens` whenever
  (a) it was in the deque with a kill pending (it would have run in this call),
  (b) it was waiting with a kill pending and its wait elapsed in this call, or
  (c) it ran in this call and finished (returned, or was exhausted), not being killed by a step
      executed in this call.
A killed coroutine whose turn or wake-up lies in a later call is released in that call, by (a)/(b)
applied there; a call that a body aborts releases the coroutine that raised at once
(`C09_raised_is_over`) and leaves the others where they are for the next call. -/
theorem C09_released (U : Universe) (ops : List Op) (g : Gen) :
    let s := run U init ops
    (s.gens g = none → some g ∉ s.active ∧ (∀ r ∈ s.waiting, r.gen ≠ some g) ∧ s.kill g = false ∧
      s.promises g = none) ∧
    (∀ dt hint, (process U s dt hint).2 = .ok → nStart (process U s dt hint).1 g = nStart s g →
      (some g ∈ s.active → s.kill g = true → (process U s dt hint).1.gens g = none) ∧
      (s.kill g = true → (∃ d, (⟨some g, d⟩ : Rec) ∈ s.waiting ∧ d ≤ s.timer + dt) →
        (process U s dt hint).1.gens g = none) ∧
      (runnableIn s dt g → s.kill g = false →
        (∀ h, runnableIn s dt h → ∀ st, curStep U s h = some st → Act.kill g ∉ st.acts) →
        (∀ st, hasCode U s g → curStep U s g = some st → ∃ v, st.fin = .ret v) →
        (process U s dt hint).1.gens g = none)) := by
  exact ⟨(run_top_gen U top_init ops).inv.nowhere g,
    fun dt hint hok hn => process_released_ok U (run_top_gen U top_init ops) dt hint g hok hn⟩

/-- a killed runnable generator is gone after the next frame; a finished one at once -/
example : (process C09_demo (run C09_demo init [.start 1, .kill 1]) 8 []).1.gens 1 = none ∧
    (run C09_demo init [.start 1, .process 1 [], .process 1 []]).gens 1 = none ∧
    retained 3 (run C09_demo init [.start 1, .kill 1, .process 1 []]) = [] := by decide

/-- a program with a body that raises (generator 0 leaves with `SwitchWorld` in its second step) -/
def C09_raising : Universe :=
  { script := fun g =>
      if g = 0 then some [⟨[], .yield none⟩, ⟨[], .raise "SwitchWorld"⟩, ⟨[], .ret (some 5)⟩]
      else if g = 1 then some [⟨[], .yield none⟩, ⟨[], .yield none⟩, ⟨[], .yield none⟩, ⟨[], .ret none⟩]
      else none }

/-- **A coroutine whose body raised is over** (every program, every history).  When a `process`
call is left by an exception of a body, the generator that raised — it was in the deque of this
call — has no table entry when the call returns: `state` reads TERMINATED, no table references it
(deque, heap, kill set, promises), its generator object is exhausted; and an exhausted generator
object never executes anything again, whatever happens afterwards. -/
theorem C09_raised_is_over (U : Universe) (ops : List Op) (dt : Int) (hint : List Gen) (e : String) :
    let s := run U init ops
    let s' := (process U s dt hint).1
    ((process U s dt hint).2 = .crashed e →
      ∃ g, runnableIn s dt g ∧ s'.gens g = none ∧
        (some g ∉ s'.active ∧ (∀ r ∈ s'.waiting, r.gen ≠ some g) ∧ s'.kill g = false ∧
          s'.promises g = none) ∧
        (U.script g ≠ none → stateOf U s' g = .ok .terminated) ∧ s'.fin g = true) ∧
    (∀ g more, s.fin g = true →
      (run U s more).fin g = true ∧ (run U s more).pc g = s.pc g) := by
  intro s s'
  refine ⟨fun h => ?_, fun g more hf => run_over U (run_inv U inv_init ops) more g hf⟩
  obtain ⟨g, hr, hg, hf, T'⟩ := process_crashed U (run_top_gen U top_init ops) dt hint h
  refine ⟨g, hr, hg, T'.inv.nowhere g hg, fun hs => ?_, hf⟩
  have := (stateOf_spec U T'.inv g hs).2.2
  exact this.mpr (.inl ⟨(T'.inv.nowhere g hg).1, fun d hm => (T'.inv.nowhere g hg).2.1 _ hm rfl⟩)

/-- generator 0 raises in the second call: it is gone when that call returns, its promise is empty -/
example : let s := run C09_raising init [.start 0, .start 1, .process 1 [], .process 1 []]
    (s.log.head?, s.gens 0, s.fin 0, s.values 0) = (some (.res (.crashed "SwitchWorld")), none, true, none) ∧
    retained 2 s = [1] ∧ s.active = [none, some 1] := by decide
