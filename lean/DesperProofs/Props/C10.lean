import DesperProofs.Lemmas.DispTop
/-
  C10 — Handlers are held weakly and never called after they are gone.

  Model: DesperModel/Disp.lean.  `held` are the objects the program holds a strong reference to,
  `pinned` the receivers of the callbacks executing right now; `drop o` releases the program's last
  reference: CPython then finalises `o` at once — or, when `o` is the receiver of an executing
  callback, as soon as that callback returns — and the weak reference callback
  `_remove_weak_handler` runs (events.py:59,77-88).  That CPython really frees the object at that
  moment is runtime behaviour, observed by the harness on the implementation (weakref +
  gc.collect()), assumed here.
-/
open Desper Desper.Disp

/-- The dispatcher's tables mention live objects only, after every history (operations issued
from inside callbacks included). -/
theorem C10_registered_alive (U : Universe) (hU : U.WF) (held hints : List Obj) (fuel : Nat)
    (ops : List Op) (r : Obj) (l : List (String × String))
    (h : Dict.get? (run U fuel (init held hints) ops).handlers r = some l) :
    (run U fuel (init held hints) ops).alive r = true :=
  (top_state hU held hints fuel ops).1.alive r l h

/-- Dropping the last reference between two operations unregisters the handler completely. -/
theorem C10_drop_unregisters (U : Universe) (hU : U.WF) (held hints : List Obj) (fuel : Nat)
    (ops : List Op) (o : Obj) :
    Dict.get? (dropObj (run U fuel (init held hints) ops) o).handlers o = none ∧
    (∀ ev x, x ∈ evl (dropObj (run U fuel (init held hints) ops) o) ev → x.1 ≠ o) ∧
    (dropObj (run U fuel (init held hints) ops) o).alive o = false := by
  obtain ⟨hi, hp, _, _, _⟩ := top_state hU held hints fuel ops
  exact drop_unregisters hU hi hp o

/-- An object that is gone is never called again, whatever happens afterwards: along every
continuation of the run (any operations, any re-entrant callbacks) it stays dead and the number of
callbacks logged for it does not change. -/
theorem C10_dead_never_called (U : Universe) (s : St) (o : Obj) (h : s.alive o = false)
    (fuel : Nat) (ops : List Op) :
    (run U fuel s ops).alive o = false ∧ callsTo o (run U fuel s ops).log = callsTo o s.log :=
  dead_reach (c := callsTo o s.log) ⟨h, rfl⟩ (reach_run U fuel s ops)

/-- Gone for good: after the program dropped its last reference to a handler (between two
operations), whatever happens afterwards — any operations, any re-entrant callbacks — the
dispatcher's tables never mention it again and it is never called: a dispatcher does not keep a
handler alive, and later dispatches behave as if it had never been added. -/
theorem C10_gone_for_good (U : Universe) (hU : U.WF) (held hints : List Obj) (fuel : Nat)
    (ops ops' : List Op) (o : Obj)
    (hheld : (run U fuel (init held hints) ops).held.contains o = true) :
    let s' := dropObj (run U fuel (init held hints) ops) o
    Dict.get? (run U fuel s' ops').handlers o = none ∧
    (∀ ev x, x ∈ evl (run U fuel s' ops') ev → x.1 ≠ o) ∧
    callsTo o (run U fuel s' ops').log = callsTo o s'.log := by
  obtain ⟨hi, hp, _, _, _⟩ := top_state hU held hints fuel ops
  have hdead := (drop_unregisters hU hi hp o).2.2
  have hi' : Disp.Inv U (dropObj (run U fuel (init held hints) ops) o) :=
    inv_prim hU hi (.drop _ o hheld)
  have hreach := reach_run U fuel (dropObj (run U fuel (init held hints) ops) o) ops'
  have hinv := inv_reach hU hi' hreach
  obtain ⟨hd, hc⟩ := dead_reach (c := callsTo o (dropObj (run U fuel (init held hints) ops) o).log)
    ⟨hdead, rfl⟩ hreach
  have hnone : Dict.get? (run U fuel (dropObj (run U fuel (init held hints) ops) o) ops').handlers o = none := by
    cases hg : Dict.get? (run U fuel (dropObj (run U fuel (init held hints) ops) o) ops').handlers o with
    | none => rfl
    | some l =>
      have := hinv.alive o l hg
      rw [hd] at this; exact absurd this (by simp)
  refine ⟨hnone, ?_, hc⟩
  intro ev x hx he
  obtain ⟨xr, xm⟩ := x
  simp only at he; subst he
  have := (hinv.inverse xr ev xm).mp hx
  simp [hl, hnone] at this

/-- No callback is ever invoked with a missing (`None`) receiver — also when handlers disappear in
the middle of a dispatch because an earlier callback of the same event dropped them (`dispatch`
skips dead referents, events.py:113-121). -/
theorem C10_no_none_receiver (U : Universe) (hU : U.WF) (held hints : List Obj) (fuel : Nat)
    (ops : List Op) (m a : String) :
    Entry.cb none m a ∉ (run U fuel (init held hints) ops).log :=
  (top_state hU held hints fuel ops).2.2.2.2 m a

/-! non-vacuity: listener 1's callback drops listener 0 in the middle of the dispatch; 0 is skipped -/
private def exU : Universe :=
  { mapping := fun o => if o < 2 then some [("e0", "m0")] else none,
    reaction := fun o _ k => if o = 1 ∧ k = 0 then [.remove 0, .drop 0] else [] }

example :
    let s := run exU 100 (init [0, 1] [1]) [.add 0, .add 1, .dispatch "e0" "7"]
    s.log = [.res .ok, .cb (some 1) "m0" "7", .res .ok, .res .ok] ∧ s.alive 0 = false ∧
    Dict.get? s.handlers 0 = none := by
  decide
