import DesperProofs.Lemmas.TreePopPersist
open Desper Desper.Tree

/-!
C11 — resource paths, shadowing and back-links stay consistent.

Model: `DesperModel/Tree.lean`, a heap of map objects and handle objects (`st.m i`, `st.h g`).
`exec {} ops` runs a history from the program's initial state (every `ResourceMap()` empty, every
handle fresh).  Histories are arbitrary lists of the model's operations: assignments with plain or
'/'-composed keys of any depth over any alphabet, values being handles or maps (empty,
pre-populated, layered), `clear`, pushing a handle scope (`layer`), reads through every spelling,
handle calls and clears, snapshots.

`Fresh ops` : no object is stored twice and stored objects are not maps created by `__setitem__`
itself.  Aliasing (one object under two names / in two maps, cycles) is *outside* the theorems
that mention `Fresh`: a single `.parent` cannot name two containers.  The correspondence check
does generate aliasing.
-/

/-- **The three spellings of a path denote the same resource.**  For a '/'-free name list
`ks ++ [last]`, after any history: (1) `m['a/b/c']` and `m['a']['b']['c']` are the same computation
(same result, same loads, same state) — except that when the composite key fails with `KeyError`
because an intermediate name is a handle, the item chain has by then called that handle and goes
on to index the loaded resource (`stuck`: outside desper) or hands on the loader's exception;
(2) when `m.get('a/b/c')` is a handle `h`, `m['a/b/c']` is `h()` (`itemOf`: the loaded resource, or
the exception of a loader that raises); when it is a map, `[]` returns that map and changes
nothing.  `F` is the loaders' script (which invocations raise), arbitrary. -/
theorem C11_path_equiv (F : HId → Nat → Bool) (ops : List Op) (m : MId) (ks : List String) (last : String)
    (hk : ∀ k ∈ ks ++ [last], NoSlash k) :
    let st := exec (init F) ops
    let key := joinKey (ks ++ [last])
    (chainItems st m (ks ++ [last]) = getItem st m key ∨
      (getItem st m key = (st, .raised "KeyError") ∧
        ((chainItems st m (ks ++ [last])).2 = .stuck ∨
         (chainItems st m (ks ++ [last])).2 = .raised "LoadError"))) ∧
    (∀ h, Desper.Tree.get st m key = some (.handle h) →
      getItem st m key = ((callH st h).1, itemOf (callH st h).2)) ∧
    (∀ c, Desper.Tree.get st m key = some (.map c) → getItem st m key = (st, .ok (.map c))) := by
  intro st key
  have ho : OneKind st := exec_oneKind (init F) ops (OneKind_initF F)
  have hp : keyPath key = (ks, last) := keyPath_joinKey ks last hk
  simp only [getItem, Desper.Tree.get, hp]
  refine ⟨getItemPath_chain st ho m ks last, fun h hg => ?_, fun c hg => ?_⟩
  · simp only [getPath] at hg
    simp only [getItemPath]
    cases hw : walk st m ks with
    | none => rw [hw] at hg; cases hg
    | some t =>
      rw [hw] at hg
      simp only [lookup] at hg
      cases hl : chainGet? (st.m t).layers last with
      | none => rw [hl] at hg; simp at hg
      | some g =>
        rw [hl] at hg; simp only [Option.some.injEq, Ref.handle.injEq] at hg; subst hg
        simp only [hl]
  · simp only [getPath] at hg
    simp only [getItemPath]
    cases hw : walk st m ks with
    | none => rw [hw] at hg; cases hg
    | some t =>
      rw [hw] at hg
      simp only [lookup] at hg
      cases hl : chainGet? (st.m t).layers last with
      | some g => rw [hl] at hg; simp at hg
      | none =>
        rw [hl] at hg
        simp only [Option.map_eq_some_iff, Ref.map.injEq] at hg
        obtain ⟨c', h1, rfl⟩ := hg
        simp only [hl, h1]

example : (chainItems (exec {} [.set (.decl 0) "a/b" (.handle 0)]) (.decl 0) ["a", "b"]).2
    = .ok (.val (.tok 0 1)) ∧
    (getItem (exec {} [.set (.decl 0) "a/b" (.handle 0)]) (.decl 0) "a/b").2 = .ok (.val (.tok 0 1)) := by
  decide

/-- **`get` returns its default exactly when `[]` raises `KeyError`** — in every state of the
heap whatsoever (reachable or not), for every key string. -/
theorem C11_get_default_iff_keyerror (st : St) (m : MId) (key : String) :
    Desper.Tree.get st m key = none ↔ (getItem st m key).2 = .raised "KeyError" := by
  simp only [Desper.Tree.get, getItem, getPath, getItemPath, lookup]
  cases walk st m (keyPath key).1 with
  | none => simp
  | some t =>
    simp only []
    cases chainGet? (st.m t).layers (keyPath key).2 with
    | some g => cases hx : (callH st g).2 <;> simp [itemOf, hx]
    | none =>
      cases Dict.get? (st.m t).maps (keyPath key).2 <;> simp

example : Desper.Tree.get (exec {} [.set (.decl 0) "h" (.handle 0)]) (.decl 0) "h/x" = none ∧
    (getItem (exec {} [.set (.decl 0) "h" (.handle 0)]) (.decl 0) "h/x").2 = .raised "KeyError" := by
  decide

/-- **A rejected assignment changes nothing.**  `m[key] = value` with a key that is not a string or
a value that is neither a map nor a handle is refused (`AssertionError`, tree.py:225-228) before
anything is touched: in every state the whole state — every map, every layer, every back-link —
is as before, so the latest *accepted* assignment still wins and every other theorem of this file
goes through histories that contain rejected assignments (`Op.reject`) unchanged. -/
theorem C11_rejected_noop (st : St) (m : MId) :
    step st (.reject m) = (st, .res (.raised "AssertionError")) ∧
    ∀ ops, exec st (.reject m :: ops) = exec st ops := ⟨rfl, fun _ => rfl⟩

example : (exec {} [.set (.decl 0) "gfx/player" (.handle 0), .reject (.decl 0)]).m (.anon 0)
    = (exec {} [.set (.decl 0) "gfx/player" (.handle 0)]).m (.anon 0) ∧
    Desper.Tree.get (exec {} [.set (.decl 0) "gfx/player" (.handle 0), .reject (.decl 0)]) (.decl 0)
      "gfx/player" = some (.handle 0) := by decide

/-- **The latest assignment wins.**  After a Fresh history, assign `v` under the '/'-free names
`ps ++ [last]` of a root map `m` (a map the program created and that is stored nowhere).  Then
(1) `m.get(key)` is `v`;  (2) every proper prefix of the key denotes a sub-map (whatever it
denoted before: a handle of that name, visible or shadowed, has been replaced);  (3) nothing else
changed: a (map object, name) pair that is not on the path of the key denotes what it denoted
before;  (4) the same per path: a key that is not comparable with the assigned key (neither is a
prefix of the other, `Indep`) and denoted `w` still denotes `w` (when the value is not the root
itself).  In a heap, (3) — per map object — is the stronger and the right notion (with sharing,
two paths can reach one map); (4) is what it means for the tree below a root.
Without the root hypothesis (1) is false in the real code too: after `m['a'] = m`,
`m['a/a'] = h` replaces the entry the walk went through and `m.get('a/a')` is the default. -/
theorem C11_last_assignment_wins (F : HId → Nat → Bool) (ops : List Op) (n : Nat) (ps : List String) (last : String) (v : Ref)
    (hk : ∀ k ∈ ps ++ [last], NoSlash k)
    (hf : Fresh (ops ++ [.set (.decl n) (joinKey (ps ++ [last])) v]))
    (hroot : ((exec (init F) ops).m (.decl n)).parent = none) :
    let st := exec (init F) ops
    let st' := setItem st (.decl n) (joinKey (ps ++ [last])) v
    Desper.Tree.get st' (.decl n) (joinKey (ps ++ [last])) = some v ∧
    (∀ pre k suf, ps = pre ++ k :: suf →
      ∃ c, Desper.Tree.get st' (.decl n) (joinKey (pre ++ [k])) = some (.map c)) ∧
    (∀ j k, (j, k) ∉ walkEntries st' (.decl n) (ps ++ [last]) → lookup st' j k = lookup st j k) ∧
    (v ≠ .map (.decl n) → ∀ P pl w, Indep (P ++ [pl]) (ps ++ [last]) →
      getPath st (.decl n) P pl = some w → getPath st' (.decl n) P pl = some w) := by
  intro st st'
  have hp : keyPath (joinKey (ps ++ [last])) = (ps, last) := keyPath_joinKey ps last hk
  -- the state after the loop over keys[:-1] (st1) and the target map (t)
  have hst' : st' = assign (descend st (.decl n) ps).1 (descend st (.decl n) ps).2 last v := by
    simp only [st', setItem, setItemPath, hp]
  have hg : Good st [.set (.decl n) (joinKey (ps ++ [last])) v] := exec_good (init F) ops _ hf ((Good_initF F _))
  obtain ⟨d1, _⟩ := descend_links st (.decl n) ps hg.1
  have hw1 := walk_descend st (.decl n) ps
  have hroot1 := descend_root st (.decl n) ps n hroot
  have hnr := walk_no_revisit _ d1 (.decl n) hroot1 ps _ hw1 last
  have hsm := assign_sameMaps (descend st (.decl n) ps).1 (descend st (.decl n) ps).2 last v
  have hw' : walk st' (.decl n) ps = some (descend st (.decl n) ps).2 := by
    rw [hst', walk_congr _ _ _ hsm _ _ hnr]; exact hw1
  have ho' : OneKind st' := setItem_oneKind _ _ _ _ (exec_oneKind (init F) ops (OneKind_initF F))
  refine ⟨?_, fun pre k suf hps => ?_, fun j k hjk => ?_, fun hne P pl w hind hget => ?_⟩
  rotate_left 3
  · -- the path form: what an independent key denoted, it still denotes
    have hdec : v.declared = true := hf.2 v (by rw [valuesOf_append]; simp [valuesOf])
    have hnl : NoLoc st v := hg.2 v (by simp [valuesOf])
    rw [hst']
    exact setItemPath_persist st n ps last v hg.1 (exec_oneKind (init F) ops (OneKind_initF F)) hroot hnl
      (Or.inl hdec) hne P pl w hind hget
  · simp only [Desper.Tree.get, hp, getPath, hw']
    rw [hst']; exact lookup_assign_self _ _ _ _
  · have hk' : ∀ x ∈ pre ++ [k], NoSlash x := by
      intro x hx
      refine hk x ?_
      rw [hps]
      simp only [List.mem_append, List.mem_cons, List.not_mem_nil, or_false] at hx ⊢
      rcases hx with hx | hx
      · exact Or.inl (Or.inl hx)
      · exact Or.inl (Or.inr (Or.inl hx))
    have hp' : keyPath (joinKey (pre ++ [k])) = (pre, k) := keyPath_joinKey pre k hk'
    rw [hps, walk_append] at hw'
    cases hx : walk st' (.decl n) pre with
    | none => rw [hx] at hw'; cases hw'
    | some x =>
      rw [hx] at hw'
      simp only [Option.bind_some, walk] at hw'
      cases hc : Dict.get? (st'.m x).maps k with
      | none => rw [hc] at hw'; cases hw'
      | some c =>
        refine ⟨c, ?_⟩
        simp only [Desper.Tree.get, hp', getPath, hx, lookup]
        rw [ho' x k (by rw [hc]; simp), hc]; rfl
  · rw [walkEntries_snoc _ _ _ _ _ hw'] at hjk
    simp only [List.mem_append, List.mem_singleton, not_or] at hjk
    have e1 : walkEntries st' (.decl n) ps = walkEntries (descend st (.decl n) ps).1 (.decl n) ps := by
      rw [hst']; exact walkEntries_congr _ _ _ hsm _ _ hnr
    rw [e1] at hjk
    rw [hst', lookup_assign_other _ _ _ _ _ _ hjk.2]
    exact lookup_descend_other st (.decl n) ps j k hjk.1

example : Desper.Tree.get (exec {} [.set (.decl 0) "a" (.handle 0), .layer (.decl 0),
    .set (.decl 0) "a" (.handle 1), .set (.decl 0) "a/b" (.handle 2)]) (.decl 0) "a/b"
    = some (.handle 2) := by decide

/-- **Under one map a name denotes either a handle or a sub-map** — after every history, with or
without aliasing: a name that has a sub-map has no handle in any layer of `handles`. -/
theorem C11_one_kind (F : HId → Nat → Bool) (ops : List Op) (i : MId) (k : String) :
    let st := exec (init F) ops
    Dict.get? (st.m i).maps k ≠ none → ∀ l ∈ (st.m i).layers, Dict.get? l k = none := by
  intro st hk
  have := exec_oneKind (init F) ops (OneKind_initF F) i k hk
  rwa [chainGet_none] at this

example : (exec {} [.set (.decl 0) "x" (.handle 0), .layer (.decl 0), .set (.decl 0) "x" (.handle 1),
    .set (.decl 0) "x" (.map (.decl 1))]).m (.decl 0)
    = { maps := [("x", .decl 1)], layer0 := [], lower := [[]] } := by decide

/-- **Every map or handle in the tree records the map containing it and the name it is stored
under**, after every Fresh history: (1) every sub-map entry of every map object, hence every map
reachable through any path, including the maps `__setitem__` created for intermediate key parts;
(2) every handle in every layer of `handles` (visible or shadowed);  (3) the path form. -/
theorem C11_backlinks (F : HId → Nat → Bool) (ops : List Op) (hf : Fresh ops) :
    let st := exec (init F) ops
    (∀ i k c, Dict.get? (st.m i).maps k = some c → (st.m c).parent = some i ∧ (st.m c).key = some k) ∧
    (∀ i l k g, l ∈ (st.m i).layers → Dict.get? l k = some g →
      (st.h g).parent = some i ∧ (st.h g).key = some k) ∧
    (∀ m ps k i, walk st m ps = some i →
      (∀ c, getPath st m ps k = some (.map c) → (st.m c).parent = some i ∧ (st.m c).key = some k) ∧
      (∀ g, getPath st m ps k = some (.handle g) → (st.h g).parent = some i ∧ (st.h g).key = some k)) := by
  intro st
  have hg : Good st [] := by
    have := exec_good (init F) ops [] (by simpa using hf) ((Good_initF F _))
    exact this
  refine ⟨hg.1.maps, hg.1.handles, fun m ps k i hw => ⟨fun c hc => ?_, fun g hc => ?_⟩⟩
  · simp only [getPath, hw, lookup] at hc
    cases hl : chainGet? (st.m i).layers k with
    | some g => rw [hl] at hc; simp at hc
    | none =>
      rw [hl] at hc
      simp only [Option.map_eq_some_iff, Ref.map.injEq] at hc
      obtain ⟨c', h1, rfl⟩ := hc
      exact hg.1.maps i k c' h1
  · simp only [getPath, hw, lookup] at hc
    cases hl : chainGet? (st.m i).layers k with
    | none => rw [hl] at hc; simp at hc
    | some g' =>
      rw [hl] at hc
      simp only [Option.some.injEq, Ref.handle.injEq] at hc
      subst hc
      obtain ⟨l, h1, h2⟩ := chainGet_some _ _ _ hl
      exact hg.1.handles i l k g' h1 h2

example : ((exec {} [.set (.decl 0) "a/b/c" (.handle 0)]).m (.anon 1)).parent = some (.anon 0) ∧
    ((exec {} [.set (.decl 0) "a/b/c" (.handle 0)]).m (.anon 0)).parent = some (.decl 0) ∧
    Fresh [.set (.decl 0) "a/b/c" (.handle 0)] := by decide

/-- **`clear()` leaves nothing reachable in the map and detaches its former direct children.**
After a Fresh history, `clear` of any map `i`: no sub-maps, a single empty layer of handles,
every `get` answers the default; every former direct child — sub-map, visible handle, shadowed
handle in a lower layer — has `parent = None` and `key = None`. -/
theorem C11_clear (F : HId → Nat → Bool) (ops : List Op) (hf : Fresh ops) (i : MId) :
    let st := exec (init F) ops
    let st' := exec (init F) (ops ++ [.clear i])
    (st'.m i).maps = [] ∧ (st'.m i).layers = [[]] ∧ (∀ key, Desper.Tree.get st' i key = none) ∧
    (∀ k c, Dict.get? (st.m i).maps k = some c → (st'.m c).parent = none ∧ (st'.m c).key = none) ∧
    (∀ l ∈ (st.m i).layers, ∀ k g, Dict.get? l k = some g →
      (st'.h g).parent = none ∧ (st'.h g).key = none) := by
  intro st st'
  have e : st' = clearMap st i := by simp only [st', exec_append]; rfl
  have hg : Good st [] := exec_good (init F) ops [] (by simpa using hf) ((Good_initF F _))
  have hm := clearMap_m st i i
  simp only [if_true] at hm
  refine ⟨by rw [e]; exact hm.1, by rw [e]; exact hm.2.1, fun key => ?_, fun k c hc => ?_,
    fun l hl k g hgk => ?_⟩
  · rw [e]
    simp only [Desper.Tree.get, getPath]
    cases hps : (keyPath key).1 with
    | nil => simp [walk, lookup, hm.1, hm.2.1, chainGet?]
    | cons k0 ks => simp [walk, hm.1]
  · have hp := (hg.1.maps i k c hc).1
    have hmem : c ∈ childMaps st i := dget_mem_values _ k c hc
    rw [e, (clearMap_m st i c).2.2.1, (clearMap_m st i c).2.2.2]
    simp [hmem, hp]
  · have hp := (hg.1.handles i l k g hl hgk).1
    have hmem : g ∈ childHandles st i := by
      simp only [childHandles, List.mem_flatMap]
      exact ⟨l, hl, dget_mem_values _ k g hgk⟩
    rw [e, (clearMap_h st i g).1, (clearMap_h st i g).2]
    simp [hmem, hp]

example : let st' := exec {} [.set (.decl 0) "x" (.handle 0), .layer (.decl 0),
    .set (.decl 0) "x" (.handle 1), .set (.decl 0) "s/y" (.handle 2), .clear (.decl 0)]
    (st'.h 0).parent = none ∧ (st'.h 1).parent = none ∧ (st'.m (.anon 0)).parent = none ∧
    (st'.h 2).parent = some (.anon 0) ∧ (st'.m (.decl 0)).layers = [[]] := by decide

/-- **`clear()` with re-entrant user code** (`clearR`: `parent` / `key` setters of user subclasses run
scripts `S` that use the tree again while the map is being cleared).  Whatever the scripts do, a
`clear()` that returns leaves the map empty: no sub-map, a single empty layer of handles, every
`get` answers the default.  (A `clear()` during which user code changes the size of the dictionary
being iterated raises `RuntimeError`, as Python dictionaries do; the state it leaves is the model's
`clearR` result, checked by the correspondence run.)
Partial: that every child — those added by the scripts while the map is being cleared included —
ends up detached is proved for programs without re-entrant user code (`C11_clear`); for the
re-entrant semantics it is covered by the correspondence run and the oracle only. -/
theorem C11_clear_reentrant_partial (S : Scripts) (fuel : Nat) (rs rs' : RSt) (i : MId)
    (h : clearR S fuel rs i = (rs', .ok ())) :
    (rs'.st.m i).maps = [] ∧ (rs'.st.m i).layers = [[]] ∧ ∀ key, Desper.Tree.get rs'.st i key = none := by
  cases fuel with
  | zero => simp [clearR] at h
  | succ fuel =>
    simp only [clearR] at h
    rcases h1 : clearLayersR S fuel rs i 0 with ⟨a, o⟩
    rw [h1] at h
    cases o with
    | raised e => simp at h
    | stuck => simp at h
    | ok u =>
      simp only at h
      rcases h2 : clearMapsR S fuel a i 0 (a.st.m i).maps.length with ⟨b, o2⟩
      rw [h2] at h
      cases o2 with
      | raised e => simp at h
      | stuck => simp at h
      | ok u2 =>
        simp only [Prod.mk.injEq, and_true] at h
        subst h
        refine ⟨by simp, by simp [layers_def], fun key => ?_⟩
        simp only [Desper.Tree.get, getPath]
        cases hps : (keyPath key).1 with
        | nil => simp [walk, lookup, chainGet?, layers_def]
        | cons k0 ks => simp [walk]

example :
    let S : Scripts := fun hk k =>
      if hk = .parent (.handle 0) ∧ k = 1 then [.set (.decl 0) "unloaded/x" (.handle 5)] else []
    let rs1 := (stepR S 60 {} (.set (.decl 0) "x" (.handle 0))).1
    let r := clearR S 60 rs1 (.decl 0)
    r.2 = .ok () ∧ (r.1.st.m (.decl 0)).maps = [] ∧ (r.1.st.m (.anon 0)).parent = none ∧
    (r.1.st.h 5).parent = some (.anon 0) := by decide +kernel

/-- **Back-links and one kind per name in trees built by the populator.**  The populator model
(`Desper.Pop.populate`, C16) builds every map and handle through this model's `setItem`; whenever a
population — any rules, any listings, any options — of a tree satisfying the invariant (the empty
map does, `PopInv_init`; every earlier population keeps it) completes, every sub-map entry and every
handle in every layer of the resulting tree records its container and its name (maps made for
directories and for intermediate key parts included), and no name is both a sub-map and a handle. -/
theorem C11_populated_backlinks (ps ps' : Desper.Pop.PSt) (n : Nat) (nest trim : Bool)
    (rules : List (Desper.Pop.Rule × Desper.Pop.Status))
    (hi : Desper.Pop.PopInv ps n) (hn : Desper.Pop.AllNamesOk rules)
    (hok : Desper.Pop.populate ps (.decl n) nest trim rules = (ps', .ok)) :
    (∀ i k c, Dict.get? (ps'.tree.m i).maps k = some c →
      (ps'.tree.m c).parent = some i ∧ (ps'.tree.m c).key = some k) ∧
    (∀ i l k g, l ∈ (ps'.tree.m i).layers → Dict.get? l k = some g →
      (ps'.tree.h g).parent = some i ∧ (ps'.tree.h g).key = some k) ∧
    (∀ i k, Dict.get? (ps'.tree.m i).maps k ≠ none → ∀ l ∈ (ps'.tree.m i).layers, Dict.get? l k = none) := by
  have inv := (Desper.Pop.populate_inv_persist ps n nest trim rules hi hn ps' hok).1
  refine ⟨inv.links.maps, inv.links.handles, fun i k hk => ?_⟩
  have := inv.one i k hk
  rwa [chainGet_none] at this

example :
    let rule : Desper.Pop.Rule := { dir := ["r"], factory := 0, args := "-", exts := [] }
    let l : List Desper.Pop.Entry := [(["r"], true), (["r", "a1"], true), (["r", "a1", "x.txt"], false)]
    let ps1 := (Desper.Pop.populate {} (.decl 0) true false [(rule, .dir l)]).1
    (ps1.tree.m (.anon 1)).parent = some (.anon 0) ∧ (ps1.tree.m (.anon 0)).parent = some (.decl 0) ∧
    (ps1.tree.h 0).parent = some (.anon 1) := by decide
