import DesperProofs.Lemmas.TreeC12
open Desper Desper.Tree

/-!
C12 — a handle loads its resource at most once between clears.

The model is `DesperModel/Tree.lean`: `callH` is `Handle.__call__`, `clearH` is `Handle.clear`,
`cachedH` is `Handle.cached`; `step` lists every operation of the model, among them every access
path to a resource: `h()` (`.call`), `m['a/b']` (`.getitem`), `m['a']['b']` (`.chain`), item and
attribute chains on a static map (`.sitems`), and the operations that must not load
(`.get`, `.sget`, `.cached`, assignments, `clear`, `get_static_map`).  Histories start from the
program's initial state `init F` (every map empty, every handle fresh), where `F h k` says whether
the k-th invocation of `load()` of handle `h` raises (an arbitrary loader script; `{}` is the
script in which no loader ever raises).  `loads` counts the invocations of `load()` that returned,
`tries` all of them.  Loaded resources are opaque tokens `Val.tok h n` = "the object returned by
the n-th `load()` of `h` that returned"; `Val.exc h k` is not a value but the exception of the k-th
invocation leaving the access.  The model has no operation that inspects a resource (no
truthiness, no equality).
-/

/-- **At most one load between two clears, through every access path.**  Over a history `seg`
(any operations of the model, arbitrarily interleaved, on any tree) that contains no `h.clear()`,
run after an arbitrary history `pre`, at most one `load()` of `h` returns (loaders that raise
included: an invocation that raises caches nothing and is not counted in `loads`). -/
theorem C12_at_most_once (F : HId → Nat → Bool) (pre seg : List Op) (h : HId) (hc : Op.hclear h ∉ seg) :
    ((exec (exec (init F) pre) seg).h h).loads ≤ ((exec (init F) pre).h h).loads + 1 := by
  have cs := exec_step (exec (init F) pre) seg h (exec_inv (init F) pre (HInv_initF F)) hc
  rcases cs with cs | ⟨_, cs⟩ <;> simp only [cell, Prod.mk.injEq] at cs <;> omega

example : ((exec (exec {} [.set (.decl 0) "a/b" (.handle 0)])
    [.getitem (.decl 0) "a/b", .call 0, .chain (.decl 0) ["a", "b"]]).h 0).loads = 1 := by decide

/-- **Every access returns the identical object.**  All resources of `h` handed out by the
accesses of a clear-free history (`valOf` picks the loaded resource out of the result of `h()`,
`m[...]`, `m[..][..]`, `static[..]`/`static.attr`) are the same object `tok h a`; it is the one
produced by the load that is current at the end of the history, and `h` is cached. -/
theorem C12_same_object (F : HId → Nat → Bool) (pre seg : List Op) (h : HId) (a b : Nat) (hc : Op.hclear h ∉ seg)
    (ha : Val.tok h a ∈ (run (exec (init F) pre) seg).2.filterMap valOf)
    (hb : Val.tok h b ∈ (run (exec (init F) pre) seg).2.filterMap valOf) :
    a = b ∧ a = ((exec (exec (init F) pre) seg).h h).loads ∧
      ((exec (exec (init F) pre) seg).h h).cache = Val.tok h a := by
  have hi := exec_inv (init F) pre (HInv_initF F)
  have ra := run_vals _ seg h a hi hc ha
  have rb := run_vals _ seg h b hi hc hb
  refine ⟨ra.1.trans rb.1.symm, ra.1, ?_⟩
  have := exec_inv _ seg hi h ra.2
  rw [this, ← ra.1]

example : (run (exec {} [.set (.decl 0) "a/b" (.handle 0), .snap (.decl 0)])
    [.getitem (.decl 0) "a/b", .call 0, .sitems 1 ["a", "b"]]).2.filterMap valOf
    = [.tok 0 1, .tok 0 1, .tok 0 1] := by decide

/-- **`cached` tells whether the next access will load.**  (1) While `h.cached` is true no
operation at all makes `h` load.  (2) While it is false, an access loads: `h()` does (given
that this invocation of the loader does not raise; `C12_failed_load_retry` is the other case), and
so does every path access that reaches `h` — `m[key]` when `m.get(key)` is `h` is exactly `h()`
(3), and so is one step of an item / attribute chain on a static map when the snapshot has `h`
under that name (4) (`itemOf` hands on the resource, or the loader's exception). -/
theorem C12_cached_iff (F : HId → Nat → Bool) (pre : List Op) (h : HId) :
    let st := exec (init F) pre
    (cachedH st h = true → ∀ op, ((step st op).1.h h).loads = (st.h h).loads) ∧
    (cachedH st h = false → st.failing h ((st.h h).tries + 1) = false →
        ((callH st h).1.h h).loads = (st.h h).loads + 1 ∧ cachedH (callH st h).1 h = true) ∧
    (∀ i key, get st i key = some (.handle h) →
        getItem st i key = ((callH st h).1, itemOf (callH st h).2)) ∧
    (∀ s k, (st.s s).handleNames.contains k = true → sGet1 st s k = some (.handle h) →
        sGetAttr1 st s k = ((callH st h).1, itemOf (callH st h).2)) := by
  intro st
  have hi : HInv st := exec_inv (init F) pre (HInv_initF F)
  refine ⟨fun hc op => ?_, fun hc hf => ?_, fun i key hg => ?_, fun s k hn hg => ?_⟩
  · by_cases e : op = .hclear h
    · subst e; simp [step, clearH]
    · rcases (step_props st op hi).1 h e with cs | ⟨cs, _⟩
      · simp only [cell, Prod.mk.injEq] at cs; exact cs.2.2
      · simp only [cachedH] at hc; rw [hc] at cs; cases cs
  · simp only [cachedH] at hc
    simp [callH, hc, hf, cachedH]
  · simp only [Desper.Tree.get, getPath] at hg
    simp only [getItem, getItemPath]
    cases hw : walk st i (keyPath key).1 with
    | none => rw [hw] at hg; cases hg
    | some t =>
      rw [hw] at hg
      simp only [lookup] at hg
      simp only []
      cases hl : chainGet? (st.m t).layers (keyPath key).2 with
      | none => rw [hl] at hg; simp at hg
      | some g => rw [hl] at hg; simp only [Option.some.injEq, Ref.handle.injEq] at hg; subst hg; rfl
  · simp only [sGet1] at hg
    simp only [sGetAttr1, hn, if_true, hg]

example : cachedH (exec {} [.call 3, .hclear 3]) 3 = false ∧ cachedH (exec {} [.call 3]) 3 = true := by
  decide

/-- **After `clear()` the next access loads afresh.**  Whatever happened before, right after
`h.clear()` the handle is not cached; the next access runs `load()` once more and (unless that
invocation raises) hands out a new object: its token is different from every token handed out
before (its load number is larger than the load counter ever was). -/
theorem C12_clear_reloads (F : HId → Nat → Bool) (pre : List Op) (h : HId) :
    let st := exec (init F) (pre ++ [.hclear h])
    cachedH st h = false ∧
    (st.failing h ((st.h h).tries + 1) = false →
      ((callH st h).1.h h).loads = ((exec (init F) pre).h h).loads + 1 ∧
      (callH st h).2 = Val.tok h (((exec (init F) pre).h h).loads + 1)) ∧
    (∀ a, Val.tok h a ∈ (run (init F) pre).2.filterMap valOf → a < ((exec (init F) pre).h h).loads + 1) := by
  intro st
  have e : st = clearH (exec (init F) pre) h := by
    simp only [st, exec_append]; rfl
  have hcached : (st.h h).cached = false := by rw [e]; simp [clearH]
  have hloads : (st.h h).loads = ((exec (init F) pre).h h).loads := by rw [e]; simp [clearH]
  refine ⟨hcached, fun hf => ?_, ?_⟩
  · simp [callH, hcached, hloads, hf]
  · intro a ha
    -- a token handed out earlier carries a load number that the counter had reached
    have := run_vals_le (init F) pre h a (HInv_initF F) ha
    omega

example : (callH (exec {} [.call 0, .hclear 0]) 0).2 = Val.tok 0 2 := by decide

/-- **A load that raises leaves the handle un-cached, and the next access loads again.**  In any
reachable state, for an un-cached handle whose next `load()` invocation raises: the access hands
the exception on (`h()` gives `Val.exc`, `m[key]` raises it) and leaves the cache cell exactly as it
was — not cached, same stored value, `loads` unchanged; only the invocation counter moved.  The
following access invokes `load()` again and, if that invocation returns, caches and hands out its
object. -/
theorem C12_failed_load_retry (F : HId → Nat → Bool) (pre : List Op) (h : HId) :
    let st := exec (init F) pre
    cachedH st h = false → st.failing h ((st.h h).tries + 1) = true →
    (callH st h).2 = Val.exc h ((st.h h).tries + 1) ∧
    cell (callH st h).1 h = cell st h ∧ ((callH st h).1.h h).tries = (st.h h).tries + 1 ∧
    (∀ i key, Desper.Tree.get st i key = some (.handle h) →
      (getItem st i key).2 = .raised "LoadError") ∧
    ((callH st h).1.failing h ((st.h h).tries + 2) = false →
      (callH (callH st h).1 h).2 = Val.tok h ((st.h h).loads + 1) ∧
      cachedH (callH (callH st h).1 h).1 h = true) := by
  intro st hc hf
  simp only [cachedH] at hc
  have e : callH st h = (st.setH h { st.h h with tries := (st.h h).tries + 1 }, Val.exc h ((st.h h).tries + 1)) := by
    simp [callH, hc, hf]
  refine ⟨by rw [e], by rw [e]; simp [cell], by rw [e]; simp, fun i key hg => ?_, fun hf2 => ?_⟩
  · have := (C12_cached_iff F pre h).2.2.1 i key hg
    rw [this, e]; rfl
  · rw [e] at hf2 ⊢
    have hf2' : st.failing h ((st.h h).tries + 1 + 1) = false := hf2
    simp [callH, hc, hf2', cachedH]

example :
    let st0 : St := init (fun h k => h == 0 && k == 1)
    (callH st0 0).2 = Val.exc 0 1 ∧ cachedH (callH st0 0).1 0 = false ∧
    (callH (callH st0 0).1 0).2 = Val.tok 0 1 ∧
    (run st0 [.set (.decl 0) "a" (.handle 0), .getitem (.decl 0) "a", .getitem (.decl 0) "a"]).2
      = [.unit, .item (.raised "LoadError"), .item (.ok (.val (.tok 0 1)))] := by decide


/-- **A loader that uses the resource tree while it loads** (re-entrant semantics `callHR`, user code
as scripts `S`).  Whatever the script of this `load()` does — read other resources (nested loads),
clear this very handle or a sibling or the whole map, assign into the map, take a snapshot — when
`load()` returns, the handle holds the returned object and is cached: the access hands out
`tok h n`, `n` being the number of loads of `h` that have returned by then, and `h.cached` is true
(a `clear()` issued *during* the load is overridden by the assignment that follows it in
`Handle.__call__`, tree.py:43-44).  This is what the unchanged code does; the statements above are
about programs without re-entrant user code. -/
theorem C12_reentrant_load_caches (S : Scripts) (fuel : Nat) (rs : RSt) (h : HId)
    (hc : (rs.st.h h).cached = false) (hf : rs.st.failing h ((rs.st.h h).tries + 1) = false) :
    ∃ n, (callHR S (fuel + 1) rs h).2 = Val.tok h n ∧
      ((callHR S (fuel + 1) rs h).1.st.h h).cached = true ∧
      ((callHR S (fuel + 1) rs h).1.st.h h).cache = Val.tok h n ∧
      ((callHR S (fuel + 1) rs h).1.st.h h).loads = n := by
  simp only [callHR, hc, Bool.false_eq_true, if_false, failing_setH, hf]
  exact ⟨_, rfl, by simp, by simp, by simp⟩

example :
    let S : Scripts := fun hk k => if hk = .load 0 ∧ k = 0 then [.hclear 0, .call 1] else []
    let r := callHR S 50 {} 0
    r.2 = Val.tok 0 1 ∧ (r.1.st.h 0).cached = true ∧ (r.1.st.h 1).loads = 1 ∧
    (callHR S 50 r.1 0).2 = Val.tok 0 1 := by decide +kernel

/-- Without scripts the re-entrant call is the plain one (same result, same handles, same maps). -/
theorem C12_no_scripts_same (fuel : Nat) (rs : RSt) (h : HId) :
    (callHR (fun _ _ => []) (fuel + 2) rs h).2 = (callH rs.st h).2 ∧
    (∀ g, (callHR (fun _ _ => []) (fuel + 2) rs h).1.st.h g = (callH rs.st h).1.h g) ∧
    (∀ j, (callHR (fun _ _ => []) (fuel + 2) rs h).1.st.m j = (callH rs.st h).1.m j) := by
  by_cases hc : (rs.st.h h).cached = true
  · simp [callHR, callH, hc]
  · by_cases hf : rs.st.failing h ((rs.st.h h).tries + 1) = true
    · simp [callHR, callH, hc, hf]
    · simp only [callHR, callH, hc, hf, failing_setH, fire, execOpsR_nil, Bool.false_eq_true, if_false]
      refine ⟨by simp, fun g => ?_, fun j => by simp⟩
      by_cases e : h = g
      · subst e; simp
      · simp [e]
