import DesperProofs.Lemmas.LoopExamples
open Desper Desper.Loop

/-
  C13 — World switching delivers in/out events to the worlds that run.

  Model: `DesperModel/Loop.lean` (it mirrors `desper/loop.py` after the `fix:` commits D15, D16, D25).
  Vocabulary (definitions in `Lemmas/Loop*.lean`):
    `WF s`            world instances are named by load numbers (holds in every reachable state:
                      `run_idle`, `idle_init`);
    `Muted j q0 s`    world `j` exists, has dispatching disabled and holds `q0 ++ …`;
    `PrecIn j ext`    every entry of world `j` in the log segment `ext` (newest first) has the marker
                      `enter j` (the loop made `j` its current world) before it;
    `heldLog i q`     the deliveries of the held events `q` in world `i`, in order;
    `procIdx ext`     the processor numbers of the `proc` entries of `ext`, oldest first.
  All statements hold for every fuel (nesting depth of callbacks); where a hypothesis says that a
  callback "returns normally" it is `U.react n = .none` for the delivery numbers concerned — a callback
  that raises aborts `switch()` like any exception does and the property does not speak about it.

  D26 (known finding): `switch()` recognises "the target handle is the handle being left" by comparing
  worlds (`target_handle() is from_world`).  When the on_switch_out callback of a clearing switch to
  the own handle raises or switches itself, the handle no longer holds the running world; a later
  `switch(own handle, clear_current=True)` is then not recognised, `Loop.switch` clears the prepared
  instance and on_switch_in is lost.  The three theorems that need the guard `Coherent`-style
  hypothesis `hcoh` are named `…_partial`; `C13_guard_needed` shows the guard cannot be dropped.
-/

/-- A switch request abandons the frame: the iteration goes straight to serving the request, only an
initial segment of the frame's processors was called, and once the request is served the next
frame's `process` goes to the world the current handle yields (the requested handle, unless a
callback released on entry requested another switch), with the delta measured from this frame's
reading (`r` is the reading of the installed time function). -/
theorem C13_abandon (U : Universe) (fuel : Nat) (s s1 : St) (f : Frame) (i : Inst) (h : Handle)
    (cc cn : Bool) (wf : WF s) (hcur : s.current = some i)
    (hp : processWorld U fuel (tickSt s (readingOf s.clock f)) i
      (dtOf s.last (readingOf s.clock f)) f.acts = (s1, .raised (.switch h cc cn))) :
    loopStep U fuel s f = handleSwitch U fuel fuel s1 h cc cn ∧
    (∃ ext m, s1.log = ext ++ .frame i (dtOf s.last (readingOf s.clock f)) ::
        .tick (readingOf s.clock f) :: s.log ∧
      procIdx ext = List.range m ∧ 0 < m ∧ m ≤ (U.procs i.h).length) ∧
    (∀ s2, handleSwitch U fuel fuel s1 h cc cn = (s2, .ok) →
      s2.last = some (readingOf s.clock f) ∧
      ∃ h' n, s2.currentHandle = some h' ∧ s2.cache h' = some n ∧ s2.current = some ⟨h', n⟩ ∧
        ∀ f' : Frame, ∃ ext', (loopStep U fuel s2 f').1.log
          = ext' ++ .frame ⟨h', n⟩ (readingOf s2.clock f' - readingOf s.clock f) ::
              .tick (readingOf s2.clock f') :: s2.log) ∧
    (∀ s2, simpleSwitch U fuel s1 h cc cn = (s2, .ok) → s2.currentHandle = some h) := by
  have wf0 := tickSt_wf (readingOf s.clock f) wf
  obtain ⟨wf1, _, sc1, _⟩ := processWorld_step U fuel wf0 hcur hp
  have hstep : loopStep U fuel s f = handleSwitch U fuel fuel s1 h cc cn := by
    unfold loopStep
    simp only
    split
    · rename_i hn; rw [hcur] at hn; cases hn
    · rename_i j hj; rw [hcur] at hj; cases hj; rw [hp]
  refine ⟨hstep, ?_, ?_, ?_⟩
  · obtain ⟨ext, m, h1, h2, h3, _, h5, _⟩ := processWorld_log U fuel wf0 hp
    exact ⟨ext, m, by simpa [tickSt] using h1, h2, h5 (by simp), h3⟩
  · intro s2 hs
    obtain ⟨wf2, _, sc2, _⟩ := handleSwitch_spec U fuel fuel _ _ _ _ _ _ wf1 hs
    obtain ⟨h', n, a, b, c⟩ := handleSwitch_ok U fuel fuel _ _ _ _ _ wf1 hs
    have hlast : s2.last = some (readingOf s.clock f) := by rw [sc2.last, sc1.last]; rfl
    refine ⟨hlast, h', n, a, b, c, ?_⟩
    intro f'
    cases hl : loopStep U fuel s2 f' with
    | mk s3 o3 =>
      obtain ⟨_, htr⟩ := loopStep_trace U fuel wf2 hl
      rcases htr with ⟨hn, _⟩ | ⟨j, ext1, ext2, m, hj, hlog, _⟩
      · rw [c] at hn; cases hn
      · rw [c] at hj; cases hj
        exact ⟨ext2 ++ ext1, by simp [hlog, hlast, dtOf]⟩
  · intro s2 hs
    exact (simpleSwitch_ok U fuel wf1 hs).1

example : (processWorld Ex.U 10 (tickSt Ex.s0 8) ⟨0, 1⟩ (dtOf Ex.s0.last 8)
    [.user (.switch 1 false false), .user .none]).2 = .raised (.switch 1 false false) := by decide

/-- The public method called directly: `loop.switch(h, cc, cn)` from a processor in the middle of
a frame raises nothing, so nothing is abandoned (the texts say "switch() or raising SwitchWorld"
for that) — the remaining processors of the frame still run — but the loop's current world is from
then on what the handle yields, it has been entered (its held callbacks released, `enter` marker),
and the NEXT iteration calls `process` of that world, not of the world whose frame it was. -/
theorem C13_direct_switch (U : Universe) (fuel : Nat) (s s1 : St) (h : Handle) (cc cn : Bool)
    (wf : WF s) (hp : pact U fuel s (.loopSwitch h cc cn) = (s1, .ok)) :
    s1.currentHandle = some h ∧
    ∃ n, s1.cache h = some n ∧ s1.current = some ⟨h, n⟩ ∧
      (∃ ext, s1.log = ext ++ s.log ∧ ∀ e ∈ ext, SwP e) ∧ s1.last = s.last ∧
      ∀ f' : Frame, ∃ ext', (loopStep U fuel s1 f').1.log
        = ext' ++ .frame ⟨h, n⟩ (dtOf s.last (readingOf s1.clock f')) ::
            .tick (readingOf s1.clock f') :: s1.log := by
  simp only [pact] at hp
  obtain ⟨wf1, ⟨ext, hl, hP, _⟩, sc1, _⟩ := simpleSwitch_spec U fuel wf hp
  obtain ⟨hch, n, hcache, hcur⟩ := simpleSwitch_ok U fuel wf hp
  refine ⟨hch, n, hcache, hcur, ⟨ext, hl, hP⟩, sc1.last, ?_⟩
  intro f'
  cases hl' : loopStep U fuel s1 f' with
  | mk s3 o3 =>
    obtain ⟨_, htr⟩ := loopStep_trace U fuel wf1 hl'
    rcases htr with ⟨hn, _⟩ | ⟨j, ext1, ext2, m, hj, hlog, _⟩
    · rw [hcur] at hn; cases hn
    · rw [hcur] at hj; cases hj
      exact ⟨ext2 ++ ext1, by simp [hlog, sc1.last]⟩

example : (pact Ex.U 10 Ex.s0 (.loopSwitch 1 false false)).2 = .ok := by decide

/-- `switch(h, cc, cn)` requested while world `frm` runs, with an on_switch_out callback that returns
normally: on_switch_out(frm, to) is delivered exactly once, in `frm`, with the instance `to` that
the target handle yields, before anything else happens (the only other new log entry is the load of
`to` if it was not cached); then `frm` is muted. -/
theorem C13_out_once (U : Universe) (fuel : Nat) (s s1 : St) (h : Handle) (cc cn : Bool)
    (frm to : Inst) (wfrm : World) (wf : WF s) (hcur : s.current = some frm)
    (hw : s.worlds frm = some wfrm) (hen : wfrm.enabled = true)
    (hc : callHandle U (preLoad s h cc cn) h = (s1, to))
    (hpassive : U.react s.delivered = .none) :
    ∃ s5, act U (fuel + 2) s (.switch h cc cn)
        = (s5, .raised (.switch h (cc && !restartOf s h cc) false)) ∧
      s5.log = .ev frm .switchOut (.worlds (some frm) to) :: s1.log ∧
      (s1.log = s.log ∨ s1.log = .load to :: s.log) ∧
      (frm ≠ to → Muted frm wfrm.queue s5) ∧ s5.current = s.current := by
  have wf0 : WF (preLoad s h cc cn) := by
    unfold preLoad; split
    · exact clearHandle_wf _ wf
    · exact wf
  obtain ⟨_, _, _, _, ⟨wto, hwto⟩, _⟩ := callHandle_spec U wf0 hc
  have hk : ∀ t, act U (fuel + 1) t (U.react s.delivered) = (t, .ok) := by
    intro t; rw [hpassive, act_none]
  obtain ⟨s5, hact, hlog5, _, _, _, hcur5, _, _, _, _, hwfrm5, _⟩ :=
    doSwitch_passive U (act U (fuel + 1)) wf hcur hw hen hc hwto hk
  refine ⟨s5, by simp only [act]; exact hact, hlog5, ?_, ?_, hcur5⟩
  · obtain ⟨_, _, hl⟩ := callHandle_loads U hc
    have hlog0 : (preLoad s h cc cn).log = s.log := by unfold preLoad; split <;> rfl
    rcases hl with ⟨_, h2, _⟩ | ⟨_, h2, _⟩
    · exact Or.inl (h2.trans hlog0)
    · exact Or.inr (by rw [h2, hlog0])
  · intro hne
    exact ⟨_, hwfrm5 hne, rfl, [], by simp⟩

example : Ex.s0.current = some ⟨0, 1⟩ ∧ Ex.s0.worlds ⟨0, 1⟩ = some ⟨true, [], []⟩ ∧
    (callHandle Ex.U (preLoad Ex.s0 1 true true) 1).2 = ⟨1, 1⟩ ∧
    Ex.U.react Ex.s0.delivered = .none := by decide

/-- The request is served (D26 guard `hcoh`): when the callbacks involved return normally, the loop
enters exactly the instance `to` that received on_switch_in; `to` first hears the callbacks it was
holding (its load-time callbacks if it was just loaded), in order, then on_switch_in(frm, to),
once; afterwards `to` is the current world, enabled, with nothing held.  This holds for every
combination of the clear flags, for cached and uncached targets and for a switch to the current
handle. -/
theorem C13_in_once_after_load_partial (U : Universe) (fuel k : Nat) (s s1 : St) (h : Handle)
    (cc cn : Bool) (frm to : Inst) (wfrm : World) (wf : WF s) (hcur : s.current = some frm)
    (hw : s.worlds frm = some wfrm) (hen : wfrm.enabled = true)
    (hc : callHandle U (preLoad s h cc cn) h = (s1, to))
    (hcoh : cc = true → s.currentHandle = some h →
      ∃ n, s.cache h = some n ∧ s.current = some ⟨h, n⟩) :
    ∃ wto, s1.worlds to = some wto ∧
    ((∀ m, m < wto.queue.length + 2 → U.react (s.delivered + m) = .none) →
     wto.queue.length + 1 < fuel + 1 →
     ∃ s5 s6,
      act U (fuel + 2) s (.switch h cc cn)
        = (s5, .raised (.switch h (cc && !restartOf s h cc) false)) ∧
      handleSwitch U (fuel + 1) (k + 1) s5 h (cc && !restartOf s h cc) false = (s6, .ok) ∧
      s6.log = .ev to .switchIn (.worlds (some frm) to) :: heldLog to wto.queue ++
        .enter to :: .ev frm .switchOut (.worlds (some frm) to) :: s1.log ∧
      s6.current = some to ∧ s6.currentHandle = some h ∧ s6.cache h = some to.n ∧
      s6.worlds to = some ⟨true, [], wto.dead⟩) := by
  obtain ⟨wto, hwto, hrest⟩ := switch_served U fuel k wf hcur hw hen hc hcoh
  refine ⟨wto, hwto, fun hp hf => ?_⟩
  obtain ⟨s5, s6, a1, a2, a3, a4, a5, a6, a7, _, a9, _⟩ := hrest hp hf
  exact ⟨s5, s6, a1, a2, by rw [a4, a3], a5, a6, a7, a9⟩

example : (callHandle Ex.U (preLoad Ex.s0 1 true true) 1).1.worlds ⟨1, 1⟩
      = some ⟨false, [(.custom 2, .tok 3), (.worldLoad, .loaded 1 ⟨1, 1⟩)], []⟩ ∧
    (∀ m, m < 2 + 2 → Ex.U.react (Ex.s0.delivered + m) = .none) ∧
    (true = true → Ex.s0.currentHandle = some 1 → False) := by
  refine ⟨by decide, fun _ _ => rfl, by decide⟩

/-- The guard of the `…_partial` theorems cannot be dropped (D26): in this reachable history a world
asks `switch(handle0, clear_next=True)`, its on_switch_out callback asks
`switch(handle0, clear_current=True)`; handle 0 is loaded three times and no world ever hears
on_switch_in. -/
theorem C13_guard_needed :
    Ex.hasSwitchIn (run Ex.U26 20 {} Ex.ops26).log = false ∧
    Ex.loadsOf 0 (run Ex.U26 20 {} Ex.ops26).log = 3 := by decide

example : (run Ex.U26 20 {} Ex.ops26).current = some ⟨0, 3⟩ := by decide

/-- The world that was left holds its events until it is entered again: over any run of the loop
(any frames, scripts, reactions) a world `j` that is muted and not current either stays muted with
its held events `q0` still held in order (only appended to) and without a single delivery, frame or
processor call of its own — or the loop entered it first (marker `enter j`). -/
theorem C13_left_world_silent (U : Universe) (fuel : Nat) (s s' : St) (frames : List Frame)
    (o : Outcome) (j : Inst) (q0 : List (Ev × Args)) (wf : WF s) (hm : Muted j q0 s)
    (hc : s.current ≠ some j) (h : loopRun U fuel s frames = (s', o)) :
    ∃ ext, s'.log = ext ++ s.log ∧
      ((Entry.enter j ∈ ext ∧ PrecIn j ext) ∨
       (Muted j q0 s' ∧ s'.current ≠ some j ∧ NotOf j ext)) := by
  obtain ⟨_, ⟨ext, h1, _, h3⟩, _⟩ := loopRun_spec U fuel _ _ _ _ wf h
  exact ⟨ext, h1, h3 j q0 hm hc⟩

example : Muted ⟨1, 1⟩ [] (run Ex.U 10 {} [.load 1, .switch 0 false false]) ∧
    (run Ex.U 10 {} [.load 1, .switch 0 false false]).current ≠ some ⟨1, 1⟩ :=
  ⟨⟨⟨false, [(.custom 2, .tok 3), (.worldLoad, .loaded 1 ⟨1, 1⟩)], []⟩, by decide, rfl, _, rfl⟩,
    by decide⟩

/-- … and when a world is entered (by any switch: the flags of a directly raised SwitchWorld
included, `hguard` saying that `clear_current` does not hit the target handle) the events it holds
are delivered once each, in the order they were held, provided their callbacks return normally;
nothing is loaded. -/
theorem C13_held_released_in_order (U : Universe) (fuel : Nat) (s : St) (h : Handle) (n : Nat)
    (cc : Bool) (wto : World) (hcache : s.cache h = some n) (hw : s.worlds ⟨h, n⟩ = some wto)
    (hguard : cc = true → s.currentHandle ≠ some h) (hfuel : wto.queue.length < fuel + 1)
    (hp : ∀ m, m < wto.queue.length → U.react (s.delivered + m) = .none) :
    ∃ s', simpleSwitch U (fuel + 1) s h cc false = (s', .ok) ∧
      s'.log = heldLog ⟨h, n⟩ wto.queue ++ .enter ⟨h, n⟩ :: s.log ∧
      s'.worlds ⟨h, n⟩ = some ⟨true, [], wto.dead⟩ ∧ s'.current = some ⟨h, n⟩ ∧
      s'.loads = s.loads := by
  obtain ⟨s', a1, a2, a3, _, a5, a6, _⟩ := simpleSwitch_passive U fuel hcache hw hguard hfuel hp
  exact ⟨s', a1, a2, by rw [a3]; simp, a6, a5⟩

example : (run Ex.U 10 {} [.load 1]).cache 1 = some 1 ∧
    (run Ex.U 10 {} [.load 1]).worlds ⟨1, 1⟩
      = some ⟨false, [(.custom 2, .tok 3), (.worldLoad, .loaded 1 ⟨1, 1⟩)], []⟩ := by decide

/-- Clear flags (D26 guard `hcoh`).  With `clear_next`, or `clear_current` towards the handle being
left, the instance that is entered is a fresh one (a new load, never seen before); with
`clear_current` towards another handle the handle being left is uncached afterwards, so its next
`()` loads a fresh instance; in every case the served request is the one of
`C13_in_once_after_load_partial`: the events reach the instance that runs. -/
theorem C13_clear_flags_partial (U : Universe) (fuel k : Nat) (s s1 : St) (h : Handle)
    (cc cn : Bool) (frm to : Inst) (wfrm : World) (wf : WF s) (hcur : s.current = some frm)
    (hw : s.worlds frm = some wfrm) (hen : wfrm.enabled = true)
    (hc : callHandle U (preLoad s h cc cn) h = (s1, to))
    (hcoh : cc = true → s.currentHandle = some h →
      ∃ n, s.cache h = some n ∧ s.current = some ⟨h, n⟩) :
    ((cn || restartOf s h cc) = true → to = ⟨h, s.loads h + 1⟩ ∧ s.worlds to = none ∧
      s1.log = .load to :: s.log) ∧
    ∃ wto, s1.worlds to = some wto ∧
    ((∀ m, m < wto.queue.length + 2 → U.react (s.delivered + m) = .none) →
     wto.queue.length + 1 < fuel + 1 →
     ∃ s5 s6,
      act U (fuel + 2) s (.switch h cc cn)
        = (s5, .raised (.switch h (cc && !restartOf s h cc) false)) ∧
      handleSwitch U (fuel + 1) (k + 1) s5 h (cc && !restartOf s h cc) false = (s6, .ok) ∧
      s6.current = some to ∧
      ((cc && !restartOf s h cc) = true → ∀ ch, s.currentHandle = some ch →
        s6.cache ch = none ∧ (callHandle U s6 ch).2 = ⟨ch, s6.loads ch + 1⟩)) := by
  refine ⟨?_, ?_⟩
  · intro hfl
    have hpre : preLoad s h cc cn = clearHandle s h := by simp [preLoad, hfl]
    rw [hpre] at hc
    simp only [callHandle, clearHandle, upd_same, Prod.mk.injEq] at hc
    obtain ⟨rfl, rfl⟩ := hc
    exact ⟨rfl, wf.fresh h _ (Nat.lt_succ_self _), rfl⟩
  · obtain ⟨wto, hwto, hrest⟩ := switch_served U fuel k wf hcur hw hen hc hcoh
    refine ⟨wto, hwto, fun hp hf => ?_⟩
    obtain ⟨s5, s6, a1, a2, _, _, a5, _, _, _, _, _, a11, _⟩ := hrest hp hf
    refine ⟨s5, s6, a1, a2, a5, fun hcc ch hch => ?_⟩
    have := a11 hcc ch hch
    exact ⟨this, by simp [callHandle, this]⟩

example : (true || restartOf Ex.s0 1 false) = true ∧ restartOf Ex.s0 0 true = true ∧
    (true && !restartOf Ex.s0 1 true) = true := by decide

/-- Loads (D26 guard `hcoh`): a served switch request loads the target at most once — exactly once
if it was not cached or had to be cleared, not at all otherwise — and nothing else. -/
theorem C13_loads_partial (U : Universe) (fuel k : Nat) (s s1 : St) (h : Handle)
    (cc cn : Bool) (frm to : Inst) (wfrm : World) (wf : WF s) (hcur : s.current = some frm)
    (hw : s.worlds frm = some wfrm) (hen : wfrm.enabled = true)
    (hc : callHandle U (preLoad s h cc cn) h = (s1, to))
    (hcoh : cc = true → s.currentHandle = some h →
      ∃ n, s.cache h = some n ∧ s.current = some ⟨h, n⟩) :
    ∃ wto, s1.worlds to = some wto ∧
    ((∀ m, m < wto.queue.length + 2 → U.react (s.delivered + m) = .none) →
     wto.queue.length + 1 < fuel + 1 →
     ∃ s5 s6,
      act U (fuel + 2) s (.switch h cc cn)
        = (s5, .raised (.switch h (cc && !restartOf s h cc) false)) ∧
      handleSwitch U (fuel + 1) (k + 1) s5 h (cc && !restartOf s h cc) false = (s6, .ok) ∧
      (∀ h', h' ≠ h → s6.loads h' = s.loads h') ∧
      ((s6.loads h = s.loads h ∧ (preLoad s h cc cn).cache h = some to.n) ∨
       (s6.loads h = s.loads h + 1 ∧ (preLoad s h cc cn).cache h = none))) := by
  obtain ⟨wto, hwto, hrest⟩ := switch_served U fuel k wf hcur hw hen hc hcoh
  refine ⟨wto, hwto, fun hp hf => ?_⟩
  obtain ⟨s5, s6, a1, a2, _, _, _, _, _, a8, _⟩ := hrest hp hf
  obtain ⟨_, b2, b3⟩ := callHandle_loads U hc
  have hl0 : (preLoad s h cc cn).loads = s.loads := by unfold preLoad; split <;> rfl
  refine ⟨s5, s6, a1, a2, fun h' hne => by rw [a8, b2 h' hne, hl0], ?_⟩
  rcases b3 with ⟨c1, _, c3⟩ | ⟨c1, _, c3, _⟩
  · exact Or.inl ⟨by rw [a8, c1, hl0], c3⟩
  · exact Or.inr ⟨by rw [a8, c1, hl0], c3⟩

example : (preLoad Ex.s0 1 false false).cache 1 = none ∧
    (preLoad Ex.s0 0 false false).cache 0 = some 1 := by decide
