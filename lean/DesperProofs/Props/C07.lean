import DesperProofs.Lemmas.WorldLog
import DesperProofs.Lemmas.WorldWalk
import DesperProofs.Lemmas.WorldLife
import DesperProofs.Lemmas.WorldPWorld
/-
  C07 — Processors run once per frame in priority order, one per type.

  Model: DesperModel/World.lean (`addProcessor`, `removeProcessor`, `process`, `insort`,
  `bisectRight` mirror world.py:380-504 and bisect.py:4-50).  `run U s₀ ops` is the state after
  any history of World operations; `priority U s p` is `p.priority` (instance value set by an
  explicit priority argument, else the class default).
-/
open Desper Desper.World

/-- `bisect_right` on a list sorted by key returns the index `i` with every key before `i`
`≤ x` and every key from `i` on `> x` (so insertion at `i` is after the rightmost equal key). -/
theorem C07_bisect_right (keys : List Int) (x : Int) (hs : SortedKeys keys) :
    let i := bisectRight keys x (keys.length + 1) 0 keys.length
    i ≤ keys.length ∧ (∀ j : Nat, j < i → keys[j]?.getD 0 ≤ x) ∧
    (∀ j : Nat, i ≤ j → j < keys.length → x < keys[j]?.getD 0) :=
  bisectRight_post keys x hs

/-- Stable insertion: a processor is put after every processor whose priority is `≤` its own
(in particular after those of equal priority that were added before) and before every processor
with a larger priority; the others keep their relative order. -/
theorem C07_insort_stable (U : Universe) (s : St) (p : Obj)
    (h : s.sorted.Pairwise (fun a b => priority U s a ≤ priority U s b)) :
    ∃ i, insort U s p = s.sorted.take i ++ [p] ++ s.sorted.drop i ∧
      (∀ a ∈ s.sorted.take i, priority U s a ≤ priority U s p) ∧
      (∀ b ∈ s.sorted.drop i, priority U s p < priority U s b) :=
  insort_spec U s p h

/-- After every history of operations `processors` is sorted by non-decreasing priority. -/
theorem C07_sorted (U : Universe) [U.NoReenter] (hints : List (List Ent)) (ops : List Op) :
    (run U { sweepHints := hints } ops).sorted.Pairwise
      (fun a b => priority U (run U { sweepHints := hints } ops) a ≤
                  priority U (run U { sweepHints := hints } ops) b) :=
  (pinv_run (pinv_init U hints) ops).sortedP

/-- A world holds at most one processor per exact type, and the type dictionary and the sorted
list always describe the same set of processors. -/
theorem C07_one_per_type (U : Universe) [U.NoReenter] (hints : List (List Ent)) (ops : List Op) :
    let s := run U { sweepHints := hints } ops
    s.sorted.Nodup ∧
    (∀ p q, p ∈ s.sorted → q ∈ s.sorted → tyOf U p = tyOf U q → p = q) ∧
    (∀ t p, Dict.get? s.procs t = some p ↔ (p ∈ s.sorted ∧ tyOf U p = t)) := by
  have h := pinv_run (pinv_init U hints) ops
  exact ⟨h.nodup, fun p q hp hq ht => h.onePerType hp hq ht, h.procsIff⟩

/-- `process(dt)` — when the pending deletions are applied without error and no callback raises —
calls every registered processor exactly once with that `dt`, in the order of `processors`,
and calls no other processor. -/
theorem C07_process_once (U : Universe) [U.NoReenter] (hn : NoRaise U) (s : St) (dt : String)
    (hd : (clearDead U s).2 = .ok) :
    (process U s dt).2 = .ok ∧
    procEntries (process U s dt).1.log = (s.sorted.map (·, dt)).reverse ++ procEntries s.log := by
  unfold process
  have hp := clearDead_procs U s
  have hl := clearDead_ext U s
  cases hx : clearDead U s with
  | mk s' o =>
    rw [hx] at hd hp hl
    simp only at hd; subst hd
    simp only
    obtain ⟨h1, h2⟩ := runProcs_exact hn s' dt s'.sorted
    refine ⟨h1, ?_⟩
    rw [h2, hp.sorted]
    obtain ⟨l, hl1, hl2⟩ := hl
    rw [hl1, procEntries_append, procEntries_of_not_proc l]
    · rfl
    · intro e he hpe
      have := hl2 e he
      cases e <;> simp_all [isLife, isProc]

/-- Adding a processor of a type that is already present replaces the old instance: afterwards the
new one is the only processor of that type, so (`C07_process_once`) the old one is never called
again. -/
theorem C07_replace (U : Universe) [U.NoReenter] (hints : List (List Ent)) (ops : List Op) (p : Obj)
    (prio? : Option Int)
    (hok : (addProcessor U (run U { sweepHints := hints } ops) p prio?).2 = .ok) :
    let s' := (addProcessor U (run U { sweepHints := hints } ops) p prio?).1
    Dict.get? s'.procs (tyOf U p) = some p ∧ p ∈ s'.sorted ∧
    ∀ q, q ∈ s'.sorted → tyOf U q = tyOf U p → q = p := by
  have h := pinv_run (pinv_init U hints) ops
  have h' := pinv_addProcessor h p prio?
  generalize run U { sweepHints := hints } ops = s at *
  have hmem : p ∈ (addProcessor U s p prio?).1.sorted := by
    unfold addProcessor at hok ⊢
    simp only at hok ⊢
    split
    · rename_i s1 hx
      rw [(attachEvents_tables U _ p none).sorted]
      exact (mem_insort U _ p p).mpr (.inl rfl)
    · rename_i r hne
      exfalso
      split at hok
      · rename_i s1 hx; exact hne s1 hx
      · rename_i r' hne'
        generalize (if (Dict.get? s.procs (tyOf U p)).isSome = true then
          ((removeProcessor U s (tyOf U p)).1, (removeProcessor U s (tyOf U p)).2.1)
          else (s, Disp.Outcome.ok)) = x at *
        obtain ⟨x1, x2⟩ := x
        simp only at hok
        subst hok
        exact hne x1 rfl
  exact ⟨(h'.procsIff _ _).mpr ⟨hmem, rfl⟩, hmem, fun q hq ht => h'.onePerType hq hmem ht⟩

/-- An explicit priority — any integer, zero and negatives included — overrides the class default. -/
theorem C07_explicit_priority (U : Universe) (s : St) (p : Obj) (v : Int) :
    priority U (setPrio s p (some v)) p = v ∧
    ∀ s1, SameTables U (insertProc U (setPrio s p (some v)) p) s1 → priority U s1 p = v := by
  refine ⟨by simp [priority, setPrio, Dict.get?_set], ?_⟩
  intro s1 h
  have : s1.prio = Dict.set s.prio p v := h.prio
  simp [priority, this, Dict.get?_set]

/-- The added processor knows its world: whenever `add_processor` returns normally,
`processor.world` has been set to this world (`pworld`, world.py:408) — also when it replaced an
older instance of its type, whose `on_remove` ran first. -/
theorem C07_knows_world (U : Universe) [U.NoReenter] (s : St) (p : Obj) (prio? : Option Int)
    (hok : (addProcessor U s p prio?).2 = .ok) :
    p ∈ (addProcessor U s p prio?).1.pworld := by
  have key : ∀ r : St × Outcome,
      (match r with
        | (s, .ok) => attachEvents U (insertProc U (setPrio s p prio?) p) p none
        | r => r).2 = .ok →
      p ∈ (match r with
        | (s, .ok) => attachEvents U (insertProc U (setPrio s p prio?) p) p none
        | r => r).1.pworld := by
    rintro ⟨s1, o1⟩ h
    cases o1 with
    | ok =>
      show p ∈ (attachEvents U (insertProc U (setPrio s1 p prio?) p) p none).1.pworld
      rw [attachEvents_pworld]
      exact (mem_setAdd _ _ _).mpr (.inr rfl)
    | _ => cases h
  exact key _ hok

/-- The added processor gets `on_add`: while dispatching is enabled, adding a processor (of a type
not yet present — the replacement case runs the old instance's `on_remove` first, `C07_replace`)
whose class maps `on_add` to a method calls that method exactly once — one new log entry, with no
owning entity — before `add_processor` returns. -/
theorem C07_gets_on_add (U : Universe) [U.NoReenter] (s : St) (p : Obj) (prio? : Option Int)
    (m : Mapping) (meth : String) (hm : U.mapOf p = some m) (hon : Dict.get? m onAdd = some meth)
    (hen : s.enabled = true) (hfresh : Dict.get? s.procs (tyOf U p) = none) :
    (addProcessor U s p prio?).1.log = .life onAdd p meth none :: s.log := by
  unfold addProcessor
  simp only [hfresh, Option.isSome_none, Bool.false_eq_true, if_false]
  unfold attachEvents lifecycle
  simp only [hm, hon]
  have he : (addHandler (insertProc U (setPrio s p prio?) p) p m).enabled = true := by
    cases prio? <;> exact hen
  simp only [he, if_true]
  rw [callCb_log, (ctrlRecord_fields U _ onAdd p none).2.2.1]
  cases prio? <;> rfl

/-- The replaced processor gets `on_remove`: removing the processor registered for exactly type
`t` — which is the first thing `add_processor` does when the type is already present
(world.py:395-396, `C07_replace`) — while dispatching is enabled calls the `on_remove` method its
class declares exactly once, with no owning entity, and hands that instance back. -/
theorem C07_replaced_gets_on_remove (U : Universe) [U.NoReenter] (s : St) (t : Ty) (q : Obj)
    (m : Mapping) (meth : String) (hq : Dict.get? s.procs t = some q) (hm : U.mapOf q = some m)
    (hon : Dict.get? m onRemove = some meth) (hen : s.enabled = true) :
    (removeProcessor U s t).2.2 = some q ∧
    (removeProcessor U s t).1.log = .life onRemove q meth none :: s.log := by
  obtain ⟨rest, hr⟩ := visit_head U t
  unfold removeProcessor
  rw [hr, List.find?_cons]
  simp only [hq, Option.isSome_some, hm]
  unfold lifecycle
  simp only [hon]
  have he : (dropProc U s t).enabled = true := hen
  simp only [he, if_true]
  have hl := callCb_log U (ctrlRecord U (dropProc U s t) onRemove q none) q meth (.life onRemove q meth none)
  rw [(ctrlRecord_fields U _ onRemove q none).2.2.1] at hl
  cases hx : callCb U (ctrlRecord U (dropProc U s t) onRemove q none) q meth (.life onRemove q meth none) with
  | mk s' o =>
    rw [hx] at hl
    cases o <;> exact ⟨rfl, hl⟩

/-! non-vacuity: three processor classes, priorities 1, 0 (explicit), 0 (tie, added later) -/
private def exU : Universe :=
  { classes := [{ bases := [], isProc := true, prio := 1 }, { bases := [], isProc := true, prio := 5 },
                { bases := [], isProc := true, prio := 0 }],
    mapping := fun _ => none, objTy := fun o => some o, raises := fun _ _ _ => none }

example :
    let s := run exU {} [.addProc 0 none, .addProc 1 (some 0), .addProc 2 none]
    s.sorted = [1, 2, 0] ∧ (clearDead exU s).2 = .ok ∧
    procEntries (process exU s "7").1.log = [(0, "7"), (2, "7"), (1, "7")] := by
  decide

/-- non-vacuity of `C07_knows_world`: adding returns normally and the processor knows its world -/
example : (addProcessor exU {} 1 (some 0)).2 = .ok ∧ 1 ∈ (addProcessor exU {} 1 (some 0)).1.pworld := by
  decide

/-- non-vacuity of `C07_gets_on_add`: a processor class mapping `on_add` to `m` -/
private def exU2 : Universe :=
  { classes := [{ bases := [], isProc := true, prio := 1 }],
    mapping := fun _ => some [(onAdd, "m"), (onRemove, "r")], objTy := fun _ => some 0, raises := fun _ _ _ => none }

example : exU2.mapOf 5 = some [(onAdd, "m"), (onRemove, "r")] ∧ ({} : St).enabled = true ∧
    (addProcessor exU2 {} 5 none).1.log = [.life onAdd 5 "m" none] := by
  decide

/-- non-vacuity of `C07_replaced_gets_on_remove`: adding a second instance of the class replaces
the first, which gets `on_remove` before the new one gets `on_add` -/
example :
    let s := (addProcessor exU2 {} 5 none).1
    Dict.get? s.procs 0 = some 5 ∧ s.enabled = true ∧
    (removeProcessor exU2 s 0).1.log = [.life onRemove 5 "r" none, .life onAdd 5 "m" none] ∧
    (addProcessor exU2 s 6 none).1.log =
      [.life onAdd 6 "m" none, .life onRemove 5 "r" none, .life onAdd 5 "m" none] ∧
    (addProcessor exU2 s 6 none).1.sorted = [6] := by
  decide
