import DesperProofs.Lemmas.CoroLife
/-
  The execution log: a step of `g` is only ever logged while the most recent successful
  start / kill of `g` is a start, and carries the index that follows the previous step of `g`
  (used by Props/C09.lean).
-/
set_option linter.unusedSimpArgs false
set_option linter.unusedVariables false
namespace Desper.Coro
open Desper

/-- every logged step was legitimate when it was logged -/
def GoodLog : List Entry → Prop
  | [] => True
  | .step g i :: t => (lastLife g t = some true ∧ i = (stepGens t).count g) ∧ GoodLog t
  | _ :: t => GoodLog t

/-- whoever is not terminated was started and not killed since; the log is good -/
structure LI (s : St) : Prop where
  live : ∀ g, ¬ Dead g s → lastLife g s.log = some true
  good : GoodLog s.log

theorem li_init : LI init := ⟨fun g h => absurd (.inl rfl) h, trivial⟩

/-- an entry that is neither a step nor a start nor a kill -/
def inert : Entry → Bool
  | .step _ _ => false
  | .started _ _ => false
  | .killed _ => false
  | _ => true

theorem lastLife_inert (g : Gen) (e : Entry) (t : List Entry) (h : inert e = true) :
    lastLife g (e :: t) = lastLife g t := by
  cases e <;> simp [inert] at h <;> rfl

theorem goodLog_inert (e : Entry) (t : List Entry) (h : inert e = true) :
    GoodLog (e :: t) ↔ GoodLog t := by
  cases e <;> simp [inert] at h <;> rfl

theorem push_li {s : St} (L : LI s) (e : Entry) (h : inert e = true) : LI (s.push e) :=
  ⟨fun g hd => by
      simp only [St.push]; rw [lastLife_inert g e _ h]; exact L.live g hd,
    by simp only [St.push]; rw [goodLog_inert e _ h]; exact L.good⟩

/-- same tables, log extended by an inert entry -/
theorem LI.of_inert {s s' : St} (L : LI s) (e : Entry) (h : inert e = true) (hl : s'.log = e :: s.log)
    (hd : ∀ g, Dead g s → Dead g s') : LI s' :=
  ⟨fun g hnd => by rw [hl, lastLife_inert g e _ h]; exact L.live g (fun h0 => hnd (hd g h0)),
    by rw [hl, goodLog_inert e _ h]; exact L.good⟩

theorem LI.of_same {s s' : St} (L : LI s) (hl : s'.log = s.log) (hd : ∀ g, Dead g s → Dead g s') : LI s' :=
  ⟨fun g hnd => by rw [hl]; exact L.live g (fun h0 => hnd (hd g h0)), by rw [hl]; exact L.good⟩

theorem start_li (U : Universe) {s : St} (L : LI s) (h : Gen) : LI (start U s h).1 := by
  unfold start
  split
  · exact L
  · split
    · exact L
    · have hc : ∀ t : St, t.log = s.log → (∀ x, x ≠ h → Dead x s → Dead x t) → LI (startCommit t h).1 := by
        intro t ht hd
        refine ⟨fun g hnd => ?_, ?_⟩
        · by_cases hg : h = g
          · subst hg; simp [startCommit, lastLife]
          · simp only [startCommit, lastLife, hg, if_false, ht]
            apply L.live g
            intro h0
            apply hnd
            have := hd g (Ne.symm hg) h0
            unfold Dead at *
            simpa [startCommit, Ne.symm hg] using this
        · simp only [startCommit, GoodLog, ht]; exact L.good
      split
      · simp only []
        cases hgens : s.gens h with
        | none =>
          exact L.of_same rfl (fun g hd => by
            unfold Dead at *
            rcases hd with hd | hd
            · exact .inl hd
            · by_cases hg : g = h
              · subst hg; exact .inl hgens
              · exact .inr (by simp [hg, hd]))
        | some w =>
          cases w
          · exact hc _ rfl (fun x hx hd => by unfold Dead at *; simpa [hx] using hd)
          · exact hc _ rfl (fun x hx hd => by unfold Dead at *; simpa [hx] using hd)
      · exact hc _ rfl (fun x hx hd => hd)

theorem kill_li (U : Universe) {s : St} (L : LI s) (h : Gen) : LI (kill U s h).1 := by
  unfold kill
  split
  · exact L
  · split
    · exact L
    · refine ⟨fun g hnd => ?_, by simp only [GoodLog]; exact L.good⟩
      by_cases hg : h = g
      · subst hg; exact absurd (.inr (by simp)) hnd
      · simp only [lastLife, hg, if_false]
        apply L.live g
        intro h0; apply hnd
        unfold Dead at *
        rcases h0 with h0 | h0
        · exact .inl h0
        · exact .inr (by simp [Ne.symm hg, h0])

theorem execAct_li (U : Universe) (x : Gen) (i : Nat) {s : St} (L : LI s) (a : Act) :
    LI (execAct U x i s a) := by
  cases a with
  | start h => exact push_li (start_li U L h) _ rfl
  | kill h => exact push_li (kill_li U L h) _ rfl
  | state h => simp only [execAct]; split <;> exact push_li L _ rfl

theorem execActs_li (U : Universe) (x : Gen) (i : Nat) {s : St} (L : LI s) (acts : List Act) :
    LI (execActs U x i s acts) := by
  induction acts generalizing s with
  | nil => exact L
  | cons a as ih => exact ih (execAct_li U x i L a)

theorem runBody_li (U : Universe) {s : St} (L : LI s) (P : PcLog s) {g : Gen} (hnd : ¬ Dead g s) :
    LI (runBody U s g).1 := by
  unfold runBody
  split
  · exact L
  · dsimp only
    split
    · exact L.of_same rfl (fun _ h => h)
    · rename_i st _
      have L0 : LI { s with pc := upd s.pc g (s.pc g + 1), log := .step g (s.pc g) :: s.log } :=
        ⟨fun x hx => by simp only [lastLife]; exact L.live x hx,
          by simp only [GoodLog]; exact ⟨⟨L.live g hnd, P g⟩, L.good⟩⟩
      have L1 := execActs_li U g (s.pc g) L0 st.acts
      split
      · exact push_li L1 _ rfl
      · exact L1.of_inert (.returned g _) rfl rfl (fun _ h => h)
      · exact L1.of_inert (.crashed g _) rfl rfl (fun _ h => h)

theorem afterBody_li {b : St × Next} (L : LI b.1) (g : Gen) (p : Nat) (hg : b.1.gens g ≠ none) :
    LI (afterBody b g p) := by
  unfold afterBody
  split
  · refine L.of_inert (.stored g p _) rfl rfl (fun x hd => ?_)
    unfold Dead at *
    by_cases hx : x = g
    · subst hx; exact .inl (by simp [finishHead, dropHead])
    · simpa [finishHead, dropHead, hx] using hd
  · split
    · refine L.of_same rfl (fun x hd => ?_)
      unfold Dead at *
      by_cases hx : x = g
      · subst hx
        rcases hd with hd | hd
        · exact absurd hd hg
        · exact .inr (by simpa [pauseHead] using hd)
      · simpa [pauseHead, hx] using hd
    · exact L.of_same rfl (fun _ hd => hd)
  · exact L

theorem turn_li (U : Universe) [NoRaise U] {c : St} (I : Inv c) {g : Gen} {pend : List Gen}
    {done : List (Option Gen)} (h : Split c (g :: pend) done) (L : LI c) (P : PcLog c) :
    LI (turn U c) := by
  obtain ⟨_, hc⟩ := turn_cases U I h
  rcases hc with ⟨hk, ht, _⟩ | ⟨hk, _, p, _, _, hg, _, ht, _⟩
  · rw [ht]
    refine L.of_same rfl (fun x hd => ?_)
    unfold Dead at *
    by_cases hx : x = g
    · subst hx; exact .inl (by simp [dropHead])
    · simpa [dropHead, hx] using hd
  · rw [ht]
    have hgc : c.gens g = some none := I.gens_of_active (by unfold Split at h; simp [h])
    have hnd : ¬ Dead g c := by unfold Dead; simp [hgc, hk]
    exact afterBody_li (runBody_li U L P hnd) g p (by simp [hg])

theorem process_li (U : Universe) [NoRaise U] {s : St} (T : Top s) (dt : Int) (hint : List Gen) (L : LI s)
    (P : PcLog s) : LI (process U s dt hint).1 := by
  obtain ⟨pend, _, I1, hsp, hp⟩ := process_frame U T dt hint
  obtain ⟨w1, _, wlog, _⟩ := wake_frame T.inv dt hint
  have hwf := fun g => (wake_frozen T.inv dt hint g).1
  have L0 : LI (rotHead (wakePhase s dt hint).1) := by
    refine L.of_same (by simp [rotHead, wlog]) (fun g hd => ?_)
    have := ((hwf g).dead (by simp [nStart, wlog]) hd).1
    unfold Dead at *; simpa [rotHead] using this
  have P0 : PcLog (rotHead (wakePhase s dt hint).1) := by
    intro g; simp only [rotHead, w1, wlog]; exact P g
  have := (turns_rel U (fun a b => (LI a ∧ PcLog a) → (LI b ∧ PcLog b)) (fun _ h => h)
    (fun _ _ _ h1 h2 h => h2 (h1 h)) (before := pend)
    (fun c x pend done I hs _ hlp => ⟨turn_li U I hs hlp.1 hlp.2, turn_pcLog U I hs hlp.2⟩)
    I1 (rest := []) (done := []) (by simpa using hsp)).1
  rw [hp]
  exact (this ⟨L0, P0⟩).1

theorem execOp_li (U : Universe) [NoRaise U] {s : St} (T : Top s) (op : Op) (L : LI s) (P : PcLog s) :
    LI (execOp U s op) := by
  cases op with
  | start h => exact push_li (start_li U L h) _ rfl
  | kill h => exact push_li (kill_li U L h) _ rfl
  | state h => simp only [execOp]; split <;> exact push_li L _ rfl
  | value h => exact push_li L _ rfl
  | process dt hint => exact push_li (process_li U T dt hint L P) _ rfl

theorem run_li (U : Universe) [NoRaise U] {s : St} (T : Top s) (ops : List Op) (L : LI s) (P : PcLog s) :
    LI (run U s ops) := by
  induction ops generalizing s with
  | nil => exact L
  | cons op rest ih =>
    exact ih (execOp_top U T op) (execOp_li U T op L P) (execOp_pcLog U T op P)

theorem goodLog_split {post pre : List Entry} {g : Gen} {i : Nat}
    (h : GoodLog (post ++ .step g i :: pre)) :
    lastLife g pre = some true ∧ i = (stepGens pre).count g := by
  induction post with
  | nil => exact h.1
  | cons e t ih =>
    apply ih
    cases e <;> first | exact h | exact h.2

end Desper.Coro
