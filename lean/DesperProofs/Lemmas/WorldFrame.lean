import DesperModel.World
import DesperProofs.Lemmas.Dict
/-
  Frame lemmas: event handling never touches the component tables.
-/
namespace Desper.World
open Desper

/-- same component tables (entities, index, id counter, processors) — and the same pending deletions as
long as no callback calls `delete_entity` itself (`U.Passive`) -/
structure SameTables (U : Universe) (s s' : St) : Prop where
  ents : s'.ents = s.ents
  comps : s'.comps = s.comps
  dead : U.Passive → s'.dead = s.dead
  nextId : s'.nextId = s.nextId
  procs : s'.procs = s.procs
  sorted : s'.sorted = s.sorted
  prio : s'.prio = s.prio
  /-- callbacks only ever ADD entities to the set awaiting deletion -/
  deadMono : ∀ x, x ∈ s.dead → x ∈ s'.dead

theorem SameTables.refl {U : Universe} (s : St) : SameTables U s s :=
  ⟨rfl, rfl, fun _ => rfl, rfl, rfl, rfl, rfl, fun _ h => h⟩

theorem SameTables.trans {U : Universe} {a b c : St} (h1 : SameTables U a b) (h2 : SameTables U b c) :
    SameTables U a c :=
  ⟨h2.ents.trans h1.ents, h2.comps.trans h1.comps, fun h => (h2.dead h).trans (h1.dead h),
   h2.nextId.trans h1.nextId,
   h2.procs.trans h1.procs, h2.sorted.trans h1.sorted, h2.prio.trans h1.prio,
   fun x h => h2.deadMono x (h1.deadMono x h)⟩

theorem callCb_tables (U : Universe) [hn : U.NoReenter] (s : St) (o : Obj) (m : String) (e : Entry) :
    SameTables U s (callCb U s o m e).1 := by
  unfold callCb
  simp only [hn.noReenter]
  cases hr : U.reacts o m ((Dict.get? s.calls (o, m)).getD 0) with
  | none => split <;> exact ⟨rfl, rfl, fun _ => rfl, rfl, rfl, rfl, rfl, fun _ h => h⟩
  | some x =>
    have hd : U.Passive → False := fun h => by rw [h.noReact] at hr; cases hr
    split <;> exact ⟨rfl, rfl, fun h => (hd h).elim, rfl, rfl, rfl, rfl,
      fun y hy => (mem_setAdd _ _ _).mpr (.inl hy)⟩

theorem ctrlRecord_tables (U : Universe) (s : St) (ev : String) (o : Obj) (ent : Option Ent) :
    SameTables U s (ctrlRecord U s ev o ent) := by
  unfold ctrlRecord
  split
  · split <;> exact ⟨rfl, rfl, fun _ => rfl, rfl, rfl, rfl, rfl, fun _ h => h⟩
  · exact .refl s

theorem lifecycle_tables (U : Universe) [U.NoReenter] (s : St) (ev : String) (o : Obj) (m : Mapping)
    (ent : Option Ent) : SameTables U s (lifecycle U s ev o m ent).1 := by
  unfold lifecycle
  split
  · exact .refl s
  · split
    · exact SameTables.trans (ctrlRecord_tables U s ev o ent) (callCb_tables U _ o _ _)
    · split
      · exact ⟨rfl, rfl, fun _ => rfl, rfl, rfl, rfl, rfl, fun _ h => h⟩
      · exact .refl s

theorem removeHandler_tables {U : Universe} (s : St) (o : Obj) : SameTables U s (removeHandler s o) :=
  ⟨rfl, rfl, fun _ => rfl, rfl, rfl, rfl, rfl, fun _ h => h⟩

theorem addHandler_tables {U : Universe} (s : St) (o : Obj) (m : Mapping) : SameTables U s (addHandler s o m) :=
  ⟨rfl, rfl, fun _ => rfl, rfl, rfl, rfl, rfl, fun _ h => h⟩

theorem attachEvents_tables (U : Universe) [U.NoReenter] (s : St) (o : Obj) (ent : Option Ent) :
    SameTables U s (attachEvents U s o ent).1 := by
  unfold attachEvents
  split
  · exact .refl s
  · exact SameTables.trans (addHandler_tables s o _) (lifecycle_tables U _ _ o _ ent)

theorem attachAll_tables (U : Universe) [U.NoReenter] (s : St) (e : Ent) (cs : List Obj) :
    SameTables U s (attachAll U s e cs).1 := by
  induction cs generalizing s with
  | nil => exact .refl s
  | cons c cs ih =>
    simp only [attachAll]
    have h1 := attachEvents_tables U s c (some e)
    split
    · rename_i s' hx
      rw [hx] at h1
      exact SameTables.trans h1 (ih s')
    · rename_i r hx
      exact h1

theorem row_of_ents {s s' : St} (h : s'.ents = s.ents) (e : Ent) : row s' e = row s e := by
  simp [row, h]

theorem idx_of_comps {s s' : St} (h : s'.comps = s.comps) (t : Ty) : idx s' t = idx s t := by
  simp [idx, h]

end Desper.World

namespace Desper.World
open Desper

/-- what `remove_component` does: nothing when no (sub)type matches; otherwise the table update
`detach` for the first matching type in walk order, then event handling only -/
theorem removeComponent_spec (U : Universe) [U.NoReenter] (s : St) (e : Ent) (t : Ty) :
    ((visit U t).find? (fun st => (Dict.get? (row s e) st).isSome) = none ∧
        removeComponent U s e t = (s, .ok, none)) ∨
    (∃ st c, (visit U t).find? (fun st => (Dict.get? (row s e) st).isSome) = some st ∧
        Dict.get? (row s e) st = some c ∧ (removeComponent U s e t).2.2 = some c ∧
        SameTables U (detach s e st) (removeComponent U s e t).1) := by
  unfold removeComponent
  cases hf : (visit U t).find? (fun st => (Dict.get? (row s e) st).isSome) with
  | none => left; exact ⟨rfl, rfl⟩
  | some st =>
    right
    have hsome := List.find?_some hf
    simp only [Option.isSome_iff_exists] at hsome
    obtain ⟨c, hc⟩ := hsome
    refine ⟨st, c, rfl, hc, ?_⟩
    simp only [hc]
    cases hm : U.mapOf c with
    | none => exact ⟨rfl, .refl _⟩
    | some m =>
      simp only
      have h1 := lifecycle_tables U (detach s e st) onRemove c m (some e)
      cases hl : lifecycle U (detach s e st) onRemove c m (some e) with
      | mk s' o =>
        rw [hl] at h1
        cases o <;> simp only
        · exact ⟨trivial, SameTables.trans h1 (removeHandler_tables s' c)⟩
        all_goals exact ⟨trivial, h1⟩

end Desper.World

namespace Desper.World
open Desper

theorem dict_eq_nil_get? {κ ν : Type} [DecidableEq κ] (d : Dict κ ν) (h : d.isEmpty = true) (k : κ) :
    Dict.get? d k = none := by
  cases d with
  | nil => rfl
  | cons a l => simp at h

theorem detach_ents (s : St) (e : Ent) (st : Ty) :
    (detach s e st).ents =
      if (Dict.erase (row s e) st).isEmpty then Dict.erase s.ents e
      else Dict.set s.ents e (Dict.erase (row s e) st) := by
  unfold detach; simp only; split <;> rfl

/-- the row of every entity after `detach` -/
theorem row_detach (s : St) (e e' : Ent) (st x : Ty) :
    Dict.get? (row (detach s e st) e') x =
      if e = e' ∧ st = x then none else Dict.get? (row s e') x := by
  have hrow : row (detach s e st) e' =
      if e = e' then Dict.erase (row s e) st else row s e' := by
    show ((Dict.get? (detach s e st).ents e').getD []) = _
    rw [detach_ents]
    by_cases hr : (Dict.erase (row s e) st).isEmpty = true
    · simp only [hr, if_true, Dict.get?_erase]
      split
      · rename_i he; simp only [Option.getD_none]
        exact (List.isEmpty_iff.mp hr).symm
      · rfl
    · simp only [hr, Bool.false_eq_true, if_false, Dict.get?_set]
      split
      · rfl
      · rfl
  rw [hrow]
  by_cases he : e = e'
  · subst he
    simp only [if_true, true_and, Dict.get?_erase]
  · simp [he]

/-- the index after `detach` -/
theorem idx_detach (s : St) (e : Ent) (st t' : Ty) :
    idx (detach s e st) t' = if st = t' then (idx s st).filter (· ≠ e) else idx s t' := by
  have hcomps : (detach s e st).comps =
      if ((idx s st).filter (· ≠ e)).isEmpty then Dict.erase s.comps st
      else Dict.set s.comps st ((idx s st).filter (· ≠ e)) := by
    unfold detach; simp only; split <;> rfl
  show ((Dict.get? (detach s e st).comps t').getD []) = _
  rw [hcomps]
  by_cases hi : ((idx s st).filter (· ≠ e)).isEmpty = true
  · rw [if_pos hi, Dict.get?_erase]
    split
    · simp only [Option.getD_none]
      exact (List.isEmpty_iff.mp hi).symm
    · rfl
  · rw [if_neg hi, Dict.get?_set]
    split
    · rfl
    · rfl

theorem dead_detach (s : St) (e : Ent) (st : Ty) (x : Ent) :
    x ∈ (detach s e st).dead → x ∈ s.dead := by
  unfold detach; simp only
  split
  · intro h; exact (List.mem_filter.mp h).1
  · exact id

end Desper.World
