import DesperProofs.Lemmas.LoopStep
/-
  Switch handling and the loop itself as `Step`s.
-/
namespace Desper.Loop

/-- un-muting the current world is a step (no other world is concerned) -/
theorem setWorld_current_step (P : Entry → Prop) {s : St} {i : Inst} (w : World)
    (hcur : s.current = some i) : Step P s (setWorld s i w) := by
  refine ⟨[], by simp [setWorld], by simp, ?_⟩
  intro j q0 ⟨wj, hwj, hen, q, hq⟩ hc
  have e : j ≠ i := by intro c; subst c; exact hc hcur
  exact Or.inr ⟨⟨wj, by simp only [setWorld, upd_ne _ _ e]; exact hwj, hen, q, hq⟩, hc,
    by simp [NotOf]⟩

theorem enable_spec (U : Universe) (fuel : Nat) {s s' : St} {i : Inst} {o : Outcome} (wf : WF s)
    (hcur : s.current = some i) (h : enable U fuel s i = (s', o)) :
    WF s' ∧ Step Quiet s s' ∧ SameClock s s' ∧ s'.current = s.current ∧
      s'.currentHandle = s.currentHandle := by
  unfold enable at h
  split at h
  · simp only [Prod.mk.injEq] at h; obtain ⟨rfl, _⟩ := h
    exact ⟨wf, Step.refl _ _, SameClock.refl _, rfl, rfl⟩
  · rename_i w hw
    have wf1 := setWorld_wf { w with enabled := true } wf hw
    obtain ⟨wf2, st2, sc2, c2, ch2⟩ := release_spec U fuel i fuel _ _ _ wf1 h
    exact ⟨wf2, (setWorld_current_step Quiet _ hcur).trans st2, ⟨sc2.running, sc2.last⟩, c2, ch2⟩

theorem simpleSwitch_spec (U : Universe) (fuel : Nat) {s s' : St} {h : Handle} {cc cn : Bool}
    {o : Outcome} (wf : WF s) (hs : simpleSwitch U fuel s h cc cn = (s', o)) :
    WF s' ∧ Step SwP s s' ∧ SameClock s s' ∧ s'.currentHandle = some h ∧
      ∃ i, s'.current = some i ∧ i.h = h := by
  unfold simpleSwitch at hs
  obtain ⟨wf1, st1, sc1, hch, n, hcache, hcur⟩ := loopSwitch_spec U h cc cn wf
  generalize loopSwitch U s h cc cn = s1 at *
  cases hc : callHandle U s1 h with
  | mk s2 i =>
    simp only [hc] at hs
    -- the handle is cached: nothing is loaded
    have : s2 = s1 ∧ i = ⟨h, n⟩ := by
      unfold callHandle at hc
      rw [hcache] at hc
      simp only [Prod.mk.injEq] at hc
      exact ⟨hc.1.symm, hc.2.symm⟩
    obtain ⟨rfl, rfl⟩ := this
    obtain ⟨wf3, st3, sc3, c3, ch3⟩ := enable_spec U fuel wf1 hcur hs
    exact ⟨wf3, st1.trans (st3.mono quiet_swP), sc1.trans sc3, ch3.trans hch,
      ⟨h, n⟩, c3.trans hcur, rfl⟩

theorem handleSwitch_spec (U : Universe) (fuel : Nat) :
    ∀ (n : Nat) (s s' : St) (h : Handle) (cc cn : Bool) (o : Outcome), WF s →
      handleSwitch U fuel n s h cc cn = (s', o) →
      WF s' ∧ Step SwP s s' ∧ SameClock s s' ∧ (n ≠ 0 → ∃ i, s'.current = some i) := by
  intro n
  induction n with
  | zero =>
    intro s s' h cc cn o wf hs
    simp only [handleSwitch, Prod.mk.injEq] at hs; obtain ⟨rfl, _⟩ := hs
    exact ⟨wf, Step.refl _ _, SameClock.refl _, fun c => absurd rfl c⟩
  | succ n ih =>
    intro s s' h cc cn o wf hs
    simp only [handleSwitch] at hs
    cases hss : simpleSwitch U fuel s h cc cn with
    | mk s1 o1 =>
      obtain ⟨wf1, st1, sc1, _, i, hi, _⟩ := simpleSwitch_spec U fuel wf hss
      rw [hss] at hs
      have base : (s1, o1) = (s', o) → WF s' ∧ Step SwP s s' ∧ SameClock s s' ∧
          (n + 1 ≠ 0 → ∃ i, s'.current = some i) := by
        intro he
        simp only [Prod.mk.injEq] at he; obtain ⟨rfl, _⟩ := he
        exact ⟨wf1, st1, sc1, fun _ => ⟨i, hi⟩⟩
      cases o1 with
      | ok => exact base hs
      | outOfFuel => exact base hs
      | raised x =>
        cases x with
        | switch h' cc' cn' =>
          simp only at hs
          obtain ⟨wf2, st2, sc2, c2⟩ := ih _ _ _ _ _ _ wf1 hs
          refine ⟨wf2, st1.trans st2, sc1.trans sc2, fun _ => ?_⟩
          cases n with
          | zero =>
            simp only [handleSwitch, Prod.mk.injEq] at hs; obtain ⟨rfl, _⟩ := hs
            exact ⟨i, hi⟩
          | succ m => exact c2 (Nat.succ_ne_zero m)
        | quit => exact base hs
        | other => exact base hs
        | attributeError => exact base hs
        | clockExhausted => exact base hs
        | noWorld => exact base hs

/-- entries of one loop iteration whose frame goes to instance `i` with delta `dt` -/
abbrev ItP (i : Inst) (dt : Int) : Entry → Prop := fun e => FrP i dt e ∨ SwP e

/-- the loop keeps having a current world -/
abbrev KeepsCur (s s' : St) : Prop := s.current ≠ none → s'.current ≠ none

theorem Ext.keepsCur {P : Entry → Prop} {s s' : St} (a : Ext P s s') : KeepsCur s s' :=
  fun h => by rw [a.current]; exact h

/-- what a piece of a frame of world `i` does: well-formedness, a step for every other world, the
clock fields, the current world stays set -/
structure FrameStep (i : Inst) (dt : Int) (s s' : St) : Prop where
  wf : WF s'
  step : StepE i (ItP i dt) s s'
  clock : SameClock s s'
  cur : KeepsCur s s'

theorem FrameStep.trans {i : Inst} {dt : Int} {a b c : St} (x : FrameStep i dt a b)
    (y : FrameStep i dt b c) : FrameStep i dt a c :=
  ⟨y.wf, x.step.trans y.step, x.clock.trans y.clock, fun h => y.cur (x.cur h)⟩

theorem FrameStep.ofExt {i : Inst} {dt : Int} {s s' : St} (wf' : WF s') (e : Ext Quiet s s') :
    FrameStep i dt s s' :=
  ⟨wf', (e.toStepQuiet.toStepE i).mono fun _ h => Or.inl (Or.inl h), e.sameClock, e.keepsCur⟩

/-- a processor's action, direct `loop.switch(...)` calls included -/
theorem pact_step (U : Universe) (fuel : Nat) {s s' : St} {a : PAct} {o : Outcome} (i : Inst)
    (dt : Int) (wf : WF s) (h : pact U fuel s a = (s', o)) : FrameStep i dt s s' := by
  cases a with
  | loopSwitch h' cc cn =>
    simp only [pact] at h
    obtain ⟨wf1, st1, sc1, _, j, hj, _⟩ := simpleSwitch_spec U fuel wf h
    exact ⟨wf1, (st1.toStepE i).mono fun _ h => Or.inr h, sc1, fun _ => by rw [hj]; simp⟩
  | user a =>
    obtain ⟨wf1, e1⟩ := pact_spec U fuel wf (a := .user a) rfl h
    exact FrameStep.ofExt wf1 e1
  | setClock k =>
    obtain ⟨wf1, e1⟩ := pact_spec U fuel wf (a := .setClock k) rfl h
    exact FrameStep.ofExt wf1 e1
  | peek =>
    obtain ⟨wf1, e1⟩ := pact_spec U fuel wf (a := .peek) rfl h
    exact FrameStep.ofExt wf1 e1

/-- logging an entry that belongs to world `i` is a frame step of `i` -/
theorem logOwn_step {i : Inst} {dt : Int} (s : St) (e : Entry) (hP : ItP i dt e)
    (hof : ∀ j, j ≠ i → e.of j = false) (wf : WF s) :
    FrameStep i dt s { s with log := e :: s.log } := by
  refine ⟨⟨wf.fresh, wf.cached, wf.cur⟩, ⟨[e], by simp, ?_, ?_⟩, ⟨rfl, rfl⟩, fun h => h⟩
  · intro x hx; simp only [List.mem_singleton] at hx; subst hx; exact hP
  · intro j q0 hj hm hc
    refine Or.inr ⟨hm, hc, ?_⟩
    intro x hx; simp only [List.mem_singleton] at hx; subst hx; exact hof j hj

theorem runProc_step (U : Universe) (fuel : Nat) {s s' : St} {i : Inst} {dt : Int} {p : Nat}
    {k : ProcKind} {a : PAct} {o : Outcome} (wf : WF s)
    (h : runProc U fuel s i dt p k a = (s', o)) : FrameStep i dt s s' := by
  unfold runProc at h
  have f1 : FrameStep i dt s { s with log := .proc i p dt :: s.log } :=
    logOwn_step s _ (Or.inl (Or.inr (Or.inl ⟨p, rfl⟩)))
      (fun j hj => by simp only [Entry.of, decide_eq_false_iff_not]; exact fun c => hj c.symm) wf
  cases k with
  | plain => exact f1.trans (pact_step U fuel i dt f1.wf h)
  | update =>
    obtain ⟨wf2, e2⟩ := dispatchWith_spec U (act_spec U fuel) f1.wf h
    exact f1.trans (FrameStep.ofExt wf2 e2)
  | coro =>
    simp only at h
    split at h
    · simp only [Prod.mk.injEq] at h; obtain ⟨rfl, _⟩ := h; exact f1
    · split at h
      · simp only [Prod.mk.injEq] at h; obtain ⟨rfl, _⟩ := h; exact f1
      · cases ha : pact U fuel { s with log := .proc i p dt :: s.log } a with
        | mk s2 o2 =>
          have f2 := f1.trans (pact_step U fuel i dt f1.wf ha)
          rw [ha] at h
          cases o2 with
          | ok => simp only [Prod.mk.injEq] at h; obtain ⟨rfl, _⟩ := h; exact f2
          | outOfFuel => simp only [Prod.mk.injEq] at h; obtain ⟨rfl, _⟩ := h; exact f2
          | raised x =>
            simp only [Prod.mk.injEq] at h; obtain ⟨rfl, _⟩ := h
            obtain ⟨wf3, e3⟩ := markDead_spec Quiet i p f2.wf
            exact f2.trans (FrameStep.ofExt wf3 e3)

theorem runProcs_step (U : Universe) (fuel : Nat) (i : Inst) (dt : Int) :
    ∀ (ks : List ProcKind) (s : St) (p : Nat) (acts : List PAct) (s' : St) (o : Outcome), WF s →
      runProcs U fuel i dt s p ks acts = (s', o) → FrameStep i dt s s' := by
  intro ks
  induction ks with
  | nil =>
    intro s p acts s' o wf h
    simp only [runProcs, Prod.mk.injEq] at h; obtain ⟨rfl, _⟩ := h
    exact ⟨wf, StepE.refl _ _ _, SameClock.refl _, fun h => h⟩
  | cons k ks ih =>
    intro s p acts s' o wf h
    simp only [runProcs] at h
    cases hr : runProc U fuel s i dt p k (acts.headD (.user .none)) with
    | mk s1 o1 =>
      have f1 := runProc_step U fuel wf hr
      rw [hr] at h
      cases o1 with
      | ok => exact f1.trans (ih _ _ _ _ _ f1.wf h)
      | raised x => simp only [Prod.mk.injEq] at h; obtain ⟨rfl, _⟩ := h; exact f1
      | outOfFuel => simp only [Prod.mk.injEq] at h; obtain ⟨rfl, _⟩ := h; exact f1

/-- One `World.process(dt)` of the current world `i`, whatever its processors do (direct
`loop.switch` calls included): a step; the remembered reading and `running` are not touched. -/
theorem processWorld_step (U : Universe) (fuel : Nat) {s s' : St} {i : Inst} {dt : Int}
    {acts : List PAct} {o : Outcome} (wf : WF s) (hc : s.current = some i)
    (h : processWorld U fuel s i dt acts = (s', o)) :
    WF s' ∧ Step (ItP i dt) s s' ∧ SameClock s s' ∧ s'.current ≠ none := by
  unfold processWorld at h
  have f1 : FrameStep i dt s { s with log := .frame i dt :: s.log } :=
    logOwn_step s _ (Or.inl (Or.inr (Or.inr rfl)))
      (fun j hj => by simp only [Entry.of, decide_eq_false_iff_not]; exact fun c => hj c.symm) wf
  have f2 := f1.trans (runProcs_step U fuel i dt _ _ _ _ _ _ f1.wf h)
  exact ⟨f2.wf, f2.step.toStep hc, f2.clock, f2.cur (by rw [hc]; simp)⟩

/-- One iteration: the state after the frame part and the switch part. -/
theorem loopStep_cases (U : Universe) (fuel : Nat) {s s' : St} {f : Frame} {o : Outcome}
    (h : loopStep U fuel s f = (s', o)) :
    (s.current = none ∧ s' = tickSt s (readingOf s.clock f) ∧ o = .raised .attributeError) ∨
    ∃ i, s.current = some i ∧ ∃ s1 o1,
      processWorld U fuel (tickSt s (readingOf s.clock f)) i
        (dtOf s.last (readingOf s.clock f)) f.acts = (s1, o1) ∧
      ((∃ h' cc cn, o1 = .raised (.switch h' cc cn) ∧
          handleSwitch U fuel fuel s1 h' cc cn = (s', o)) ∨
       ((∀ h' cc cn, o1 ≠ .raised (.switch h' cc cn)) ∧ s' = s1 ∧ o = o1)) := by
  unfold loopStep at h
  simp only at h
  split at h
  · rename_i hc
    simp only [Prod.mk.injEq] at h
    exact Or.inl ⟨hc, h.1.symm, h.2.symm⟩
  · rename_i i hc
    refine Or.inr ⟨i, hc, ?_⟩
    cases hp : processWorld U fuel (tickSt s (readingOf s.clock f)) i
        (dtOf s.last (readingOf s.clock f)) f.acts with
    | mk s1 o1 =>
      rw [hp] at h
      refine ⟨s1, o1, rfl, ?_⟩
      cases o1 with
      | ok =>
        simp only [Prod.mk.injEq] at h
        exact Or.inr ⟨fun _ _ _ c => (by cases c), h.1.symm, h.2.symm⟩
      | outOfFuel =>
        simp only [Prod.mk.injEq] at h
        exact Or.inr ⟨fun _ _ _ c => (by cases c), h.1.symm, h.2.symm⟩
      | raised x =>
        cases x with
        | switch h' cc cn => exact Or.inl ⟨h', cc, cn, rfl, h⟩
        | quit =>
          simp only [Prod.mk.injEq] at h
          exact Or.inr ⟨fun _ _ _ c => (by cases c), h.1.symm, h.2.symm⟩
        | other =>
          simp only [Prod.mk.injEq] at h
          exact Or.inr ⟨fun _ _ _ c => (by cases c), h.1.symm, h.2.symm⟩
        | attributeError =>
          simp only [Prod.mk.injEq] at h
          exact Or.inr ⟨fun _ _ _ c => (by cases c), h.1.symm, h.2.symm⟩
        | clockExhausted =>
          simp only [Prod.mk.injEq] at h
          exact Or.inr ⟨fun _ _ _ c => (by cases c), h.1.symm, h.2.symm⟩
        | noWorld =>
          simp only [Prod.mk.injEq] at h
          exact Or.inr ⟨fun _ _ _ c => (by cases c), h.1.symm, h.2.symm⟩

/-- anything the loop logs -/
abbrev AnyP : Entry → Prop := fun _ => True

/-- reading the clock is a step -/
theorem tickSt_step (s : St) (r : Int) : Step AnyP s (tickSt s r) :=
  ⟨[.tick r], by simp [tickSt], by simp, fun _ _ hm hc => Or.inr ⟨hm, hc, by
    intro e he; simp only [List.mem_singleton] at he; subst he; rfl⟩⟩

theorem tickSt_wf {s : St} (r : Int) (wf : WF s) : WF (tickSt s r) := ⟨wf.fresh, wf.cached, wf.cur⟩

theorem loopStep_spec (U : Universe) (fuel : Nat) {s s' : St} {f : Frame} {o : Outcome}
    (wf : WF s) (h : loopStep U fuel s f = (s', o)) :
    WF s' ∧ Step AnyP s s' ∧ s'.running = s.running ∧ (s.current ≠ none → o = .ok → s'.current ≠ none) := by
  rcases loopStep_cases U fuel h with ⟨_, rfl, rfl⟩ | ⟨i, hc, s1, o1, hp, hrest⟩
  · exact ⟨tickSt_wf _ wf, tickSt_step _ _, rfl, fun _ c => by cases c⟩
  · obtain ⟨wf1, st1', sc1, hcur1⟩ := processWorld_step U fuel (tickSt_wf _ wf) hc hp
    have st1 : Step AnyP s s1 := (tickSt_step s _).trans (st1'.mono fun _ _ => trivial)
    rcases hrest with ⟨h', cc, cn, _, hs⟩ | ⟨_, rfl, _⟩
    · obtain ⟨wf2, st2, sc2, hcur2⟩ := handleSwitch_spec U fuel fuel _ _ _ _ _ _ wf1 hs
      refine ⟨wf2, st1.trans (st2.mono fun _ _ => trivial), sc2.running.trans sc1.running, ?_⟩
      intro _ ho
      cases fuel with
      | zero => subst ho; simp [handleSwitch] at hs
      | succ n => obtain ⟨j, hj⟩ := hcur2 (Nat.succ_ne_zero _); rw [hj]; simp
    · exact ⟨wf1, st1, sc1.running, fun _ _ => hcur1⟩

theorem loopRun_spec (U : Universe) (fuel : Nat) :
    ∀ (frames : List Frame) (s s' : St) (o : Outcome), WF s →
      loopRun U fuel s frames = (s', o) → WF s' ∧ Step AnyP s s' ∧ s'.running = s.running := by
  intro frames
  induction frames with
  | nil =>
    intro s s' o wf h
    simp only [loopRun, Prod.mk.injEq] at h; obtain ⟨rfl, _⟩ := h
    exact ⟨wf, Step.refl _ _, rfl⟩
  | cons f fs ih =>
    intro s s' o wf h
    simp only [loopRun] at h
    cases hl : loopStep U fuel s f with
    | mk s1 o1 =>
      obtain ⟨wf1, st1, r1, _⟩ := loopStep_spec U fuel wf hl
      rw [hl] at h
      cases o1 with
      | ok =>
        obtain ⟨wf2, st2, r2⟩ := ih _ _ _ wf1 h
        exact ⟨wf2, st1.trans st2, r2.trans r1⟩
      | raised x =>
        simp only [Prod.mk.injEq] at h; obtain ⟨rfl, _⟩ := h; exact ⟨wf1, st1, r1⟩
      | outOfFuel =>
        simp only [Prod.mk.injEq] at h; obtain ⟨rfl, _⟩ := h; exact ⟨wf1, st1, r1⟩

theorem wf_init : WF ({} : St) :=
  ⟨fun _ _ _ => rfl, fun _ _ h => (by cases h), fun _ h => (by cases h)⟩

end Desper.Loop
