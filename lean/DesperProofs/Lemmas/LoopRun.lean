import DesperProofs.Lemmas.LoopStep
/-
  Switch handling and the loop itself as `Step`s.
-/
namespace Desper.Loop

/-- un-muting the current world is a step (no other world is concerned) -/
theorem setWorld_current_step (P : Entry → Prop) {s : St} {i : Inst} (w : World)
    (hcur : s.current = some i) : Step P s (setWorld s i w) := by
  refine ⟨[], by simp [setWorld], by simp, ?_⟩
  intro j q0 ⟨wj, hwj, hen, q, hq⟩ hc
  have e : j ≠ i := by intro c; subst c; exact hc hcur
  exact Or.inr ⟨⟨wj, by simp only [setWorld, upd_ne _ _ e]; exact hwj, hen, q, hq⟩, hc,
    by simp [NotOf]⟩

theorem enable_spec (U : Universe) (fuel : Nat) {s s' : St} {i : Inst} {o : Outcome} (wf : WF s)
    (hcur : s.current = some i) (h : enable U fuel s i = (s', o)) :
    WF s' ∧ Step Quiet s s' ∧ SameClock s s' ∧ s'.current = s.current ∧
      s'.currentHandle = s.currentHandle := by
  unfold enable at h
  split at h
  · simp only [Prod.mk.injEq] at h; obtain ⟨rfl, _⟩ := h
    exact ⟨wf, Step.refl _ _, SameClock.refl _, rfl, rfl⟩
  · rename_i w hw
    have wf1 := setWorld_wf { w with enabled := true } wf hw
    obtain ⟨wf2, st2, sc2, c2, ch2⟩ := release_spec U fuel i fuel _ _ _ wf1 h
    exact ⟨wf2, (setWorld_current_step Quiet _ hcur).trans st2, ⟨sc2.running, sc2.last⟩, c2, ch2⟩

theorem simpleSwitch_spec (U : Universe) (fuel : Nat) {s s' : St} {h : Handle} {cc cn : Bool}
    {o : Outcome} (wf : WF s) (hs : simpleSwitch U fuel s h cc cn = (s', o)) :
    WF s' ∧ Step SwP s s' ∧ SameClock s s' ∧ s'.currentHandle = some h ∧
      ∃ i, s'.current = some i ∧ i.h = h := by
  unfold simpleSwitch at hs
  obtain ⟨wf1, st1, sc1, hch, n, hcache, hcur⟩ := loopSwitch_spec U h cc cn wf
  generalize loopSwitch U s h cc cn = s1 at *
  cases hc : callHandle U s1 h with
  | mk s2 i =>
    simp only [hc] at hs
    -- the handle is cached: nothing is loaded
    have : s2 = s1 ∧ i = ⟨h, n⟩ := by
      unfold callHandle at hc
      rw [hcache] at hc
      simp only [Prod.mk.injEq] at hc
      exact ⟨hc.1.symm, hc.2.symm⟩
    obtain ⟨rfl, rfl⟩ := this
    obtain ⟨wf3, st3, sc3, c3, ch3⟩ := enable_spec U fuel wf1 hcur hs
    exact ⟨wf3, st1.trans (st3.mono quiet_swP), sc1.trans sc3, ch3.trans hch,
      ⟨h, n⟩, c3.trans hcur, rfl⟩

theorem handleSwitch_spec (U : Universe) (fuel : Nat) :
    ∀ (n : Nat) (s s' : St) (h : Handle) (cc cn : Bool) (o : Outcome), WF s →
      handleSwitch U fuel n s h cc cn = (s', o) →
      WF s' ∧ Step SwP s s' ∧ SameClock s s' ∧ (n ≠ 0 → ∃ i, s'.current = some i) := by
  intro n
  induction n with
  | zero =>
    intro s s' h cc cn o wf hs
    simp only [handleSwitch, Prod.mk.injEq] at hs; obtain ⟨rfl, _⟩ := hs
    exact ⟨wf, Step.refl _ _, SameClock.refl _, fun c => absurd rfl c⟩
  | succ n ih =>
    intro s s' h cc cn o wf hs
    simp only [handleSwitch] at hs
    cases hss : simpleSwitch U fuel s h cc cn with
    | mk s1 o1 =>
      obtain ⟨wf1, st1, sc1, _, i, hi, _⟩ := simpleSwitch_spec U fuel wf hss
      rw [hss] at hs
      have base : (s1, o1) = (s', o) → WF s' ∧ Step SwP s s' ∧ SameClock s s' ∧
          (n + 1 ≠ 0 → ∃ i, s'.current = some i) := by
        intro he
        simp only [Prod.mk.injEq] at he; obtain ⟨rfl, _⟩ := he
        exact ⟨wf1, st1, sc1, fun _ => ⟨i, hi⟩⟩
      cases o1 with
      | ok => exact base hs
      | outOfFuel => exact base hs
      | raised x =>
        cases x with
        | switch h' cc' cn' =>
          simp only at hs
          obtain ⟨wf2, st2, sc2, c2⟩ := ih _ _ _ _ _ _ wf1 hs
          refine ⟨wf2, st1.trans st2, sc1.trans sc2, fun _ => ?_⟩
          cases n with
          | zero =>
            simp only [handleSwitch, Prod.mk.injEq] at hs; obtain ⟨rfl, _⟩ := hs
            exact ⟨i, hi⟩
          | succ m => exact c2 (Nat.succ_ne_zero m)
        | quit => exact base hs
        | other => exact base hs
        | attributeError => exact base hs
        | clockExhausted => exact base hs
        | noWorld => exact base hs

/-- entries of one loop iteration whose frame goes to instance `i` with delta `dt` -/
abbrev ItP (i : Inst) (dt : Int) : Entry → Prop := fun e => FrP i dt e ∨ SwP e

/-- One iteration: the state after the frame part and the switch part. -/
theorem loopStep_cases (U : Universe) (fuel : Nat) {s s' : St} {f : Frame} {o : Outcome}
    (h : loopStep U fuel s f = (s', o)) :
    (s.current = none ∧ s' = { s with last := some f.reading } ∧ o = .raised .attributeError) ∨
    ∃ i, s.current = some i ∧ ∃ s1 o1,
      processWorld U fuel { s with last := some f.reading } i (dtOf s.last f.reading) f.acts
        = (s1, o1) ∧
      ((∃ h' cc cn, o1 = .raised (.switch h' cc cn) ∧
          handleSwitch U fuel fuel s1 h' cc cn = (s', o)) ∨
       ((∀ h' cc cn, o1 ≠ .raised (.switch h' cc cn)) ∧ s' = s1 ∧ o = o1)) := by
  unfold loopStep at h
  simp only at h
  split at h
  · rename_i hc
    simp only [Prod.mk.injEq] at h
    exact Or.inl ⟨hc, h.1.symm, h.2.symm⟩
  · rename_i i hc
    refine Or.inr ⟨i, hc, ?_⟩
    cases hp : processWorld U fuel { s with last := some f.reading } i (dtOf s.last f.reading)
        f.acts with
    | mk s1 o1 =>
      rw [hp] at h
      refine ⟨s1, o1, rfl, ?_⟩
      cases o1 with
      | ok =>
        simp only [Prod.mk.injEq] at h
        exact Or.inr ⟨fun _ _ _ c => (by cases c), h.1.symm, h.2.symm⟩
      | outOfFuel =>
        simp only [Prod.mk.injEq] at h
        exact Or.inr ⟨fun _ _ _ c => (by cases c), h.1.symm, h.2.symm⟩
      | raised x =>
        cases x with
        | switch h' cc cn => exact Or.inl ⟨h', cc, cn, rfl, h⟩
        | quit =>
          simp only [Prod.mk.injEq] at h
          exact Or.inr ⟨fun _ _ _ c => (by cases c), h.1.symm, h.2.symm⟩
        | other =>
          simp only [Prod.mk.injEq] at h
          exact Or.inr ⟨fun _ _ _ c => (by cases c), h.1.symm, h.2.symm⟩
        | attributeError =>
          simp only [Prod.mk.injEq] at h
          exact Or.inr ⟨fun _ _ _ c => (by cases c), h.1.symm, h.2.symm⟩
        | clockExhausted =>
          simp only [Prod.mk.injEq] at h
          exact Or.inr ⟨fun _ _ _ c => (by cases c), h.1.symm, h.2.symm⟩
        | noWorld =>
          simp only [Prod.mk.injEq] at h
          exact Or.inr ⟨fun _ _ _ c => (by cases c), h.1.symm, h.2.symm⟩

/-- setting the timestamp is a step -/
theorem setLast_step (P : Entry → Prop) (s : St) (r : Int) : Step P s { s with last := some r } :=
  ⟨[], by simp, by simp, fun _ _ hm hc => Or.inr ⟨hm, hc, by simp [NotOf]⟩⟩

/-- anything the loop logs -/
abbrev AnyP : Entry → Prop := fun _ => True

theorem loopStep_spec (U : Universe) (fuel : Nat) {s s' : St} {f : Frame} {o : Outcome}
    (wf : WF s) (h : loopStep U fuel s f = (s', o)) :
    WF s' ∧ Step AnyP s s' ∧ s'.running = s.running := by
  rcases loopStep_cases U fuel h with ⟨_, rfl, _⟩ | ⟨i, hc, s1, o1, hp, hrest⟩
  · exact ⟨⟨wf.fresh, wf.cached, wf.cur⟩, setLast_step _ _ _, rfl⟩
  · have wf0 : WF { s with last := some f.reading } := ⟨wf.fresh, wf.cached, wf.cur⟩
    obtain ⟨wf1, e1⟩ := processWorld_spec U fuel wf0 hp
    have st1 : Step AnyP s s1 :=
      (setLast_step AnyP s f.reading).trans
        ((frame_toStep (s := { s with last := some f.reading }) hc e1).mono fun _ _ => trivial)
    rcases hrest with ⟨h', cc, cn, _, hs⟩ | ⟨_, rfl, _⟩
    · obtain ⟨wf2, st2, sc2, _⟩ := handleSwitch_spec U fuel fuel _ _ _ _ _ _ wf1 hs
      exact ⟨wf2, st1.trans (st2.mono fun _ _ => trivial), sc2.running.trans e1.running⟩
    · exact ⟨wf1, st1, e1.running⟩

theorem loopRun_spec (U : Universe) (fuel : Nat) :
    ∀ (frames : List Frame) (s s' : St) (o : Outcome), WF s →
      loopRun U fuel s frames = (s', o) → WF s' ∧ Step AnyP s s' ∧ s'.running = s.running := by
  intro frames
  induction frames with
  | nil =>
    intro s s' o wf h
    simp only [loopRun, Prod.mk.injEq] at h; obtain ⟨rfl, _⟩ := h
    exact ⟨wf, Step.refl _ _, rfl⟩
  | cons f fs ih =>
    intro s s' o wf h
    simp only [loopRun] at h
    cases hl : loopStep U fuel s f with
    | mk s1 o1 =>
      obtain ⟨wf1, st1, r1⟩ := loopStep_spec U fuel wf hl
      rw [hl] at h
      cases o1 with
      | ok =>
        obtain ⟨wf2, st2, r2⟩ := ih _ _ _ wf1 h
        exact ⟨wf2, st1.trans st2, r2.trans r1⟩
      | raised x =>
        simp only [Prod.mk.injEq] at h; obtain ⟨rfl, _⟩ := h; exact ⟨wf1, st1, r1⟩
      | outOfFuel =>
        simp only [Prod.mk.injEq] at h; obtain ⟨rfl, _⟩ := h; exact ⟨wf1, st1, r1⟩

theorem wf_init : WF ({} : St) :=
  ⟨fun _ _ _ => rfl, fun _ _ h => (by cases h), fun _ h => (by cases h)⟩

end Desper.Loop
