import DesperProofs.Lemmas.DispPassive
namespace Desper.Disp
open Desper

/-! ### callbacks are balanced: every operation leaves the stack of executing receivers as it was -/

theorem pinned_all (U : Universe) (fuel : Nat) :
    (∀ s op, (execOp U fuel s op).1.pinned = s.pinned) ∧
    (∀ s ops, (execOps U fuel s ops).1.pinned = s.pinned) ∧
    (∀ s rem args, (deliver U fuel s rem args).1.pinned = s.pinned) ∧
    (∀ s, (release U fuel s).1.pinned = s.pinned) := by
  induction fuel with
  | zero => refine ⟨?_, ?_, ?_, ?_⟩ <;> intros <;> simp [execOp, execOps, deliver, release]
  | succ fuel ih =>
    obtain ⟨ihOp, ihOps, ihDel, ihRel⟩ := ih
    refine ⟨?_, ?_, ?_, ?_⟩
    · intro s op
      cases op with
      | raise e => simp [execOp]
      | isHandler o => simp only [execOp]; split <;> rfl
      | add o =>
        simp only [execOp]
        split
        · split <;> rfl
        · rfl
      | remove o =>
        simp only [execOp]
        split
        · exact (removeWeak_queue s o).2.2.2.2.2.2
        · rfl
      | drop o =>
        simp only [execOp]
        split
        · exact (dropObj_queue s o).2.2.2.2.2.2
        · rfl
      | clear => simp only [execOp]
      | dispatch ev args =>
        simp only [execOp]
        split
        · rfl
        · split
          · rfl
          · exact ihDel _ _ _
      | enable b =>
        simp only [execOp]
        split
        · rfl
        · exact ihRel _
    · intro s ops
      cases ops with
      | nil => simp [execOps]
      | cons op rest =>
        simp only [execOps]
        split
        · rename_i s' h
          have := ihOp s op
          rw [h] at this
          rw [ihOps, this]
        · rename_i r h
          exact ihOp s op
    · intro s rem args
      simp only [deliver]
      split
      · rfl
      · split
        · rfl
        · rename_i h hs hh
          split
          · rfl
          · rename_i r m hfind
            have r1 := ihOps { s with hints := hs, calls := Dict.set s.calls (r, m) ((Dict.get? s.calls (r, m)).getD 0 + 1), pinned := r :: s.pinned, log := .cb (some r) (U.impl r m) args :: s.log } (U.reaction r m ((Dict.get? s.calls (r, m)).getD 0))
            split
            · rename_i s' hx
              rw [hx] at r1
              rw [ihDel, (unpin_queue s' r).2.2.2.2.2.2, r1]
              simp
            · rename_i s' o hne hx
              rw [hx] at r1
              simp only
              rw [(unpin_queue s' r).2.2.2.2.2.2, r1]
              simp
    · intro s
      simp only [release]
      split
      · rfl
      · rename_i ev args q hq
        split
        · rfl
        · split
          · rename_i s' hx
            have := ihOp { s with queue := q, released := s.released ++ [(ev, args)] } (.dispatch ev args)
            rw [hx] at this
            rw [ihRel, this]
          · rename_i r hx
            exact ihOp _ _

theorem pinned_run (U : Universe) (fuel : Nat) (s : St) (ops : List Op) :
    (run U fuel s ops).pinned = s.pinned := by
  induction ops generalizing s with
  | nil => rfl
  | cons op rest ih =>
    show (run U fuel (topOp U fuel s op) rest).pinned = s.pinned
    rw [ih]
    unfold topOp
    have := (pinned_all U fuel).1 s op
    cases h : execOp U fuel s op with
    | mk s' o => rw [h] at this; exact this

/-- facts about every state between two top-level operations of a scenario -/
theorem top_state {U : Universe} (hU : U.WF) (held hints : List Obj) (fuel : Nat) (ops : List Op) :
    Inv U (run U fuel (init held hints) ops) ∧
    (run U fuel (init held hints) ops).pinned = [] ∧
    (run U fuel (init held hints) ops).dying = [] ∧
    QInv (run U fuel (init held hints) ops) ∧
    NoNone (run U fuel (init held hints) ops) := by
  have hr := reach_run U fuel (init held hints) ops
  have hi := inv_reach hU (inv_init U held hints) hr
  have hp : (run U fuel (init held hints) ops).pinned = [] := by
    rw [pinned_run]; rfl
  refine ⟨hi, hp, ?_, ?_, ?_⟩
  · cases hd : (run U fuel (init held hints) ops).dying with
    | nil => rfl
    | cons x xs =>
      have := (hi.dying x (by rw [hd]; simp)).1
      rw [hp] at this; simp at this
  · exact qinv_reach (by simp [QInv, init]) hr
  · exact nonone_reach (by simp [NoNone, init]) hr

theorem drop_unregisters {U : Universe} (hU : U.WF) {s : St} (hi : Inv U s) (hp : s.pinned = [])
    (o : Obj) :
    Dict.get? (dropObj s o).handlers o = none ∧ (∀ ev x, x ∈ evl (dropObj s o) ev → x.1 ≠ o) ∧
    (dropObj s o).alive o = false := by
  have hd : dropObj s o = finalize { s with held := s.held.filter (· ≠ o) } o := by
    simp [dropObj, hp]
  have ht : TInv U { s with held := s.held.filter (· ≠ o) } := tinv_of_tables hi.toTInv rfl rfl
  obtain ⟨hev, hh, hheld, hpin, _⟩ := finalize_spec hU ht o
  rw [hd]
  refine ⟨by rw [hh]; simp, ?_, ?_⟩
  · intro ev x hx
    exact ((hev ev x).mp hx).2
  · unfold St.alive
    rw [hheld, hpin]
    simp [hp]

/-! ### universes built from scenario text are well formed (Python dicts have unique keys) -/

theorem keys_nodup_set {κ ν : Type} [DecidableEq κ] (d : Dict κ ν) (k : κ) (v : ν)
    (h : (d.map (·.1)).Nodup) : ((Dict.set d k v).map (·.1)).Nodup := by
  induction d with
  | nil => simp [Dict.set]
  | cons p rest ih =>
    obtain ⟨a, b⟩ := p
    simp only [Dict.set]
    split
    · exact h
    · rename_i hne
      simp only [List.map_cons, List.nodup_cons] at h ⊢
      refine ⟨?_, ih h.2⟩
      intro hm
      simp only [List.mem_map] at hm
      obtain ⟨⟨k', v'⟩, hmem, hk⟩ := hm
      simp only at hk; subst hk
      -- a key of `set rest k v` is `k` or a key of `rest`
      have : ∀ (d : Dict κ ν) (x : κ × ν), x ∈ Dict.set d k v → x.1 = k ∨ x.1 ∈ d.map (·.1) := by
        intro d
        induction d with
        | nil => intro x hx; simp [Dict.set] at hx; left; rw [hx]
        | cons q r ih2 =>
          obtain ⟨c, e⟩ := q
          intro x hx
          simp only [Dict.set] at hx
          split at hx
          · rename_i hc
            simp only [List.mem_cons] at hx
            rcases hx with hx | hx
            · left; rw [hx]; exact hc
            · right; simp only [List.map_cons, List.mem_cons, List.mem_map]; right; exact ⟨x, hx, rfl⟩
          · simp only [List.mem_cons] at hx
            rcases hx with hx | hx
            · right; rw [hx]; simp
            · rcases ih2 x hx with h1 | h1
              · exact .inl h1
              · right; simp only [List.map_cons, List.mem_cons]; exact .inr h1
      rcases this rest (k', v') hmem with h1 | h1
      · exact hne h1
      · exact h.1 h1

theorem decorate_nodup (inh : Option Mapping) (names : List String) (kw : List (String × String))
    (h : ∀ m, inh = some m → (m.map (·.1)).Nodup) :
    ∀ m, decorate inh names kw = some m → (m.map (·.1)).Nodup := by
  intro m hm
  unfold decorate at hm
  split at hm
  · exact h m hm
  · simp only [Option.some.injEq] at hm
    subst hm
    have hbase : ((inh.getD []).map (·.1)).Nodup := by
      cases inh with
      | none => simp
      | some b => exact h b rfl
    have h1 : ∀ (l : List String) (d : Mapping), (d.map (·.1)).Nodup →
        ((l.foldl (fun m n => Dict.set m n n) d).map (·.1)).Nodup := by
      intro l
      induction l with
      | nil => intro d hd; exact hd
      | cons a l ih => intro d hd; exact ih _ (keys_nodup_set d a a hd)
    have h2 : ∀ (l : List (String × String)) (d : Mapping), (d.map (·.1)).Nodup →
        ((l.foldl (fun m p => Dict.set m p.1 p.2) d).map (·.1)).Nodup := by
      intro l
      induction l with
      | nil => intro d hd; exact hd
      | cons a l ih => intro d hd; exact ih _ (keys_nodup_set d a.1 a.2 hd)
    exact h2 _ _ (h1 _ _ hbase)

theorem classTable_nodup (cs : List ClassDecl) :
    ∀ m, some m ∈ classTable cs → (m.map (·.1)).Nodup := by
  unfold classTable
  suffices H : ∀ (tbl : List (Option Mapping)), (∀ m, some m ∈ tbl → (m.map (·.1)).Nodup) →
      ∀ m, some m ∈ cs.foldl (fun tbl c => tbl ++ [decorate (inheritedOf tbl c.bases) c.names c.kw]) tbl →
        (m.map (·.1)).Nodup from H [] (by simp)
  induction cs with
  | nil => intro tbl h; exact h
  | cons c cs ih =>
    intro tbl h
    apply ih
    intro m hm
    simp only [List.mem_append, List.mem_singleton] at hm
    rcases hm with hm | hm
    · exact h m hm
    · apply decorate_nodup (inheritedOf tbl c.bases) c.names c.kw _ m hm.symm
      intro m' hm'
      unfold inheritedOf at hm'
      obtain ⟨b, _, hb⟩ := List.exists_of_findSome?_eq_some hm'
      apply h m'
      cases hb' : tbl[b]? with
      | none => simp [hb'] at hb
      | some x =>
        simp only [hb', Option.join_some] at hb
        subst hb
        exact List.mem_of_getElem? hb'

theorem dictOfPairs_nodup (m : Mapping) : ((dictOfPairs m).map (·.1)).Nodup := by
  unfold dictOfPairs
  suffices H : ∀ (d : Mapping), (Dict.keys d).Nodup →
      (Dict.keys (m.foldl (fun d kv => Dict.set d kv.1 kv.2) d)).Nodup from H [] (by simp [Dict.keys])
  induction m with
  | nil => intro d h; exact h
  | cons kv m ih => intro d h; exact ih _ (Dict.keys_nodup_set d kv.1 kv.2 h)

theorem parsed_universe_wf (p : Parsed) : p.universe.WF := by
  constructor
  intro o m hm
  simp only [Parsed.universe] at hm
  cases he : Dict.get? p.objEvents o with
  | some e =>
    simp only [he, Option.map_some, Option.orElse_some, Option.some.injEq] at hm
    subst hm
    exact dictOfPairs_nodup e
  | none =>
    simp only [he, Option.map_none, Option.orElse_none] at hm
    cases ho : Dict.get? p.objClass o with
    | none => simp [ho] at hm
    | some c =>
      simp only [ho, Option.bind_some] at hm
      cases hc : (classTable p.classes)[c]? with
      | none => simp [hc] at hm
      | some x =>
        simp only [hc, Option.join_some] at hm
        subst hm
        exact classTable_nodup p.classes m (List.mem_of_getElem? hc)

end Desper.Disp
