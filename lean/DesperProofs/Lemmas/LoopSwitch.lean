import DesperProofs.Lemmas.LoopTrace
/-
  The master lemma about one switch request through `switch()` and its service by the loop.
-/
namespace Desper.Loop

/-- The handle being left holds the world that runs (it always does, except after an
on_switch_out callback of a clearing switch to the own handle raised or switched itself: D26). -/
def Coherent (s : St) : Prop :=
  ∀ ch, s.currentHandle = some ch → ∃ n, s.cache ch = some n ∧ s.current = some ⟨ch, n⟩

/-- the state in which `switch()` loads its target -/
abbrev preLoad (s : St) (h : Handle) (cc cn : Bool) : St :=
  if (cn || restartOf s h cc) = true then clearHandle s h else s

theorem heldLog_snoc (i : Inst) (q : List (Ev × Args)) (e : Ev) (a : Args) :
    heldLog i (q ++ [(e, a)]) = .ev i e a :: heldLog i q := by
  simp [heldLog]

/-- What `callHandle` in `switch()` does to the load counts: at most one load, of the target. -/
theorem callHandle_loads (U : Universe) {s s1 : St} {h : Handle} {to : Inst}
    (hc : callHandle U s h = (s1, to)) :
    to.h = h ∧ (∀ h', h' ≠ h → s1.loads h' = s.loads h') ∧
    ((s1.loads h = s.loads h ∧ s1.log = s.log ∧ s.cache h = some to.n) ∨
     (s1.loads h = s.loads h + 1 ∧ s1.log = .load to :: s.log ∧ s.cache h = none ∧
       to.n = s.loads h + 1)) := by
  rcases callHandle_cases U s h with ⟨n, hn, he⟩ | ⟨hn, s', he, h1, h2, h3, _⟩
  · rw [he] at hc; simp only [Prod.mk.injEq] at hc; obtain ⟨rfl, rfl⟩ := hc
    exact ⟨rfl, fun _ _ => rfl, Or.inl ⟨rfl, rfl, hn⟩⟩
  · rw [he] at hc; simp only [Prod.mk.injEq] at hc; obtain ⟨rfl, rfl⟩ := hc
    exact ⟨rfl, h3, Or.inr ⟨h2, h1, hn, rfl⟩⟩

/-- One switch request through `switch(h, cc, cn)` issued while world `frm` runs, whose
callbacks (on_switch_out, the callbacks held by the target, on_switch_in) return normally, and its
service by the loop. -/
theorem switch_served (U : Universe) (fuel k : Nat) {s s1 : St} {h : Handle} {cc cn : Bool}
    {frm to : Inst} {wfrm : World} (wf : WF s)
    (hcur : s.current = some frm) (hw : s.worlds frm = some wfrm) (hen : wfrm.enabled = true)
    (hc : callHandle U (preLoad s h cc cn) h = (s1, to))
    (hcoh : cc = true → s.currentHandle = some h →
      ∃ n, s.cache h = some n ∧ s.current = some ⟨h, n⟩) :
    ∃ wto, s1.worlds to = some wto ∧
    ((∀ m, m < wto.queue.length + 2 → U.react (s.delivered + m) = .none) →
     wto.queue.length + 1 < fuel + 1 →
     ∃ s5 s6,
      act U (fuel + 2) s (.switch h cc cn)
        = (s5, .raised (.switch h (cc && !restartOf s h cc) false)) ∧
      handleSwitch U (fuel + 1) (k + 1) s5 h (cc && !restartOf s h cc) false = (s6, .ok) ∧
      s5.log = .ev frm .switchOut (.worlds (some frm) to) :: s1.log ∧
      s6.log = .ev to .switchIn (.worlds (some frm) to) :: heldLog to wto.queue ++
        .enter to :: s5.log ∧
      s6.current = some to ∧ s6.currentHandle = some h ∧ s6.cache h = some to.n ∧
      s6.loads = s1.loads ∧ s6.worlds to = some ⟨true, [], wto.dead⟩ ∧
      (frm ≠ to → s6.worlds frm = some { wfrm with enabled := false }) ∧
      ((cc && !restartOf s h cc) = true → ∀ ch, s.currentHandle = some ch → s6.cache ch = none) ∧
      s6.running = s.running ∧ s6.last = s.last) := by
  have wf0 : WF (preLoad s h cc cn) := by
    unfold preLoad; split
    · exact clearHandle_wf _ wf
    · exact wf
  obtain ⟨wf1, e1, hto, hcache1, ⟨wto, hwto⟩, _⟩ := callHandle_spec U wf0 hc
  refine ⟨wto, hwto, ?_⟩
  intro hp hfuel
  have hk : ∀ t, act U (fuel + 1) t (U.react s.delivered) = (t, .ok) := by
    intro t
    have := hp 0 (by omega)
    simp only [Nat.add_zero] at this
    rw [this, act_none]
  obtain ⟨s5, hact, hlog5, hdel5, hcache5, hloads5, hcur5, hch5, hrun5, hlast5, hwto5, hwfrm5,
    hother5⟩ := doSwitch_passive U (act U (fuel + 1)) wf hcur hw hen hc hwto hk
  have hto' : to = ⟨h, to.n⟩ := by cases to; simp only at hto; subst hto; rfl
  have hguard : (cc && !restartOf s h cc) = true → s5.currentHandle ≠ some h := by
    intro hcc hch
    rw [hch5] at hch
    simp only [Bool.and_eq_true, Bool.not_eq_eq_eq_not, Bool.not_true] at hcc
    obtain ⟨n, hn, hcn⟩ := hcoh hcc.1 hch
    have : restartOf s h cc = true := by simp [restartOf, hcc.1, hn, hcn]
    rw [this] at hcc; exact absurd hcc.2 (by simp)
  have hw5 : s5.worlds ⟨h, to.n⟩ =
      some ⟨false, wto.queue ++ [(.switchIn, .worlds (some frm) to)], wto.dead⟩ := by
    rw [← hto']; exact hwto5
  obtain ⟨s6, hss, hlog6, hwor6, hdel6, hloads6, hcur6, hch6, hrun6, hlast6, hcache6, hclear6, _⟩ :=
    simpleSwitch_passive U fuel (s := s5) (h := h) (n := to.n) (cc := cc && !restartOf s h cc)
      (by rw [hcache5]; exact hcache1) hw5 hguard (by simpa using hfuel)
      (by
        intro m hm
        simp only [List.length_append, List.length_singleton] at hm
        rw [hdel5, Nat.add_assoc]
        exact hp (1 + m) (by omega))
  refine ⟨s5, s6, by simp only [act]; exact hact, ?_, hlog5, ?_, by rw [hcur6, ← hto'], hch6,
    hcache6, by rw [hloads6, hloads5], ?_, ?_, ?_, by rw [hrun6, hrun5], by rw [hlast6, hlast5]⟩
  · simp only [handleSwitch, hss]
  · rw [hlog6, ← hto', heldLog_snoc]
  · rw [hwor6, ← hto']; simp
  · intro hne
    rw [hwor6, ← hto', upd_ne _ _ hne]; exact hwfrm5 hne
  · intro hcc ch hch
    exact hclear6 ch hcc (by rw [hch5]; exact hch)

end Desper.Loop
