import DesperProofs.Lemmas.WorldProcFrame
namespace Desper.World
open Desper

theorem removeProcessor_spec (U : Universe) [U.NoReenter] (s : St) (t : Ty) :
    ((visit U t).find? (fun st => (Dict.get? s.procs st).isSome) = none ∧
        removeProcessor U s t = (s, .ok, none)) ∨
    (∃ st p, (visit U t).find? (fun st => (Dict.get? s.procs st).isSome) = some st ∧
        Dict.get? s.procs st = some p ∧ (removeProcessor U s t).2.2 = some p ∧
        SameTables U (dropProc U s st) (removeProcessor U s t).1) := by
  unfold removeProcessor
  cases hf : (visit U t).find? (fun st => (Dict.get? s.procs st).isSome) with
  | none => left; exact ⟨rfl, rfl⟩
  | some st =>
    right
    have hsome := List.find?_some hf
    simp only [Option.isSome_iff_exists] at hsome
    obtain ⟨p, hp⟩ := hsome
    refine ⟨st, p, rfl, hp, ?_⟩
    simp only [hp]
    cases hm : U.mapOf p with
    | none => exact ⟨rfl, .refl _⟩
    | some m =>
      simp only
      have h1 := lifecycle_tables U (dropProc U s st) onRemove p m none
      cases hl : lifecycle U (dropProc U s st) onRemove p m none with
      | mk s' o =>
        rw [hl] at h1
        cases o <;> simp only
        · exact ⟨trivial, SameTables.trans h1 (removeHandler_tables s' p)⟩
        all_goals exact ⟨trivial, h1⟩

theorem pinv_dropProc {U : Universe} {s : St} (h : PInv U s) (st : Ty) : PInv U (dropProc U s st) := by
  have hpr : ∀ x, priority U (dropProc U s st) x = priority U s x := fun x => rfl
  refine ⟨?_, ?_, ?_⟩
  · simp only [hpr]
    exact List.Pairwise.filter _ h.sortedP
  · intro t p
    simp only [dropProc, Dict.get?_erase, List.mem_filter]
    split
    · rename_i e; subst e
      constructor
      · intro hc; simp at hc
      · rintro ⟨⟨_, h2⟩, h3⟩
        simp [h3] at h2
    · rename_i hne
      rw [h.procsIff t p]
      constructor
      · rintro ⟨h1, h2⟩
        refine ⟨⟨h1, ?_⟩, h2⟩
        simp only [ne_eq, decide_not, Bool.not_eq_eq_eq_not, Bool.not_true, decide_eq_false_iff_not]
        rw [h2]; exact fun e => hne e.symm
      · rintro ⟨⟨h1, _⟩, h2⟩; exact ⟨h1, h2⟩
  · exact h.nodup.sublist (List.filter_sublist)

theorem pinv_removeProcessor {U : Universe} [U.NoReenter] {s : St} (h : PInv U s) (t : Ty) :
    PInv U (removeProcessor U s t).1 := by
  rcases removeProcessor_spec U s t with ⟨_, heq⟩ | ⟨st, p, _, _, _, hsame⟩
  · rw [heq]; exact h
  · exact pinv_sameTables (pinv_dropProc h st) hsame

/-- after `remove_processor(T)` for an exact type that is present, no processor of that type is left -/
theorem removeProcessor_exact (U : Universe) [U.NoReenter] {s : St} (h : PInv U s) (t : Ty) (p : Obj)
    (hp : Dict.get? s.procs t = some p) :
    Dict.get? (removeProcessor U s t).1.procs t = none ∧
    ∀ q, q ∈ (removeProcessor U s t).1.sorted → tyOf U q ≠ t := by
  rcases removeProcessor_spec U s t with ⟨hf, _⟩ | ⟨st, p', hf, _, _, hsame⟩
  · obtain ⟨rest, hr⟩ := visit_head U t
    rw [hr, List.find?_cons] at hf
    simp [hp] at hf
  · obtain ⟨rest, hr⟩ := visit_head U t
    rw [hr, List.find?_cons] at hf
    simp only [hp, Option.isSome_some] at hf
    have : st = t := by simpa using hf.symm
    subst this
    rw [hsame.procs, hsame.sorted]
    refine ⟨by simp [dropProc, Dict.get?_erase], ?_⟩
    intro q hq
    simp only [dropProc, List.mem_filter] at hq
    simpa using hq.2

theorem pinv_setPrio {U : Universe} {s : St} (h : PInv U s) (p : Obj) (hp : p ∉ s.sorted)
    (prio? : Option Int) : PInv U (setPrio s p prio?) := by
  cases prio? with
  | none => exact h
  | some v =>
    refine ⟨?_, h.procsIff, h.nodup⟩
    have : ∀ x, x ∈ s.sorted → priority U (setPrio s p (some v)) x = priority U s x := by
      intro x hx
      have hne : p ≠ x := fun e => hp (e ▸ hx)
      simp [priority, setPrio, Dict.get?_set, hne]
    show (setPrio s p (some v)).sorted.Pairwise _
    have hs : (setPrio s p (some v)).sorted = s.sorted := rfl
    rw [hs]
    refine (List.Pairwise.imp_of_mem ?_ h.sortedP)
    intro a b ha hb hab
    rw [this a ha, this b hb]; exact hab

theorem pinv_insertProc {U : Universe} {s : St} (h : PInv U s) (p : Obj)
    (hty : ∀ q, q ∈ s.sorted → tyOf U q ≠ tyOf U p) : PInv U (insertProc U s p) := by
  have hpn : p ∉ s.sorted := fun hm => hty p hm rfl
  have hpr : ∀ x, priority U (insertProc U s p) x = priority U s x := fun x => rfl
  refine ⟨?_, ?_, ?_⟩
  · simp only [hpr]; exact insort_pairwise U s p h.sortedP
  · intro t q
    simp only [insertProc, Dict.get?_set, mem_insort]
    split
    · rename_i e; subst e
      constructor
      · intro hq; simp at hq; subst hq; exact ⟨.inl rfl, rfl⟩
      · rintro ⟨hq | hq, ht⟩
        · rw [hq]
        · exact absurd ht (hty q hq)
    · rename_i hne
      rw [h.procsIff t q]
      constructor
      · rintro ⟨h3, h4⟩; exact ⟨.inr h3, h4⟩
      · rintro ⟨h3 | h3, h4⟩
        · subst h3; exact absurd h4 hne
        · exact ⟨h3, h4⟩
  · obtain ⟨i, heq, _, _⟩ := insort_spec U s p h.sortedP
    show (insort U s p).Nodup
    rw [heq, List.append_assoc]
    have hnd := h.nodup
    rw [← List.take_append_drop i s.sorted] at hnd
    rw [List.nodup_append] at hnd ⊢
    refine ⟨hnd.1, ?_, ?_⟩
    · rw [List.singleton_append, List.nodup_cons]
      exact ⟨fun hm => hpn (List.mem_of_mem_drop hm), hnd.2.1⟩
    · intro a ha b hb
      simp only [List.singleton_append, List.mem_cons] at hb
      rcases hb with rfl | hb
      · intro e; subst e; exact hpn (List.mem_of_mem_take ha)
      · exact hnd.2.2 a ha b hb

theorem pinv_addProcessor {U : Universe} [U.NoReenter] {s : St} (h : PInv U s) (p : Obj) (prio? : Option Int) :
    PInv U (addProcessor U s p prio?).1 := by
  unfold addProcessor
  simp only
  have key : ∀ s1 : St, PInv U s1 → (∀ q, q ∈ s1.sorted → tyOf U q ≠ tyOf U p) →
      PInv U (attachEvents U (insertProc U (setPrio s1 p prio?) p) p none).1 := by
    intro s1 h1 hty
    have hpn : p ∉ s1.sorted := fun hm => hty p hm rfl
    have h2 := pinv_setPrio h1 p hpn prio?
    have hs : (setPrio s1 p prio?).sorted = s1.sorted := by cases prio? <;> rfl
    exact pinv_sameTables (pinv_insertProc h2 p (by rw [hs]; exact hty)) (attachEvents_tables U _ p none)
  split
  · rename_i s1 hx
    split at hx
    · rename_i hsome
      obtain ⟨q, hq⟩ := Option.isSome_iff_exists.mp hsome
      have hinv := pinv_removeProcessor h (tyOf U p)
      have hex := removeProcessor_exact U h (tyOf U p) q hq
      simp only [Prod.mk.injEq] at hx
      rw [hx.1] at hinv hex
      exact key s1 hinv hex.2
    · rename_i hnone
      simp only [Prod.mk.injEq] at hx
      rw [← hx.1]
      have hn : Dict.get? s.procs (tyOf U p) = none := by
        cases hg : Dict.get? s.procs (tyOf U p) with
        | none => rfl
        | some x => simp [hg] at hnone
      refine key s h ?_
      intro q hq ht
      have := (h.procsIff (tyOf U p) q).mpr ⟨hq, ht⟩
      rw [hn] at this; simp at this
  · rename_i r hne
    split
    · exact pinv_removeProcessor h (tyOf U p)
    · exact h

end Desper.World

namespace Desper.World
open Desper

theorem pinv_sameProcs {U : Universe} {s s' : St} (h : PInv U s) (t : SameProcs s s') : PInv U s' :=
  pinv_of_tables h t.procs t.sorted t.prio

theorem deleteAll_procs (U : Universe) [U.NoReenter] (s : St) (es : List Ent) : SameProcs s (deleteAll U s es).1 := by
  induction es generalizing s with
  | nil => exact .refl s
  | cons e es ih =>
    simp only [deleteAll]
    have h1 := deleteEntity_procs U s e true
    cases hx : deleteEntity U s e true with
    | mk s' o =>
      rw [hx] at h1
      cases o <;> simp only
      · exact h1.trans (ih s')
      all_goals exact h1

theorem pinv_removeProcs {U : Universe} [U.NoReenter] {s : St} (h : PInv U s) (ps : List Obj) :
    PInv U (removeProcs U s ps).1 := by
  induction ps generalizing s with
  | nil => exact h
  | cons p ps ih =>
    simp only [removeProcs]
    have h1 := pinv_removeProcessor h (tyOf U p)
    cases hx : removeProcessor U s (tyOf U p) with
    | mk s' r =>
      obtain ⟨o, c⟩ := r
      rw [hx] at h1
      cases o <;> simp only
      · exact ih h1
      all_goals exact h1

theorem pinv_clear {U : Universe} [U.NoReenter] {s : St} (h : PInv U s) : PInv U (clear U s).1 := by
  unfold clear
  have h1 := pinv_sameProcs h (deleteAll_procs U s (Dict.keys s.ents))
  cases hx : deleteAll U s (Dict.keys s.ents) with
  | mk s1 o =>
    rw [hx] at h1
    cases o <;> simp only
    · have h2 : PInv U { s1 with dead := [] } := pinv_of_tables h1 rfl rfl rfl
      have h3 := pinv_removeProcs h2 { s1 with dead := [] }.sorted
      cases hy : removeProcs U { s1 with dead := [] } { s1 with dead := [] }.sorted with
      | mk s2 o2 =>
        rw [hy] at h3
        cases o2 <;> simp only
        · exact pinv_of_tables h3 rfl rfl rfl
        all_goals exact h3
    all_goals exact h1

theorem pinv_step {U : Universe} [U.NoReenter] {s : St} (h : PInv U s) (op : Op) : PInv U (step U s op).1 := by
  cases op with
  | create id? cs => exact pinv_sameProcs h (createEntity_procs U s id? cs)
  | add e c => exact pinv_sameProcs h (addComponent_procs U s e c)
  | remove e t => exact pinv_sameProcs h (removeComponent_procs U s e t)
  | delete e imm => exact pinv_sameProcs h (deleteEntity_procs U s e imm)
  | process dt => exact pinv_sameProcs h (process_procs U s dt)
  | clear => exact pinv_clear h
  | addProc p prio? => exact pinv_addProcessor h p prio?
  | rmProc t => exact pinv_removeProcessor h t
  | enable b => exact pinv_sameTables h (setEnabled_tables U s b)
  | dispatch ev args => exact pinv_sameTables h (dispatchPlain_tables U s ev args)

theorem pinv_init (U : Universe) (hints : List (List Ent)) : PInv U { sweepHints := hints } :=
  ⟨List.Pairwise.nil, by intro t p; simp, List.nodup_nil⟩

theorem pinv_run {U : Universe} [U.NoReenter] {s : St} (h : PInv U s) (ops : List Op) : PInv U (run U s ops) := by
  induction ops generalizing s with
  | nil => exact h
  | cons op ops ih => exact ih (pinv_step h op)

end Desper.World
