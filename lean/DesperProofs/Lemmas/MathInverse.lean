/-
  Helper lemmas for C18 (Mat4 inverse): the generated `Mat4.invert` (adjugate over determinant,
  desper/math.py `Mat4.__invert__`) is a two-sided inverse when the determinant the code computes
  (`Mat4.invert.cond0_lhs`) is not zero, and that determinant is Mathlib's `Matrix.det`.
  Method: generalise `1 / det` to `p` with `p * det = 1`; each of the 2 x 16 entries is then a
  polynomial identity (`ring`) or a multiple of `p * det = 1` (`linear_combination`).
-/
import DesperProofs.Lemmas.MathSpec
import Mathlib.Tactic.Ring
import Mathlib.Tactic.LinearCombination
import Mathlib.LinearAlgebra.Matrix.Determinant.Basic

set_option linter.unusedTactic false
set_option linter.unreachableTactic false

namespace Desper.MathLemmas
open Desper.MathGen Desper.MathSpec

theorem invert_right {K : Type} [Field K] [DecidableEq K] (A : Mat4 K)
    (h : Mat4.invert.cond0_lhs A ≠ 0) : Mat4.matmul A (Mat4.invert A) = Mat4.new0 := by
  have h' := h
  unfold Mat4.invert.cond0_lhs at h'
  unfold Mat4.invert
  rw [if_neg h']
  generalize hp : (1 : K) / _ = p
  have hpd : p * Mat4.invert.cond0_lhs A = 1 := by
    rw [← hp]; unfold Mat4.invert.cond0_lhs; exact one_div_mul_cancel h'
  unfold Mat4.invert.cond0_lhs at hpd
  unfold Mat4.matmul Mat4.new0
  ext <;> dsimp only <;> first | linear_combination hpd | ring

theorem invert_left {K : Type} [Field K] [DecidableEq K] (A : Mat4 K)
    (h : Mat4.invert.cond0_lhs A ≠ 0) : Mat4.matmul (Mat4.invert A) A = Mat4.new0 := by
  have h' := h
  unfold Mat4.invert.cond0_lhs at h'
  unfold Mat4.invert
  rw [if_neg h']
  generalize hp : (1 : K) / _ = p
  have hpd : p * Mat4.invert.cond0_lhs A = 1 := by
    rw [← hp]; unfold Mat4.invert.cond0_lhs; exact one_div_mul_cancel h'
  unfold Mat4.invert.cond0_lhs at hpd
  unfold Mat4.matmul Mat4.new0
  ext <;> dsimp only <;> first | linear_combination hpd | ring

theorem invert_singular {K : Type} [Field K] [DecidableEq K] (A : Mat4 K)
    (h : Mat4.invert.cond0_lhs A = 0) : Mat4.invert A = A ∧ Mat4.invert.warns A := by
  have h' := h
  unfold Mat4.invert.cond0_lhs at h'
  unfold Mat4.invert Mat4.invert.warns
  rw [if_pos h', if_pos h']
  exact ⟨rfl, trivial⟩

theorem invert_no_warning {K : Type} [Field K] [DecidableEq K] (A : Mat4 K)
    (h : Mat4.invert.cond0_lhs A ≠ 0) : ¬ Mat4.invert.warns A := by
  have h' := h
  unfold Mat4.invert.cond0_lhs at h'
  unfold Mat4.invert.warns
  rw [if_neg h']
  exact not_false

/-- the value the code tests against zero is the determinant of the grid -/
theorem invert_det {K : Type} [Field K] [DecidableEq K] (A : Mat4 K) :
    Mat4.invert.cond0_lhs A = Matrix.det (grid4 A) ∧ Mat4.invert.cond0_rhs A = 0 := by
  refine ⟨?_, rfl⟩
  unfold Mat4.invert.cond0_lhs grid4
  simp [Matrix.det_succ_row_zero, Fin.sum_univ_succ, Fin.succAbove]
  ring

end Desper.MathLemmas
