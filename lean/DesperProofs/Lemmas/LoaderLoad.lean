import DesperModel.Loader
import DesperProofs.Lemmas.LoaderRegex
import DesperProofs.Lemmas.LoaderWorld
/-
  Lemmas about whole loads: `populate` on a well-formed description, the priority order of the
  processors, the release of the postponed events, the transformer pipeline as a relation.
-/
namespace Desper.Loader
open Desper

/-! ### `populate` never fails on a well-formed description -/

theorem construct_isCls {U : Universe} {d : Item} (h : isCls d = true ∧ U.ctorRaises d.label = false) :
    construct U d = .ok (toInst d) := by
  obtain ⟨h, hr⟩ := h
  unfold isCls at h
  unfold construct toInst clsOf
  split at h
  · rename_i c hc; simp [hc, hr]
  · cases h

theorem populateProcs_ok (U : Universe) (w : World) (ds : List Item)
    (h : ∀ d ∈ ds, (isCls d = true ∧ U.ctorRaises d.label = false) ∧ isProc U (clsOf d) = true) :
    populateProcs U w ds = .ok ((ds.map toInst).foldl (addProcessor U) w) := by
  induction ds generalizing w with
  | nil => rfl
  | cons d ds ih =>
    have hd := h d (List.mem_cons_self ..)
    simp only [populateProcs, construct_isCls hd.1]
    have : isProc U (toInst d).cls = true := hd.2
    simp only [this, ite_true]
    rw [ih _ (fun x hx => h x (List.mem_cons_of_mem _ hx))]
    rfl

theorem populateEnts_ok (U : Universe) (w : World) (es : List (Option EntId × List Item))
    (h : ∀ e ∈ es, ∀ d ∈ e.2, isCls d = true ∧ U.ctorRaises d.label = false) :
    populateEnts U w es = .ok (es.foldl (entStep U) w) := by
  induction es generalizing w with
  | nil => rfl
  | cons e es ih =>
    obtain ⟨eid, cs⟩ := e
    have hcs : mapE (construct U) cs = .ok (cs.map toInst) :=
      mapE_ok_of_forall (fun d hd => construct_isCls (h _ (List.mem_cons_self ..) d hd))
    simp only [populateEnts, hcs]
    rw [ih _ (fun x hx => h x (List.mem_cons_of_mem _ hx))]
    rfl

/-- the world `populate` builds from a world without entities -/
def populated (U : Universe) (w : World) (td : Desc) : World :=
  { w with
    sorted := (td.processors.map toInst).foldl (insort U) w.sorted,
    procs := w.procs ++ (td.processors.map toInst).map (fun p => (p.cls, p)),
    nextAuto := autoAfter w.nextAuto td.entities,
    entities := w.entities ++ expectedEntities (withIds w.nextAuto td.entities),
    handlers := w.handlers ++ ((td.processors.map toInst).flatMap (handlerOf U) ++
      (entInsts (withIds w.nextAuto td.entities)).flatMap (handlerOf U)),
    queue := w.queue ++ (if w.enabled then [] else
      (td.processors.map toInst).flatMap (onAddEv U .none) ++ entQueue U (withIds w.nextAuto td.entities)),
    log := w.log ++ (if w.enabled then
      (td.processors.map toInst).flatMap (onAddEntry U .none) ++ entLog U (withIds w.nextAuto td.entities)
      else []) }

theorem populate_wf (U : Universe) (w : World) (td : Desc)
    (hwf : WellFormed U (Dict.keys w.procs) td) (he : w.entities = []) (hn : w.nextAuto = 1) :
    populate U w td = .ok (populated U w td) := by
  obtain ⟨hp, hc, hpn, hcn, hids⟩ := hwf
  unfold populate
  rw [populateProcs_ok U w _ hp]
  simp only
  rw [populateEnts_ok U _ _ hc]
  have hpn' : (Dict.keys w.procs ++ (td.processors.map toInst).map (·.cls)).Nodup := by
    rw [map_toInst_cls]; exact hpn
  rw [foldl_addProcessor U _ w hpn']
  rw [foldl_entStep U td.entities _ (by simpa [he, hn, Dict.keys] using hids) hcn]
  obtain ⟨sorted, procs, entities, nextAuto, enabled, queue, handlers, log, failed⟩ := w
  simp only at he hn
  subst he hn
  unfold populated
  cases enabled <;> simp [List.append_assoc]

/-! ### priority order: `insort` is a stable insertion -/

def prio (U : Universe) (i : Inst) : Int := prioOf U i.cls

def SortedP (U : Universe) (l : List Inst) : Prop := l.Pairwise (fun a b => prio U a ≤ prio U b)

theorem insort_eq (U : Universe) (l : List Inst) (p : Inst) :
    insort U l p = l.takeWhile (fun q => prio U q ≤ prio U p) ++ p ::
      l.dropWhile (fun q => prio U q ≤ prio U p) := rfl

theorem insort_perm (U : Universe) (l : List Inst) (p : Inst) : (insort U l p).Perm (l ++ [p]) := by
  rw [insort_eq]
  have h := List.takeWhile_append_dropWhile (p := fun q => decide (prio U q ≤ prio U p)) (l := l)
  have h1 : (l.takeWhile (fun q => prio U q ≤ prio U p) ++ p ::
      l.dropWhile (fun q => prio U q ≤ prio U p)).Perm
      (p :: (l.takeWhile (fun q => prio U q ≤ prio U p) ++
        l.dropWhile (fun q => prio U q ≤ prio U p))) := List.perm_middle
  rw [h] at h1
  exact h1.trans (List.perm_append_singleton p l).symm

theorem dropWhile_gt (U : Universe) (a : Int) (l : List Inst) (hs : SortedP U l) :
    ∀ x ∈ l.dropWhile (fun q => prio U q ≤ a), a < prio U x := by
  induction l with
  | nil => simp
  | cons y ys ih =>
    unfold SortedP at hs
    rw [List.pairwise_cons] at hs
    intro x hx
    by_cases hy : prio U y ≤ a
    · simp only [List.dropWhile_cons, hy, decide_true, ite_true] at hx
      exact ih hs.2 x hx
    · simp only [List.dropWhile_cons, hy, decide_false, Bool.false_eq_true, ite_false] at hx
      rcases List.mem_cons.mp hx with rfl | hm
      · omega
      · have := hs.1 x hm; omega

theorem takeWhile_le (U : Universe) (a : Int) (l : List Inst) :
    ∀ x ∈ l.takeWhile (fun q => prio U q ≤ a), prio U x ≤ a := by
  induction l with
  | nil => simp
  | cons y ys ih =>
    intro x hx
    by_cases hy : prio U y ≤ a
    · simp only [List.takeWhile_cons, hy, decide_true, ite_true] at hx
      rcases List.mem_cons.mp hx with rfl | hm
      · exact hy
      · exact ih x hm
    · simp [List.takeWhile_cons, hy] at hx

theorem insort_sorted (U : Universe) (l : List Inst) (p : Inst) (hs : SortedP U l) :
    SortedP U (insort U l p) := by
  unfold SortedP
  rw [insort_eq, List.pairwise_append]
  refine ⟨?_, ?_, ?_⟩
  · exact List.Pairwise.sublist (List.takeWhile_sublist _) hs
  · rw [List.pairwise_cons]
    refine ⟨fun x hx => ?_, List.Pairwise.sublist (List.dropWhile_sublist _) hs⟩
    have := dropWhile_gt U (prio U p) l hs x hx; omega
  · intro x hx y hy
    have h1 := takeWhile_le U (prio U p) l x hx
    rcases List.mem_cons.mp hy with rfl | hm
    · exact h1
    · have := dropWhile_gt U (prio U p) l hs y hm; omega

theorem insort_filter (U : Universe) (l : List Inst) (p : Inst) (hs : SortedP U l) (k : Int) :
    (insort U l p).filter (fun i => prio U i = k) =
      l.filter (fun i => prio U i = k) ++ [p].filter (fun i => prio U i = k) := by
  have h := List.takeWhile_append_dropWhile (p := fun q => decide (prio U q ≤ prio U p)) (l := l)
  rw [insort_eq]
  conv => rhs; rw [← h]
  simp only [List.filter_append, List.filter_cons, List.filter_nil]
  by_cases hk : prio U p = k
  · subst hk
    have : (l.dropWhile (fun q => prio U q ≤ prio U p)).filter (fun i => prio U i = prio U p) = [] := by
      rw [List.filter_eq_nil_iff]
      intro x hx
      have := dropWhile_gt U (prio U p) l hs x hx
      simp; omega
    simp [this]
  · simp [hk]

/-- what `foldl insort` does: a stable sort by priority -/
theorem foldl_insort_spec (U : Universe) (l acc : List Inst) (hs : SortedP U acc) :
    (l.foldl (insort U) acc).Perm (acc ++ l) ∧ SortedP U (l.foldl (insort U) acc) ∧
    ∀ k, (l.foldl (insort U) acc).filter (fun i => prio U i = k) =
      (acc ++ l).filter (fun i => prio U i = k) := by
  induction l generalizing acc with
  | nil => simp [hs]
  | cons p ps ih =>
    obtain ⟨h1, h2, h3⟩ := ih (insort U acc p) (insort_sorted U acc p hs)
    refine ⟨?_, h2, fun k => ?_⟩
    · rw [List.foldl_cons]
      refine h1.trans ?_
      have := (insort_perm U acc p).append_right ps
      simpa [List.append_assoc] using this
    · have e : acc ++ p :: ps = acc ++ [p] ++ ps := by simp
      rw [List.foldl_cons, h3 k, e]
      simp only [List.filter_append, insort_filter U acc p hs k]

/-! ### the default processors -/

theorem eventsOf_default0 (U : Universe) : eventsOf U clsOnUpdate = none := by
  simp [eventsOf, infoOf]

theorem eventsOf_default1 (U : Universe) : eventsOf U clsCoroutine = none := by
  simp [eventsOf, infoOf]

theorem defaultProcessors_disabled (U : Universe) :
    defaultProcessors U { enabled := false } =
      { enabled := false, sorted := defaultInsts,
        procs := [(clsOnUpdate, defaultInsts[0]), (clsCoroutine, defaultInsts[1])] } := by
  unfold defaultProcessors
  rw [foldl_addProcessor U defaultInsts _ (by decide)]
  have e0 : eventsOf U 0 = none := eventsOf_default0 U
  have e1 : eventsOf U 1 = none := eventsOf_default1 U
  simp [defaultInsts, handlerOf, onAddEv, methOf, e0, e1, insort, prioOf, infoOf, clsOnUpdate,
    clsCoroutine]

theorem sortedP_defaults (U : Universe) : SortedP U defaultInsts := by
  simp [SortedP, defaultInsts, prio, prioOf, infoOf, clsOnUpdate, clsCoroutine]

/-! ### releasing the postponed events -/

def eventEntry (U : Universe) (name : Str) (i : Inst) : List Entry :=
  match methOf U i.cls name with
  | some m => [⟨i.label, m, .none⟩]
  | none => []

def entriesOf (U : Universe) (hs : List Inst) : Ev → List Entry
  | .single ev h a =>
    match methOf U h.cls ev with
    | some m => [⟨h.label, m, a⟩]
    | none => []
  | .worldLoad => hs.flatMap (worldLoadEntry U)
  | .event name => hs.flatMap (eventEntry U name)

/-- the relayed event has a callback (nothing else is ever queued by the loader) -/
def GoodEv (U : Universe) : Ev → Prop
  | .single ev h _ => (methOf U h.cls ev).isSome = true
  | .worldLoad => True
  | .event _ => True

theorem foldl_worldLoad (U : Universe) (hs : List Inst) (w : World) :
    (hs.filter (fun h => ((eventsOf U h.cls).bind (fun m => Dict.get? m onWorldLoad)).isSome)).foldl
      (fun w h => callMapped U w onWorldLoad h .handleWorld) w =
    { w with log := w.log ++ hs.flatMap (worldLoadEntry U) } := by
  induction hs generalizing w with
  | nil => simp
  | cons h hs ih =>
    cases hm : methOf U h.cls onWorldLoad with
    | none =>
      have : ((eventsOf U h.cls).bind (fun m => Dict.get? m onWorldLoad)).isSome = false := by
        unfold methOf at hm; simp [hm]
      simp only [List.filter_cons, this, Bool.false_eq_true, ite_false, List.flatMap_cons]
      rw [ih]
      simp [worldLoadEntry, hm]
    | some m =>
      have : ((eventsOf U h.cls).bind (fun m => Dict.get? m onWorldLoad)).isSome = true := by
        unfold methOf at hm; simp [hm]
      simp only [List.filter_cons, this, ite_true, List.foldl_cons, List.flatMap_cons]
      rw [ih, callMapped_some hm]
      simp [worldLoadEntry, hm, List.append_assoc]

theorem foldl_event (U : Universe) (name : Str) (hs : List Inst) (w : World) :
    (hs.filter (fun h => ((eventsOf U h.cls).bind (fun m => Dict.get? m name)).isSome)).foldl
      (fun w h => callMapped U w name h .none) w =
    { w with log := w.log ++ hs.flatMap (eventEntry U name) } := by
  induction hs generalizing w with
  | nil => simp
  | cons h hs ih =>
    cases hm : methOf U h.cls name with
    | none =>
      have : ((eventsOf U h.cls).bind (fun m => Dict.get? m name)).isSome = false := by
        unfold methOf at hm; simp [hm]
      simp only [List.filter_cons, this, Bool.false_eq_true, ite_false, List.flatMap_cons]
      rw [ih]
      simp [eventEntry, hm]
    | some m =>
      have : ((eventsOf U h.cls).bind (fun m => Dict.get? m name)).isSome = true := by
        unfold methOf at hm; simp [hm]
      simp only [List.filter_cons, this, ite_true, List.foldl_cons, List.flatMap_cons]
      rw [ih, callMapped_some hm]
      simp [eventEntry, hm, List.append_assoc]

theorem deliver_good (U : Universe) (w : World) (ev : Ev) (hg : GoodEv U ev) :
    deliver U w ev = { w with log := w.log ++ entriesOf U w.handlers ev } := by
  cases ev with
  | single e h a =>
    simp only [GoodEv, Option.isSome_iff_exists] at hg
    obtain ⟨m, hm⟩ := hg
    simp [deliver, entriesOf, hm, callMapped_some hm]
  | worldLoad =>
    simp only [deliver, entriesOf]
    exact foldl_worldLoad U w.handlers w
  | event name =>
    simp only [deliver, entriesOf]
    exact foldl_event U name w.handlers w

theorem release_good (U : Universe) (evs : List Ev) (w : World) (hg : ∀ ev ∈ evs, GoodEv U ev)
    (hf : w.failed = none) :
    release U w evs = { w with queue := [], log := w.log ++ evs.flatMap (entriesOf U w.handlers) } := by
  obtain ⟨sorted, procs, entities, nextAuto, enabled, queue, handlers, log, failed⟩ := w
  simp only at hf
  subst hf
  induction evs generalizing log queue with
  | nil => simp [release]
  | cons ev evs ih =>
    simp only [release]
    rw [deliver_good U _ ev (hg ev (List.mem_cons_self ..))]
    simp only [Option.isSome_none, Bool.false_eq_true, ite_false]
    rw [ih (hg := fun x hx => hg x (List.mem_cons_of_mem _ hx))]
    simp [List.append_assoc]

theorem goodEv_onAddEv (U : Universe) (a : CbArgs) (l : List Inst) :
    ∀ ev ∈ l.flatMap (onAddEv U a), GoodEv U ev := by
  intro ev hev
  rw [List.mem_flatMap] at hev
  obtain ⟨i, _, hi⟩ := hev
  unfold onAddEv at hi
  split at hi
  · rename_i h
    simp only [List.mem_singleton] at hi
    subst hi; exact h
  · simp at hi

theorem goodEv_entQueue (U : Universe) (l : List (EntId × List Item)) :
    ∀ ev ∈ entQueue U l, GoodEv U ev := by
  intro ev hev
  unfold entQueue at hev
  rw [List.mem_flatMap] at hev
  obtain ⟨p, _, hp⟩ := hev
  exact goodEv_onAddEv U _ _ ev hp

theorem entriesOf_onAddEv (U : Universe) (hs : List Inst) (a : CbArgs) (l : List Inst) :
    (l.flatMap (onAddEv U a)).flatMap (entriesOf U hs) = l.flatMap (onAddEntry U a) := by
  induction l with
  | nil => rfl
  | cons i l ih =>
    simp only [List.flatMap_cons, List.flatMap_append, ih]
    congr 1
    unfold onAddEv onAddEntry
    cases hm : methOf U i.cls onAdd with
    | none => simp
    | some m => simp [entriesOf, hm]

theorem entriesOf_entQueue (U : Universe) (hs : List Inst) (l : List (EntId × List Item)) :
    (entQueue U l).flatMap (entriesOf U hs) = entLog U l := by
  unfold entQueue entLog
  induction l with
  | nil => rfl
  | cons p l ih =>
    simp only [List.flatMap_cons, List.flatMap_append, ih, entriesOf_onAddEv]

/-! ### the transformer pipeline as a relation between descriptions -/

def ArgTransformed (U : Universe) (a b : Val) : Prop := transformArg U a = .ok b

/-- `b` is the dictionary `a` after the three transformers of a `WorldFromFileHandle` -/
def ItemTransformed (U : Universe) (a b : Item) : Prop :=
  b.label = a.label ∧
  (∃ t c, a.type = .json (.str t) ∧ U.resolve t = .ok (.cls c) ∧ b.type = .cls c) ∧
  All₂ (ArgTransformed U) a.args b.args ∧
  All₂ (fun x y => y.1 = x.1 ∧ ArgTransformed U x.2 y.2) a.kwargs b.kwargs

def DescTransformed (U : Universe) (d td : Desc) : Prop :=
  All₂ (ItemTransformed U) d.processors td.processors ∧
  All₂ (fun e e' => e'.1 = e.1 ∧ All₂ (ItemTransformed U) e.2 e'.2) d.entities td.entities

theorem all₂_mono {α β : Type} {R S : α → β → Prop} {l : List α} {r : List β}
    (h : All₂ R l r) (hrs : ∀ a b, R a b → S a b) : All₂ S l r := by
  induction h with
  | nil => exact .nil
  | cons hab _ ih => exact .cons (hrs _ _ hab) ih

theorem mapArgs_ok {f : Val → Except Exc Val} {d d' : Item} (h : mapArgs f d = .ok d') :
    d'.label = d.label ∧ d'.type = d.type ∧ All₂ (fun a b => f a = .ok b) d.args d'.args ∧
    All₂ (fun x y => y.1 = x.1 ∧ f x.2 = .ok y.2) d.kwargs d'.kwargs := by
  unfold mapArgs at h
  split at h
  · simp at h
  · rename_i args hargs
    split at h
    · simp at h
    · rename_i kwargs hkw
      simp at h; subst h
      refine ⟨rfl, rfl, mapE_ok_forall₂ hargs, ?_⟩
      refine all₂_mono (mapE_ok_forall₂ hkw) ?_
      intro x y hxy
      cases hf : f x.2 with
      | error e => simp [hf, Except.map] at hxy
      | ok v => simp [hf, Except.map] at hxy; subst hxy; exact ⟨rfl, rfl⟩

theorem all₂_comp {α : Type} {R S T : α → α → Prop} {l m r : List α}
    (h1 : All₂ R l m) (h2 : All₂ S m r) (hc : ∀ a b c, R a b → S b c → T a c) : All₂ T l r := by
  induction h1 generalizing r with
  | nil => cases h2; exact .nil
  | cons hab _ ih =>
    cases h2 with
    | cons hbc h2' => exact .cons (hc _ _ _ hab hbc) (ih h2')

theorem applyTransformers_ok {U : Universe} {d d' : Item} (h : applyTransformers U d = .ok d') :
    ItemTransformed U d d' := by
  unfold applyTransformers at h
  split at h
  · simp at h
  · rename_i d1 h1
    split at h
    · simp at h
    · rename_i d2 h2
      -- type transformer
      unfold typeT at h1
      split at h1
      · rename_i t ht
        split at h1
        · simp at h1
        · rename_i v hv
          split at h1
          · rename_i hcall
            simp at h1; subst h1
            obtain ⟨l2, t2, a2, k2⟩ := mapArgs_ok h2
            obtain ⟨l3, t3, a3, k3⟩ := mapArgs_ok h
            cases v with
            | cls c =>
              refine ⟨by rw [l3, l2], ⟨t, c, ht, hv, by rw [t3, t2]⟩, ?_, ?_⟩
              · exact all₂_comp a2 a3 (fun a b c hab hbc => by
                  unfold ArgTransformed transformArg; rw [hab]; exact hbc)
              · exact all₂_comp k2 k3 (fun a b c hab hbc => by
                  refine ⟨by rw [hbc.1, hab.1], ?_⟩
                  unfold ArgTransformed transformArg; rw [hab.2]; exact hbc.2)
            | _ => simp [callable] at hcall
          · simp at h1
      · simp at h1

theorem mapE_all₂_of {α β : Type} {f : α → Except Exc β} {R : α → β → Prop} {l : List α} {r : List β}
    (h : mapE f l = .ok r) (hf : ∀ a b, f a = .ok b → R a b) : All₂ R l r :=
  all₂_mono (mapE_ok_forall₂ h) hf

theorem transformDesc_ok {U : Universe} {d td : Desc} (h : transformDesc U d = .ok td) :
    DescTransformed U d td := by
  unfold transformDesc at h
  split at h
  · simp at h
  · rename_i ps hps
    split at h
    · simp at h
    · rename_i es hes
      simp at h; subst h
      refine ⟨mapE_all₂_of hps (fun _ _ => applyTransformers_ok), mapE_all₂_of hes ?_⟩
      intro e e' he
      unfold transformEntity at he
      cases hm : mapE (applyTransformers U) e.2 with
      | error x => simp [hm, Except.map] at he
      | ok cs =>
        simp [hm, Except.map] at he; subst he
        exact ⟨rfl, mapE_all₂_of hm (fun _ _ => applyTransformers_ok)⟩


/-! ### whole loads -/

/-- the world a `WorldFromFileHandle` returns for a file whose transformed description is `td` -/
def loadedFile (U : Universe) (td : Desc) : World :=
  let w := populated U (defaultProcessors U { enabled := false }) td
  { w with queue := w.queue ++ [.worldLoad] }

/-- the world a `WorldHandle` returns whose transform function populates from the dictionary `td` -/
def loadedDict (U : Universe) (td : Desc) : World :=
  let w := populated U { enabled := false } td
  { w with queue := w.queue ++ [.worldLoad] }

theorem loadFile_wf (U : Universe) (d td : Desc) (htd : transformDesc U d = .ok td)
    (hwf : WellFormed U [clsOnUpdate, clsCoroutine] td) : loadFile U d = .ok (loadedFile U td) := by
  unfold loadFile loadHandle fileTransformer
  simp only [htd]
  rw [populate_wf U _ td (by rw [defaultProcessors_disabled]; exact hwf)
    (by rw [defaultProcessors_disabled]) (by rw [defaultProcessors_disabled])]
  rfl

theorem loadDict_wf (U : Universe) (td : Desc) (hwf : WellFormed U [] td) :
    loadDict U td = .ok (loadedDict U td) := by
  unfold loadDict loadHandle
  simp only
  rw [populate_wf U { enabled := false } td hwf rfl rfl]
  rfl

theorem worldLoad_handlerOf (U : Universe) (l : List Inst) :
    (l.flatMap (handlerOf U)).flatMap (worldLoadEntry U) = l.flatMap (worldLoadEntry U) := by
  induction l with
  | nil => rfl
  | cons i l ih =>
    simp only [List.flatMap_cons, List.flatMap_append, ih]
    congr 1
    unfold handlerOf
    cases he : eventsOf U i.cls with
    | none => simp [worldLoadEntry, methOf, he]
    | some m => simp

/-- callbacks a disabled world owes once it is enabled: the relayed `on_add`s in operation order,
then `on_world_load` for every listener -/
def owedLog (U : Universe) (td : Desc) : List Entry :=
  (td.processors.map toInst).flatMap (onAddEntry U .none) ++ entLog U (withIds 1 td.entities) ++
    (td.processors.map toInst ++ entInsts (withIds 1 td.entities)).flatMap (worldLoadEntry U)

theorem release_loaded (U : Universe) (w0 : World) (td : Desc) (he : w0.enabled = false)
    (hl : w0.log = []) (hq : w0.queue = []) (hh : w0.handlers = []) (hf : w0.failed = none)
    (hn : w0.nextAuto = 1) :
    let w := { populated U w0 td with queue := (populated U w0 td).queue ++ [.worldLoad] }
    w.enabled = false ∧ w.log = [] ∧
    (setEnabled U w true).enabled = true ∧ (setEnabled U w true).queue = [] ∧
    (setEnabled U w true).failed = none ∧ (setEnabled U w true).log = owedLog U td ∧
    (setEnabled U w true).sorted = w.sorted ∧ (setEnabled U w true).entities = w.entities := by
  obtain ⟨sorted, procs, entities, nextAuto, enabled, queue, handlers, log, failed⟩ := w0
  simp only at he hl hq hh hf hn
  subst he hl hq hh hf hn
  simp only [populated, setEnabled, Bool.false_eq_true, ite_false, ite_true, List.nil_append]
  rw [release_good U _ _ (by
    intro ev hev
    simp only [List.mem_append, List.mem_singleton] at hev
    rcases hev with (h | h) | h
    · exact goodEv_onAddEv U _ _ ev h
    · exact goodEv_entQueue U _ ev h
    · subst h; trivial) rfl]
  refine ⟨trivial, trivial, rfl, rfl, rfl, ?_, rfl, rfl⟩
  simp only [List.flatMap_append, entriesOf_onAddEv, entriesOf_entQueue, List.flatMap_cons,
    List.flatMap_nil, List.append_nil, entriesOf, worldLoad_handlerOf, owedLog, List.nil_append]

theorem all₂_eq_of {α : Type} {R : α → α → Prop} {l r : List α} (h : All₂ R l r)
    (hr : ∀ a ∈ l, ∀ b, R a b → b = a) : r = l := by
  induction h with
  | nil => rfl
  | cons hab _ ih =>
    rw [hr _ (List.mem_cons_self ..) _ hab, ih (fun a ha b => hr a (List.mem_cons_of_mem _ ha) b)]

end Desper.Loader
