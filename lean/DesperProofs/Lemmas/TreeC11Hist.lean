import DesperProofs.Lemmas.TreeC11Inv
/-
  C11: back-links over whole histories (hypothesis `Fresh`), what `clear` leaves behind, and the
  facts about walks that "the last assignment wins" needs.
-/
namespace Desper.Tree
open Desper

/-! ### `layer`, `clear` keep the back-links -/

theorem addLayer_links (st : St) (i : MId) (h : Links st) : Links (addLayer st i) := by
  refine ⟨fun j k c hc => ?_, fun j l k g hl hg => ?_, fun j k n hn => ?_⟩
  · rw [(addLayer_m st i j).1] at hc
    rw [(addLayer_m st i c).2.2.1, (addLayer_m st i c).2.2.2]
    exact h.maps j k c hc
  · rw [(addLayer_m st i j).2.1] at hl
    rw [addLayer_h]
    by_cases e : j = i
    · subst e
      simp only [if_true, List.mem_cons] at hl
      rcases hl with rfl | hl
      · simp at hg
      · exact h.handles j l k g hl hg
    · simp only [e, if_false] at hl; exact h.handles j l k g hl hg
  · rw [(addLayer_m st i j).1] at hn; rw [addLayer_next]; exact h.alloc j k n hn

theorem addLayer_noLoc (st : St) (i : MId) (w : Ref) (hw : NoLoc st w) : NoLoc (addLayer st i) w := by
  cases w with
  | map c => intro j k; rw [(addLayer_m st i j).1]; exact hw j k
  | handle g =>
    intro j l k hl hg
    rw [(addLayer_m st i j).2.1] at hl
    by_cases e : j = i
    · subst e
      simp only [if_true, List.mem_cons] at hl
      rcases hl with rfl | hl
      · simp at hg
      · exact hw j l k hl hg
    · simp only [e, if_false] at hl; exact hw j l k hl hg

theorem clearMap_links (st : St) (i : MId) (h : Links st) : Links (clearMap st i) := by
  refine ⟨fun j k c hc => ?_, fun j l k g hl hg => ?_, fun j k n hn => ?_⟩
  · rw [(clearMap_m st i j).1] at hc
    by_cases e : j = i
    · simp [e] at hc
    · simp only [e, if_false] at hc
      obtain ⟨p1, p2⟩ := h.maps j k c hc
      rw [(clearMap_m st i c).2.2.1, (clearMap_m st i c).2.2.2]
      have : ¬ (c ∈ childMaps st i ∧ (st.m c).parent = some i) := by
        intro ⟨_, hp⟩; rw [p1] at hp; exact e (Option.some.inj hp)
      simp only [this, if_false]
      exact ⟨p1, p2⟩
  · rw [(clearMap_m st i j).2.1] at hl
    by_cases e : j = i
    · simp only [e, if_true, List.mem_singleton] at hl
      subst hl; simp at hg
    · simp only [e, if_false] at hl
      obtain ⟨p1, p2⟩ := h.handles j l k g hl hg
      rw [(clearMap_h st i g).1, (clearMap_h st i g).2]
      have : ¬ (g ∈ childHandles st i ∧ (st.h g).parent = some i) := by
        intro ⟨_, hp⟩; rw [p1] at hp; exact e (Option.some.inj hp)
      simp only [this, if_false]
      exact ⟨p1, p2⟩
  · rw [(clearMap_m st i j).1] at hn
    rw [clearMap_next]
    by_cases e : j = i
    · simp [e] at hn
    · simp only [e, if_false] at hn; exact h.alloc j k n hn

theorem clearMap_noLoc (st : St) (i : MId) (w : Ref) (hw : NoLoc st w) : NoLoc (clearMap st i) w := by
  cases w with
  | map c =>
    intro j k
    rw [(clearMap_m st i j).1]
    by_cases e : j = i
    · simp [e]
    · simp only [e, if_false]; exact hw j k
  | handle g =>
    intro j l k hl hg
    rw [(clearMap_m st i j).2.1] at hl
    by_cases e : j = i
    · simp only [e, if_true, List.mem_singleton] at hl
      subst hl; simp at hg
    · simp only [e, if_false] at hl; exact hw j l k hl hg

/-! ### histories in which every value is inserted at most once -/

/-- the values a history stores, in order -/
def valuesOf : List Op → List Ref
  | [] => []
  | .set _ _ v :: rest => v :: valuesOf rest
  | _ :: rest => valuesOf rest

/-- **Fresh**: no object is stored twice (no aliasing), and every stored object is one the
program created itself (not a map that `__setitem__` made for an intermediate key part). -/
def Fresh (ops : List Op) : Prop :=
  (valuesOf ops).Nodup ∧ ∀ v ∈ valuesOf ops, v.declared = true

instance (ops : List Op) : Decidable (Fresh ops) := by unfold Fresh; exact inferInstance

/-- the invariant of a Fresh history: back-links hold and what is still to be stored is nowhere -/
def Good (st : St) (rest : List Op) : Prop :=
  Links st ∧ ∀ v ∈ valuesOf rest, NoLoc st v

theorem step_good (st : St) (op : Op) (rest : List Op) (hf : Fresh (op :: rest))
    (hg : Good st (op :: rest)) : Good (step st op).1 rest := by
  obtain ⟨hl, hn⟩ := hg
  cases hm : op.mutates with
  | false =>
    have e := step_tree st op hm
    refine ⟨Links.of_tree e hl, fun v hv => NoLoc.of_tree e v (hn v ?_)⟩
    cases op <;> first | exact hv | cases hm
  | true =>
    cases op with
    | set m key v =>
      obtain ⟨nd, dec⟩ := hf
      simp only [valuesOf, List.nodup_cons] at nd
      simp only [valuesOf, List.mem_cons, forall_eq_or_imp] at dec hn
      obtain ⟨d1, d2⟩ := descend_links st m (keyPath key).1 hl
      refine ⟨assign_links _ _ _ _ d1 (d2 v dec.1 hn.1) ?_, fun w hw => ?_⟩
      · intro n e; subst e; simp [Ref.declared] at dec
      · refine assign_noLoc _ _ _ _ w (d2 w (dec.2 w hw) (hn.2 w hw)) ?_
        intro e; subst e; exact nd.1 hw
    | layer m => exact ⟨addLayer_links st m hl, fun v hv => addLayer_noLoc st m v (hn v hv)⟩
    | clear m => exact ⟨clearMap_links st m hl, fun v hv => clearMap_noLoc st m v (hn v hv)⟩
    | _ => cases hm

theorem Fresh.tail {op : Op} {rest : List Op} (hf : Fresh (op :: rest)) : Fresh rest := by
  obtain ⟨nd, dec⟩ := hf
  cases op with
  | set m key v =>
    simp only [valuesOf, List.nodup_cons] at nd
    simp only [valuesOf, List.mem_cons, forall_eq_or_imp] at dec
    exact ⟨nd.2, dec.2⟩
  | _ => exact ⟨nd, dec⟩

theorem exec_good (st : St) (ops rest : List Op) (hf : Fresh (ops ++ rest)) (hg : Good st (ops ++ rest)) :
    Good (exec st ops) rest := by
  induction ops generalizing st with
  | nil => exact hg
  | cons op ops ih =>
    rw [exec_cons]
    exact ih _ hf.tail (step_good st op (ops ++ rest) hf hg)

theorem Links_init : Links {} :=
  ⟨fun i k c hc => by simp at hc, fun i l k g hl hg => by
    simp [MapNode.layers] at hl; subst hl; simp at hg, fun i k n hn => by simp at hn⟩

theorem Good_init (ops : List Op) : Good {} ops := by
  refine ⟨Links_init, fun v _ => ?_⟩
  cases v with
  | map c => intro i k; simp
  | handle g => intro i l k hl; simp [MapNode.layers] at hl; subst hl; simp

theorem Links_initF (F : HId → Nat → Bool) : Links (init F) :=
  ⟨fun i k c hc => by simp at hc, fun i l k g hl hg => by
    simp [MapNode.layers] at hl; subst hl; simp at hg, fun i k n hn => by simp at hn⟩

theorem Good_initF (F : HId → Nat → Bool) (ops : List Op) : Good (init F) ops := by
  refine ⟨Links_initF F, fun v _ => ?_⟩
  cases v with
  | map c => intro i k; simp
  | handle g => intro i l k hl; simp [MapNode.layers] at hl; subst hl; simp

theorem valuesOf_append (a b : List Op) : valuesOf (a ++ b) = valuesOf a ++ valuesOf b := by
  induction a with
  | nil => rfl
  | cons op a ih => cases op <;> simp [valuesOf, ih]

/-! ### walks -/

/-- the (map, name) entries a walk goes through -/
def walkEntries (st : St) : MId → List String → List (MId × String)
  | _, [] => []
  | i, k :: ks =>
    match Dict.get? (st.m i).maps k with
    | none => [(i, k)]
    | some c => (i, k) :: walkEntries st c ks

/-- two states have the same sub-map entries except possibly the entry `e` -/
def SameMapsExcept (e : MId × String) (st st' : St) : Prop :=
  ∀ i k, (i, k) ≠ e → Dict.get? (st'.m i).maps k = Dict.get? (st.m i).maps k

theorem walk_congr (st st' : St) (e : MId × String) (hs : SameMapsExcept e st st') (i : MId)
    (ks : List String) (he : e ∉ walkEntries st i ks) : walk st' i ks = walk st i ks := by
  induction ks generalizing i with
  | nil => rfl
  | cons k ks ih =>
    simp only [walk]
    simp only [walkEntries] at he
    cases hc : Dict.get? (st.m i).maps k with
    | none =>
      rw [hc] at he
      simp only [List.mem_singleton] at he
      rw [hs i k (fun x => he x.symm), hc]
    | some c =>
      rw [hc] at he
      simp only [List.mem_cons, not_or] at he
      rw [hs i k (fun x => he.1 x.symm), hc]
      exact ih c he.2

/-- `descend` never changes or removes an existing sub-map entry -/
theorem descend_mono (st : St) (t : MId) (ks : List String) (j : MId) (k : String) (c : MId)
    (h : Dict.get? (st.m j).maps k = some c) :
    Dict.get? ((descend st t ks).1.m j).maps k = some c := by
  induction ks generalizing st t with
  | nil => exact h
  | cons k0 ks ih =>
    rw [descend_eq]
    have h1 : Dict.get? ((popLayer0 st t k0).m j).maps k = some c := by
      rw [(popLayer0_fields st t j k0).1]; exact h
    split
    · exact ih _ _ h1
    · rename_i hnone
      refine ih _ _ ?_
      rw [assign_map_maps]
      by_cases e : j = t
      · subst e
        simp only [if_true, m_bump, dget_set]
        by_cases ek : k0 = k
        · subst ek; rw [h1] at hnone; cases hnone
        · simp only [ek, if_false]; exact h1
      · simp only [e, if_false, m_bump]; exact h1

/-- after the loop over `keys[:-1]`, walking the same keys leads to the target map -/
theorem walk_descend (st : St) (t : MId) (ks : List String) :
    walk (descend st t ks).1 t ks = some (descend st t ks).2 := by
  induction ks generalizing st t with
  | nil => rfl
  | cons k ks ih =>
    rw [descend_eq]
    split
    · rename_i c hc
      simp only [walk]
      rw [descend_mono _ c ks t k c hc]
      exact ih _ c
    · simp only [walk]
      have : Dict.get? ((assign (popLayer0 st t k).bump t k
          (.map (.anon (popLayer0 st t k).next))).m t).maps k = some (.anon (popLayer0 st t k).next) := by
        rw [assign_map_maps]; simp [dget_set]
      rw [descend_mono _ _ ks t k _ this]
      exact ih _ _

/-! ### a walk from a root never comes back -/

/-- follow `.parent` n times -/
def climb (st : St) : Nat → MId → Option MId
  | 0, x => some x
  | n + 1, x => (st.m x).parent.bind (climb st n)

theorem climb_add (st : St) (a b : Nat) (x : MId) :
    climb st (a + b) x = (climb st a x).bind (climb st b) := by
  induction a generalizing x with
  | zero => simp [climb]
  | succ a ih =>
    rw [Nat.succ_add]
    simp only [climb]
    cases (st.m x).parent with
    | none => rfl
    | some p => simpa using ih p

theorem climb_walk (st : St) (hl : Links st) (i : MId) (ks : List String) (t : MId)
    (hw : walk st i ks = some t) : climb st ks.length t = some i := by
  induction ks generalizing i with
  | nil => simp only [walk, Option.some.injEq] at hw; subst hw; rfl
  | cons k ks ih =>
    simp only [walk] at hw
    cases hc : Dict.get? (st.m i).maps k with
    | none => rw [hc] at hw; cases hw
    | some c =>
      rw [hc] at hw
      have h1 := ih c hw
      rw [List.length_cons, climb_add, h1]
      simp [climb, (hl.maps i k c hc).1]

theorem climb_root (st : St) (root : MId) (hr : (st.m root).parent = none) (n : Nat) :
    climb st (n + 1) root = none := by
  simp [climb, hr]

theorem walkEntries_prefix (st : St) (i : MId) (ks : List String) (t x : MId) (k : String)
    (hw : walk st i ks = some t) (hm : (x, k) ∈ walkEntries st i ks) :
    ∃ pre suf, ks = pre ++ k :: suf ∧ walk st i pre = some x := by
  induction ks generalizing i with
  | nil => simp [walkEntries] at hm
  | cons k0 ks ih =>
    simp only [walk] at hw
    simp only [walkEntries] at hm
    cases hc : Dict.get? (st.m i).maps k0 with
    | none => rw [hc] at hw; cases hw
    | some c =>
      rw [hc] at hw hm
      simp only [List.mem_cons, Prod.mk.injEq] at hm
      rcases hm with ⟨rfl, rfl⟩ | hm
      · exact ⟨[], ks, rfl, rfl⟩
      · obtain ⟨pre, suf, e, hp⟩ := ih c hw hm
        refine ⟨k0 :: pre, suf, by rw [e]; rfl, ?_⟩
        simp only [walk, hc]; exact hp

/-- walking from a root (a map that is stored nowhere: `parent = None`) along back-linked entries
never returns to a map it has left: the target of the walk is none of the maps on the way -/
theorem walk_no_revisit (st : St) (hl : Links st) (root : MId) (hr : (st.m root).parent = none)
    (ks : List String) (t : MId) (hw : walk st root ks = some t) (last : String) :
    (t, last) ∉ walkEntries st root ks := by
  intro hm
  obtain ⟨pre, suf, e, hp⟩ := walkEntries_prefix st root ks t t last hw hm
  have c1 := climb_walk st hl root ks t hw
  have c2 := climb_walk st hl root pre t hp
  have : ks.length = pre.length + (suf.length + 1) := by rw [e]; simp
  rw [this, climb_add, c2] at c1
  simp only [Option.bind_some] at c1
  rw [climb_root st root hr] at c1
  cases c1

theorem walkEntries_congr (st st' : St) (e : MId × String) (hs : SameMapsExcept e st st') (i : MId)
    (ks : List String) (he : e ∉ walkEntries st i ks) : walkEntries st' i ks = walkEntries st i ks := by
  induction ks generalizing i with
  | nil => rfl
  | cons k ks ih =>
    simp only [walkEntries] at he ⊢
    cases hc : Dict.get? (st.m i).maps k with
    | none =>
      rw [hc] at he
      simp only [List.mem_singleton] at he
      rw [hs i k (fun x => he x.symm), hc]
    | some c =>
      rw [hc] at he
      simp only [List.mem_cons, not_or] at he
      rw [hs i k (fun x => he.1 x.symm), hc]
      simp only [List.cons.injEq, true_and]
      exact ih c he.2

theorem walkEntries_snoc (st : St) (i : MId) (ks : List String) (t : MId) (last : String)
    (hw : walk st i ks = some t) :
    walkEntries st i (ks ++ [last]) = walkEntries st i ks ++ [(t, last)] := by
  induction ks generalizing i with
  | nil =>
    simp only [walk, Option.some.injEq] at hw; subst hw
    simp only [List.nil_append, walkEntries]
    cases Dict.get? (st.m i).maps last <;> rfl
  | cons k ks ih =>
    simp only [walk] at hw
    cases hc : Dict.get? (st.m i).maps k with
    | none => rw [hc] at hw; cases hw
    | some c =>
      rw [hc] at hw
      simp only [List.cons_append, walkEntries, hc]
      rw [ih c hw]

/-! ### what an assignment changes -/

theorem assign_sameMaps (st : St) (t : MId) (last : String) (v : Ref) :
    SameMapsExcept (t, last) st (assign st t last v) := by
  intro i k hne
  cases v with
  | map c =>
    rw [assign_map_maps]
    by_cases e : i = t
    · subst e
      have : last ≠ k := fun x => hne (by rw [x])
      simp [dget_set, this]
    · simp [e]
  | handle g =>
    rw [assign_h_maps]
    by_cases e : i = t
    · subst e
      have : last ≠ k := fun x => hne (by rw [x])
      simp [dget_erase, this]
    · simp [e]

theorem chainGet_set0_other (l0 : Dict String HId) (ls : List (Dict String HId)) (k k' : String)
    (g : HId) (hk : k ≠ k') : chainGet? (Dict.set l0 k g :: ls) k' = chainGet? (l0 :: ls) k' := by
  rw [chainGet_cons, chainGet_cons, dget_set, if_neg hk]

theorem chainGet_erase0_other (l0 : Dict String HId) (ls : List (Dict String HId)) (k k' : String)
    (hk : k ≠ k') : chainGet? (Dict.erase l0 k :: ls) k' = chainGet? (l0 :: ls) k' := by
  rw [chainGet_cons, chainGet_cons, dget_erase, if_neg hk]

theorem lookup_assign_other (st : St) (t : MId) (last : String) (v : Ref) (j : MId) (k : String)
    (hne : (j, k) ≠ (t, last)) : lookup (assign st t last v) j k = lookup st j k := by
  unfold lookup
  cases v with
  | map c =>
    rw [assign_map_maps, assign_map_layers]
    by_cases e : j = t
    · subst e
      have : last ≠ k := fun x => hne (by rw [x])
      simp only [if_true, chainGet_erase_other _ _ _ this, dget_set, this, if_false]
    · simp only [e, if_false]
  | handle g =>
    rw [assign_h_maps, assign_h_layers]
    by_cases e : j = t
    · subst e
      have : last ≠ k := fun x => hne (by rw [x])
      simp only [if_true, chainGet_set0_other _ _ _ _ _ this, dget_erase, this, if_false, layers_def]
    · simp only [e, if_false]

theorem lookup_assign_self (st : St) (t : MId) (last : String) (v : Ref) :
    lookup (assign st t last v) t last = some v := by
  unfold lookup
  cases v with
  | map c =>
    rw [assign_map_maps, assign_map_layers]
    simp [chainGet_erase_self, dget_set]
  | handle g =>
    rw [assign_h_layers]
    simp [chainGet_cons, dget_set]

theorem lookup_popLayer0_other (st : St) (t : MId) (k0 : String) (j : MId) (k : String)
    (hne : (j, k) ≠ (t, k0)) : lookup (popLayer0 st t k0) j k = lookup st j k := by
  unfold lookup
  rw [(popLayer0_fields st t j k0).1, (popLayer0_fields st t j k0).2.2.2]
  by_cases e : j = t
  · subst e
    have : k0 ≠ k := fun x => hne (by rw [x])
    simp only [if_true, chainGet_erase0_other _ _ _ _ this, layers_def]
  · simp only [e, if_false]

/-- the loop over `keys[:-1]` changes what a (map, name) pair denotes only along its own path -/
theorem lookup_descend_other (st : St) (t : MId) (ks : List String) (j : MId) (k : String)
    (hne : (j, k) ∉ walkEntries (descend st t ks).1 t ks) :
    lookup (descend st t ks).1 j k = lookup st j k := by
  induction ks generalizing st t with
  | nil => rfl
  | cons k0 ks ih =>
    rw [descend_eq] at hne ⊢
    split at hne
    · rename_i c hc
      simp only [walkEntries, descend_mono _ c ks t k0 c hc, List.mem_cons, not_or] at hne
      rw [ih _ _ hne.2]
      exact lookup_popLayer0_other st t k0 j k hne.1
    · have hset : Dict.get? ((assign (popLayer0 st t k0).bump t k0
          (.map (.anon (popLayer0 st t k0).next))).m t).maps k0
          = some (.anon (popLayer0 st t k0).next) := by
        rw [assign_map_maps]; simp [dget_set]
      simp only [walkEntries, descend_mono _ _ ks t k0 _ hset, List.mem_cons, not_or] at hne
      rw [ih _ _ hne.2, lookup_assign_other _ _ _ _ _ _ hne.1]
      exact lookup_popLayer0_other st t k0 j k hne.1

/-! ### the three spellings of a path -/

theorem chainItems_single (st : St) (i : MId) (k : String) :
    chainItems st i [k] = getItemPath st i [] k := by
  simp only [chainItems]
  rcases hg : getItemPath st i [] k with ⟨st', o⟩
  cases o with
  | ok it => cases it <;> simp
  | raised e => rfl
  | stuck => rfl

theorem getItemPath_cons (st : St) (i : MId) (k : String) (ks : List String) (last : String) :
    getItemPath st i (k :: ks) last =
      match Dict.get? (st.m i).maps k with
      | some c => getItemPath st c ks last
      | none => (st, .raised "KeyError") := by
  simp only [getItemPath, walk]
  cases Dict.get? (st.m i).maps k <;> rfl

/-- `m['a/b/c']` against `m['a']['b']['c']` -/
theorem getItemPath_chain (st : St) (ho : OneKind st) (i : MId) (ks : List String) (last : String) :
    chainItems st i (ks ++ [last]) = getItemPath st i ks last ∨
    ((getItemPath st i ks last) = (st, .raised "KeyError") ∧
      ((chainItems st i (ks ++ [last])).2 = .stuck ∨
       (chainItems st i (ks ++ [last])).2 = .raised "LoadError")) := by
  induction ks generalizing i with
  | nil => left; exact chainItems_single st i last
  | cons k ks ih =>
    rw [getItemPath_cons]
    simp only [List.cons_append, chainItems]
    cases hc : Dict.get? (st.m i).maps k with
    | some c =>
      have hnone := ho i k (by rw [hc]; simp)
      simp only [getItemPath, walk, hnone, hc]
      exact ih c
    | none =>
      simp only [getItemPath, walk, hc]
      cases hh : chainGet? (st.m i).layers k with
      | none => left; rfl
      | some g =>
        right
        refine ⟨trivial, ?_⟩
        cases hx : (callH st g).2 with
        | none => left; simp [itemOf, hx]
        | tok a n => left; simp [itemOf, hx]
        | exc a n => right; simp [itemOf, hx]

theorem getChain_single (st : St) (i : MId) (k : String) : getChain st i [k] = lookup st i k := by
  simp only [getChain]
  cases lookup st i k with
  | none => rfl
  | some r => cases r <;> simp

/-! ### helpers for "the last assignment wins" -/

theorem walk_append (st : St) (i : MId) (a b : List String) :
    walk st i (a ++ b) = (walk st i a).bind (fun x => walk st x b) := by
  induction a generalizing i with
  | nil => rfl
  | cons k a ih =>
    simp only [List.cons_append, walk]
    cases Dict.get? (st.m i).maps k with
    | none => rfl
    | some c => exact ih c

/-- the loop over `keys[:-1]` gives a parent only to the maps it creates -/
theorem descend_root (s : St) (t : MId) (ks : List String) (n : Nat)
    (h : (s.m (.decl n)).parent = none) : ((descend s t ks).1.m (.decl n)).parent = none := by
  induction ks generalizing s t with
  | nil => exact h
  | cons k0 ks ih =>
    rw [descend_eq]
    have h1 : ((popLayer0 s t k0).m (.decl n)).parent = none := by
      rw [(popLayer0_fields s t (.decl n) k0).2.1]; exact h
    split
    · exact ih _ _ h1
    · refine ih _ _ ?_
      rw [assign_map_parent]
      simp [h1]

theorem descend_next_le (st : St) (t : MId) (ks : List String) : st.next ≤ (descend st t ks).1.next := by
  induction ks generalizing st t with
  | nil => exact Nat.le_refl _
  | cons k ks ih =>
    rw [descend_eq]
    have h0 : (popLayer0 st t k).next = st.next := by simp [popLayer0]
    split
    · exact h0 ▸ ih _ _
    · refine Nat.le_trans ?_ (ih _ _)
      rw [assign_next, next_bump, h0]; exact Nat.le_succ _

/-- an already allocated anonymous map that is stored nowhere stays so through the loop -/
theorem descend_noLoc_anon (st : St) (t : MId) (ks : List String) (a : Nat) (hl : Links st)
    (ha : a < st.next) (hv : NoLoc st (.map (.anon a))) : NoLoc (descend st t ks).1 (.map (.anon a)) := by
  induction ks generalizing st t with
  | nil => exact hv
  | cons k ks ih =>
    rw [descend_eq]
    have h0 : (popLayer0 st t k).next = st.next := by simp [popLayer0]
    have hl1 := popLayer0_links st t k hl
    have hv1 := popLayer0_noLoc st t k _ hv
    split
    · exact ih _ _ hl1 (h0 ▸ ha) hv1
    · refine ih _ _ ?_ ?_ ?_
      · refine assign_links _ _ _ _ (bump_links _ hl1) ?_ ?_
        · intro i k' hc; exact Nat.lt_irrefl _ (hl1.alloc i k' _ hc)
        · intro x hx; simp only [Ref.map.injEq, MId.anon.injEq] at hx; simp [hx]
      · rw [assign_next, next_bump, h0]; exact Nat.lt_succ_of_lt ha
      · refine assign_noLoc _ _ _ _ _ (noLoc_bump _ _ hv1) ?_
        intro e
        simp only [Ref.map.injEq, MId.anon.injEq] at e
        rw [h0] at e; rw [e] at ha; exact Nat.lt_irrefl _ ha

end Desper.Tree
