import DesperProofs.Lemmas.WorldFrame
/-!
`pworld` (the processors whose `world` attribute was set, world.py:408) is written by `insertProc`
only: callbacks, lifecycle events and handler registration leave it alone.
-/
namespace Desper.World
open Desper

theorem callCb_pworld (U : Universe) [hn : U.NoReenter] (s : St) (o : Obj) (m : String) (e : Entry) :
    (callCb U s o m e).1.pworld = s.pworld := by
  unfold callCb
  simp only [hn.noReenter]
  cases hr : U.reacts o m ((Dict.get? s.calls (o, m)).getD 0) <;> (split <;> rfl)

theorem ctrlRecord_pworld (U : Universe) (s : St) (ev : String) (o : Obj) (ent : Option Ent) :
    (ctrlRecord U s ev o ent).pworld = s.pworld := by
  unfold ctrlRecord
  split
  · split <;> rfl
  · rfl

theorem lifecycle_pworld (U : Universe) [U.NoReenter] (s : St) (ev : String) (o : Obj) (m : Mapping)
    (ent : Option Ent) : (lifecycle U s ev o m ent).1.pworld = s.pworld := by
  unfold lifecycle
  split
  · rfl
  · split
    · rw [callCb_pworld, ctrlRecord_pworld]
    · split <;> rfl

theorem attachEvents_pworld (U : Universe) [U.NoReenter] (s : St) (o : Obj) (ent : Option Ent) :
    (attachEvents U s o ent).1.pworld = s.pworld := by
  unfold attachEvents
  split
  · rfl
  · rw [lifecycle_pworld]; rfl

end Desper.World
