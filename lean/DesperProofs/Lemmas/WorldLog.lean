import DesperProofs.Lemmas.WorldProcInv
/-
  What each operation appends to the callback log.
-/
namespace Desper.World
open Desper

/-- `s'.log` is `s.log` with entries satisfying `P` put in front (the log is newest first) -/
def LogExt (P : Entry → Prop) (s s' : St) : Prop := ∃ l, s'.log = l ++ s.log ∧ ∀ e ∈ l, P e

theorem LogExt.refl (P : Entry → Prop) (s : St) : LogExt P s s := ⟨[], rfl, by simp⟩

theorem LogExt.of_eq {P : Entry → Prop} {s s' : St} (h : s'.log = s.log) : LogExt P s s' :=
  ⟨[], by simp [h], by simp⟩

theorem LogExt.trans {P : Entry → Prop} {a b c : St} (h1 : LogExt P a b) (h2 : LogExt P b c) :
    LogExt P a c := by
  obtain ⟨l1, e1, p1⟩ := h1
  obtain ⟨l2, e2, p2⟩ := h2
  refine ⟨l2 ++ l1, by rw [e2, e1, List.append_assoc], ?_⟩
  intro e he
  rcases List.mem_append.mp he with h | h
  · exact p2 e h
  · exact p1 e h

theorem LogExt.mono {P Q : Entry → Prop} (hpq : ∀ e, P e → Q e) {s s' : St} (h : LogExt P s s') :
    LogExt Q s s' := by
  obtain ⟨l, e, p⟩ := h
  exact ⟨l, e, fun x hx => hpq x (p x hx)⟩

def isLife : Entry → Prop
  | .life _ _ _ _ => True
  | _ => False

def isProbe : Entry → Prop
  | .probe _ _ _ => True
  | _ => False

def isProc : Entry → Prop
  | .proc _ _ => True
  | _ => False

theorem callCb_log (U : Universe) [U.NoReenter] (s : St) (o : Obj) (m : String) (e : Entry) :
    (callCb U s o m e).1.log = e :: s.log := by
  unfold callCb; simp only [Universe.NoReenter.noReenter]; split <;> split <;> rfl

theorem callCb_ext {P : Entry → Prop} (U : Universe) [U.NoReenter] (s : St) (o : Obj) (m : String) (e : Entry)
    (h : P e) : LogExt P s (callCb U s o m e).1 :=
  ⟨[e], by rw [callCb_log]; rfl, by simpa using h⟩

theorem lifecycle_ext (U : Universe) [U.NoReenter] (s : St) (ev : String) (o : Obj) (m : Mapping)
    (ent : Option Ent) : LogExt isLife s (lifecycle U s ev o m ent).1 := by
  unfold lifecycle
  split
  · exact .refl _ s
  · split
    · refine LogExt.trans (LogExt.of_eq ?_) (callCb_ext U _ o _ _ trivial)
      unfold ctrlRecord
      split
      · split <;> rfl
      · rfl
    · split
      · exact LogExt.of_eq rfl
      · exact .refl _ s

theorem attachEvents_ext (U : Universe) [U.NoReenter] (s : St) (o : Obj) (ent : Option Ent) :
    LogExt isLife s (attachEvents U s o ent).1 := by
  unfold attachEvents
  split
  · exact .refl _ s
  · exact LogExt.trans (LogExt.of_eq rfl) (lifecycle_ext U _ _ o _ ent)

theorem attachAll_ext (U : Universe) [U.NoReenter] (s : St) (e : Ent) (cs : List Obj) :
    LogExt isLife s (attachAll U s e cs).1 := by
  induction cs generalizing s with
  | nil => exact .refl _ s
  | cons c cs ih =>
    simp only [attachAll]
    have h1 := attachEvents_ext U s c (some e)
    cases hx : attachEvents U s c (some e) with
    | mk s' o =>
      rw [hx] at h1
      cases o <;> simp only
      · exact h1.trans (ih s')
      all_goals exact h1

theorem detach_log (s : St) (e : Ent) (st : Ty) : (detach s e st).log = s.log := by
  unfold detach; simp only; split <;> rfl

theorem removeComponent_ext (U : Universe) [U.NoReenter] (s : St) (e : Ent) (t : Ty) :
    LogExt isLife s (removeComponent U s e t).1 := by
  unfold removeComponent
  cases hf : (visit U t).find? (fun st => (Dict.get? (row s e) st).isSome) with
  | none => exact .refl _ s
  | some st =>
    simp only
    cases hc : Dict.get? (row s e) st with
    | none => exact .refl _ s
    | some removed =>
      simp only
      have h0 : LogExt isLife s (detach s e st) := LogExt.of_eq (detach_log s e st)
      cases hm : U.mapOf removed with
      | none => exact h0
      | some m =>
        simp only
        have h1 := lifecycle_ext U (detach s e st) onRemove removed m (some e)
        cases hl : lifecycle U (detach s e st) onRemove removed m (some e) with
        | mk s' o =>
          rw [hl] at h1
          cases o <;> simp only
          · exact h0.trans (h1.trans (LogExt.of_eq (s' := removeHandler s' removed) rfl))
          all_goals exact h0.trans h1

theorem removeTypes_ext (U : Universe) [U.NoReenter] (s : St) (e : Ent) (ts : List Ty) :
    LogExt isLife s (removeTypes U s e ts).1 := by
  induction ts generalizing s with
  | nil => exact .refl _ s
  | cons t ts ih =>
    simp only [removeTypes]
    have h1 := removeComponent_ext U s e t
    cases hx : removeComponent U s e t with
    | mk s' r =>
      obtain ⟨o, c⟩ := r
      rw [hx] at h1
      cases o <;> simp only
      · exact h1.trans (ih s')
      all_goals exact h1

theorem sweep_ext (U : Universe) [U.NoReenter] (s : St) (es : List Ent) : LogExt isLife s (sweep U s es).1 := by
  induction es generalizing s with
  | nil => exact .refl _ s
  | cons e es ih =>
    simp only [sweep]
    split
    · exact .refl _ s
    · rename_i r hr
      have h1 := removeTypes_ext U s e (Dict.keys r)
      cases hx : removeTypes U s e (Dict.keys r) with
      | mk s' o =>
        rw [hx] at h1
        cases o <;> simp only
        · exact h1.trans (ih s')
        all_goals exact h1

theorem clearDead_ext (U : Universe) [U.NoReenter] (s : St) : LogExt isLife s (clearDead U s).1 := by
  unfold clearDead
  split
  · exact .refl _ s
  · exact LogExt.trans (LogExt.of_eq rfl) (sweep_ext U _ _)

theorem deliverPlain_ext (U : Universe) [U.NoReenter] (s : St) (ev args : String) :
    LogExt isProbe s (deliverPlain U s ev args).1 := by
  unfold deliverPlain
  generalize s.registered = l
  suffices H : ∀ (acc : St × Outcome), LogExt isProbe s acc.1 →
      LogExt isProbe s (l.foldl (fun (acc : St × Outcome) o =>
        match acc.2 with
        | .ok =>
          match (U.mapOf o).bind (fun m => Dict.get? m ev) with
          | some meth => callCb U acc.1 o meth (.probe o meth args)
          | none => acc
        | _ => acc) acc).1 from H (s, .ok) (.refl _ s)
  induction l with
  | nil => intro acc h; exact h
  | cons o l ih =>
    intro acc h
    simp only [List.foldl_cons]
    apply ih
    obtain ⟨a1, a2⟩ := acc
    cases a2 <;> simp only
    · split
      · exact LogExt.trans h (callCb_ext U a1 o _ _ trivial)
      · exact h
    all_goals exact h

theorem dispatchPlain_ext (U : Universe) [U.NoReenter] (s : St) (ev args : String) :
    LogExt isProbe s (dispatchPlain U s ev args).1 := by
  unfold dispatchPlain
  split
  · exact .refl _ s
  · split
    · exact LogExt.of_eq rfl
    · exact deliverPlain_ext U s ev args

end Desper.World

namespace Desper.World
open Desper

/-- no scripted failures: callbacks and processors return normally -/
def NoRaise (U : Universe) : Prop := ∀ o m k, U.raises o m k = none

/-- the `Processor.process` calls a log records, newest first -/
def procEntries (log : List Entry) : List (Obj × String) :=
  log.filterMap fun e => match e with
    | .proc p d => some (p, d)
    | _ => none

theorem procEntries_append (a b : List Entry) : procEntries (a ++ b) = procEntries a ++ procEntries b := by
  simp [procEntries, List.filterMap_append]

theorem procEntries_of_not_proc (l : List Entry) (h : ∀ e ∈ l, ¬ isProc e) : procEntries l = [] := by
  induction l with
  | nil => rfl
  | cons e l ih =>
    have he := h e (by simp)
    have hl := ih (fun x hx => h x (by simp [hx]))
    cases e <;> simp_all [procEntries, isProc]

theorem callCb_ok {U : Universe} [U.NoReenter] (hn : NoRaise U) (s : St) (o : Obj) (m : String) (e : Entry) :
    (callCb U s o m e).2 = .ok := by
  unfold callCb; simp only [hn o m, Universe.NoReenter.noReenter]

theorem deliverPlain_ok {U : Universe} [U.NoReenter] (hn : NoRaise U) (s : St) (ev args : String) :
    (deliverPlain U s ev args).2 = .ok := by
  unfold deliverPlain
  generalize s.registered = l
  suffices H : ∀ (acc : St × Outcome), acc.2 = .ok →
      (l.foldl (fun (acc : St × Outcome) o =>
        match acc.2 with
        | .ok =>
          match (U.mapOf o).bind (fun m => Dict.get? m ev) with
          | some meth => callCb U acc.1 o meth (.probe o meth args)
          | none => acc
        | _ => acc) acc).2 = .ok from H (s, .ok) rfl
  induction l with
  | nil => intro acc h; exact h
  | cons o l ih =>
    intro acc h
    simp only [List.foldl_cons]
    apply ih
    obtain ⟨a1, a2⟩ := acc
    simp only at h; subst h
    simp only
    split
    · exact callCb_ok hn _ _ _ _
    · rfl

theorem dispatchPlain_ok {U : Universe} [U.NoReenter] (hn : NoRaise U) (s : St) (ev args : String) :
    (dispatchPlain U s ev args).2 = .ok := by
  unfold dispatchPlain
  split
  · rfl
  · split
    · rfl
    · exact deliverPlain_ok hn s ev args

/-- without failures `runProcs` calls exactly the given processors, in order, each once with `dt` -/
theorem runProcs_exact {U : Universe} [U.NoReenter] (hn : NoRaise U) (s : St) (dt : String) (ps : List Obj) :
    (runProcs U s dt ps).2 = .ok ∧
    procEntries (runProcs U s dt ps).1.log = (ps.map (·, dt)).reverse ++ procEntries s.log := by
  induction ps generalizing s with
  | nil => exact ⟨rfl, by simp [runProcs]⟩
  | cons p ps ih =>
    simp only [runProcs]
    have hok := callCb_ok hn s p "process" (.proc p dt)
    have hlog := callCb_log U s p "process" (.proc p dt)
    cases hx : callCb U s p "process" (.proc p dt) with
    | mk s' o =>
      rw [hx] at hok hlog
      simp only at hok hlog
      subst hok
      simp only
      -- the optional on_update dispatch adds probe entries only
      have hd : ∀ r : St × Outcome,
          r = (if (U.cls (tyOf U p)).isOnUpdate then dispatchPlain U s' "on_update" dt else (s', .ok)) →
          r.2 = .ok ∧ procEntries r.1.log = procEntries s'.log := by
        intro r hr
        split at hr
        · subst hr
          refine ⟨dispatchPlain_ok hn s' _ _, ?_⟩
          obtain ⟨l, hl, hp⟩ := dispatchPlain_ext U s' "on_update" dt
          rw [hl, procEntries_append, procEntries_of_not_proc l]
          · rfl
          · intro e he hpe
            have := hp e he
            cases e <;> simp_all [isProbe, isProc]
        · subst hr; exact ⟨rfl, rfl⟩
      generalize hr : (if (U.cls (tyOf U p)).isOnUpdate then dispatchPlain U s' "on_update" dt
        else (s', Disp.Outcome.ok)) = r
      obtain ⟨r1, r2⟩ := r
      obtain ⟨h1, h2⟩ := hd (r1, r2) hr.symm
      simp only at h1 h2
      subst h1
      simp only
      obtain ⟨i1, i2⟩ := ih r1
      refine ⟨i1, ?_⟩
      rw [i2, h2, hlog]
      simp [procEntries]

end Desper.World
