import DesperModel.Disp
import DesperProofs.Lemmas.Star
/-
  Every run of the re-entrant dispatcher model is a sequence of primitive steps.
  Proved once by mutual induction on the fuel; invariants are then proved per primitive step.
-/
namespace Desper.Disp
open Desper

/-- the primitive state changes the model is made of -/
inductive Prim (U : Universe) : St → St → Prop
  | push (s : St) (e : Entry) (h : ∀ r m a, e ≠ .cb r m a) : Prim U s (s.push e)
  | add (s : St) (o : Obj) (m : Mapping) (hh : s.held.contains o = true)
      (hm : U.mapping o = some m) : Prim U s (addHandler s o m)
  | removeWeak (s : St) (o : Obj) : Prim U s (removeWeak s o).1
  | drop (s : St) (o : Obj) (hh : s.held.contains o = true) : Prim U s (dropObj s o)
  | clear (s : St) :
      Prim U s { s with queue := [], events := [], handlers := [], enabled := true,
                        enqueued := [], released := [] }
  | enqueue (s : St) (ev args : String) (hd : s.enabled = false)
      (hk : (Dict.get? s.events ev).isSome) :
      Prim U s { s with queue := s.queue ++ [(ev, args)], enqueued := s.enqueued ++ [(ev, args)] }
  | setEnabled (s : St) (b : Bool) : Prim U s { s with enabled := b }
  | pop (s : St) (ev args : String) (q : List (String × String))
      (hq : s.queue = (ev, args) :: q) (he : s.enabled = true) :
      Prim U s { s with queue := q, released := s.released ++ [(ev, args)] }
  | call (s : St) (r : Obj) (m lm args : String) (hs : List Obj) (k : Nat)
      (halive : s.alive r = true) (hh : s.hints = r :: hs) :
      Prim U s { s with hints := hs, calls := Dict.set s.calls (r, m) (k + 1),
                        pinned := r :: s.pinned, log := .cb (some r) lm args :: s.log }
  | unpin (s : St) (r : Obj) : Prim U s (unpin s r)

abbrev Reach (U : Universe) := Star (Prim U)

theorem reach_all (U : Universe) (fuel : Nat) :
    (∀ s op, Reach U s (execOp U fuel s op).1) ∧
    (∀ s ops, Reach U s (execOps U fuel s ops).1) ∧
    (∀ s rem args, Reach U s (deliver U fuel s rem args).1) ∧
    (∀ s, Reach U s (release U fuel s).1) := by
  induction fuel with
  | zero =>
    refine ⟨?_, ?_, ?_, ?_⟩ <;> intros <;> simp [execOp, execOps, deliver, release] <;>
      exact .refl _
  | succ fuel ih =>
    obtain ⟨ihOp, ihOps, ihDel, ihRel⟩ := ih
    refine ⟨?_, ?_, ?_, ?_⟩
    · intro s op
      cases op with
      | raise e => simp [execOp]; exact .refl _
      | isHandler o =>
        simp only [execOp]
        split <;> exact Star.single (.push _ _ (by intros; simp))
      | add o =>
        simp only [execOp]
        split
        · rename_i hh
          split
          · rename_i m hm; exact Star.single (.add _ _ _ hh hm)
          · exact .refl _
        · exact Star.single (.push _ _ (by intros; simp))
      | remove o =>
        simp only [execOp]
        split
        · exact Star.single (.removeWeak _ _)
        · exact Star.single (.push _ _ (by intros; simp))
      | drop o =>
        simp only [execOp]
        split
        · rename_i hh; exact Star.single (.drop _ _ hh)
        · exact Star.single (.push _ _ (by intros; simp))
      | clear => simp only [execOp]; exact Star.single (.clear _)
      | dispatch ev args =>
        simp only [execOp]
        split
        · exact .refl _
        · rename_i l hl
          split
          · rename_i hd
            exact Star.single (.enqueue _ _ _ (by simpa using hd) (by simp [hl]))
          · rename_i he
            exact ihDel _ _ _
      | enable b =>
        simp only [execOp]
        split
        · exact Star.single (.setEnabled _ _)
        · exact Star.head (.setEnabled _ _) (ihRel _)
    · intro s ops
      cases ops with
      | nil => simp [execOps]; exact .refl _
      | cons op rest =>
        simp only [execOps]
        split
        · rename_i s' h
          have := ihOp s op
          rw [h] at this
          exact Star.trans this (ihOps _ _)
        · rename_i r h
          exact ihOp s op
    · intro s rem args
      simp only [deliver]
      split
      · exact .refl _
      · split
        · exact .refl _
        · rename_i h hs hh
          split
          · exact .refl _
          · rename_i r m hfind
            have hal : s.alive r = true := by
              have := List.find?_some hfind
              have hmem := List.mem_of_find?_eq_some hfind
              simp only [List.mem_filter] at hmem
              simp only [decide_eq_true_eq] at this
              subst this
              exact hmem.2
            have hr : r = h := by
              have := List.find?_some hfind
              simpa using this
            subst hr
            have c := Prim.call (U := U) s r m (U.impl r m) args hs ((Dict.get? s.calls (r, m)).getD 0) hal hh
            have r1 := ihOps { s with hints := hs, calls := Dict.set s.calls (r, m) ((Dict.get? s.calls (r, m)).getD 0 + 1), pinned := r :: s.pinned, log := .cb (some r) (U.impl r m) args :: s.log } (U.reaction r m ((Dict.get? s.calls (r, m)).getD 0))
            split
            · rename_i s' hx
              rw [hx] at r1
              exact Star.trans (Star.tail (Star.head c r1) (.unpin _ _)) (ihDel _ _ _)
            · rename_i s' o hx
              rw [hx] at r1
              exact Star.tail (Star.head c r1) (.unpin _ _)
    · intro s
      simp only [release]
      split
      · exact .refl _
      · rename_i ev args q hq
        split
        · exact .refl _
        · rename_i he
          split
          · rename_i s' hx
            have := ihOp { s with queue := q, released := s.released ++ [(ev, args)] } (.dispatch ev args)
            rw [hx] at this
            exact Star.trans (Star.head (.pop _ _ _ _ hq (by simpa using he)) this) (ihRel _)
          · rename_i r hx
            exact Star.head (.pop _ _ _ _ hq (by simpa using he)) (ihOp _ _)

end Desper.Disp
