import DesperModel.World
/-
  The subclass walk (`fringe` loops of world.py) visits exactly the reflexive-transitive subclasses.
-/
namespace Desper.World
open Desper

/-- `t'` is `t` or a direct or indirect subclass of `t` (what `issubclass(t', t)` means for
classes created with `class` statements) -/
inductive Sub (U : Universe) : Ty → Ty → Prop
  | refl (t : Ty) : Sub U t t
  | step {t' b t : Ty} : b ∈ (U.cls t').bases → Sub U b t → Sub U t' t

/-- Python can only name existing classes as bases -/
def Universe.WF (U : Universe) : Prop := ∀ k : Nat, ∀ b : Nat, b ∈ (U.cls k).bases → b < k ∧ k < U.classes.length

/-- decidable form of `WF`, for concrete universes -/
def Universe.wfb (U : Universe) : Bool :=
  (List.range U.classes.length).all fun k => (U.cls k).bases.all fun b => decide (b < k)

theorem Universe.wf_of_wfb (U : Universe) (h : U.wfb = true) : U.WF := by
  intro k b hb
  rcases Nat.lt_or_ge k U.classes.length with hk | hk
  · refine ⟨?_, hk⟩
    simp only [Universe.wfb, List.all_eq_true, List.mem_range, decide_eq_true_eq] at h
    exact h k hk b hb
  · have : U.cls k = { bases := [] } := by
      simp only [Universe.cls]
      rw [List.getElem?_eq_none hk]; rfl
    rw [this] at hb; simp at hb

theorem Sub.trans {U : Universe} {a b c : Ty} (h1 : Sub U a b) (h2 : Sub U b c) : Sub U a c := by
  induction h1 with
  | refl => exact h2
  | step hb _ ih => exact .step hb (ih h2)

theorem mem_subs {U : Universe} {t c : Nat} :
    c ∈ subs U t ↔ c < U.classes.length ∧ t < c ∧ t ∈ (U.cls c).bases := by
  simp [subs, List.mem_filter, List.mem_range]

theorem Sub.le {U : Universe} (hU : U.WF) {a b : Nat} (h : Sub U a b) : b ≤ a := by
  induction h with
  | refl => exact Nat.le_refl _
  | step hb _ ih => exact Nat.le_trans ih (Nat.le_of_lt (hU _ _ hb).1)

theorem mem_desc_self (U : Universe) (h : Nat) (t : Ty) : t ∈ desc U h t := by
  cases h <;> simp [desc]

theorem desc_sound (U : Universe) (h : Nat) (t x : Ty) (hx : x ∈ desc U h t) : Sub U x t := by
  induction h generalizing t with
  | zero => simp [desc] at hx; subst hx; exact .refl _
  | succ h ih =>
    simp only [desc, List.mem_cons, List.mem_flatMap, List.mem_reverse] at hx
    rcases hx with rfl | ⟨c, hc, hxc⟩
    · exact .refl _
    · have := ih c hxc
      exact Sub.trans this (.step (mem_subs.mp hc).2.2 (.refl _))

/-- once a class is visited, so are its direct subclasses, provided the depth bound suffices -/
theorem desc_closed (U : Universe) (h : Nat) (t x c : Nat) (hh : U.classes.length - t ≤ h)
    (hx : x ∈ desc U h t) (hc : c ∈ subs U x) : c ∈ desc U h t := by
  induction h generalizing t with
  | zero =>
    simp [desc] at hx; subst hx
    obtain ⟨h1, h2, _⟩ := mem_subs.mp hc
    omega
  | succ h ih =>
    simp only [desc, List.mem_cons, List.mem_flatMap, List.mem_reverse] at hx ⊢
    rcases hx with rfl | ⟨c', hc', hxc⟩
    · right; exact ⟨c, hc, mem_desc_self U h c⟩
    · right
      refine ⟨c', hc', ih c' ?_ hxc⟩
      obtain ⟨h1, h2, _⟩ := mem_subs.mp hc'
      omega

theorem desc_complete (U : Universe) (hU : U.WF) (t x : Ty) (hs : Sub U x t) :
    x ∈ visit U t := by
  unfold visit
  induction hs with
  | refl => exact mem_desc_self U _ _
  | @step t' b t hb hbt ih =>
    have hw := hU t' b hb
    exact desc_closed U _ t b t' (Nat.le_refl _) ih (mem_subs.mpr ⟨hw.2, hw.1, hb⟩)

/-- the walk is sound and complete for the subclass relation -/
theorem mem_visit (U : Universe) (hU : U.WF) (t x : Ty) : x ∈ visit U t ↔ Sub U x t :=
  ⟨desc_sound U _ t x, desc_complete U hU t x⟩

/-- the queried type itself is popped first -/
theorem visit_head (U : Universe) (t : Ty) : ∃ rest, visit U t = t :: rest := by
  unfold visit
  cases (U.classes.length - t) <;> simp [desc]

end Desper.World
