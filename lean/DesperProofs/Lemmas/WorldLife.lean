import DesperProofs.Lemmas.WorldDead
/-
  Lifecycle callbacks: what attach / detach / release append to the log and the queue.
-/
namespace Desper.World
open Desper

theorem mem_insertSorted (l : List Obj) (o x : Obj) : x ∈ insertSorted l o ↔ x ∈ l ∨ x = o := by
  unfold insertSorted
  split
  · rename_i h
    have : o ∈ l := by simpa using h
    constructor
    · exact fun hx => .inl hx
    · rintro (hx | hx)
      · exact hx
      · subst hx; exact this
  · have := List.takeWhile_append_dropWhile (p := fun y => decide (y < o)) (l := l)
    constructor
    · intro hx
      simp only [List.mem_append, List.mem_singleton] at hx
      rcases hx with (hx | hx) | hx
      · exact .inl (this ▸ List.mem_append_left _ hx)
      · exact .inr hx
      · exact .inl (this ▸ List.mem_append_right _ hx)
    · rintro (hx | hx)
      · rw [← this] at hx
        simp only [List.mem_append, List.mem_singleton] at hx ⊢
        rcases hx with hx | hx
        · exact .inl (.inl hx)
        · exact .inr hx
      · simp [hx]

theorem mem_insertSorted_self (l : List Obj) (o : Obj) : o ∈ insertSorted l o :=
  (mem_insertSorted l o o).mpr (.inr rfl)

theorem nodup_insertSorted (l : List Obj) (o : Obj) (h : l.Nodup) : (insertSorted l o).Nodup := by
  unfold insertSorted
  split
  · exact h
  · rename_i hc
    have hn : o ∉ l := by simpa using hc
    have hsplit := List.takeWhile_append_dropWhile (p := fun y => decide (y < o)) (l := l)
    rw [← hsplit] at h hn
    rw [List.nodup_append] at h
    simp only [List.mem_append, not_or] at hn
    rw [List.append_assoc, List.nodup_append]
    refine ⟨h.1, ?_, ?_⟩
    · rw [List.singleton_append, List.nodup_cons]; exact ⟨hn.2, h.2.1⟩
    · intro a ha b hb
      simp only [List.singleton_append, List.mem_cons] at hb
      rcases hb with rfl | hb
      · intro e; subst e; exact hn.1 ha
      · exact h.2.2 a ha b hb

theorem callCb_eq {U : Universe} [hp : U.Passive] (hn : NoRaise U) (s : St) (o : Obj) (m : String) (e : Entry) :
    callCb U s o m e =
      ({ s with calls := Dict.set s.calls (o, m) ((Dict.get? s.calls (o, m)).getD 0 + 1),
                log := e :: s.log }, .ok) := by
  unfold callCb; simp only [hn o m, hp.noReact, Universe.NoReenter.noReenter]

theorem ctrlRecord_remove (U : Universe) (s : St) (o : Obj) (ent : Option Ent) :
    ctrlRecord U s onRemove o ent = s := by
  unfold ctrlRecord
  have : (decide (onRemove = onAdd)) = false := by decide
  simp [this]

theorem lifecycle_remove_enabled (U : Universe) (s : St) (o : Obj) (m : Mapping) (meth : String)
    (ent : Option Ent) (hon : Dict.get? m onRemove = some meth) (hen : s.enabled = true) :
    lifecycle U s onRemove o m ent = callCb U s o meth (.life onRemove o meth ent) := by
  unfold lifecycle
  simp only [hon, hen, if_true, ctrlRecord_remove]

theorem ctrlRecord_fields (U : Universe) (s : St) (ev : String) (o : Obj) (ent : Option Ent) :
    (ctrlRecord U s ev o ent).known = s.known ∧ (ctrlRecord U s ev o ent).selfReg = s.selfReg ∧
    (ctrlRecord U s ev o ent).log = s.log ∧ (ctrlRecord U s ev o ent).queue = s.queue ∧
    (ctrlRecord U s ev o ent).enabled = s.enabled ∧ (ctrlRecord U s ev o ent).registered = s.registered ∧
    (ctrlRecord U s ev o ent).calls = s.calls := by
  unfold ctrlRecord
  split
  · split <;> exact ⟨rfl, rfl, rfl, rfl, rfl, rfl, rfl⟩
  · exact ⟨rfl, rfl, rfl, rfl, rfl, rfl, rfl⟩

theorem removeComponent_exact_eq (U : Universe) (s : St) (e : Ent) (t : Ty) (c : Obj) (m : Mapping)
    (hc : Dict.get? (row s e) t = some c) (hm : U.mapOf c = some m) :
    removeComponent U s e t =
      match lifecycle U (detach s e t) onRemove c m (some e) with
      | (s', .ok) => (removeHandler s' c, .ok, some c)
      | (s', o) => (s', o, some c) := by
  obtain ⟨rest, hr⟩ := visit_head U t
  have hf : (visit U t).find? (fun st => (Dict.get? (row s e) st).isSome) = some t := by
    rw [hr, List.find?_cons]; simp [hc]
  unfold removeComponent
  simp only [hf, hc, hm]
  generalize lifecycle U (detach s e t) onRemove c m (some e) = r
  obtain ⟨s', o⟩ := r
  cases o <;> rfl

/-- explicit result of detaching a handler component with `on_remove` while enabled -/
theorem removeComponent_enabled_eq {U : Universe} [U.Passive] (hn : NoRaise U) (s : St) (e : Ent) (t : Ty)
    (c : Obj) (m : Mapping) (meth : String) (hc : Dict.get? (row s e) t = some c)
    (hm : U.mapOf c = some m) (hon : Dict.get? m onRemove = some meth) (hen : s.enabled = true) :
    removeComponent U s e t =
      (removeHandler { detach s e t with
          calls := Dict.set (detach s e t).calls (c, meth) ((Dict.get? (detach s e t).calls (c, meth)).getD 0 + 1),
          log := .life onRemove c meth (some e) :: (detach s e t).log } c, .ok, some c) := by
  have hde : (detach s e t).enabled = true := by unfold detach; simp only; split <;> exact hen
  rw [removeComponent_exact_eq U s e t c m hc hm, lifecycle_remove_enabled U _ c m meth (some e) hon hde,
    callCb_eq hn]

/-- release of a queue of relays: one lifecycle entry per relay, in order -/
theorem releaseQ_relays {U : Universe} [U.Passive] (hn : NoRaise U)
    (rel : List (String × Obj × Option Ent × String))
    (hmeth : ∀ r ∈ rel, (U.mapOf r.2.1).bind (fun m => Dict.get? m r.1) = some r.2.2.2) :
    ∀ s0 : St, s0.known.contains onSingle = true → s0.selfReg = true →
      (releaseQ U s0 (rel.map (fun r => QEv.relay r.1 r.2.1 r.2.2.1))).2 = .ok ∧
      (releaseQ U s0 (rel.map (fun r => QEv.relay r.1 r.2.1 r.2.2.1))).1.queue = [] ∧
      (releaseQ U s0 (rel.map (fun r => QEv.relay r.1 r.2.1 r.2.2.1))).1.log =
        (rel.map (fun r => Entry.life r.1 r.2.1 r.2.2.2 r.2.2.1)).reverse ++ s0.log := by
  induction rel with
  | nil => intro s0 _ _; exact ⟨rfl, rfl, by simp [releaseQ]⟩
  | cons r rel ih =>
    intro s0 hk0 hsr0
    obtain ⟨ev, h, ent, meth⟩ := r
    have hm := hmeth (ev, h, ent, meth) (by simp)
    simp only at hm
    simp only [List.map_cons, releaseQ]
    -- delivery of the head relay
    have hdel : ∃ s2 : St, deliverQ U { s0 with queue := rel.map (fun r => QEv.relay r.1 r.2.1 r.2.2.1) }
          (.relay ev h ent) = (s2, .ok) ∧
        s2.known = s0.known ∧ s2.selfReg = s0.selfReg ∧ s2.log = .life ev h meth ent :: s0.log := by
      generalize hs1 : ({ s0 with queue := rel.map (fun r => QEv.relay r.1 r.2.1 r.2.2.1) } : St) = s1
      have hk1 : s1.known.contains onSingle = true := by subst hs1; exact hk0
      have hsr1 : s1.selfReg = true := by subst hs1; exact hsr0
      have e1 : s1.known = s0.known := by subst hs1; rfl
      have e2 : s1.selfReg = s0.selfReg := by subst hs1; rfl
      have e3 : s1.log = s0.log := by subst hs1; rfl
      simp only [deliverQ, deliverRelay]
      rw [if_neg (by rw [hk1, hsr1]; decide)]
      simp only [hm]
      rw [callCb_eq hn]
      obtain ⟨c1, c2, c3, _⟩ := ctrlRecord_fields U s1 ev h ent
      exact ⟨_, rfl, c1.trans e1, c2.trans e2, by simp only; rw [c3, e3]⟩
    obtain ⟨s2, hd, h1, h2, h3⟩ := hdel
    rw [hd]
    simp only
    obtain ⟨i1, i2, i3⟩ := ih (fun r hr => hmeth r (by simp [hr])) s2
      (by rw [h1]; exact hk0) (by rw [h2]; exact hsr0)
    refine ⟨i1, i2, ?_⟩
    rw [i3, h3]; simp

theorem clear_dispatcher (U : Universe) (s : St) (h : (clear U s).2 = .ok) :
    (clear U s).1.known = [onSingle] ∧ (clear U s).1.selfReg = true ∧
    (clear U s).1.enabled = true ∧ (clear U s).1.registered = [] ∧ (clear U s).1.queue = [] := by
  unfold clear at h ⊢
  cases hx : deleteAll U s (Dict.keys s.ents) with
  | mk s1 o =>
    rw [hx] at h
    cases o
    · simp only at h ⊢
      cases hy : removeProcs U { s1 with dead := [] } { s1 with dead := [] }.sorted with
      | mk s2 o2 =>
        rw [hy] at h
        cases o2
        · simp
        all_goals simp at h
    all_goals simp at h

end Desper.World
