import DesperProofs.Lemmas.TreeC11Hist
/-
  C17: `get_static_map` builds a mirror.  Python dictionaries have unique keys; the association
  lists of the model have them after every history (`KeysOk`), which is what makes "the entry a
  snapshot copied" and "the entry a lookup finds" the same entry.
-/
namespace Desper.Tree
open Desper

/-! ### dictionaries with unique keys -/
section dict
variable {κ ν : Type} [DecidableEq κ]

theorem dkeys_set (d : Dict κ ν) (k : κ) (v : ν) :
    Dict.keys (Dict.set d k v) = if k ∈ Dict.keys d then Dict.keys d else Dict.keys d ++ [k] := by
  induction d with
  | nil => simp [Dict.set, Dict.keys]
  | cons p rest ih =>
    obtain ⟨a, b⟩ := p
    simp only [Dict.set]
    by_cases h : a = k
    · subst h; simp [Dict.keys]
    · have h' : ¬ k = a := fun e => h e.symm
      simp only [h, if_false]
      simp only [Dict.keys, List.map_cons, List.mem_cons, h', false_or] at ih ⊢
      rw [ih]
      by_cases hk : k ∈ List.map (fun x => x.fst) rest <;> simp [hk]

theorem dkeys_erase (d : Dict κ ν) (k : κ) :
    Dict.keys (Dict.erase d k) = (Dict.keys d).filter (· ≠ k) := by
  induction d with
  | nil => rfl
  | cons p rest ih =>
    obtain ⟨a, b⟩ := p
    simp only [Dict.erase]
    by_cases h : a = k
    · subst h
      simp only [if_true, Dict.keys, List.map_cons] at ih ⊢
      rw [ih]; simp
    · simp only [h, if_false, Dict.keys, List.map_cons] at ih ⊢
      rw [ih]; simp [h]

theorem dkeys_set_nodup (d : Dict κ ν) (k : κ) (v : ν) (h : (Dict.keys d).Nodup) :
    (Dict.keys (Dict.set d k v)).Nodup := by
  rw [dkeys_set]
  split
  · exact h
  · rename_i hk
    rw [List.nodup_append]
    exact ⟨h, by simp, by intro a ha b hb; simp at hb; subst hb; intro e; subst e; exact hk ha⟩

theorem dkeys_erase_nodup (d : Dict κ ν) (k : κ) (h : (Dict.keys d).Nodup) :
    (Dict.keys (Dict.erase d k)).Nodup := by
  rw [dkeys_erase]; exact h.filter _

theorem dget_mem_keys (d : Dict κ ν) (k : κ) : k ∈ Dict.keys d ↔ Dict.get? d k ≠ none := by
  induction d with
  | nil => simp [Dict.keys]
  | cons p rest ih =>
    obtain ⟨a, b⟩ := p
    simp only [Dict.keys, List.map_cons, List.mem_cons, Dict.get?] at ih ⊢
    by_cases h : a = k
    · simp [h]
    · have h' : ¬ k = a := fun e => h e.symm
      simp [h, h', ih]

theorem dget_cons_of_nodup (a : κ) (b : ν) (rest : Dict κ ν) (k : κ)
    (h : (Dict.keys ((a, b) :: rest)).Nodup) (hk : Dict.get? rest k ≠ none) : a ≠ k := by
  intro e
  subst e
  simp only [Dict.keys, List.map_cons, List.nodup_cons] at h
  exact h.1 ((dget_mem_keys rest a).2 hk)

end dict

/-- every `maps` dictionary of the heap has unique keys -/
def KeysOk (st : St) : Prop := ∀ i, (Dict.keys (st.m i).maps).Nodup

theorem KeysOk.of_tree {st st' : St} (e : SameTree st st') (h : KeysOk st) : KeysOk st' := by
  intro i; rw [e.1 i]; exact h i

theorem assign_keysOk (st : St) (t : MId) (k : String) (v : Ref) (h : KeysOk st) :
    KeysOk (assign st t k v) := by
  intro i
  cases v with
  | map c =>
    rw [assign_map_maps]
    split
    · exact dkeys_set_nodup _ _ _ (h t)
    · exact h i
  | handle g =>
    rw [assign_h_maps]
    split
    · exact dkeys_erase_nodup _ _ (h t)
    · exact h i

theorem descend_keysOk (st : St) (t : MId) (ks : List String) (h : KeysOk st) :
    KeysOk (descend st t ks).1 := by
  induction ks generalizing st t with
  | nil => exact h
  | cons k ks ih =>
    rw [descend_eq]
    have h1 : KeysOk (popLayer0 st t k) := by
      intro i; rw [(popLayer0_fields st t i k).1]; exact h i
    split
    · exact ih _ _ h1
    · exact ih _ _ (assign_keysOk _ _ _ _ (fun i => h1 i))

theorem step_keysOk (st : St) (op : Op) (h : KeysOk st) : KeysOk (step st op).1 := by
  cases hm : op.mutates with
  | false => exact KeysOk.of_tree (step_tree st op hm) h
  | true =>
    cases op with
    | set m key v => exact assign_keysOk _ _ _ _ (descend_keysOk _ _ _ h)
    | layer m =>
      intro i
      change (Dict.keys ((addLayer st m).m i).maps).Nodup
      rw [(addLayer_m st m i).1]; exact h i
    | clear m =>
      intro i
      change (Dict.keys ((clearMap st m).m i).maps).Nodup
      rw [(clearMap_m st m i).1]
      split
      · simp [Dict.keys]
      · exact h i
    | _ => cases hm

theorem exec_keysOk (st : St) (ops : List Op) (h : KeysOk st) : KeysOk (exec st ops) := by
  induction ops generalizing st with
  | nil => exact h
  | cons op ops ih => exact ih _ (step_keysOk st op h)

theorem KeysOk_init : KeysOk {} := by intro i; simp [Dict.keys]
theorem KeysOk_initF (F : HId → Nat → Bool) : KeysOk (init F) := by intro i; simp [Dict.keys]

/-! ### `ChainMap.__iter__` lists exactly the names that `in` finds -/

theorem fold_fromkeys (l : Dict String HId) (d : Dict String Unit) (k : String) :
    Dict.get? (l.foldl (fun d p => Dict.set d p.1 ()) d) k ≠ none ↔
      (Dict.get? d k ≠ none ∨ Dict.get? l k ≠ none) := by
  induction l generalizing d with
  | nil => simp
  | cons p l ih =>
    obtain ⟨a, b⟩ := p
    simp only [List.foldl_cons]
    rw [ih, dget_set]
    simp only [Dict.get?]
    by_cases h : a = k <;> simp [h]

theorem fold_layers (ls : List (Dict String HId)) (d : Dict String Unit) (k : String) :
    Dict.get? (ls.foldl (fun (d : Dict String Unit) l => l.foldl (fun d p => Dict.set d p.1 ()) d) d) k
      ≠ none ↔ (Dict.get? d k ≠ none ∨ ∃ l ∈ ls, Dict.get? l k ≠ none) := by
  induction ls generalizing d with
  | nil => simp
  | cons l ls ih =>
    simp only [List.foldl_cons]
    rw [ih, fold_fromkeys]
    simp only [List.mem_cons, exists_eq_or_imp]
    constructor
    · rintro ((h | h) | h)
      · exact Or.inl h
      · exact Or.inr (Or.inl h)
      · exact Or.inr (Or.inr h)
    · rintro (h | h | h)
      · exact Or.inl (Or.inl h)
      · exact Or.inl (Or.inr h)
      · exact Or.inr h

theorem mem_chainKeys (ls : List (Dict String HId)) (k : String) :
    k ∈ chainKeys ls ↔ chainGet? ls k ≠ none := by
  unfold chainKeys
  rw [dget_mem_keys, fold_layers]
  simp only [dget_nil, ne_eq, not_true_eq_false, false_or, List.mem_reverse]
  rw [show (chainGet? ls k = none) = (chainGet? ls k = none) from rfl, chainGet_none]
  constructor
  · rintro ⟨l, hl, hk⟩ hall; exact hk (hall l hl)
  · intro h
    apply Classical.byContradiction
    intro hne
    exact h (fun l hl => Classical.byContradiction fun hk => hne ⟨l, hl, hk⟩)

theorem get_handleAttrs_aux (ls : List (Dict String HId)) (names : List String) (a : Dict String SAttr)
    (k : String) :
    Dict.get? (names.foldl (fun a k =>
      match chainGet? ls k with
      | some h => Dict.set a k (.handle h)
      | none => a) a) k
    = match (if k ∈ names then chainGet? ls k else none) with
      | some h => some (.handle h)
      | none => Dict.get? a k := by
  induction names generalizing a with
  | nil => simp
  | cons n names ih =>
    simp only [List.foldl_cons]
    rw [ih]
    by_cases hk : k ∈ names
    · simp only [hk, if_true, List.mem_cons, or_true]
      cases hc : chainGet? ls k with
      | some h => rfl
      | none =>
        simp only []
        cases hn : chainGet? ls n with
        | none => rfl
        | some h =>
          simp only [dget_set]
          have : ¬ n = k := by intro e; subst e; rw [hc] at hn; cases hn
          simp [this]
    · simp only [hk, if_false, List.mem_cons, or_false]
      by_cases e : k = n
      · subst e
        simp only [if_true]
        cases hc : chainGet? ls k with
        | some h => simp [dget_set]
        | none => rfl
      · simp only [e, if_false]
        cases hn : chainGet? ls n with
        | none => rfl
        | some h =>
          have : ¬ n = k := fun x => e x.symm
          simp [dget_set, this]

theorem get_handleAttrs (n : MapNode) (k : String) :
    Dict.get? (handleAttrs n) k = (chainGet? n.layers k).map .handle := by
  unfold handleAttrs
  refine (get_handleAttrs_aux n.layers (chainKeys n.layers) [] k).trans ?_
  by_cases hk : k ∈ chainKeys n.layers
  · simp only [hk, if_true]
    cases chainGet? n.layers k <;> rfl
  · simp only [hk, if_false]
    have : chainGet? n.layers k = none := by
      apply Classical.byContradiction
      intro hne
      exact hk ((mem_chainKeys n.layers k).2 hne)
    rw [this]; rfl

/-! ### the mirror relation -/

/-- snapshot object `s` mirrors map object `i` down to depth `d`; every snapshot object involved
has an id below `b` -/
def MirrorN (st : St) (b : Nat) : Nat → Nat → MId → Prop
  | 0, _, _ => True
  | d + 1, s, i =>
    s < b ∧ ∀ k,
      ((st.s s).handleNames.contains k = true ↔ chainGet? (st.m i).layers k ≠ none) ∧
      (match sGet1 st s k, lookup st i k with
        | none, none => True
        | some (.handle h), some (.handle h') => h = h'
        | some (.sub s'), some (.map c) => MirrorN st b d s' c
        | _, _ => False)

/-- `st'` extends `st` by snapshot objects only -/
def SnapMono (st st' : St) : Prop :=
  SameHeap st st' ∧ st.snext ≤ st'.snext ∧ ∀ x, x < st.snext → st'.s x = st.s x

theorem SnapMono.refl (st : St) : SnapMono st st :=
  ⟨⟨rfl, rfl, rfl⟩, Nat.le_refl _, fun _ _ => rfl⟩

theorem SnapMono.trans {a b c : St} (h1 : SnapMono a b) (h2 : SnapMono b c) : SnapMono a c :=
  ⟨⟨h2.1.1.trans h1.1.1, h2.1.2.1.trans h1.1.2.1, h2.1.2.2.trans h1.1.2.2⟩,
   Nat.le_trans h1.2.1 h2.2.1,
   fun x hx => (h2.2.2 x (Nat.lt_of_lt_of_le hx h1.2.1)).trans (h1.2.2 x hx)⟩

theorem SameHeap.m {st st' : St} (h : SameHeap st st') (i : MId) : st'.m i = st.m i := by
  simp [St.m, h.1]

theorem SameHeap.h {st st' : St} (h : SameHeap st st') (g : HId) : st'.h g = st.h g := by
  simp [St.h, h.2.1]

theorem SameHeap.lookup {st st' : St} (h : SameHeap st st') (i : MId) (k : String) :
    lookup st' i k = lookup st i k := by
  simp [Desper.Tree.lookup, h.m]

theorem MirrorN.mono {st st' : St} {b b' d s : Nat} {i : MId} (hm : SnapMono st st') (hb : b ≤ st.snext)
    (hb' : b ≤ b') (h : MirrorN st b d s i) : MirrorN st' b' d s i := by
  induction d generalizing s i with
  | zero => trivial
  | succ d ih =>
    obtain ⟨hs, hk⟩ := h
    refine ⟨Nat.lt_of_lt_of_le hs hb', fun k => ?_⟩
    obtain ⟨h1, h2⟩ := hk k
    have es : st'.s s = st.s s := hm.2.2 s (Nat.lt_of_lt_of_le hs hb)
    refine ⟨by rw [es, hm.1.m]; exact h1, ?_⟩
    rw [hm.1.lookup]
    have es' : sGet1 st' s k = sGet1 st s k := by simp [sGet1, es]
    rw [es']
    revert h2
    cases sGet1 st s k with
    | none => cases lookup st i k <;> exact id
    | some a =>
      cases a with
      | handle g =>
        cases lookup st i k with
        | none => exact id
        | some r => cases r <;> exact id
      | sub s' =>
        cases lookup st i k with
        | none => exact id
        | some r =>
          cases r with
          | handle g => exact id
          | map c => exact fun h2 => ih h2

/-! ### `get_static_map` builds a mirror -/

/-- what the recursive call is known to do -/
def RecSpec (rec : St → MId → St × Option Nat) : Prop :=
  ∀ st i, OneKind st → KeysOk st → ∀ st' s, rec st i = (st', some s) →
    SnapMono st st' ∧ ∀ d, MirrorN st' st'.snext d s i

theorem snapStep_none (rec : St → MId → St × Option Nat) (l : List (String × MId)) (st : St) :
    (l.foldl (snapStep rec) (st, none)).2 = none := by
  induction l with
  | nil => rfl
  | cons kc l ih => simpa [snapStep] using ih

theorem snapStep_fold_mono (rec : St → MId → St × Option Nat)
    (hrec : ∀ st i, SnapMono st (rec st i).1) (l : List (String × MId))
    (acc : St × Option (Dict String SAttr)) : SnapMono acc.1 (l.foldl (snapStep rec) acc).1 := by
  induction l generalizing acc with
  | nil => exact SnapMono.refl _
  | cons kc l ih =>
    simp only [List.foldl_cons]
    refine SnapMono.trans ?_ (ih _)
    unfold snapStep
    cases acc.2 with
    | none => exact SnapMono.refl _
    | some a =>
      simp only []
      have := hrec acc.1 kc.2
      rcases hs : rec acc.1 kc.2 with ⟨st', _ | s⟩ <;> rw [hs] at this <;> exact this

theorem allocSnap_mono (st : St) (node : SNode) : SnapMono st (allocSnap st node).1 := by
  refine ⟨⟨rfl, rfl, rfl⟩, Nat.le_succ _, fun x hx => ?_⟩
  have : ¬ st.snext = x := fun e => Nat.lt_irrefl _ (e ▸ hx)
  simp [allocSnap, St.s, dget_set, this]

theorem allocSnap_s (st : St) (node : SNode) : (allocSnap st node).1.s (allocSnap st node).2 = node := by
  simp [allocSnap, St.s, dget_set]

theorem snapshot_mono (fuel : Nat) (st : St) (i : MId) : SnapMono st (snapshot fuel st i).1 := by
  induction fuel generalizing st i with
  | zero => exact SnapMono.refl st
  | succ fuel ih =>
    simp only [snapshot]
    have k0 := snapStep_fold_mono (snapshot fuel) ih (st.m i).maps (st, some (handleAttrs (st.m i)))
    split
    · exact SnapMono.trans k0 (allocSnap_mono _ _)
    · exact k0

/-- the fold over the sub-maps: every sub-map entry ends up as a mirrored sub-snapshot, every
other attribute is left as it was -/
theorem snapStep_fold_spec (rec : St → MId → St × Option Nat) (hspec : RecSpec rec)
    (hmono : ∀ st i, SnapMono st (rec st i).1)
    (l : List (String × MId)) (hnd : (Dict.keys l).Nodup) (stc : St) (a : Dict String SAttr)
    (ho : OneKind stc) (hk : KeysOk stc) (stf : St) (af : Dict String SAttr)
    (hf : l.foldl (snapStep rec) (stc, some a) = (stf, some af)) (k : String) :
    match Dict.get? l k with
    | some c => ∃ s', Dict.get? af k = some (.sub s') ∧ ∀ d, MirrorN stf stf.snext d s' c
    | none => Dict.get? af k = Dict.get? a k := by
  induction l generalizing stc a with
  | nil => simp only [List.foldl_nil, Prod.mk.injEq, Option.some.injEq] at hf; rw [← hf.2]; rfl
  | cons kc l ih =>
    obtain ⟨k0, c0⟩ := kc
    simp only [List.foldl_cons] at hf
    -- the recursive call on the first child
    rcases hr : rec stc c0 with ⟨st1, _ | s0⟩
    · have : snapStep rec (stc, some a) (k0, c0) = (st1, none) := by simp [snapStep, hr]
      rw [this] at hf
      have := snapStep_none rec l st1
      rw [hf] at this; cases this
    · have e1 : snapStep rec (stc, some a) (k0, c0) = (st1, some (Dict.set a k0 (.sub s0))) := by
        simp [snapStep, hr]
      rw [e1] at hf
      obtain ⟨m1, mir1⟩ := hspec stc c0 ho hk st1 s0 hr
      have ho1 : OneKind st1 := by intro i k' hk'; rw [m1.1.m] at hk' ⊢; exact ho i k' hk'
      have hk1 : KeysOk st1 := by intro i; rw [m1.1.m]; exact hk i
      have hnd' : (Dict.keys l).Nodup := by
        simp only [Dict.keys, List.map_cons, List.nodup_cons] at hnd; exact hnd.2
      have ih' := ih hnd' st1 _ ho1 hk1 hf
      have mf : SnapMono st1 stf := by
        have := snapStep_fold_mono rec hmono l (st1, some (Dict.set a k0 (.sub s0)))
        rw [hf] at this; exact this
      simp only [Dict.get?]
      by_cases e : k0 = k
      · subst e
        simp only [if_true]
        -- k0 is not a key of the rest
        have hn : Dict.get? l k0 = none := by
          apply Classical.byContradiction
          intro hne
          exact dget_cons_of_nodup k0 c0 l k0 hnd hne rfl
        rw [hn] at ih'
        simp only [dget_set, if_true] at ih'
        exact ⟨s0, ih', fun d => MirrorN.mono mf (Nat.le_refl _) mf.2.1 (mir1 d)⟩
      · simp only [e, if_false]
        cases hl : Dict.get? l k with
        | some c => rw [hl] at ih'; exact ih'
        | none =>
          rw [hl] at ih'
          simp only [dget_set, e, if_false] at ih'
          exact ih'

theorem snapshot_spec (fuel : Nat) : RecSpec (snapshot fuel) := by
  induction fuel with
  | zero => intro st i _ _ st' s h; simp [snapshot] at h
  | succ fuel ih =>
    intro st i ho hk st' s h
    have hm := snapshot_mono (fuel + 1) st i
    rw [h] at hm
    refine ⟨hm, ?_⟩
    simp only [snapshot] at h
    rcases hfold : (st.m i).maps.foldl (snapStep (snapshot fuel)) (st, some (handleAttrs (st.m i)))
      with ⟨stf, _ | af⟩
    · rw [hfold] at h; simp at h
    · rw [hfold] at h
      simp only [Prod.mk.injEq, Option.some.injEq] at h
      obtain ⟨rfl, rfl⟩ := h
      have mf : SnapMono st stf := by
        have := snapStep_fold_mono (snapshot fuel) (snapshot_mono fuel) (st.m i).maps
          (st, some (handleAttrs (st.m i)))
        rw [hfold] at this; exact this
      have hs := allocSnap_s stf { handleNames := chainKeys (st.m i).layers, attrs := af }
      have malloc := allocSnap_mono stf { handleNames := chainKeys (st.m i).layers, attrs := af }
      intro d
      cases d with
      | zero => trivial
      | succ d =>
        refine ⟨Nat.lt_succ_self _, fun k => ?_⟩
        have hmi : ∀ j, (allocSnap stf { handleNames := chainKeys (st.m i).layers, attrs := af }).1.m j
            = st.m j := fun j => (malloc.1.m j).trans (mf.1.m j)
        have hlk : lookup (allocSnap stf { handleNames := chainKeys (st.m i).layers, attrs := af }).1 i k
            = lookup st i k := by
          simp [lookup, hmi]
        rw [hs, hmi, hlk]
        refine ⟨by simp only [List.contains_iff_mem]; exact mem_chainKeys _ k, ?_⟩
        simp only [sGet1, hs]
        have spec := snapStep_fold_spec (snapshot fuel) ih (snapshot_mono fuel) (st.m i).maps (hk i)
          st (handleAttrs (st.m i)) ho hk stf af hfold k
        cases hc : Dict.get? (st.m i).maps k with
        | some c =>
          rw [hc] at spec
          obtain ⟨s', h1, h2⟩ := spec
          have hnone := ho i k (by rw [hc]; simp)
          rw [h1]
          simp only [lookup, hnone, hc, Option.map_some]
          exact MirrorN.mono malloc (Nat.le_refl _) (Nat.le_succ _) (h2 d)
        | none =>
          rw [hc] at spec
          rw [spec, get_handleAttrs]
          simp only [lookup, hc, Option.map_none]
          cases chainGet? (st.m i).layers k <;> simp

/-! ### reading through the snapshot and through the map -/

/-- corresponding answers of `snapshot[k]...` / `snapshot.k...` and `m[k]...`: the same loaded
resource, or a sub-snapshot where the map has a sub-map, or an absent name (`AttributeError` where
the map raises `KeyError`), or the loader's exception in both, or both went on to index a loaded
resource -/
def ItemRel : Outcome Item → Outcome Item → Prop
  | .ok (.val v), .ok (.val w) => v = w
  | .ok (.smap _), .ok (.map _) => True
  | .raised e, .raised e' => (e = "AttributeError" ∧ e' = "KeyError") ∨ (e = "LoadError" ∧ e' = "LoadError")
  | .stuck, .stuck => True
  | _, _ => False

/-- corresponding answers of `snapshot.get(k)...` and `m.get(k)...`: the same handle object, or
a sub-snapshot where the map has a sub-map, or absent in both -/
def GetRel : Option SAttr → Option Ref → Prop
  | none, none => True
  | some (.handle h), some (.handle h') => h = h'
  | some (.sub _), some (.map _) => True
  | _, _ => False

theorem mirror_step (st : St) (b d s : Nat) (i : MId) (k : String) (h : MirrorN st b (d + 1) s i) :
    (sGetAttr1 st s k).1 = (getItemPath st i [] k).1 ∧
    (match (sGetAttr1 st s k).2, (getItemPath st i [] k).2 with
      | .ok (.val v), .ok (.val w) => v = w
      | .ok (.smap s'), .ok (.map c) => (sGetAttr1 st s k).1 = st ∧ MirrorN st b d s' c
      | .raised e, .raised e' => (e = "AttributeError" ∧ e' = "KeyError") ∨ (e = "LoadError" ∧ e' = "LoadError")
      | _, _ => False) := by
  obtain ⟨_, hk⟩ := h
  obtain ⟨hn, hm⟩ := hk k
  simp only [sGet1, lookup] at hm
  simp only [sGetAttr1, getItemPath, walk]
  cases hc : chainGet? (st.m i).layers k with
  | some g =>
    have hcont : (st.s s).handleNames.contains k = true := hn.2 (by rw [hc]; simp)
    rw [hc] at hm
    simp only [hcont, if_true]
    cases ha : Dict.get? (st.s s).attrs k with
    | none => rw [ha] at hm; exact hm.elim
    | some a =>
      rw [ha] at hm
      cases a with
      | sub s' => exact hm.elim
      | handle g' =>
        simp only at hm; subst hm
        refine ⟨rfl, ?_⟩
        cases hx : (callH st g').2 with
        | none => simp [itemOf, hx]
        | tok a n => simp [itemOf, hx]
        | exc a n => simp [itemOf, hx]
  | none =>
    have hcont : ¬ (st.s s).handleNames.contains k = true := fun e => (hn.1 e) hc
    rw [hc] at hm
    simp only [hcont]
    cases hmk : Dict.get? (st.m i).maps k with
    | none =>
      rw [hmk] at hm
      cases ha : Dict.get? (st.s s).attrs k with
      | none => exact ⟨rfl, Or.inl ⟨rfl, rfl⟩⟩
      | some a => rw [ha] at hm; cases a <;> exact hm.elim
    | some c =>
      rw [hmk] at hm
      cases ha : Dict.get? (st.s s).attrs k with
      | none => rw [ha] at hm; exact hm.elim
      | some a =>
        rw [ha] at hm
        cases a with
        | handle g' => exact hm.elim
        | sub s' => exact ⟨rfl, rfl, hm⟩

theorem mirror_items (st : St) (b : Nat) (ks : List String) (s : Nat) (i : MId)
    (h : ∀ d, MirrorN st b d s i) :
    (sItems st s ks).1 = (chainItems st i ks).1 ∧ ItemRel (sItems st s ks).2 (chainItems st i ks).2 := by
  induction ks generalizing s i with
  | nil => exact ⟨rfl, trivial⟩
  | cons k ks ih =>
    simp only [sItems, chainItems]
    rcases hs : sGetAttr1 st s k with ⟨st1, o1⟩
    rcases hg : getItemPath st i [] k with ⟨st2, o2⟩
    have h1 : ∀ d, _ := fun d => mirror_step st b d s i k (h (d + 1))
    simp only [hs, hg] at h1
    have e12 : st1 = st2 := (h1 0).1
    subst e12
    cases o1 with
    | ok it1 =>
      cases it1 with
      | val v =>
        cases o2 with
        | ok it2 =>
          cases it2 with
          | val w =>
            have := (h1 0).2
            simp only at this
            subst this
            by_cases he : ks.isEmpty = true <;> simp [he, ItemRel]
          | map c => exact ((h1 0).2).elim
          | smap c => exact ((h1 0).2).elim
        | raised e => exact ((h1 0).2).elim
        | stuck => exact ((h1 0).2).elim
      | smap s' =>
        cases o2 with
        | ok it2 =>
          cases it2 with
          | map c =>
            have e : st1 = st := ((h1 0).2).1
            subst e
            exact ih s' c (fun d => ((h1 d).2).2)
          | val w => exact ((h1 0).2).elim
          | smap c => exact ((h1 0).2).elim
        | raised e => exact ((h1 0).2).elim
        | stuck => exact ((h1 0).2).elim
      | map c' => cases o2 with
        | ok it2 => cases it2 <;> exact ((h1 0).2).elim
        | raised e => exact ((h1 0).2).elim
        | stuck => exact ((h1 0).2).elim
    | raised e =>
      cases o2 with
      | ok it2 => cases it2 <;> exact ((h1 0).2).elim
      | raised e' => exact ⟨rfl, (h1 0).2⟩
      | stuck => exact ((h1 0).2).elim
    | stuck =>
      cases o2 with
      | ok it2 => cases it2 <;> exact ((h1 0).2).elim
      | raised e' => exact ((h1 0).2).elim
      | stuck => exact ((h1 0).2).elim

theorem mirror_get (st : St) (b : Nat) (ks : List String) (s : Nat) (i : MId)
    (h : ∀ d, MirrorN st b d s i) : GetRel (sGetChain st s ks) (getChain st i ks) := by
  induction ks generalizing s i with
  | nil => trivial
  | cons k ks ih =>
    simp only [sGetChain, getChain]
    have h1 : ∀ d, _ := fun d => ((h (d + 1)).2 k).2
    cases ha : sGet1 st s k with
    | none =>
      have := h1 0
      rw [ha] at this
      cases hl : lookup st i k with
      | none => trivial
      | some r => rw [hl] at this; exact this.elim
    | some a =>
      cases hl : lookup st i k with
      | none => have := h1 0; rw [ha, hl] at this; cases a <;> exact this.elim
      | some r =>
        cases a with
        | handle g =>
          cases r with
          | map c => have := h1 0; rw [ha, hl] at this; exact this.elim
          | handle g' =>
            have := h1 0; rw [ha, hl] at this
            simp only at this; subst this
            by_cases he : ks.isEmpty = true <;> simp [he, GetRel]
        | sub s' =>
          cases r with
          | handle g' => have := h1 0; rw [ha, hl] at this; exact this.elim
          | map c =>
            refine ih s' c (fun d => ?_)
            have := h1 d; rw [ha, hl] at this; exact this

/-! ### a snapshot keeps mirroring while the program only reads and loads -/

/-- same maps; snapshot objects are only added -/
def Stable (st st' : St) : Prop :=
  (∀ j, st'.m j = st.m j) ∧ st.snext ≤ st'.snext ∧ ∀ x, x < st.snext → st'.s x = st.s x

theorem Stable.refl (st : St) : Stable st st := ⟨fun _ => rfl, Nat.le_refl _, fun _ _ => rfl⟩

theorem Stable.trans {a b c : St} (h1 : Stable a b) (h2 : Stable b c) : Stable a c :=
  ⟨fun j => (h2.1 j).trans (h1.1 j), Nat.le_trans h1.2.1 h2.2.1,
   fun x hx => (h2.2.2 x (Nat.lt_of_lt_of_le hx h1.2.1)).trans (h1.2.2 x hx)⟩

theorem SnapMono.stable {st st' : St} (h : SnapMono st st') : Stable st st' :=
  ⟨fun j => h.1.m j, h.2.1, h.2.2⟩

theorem MirrorN.stable {st st' : St} {b b' d s : Nat} {i : MId} (hm : Stable st st')
    (hb : b ≤ st.snext) (hb' : b ≤ b') (h : MirrorN st b d s i) : MirrorN st' b' d s i := by
  induction d generalizing s i with
  | zero => trivial
  | succ d ih =>
    obtain ⟨hs, hk⟩ := h
    refine ⟨Nat.lt_of_lt_of_le hs hb', fun k => ?_⟩
    obtain ⟨h1, h2⟩ := hk k
    have es : st'.s s = st.s s := hm.2.2 s (Nat.lt_of_lt_of_le hs hb)
    have el : lookup st' i k = lookup st i k := by simp [lookup, hm.1]
    refine ⟨by rw [es, hm.1]; exact h1, ?_⟩
    have es' : sGet1 st' s k = sGet1 st s k := by simp [sGet1, es]
    rw [es', el]
    revert h2
    cases sGet1 st s k with
    | none => cases lookup st i k <;> exact id
    | some a =>
      cases a with
      | handle g =>
        cases lookup st i k with
        | none => exact id
        | some r => cases r <;> exact id
      | sub s' =>
        cases lookup st i k with
        | none => exact id
        | some r =>
          cases r with
          | handle g => exact id
          | map c => exact fun h2 => ih h2

/-- the snapshot store did not change -/
def SameSnaps (st st' : St) : Prop := st'.snaps = st.snaps ∧ st'.snext = st.snext

theorem callH_snaps (st : St) (g : HId) : SameSnaps st (callH st g).1 := by
  unfold callH
  by_cases hc : (st.h g).cached = true
  · rw [if_pos hc]; exact ⟨rfl, rfl⟩
  · rw [if_neg hc]
    by_cases hf : st.failing g ((st.h g).tries + 1) = true
    · rw [if_pos hf]; exact ⟨rfl, rfl⟩
    · rw [if_neg hf]; exact ⟨rfl, rfl⟩

theorem getItemPath_snaps (st : St) (i : MId) (ps : List String) (last : String) :
    SameSnaps st (getItemPath st i ps last).1 := by
  unfold getItemPath
  split
  · exact ⟨rfl, rfl⟩
  · split
    · exact callH_snaps st _
    · split <;> exact ⟨rfl, rfl⟩

theorem chainItems_snaps (st : St) (i : MId) (ks : List String) : SameSnaps st (chainItems st i ks).1 := by
  induction ks generalizing st i with
  | nil => exact ⟨rfl, rfl⟩
  | cons k ks ih =>
    have s1 := getItemPath_snaps st i [] k
    simp only [chainItems]
    rcases hg : getItemPath st i [] k with ⟨st', o⟩
    rw [hg] at s1
    cases o with
    | ok it =>
      cases it with
      | map c => have := ih st' c; exact ⟨this.1.trans s1.1, this.2.trans s1.2⟩
      | val v => simp only []; split <;> exact s1
      | smap s => simp only []; split <;> exact s1
    | raised e => exact s1
    | stuck => exact s1

theorem sGetAttr1_snaps (st : St) (s : Nat) (k : String) : SameSnaps st (sGetAttr1 st s k).1 := by
  unfold sGetAttr1
  split
  · split
    · exact callH_snaps st _
    · exact ⟨rfl, rfl⟩
    · exact ⟨rfl, rfl⟩
  · split <;> exact ⟨rfl, rfl⟩

theorem sItems_snaps (st : St) (s : Nat) (ks : List String) : SameSnaps st (sItems st s ks).1 := by
  induction ks generalizing st s with
  | nil => exact ⟨rfl, rfl⟩
  | cons k ks ih =>
    have s1 := sGetAttr1_snaps st s k
    simp only [sItems]
    rcases hg : sGetAttr1 st s k with ⟨st', o⟩
    rw [hg] at s1
    cases o with
    | ok it =>
      cases it with
      | smap c => have := ih st' c; exact ⟨this.1.trans s1.1, this.2.trans s1.2⟩
      | val v => simp only []; split <;> exact s1
      | map s => simp only []; split <;> exact s1
    | raised e => exact s1
    | stuck => exact s1

theorem step_stable (st : St) (op : Op) (h : op.mutates = false) : Stable st (step st op).1 := by
  have ht := step_tree st op h
  have of_snaps : ∀ st', SameTree st st' → SameSnaps st st' → Stable st st' := by
    intro st' t sn
    exact ⟨t.1, by rw [sn.2]; exact Nat.le_refl _, fun x _ => by simp [St.s, sn.1]⟩
  cases op with
  | set m key v => cases h
  | layer m => cases h
  | clear m => cases h
  | reject m => exact Stable.refl st
  | getitem m key => exact of_snaps _ ht (getItemPath_snaps st m _ _)
  | get m key => exact Stable.refl st
  | chain m ks => exact of_snaps _ ht (chainItems_snaps st m ks)
  | call g => exact of_snaps _ ht (callH_snaps st g)
  | hclear g => exact of_snaps _ ht ⟨rfl, rfl⟩
  | cached g => exact Stable.refl st
  | snap m => exact (snapshot_mono _ st m).stable
  | sitems s ks => exact of_snaps _ ht (sItems_snaps st s ks)
  | sget s ks => exact Stable.refl st
  | ssetattr s k => exact Stable.refl st
  | sdelattr s k => exact Stable.refl st

theorem exec_stable (st : St) (ops : List Op) (h : ∀ op ∈ ops, op.mutates = false) :
    Stable st (exec st ops) := by
  induction ops generalizing st with
  | nil => exact Stable.refl st
  | cons op ops ih =>
    rw [exec_cons]
    exact (step_stable st op (h op (by simp))).trans (ih _ (fun o ho => h o (by simp [ho])))

end Desper.Tree
