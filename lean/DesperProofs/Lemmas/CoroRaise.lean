import DesperProofs.Lemmas.CoroSan
/-
  Programs whose bodies may leave with an exception (quit_loop() / switch() inside a coroutine, a
  bug): what holds of *every* program, in every reachable state — also after process calls that a
  body aborted (used by Props/C08.lean and Props/C09.lean).
-/
set_option linter.unusedSimpArgs false
set_option linter.unusedVariables false
namespace Desper.Coro
open Desper

/-- `x` is in front of the sentinel -/
def inSeg (x : Gen) : List (Option Gen) → Bool
  | [] => false
  | none :: _ => false
  | some y :: t => y == x || inSeg x t

theorem inSeg_mem {x : Gen} {l : List (Option Gen)} (h : inSeg x l = true) : some x ∈ l := by
  induction l with
  | nil => simp [inSeg] at h
  | cons a t ih =>
    cases a with
    | none => simp [inSeg] at h
    | some y =>
      simp only [inSeg, Bool.or_eq_true, beq_iff_eq] at h
      rcases h with h | h
      · subst h; exact List.mem_cons_self
      · exact List.mem_cons_of_mem _ (ih h)

theorem inSeg_append {x : Gen} {l : List (Option Gen)} (m : List (Option Gen)) (h : none ∈ l) :
    inSeg x (l ++ m) = inSeg x l := by
  induction l with
  | nil => simp at h
  | cons a t ih =>
    cases a with
    | none => simp [inSeg]
    | some y =>
      simp only [List.mem_cons, reduceCtorEq, false_or] at h
      simp [inSeg, ih h]

/-- **at most one step per call, for every program and from every coherent state** (also one left
behind by a call that a body aborted): the run loop advances a generator at most once, and only if
it is in front of the sentinel -/
theorem loop_pc_le (U : Universe) (fuel : Nat) {s : St} (I : Inv s) (x : Gen) :
    s.pc x ≤ (loop U fuel s).1.pc x ∧
    (loop U fuel s).1.pc x ≤ s.pc x + (if inSeg x s.active = true then 1 else 0) := by
  induction fuel generalizing s with
  | zero => simp [loop]
  | succ n ih =>
    unfold loop
    cases hact : s.active with
    | nil => simp [iter, hact]
    | cons a tl =>
      cases a with
      | none => simp [iter_exit U hact]
      | some g =>
        have hn := I.none_mem_tail hact
        have hgtl : some g ∉ tl := by
          intro hm
          have h1 := I.once g
          have : 0 < List.count (some g) tl := List.count_pos_iff.mpr hm
          simp only [cntA, hact, List.count_cons, beq_self_eq_true, if_true] at h1
          omega
        have hseg_tl : (if inSeg x tl = true then 1 else 0) ≤
            (if inSeg x (some g :: tl) = true then 1 else 0) := by
          simp only [inSeg]
          split <;> simp_all
        cases hk : s.kill g with
        | true =>
          rw [iter_drop U I hact hk]
          simp only []
          obtain ⟨l1, l2⟩ := ih (dropHead_inv I hact)
          have e1 : (dropHead s g).active = tl := by simp [dropHead, hact]
          have e2 : (dropHead s g).pc x = s.pc x := rfl
          rw [e1, e2] at l2
          rw [e2] at l1
          exact ⟨l1, by omega⟩
        | false =>
          obtain ⟨extra, p, hba, _, _, I1, _, hit⟩ := iter_run_gen U I hact hk
          have hpc := runBody_pc U s g x
          rw [hit]
          rcases crash_or_not (runBody U s g).2 with ⟨e, he⟩ | hnc
          · rw [iterAfter_crash he]
            simp only []
            have : (crashDrop (runBody U s g).1 g).pc x = (runBody U s g).1.pc x := rfl
            rw [this, hpc]
            by_cases hx : x = g
            · subst hx; simp only [inSeg, beq_self_eq_true, Bool.true_or, if_true]; split <;> omega
            · simp [hx]
          · rw [iterAfter_next hnc]
            simp only []
            obtain ⟨l1, l2⟩ := ih (afterBody_inv I1 p hba)
            have hf := (afterBody_fields (runBody U s g) g p).1
            rw [hf, hpc] at l1 l2
            have hseg : inSeg x (afterBody (runBody U s g) g p).active = inSeg x tl := by
              unfold afterBody
              split
              · simp [finishHead, dropHead, hba, inSeg_append _ hn]
              · split
                · simp [pauseHead, hba, inSeg_append _ hn]
                · simp only [rotHead, rotl, hba, List.append_assoc]
                  rw [inSeg_append _ hn]
              · rename_i e he; exact absurd he (hnc e)
            rw [hseg] at l2
            by_cases hx : x = g
            · subst hx
              have hns : inSeg x tl = false := by
                cases hq : inSeg x tl with
                | false => rfl
                | true => exact absurd (inSeg_mem hq) hgtl
              simp only [hns, Bool.false_eq_true, if_false, Nat.add_zero, true_and] at l1 l2
              simp only [inSeg, beq_self_eq_true, Bool.true_or, if_true]
              constructor
              · split at l1 <;> omega
              · split at l2 <;> omega
            · simp only [hx, false_and, if_false] at l1 l2
              exact ⟨l1, by omega⟩

theorem process_pc_le (U : Universe) {s : St} (I : Inv s) (dt : Int) (hint : List Gen) (x : Gen) :
    s.pc x ≤ (process U s dt hint).1.pc x ∧ (process U s dt hint).1.pc x ≤ s.pc x + 1 := by
  obtain ⟨h1, I1⟩ := wakePhase_spec I dt hint
  obtain ⟨w1, _⟩ := wake_frame I dt hint
  unfold process
  cases hw : wakePhase s dt hint with | mk s1 o =>
  rw [hw] at h1 I1 w1
  simp only at h1 I1 w1
  subst h1
  simp only []
  obtain ⟨l1, l2⟩ := loop_pc_le U ((rotl s1.active).length + 1) I1.rotate x
  have e : ({ s1 with active := rotl s1.active } : St).pc x = s.pc x := congrFun w1 x
  rw [e] at l1 l2
  refine ⟨l1, Nat.le_trans l2 ?_⟩
  split <;> omega

/-! ### a generator whose body raised is over -/

/-- generic principle for the run loop of an arbitrary program -/
theorem loop_rel_gen (U : Universe) (R : St → St → Prop) (hrefl : ∀ c, R c c)
    (htrans : ∀ a b c, R a b → R b c → R a c)
    (hdrop : ∀ (s : St) (g : Gen) (tl : List (Option Gen)), Inv s → s.active = some g :: tl →
      s.kill g = true → R s (dropHead s g))
    (hbody : ∀ (s : St) (g : Gen) (tl : List (Option Gen)), Inv s → s.active = some g :: tl →
      s.kill g = false → R s (runBody U s g).1)
    (hafter : ∀ (b : St × Next) (g : Gen) (p : Nat) (tl : List (Option Gen)), Inv b.1 →
      b.1.active = some g :: tl → R b.1 (afterBody b g p))
    (hcrash : ∀ (c : St) (g : Gen) (tl : List (Option Gen)), Inv c → c.active = some g :: tl →
      R c (crashDrop c g))
    (fuel : Nat) {s : St} (I : Inv s) : R s (loop U fuel s).1 := by
  induction fuel generalizing s with
  | zero => exact hrefl s
  | succ n ih =>
    unfold loop
    cases hact : s.active with
    | nil => simp [iter, hact]; exact hrefl s
    | cons a tl =>
      cases a with
      | none => simp [iter_exit U hact]; exact hrefl s
      | some g =>
        cases hk : s.kill g with
        | true =>
          rw [iter_drop U I hact hk]
          exact htrans _ _ _ (hdrop s g tl I hact hk) (ih (dropHead_inv I hact))
        | false =>
          obtain ⟨extra, p, hba, _, _, I1, _, hit⟩ := iter_run_gen U I hact hk
          rw [hit]
          rcases crash_or_not (runBody U s g).2 with ⟨e, he⟩ | hnc
          · rw [iterAfter_crash he]
            exact htrans _ _ _ (hbody s g tl I hact hk) (hcrash _ g _ I1 hba)
          · rw [iterAfter_next hnc]
            exact htrans _ _ _ (hbody s g tl I hact hk)
              (htrans _ _ _ (hafter _ g p _ I1 hba) (ih (afterBody_inv I1 p hba)))

/-- an exhausted generator object stays exhausted and executes nothing -/
def Over (g : Gen) (s s' : St) : Prop := s.fin g = true → s'.fin g = true ∧ s'.pc g = s.pc g

theorem runBody_fin_self (U : Universe) (s : St) (g : Gen) (h : s.fin g = true) :
    runBody U s g = (s, .stop none) := by
  simp [runBody, h]

theorem runBody_over (U : Universe) (s : St) (x g : Gen) : Over g s (runBody U s x).1 := by
  intro h
  by_cases hx : x = g
  · subst hx; rw [runBody_fin_self U s x h]; exact ⟨h, rfl⟩
  · have := (runBody_other U s x g (Ne.symm hx)).1
    exact ⟨by rw [this]; exact h, by rw [runBody_pc]; simp [Ne.symm hx]⟩

theorem process_over (U : Universe) {s : St} (I : Inv s) (dt : Int) (hint : List Gen) (g : Gen) :
    Over g s (process U s dt hint).1 := by
  obtain ⟨h1, I1⟩ := wakePhase_spec I dt hint
  obtain ⟨w1, w2, _⟩ := wake_frame I dt hint
  unfold process
  cases hw : wakePhase s dt hint with | mk s1 o =>
  rw [hw] at h1 I1 w1 w2
  simp only at h1 I1 w1 w2
  subst h1
  simp only []
  have := loop_rel_gen U (Over g) (fun _ h => ⟨h, rfl⟩)
    (fun a b c h1 h2 h => ⟨(h2 (h1 h).1).1, (h2 (h1 h).1).2.trans (h1 h).2⟩)
    (fun s x tl _ _ _ h => ⟨h, rfl⟩)
    (fun s x tl _ _ _ => runBody_over U s x g)
    (fun b x p tl _ _ h => by
      obtain ⟨f1, f2, _⟩ := afterBody_fields b x p
      exact ⟨by rw [f2]; exact h, by rw [f1]⟩)
    (fun c x tl _ _ h => ⟨h, rfl⟩)
    ((rotl s1.active).length + 1) I1.rotate
  intro h
  have hf : ({ s1 with active := rotl s1.active } : St).fin g = true := by
    show s1.fin g = true
    rw [w2]; exact h
  obtain ⟨t1, t2⟩ := this hf
  exact ⟨t1, t2.trans (congrFun w1 g)⟩

theorem execOp_over (U : Universe) {s : St} (I : Inv s) (op : Op) (g : Gen) : Over g s (execOp U s op) := by
  cases op with
  | start h => have := start_same U s h; exact fun hf => ⟨by simp [execOp, St.push, this.fin, hf], by simp [execOp, St.push, this.pc]⟩
  | kill h => have := kill_same U s h; exact fun hf => ⟨by simp [execOp, St.push, this.fin, hf], by simp [execOp, St.push, this.pc]⟩
  | state h => intro hf; simp only [execOp]; split <;> exact ⟨hf, rfl⟩
  | value h => exact fun hf => ⟨hf, rfl⟩
  | process dt hint => exact fun hf => by simpa [execOp, St.push] using process_over U I dt hint g hf

theorem run_over (U : Universe) {s : St} (I : Inv s) (ops : List Op) (g : Gen) : Over g s (run U s ops) := by
  induction ops generalizing s with
  | nil => exact fun h => ⟨h, rfl⟩
  | cons op rest ih =>
    intro h
    obtain ⟨h1, h2⟩ := execOp_over U I op g h
    obtain ⟨h3, h4⟩ := ih (execOp_inv U I op) h1
    exact ⟨h3, h4.trans h2⟩


end Desper.Coro
