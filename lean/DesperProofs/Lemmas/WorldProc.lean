import DesperProofs.Lemmas.WorldBisect
import DesperProofs.Lemmas.WorldFrame
import DesperProofs.Lemmas.WorldWalk
/-
  The processor tables: sorted by priority, stable, one processor per exact type.
-/
namespace Desper.World
open Desper

theorem sortedKeys_of_pairwise (f : Obj → Int) (l : List Obj)
    (h : l.Pairwise (fun a b => f a ≤ f b)) : SortedKeys (l.map f) := by
  intro i j hij hj
  simp only [List.length_map] at hj
  have hi : i < l.length := by omega
  simp only [List.getElem?_map, List.getElem?_eq_getElem hi, List.getElem?_eq_getElem hj,
    Option.map_some, Option.getD_some]
  rcases Nat.lt_or_ge i j with hlt | hge
  · exact (List.pairwise_iff_getElem.mp h) i j hi hj hlt
  · have : i = j := by omega
    subst this; exact Int.le_refl _

/-- `insort` puts `p` after every element with a priority `≤` its own and before every element
with a larger one, leaving the others in their order (stable for ties) -/
theorem insort_spec (U : Universe) (s : St) (p : Obj)
    (h : s.sorted.Pairwise (fun a b => priority U s a ≤ priority U s b)) :
    ∃ i, insort U s p = s.sorted.take i ++ [p] ++ s.sorted.drop i ∧
      (∀ a ∈ s.sorted.take i, priority U s a ≤ priority U s p) ∧
      (∀ b ∈ s.sorted.drop i, priority U s p < priority U s b) := by
  refine ⟨bisectRight (s.sorted.map (priority U s)) (priority U s p)
    ((s.sorted.map (priority U s)).length + 1) 0 (s.sorted.map (priority U s)).length, rfl, ?_, ?_⟩
  · intro a ha
    obtain ⟨hlen, hL, _⟩ := bisectRight_post (s.sorted.map (priority U s)) (priority U s p)
      (sortedKeys_of_pairwise _ _ h)
    obtain ⟨j, hj, rfl⟩ := List.mem_take_iff_getElem.mp ha
    have hj' : j < s.sorted.length := by omega
    have := hL j (by omega)
    simpa [List.getElem?_map, List.getElem?_eq_getElem hj'] using this
  · intro b hb
    obtain ⟨hlen, _, hH⟩ := bisectRight_post (s.sorted.map (priority U s)) (priority U s p)
      (sortedKeys_of_pairwise _ _ h)
    obtain ⟨j, hj, rfl⟩ := List.mem_drop_iff_getElem.mp hb
    generalize hi : bisectRight (s.sorted.map (priority U s)) (priority U s p)
      ((s.sorted.map (priority U s)).length + 1) 0 (s.sorted.map (priority U s)).length = i at *
    have hlt : i + j < s.sorted.length := by omega
    have := hH (i + j) (by omega) (by simpa using hlt)
    simpa [List.getElem?_map, List.getElem?_eq_getElem hlt] using this

theorem insort_pairwise (U : Universe) (s : St) (p : Obj)
    (h : s.sorted.Pairwise (fun a b => priority U s a ≤ priority U s b)) :
    (insort U s p).Pairwise (fun a b => priority U s a ≤ priority U s b) := by
  obtain ⟨i, heq, hL, hH⟩ := insort_spec U s p h
  rw [heq, List.append_assoc, List.pairwise_append]
  refine ⟨h.sublist (List.take_sublist _ _), ?_, ?_⟩
  · rw [List.singleton_append, List.pairwise_cons]
    exact ⟨fun b hb => Int.le_of_lt (hH b hb), h.sublist (List.drop_sublist _ _)⟩
  · intro a ha b hb
    simp only [List.singleton_append, List.mem_cons] at hb
    rcases hb with rfl | hb
    · exact hL a ha
    · exact Int.le_trans (hL a ha) (Int.le_of_lt (hH b hb))

theorem mem_insort (U : Universe) (s : St) (p x : Obj) :
    x ∈ insort U s p ↔ x = p ∨ x ∈ s.sorted := by
  unfold insort
  simp only [List.mem_append, List.mem_singleton]
  constructor
  · rintro ((h | h) | h)
    · exact .inr (List.mem_of_mem_take h)
    · exact .inl h
    · exact .inr (List.mem_of_mem_drop h)
  · rintro (h | h)
    · exact .inl (.inr h)
    · have := List.take_append_drop (bisectRight (s.sorted.map (priority U s)) (priority U s p)
        ((s.sorted.map (priority U s)).length + 1) 0 (s.sorted.map (priority U s)).length) s.sorted
      rw [← this] at h
      rcases List.mem_append.mp h with h | h
      · exact .inl (.inl h)
      · exact .inr h

/-- the processor tables invariant -/
structure PInv (U : Universe) (s : St) : Prop where
  sortedP : s.sorted.Pairwise (fun a b => priority U s a ≤ priority U s b)
  procsIff : ∀ t p, Dict.get? s.procs t = some p ↔ (p ∈ s.sorted ∧ tyOf U p = t)
  nodup : s.sorted.Nodup

theorem PInv.onePerType {U : Universe} {s : St} (h : PInv U s) {p q : Obj} (hp : p ∈ s.sorted)
    (hq : q ∈ s.sorted) (ht : tyOf U p = tyOf U q) : p = q := by
  have h1 := (h.procsIff (tyOf U p) p).mpr ⟨hp, rfl⟩
  have h2 := (h.procsIff (tyOf U p) q).mpr ⟨hq, ht.symm⟩
  rw [h1] at h2; exact Option.some.inj h2

theorem pinv_of_tables {U : Universe} {s s' : St} (h : PInv U s) (hp : s'.procs = s.procs)
    (hs : s'.sorted = s.sorted) (hr : s'.prio = s.prio) : PInv U s' := by
  have hpr : ∀ x, priority U s' x = priority U s x := by intro x; simp [priority, hr]
  refine ⟨?_, ?_, ?_⟩
  · rw [hs]; simpa only [hpr] using h.sortedP
  · intro t p; rw [hp, hs]; exact h.procsIff t p
  · rw [hs]; exact h.nodup

theorem pinv_sameTables {U : Universe} {s s' : St} (h : PInv U s) (t : SameTables U s s') : PInv U s' :=
  pinv_of_tables h t.procs t.sorted t.prio

end Desper.World
