import DesperProofs.Lemmas.WorldQuery
/-
  Deferred deletion: the set of entities awaiting deletion and the sweep at the start of process().
-/
namespace Desper.World
open Desper

/-- every entity awaiting deletion still owns components -/
def DeadOk (s : St) : Prop := ∀ e, e ∈ s.dead → (Dict.get? s.ents e).isSome

/-- `dead` only shrinks -/
def DeadSub (s s' : St) : Prop := ∀ x, x ∈ s'.dead → x ∈ s.dead

theorem DeadSub.refl (s : St) : DeadSub s s := fun _ h => h
theorem DeadSub.trans {a b c : St} (h1 : DeadSub a b) (h2 : DeadSub b c) : DeadSub a c :=
  fun x hx => h1 x (h2 x hx)
theorem DeadSub.of_tables {U : Universe} [hp : U.Passive] {s s' : St} (h : SameTables U s s') :
    DeadSub s s' := by
  intro x hx; rw [h.dead hp] at hx; exact hx

theorem removeComponent_deadSub (U : Universe) [U.Passive] (s : St) (e : Ent) (t : Ty) :
    DeadSub s (removeComponent U s e t).1 := by
  rcases removeComponent_spec U s e t with ⟨_, heq⟩ | ⟨st, c, _, _, _, hsame⟩
  · rw [heq]; exact .refl s
  · exact DeadSub.trans (fun x hx => dead_detach s e st x hx) (DeadSub.of_tables hsame)

theorem removeTypes_deadSub (U : Universe) [U.Passive] (s : St) (e : Ent) (ts : List Ty) :
    DeadSub s (removeTypes U s e ts).1 := by
  induction ts generalizing s with
  | nil => exact .refl s
  | cons t ts ih =>
    simp only [removeTypes]
    have h1 := removeComponent_deadSub U s e t
    cases hx : removeComponent U s e t with
    | mk s' r =>
      obtain ⟨o, c⟩ := r
      rw [hx] at h1
      cases o <;> simp only
      · exact h1.trans (ih s')
      all_goals exact h1

theorem sweep_deadSub (U : Universe) [U.Passive] (s : St) (es : List Ent) : DeadSub s (sweep U s es).1 := by
  induction es generalizing s with
  | nil => exact .refl s
  | cons e es ih =>
    simp only [sweep]
    split
    · exact .refl s
    · rename_i r hr
      have h1 := removeTypes_deadSub U s e (Dict.keys r)
      cases hx : removeTypes U s e (Dict.keys r) with
      | mk s' o =>
        rw [hx] at h1
        cases o <;> simp only
        · exact h1.trans (ih s')
        all_goals exact h1

/-- whatever happens during the sweep, nothing is awaiting deletion afterwards -/
theorem clearDead_dead (U : Universe) [U.Passive] (s : St) (h : (clearDead U s).2 ≠ .badHint) :
    (clearDead U s).1.dead = [] := by
  unfold clearDead at h ⊢
  split
  · rename_i hb; simp [hb] at h
  · have := sweep_deadSub U { s with dead := [], sweepHints := s.sweepHints.drop 1 }
      (s.sweepHints.head?.getD s.dead)
    cases hd : (sweep U { s with dead := [], sweepHints := s.sweepHints.drop 1 }
      (s.sweepHints.head?.getD s.dead)).1.dead with
    | nil => rfl
    | cons x xs =>
      have := this x (by rw [hd]; simp)
      simp at this

theorem process_dead (U : Universe) [U.Passive] (s : St) (dt : String) (h : (process U s dt).2 ≠ .badHint) :
    (process U s dt).1.dead = [] := by
  unfold process at h ⊢
  cases hx : clearDead U s with
  | mk s' o =>
    have hd := clearDead_dead U s
    rw [hx] at hd h
    cases o <;> simp only at h ⊢
    · rw [(runProcs_tables U s' dt _).dead inferInstance]; exact hd (by simp)
    · exact hd (by simp)
    · exact hd (by simp)
    · exact absurd rfl h

/-- the mark is dropped together with the row (world.py:346-349) -/
theorem deadOk_detach {s : St} (h : DeadOk s) (e : Ent) (st : Ty) : DeadOk (detach s e st) := by
  intro x hx
  have hx0 := dead_detach s e st x hx
  rw [detach_ents]
  split
  · rename_i hr
    rw [Dict.get?_erase]
    split
    · rename_i he; subst he
      exfalso
      unfold detach at hx
      simp only [hr, if_true] at hx
      simp at hx
    · exact h x hx0
  · rw [Dict.get?_set]
    split
    · rfl
    · exact h x hx0

theorem deadOk_of_tables {U : Universe} [hp : U.Passive] {s s' : St} (h : DeadOk s) (t : SameTables U s s') :
    DeadOk s' := by
  intro x hx; rw [t.dead hp] at hx; rw [t.ents]; exact h x hx

theorem deadOk_removeComponent {U : Universe} [U.Passive] {s : St} (h : DeadOk s) (e : Ent) (t : Ty) :
    DeadOk (removeComponent U s e t).1 := by
  rcases removeComponent_spec U s e t with ⟨_, heq⟩ | ⟨st, c, _, _, _, hsame⟩
  · rw [heq]; exact h
  · exact deadOk_of_tables (deadOk_detach h e st) hsame

theorem deadOk_removeTypes {U : Universe} [U.Passive] {s : St} (h : DeadOk s) (e : Ent) (ts : List Ty) :
    DeadOk (removeTypes U s e ts).1 := by
  induction ts generalizing s with
  | nil => exact h
  | cons t ts ih =>
    simp only [removeTypes]
    have h1 := deadOk_removeComponent (U := U) h e t
    cases hx : removeComponent U s e t with
    | mk s' r =>
      obtain ⟨o, c⟩ := r
      rw [hx] at h1
      cases o <;> simp only
      · exact ih h1
      all_goals exact h1

theorem deadOk_attachTables {U : Universe} [U.Passive] {s : St} (h : DeadOk s) (e : Ent) (c : Obj) :
    DeadOk (attachTables U s e c) := by
  intro x hx
  have : (attachTables U s e c).ents = Dict.set s.ents e (Dict.set (row s e) (tyOf U c) c) := rfl
  rw [this, Dict.get?_set]
  split
  · rfl
  · exact h x hx

theorem deadOk_foldAttach {U : Universe} [U.Passive] (e : Ent) (cs : List Obj) {s : St} (h : DeadOk s) :
    DeadOk (cs.foldl (fun s c => attachTables U s e c) s) := by
  induction cs generalizing s with
  | nil => exact h
  | cons c cs ih => exact ih (deadOk_attachTables h e c)

end Desper.World

namespace Desper.World
open Desper

theorem deadOk_createEntity {U : Universe} [U.Passive] {s : St} (h : DeadOk s) (id? : Option Ent)
    (cs : List Obj) : DeadOk (createEntity U s id? cs).1 := by
  unfold createEntity
  have key : ∀ (s0 : St) (e : Ent), DeadOk s0 →
      DeadOk (match removeTypes U s0 e ((Dict.keys (row s0 e)).filter
          (fun t => cs.any (fun c => tyOf U c = t))) with
        | (s, .ok) =>
          match attachAll U (cs.foldl (fun s c => attachTables U s e c) s) e cs with
          | (s, o) => (s, o, e)
        | (s, o) => (s, o, e)).1 := by
    intro s0 e h0
    have h1 := deadOk_removeTypes (U := U) h0 e ((Dict.keys (row s0 e)).filter
      (fun t => cs.any (fun c => tyOf U c = t)))
    cases hx : removeTypes U s0 e ((Dict.keys (row s0 e)).filter
        (fun t => cs.any (fun c => tyOf U c = t))) with
    | mk s' o =>
      rw [hx] at h1
      cases o <;> simp only
      · exact deadOk_of_tables (deadOk_foldAttach e cs h1) (attachAll_tables U _ e cs)
      all_goals exact h1
  cases id? with
  | some e => exact key s e h
  | none => simp only; exact key _ _ (fun x hx => h x hx)

theorem deadOk_addComponent {U : Universe} [U.Passive] {s : St} (h : DeadOk s) (e : Ent) (c : Obj) :
    DeadOk (addComponent U s e c).1 := by
  unfold addComponent
  simp only
  split
  · rename_i s' hx
    have h1 : DeadOk s' := by
      split at hx
      · have := deadOk_removeComponent (U := U) h e (tyOf U c)
        simp only [Prod.mk.injEq] at hx
        rw [← hx.1]; exact this
      · simp only [Prod.mk.injEq] at hx; rw [← hx.1]; exact h
    exact deadOk_of_tables (deadOk_attachTables h1 e c) (attachEvents_tables U _ c (some e))
  · rename_i r hne
    split
    · exact deadOk_removeComponent h e (tyOf U c)
    · exact h

/-- the history hypothesis of C05: `delete_entity(e)` is only called on entities that exist -/
def opOk (s : St) : Op → Prop
  | .delete e false => (Dict.get? s.ents e).isSome
  | _ => True

theorem deadOk_deleteEntity {U : Universe} [U.Passive] {s : St} (h : DeadOk s) (e : Ent) (imm : Bool)
    (hok : opOk s (.delete e imm)) : DeadOk (deleteEntity U s e imm).1 := by
  unfold deleteEntity
  cases imm with
  | true =>
    simp only [if_true]
    split
    · exact h
    · exact deadOk_removeTypes h e _
  | false =>
    simp only [Bool.false_eq_true, if_false]
    intro x hx
    simp only [mem_setAdd] at hx
    rcases hx with hx | hx
    · exact h x hx
    · subst hx; exact hok

theorem deadOk_of_dead_nil {s : St} (h : s.dead = []) : DeadOk s := by
  intro x hx; rw [h] at hx; simp at hx

theorem deadOk_deleteAll {U : Universe} [U.Passive] {s : St} (h : DeadOk s) (es : List Ent) :
    DeadOk (deleteAll U s es).1 := by
  induction es generalizing s with
  | nil => exact h
  | cons e es ih =>
    simp only [deleteAll]
    have h1 := deadOk_deleteEntity (U := U) h e true trivial
    cases hx : deleteEntity U s e true with
    | mk s' o =>
      rw [hx] at h1
      cases o <;> simp only
      · exact ih h1
      all_goals exact h1

theorem deadOk_removeProcs {U : Universe} [U.Passive] {s : St} (h : DeadOk s) (ps : List Obj) :
    DeadOk (removeProcs U s ps).1 := by
  induction ps generalizing s with
  | nil => exact h
  | cons p ps ih =>
    simp only [removeProcs]
    have h1 : DeadOk (removeProcessor U s (tyOf U p)).1 := by
      intro x hx
      rw [(removeProcessor_ents U s _).2.2.1 inferInstance] at hx
      rw [(removeProcessor_ents U s _).1]; exact h x hx
    cases hx : removeProcessor U s (tyOf U p) with
    | mk s' r =>
      obtain ⟨o, c⟩ := r
      rw [hx] at h1
      cases o <;> simp only
      · exact ih h1
      all_goals exact h1

theorem deadOk_clear {U : Universe} [U.Passive] {s : St} (h : DeadOk s) : DeadOk (clear U s).1 := by
  unfold clear
  have h1 := deadOk_deleteAll (U := U) h (Dict.keys s.ents)
  cases hx : deleteAll U s (Dict.keys s.ents) with
  | mk s1 o =>
    rw [hx] at h1
    cases o <;> simp only
    · have h2 : DeadOk { s1 with dead := [] } := deadOk_of_dead_nil rfl
      have h3 := deadOk_removeProcs (U := U) h2 { s1 with dead := [] }.sorted
      cases hy : removeProcs U { s1 with dead := [] } { s1 with dead := [] }.sorted with
      | mk s2 o2 =>
        rw [hy] at h3
        cases o2 <;> simp only
        · intro x hx; exact h3 x hx
        all_goals exact h3
    all_goals exact h1

theorem deadOk_step {U : Universe} [U.Passive] {s : St} (h : DeadOk s) (op : Op) (hok : opOk s op)
    (hb : (step U s op).2.1 ≠ .badHint) : DeadOk (step U s op).1 := by
  cases op with
  | create id? cs => exact deadOk_createEntity h id? cs
  | add e c => exact deadOk_addComponent h e c
  | remove e t => exact deadOk_removeComponent h e t
  | delete e imm => exact deadOk_deleteEntity h e imm hok
  | process dt => exact deadOk_of_dead_nil (process_dead U s dt hb)
  | clear => exact deadOk_clear h
  | addProc p prio? =>
    intro x hx
    show (Dict.get? (addProcessor U s p prio?).1.ents x).isSome
    have hx' : x ∈ (addProcessor U s p prio?).1.dead := hx
    rw [(addProcessor_ents U s p prio?).2.2.1 inferInstance] at hx'
    rw [(addProcessor_ents U s p prio?).1]; exact h x hx'
  | rmProc t =>
    intro x hx
    show (Dict.get? (removeProcessor U s t).1.ents x).isSome
    have hx' : x ∈ (removeProcessor U s t).1.dead := hx
    rw [(removeProcessor_ents U s t).2.2.1 inferInstance] at hx'
    rw [(removeProcessor_ents U s t).1]; exact h x hx'
  | enable b => exact deadOk_of_tables h (setEnabled_tables U s b)
  | dispatch ev args => exact deadOk_of_tables h (dispatchPlain_tables U s ev args)

/-- every operation of the history satisfies `opOk` in the state it is applied to, and no
`process` was given an invalid sweep-order hint -/
def GoodHist (U : Universe) : St → List Op → Prop
  | _, [] => True
  | s, op :: ops => opOk s op ∧ (step U s op).2.1 ≠ .badHint ∧ GoodHist U (step U s op).1 ops

theorem deadOk_run {U : Universe} [U.Passive] {s : St} (h : DeadOk s) (ops : List Op) (hg : GoodHist U s ops) :
    DeadOk (run U s ops) := by
  induction ops generalizing s with
  | nil => exact h
  | cons op ops ih =>
    obtain ⟨h1, h2, h3⟩ := hg
    exact ih (deadOk_step h op h1 h2) h3

end Desper.World

namespace Desper.World
open Desper

theorem lifecycle_ok {U : Universe} [U.Passive] (hn : NoRaise U) (s : St) (ev : String) (o : Obj) (m : Mapping)
    (ent : Option Ent) : (lifecycle U s ev o m ent).2 = .ok := by
  unfold lifecycle
  split
  · rfl
  · split
    · exact callCb_ok hn _ _ _ _
    · split <;> rfl

/-- removing by an exact type that is present: exactly that component goes, nothing fails -/
theorem removeComponent_exact {U : Universe} [U.Passive] (hn : NoRaise U) (s : St) (e : Ent) (t : Ty) (c : Obj)
    (hc : Dict.get? (row s e) t = some c) :
    (removeComponent U s e t).2.1 = .ok ∧ SameTables U (detach s e t) (removeComponent U s e t).1 := by
  obtain ⟨rest, hr⟩ := visit_head U t
  have hf : (visit U t).find? (fun st => (Dict.get? (row s e) st).isSome) = some t := by
    rw [hr, List.find?_cons]; simp [hc]
  unfold removeComponent
  simp only [hf, hc]
  cases hm : U.mapOf c with
  | none => exact ⟨rfl, .refl _⟩
  | some m =>
    simp only
    have h1 := lifecycle_tables U (detach s e t) onRemove c m (some e)
    have h2 := lifecycle_ok hn (detach s e t) onRemove c m (some e)
    cases hl : lifecycle U (detach s e t) onRemove c m (some e) with
    | mk s' o =>
      rw [hl] at h1 h2
      simp only at h2; subst h2
      exact ⟨rfl, SameTables.trans h1 (removeHandler_tables s' c)⟩

theorem detach_ents_other (s : St) (e e' : Ent) (st : Ty) (h : e ≠ e') :
    Dict.get? (detach s e st).ents e' = Dict.get? s.ents e' := by
  rw [detach_ents]
  split
  · rw [Dict.get?_erase]; simp [h]
  · rw [Dict.get?_set]; simp [h]

/-- removing every listed (present, distinct) type of an entity -/
theorem removeTypes_all {U : Universe} [U.Passive] (hn : NoRaise U) (e : Ent) (ts : List Ty) :
    ∀ s : St, ts.Nodup → (∀ t ∈ ts, (Dict.get? (row s e) t).isSome) →
      (removeTypes U s e ts).2 = .ok ∧
      (∀ x, Dict.get? (row (removeTypes U s e ts).1 e) x =
          if x ∈ ts then none else Dict.get? (row s e) x) ∧
      (∀ e', e ≠ e' → Dict.get? (removeTypes U s e ts).1.ents e' = Dict.get? s.ents e') := by
  induction ts with
  | nil => intro s _ _; exact ⟨rfl, by simp [removeTypes], by simp [removeTypes]⟩
  | cons t ts ih =>
    intro s hnd hpres
    rw [List.nodup_cons] at hnd
    obtain ⟨c, hc⟩ := Option.isSome_iff_exists.mp (hpres t (by simp))
    obtain ⟨hok, hsame⟩ := removeComponent_exact hn s e t c hc
    simp only [removeTypes]
    cases hx : removeComponent U s e t with
    | mk s' r =>
      obtain ⟨o, c'⟩ := r
      rw [hx] at hok hsame
      simp only at hok hsame; subst hok
      simp only
      have hrow : ∀ x, Dict.get? (row s' e) x = if t = x then none else Dict.get? (row s e) x := by
        intro x
        rw [row_of_ents hsame.ents, row_detach]; simp
      have hpres' : ∀ t' ∈ ts, (Dict.get? (row s' e) t').isSome := by
        intro t' ht'
        rw [hrow]
        have : t ≠ t' := fun h => hnd.1 (h ▸ ht')
        simp only [this, if_false]
        exact hpres t' (by simp [ht'])
      obtain ⟨i1, i2, i3⟩ := ih s' hnd.2 hpres'
      refine ⟨i1, ?_, ?_⟩
      · intro x
        rw [i2, hrow]
        by_cases hx1 : x ∈ ts
        · simp [hx1]
        · by_cases hx2 : t = x
          · subst hx2; simp
          · have : ¬ x = t := fun h => hx2 h.symm
            simp [hx1, hx2, this]
      · intro e' he'
        rw [i3 e' he', hsame.ents, detach_ents_other s e e' t he']

/-- the sweep at the start of `process` completes when every listed entity still owns
components (and no callback raises), and afterwards none of them owns anything -/
theorem sweep_total {U : Universe} [U.Passive] (hn : NoRaise U) (es : List Ent) :
    ∀ s : St, TabInv U s → es.Nodup → (∀ e ∈ es, (Dict.get? s.ents e).isSome) →
      (sweep U s es).2 = .ok ∧ (∀ e ∈ es, row (sweep U s es).1 e = []) ∧
      (∀ e', e' ∉ es → Dict.get? (sweep U s es).1.ents e' = Dict.get? s.ents e') := by
  induction es with
  | nil => intro s _ _ _; exact ⟨rfl, by simp, by simp [sweep]⟩
  | cons e es ih =>
    intro s hinv hnd hpres
    rw [List.nodup_cons] at hnd
    obtain ⟨r, hr⟩ := Option.isSome_iff_exists.mp (hpres e (by simp))
    have hrow : row s e = r := row_eq_of_get? hr
    have hkeys : ∀ t ∈ Dict.keys r, (Dict.get? (row s e) t).isSome := by
      intro t ht; rw [hrow]; exact (Dict.mem_keys_iff r t).mp ht
    have hknd : (Dict.keys r).Nodup := by rw [← hrow]; exact hinv.rowKeys e
    obtain ⟨a1, a2, a3⟩ := removeTypes_all hn e (Dict.keys r) s hknd hkeys
    have hinv' := tabInv_removeTypes hinv e (Dict.keys r)
    simp only [sweep, hr]
    cases hx : removeTypes U s e (Dict.keys r) with
    | mk s' o =>
      rw [hx] at a1 a2 a3 hinv'
      simp only at a1; subst a1
      simp only
      have hpres' : ∀ e' ∈ es, (Dict.get? s'.ents e').isSome := by
        intro e' he'
        have : e ≠ e' := fun h => hnd.1 (h ▸ he')
        rw [a3 e' this]; exact hpres e' (by simp [he'])
      obtain ⟨i1, i2, i3⟩ := ih s' hinv' hnd.2 hpres'
      refine ⟨i1, ?_, ?_⟩
      · intro e' he'
        simp only [List.mem_cons] at he'
        rcases he' with rfl | he'
        · -- the row emptied by removeTypes stays as it is during the rest of the sweep
          have hents := i3 e' hnd.1
          have hrow' : row (sweep U s' es).1 e' = row s' e' := by simp [row, hents]
          rw [hrow']
          apply Dict.eq_nil_of_forall_get?_none
          intro x
          rw [a2 x]
          split
          · rfl
          · rename_i hnm
            rw [hrow]
            cases hg : Dict.get? r x with
            | none => rfl
            | some v =>
              exact absurd ((Dict.mem_keys_iff r x).mpr (by simp [hg])) hnm
        · exact i2 e' he'
      · intro e' he'
        simp only [List.mem_cons, not_or] at he'
        rw [i3 e' he'.2, a3 e' (fun h => he'.1 h.symm)]

theorem nodupB_nodup (l : List Nat) (h : nodupB l = true) : l.Nodup := by
  induction l with
  | nil => simp
  | cons a l ih =>
    simp only [nodupB, Bool.and_eq_true, Bool.not_eq_eq_eq_not, Bool.not_true] at h
    rw [List.nodup_cons]
    refine ⟨?_, ih h.2⟩
    intro hm
    have : l.contains a = true := by simpa using hm
    rw [this] at h; simp at h

/-- `process()` completes: deletion bookkeeping never fails when every entity awaiting deletion
still owns components, and it leaves none of them behind -/
theorem clearDead_total {U : Universe} [U.Passive] (hn : NoRaise U) (s : St) (hinv : TabInv U s) (hd : DeadOk s)
    (hb : (clearDead U s).2 ≠ .badHint) :
    (clearDead U s).2 = .ok ∧ ∀ e ∈ s.dead, row (clearDead U s).1 e = [] := by
  unfold clearDead at hb ⊢
  split
  · rename_i h; simp [h] at hb
  · rename_i hp
    simp only [Bool.not_eq_true, Bool.not_eq_false] at hp
    have hp' : isPerm (s.sweepHints.head?.getD s.dead) s.dead = true := by
      cases hq : isPerm (s.sweepHints.head?.getD s.dead) s.dead with
      | true => rfl
      | false => simp [hq] at hp
    simp only [isPerm, Bool.and_eq_true, List.all_eq_true, beq_iff_eq] at hp'
    obtain ⟨⟨⟨h1, h2⟩, h2'⟩, h3⟩ := hp'
    have hnd := nodupB_nodup _ h1
    have hsub : ∀ e ∈ s.sweepHints.head?.getD s.dead, e ∈ s.dead := by
      intro e he; simpa using h2 e he
    obtain ⟨t1, t2, _⟩ := sweep_total hn (s.sweepHints.head?.getD s.dead)
      { s with dead := [], sweepHints := s.sweepHints.drop 1 } (tabInv_of_tables hinv rfl rfl) hnd
      (fun e he => hd e (hsub e he))
    refine ⟨t1, ?_⟩
    intro e he
    exact t2 e (by simpa using h2' e he)

end Desper.World
