import DesperProofs.Lemmas.CoroRaise
/-
  Every program, bodies that raise included: the history-level invariants (progress counters = logged
  steps, kill is final, promises, terminated stays terminated, waits and the clock) and the
  single-call statements for calls that return normally (used by Props/C08.lean, Props/C09.lean).
-/
set_option linter.unusedSimpArgs false
set_option linter.unusedVariables false
namespace Desper.Coro
open Desper

/-! ### the clean-up after a raising body -/

theorem crashDrop_fields (c : St) (g : Gen) :
    (crashDrop c g).pc = c.pc ∧ (crashDrop c g).fin = c.fin ∧ (crashDrop c g).timer = c.timer ∧
    (crashDrop c g).log = c.log ∧ (crashDrop c g).waiting = c.waiting ∧
    (crashDrop c g).values = c.values ∧ (crashDrop c g).nextPromise = c.nextPromise ∧
    (crashDrop c g).gens = upd c.gens g none ∧ (crashDrop c g).kill = upd c.kill g false ∧
    (crashDrop c g).promises = upd c.promises g none :=
  ⟨rfl, rfl, rfl, rfl, rfl, rfl, rfl, rfl, rfl, rfl⟩

theorem crashDrop_dead (c : St) (g x : Gen) (h : Dead x c) : Dead x (crashDrop c g) := by
  unfold Dead at *
  by_cases hx : x = g
  · subst hx; exact .inl (by simp [crashDrop, dropHead])
  · simpa [crashDrop, dropHead, hx] using h

theorem head_not_dead {c : St} (I : Inv c) {g : Gen} {pend : List Gen} {done : List (Option Gen)}
    (hs : Split c (g :: pend) done) (hk : c.kill g = false) : ¬ Dead g c := by
  have hg : c.gens g = some none := I.gens_of_active (by unfold Split at hs; simp [hs])
  unfold Dead; simp [hg, hk]

/-! ### progress counters count logged steps -/

theorem runBody_pcLog (U : Universe) {c : St} (P : PcLog c) (g : Gen) : PcLog (runBody U c g).1 := by
  intro x
  rw [runBody_pc, runBody_steps, List.count_append, ← P x]
  by_cases hx : x = g
  · subst hx
    by_cases hc : hasCode U c x
    · simp [hc]; omega
    · simp [hc]
  · by_cases hc : hasCode U c g
    · simp [hx, hc, List.count_cons, Ne.symm hx]
    · simp [hx, hc]

theorem wake_pcLog {s : St} (T : Top s) (dt : Int) (hint : List Gen) (P : PcLog s) :
    PcLog (rotHead (wakePhase s dt hint).1) := by
  obtain ⟨w1, _, wlog, _⟩ := wake_frame T.inv dt hint
  intro g; simp only [rotHead, w1, wlog]; exact P g

theorem process_pcLog_gen (U : Universe) {s : St} (T : Top s) (dt : Int) (hint : List Gen)
    (P : PcLog s) : PcLog (process U s dt hint).1 :=
  process_rel_gen U (fun a b => PcLog a → PcLog b) (fun _ h => h) (fun _ _ _ h1 h2 h => h2 (h1 h))
    T dt hint (fun c g pend done I hs => turn_pcLog (san U) I hs)
    (fun c g pend done I hs hk P => runBody_pcLog U P g)
    (fun c g tl I h hg P => P) (wake_pcLog T dt hint P)

theorem execOp_pcLog_gen (U : Universe) {s : St} (T : Top s) (op : Op) (P : PcLog s) :
    PcLog (execOp U s op) := by
  cases op with
  | process dt hint =>
    intro g
    have := process_pcLog_gen U T dt hint P g
    simpa [execOp, St.push, stepGens] using this
  | start h =>
    intro g
    have h1 := start_same U s h
    have h2 := start_sameSteps U s h
    unfold SameSteps at h2
    simp [execOp, St.push, stepGens] at h2 ⊢
    rw [h1.pc, show (List.filterMap _ (start U s h).1.log) = _ from h2]; exact P g
  | kill h =>
    intro g
    have h1 := kill_same U s h
    have h2 := kill_sameSteps U s h
    unfold SameSteps at h2
    simp [execOp, St.push, stepGens] at h2 ⊢
    rw [h1.pc, show (List.filterMap _ (kill U s h).1.log) = _ from h2]; exact P g
  | state h => intro g; simp only [execOp]; split <;> simpa [St.push, stepGens] using P g
  | value h => intro g; simpa [execOp, St.push, stepGens] using P g

theorem run_pcLog_gen (U : Universe) {s : St} (T : Top s) (ops : List Op) (P : PcLog s) :
    PcLog (run U s ops) := by
  induction ops generalizing s with
  | nil => exact P
  | cons op rest ih => exact ih (execOp_top_gen U T op) (execOp_pcLog_gen U T op P)

/-! ### kill is final (trace form) -/

theorem process_li_gen (U : Universe) {s : St} (T : Top s) (dt : Int) (hint : List Gen) (L : LI s)
    (P : PcLog s) : LI (process U s dt hint).1 := by
  obtain ⟨_, _, wlog, _⟩ := wake_frame T.inv dt hint
  have hwf := fun g => (wake_frozen T.inv dt hint g).1
  have L0 : LI (rotHead (wakePhase s dt hint).1) := by
    refine L.of_same (by simp [rotHead, wlog]) (fun g hd => ?_)
    have := ((hwf g).dead (by simp [nStart, wlog]) hd).1
    unfold Dead at *; simpa [rotHead] using this
  exact (process_rel_gen U (fun a b => (LI a ∧ PcLog a) → (LI b ∧ PcLog b)) (fun _ h => h)
    (fun _ _ _ h1 h2 h => h2 (h1 h)) T dt hint
    (fun c g pend done I hs hlp => ⟨turn_li (san U) I hs hlp.1 hlp.2, turn_pcLog (san U) I hs hlp.2⟩)
    (fun c g pend done I hs hk hlp =>
      ⟨runBody_li U hlp.1 hlp.2 (head_not_dead I hs hk), runBody_pcLog U hlp.2 g⟩)
    (fun c g tl I h hg hlp => ⟨hlp.1.of_same rfl (fun x hd => crashDrop_dead c g x hd), hlp.2⟩)
    ⟨L0, wake_pcLog T dt hint P⟩).1

theorem execOp_li_gen (U : Universe) {s : St} (T : Top s) (op : Op) (L : LI s) (P : PcLog s) :
    LI (execOp U s op) := by
  cases op with
  | start h => exact push_li (start_li U L h) _ rfl
  | kill h => exact push_li (kill_li U L h) _ rfl
  | state h => simp only [execOp]; split <;> exact push_li L _ rfl
  | value h => exact push_li L _ rfl
  | process dt hint => exact push_li (process_li_gen U T dt hint L P) _ rfl

theorem run_li_gen (U : Universe) {s : St} (T : Top s) (ops : List Op) (L : LI s) (P : PcLog s) :
    LI (run U s ops) := by
  induction ops generalizing s with
  | nil => exact L
  | cons op rest ih =>
    exact ih (execOp_top_gen U T op) (execOp_li_gen U T op L P) (execOp_pcLog_gen U T op P)

/-! ### promises -/

theorem process_pi_gen (U : Universe) {s : St} (T : Top s) (dt : Int) (hint : List Gen) (P : PI s) :
    PI (process U s dt hint).1 :=
  process_rel_gen U (fun a b => PI a → PI b) (fun _ h => h) (fun _ _ _ h1 h2 h => h2 (h1 h))
    T dt hint (fun c g pend done I hs => turn_pi (san U) I hs)
    (fun c g pend done I hs hk P => runBody_pi U P g)
    (fun c g tl I h hg P => P.weaken (fun x q hx => by
      simp only [crashDrop, dropHead, upd_apply] at hx
      by_cases e : x = g
      · simp [e] at hx
      · simpa [e] using hx) rfl rfl (.inl rfl))
    ((wake_pi P dt hint).weaken (fun _ _ h => h) rfl rfl (.inl rfl))

theorem execOp_pi_gen (U : Universe) {s : St} (T : Top s) (op : Op) (P : PI s) : PI (execOp U s op) := by
  cases op with
  | start h => exact push_pi (start_pi U P h) _ rfl
  | kill h => exact push_pi (kill_pi U P h) _ rfl
  | state h => simp only [execOp]; split <;> exact push_pi P _ rfl
  | value h => exact push_pi P _ rfl
  | process dt hint => exact push_pi (process_pi_gen U T dt hint P) _ rfl

theorem run_pi_gen (U : Universe) {s : St} (T : Top s) (ops : List Op) (P : PI s) : PI (run U s ops) := by
  induction ops generalizing s with
  | nil => exact P
  | cons op rest ih => exact ih (execOp_top_gen U T op) (execOp_pi_gen U T op P)

/-! ### terminated stays terminated -/

theorem crashDrop_frozen (c : St) (x g : Gen) : Frozen g c (crashDrop c x) := by
  by_cases hxg : x = g
  · subst hxg
    exact ⟨by simp [nStart, crashDrop, dropHead], fun _ _ => ⟨.inl (by simp [crashDrop, dropHead]), rfl⟩,
      fun _ _ => by simp [crashDrop, dropHead]⟩
  · exact Frozen.of_eq (by simp [nStart, crashDrop, dropHead]) (by simp [crashDrop, dropHead, Ne.symm hxg])
      (by simp [crashDrop, dropHead, Ne.symm hxg]) rfl

theorem process_frozen_gen (U : Universe) {s : St} (T : Top s) (dt : Int) (hint : List Gen) (g : Gen) :
    Frozen g s (process U s dt hint).1 := by
  have hw := (wake_frozen T.inv dt hint g).1
  have hr : Frozen g (wakePhase s dt hint).1 (rotHead (wakePhase s dt hint).1) :=
    Frozen.of_eq rfl rfl rfl rfl
  exact (hw.trans hr).trans (process_rel_gen U (Frozen g) (Frozen.refl g) (fun _ _ _ => Frozen.trans)
    T dt hint (fun c x pend done I hs => turn_frozen (san U) I hs g)
    (fun c x pend done I hs hk => runBody_frozen U c x g (fun e => e ▸ head_not_dead I hs hk))
    (fun c x tl I h hg => crashDrop_frozen c x g))

theorem execOp_frozen_gen (U : Universe) {s : St} (T : Top s) (op : Op) (g : Gen) :
    Frozen g s (execOp U s op) := by
  cases op with
  | start h => exact (start_frozen U s h g).trans (push_frozen _ _ g rfl)
  | kill h => exact (kill_frozen U s h g).trans (push_frozen _ _ g rfl)
  | state h => simp only [execOp]; split <;> exact push_frozen _ _ g rfl
  | value h => exact push_frozen _ _ g rfl
  | process dt hint => exact (process_frozen_gen U T dt hint g).trans (push_frozen _ _ g rfl)

theorem run_frozen_gen (U : Universe) {s : St} (T : Top s) (ops : List Op) (g : Gen) :
    Frozen g s (run U s ops) := by
  induction ops generalizing s with
  | nil => exact Frozen.refl g s
  | cons op rest ih => exact (execOp_frozen_gen U T op g).trans (ih (execOp_top_gen U T op))

/-! ### waits and the clock -/

theorem process_eq_loop (U : Universe) {s : St} (I : Inv s) (dt : Int) (hint : List Gen) :
    process U s dt hint =
      loop U ((rotl (wakePhase s dt hint).1.active).length + 1) (rotHead (wakePhase s dt hint).1) := by
  obtain ⟨h1, _⟩ := wakePhase_spec I dt hint
  unfold process
  cases hw : wakePhase s dt hint with | mk s1 o =>
  rw [hw] at h1
  simp only at h1
  subst h1
  rfl

/-- a generator that is not in the deque after the wake-up phase executes nothing in this call -/
theorem process_pc_notin (U : Universe) {s : St} (I : Inv s) (dt : Int) (hint : List Gen) {x : Gen}
    (h : some x ∉ (wakePhase s dt hint).1.active) : (process U s dt hint).1.pc x = s.pc x := by
  obtain ⟨_, I1⟩ := wakePhase_spec I dt hint
  obtain ⟨w1, _⟩ := wake_frame I dt hint
  rw [process_eq_loop U I]
  have I0 : Inv (rotHead (wakePhase s dt hint).1) := I1.rotate
  obtain ⟨l1, l2⟩ := loop_pc_le U ((rotl (wakePhase s dt hint).1.active).length + 1) I0 x
  have hseg : inSeg x (rotHead (wakePhase s dt hint).1).active = false := by
    cases hq : inSeg x (rotHead (wakePhase s dt hint).1).active with
    | false => rfl
    | true =>
      have := inSeg_mem hq
      simp only [rotHead, mem_rotl] at this
      exact absurd this h
  have e : (rotHead (wakePhase s dt hint).1).pc x = s.pc x := congrFun w1 x
  rw [hseg, e] at l2
  rw [e] at l1
  simp at l2
  omega

theorem crashDrop_keeps (c : St) (x g : Gen) (d : Int) : Keeps g d c (crashDrop c x) :=
  Keeps.of_eq rfl rfl

theorem process_keeps_loop (U : Universe) {s : St} (T : Top s) (dt : Int) (hint : List Gen) (g : Gen)
    (d : Int) : Keeps g d (rotHead (wakePhase s dt hint).1) (process U s dt hint).1 :=
  process_rel_gen U (Keeps g d) (Keeps.refl g d) (fun _ _ _ => Keeps.trans) T dt hint
    (fun c x pend done I hs => turn_keeps (san U) I hs g d)
    (fun c x pend done I hs hk => runBody_keeps U c x g d)
    (fun c x tl I h hg => crashDrop_keeps c x g d)

theorem process_timer_loop (U : Universe) {s : St} (T : Top s) (dt : Int) (hint : List Gen) :
    (process U s dt hint).1.timer = (rotHead (wakePhase s dt hint).1).timer :=
  process_rel_gen U (fun a b => b.timer = a.timer) (fun _ => rfl) (fun _ _ _ h1 h2 => h2.trans h1)
    T dt hint (fun c x pend done I hs => (turn_effect (san U) I hs x).2.1)
    (fun c x pend done I hs hk => (runBody_spec U I x).2.timer)
    (fun c x tl I h hg => rfl)

theorem process_mono_gen (U : Universe) {s : St} (T : Top s) (dt : Int) (hint : List Gen) (g : Gen) :
    nStart s g ≤ nStart (process U s dt hint).1 g := by
  obtain ⟨_, _, wlog, _⟩ := wake_frame T.inv dt hint
  have := (process_keeps_loop U T dt hint g 0).mono
  have e : nStart (rotHead (wakePhase s dt hint).1) g = nStart s g := by simp [nStart, rotHead, wlog]
  omega

/-- **never earlier**, for every program and every call, aborted or not -/
theorem process_not_due_gen (U : Universe) {s : St} (T : Top s) (dt : Int) (hint : List Gen) {g : Gen}
    {d : Int} (hm : (⟨some g, d⟩ : Rec) ∈ s.waiting) (hd : s.timer + dt < d) :
    (process U s dt hint).1.timer = s.timer + dt ∧ Keeps g d s (process U s dt hint).1 ∧
    (process U s dt hint).1.pc g = s.pc g := by
  obtain ⟨w1, w2⟩ := wake_time T.inv dt hint
  obtain ⟨_, _, wlog, _, _, woken, hwa, hwm⟩ := wake_frame T.inv dt hint
  have hmw : (⟨some g, d⟩ : Rec) ∈ (wakePhase s dt hint).1.waiting := by
    rw [w1, List.mem_filter]
    exact ⟨hm, by simp; omega⟩
  have hkw : Keeps g d s (rotHead (wakePhase s dt hint).1) :=
    ⟨by simp [nStart, rotHead, wlog], fun _ => .inl hmw⟩
  refine ⟨?_, hkw.trans (process_keeps_loop U T dt hint g d), ?_⟩
  · rw [process_timer_loop U T]; exact w2 (List.ne_nil_of_mem hmw)
  · apply process_pc_notin U T.inv
    rw [hwa, List.mem_append, List.mem_map]
    rintro (h | ⟨y, hy, e⟩)
    · exact T.inv.not_active_of_waiting hm h
    · cases e
      obtain ⟨d', h1, h2, _⟩ := (hwm g).mp hy
      have := T.inv.rec_unique hm h1; omega

theorem execOp_mono_gen (U : Universe) {s : St} (T : Top s) (op : Op) (g : Gen) :
    nStart s g ≤ nStart (execOp U s op) g := by
  cases op with
  | start h => exact ((start_keeps U s h g 0).trans (push_keeps _ _ g 0 rfl)).mono
  | kill h => exact ((kill_keeps U s h g 0).trans (push_keeps _ _ g 0 rfl)).mono
  | state h => simp only [execOp]; split <;> exact (push_keeps _ _ g 0 rfl).mono
  | process dt hint =>
    have := process_mono_gen U T dt hint g
    simpa [execOp, nStart, St.push, List.countP_cons, isStarted] using this
  | value h => exact (push_keeps _ _ g 0 rfl).mono

theorem run_mono_gen (U : Universe) {s : St} (T : Top s) (ops : List Op) (g : Gen) :
    nStart s g ≤ nStart (run U s ops) g := by
  induction ops generalizing s with
  | nil => exact Nat.le_refl _
  | cons op rest ih =>
    exact Nat.le_trans (execOp_mono_gen U T op g) (ih (execOp_top_gen U T op))

theorem execOp_not_due_gen (U : Universe) {s : St} (T : Top s) (op : Op) {g : Gen} {d : Int}
    (hm : (⟨some g, d⟩ : Rec) ∈ s.waiting) (hd : s.timer + elapsed [op] < d) :
    (execOp U s op).timer = s.timer + elapsed [op] ∧ Keeps g d s (execOp U s op) ∧
    (execOp U s op).pc g = s.pc g := by
  cases op with
  | start h =>
    have := start_same U s h
    exact ⟨by simp [execOp, St.push, elapsed, this.timer],
      (start_keeps U s h g d).trans (push_keeps _ _ g d rfl), by simp [execOp, St.push, this.pc]⟩
  | kill h =>
    have := kill_same U s h
    exact ⟨by simp [execOp, St.push, elapsed, this.timer],
      (kill_keeps U s h g d).trans (push_keeps _ _ g d rfl), by simp [execOp, St.push, this.pc]⟩
  | state h =>
    simp only [execOp]
    split <;> exact ⟨by simp [St.push, elapsed], push_keeps _ _ g d rfl, rfl⟩
  | value h => exact ⟨by simp [execOp, St.push, elapsed], push_keeps _ _ g d rfl, rfl⟩
  | process dt hint =>
    simp only [elapsed, Int.add_zero] at hd
    obtain ⟨h1, h2, h3⟩ := process_not_due_gen U T dt hint hm hd
    exact ⟨by simpa [execOp, St.push, elapsed] using h1,
      h2.trans (push_keeps _ _ g d rfl), by simpa [execOp, St.push] using h3⟩

/-- **never earlier, over any history of any program** (calls aborted by a body included) -/
theorem wake_exact_gen (U : Universe) {s : St} (T : Top s) (ops : List Op) {g : Gen} {d : Int}
    (hm : (⟨some g, d⟩ : Rec) ∈ s.waiting) (hnn : ∀ op ∈ ops, nonnegDt op)
    (hd : s.timer + elapsed ops < d) (hns : nStart (run U s ops) g = nStart s g) :
    (⟨some g, d⟩ : Rec) ∈ (run U s ops).waiting ∧ (run U s ops).timer = s.timer + elapsed ops ∧
    (run U s ops).pc g = s.pc g := by
  induction ops generalizing s with
  | nil => exact ⟨hm, by simp [run, elapsed], rfl⟩
  | cons op rest ih =>
    have hrest := elapsed_nonneg (fun o ho => hnn o (List.mem_cons_of_mem _ ho))
    have hsplit : elapsed (op :: rest) = elapsed [op] + elapsed rest := by
      cases op <;> simp [elapsed]
    rw [hsplit] at hd
    obtain ⟨h1, h2, h3⟩ := execOp_not_due_gen U T op hm (by omega)
    have T1 := execOp_top_gen U T op
    have hm1 := run_mono_gen U T1 rest g
    have hm0 := h2.mono
    simp only [run, List.foldl_cons] at hns ⊢
    change nStart (run U (execOp U s op) rest) g = nStart s g at hns
    have hmem1 : (⟨some g, d⟩ : Rec) ∈ (execOp U s op).waiting := by
      rcases h2.keep hm with h | h
      · exact h
      · omega
    obtain ⟨k1, k2, k3⟩ := ih T1 hmem1 (fun o ho => hnn o (List.mem_cons_of_mem _ ho))
      (by rw [h1]; omega) (by omega)
    exact ⟨k1, by rw [show List.foldl (execOp U) (execOp U s op) rest = run U (execOp U s op) rest from rfl, k2, h1, hsplit]; omega,
      by rw [show List.foldl (execOp U) (execOp U s op) rest = run U (execOp U s op) rest from rfl, k3, h3]⟩

/-! ### a call that returns normally, of any program -/

theorem sanStep_eq {st : Step} (h : ∀ e, st.fin ≠ .raise e) : sanStep st = st := by
  unfold sanStep
  split
  · rename_i e he; exact absurd he (h e)
  · rfl

theorem curStep_san_some {U : Universe} {s : St} {h : Gen} {st' : Step}
    (hs : curStep (san U) s h = some st') : ∃ st0, curStep U s h = some st0 ∧ sanStep st0 = st' := by
  rw [curStep_san] at hs
  cases hc : curStep U s h with
  | none => simp [hc] at hs
  | some st0 => simp [hc] at hs; exact ⟨st0, rfl, hs⟩

theorem hno_san {U : Universe} {s : St} {dt : Int} {g : Gen}
    (hno : ∀ h, runnableIn s dt h → ∀ st, curStep U s h = some st → Act.kill g ∉ st.acts) :
    ∀ h, runnableIn s dt h → ∀ st, curStep (san U) s h = some st → Act.kill g ∉ st.acts := by
  intro h hr st hs
  obtain ⟨st0, h0, e⟩ := curStep_san_some hs
  rw [← e, sanStep_acts]
  exact hno h hr st0 h0

/-- **one step per frame** for a call that returns normally, of any program -/
theorem one_step_ok (U : Universe) {s : St} (T : Top s) (dt : Int) (hint : List Gen) (g : Gen)
    (hok : (process U s dt hint).2 = .ok) :
    (process U s dt hint).1.pc g ≤ s.pc g + 1 ∧ s.pc g ≤ (process U s dt hint).1.pc g ∧
    (¬ runnableIn s dt g → (process U s dt hint).1.pc g = s.pc g ∧
      (process U s dt hint).1.fin g = s.fin g) ∧
    (runnableIn s dt g → s.kill g = false → hasCode U s g →
      (∀ h, runnableIn s dt h → ∀ st, curStep U s h = some st → Act.kill g ∉ st.acts) →
      (process U s dt hint).1.pc g = s.pc g + 1) := by
  have heq := process_ok_san U T.inv dt hint hok
  obtain ⟨h1, h2, h3, h4⟩ := one_step (san U) T dt hint g
  rw [heq] at h1 h2 h3 h4
  exact ⟨h1, h2, h3, fun hr hk hc hno => h4 hr hk ((hasCode_san U s g).mpr hc) (hno_san hno)⟩

theorem process_steps_ok (U : Universe) {s : St} (T : Top s) (dt : Int) (hint : List Gen)
    (hok : (process U s dt hint).2 = .ok) :
    ∃ pend ran : List Gen, (wakePhase s dt hint).1.active = none :: pend.map some ∧ pend.Nodup ∧
      ran.Sublist pend ∧ stepGens (process U s dt hint).1.log = ran.reverse ++ stepGens s.log := by
  have heq := process_ok_san U T.inv dt hint hok
  have := process_steps (san U) T dt hint
  rwa [heq] at this

theorem process_order_ok (U : Universe) {s : St} (T : Top s) (dt : Int) (hint : List Gen)
    (hok : (process U s dt hint).2 = .ok) :
    ∃ pend : List Gen, (wakePhase s dt hint).1.active = none :: pend.map some ∧
      (((process U s dt hint).1.active.filter
          (unrestarted s (process U s dt hint).1))).Sublist (pend.map some) := by
  have heq := process_ok_san U T.inv dt hint hok
  have := process_order (san U) T dt hint
  rwa [heq] at this

theorem process_after_yield_ok (U : Universe) {s : St} (T : Top s) (dt : Int) (hint : List Gen)
    (hok : (process U s dt hint).2 = .ok)
    {g : Gen} {st : Step} {w : Option Int} (hr : runnableIn s dt g) (hk : s.kill g = false)
    (hcode : hasCode U s g) (hst : curStep U s g = some st) (hw : st.fin = .yield w)
    (hno : ∀ h, runnableIn s dt h → ∀ st, curStep U s h = some st → Act.kill g ∉ st.acts) :
    (positive w = true →
      ((⟨some g, w.getD 0 + (process U s dt hint).1.timer⟩ : Rec) ∈ (process U s dt hint).1.waiting ∨
        nStart s g < nStart (process U s dt hint).1 g)) ∧
    (positive w = false → some g ∈ (process U s dt hint).1.active) := by
  have heq := process_ok_san U T.inv dt hint hok
  have hst' : curStep (san U) s g = some st := by
    rw [curStep_san, hst, Option.map_some, sanStep_eq (by rw [hw]; intro e h; cases h)]
  have := process_after_yield (san U) T dt hint hr hk ((hasCode_san U s g).mpr hcode) hst' hw
    (hno_san hno)
  rwa [heq] at this

theorem process_released_ok (U : Universe) {s : St} (T : Top s) (dt : Int) (hint : List Gen) (g : Gen)
    (hok : (process U s dt hint).2 = .ok)
    (hns : nStart (process U s dt hint).1 g = nStart s g) :
    (some g ∈ s.active → s.kill g = true → (process U s dt hint).1.gens g = none) ∧
    (s.kill g = true → (∃ d, (⟨some g, d⟩ : Rec) ∈ s.waiting ∧ d ≤ s.timer + dt) →
      (process U s dt hint).1.gens g = none) ∧
    (runnableIn s dt g → s.kill g = false →
      (∀ h, runnableIn s dt h → ∀ st, curStep U s h = some st → Act.kill g ∉ st.acts) →
      (∀ st, hasCode U s g → curStep U s g = some st → ∃ v, st.fin = .ret v) →
      (process U s dt hint).1.gens g = none) := by
  have heq := process_ok_san U T.inv dt hint hok
  have := process_released (san U) T dt hint g (by rw [heq]; exact hns)
  rw [heq] at this
  obtain ⟨h1, h2, h3⟩ := this
  refine ⟨h1, h2, fun hr hk hno hret => h3 hr hk (hno_san hno) ?_⟩
  intro st' hc hs
  obtain ⟨st0, h0, e⟩ := curStep_san_some hs
  obtain ⟨v, hv⟩ := hret st0 ((hasCode_san U s g).mp hc) h0
  rw [← e, sanStep_eq (by rw [hv]; intro e h; cases h)]
  exact ⟨v, hv⟩

theorem process_returns_ok (U : Universe) {s : St} (T : Top s) (dt : Int) (hint : List Gen) {g : Gen}
    (hok : (process U s dt hint).2 = .ok)
    {v : Option Int} (hr : runnableIn s dt g) (hk : s.kill g = false)
    (hno : ∀ h, runnableIn s dt h → ∀ st, curStep U s h = some st → Act.kill g ∉ st.acts)
    (hret : (hasCode U s g ∧ ∃ st, curStep U s g = some st ∧ st.fin = .ret v) ∨
      (¬ hasCode U s g ∧ v = none)) :
    ∃ new p, (process U s dt hint).1.log = new ++ s.log ∧ Entry.stored g p v ∈ new := by
  have heq := process_ok_san U T.inv dt hint hok
  have := process_returns (san U) T dt hint hr hk (hno_san hno) (v := v) (by
    rcases hret with ⟨hc, st, hs, hv⟩ | ⟨hc, hv⟩
    · left
      refine ⟨(hasCode_san U s g).mpr hc, st, ?_, hv⟩
      rw [curStep_san, hs, Option.map_some, sanStep_eq (by rw [hv]; intro e h; cases h)]
    · exact .inr ⟨fun h => hc ((hasCode_san U s g).mp h), hv⟩)
  rwa [heq] at this

/-! ### a call that a body aborts -/

theorem runBody_crash_fin (U : Universe) (c : St) (g : Gen) {e : String}
    (h : (runBody U c g).2 = .crash e) : (runBody U c g).1.fin g = true := by
  unfold runBody at h ⊢
  by_cases hfin : c.fin g = true
  · simp [hfin] at h
  · simp only [hfin, Bool.false_eq_true, if_false] at h ⊢
    cases hs : ((U.script g).getD [])[c.pc g]? with
    | none => simp [hs] at h
    | some st =>
      simp only [hs] at h ⊢
      cases hf : st.fin with
      | yield w => simp [hf] at h
      | ret v => simp [hf] at h
      | raise e' => simp [hf]

/-- **the coroutine whose body raised is gone at once**: when a body aborts the call, the generator
that raised was in the deque of this call, has no table entry any more when the call returns (so it
reads TERMINATED and is referenced by no table), its generator object is exhausted, and the
sentinel is in front again -/
theorem process_crashed (U : Universe) {s : St} (T : Top s) (dt : Int) (hint : List Gen) {e : String}
    (hc : (process U s dt hint).2 = .crashed e) :
    ∃ g, runnableIn s dt g ∧ (process U s dt hint).1.gens g = none ∧
      (process U s dt hint).1.fin g = true ∧ Top (process U s dt hint).1 := by
  obtain ⟨pend, hact, I0, hsp, hcases⟩ := process_cases U T dt hint
  rcases hcases with ⟨hok, _⟩ | ⟨e', before, g, after, _, hpend, hk, hcr, hfin⟩
  · rw [hok] at hc; cases hc
  · refine ⟨g, (pend_mem (san U) T dt hint hact g).mp (by rw [hpend]; simp), ?_, ?_,
      process_top_gen U T dt hint⟩
    · rw [hfin]; simp [crashDrop, dropHead]
    · rw [hfin]; exact runBody_crash_fin U _ g hcr

theorem dropWhile_split (l1 : List Gen) (l2 : List (Option Gen)) :
    (l1.map some ++ none :: l2).dropWhile (·.isSome) = none :: l2 := by
  induction l1 with
  | nil => simp [List.dropWhile]
  | cons a t ih => simpa [List.dropWhile] using ih

theorem takeWhile_split (l1 : List Gen) (l2 : List (Option Gen)) :
    (l1.map some ++ none :: l2).takeWhile (·.isSome) = l1.map some := by
  induction l1 with
  | nil => simp [List.takeWhile]
  | cons a t ih => simpa [List.takeWhile] using ih

theorem frontNone_split (l1 : List Gen) (l2 : List (Option Gen)) :
    frontNone (l1.map some ++ none :: l2) = none :: l2 ++ l1.map some := by
  unfold frontNone
  rw [dropWhile_split, takeWhile_split]

/-- **an aborted call keeps the order**: the generators that are in the deque after a call that a
body aborted and were not started during it appear there in the order in which the run loop met /
would have met them -/
theorem process_order_crashed (U : Universe) {s : St} (T : Top s) (dt : Int) (hint : List Gen)
    {e : String} (hc : (process U s dt hint).2 = .crashed e) :
    ∃ pend : List Gen, (wakePhase s dt hint).1.active = none :: pend.map some ∧
      (((process U s dt hint).1.active.filter
          (unrestarted s (process U s dt hint).1))).Sublist (pend.map some) := by
  obtain ⟨pend, hact, I0, hsp, hcases⟩ := process_cases U T dt hint
  obtain ⟨_, _, wlog, _⟩ := wake_frame T.inv dt hint
  rcases hcases with ⟨hok, _⟩ | ⟨e', before, g, after, _, hpend, hk, hcr, hfin⟩
  · rw [hok] at hc; cases hc
  refine ⟨pend, hact, ?_⟩
  subst hpend
  have hn0 : ∀ x, nStart s x = nStart (rotHead (wakePhase s dt hint).1) x := by
    intro x; simp [nStart, rotHead, wlog]
  generalize rotHead (wakePhase s dt hint).1 = c0 at *
  obtain ⟨d1, hs1, hsub1, hm1⟩ := turns_order (san U) c0 I0 (before0 := []) (before := before)
    (rest := g :: after) (done := []) (fun _ => Nat.le_refl _) hsp (by simp)
  obtain ⟨_, I1, _, _⟩ := turns_rel (san U) (fun _ _ => True) (fun _ => trivial)
    (fun _ _ _ _ _ => trivial) (before := before) (fun _ _ _ _ _ _ _ => trivial) I0
    (rest := g :: after) hsp
  generalize turns (san U) before.length c0 = c1 at *
  have G := runBody_growsS U c1 g
  obtain ⟨extra, hba, hex⟩ := G.ext
  unfold Split at hs1
  rw [hs1] at hba
  rw [hfin]
  have hfinal : (crashDrop (runBody U c1 g).1 g).active =
      none :: (d1 ++ extra) ++ after.map some := by
    simp only [crashDrop, hba, List.map_cons, List.cons_append, List.tail_cons]
    rw [show List.map some after ++ none :: d1 ++ extra = List.map some after ++ none :: (d1 ++ extra) by simp]
    exact frontNone_split after (d1 ++ extra)
  have hnf : ∀ x, nStart (crashDrop (runBody U c1 g).1 g) x = nStart (runBody U c1 g).1 x := by
    intro x; simp [nStart, crashDrop, dropHead]
  rw [hfinal]
  simp only [List.cons_append, List.filter_cons, unrestarted, Bool.false_eq_true, if_false,
    List.filter_append, List.map_append, List.map_cons]
  have h1 : (d1.filter (unrestarted s (crashDrop (runBody U c1 g).1 g))).Sublist (before.map some) := by
    refine (filter_sublist_of_imp d1 ?_).trans (by simpa using hsub1)
    intro a ha
    cases a with
    | none => simp [unrestarted] at ha
    | some x =>
      simp only [unrestarted, beq_iff_eq] at ha ⊢
      have := hm1 x; have := G.mono x; have := hnf x; have := hn0 x; omega
  have h2 : extra.filter (unrestarted s (crashDrop (runBody U c1 g).1 g)) = [] := by
    rw [List.filter_eq_nil_iff]
    intro a ha
    obtain ⟨x, hx, hlt⟩ := hex a ha
    subst hx
    simp only [unrestarted, beq_iff_eq]
    have := hm1 x; have := hnf x; have := hn0 x; omega
  rw [h2, List.append_nil]
  exact h1.append (List.filter_sublist.trans (List.sublist_cons_self _ _))

end Desper.Coro
