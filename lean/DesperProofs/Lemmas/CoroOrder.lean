import DesperProofs.Lemmas.CoroTime
/-
  Order: the entries that a frame leaves in the deque and that were not (re)started during the
  frame appear in the order in which they were met (used by Props/C08.lean).
-/
set_option linter.unusedSimpArgs false
set_option linter.unusedVariables false
namespace Desper.Coro
open Desper

theorem filter_sublist_of_imp {α : Type} {p q : α → Bool} (l : List α) (h : ∀ a, p a = true → q a = true) :
    (l.filter p).Sublist (l.filter q) := by
  induction l with
  | nil => simp
  | cons a t ih =>
    simp only [List.filter_cons]
    cases hp : p a with
    | true => simp [h a hp]; exact ih
    | false =>
      simp only [Bool.false_eq_true, if_false]
      split
      · exact ih.trans (List.sublist_cons_self _ _)
      · exact ih

/-- bodies only append to the deque, and only generators they have just started -/
structure GrowsS (s s' : St) : Prop where
  mono : ∀ x, nStart s x ≤ nStart s' x
  ext : ∃ extra, s'.active = s.active ++ extra ∧
    ∀ e ∈ extra, ∃ x, e = some x ∧ nStart s x < nStart s' x

theorem GrowsS.refl (s : St) : GrowsS s s := ⟨fun _ => Nat.le_refl _, [], by simp, by simp⟩

theorem GrowsS.trans {a b c : St} (h1 : GrowsS a b) (h2 : GrowsS b c) : GrowsS a c := by
  obtain ⟨e1, h1a, h1b⟩ := h1.ext
  obtain ⟨e2, h2a, h2b⟩ := h2.ext
  refine ⟨fun x => Nat.le_trans (h1.mono x) (h2.mono x), e1 ++ e2, by rw [h2a, h1a, List.append_assoc], ?_⟩
  intro e he
  rcases List.mem_append.mp he with he | he
  · obtain ⟨x, hx, hlt⟩ := h1b e he
    exact ⟨x, hx, Nat.lt_of_lt_of_le hlt (h2.mono x)⟩
  · obtain ⟨x, hx, hlt⟩ := h2b e he
    exact ⟨x, hx, Nat.lt_of_le_of_lt (h1.mono x) hlt⟩

theorem GrowsS.of_eq {s s' : St} (h1 : s'.log = s.log) (h2 : s'.active = s.active) : GrowsS s s' :=
  ⟨fun x => by simp [nStart, h1], [], by simp [h2], by simp⟩

theorem nStart_commit (s : St) (h x : Gen) :
    nStart (startCommit s h).1 x = nStart s x + if h = x then 1 else 0 := by
  simp [nStart, startCommit, List.countP_cons, isStarted]

theorem start_growsS (U : Universe) (s : St) (h : Gen) : GrowsS s (start U s h).1 := by
  unfold start
  split
  · exact GrowsS.refl s
  · split
    · exact GrowsS.refl s
    · split
      · simp only []
        split
        · exact GrowsS.of_eq rfl rfl
        · exact ⟨fun x => by rw [nStart_commit]; simp [nStart], [], by simp [startCommit], by simp⟩
        · refine ⟨fun x => by rw [nStart_commit]; simp [nStart], [some h], by simp [startCommit], ?_⟩
          intro e he
          simp only [List.mem_singleton] at he
          exact ⟨h, he, by rw [nStart_commit]; simp [nStart]⟩
      · refine ⟨fun x => by rw [nStart_commit]; simp [nStart], [some h], by simp [startCommit], ?_⟩
        intro e he
        simp only [List.mem_singleton] at he
        exact ⟨h, he, by rw [nStart_commit]; simp [nStart]⟩

theorem kill_growsS (U : Universe) (s : St) (h : Gen) : GrowsS s (kill U s h).1 := by
  unfold kill
  split
  · exact GrowsS.refl s
  · split
    · exact GrowsS.refl s
    · exact ⟨fun x => by simp [nStart, List.countP_cons, isStarted], [], by simp, by simp⟩

theorem push_growsS (s : St) (e : Entry) (he : ∀ x, isStarted x e = false) : GrowsS s (s.push e) :=
  ⟨fun x => by simp [nStart, St.push, List.countP_cons, he x], [], by simp [St.push], by simp⟩

theorem execAct_growsS (U : Universe) (x : Gen) (i : Nat) (s : St) (a : Act) :
    GrowsS s (execAct U x i s a) := by
  cases a with
  | start h => exact (start_growsS U s h).trans (push_growsS _ _ (fun _ => rfl))
  | kill h => exact (kill_growsS U s h).trans (push_growsS _ _ (fun _ => rfl))
  | state h => simp only [execAct]; split <;> exact push_growsS _ _ (fun _ => rfl)

theorem execActs_growsS (U : Universe) (x : Gen) (i : Nat) (s : St) (acts : List Act) :
    GrowsS s (execActs U x i s acts) := by
  induction acts generalizing s with
  | nil => exact GrowsS.refl s
  | cons a as ih => exact (execAct_growsS U x i s a).trans (ih _)

theorem runBody_growsS (U : Universe) (s : St) (x : Gen) : GrowsS s (runBody U s x).1 := by
  unfold runBody
  split
  · exact GrowsS.refl s
  · dsimp only
    split
    · exact GrowsS.of_eq rfl rfl
    · rename_i st _
      have k0 : GrowsS s { s with pc := upd s.pc x (s.pc x + 1), log := .step x (s.pc x) :: s.log } :=
        ⟨fun y => by simp [nStart, List.countP_cons, isStarted], [], by simp, by simp⟩
      have k1 := execActs_growsS U x (s.pc x)
        { s with pc := upd s.pc x (s.pc x + 1), log := .step x (s.pc x) :: s.log } st.acts
      split
      · exact (k0.trans k1).trans (push_growsS _ _ (fun _ => rfl))
      · exact (k0.trans k1).trans
          ⟨fun y => by simp [nStart, List.countP_cons, isStarted], [], by simp, by simp⟩
      · exact (k0.trans k1).trans
          ⟨fun y => by simp [nStart, List.countP_cons, isStarted], [], by simp, by simp⟩

theorem nStart_afterBody (b : St × Next) (g : Gen) (p : Nat) (x : Gen) :
    nStart (afterBody b g p) x = nStart b.1 x := by
  unfold afterBody
  split
  · simp [nStart, finishHead, dropHead, List.countP_cons, isStarted]
  · split <;> simp [nStart, pauseHead, rotHead]
  · rfl

/-- what a turn puts behind the sentinel: generators started by the body, then possibly the
generator itself (rotated) -/
theorem turn_order (U : Universe) [NoRaise U] {c : St} (I : Inv c) {g : Gen} {pend : List Gen}
    {done : List (Option Gen)} (h : Split c (g :: pend) done) :
    ∃ ex tail, Split (turn U c) pend (done ++ ex ++ tail) ∧ (tail = [] ∨ tail = [some g]) ∧
      (∀ e ∈ ex, ∃ x, e = some x ∧ nStart c x < nStart (turn U c) x) ∧
      ∀ x, nStart c x ≤ nStart (turn U c) x := by
  obtain ⟨_, hc⟩ := turn_cases U I h
  rcases hc with ⟨_, ht, hs⟩ | ⟨_, _, p, _, _, _, _, ht, _⟩
  · exact ⟨[], [], by simpa using hs, .inl rfl, by simp, fun x => by rw [ht]; simp [nStart, dropHead]⟩
  · have G := runBody_growsS U c g
    obtain ⟨extra, hact, hex⟩ := G.ext
    unfold Split at h
    rw [h] at hact
    simp only [List.map_cons, List.cons_append, List.append_assoc] at hact
    have hn : ∀ x, nStart (turn U c) x = nStart (runBody U c g).1 x := by
      intro x; rw [ht, nStart_afterBody]
    refine ⟨extra, ?_⟩
    rw [ht]
    unfold afterBody
    split
    · refine ⟨[], by simp [Split, finishHead, dropHead, hact], .inl rfl, ?_, ?_⟩
      · intro e he; obtain ⟨x, hx, hlt⟩ := hex e he
        exact ⟨x, hx, by simpa [nStart, finishHead, dropHead, List.countP_cons, isStarted] using hlt⟩
      · intro x; have := G.mono x
        simpa [nStart, finishHead, dropHead, List.countP_cons, isStarted] using this
    · split
      · refine ⟨[], by simp [Split, pauseHead, hact], .inl rfl, ?_, ?_⟩
        · intro e he; obtain ⟨x, hx, hlt⟩ := hex e he
          exact ⟨x, hx, by simpa [nStart, pauseHead] using hlt⟩
        · intro x; have := G.mono x; simpa [nStart, pauseHead] using this
      · refine ⟨[some g], by simp [Split, rotHead, rotl, hact], .inr rfl, ?_, ?_⟩
        · intro e he; obtain ⟨x, hx, hlt⟩ := hex e he
          exact ⟨x, hx, by simpa [nStart, rotHead] using hlt⟩
        · intro x; have := G.mono x; simpa [nStart, rotHead] using this
    · rename_i e he; exact absurd he (runBody_no_crash U c g e)

/-- not started since the reference state `c0` -/
def unrestarted (c0 c : St) : Option Gen → Bool
  | some x => nStart c x == nStart c0 x
  | none => false

theorem turns_order (U : Universe) [NoRaise U] (c0 : St) {c : St} (I : Inv c) {before0 before rest : List Gen}
    {done : List (Option Gen)} (hm : ∀ x, nStart c0 x ≤ nStart c x)
    (h : Split c (before ++ rest) done)
    (hinv : (done.filter (unrestarted c0 c)).Sublist (before0.map some)) :
    ∃ done', Split (turns U before.length c) rest done' ∧
      (done'.filter (unrestarted c0 (turns U before.length c))).Sublist ((before0 ++ before).map some) ∧
      ∀ x, nStart c0 x ≤ nStart (turns U before.length c) x := by
  induction before generalizing c before0 done with
  | nil => exact ⟨done, by simpa [turns] using h, by simpa [turns] using hinv, by simpa [turns] using hm⟩
  | cons g bs ih =>
    have h' : Split c (g :: (bs ++ rest)) done := h
    obtain ⟨I1, _⟩ := turn_cases U I h'
    obtain ⟨ex, tail, hs1, htail, hex, hmono⟩ := turn_order U I h'
    have hm1 : ∀ x, nStart c0 x ≤ nStart (turn U c) x := fun x => Nat.le_trans (hm x) (hmono x)
    have hinv1 : ((done ++ ex ++ tail).filter (unrestarted c0 (turn U c))).Sublist
        ((before0 ++ [g]).map some) := by
      rw [List.filter_append, List.filter_append, List.map_append]
      have h1 : (done.filter (unrestarted c0 (turn U c))).Sublist (before0.map some) := by
        refine (filter_sublist_of_imp done ?_).trans hinv
        intro a ha
        cases a with
        | none => simp [unrestarted] at ha
        | some x =>
          simp only [unrestarted, beq_iff_eq] at ha ⊢
          have := hm x; have := hmono x; omega
      have h2 : ex.filter (unrestarted c0 (turn U c)) = [] := by
        rw [List.filter_eq_nil_iff]
        intro a ha
        obtain ⟨x, hx, hlt⟩ := hex a ha
        subst hx
        simp only [unrestarted, beq_iff_eq]
        have := hm x; omega
      have h3 : (tail.filter (unrestarted c0 (turn U c))).Sublist ([g].map some) := by
        rcases htail with e | e
        · subst e; simp
        · subst e; exact List.filter_sublist
      rw [h2, List.append_nil]
      exact h1.append h3
    obtain ⟨done', k1, k2, k3⟩ := ih I1 hm1 hs1 hinv1
    simp only [List.length_cons, turns]
    exact ⟨done', k1, by simpa [List.append_assoc] using k2, k3⟩

/-- **order.**  The generators that are in the deque after a frame and were not started during it
appear there in the order in which the run loop met them (`pend`: the deque when the loop began). -/
theorem process_order (U : Universe) [NoRaise U] {s : St} (T : Top s) (dt : Int) (hint : List Gen) :
    ∃ pend : List Gen, (wakePhase s dt hint).1.active = none :: pend.map some ∧
      (((process U s dt hint).1.active.filter
          (unrestarted s (process U s dt hint).1))).Sublist (pend.map some) := by
  obtain ⟨pend, hact, I1, hsp, hp⟩ := process_frame U T dt hint
  obtain ⟨_, _, wlog, _⟩ := wake_frame T.inv dt hint
  refine ⟨pend, hact, ?_⟩
  have hn0 : ∀ x, nStart s x = nStart (rotHead (wakePhase s dt hint).1) x := by
    intro x; simp [nStart, rotHead, wlog]
  obtain ⟨done', k1, k2, _⟩ := turns_order U (rotHead (wakePhase s dt hint).1) I1 (before0 := [])
    (before := pend) (rest := []) (done := []) (fun _ => Nat.le_refl _) (by simpa using hsp) (by simp)
  rw [hp]
  simp only []
  unfold Split at k1
  have hu : unrestarted s (turns U pend.length (rotHead (wakePhase s dt hint).1)) =
      unrestarted (rotHead (wakePhase s dt hint).1) (turns U pend.length (rotHead (wakePhase s dt hint).1)) := by
    funext a; cases a with
    | none => rfl
    | some x => simp [unrestarted, hn0 x]
  rw [hu, k1]
  simpa [unrestarted] using k2

/-! ### the execution log of a frame -/

/-- no body executed between `s` and `s'` -/
def SameSteps (s s' : St) : Prop := stepGens s'.log = stepGens s.log

theorem SameSteps.trans {a b c : St} (h1 : SameSteps a b) (h2 : SameSteps b c) : SameSteps a c :=
  Eq.trans h2 h1

theorem start_sameSteps (U : Universe) (s : St) (h : Gen) : SameSteps s (start U s h).1 := by
  unfold start SameSteps
  split
  · rfl
  · split
    · rfl
    · split
      · simp only []
        split <;> simp [startCommit, stepGens]
      · simp [startCommit, stepGens]

theorem kill_sameSteps (U : Universe) (s : St) (h : Gen) : SameSteps s (kill U s h).1 := by
  unfold kill SameSteps
  split
  · rfl
  · split
    · rfl
    · simp [stepGens]

theorem execAct_sameSteps (U : Universe) (x : Gen) (i : Nat) (s : St) (a : Act) :
    SameSteps s (execAct U x i s a) := by
  cases a with
  | start h => exact (start_sameSteps U s h).trans (by simp [SameSteps, execAct, St.push, stepGens])
  | kill h => exact (kill_sameSteps U s h).trans (by simp [SameSteps, execAct, St.push, stepGens])
  | state h => simp only [execAct]; split <;> simp [SameSteps, St.push, stepGens]

theorem execActs_sameSteps (U : Universe) (x : Gen) (i : Nat) (s : St) (acts : List Act) :
    SameSteps s (execActs U x i s acts) := by
  induction acts generalizing s with
  | nil => rfl
  | cons a as ih => exact (execAct_sameSteps U x i s a).trans (ih _)

/-- `next(g)` logs one step of `g` iff `g` has code -/
theorem runBody_steps (U : Universe) (s : St) (g : Gen) :
    stepGens (runBody U s g).1.log = (if hasCode U s g then [g] else []) ++ stepGens s.log := by
  unfold runBody hasCode
  split
  · rename_i h; simp [h]
  · rename_i h
    simp only [Bool.not_eq_true] at h
    dsimp only
    split
    · rename_i hn
      have : ¬ s.pc g < ((U.script g).getD []).length := by
        intro hlt; simp [List.getElem?_eq_getElem hlt] at hn
      simp [this]
    · rename_i st hs
      have hlt : s.pc g < ((U.script g).getD []).length := by
        rcases Nat.lt_or_ge (s.pc g) ((U.script g).getD []).length with h1 | h1
        · exact h1
        · simp [List.getElem?_eq_none h1] at hs
      have hsame := execActs_sameSteps U g (s.pc g)
        { s with pc := upd s.pc g (s.pc g + 1), log := .step g (s.pc g) :: s.log } st.acts
      unfold SameSteps at hsame
      split
      · simp [St.push, stepGens, h, hlt] at hsame ⊢; exact hsame
      · simp [stepGens, h, hlt] at hsame ⊢; exact hsame
      · simp [stepGens, h, hlt] at hsame ⊢; exact hsame

theorem turn_steps (U : Universe) [NoRaise U] {c : St} (I : Inv c) {g : Gen} {pend : List Gen}
    {done : List (Option Gen)} (h : Split c (g :: pend) done) :
    stepGens (turn U c).log =
      (if c.kill g = false ∧ hasCode U c g then [g] else []) ++ stepGens c.log := by
  obtain ⟨_, hc⟩ := turn_cases U I h
  rcases hc with ⟨hk, ht, _⟩ | ⟨hk, _, p, _, _, _, _, ht, _⟩
  · rw [ht]; simp [dropHead, hk]
  · rw [ht]
    have : stepGens (afterBody (runBody U c g) g p).log = stepGens (runBody U c g).1.log := by
      unfold afterBody
      split
      · simp [finishHead, dropHead, stepGens]
      · split <;> simp [pauseHead, rotHead]
      · rfl
    rw [this, runBody_steps]; simp [hk]

theorem turns_steps (U : Universe) [NoRaise U] {c : St} (I : Inv c) {before rest : List Gen}
    {done : List (Option Gen)} (h : Split c (before ++ rest) done) :
    ∃ ran : List Gen, ran.Sublist before ∧
      stepGens (turns U before.length c).log = ran.reverse ++ stepGens c.log := by
  induction before generalizing c done with
  | nil => exact ⟨[], List.Sublist.refl _, by simp [turns]⟩
  | cons g bs ih =>
    have h' : Split c (g :: (bs ++ rest)) done := h
    obtain ⟨I1, hc⟩ := turn_cases U I h'
    have hs1 : ∃ d1, Split (turn U c) (bs ++ rest) d1 := by
      rcases hc with ⟨_, _, hs⟩ | ⟨_, _, _, _, _, _, _, _, e, hs⟩
      · exact ⟨_, hs⟩
      · exact ⟨_, hs⟩
    obtain ⟨d1, hs1⟩ := hs1
    obtain ⟨ran, hsub, hlog⟩ := ih I1 hs1
    have ht := turn_steps U I h'
    simp only [List.length_cons, turns]
    by_cases hrun : c.kill g = false ∧ hasCode U c g
    · refine ⟨g :: ran, hsub.cons_cons g, ?_⟩
      rw [hlog, ht]; simp [hrun]
    · refine ⟨ran, hsub.cons g, ?_⟩
      rw [hlog, ht]; simp [hrun]

/-- **the execution log of a frame**: the bodies that run in a `process` call run in the order of
the deque at the start of the run loop, each at most once -/
theorem process_steps (U : Universe) [NoRaise U] {s : St} (T : Top s) (dt : Int) (hint : List Gen) :
    ∃ pend ran : List Gen, (wakePhase s dt hint).1.active = none :: pend.map some ∧ pend.Nodup ∧
      ran.Sublist pend ∧ stepGens (process U s dt hint).1.log = ran.reverse ++ stepGens s.log := by
  obtain ⟨pend, hact, I1, hsp, hp⟩ := process_frame U T dt hint
  obtain ⟨_, _, wlog, _⟩ := wake_frame T.inv dt hint
  obtain ⟨ran, hsub, hlog⟩ := turns_steps U I1 (before := pend) (rest := []) (by simpa using hsp)
  refine ⟨pend, ran, hact, Split.nodup I1 hsp, hsub, ?_⟩
  rw [hp]
  simp only []
  rw [hlog]
  simp [rotHead, wlog]

/-! ### the progress counter of a generator object counts its logged steps -/

def PcLog (s : St) : Prop := ∀ g, s.pc g = (stepGens s.log).count g

theorem turn_pcLog (U : Universe) [NoRaise U] {c : St} (I : Inv c) {g : Gen} {pend : List Gen}
    {done : List (Option Gen)} (h : Split c (g :: pend) done) (P : PcLog c) : PcLog (turn U c) := by
  intro x
  rw [(turn_effect U I h x).1, turn_steps U I h, List.count_append, ← P x]
  by_cases hx : x = g
  · subst hx
    by_cases hr : c.kill x = false ∧ hasCode U c x
    · simp [hr]; omega
    · simp [hr]
  · by_cases hr : c.kill g = false ∧ hasCode U c g
    · simp [hx, hr, List.count_cons, Ne.symm hx]
    · simp [hx, hr]

theorem process_pcLog (U : Universe) [NoRaise U] {s : St} (T : Top s) (dt : Int) (hint : List Gen) (P : PcLog s) :
    PcLog (process U s dt hint).1 := by
  obtain ⟨pend, _, I1, hsp, hp⟩ := process_frame U T dt hint
  obtain ⟨w1, _, wlog, _⟩ := wake_frame T.inv dt hint
  have P0 : PcLog (rotHead (wakePhase s dt hint).1) := by
    intro g; simp only [rotHead, w1, wlog]; exact P g
  have := (turns_rel U (fun a b => PcLog a → PcLog b) (fun _ h => h) (fun _ _ _ h1 h2 h => h2 (h1 h))
    (before := pend) (fun c x pend done I hs _ => turn_pcLog U I hs) I1 (rest := []) (done := [])
    (by simpa using hsp)).1
  rw [hp]
  exact this P0

theorem execOp_pcLog (U : Universe) [NoRaise U] {s : St} (T : Top s) (op : Op) (P : PcLog s) : PcLog (execOp U s op) := by
  cases op with
  | start h =>
    intro g
    have h1 := start_same U s h
    have h2 := start_sameSteps U s h
    unfold SameSteps at h2
    simp [execOp, St.push, stepGens] at h2 ⊢
    rw [h1.pc, show (List.filterMap _ (start U s h).1.log) = _ from h2]; exact P g
  | kill h =>
    intro g
    have h1 := kill_same U s h
    have h2 := kill_sameSteps U s h
    unfold SameSteps at h2
    simp [execOp, St.push, stepGens] at h2 ⊢
    rw [h1.pc, show (List.filterMap _ (kill U s h).1.log) = _ from h2]; exact P g
  | state h => intro g; simp only [execOp]; split <;> simpa [St.push, stepGens] using P g
  | value h => intro g; simpa [execOp, St.push, stepGens] using P g
  | process dt hint =>
    intro g
    have := process_pcLog U T dt hint P g
    simpa [execOp, St.push, stepGens] using this

theorem run_pcLog (U : Universe) [NoRaise U] {s : St} (T : Top s) (ops : List Op) (P : PcLog s) :
    PcLog (run U s ops) := by
  induction ops generalizing s with
  | nil => exact P
  | cons op rest ih => exact ih (execOp_top U T op) (execOp_pcLog U T op P)

theorem pcLog_init : PcLog init := by intro g; simp [init, stepGens]

end Desper.Coro
