/-
  Textbook side of property C18 (hand-written, NOT generated): the definitions the generated
  definitions of `DesperProofs/Generated/MathGen.lean` are proved equal to in
  `DesperProofs/Props/C18.lean`.  Nothing here looks at desper's code.

  * matrices are Mathlib `Matrix (Fin n) (Fin n) K`; `grid3` / `grid4` read the tuple of values
    row after row ("the grid the values are written in");
  * a vector next to a matrix is a ROW: `A @ v` is `v ᵥ* A` (the only reading under which
    `(A @ B) @ v = B @ (A @ v)` and `from_translation t` moves the point `(p, 1)` by `t`);
  * the length of a vector is the square root of the sum of the squares;
  * the heading of a 2-vector is the argument of `x + iy`, compared as an angle (mod 2π);
  * swizzling: letter `c` selects the component at the position of `c` in "xyzw".
-/
import DesperProofs.Generated.MathGen
import Mathlib.Data.Matrix.Basic
import Mathlib.Data.Matrix.Mul
import Mathlib.LinearAlgebra.Matrix.Notation
import Mathlib.Analysis.SpecialFunctions.Trigonometric.Angle

namespace Desper.MathSpec
open Desper.MathGen

variable {K : Type}

/-- the 3x3 grid of a `Mat3`, row after row -/
def grid3 (a : Mat3 K) : Matrix (Fin 3) (Fin 3) K :=
  !![a.e0, a.e1, a.e2; a.e3, a.e4, a.e5; a.e6, a.e7, a.e8]

/-- the 4x4 grid of a `Mat4`, row after row -/
def grid4 (a : Mat4 K) : Matrix (Fin 4) (Fin 4) K :=
  !![a.e0, a.e1, a.e2, a.e3; a.e4, a.e5, a.e6, a.e7; a.e8, a.e9, a.e10, a.e11;
     a.e12, a.e13, a.e14, a.e15]

def row3 (v : Vec3 K) : Fin 3 → K := ![v.x, v.y, v.z]
def row4 (v : Vec4 K) : Fin 4 → K := ![v.x, v.y, v.z, v.w]

/-- scalar multiple -/
def smul2 [Mul K] (c : K) (v : Vec2 K) : Vec2 K := ⟨c * v.x, c * v.y⟩
def smul3 [Mul K] (c : K) (v : Vec3 K) : Vec3 K := ⟨c * v.x, c * v.y, c * v.z⟩
def smul4 [Mul K] (c : K) (v : Vec4 K) : Vec4 K := ⟨c * v.x, c * v.y, c * v.z, c * v.w⟩

/-- Euclidean length -/
noncomputable def norm2 (v : Vec2 ℝ) : ℝ := Real.sqrt (v.x ^ 2 + v.y ^ 2)
noncomputable def norm3 (v : Vec3 ℝ) : ℝ := Real.sqrt (v.x ^ 2 + v.y ^ 2 + v.z ^ 2)
noncomputable def norm4 (v : Vec4 ℝ) : ℝ := Real.sqrt (v.x ^ 2 + v.y ^ 2 + v.z ^ 2 + v.w ^ 2)

/-- the direction of a 2-vector as an angle (mod 2π): the argument of `x + iy` -/
noncomputable def angle2 (v : Vec2 ℝ) : Real.Angle := (Complex.arg ⟨v.x, v.y⟩ : ℝ)

/-- position of a component letter in "xyzw" -/
def letterIndex : Char → Option Nat
  | 'x' => some 0
  | 'y' => some 1
  | 'z' => some 2
  | 'w' => some 3
  | _ => none

/-- component number `i` of a vector (`none` past its dimension) -/
def nth2 (v : Vec2 K) : Nat → Option K
  | 0 => some v.x
  | 1 => some v.y
  | _ => none
def nth3 (v : Vec3 K) : Nat → Option K
  | 0 => some v.x
  | 1 => some v.y
  | 2 => some v.z
  | _ => none
def nth4 (v : Vec4 K) : Nat → Option K
  | 0 => some v.x
  | 1 => some v.y
  | 2 => some v.z
  | 3 => some v.w
  | _ => none

/-- the vector a list of 2, 3 or 4 values makes; any other length is an error -/
def ofList : List K → Swz K
  | [a, b] => .vec2 ⟨a, b⟩
  | [a, b, c] => .vec3 ⟨a, b, c⟩
  | [a, b, c, d] => .vec4 ⟨a, b, c, d⟩
  | _ => .attributeError

/-- Textbook swizzle of a vector whose components are `nth`: every letter must name a component
    (`letterIndex` then `nth`), the result has one entry per letter, in order. -/
def swizzleSpec (nth : Nat → Option K) (attrs : List Char) : Swz K :=
  match attrs.mapM (fun c => (letterIndex c).bind nth) with
  | some comps => ofList comps
  | none => .attributeError

end Desper.MathSpec
