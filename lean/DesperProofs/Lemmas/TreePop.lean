import DesperProofs.Lemmas.TreeC17
import DesperModel.Pop
/-
  C16: the populator over the heap model.  State-level form of "the last assignment wins", the
  invariant of a population (`PopInv`), and what one placement does.
-/
namespace Desper.Tree
open Desper

/-- everything `m[key] = v` guarantees when `m` is a root of a back-linked tree and `v` is new -/
theorem setItemPath_spec (st : St) (n : Nat) (ps : List String) (last : String) (v : Ref)
    (hl : Links st) (ho : OneKind st) (hroot : (st.m (.decl n)).parent = none)
    (hv : NoLoc st v) (hd : v.declared = true ∨ ∃ a, v = .map (.anon a) ∧ a < st.next)
    (hne : v ≠ .map (.decl n)) :
    let st' := setItemPath st (.decl n) ps last v
    Links st' ∧ OneKind st' ∧ (st'.m (.decl n)).parent = none ∧
    getPath st' (.decl n) ps last = some v ∧
    walk st' (.decl n) ps = some (descend st (.decl n) ps).2 ∧
    (∀ j k, (j, k) ∉ walkEntries st' (.decl n) (ps ++ [last]) → lookup st' j k = lookup st j k) ∧
    (∀ w, w.declared = true → w ≠ v → NoLoc st w → NoLoc st' w) := by
  intro st'
  have hst' : st' = assign (descend st (.decl n) ps).1 (descend st (.decl n) ps).2 last v := rfl
  obtain ⟨d1, d2⟩ := descend_links st (.decl n) ps hl
  have hw1 := walk_descend st (.decl n) ps
  have hroot1 := descend_root st (.decl n) ps n hroot
  have hnr := walk_no_revisit _ d1 (.decl n) hroot1 ps _ hw1 last
  have hsm := assign_sameMaps (descend st (.decl n) ps).1 (descend st (.decl n) ps).2 last v
  have hw' : walk st' (.decl n) ps = some (descend st (.decl n) ps).2 := by
    rw [hst', walk_congr _ _ _ hsm _ _ hnr]; exact hw1
  -- the value is still stored nowhere after the loop
  have hv1 : NoLoc (descend st (.decl n) ps).1 v := by
    rcases hd with hd | ⟨a, rfl, ha⟩
    · exact d2 v hd hv
    · -- an allocated anonymous map: the loop only links maps it allocates itself
      exact descend_noLoc_anon st (.decl n) ps a hl ha hv
  have hnext : st.next ≤ (descend st (.decl n) ps).1.next := descend_next_le st (.decl n) ps
  refine ⟨?_, ?_, ?_, ?_, hw', ?_, ?_⟩
  · rw [hst']
    refine assign_links _ _ _ _ d1 hv1 ?_
    intro a e
    rcases hd with hd | ⟨a', e', ha'⟩
    · subst e; simp [Ref.declared] at hd
    · rw [e] at e'; simp only [Ref.map.injEq, MId.anon.injEq] at e'; subst e'
      exact Nat.lt_of_lt_of_le ha' hnext
  · exact assign_oneKind _ _ _ _ (descend_oneKind _ _ _ ho)
  · rw [hst']
    cases v with
    | map c =>
      rw [assign_map_parent]
      have : (MId.decl n) ≠ c := fun e => hne (by rw [e])
      simp [this, hroot1]
    | handle g => rw [(assign_h_parent _ _ _ _ _).1]; exact hroot1
  · simp only [getPath, hw']
    rw [hst']; exact lookup_assign_self _ _ _ _
  · intro j k hjk
    rw [walkEntries_snoc _ _ _ _ _ hw'] at hjk
    simp only [List.mem_append, List.mem_singleton, not_or] at hjk
    have e1 : walkEntries st' (.decl n) ps = walkEntries (descend st (.decl n) ps).1 (.decl n) ps := by
      rw [hst']; exact walkEntries_congr _ _ _ hsm _ _ hnr
    rw [e1] at hjk
    rw [hst', lookup_assign_other _ _ _ _ _ _ hjk.2]
    exact lookup_descend_other st (.decl n) ps j k hjk.1
  · intro w hwd hwv hw
    rw [hst']
    exact assign_noLoc _ _ _ _ w (d2 w hwd hw) hwv

end Desper.Tree

namespace Desper.Tree
open Desper

/-- when every intermediate map exists already, the loop over `keys[:-1]` arrives at the map the
walk arrives at and only pops first-layer handles on its way -/
theorem descend_existing (st : St) (i : MId) (ks : List String) (t : MId) (hw : walk st i ks = some t) :
    (descend st i ks).2 = t ∧ (descend st i ks).1.next = st.next ∧
    (∀ g, (descend st i ks).1.h g = st.h g) ∧
    ∀ j, ((descend st i ks).1.m j).maps = (st.m j).maps ∧
      ((descend st i ks).1.m j).lower = (st.m j).lower ∧
      ((descend st i ks).1.m j).parent = (st.m j).parent ∧
      ((descend st i ks).1.m j).key = (st.m j).key ∧
      (∀ k g, Dict.get? ((descend st i ks).1.m j).layer0 k = some g → Dict.get? (st.m j).layer0 k = some g) := by
  induction ks generalizing st i with
  | nil =>
    simp only [walk, Option.some.injEq] at hw
    exact ⟨hw, rfl, fun _ => rfl, fun j => ⟨rfl, rfl, rfl, rfl, fun _ _ h => h⟩⟩
  | cons k ks ih =>
    simp only [walk] at hw
    cases hc : Dict.get? (st.m i).maps k with
    | none => rw [hc] at hw; cases hw
    | some c =>
      rw [hc] at hw
      rw [descend_eq]
      have hc' : Dict.get? ((popLayer0 st i k).m i).maps k = some c := by
        rw [(popLayer0_fields st i i k).1]; exact hc
      simp only [hc']
      have hw' : walk (popLayer0 st i k) c ks = some t := by
        have : ∀ (x : MId) (l : List String), walk (popLayer0 st i k) x l = walk st x l := by
          intro x l
          induction l generalizing x with
          | nil => rfl
          | cons a l ihl =>
            simp only [walk, (popLayer0_fields st i x k).1]
            cases Dict.get? (st.m x).maps a with
            | none => rfl
            | some y => exact ihl y
        rw [this]; exact hw
      obtain ⟨a1, a2, a3, a4⟩ := ih (popLayer0 st i k) c hw'
      refine ⟨a1, by rw [a2]; simp [popLayer0], fun g => by rw [a3]; simp [popLayer0], fun j => ?_⟩
      obtain ⟨b1, b2, b3, b4, b5⟩ := a4 j
      obtain ⟨p1, p2, p3, p4⟩ := popLayer0_fields st i j k
      refine ⟨b1.trans p1, ?_, b3.trans p2, b4.trans p3, ?_⟩
      · rw [b2]
        have := p4
        simp only [layers_def] at this
        by_cases e : j = i
        · subst e; simp only [if_true, List.cons.injEq] at this; exact this.2
        · simp only [e, if_false, List.cons.injEq] at this; exact this.2
      · intro k' g hg
        have h1 := b5 k' g hg
        have := p4
        simp only [layers_def] at this
        by_cases e : j = i
        · subst e
          simp only [if_true, List.cons.injEq] at this
          rw [this.1, dget_erase] at h1
          by_cases ek : k = k'
          · simp [ek] at h1
          · simpa [ek] using h1
        · simp only [e, if_false, List.cons.injEq] at this
          rw [this.1] at h1; exact h1

end Desper.Tree

namespace Desper.Pop
open Desper Desper.Tree

/-- a well formed key: at least one component, none containing '/' -/
def KeyOk (kc : List String) : Prop := kc ≠ [] ∧ ∀ c ∈ kc, NoSlash c

theorem keyPath_of_keyOk (kc : List String) (h : KeyOk kc) :
    keyPath (joinKey kc) = (kc.dropLast, kc.getLastD "") := by
  obtain ⟨hne, hs⟩ := h
  rcases List.eq_nil_or_concat kc with rfl | ⟨init, a, rfl⟩
  · exact absurd rfl hne
  · rw [List.concat_eq_append] at hs ⊢
    rw [keyPath_joinKey init a hs]
    simp

/-! ### `dropHandle` -/

theorem dropHandle_fields (st : St) (p : MId) (k : String) (h : HId) (j : MId) :
    ((dropHandle st p (some k) h).m j).maps = (st.m j).maps ∧
    ((dropHandle st p (some k) h).m j).parent = (st.m j).parent ∧
    ((dropHandle st p (some k) h).m j).key = (st.m j).key ∧
    ((dropHandle st p (some k) h).m j).layers =
      (if j = p then (st.m p).layers.map
        (fun l => if Dict.get? l k = some h then Dict.erase l k else l) else (st.m j).layers) := by
  simp only [dropHandle, m_setM, layers_def]
  by_cases e : p = j <;> simp_all <;> grind

theorem dropHandle_none (st : St) (p : MId) (h : HId) : dropHandle st p none h = st := rfl

theorem dropHandle_mem (st : St) (p j : MId) (k k' : String) (h g : HId) (l : Dict String HId)
    (hl : l ∈ ((dropHandle st p (some k) h).m j).layers) (hg : Dict.get? l k' = some g) :
    ∃ l0 ∈ (st.m j).layers, Dict.get? l0 k' = some g ∧ ¬ (j = p ∧ k' = k ∧ g = h) := by
  rw [(dropHandle_fields st p k h j).2.2.2] at hl
  by_cases e : j = p
  · subst e
    simp only [if_true, List.mem_map] at hl
    obtain ⟨l0, hl0, rfl⟩ := hl
    by_cases c : Dict.get? l0 k = some h
    · simp only [c, if_true, dget_erase] at hg
      by_cases ek : k = k'
      · simp [ek] at hg
      · simp only [ek, if_false] at hg
        exact ⟨l0, hl0, hg, fun x => ek x.2.1.symm⟩
    · simp only [c, if_false] at hg
      refine ⟨l0, hl0, hg, fun x => ?_⟩
      obtain ⟨_, rfl, rfl⟩ := x
      exact c hg
  · simp only [e, if_false] at hl
    exact ⟨l, hl, hg, fun x => e x.1⟩

theorem dropHandle_links (st : St) (p : MId) (key : Option String) (h : HId) (hl : Links st) :
    Links (dropHandle st p key h) := by
  cases key with
  | none => exact hl
  | some k =>
    refine ⟨fun i k' c hc => ?_, fun i l k' g hl' hg => ?_, fun i k' n hn => ?_⟩
    · rw [(dropHandle_fields st p k h i).1] at hc
      rw [(dropHandle_fields st p k h c).2.1, (dropHandle_fields st p k h c).2.2.1]
      exact hl.maps i k' c hc
    · obtain ⟨l0, h1, h2, _⟩ := dropHandle_mem st p i k k' h g l hl' hg
      have := hl.handles i l0 k' g h1 h2
      simpa [dropHandle] using this
    · rw [(dropHandle_fields st p k h i).1] at hn
      have := hl.alloc i k' n hn
      simpa [dropHandle] using this

theorem dropHandle_noLoc (st : St) (p : MId) (key : Option String) (h : HId) (w : Ref) (hw : NoLoc st w) :
    NoLoc (dropHandle st p key h) w := by
  cases key with
  | none => exact hw
  | some k =>
    cases w with
    | map c => intro i k'; rw [(dropHandle_fields st p k h i).1]; exact hw i k'
    | handle g =>
      intro i l k' hl' hg
      obtain ⟨l0, h1, h2, _⟩ := dropHandle_mem st p i k k' h g l hl' hg
      exact hw i l0 k' h1 h2

theorem dropHandle_oneKind (st : St) (p : MId) (key : Option String) (h : HId) (ho : OneKind st) :
    OneKind (dropHandle st p key h) := by
  cases key with
  | none => exact ho
  | some k =>
    intro i k' hk
    rw [(dropHandle_fields st p k h i).1] at hk
    have := ho i k' hk
    rw [chainGet_none] at this ⊢
    intro l hl'
    cases hg : Dict.get? l k' with
    | none => rfl
    | some g =>
      obtain ⟨l0, h1, h2, _⟩ := dropHandle_mem st p i k k' h g l hl' hg
      rw [this l0 h1] at h2; cases h2

theorem lookup_dropHandle_other (st : St) (p : MId) (k : String) (h : HId) (j : MId) (k' : String)
    (hne : (j, k') ≠ (p, k)) : lookup (dropHandle st p (some k) h) j k' = lookup st j k' := by
  unfold lookup
  rw [(dropHandle_fields st p k h j).1, (dropHandle_fields st p k h j).2.2.2]
  by_cases e : j = p
  · subst e
    have ek : k ≠ k' := fun x => hne (by rw [x])
    simp only [if_true]
    have : chainGet? ((st.m j).layers.map
        (fun l => if Dict.get? l k = some h then Dict.erase l k else l)) k' = chainGet? (st.m j).layers k' := by
      induction (st.m j).layers with
      | nil => rfl
      | cons l ls ih =>
        simp only [List.map_cons, chainGet_cons, ih]
        by_cases c : Dict.get? l k = some h
        · simp [c, dget_erase, ek]
        · simp [c]
    rw [this]
  · simp only [e, if_false]

theorem lookup_addLayer (st : St) (p j : MId) (k : String) : lookup (addLayer st p) j k = lookup st j k := by
  unfold lookup
  rw [(addLayer_m st p j).1, (addLayer_m st p j).2.1]
  by_cases e : j = p
  · subst e; simp [chainGet_cons]
  · simp [e]

/-! ### the invariant of a population -/

structure PopInv (ps : PSt) (n : Nat) : Prop where
  links : Links ps.tree
  one : OneKind ps.tree
  root : (ps.tree.m (.decl n)).parent = none
  hfresh : ∀ g, ps.hnext ≤ g → NoLoc ps.tree (.handle g)

/-- the tree part of the invariant -/
structure TreeInv (t : St) (n : Nat) (hnext : Nat) : Prop where
  links : Links t
  one : OneKind t
  root : (t.m (.decl n)).parent = none
  hfresh : ∀ g, hnext ≤ g → NoLoc t (.handle g)

theorem PopInv.tree {ps : PSt} {n : Nat} (h : PopInv ps n) : TreeInv ps.tree n ps.hnext :=
  ⟨h.links, h.one, h.root, h.hfresh⟩

/-- `prepare` returns the tree unchanged, with one more (empty) top layer on some map, or with
one handle dropped from the layers of some map -/
theorem prepare_cases (t : St) (m : MId) (key : String) (nest : Bool) (t' : St)
    (hp : prepare t m key nest = some t') :
    t' = t ∨ (nest = true ∧ ∃ p, t' = addLayer t p) ∨
    (nest = false ∧ ∃ h p, Tree.get t m key = some (.handle h) ∧ (t.h h).parent = some p ∧
      t' = dropHandle t p (t.h h).key h) := by
  unfold prepare at hp
  cases nest with
  | true =>
    simp only [if_true] at hp
    cases hg : Tree.get t m key with
    | none => rw [hg] at hp; injection hp with hp; exact Or.inl hp.symm
    | some r =>
      rw [hg] at hp
      cases r with
      | map c =>
        simp only at hp
        cases hpar : (t.m c).parent with
        | none => rw [hpar] at hp; cases hp
        | some p =>
          rw [hpar] at hp
          simp only at hp
          split at hp
          · injection hp with hp; exact Or.inr (Or.inl ⟨rfl, p, hp.symm⟩)
          · injection hp with hp; exact Or.inl hp.symm
      | handle h =>
        simp only at hp
        cases hpar : (t.h h).parent with
        | none => rw [hpar] at hp; cases hp
        | some p =>
          rw [hpar] at hp
          simp only at hp
          split at hp
          · injection hp with hp; exact Or.inr (Or.inl ⟨rfl, p, hp.symm⟩)
          · injection hp with hp; exact Or.inl hp.symm
  | false =>
    simp only [Bool.false_eq_true, if_false] at hp
    cases hg : Tree.get t m key with
    | none => rw [hg] at hp; injection hp with hp; exact Or.inl hp.symm
    | some r =>
      rw [hg] at hp
      cases r with
      | map c => injection hp with hp; exact Or.inl hp.symm
      | handle h =>
        simp only at hp
        cases hpar : (t.h h).parent with
        | none => rw [hpar] at hp; cases hp
        | some p =>
          rw [hpar] at hp
          injection hp with hp
          exact Or.inr (Or.inr ⟨rfl, h, p, rfl, hpar, hp.symm⟩)

theorem prepare_inv (t : St) (n hnext : Nat) (key : String) (nest : Bool) (t' : St)
    (hi : TreeInv t n hnext) (hp : prepare t (.decl n) key nest = some t') :
    TreeInv t' n hnext ∧ t'.next = t.next ∧ (∀ j, (t'.m j).maps = (t.m j).maps) := by
  rcases prepare_cases t _ key nest t' hp with rfl | ⟨_, p, rfl⟩ | ⟨_, h, p, _, _, rfl⟩
  · exact ⟨hi, rfl, fun _ => rfl⟩
  · exact ⟨⟨addLayer_links t p hi.links, addLayer_oneKind t p hi.one,
      by rw [(addLayer_m t p _).2.2.1]; exact hi.root,
      fun g hg => addLayer_noLoc t p _ (hi.hfresh g hg)⟩, addLayer_next t p, fun j => (addLayer_m t p j).1⟩
  · refine ⟨⟨dropHandle_links t p _ h hi.links, dropHandle_oneKind t p _ h hi.one, ?_,
      fun g hg => dropHandle_noLoc t p _ h _ (hi.hfresh g hg)⟩, ?_, fun j => ?_⟩
    · cases hk : (t.h h).key with
      | none => exact hi.root
      | some k => rw [(dropHandle_fields t p k h _).2.1]; exact hi.root
    · cases hk : (t.h h).key with
      | none => rfl
      | some k => simp [dropHandle]
    · cases hk : (t.h h).key with
      | none => rfl
      | some k => exact (dropHandle_fields t p k h j).1

theorem walk_of_maps_eq (st st' : St) (h : ∀ j, (st'.m j).maps = (st.m j).maps) (i : MId)
    (ks : List String) : walk st' i ks = walk st i ks := by
  induction ks generalizing i with
  | nil => rfl
  | cons k ks ih =>
    simp only [walk, h i]
    cases Dict.get? (st.m i).maps k with
    | none => rfl
    | some c => exact ih c

theorem dropLast_append_getLastD (kc : List String) (h : kc ≠ []) :
    kc.dropLast ++ [kc.getLastD ""] = kc := by
  rcases List.eq_nil_or_concat kc with rfl | ⟨init, a, rfl⟩
  · exact absurd rfl h
  · simp

/-- the handle under a key records the map the walk reaches and the last name -/
theorem get_handle_link (t : St) (hl : Links t) (m : MId) (ps0 : List String) (last : String) (h : HId)
    (hg : getPath t m ps0 last = some (.handle h)) :
    ∃ tt, walk t m ps0 = some tt ∧ chainGet? (t.m tt).layers last = some h ∧
      (t.h h).parent = some tt ∧ (t.h h).key = some last := by
  simp only [getPath] at hg
  cases hw : walk t m ps0 with
  | none => rw [hw] at hg; cases hg
  | some tt =>
    rw [hw] at hg
    simp only [lookup] at hg
    cases hc : chainGet? (t.m tt).layers last with
    | none => rw [hc] at hg; simp at hg
    | some g =>
      rw [hc] at hg
      simp only [Option.some.injEq, Ref.handle.injEq] at hg
      subst hg
      obtain ⟨l, h1, h2⟩ := chainGet_some _ _ _ hc
      exact ⟨tt, rfl, hc, hl.handles tt l last g h1 h2⟩

/-- **placing the file of an accepted entry** -/
theorem placeEntry_file (ps : PSt) (n : Nat) (rule : Rule) (nest trim isSelf : Bool) (e : Entry)
    (hi : PopInv ps n) (hacc : accepts rule isSelf e = true) (hf : e.2 = false)
    (hk : KeyOk (entryKey trim e)) (ps' : PSt)
    (hok : placeEntry ps (.decl n) rule nest trim isSelf e = (ps', .ok)) :
    PopInv ps' n ∧ ps'.hnext = ps.hnext + 1 ∧
    ps'.made = { h := ps.hnext, factory := rule.factory, path := e.1, args := rule.args } :: ps.made ∧
    getPath ps'.tree (.decl n) (entryKey trim e).dropLast ((entryKey trim e).getLastD "")
      = some (.handle ps.hnext) ∧
    (∃ t, walk ps'.tree (.decl n) (entryKey trim e).dropLast = some t) ∧
    (∀ j k, (j, k) ∉ walkEntries ps'.tree (.decl n) (entryKey trim e) →
      lookup ps'.tree j k = lookup ps.tree j k) := by
  have hkp := keyPath_of_keyOk _ hk
  simp only [placeEntry, hacc, hf, Bool.not_true, Bool.false_eq_true, if_false] at hok
  cases hp : prepare ps.tree (.decl n) (joinKey (entryKey trim e)) nest with
  | none => rw [hp] at hok; simp at hok
  | some t1 =>
    rw [hp] at hok
    simp only [Prod.mk.injEq, and_true] at hok
    subst hok
    obtain ⟨ti, tnext, tmaps⟩ := prepare_inv ps.tree n ps.hnext _ nest t1 hi.tree hp
    have spec := setItemPath_spec t1 n (entryKey trim e).dropLast ((entryKey trim e).getLastD "")
      (.handle ps.hnext) ti.links ti.one ti.root (ti.hfresh _ (Nat.le_refl _)) (Or.inl rfl) (by simp)
    simp only [setItem, hkp]
    obtain ⟨s1, s2, s3, s4, s5, s6, s7⟩ := spec
    refine ⟨⟨s1, s2, s3, fun g hg => ?_⟩, trivial, trivial, s4, ⟨_, s5⟩, fun j k hjk => ?_⟩
    · refine s7 _ rfl ?_ (ti.hfresh g (Nat.le_of_succ_le hg))
      intro e; simp only [Ref.handle.injEq] at e; subst e; exact Nat.lt_irrefl _ hg
    · rw [dropLast_append_getLastD _ hk.1] at s6
      rw [s6 j k hjk]
      -- what `prepare` changed lies on the path of the key
      rcases prepare_cases _ _ _ nest t1 hp with rfl | ⟨_, p, rfl⟩ | ⟨_, h, p, hget, hpar, rfl⟩
      · rfl
      · exact lookup_addLayer _ _ _ _
      · simp only [Desper.Tree.get, hkp] at hget
        obtain ⟨tt, hw, _, hpp, hkk⟩ := get_handle_link ps.tree hi.links _ _ _ h hget
        rw [hpar] at hpp
        simp only [Option.some.injEq] at hpp
        subst hpp
        rw [hkk]
        refine lookup_dropHandle_other _ _ _ _ _ _ ?_
        intro heq
        apply hjk
        -- the walk after the assignment arrives at the same map
        have hw1 : walk (dropHandle ps.tree p (ps.tree.h h).key h) (.decl n) (entryKey trim e).dropLast
            = some p := by
          rw [walk_of_maps_eq ps.tree _ tmaps]; exact hw
        have hd := (descend_existing _ _ _ _ hw1).1
        rw [hkk] at hd s5
        rw [hd] at s5
        have hmem := walkEntries_snoc _ _ _ _ ((entryKey trim e).getLastD "") s5
        rw [dropLast_append_getLastD _ hk.1] at hmem
        rw [hkk, hmem, heq]
        simp

/-- **placing the directory of an accepted entry** -/
theorem placeEntry_dir (ps : PSt) (n : Nat) (rule : Rule) (nest trim isSelf : Bool) (e : Entry)
    (hi : PopInv ps n) (hd : e.2 = true) (hk : KeyOk (entryKey trim e)) :
    let ps' := (placeEntry ps (.decl n) rule nest trim isSelf e).1
    (placeEntry ps (.decl n) rule nest trim isSelf e).2 = .ok ∧
    PopInv ps' n ∧ ps'.hnext = ps.hnext ∧ ps'.made = ps.made ∧
    (accepts rule isSelf e = true →
      getPath ps'.tree (.decl n) (entryKey trim e).dropLast ((entryKey trim e).getLastD "") ≠ none) ∧
    (∀ j k, (j, k) ∉ walkEntries ps'.tree (.decl n) (entryKey trim e) →
      lookup ps'.tree j k = lookup ps.tree j k) := by
  intro ps'
  have hkp := keyPath_of_keyOk _ hk
  by_cases hacc : accepts rule isSelf e = true
  · by_cases hnone : (Tree.get ps.tree (.decl n) (joinKey (entryKey trim e))).isNone = true
    · have e1 : placeEntry ps (.decl n) rule nest trim isSelf e =
          ((⟨setItem ps.tree.bump (.decl n) (joinKey (entryKey trim e)) (.map (.anon ps.tree.next)),
            ps.hnext, ps.made⟩ : PSt), POutcome.ok) := by
        simp [placeEntry, hacc, hd, hnone]
      have fresh : NoLoc ps.tree.bump (.map (.anon ps.tree.next)) := by
        intro i k hc; exact Nat.lt_irrefl _ (hi.links.alloc i k _ hc)
      have spec := setItemPath_spec ps.tree.bump n (entryKey trim e).dropLast
        ((entryKey trim e).getLastD "") (.map (.anon ps.tree.next)) (bump_links _ hi.links)
        (fun i k h => hi.one i k h) hi.root fresh
        (Or.inr ⟨_, rfl, by simp⟩) (by simp)
      obtain ⟨s1, s2, s3, s4, _, s6, s7⟩ := spec
      simp only [ps', e1, setItem, hkp]
      refine ⟨trivial, ⟨s1, s2, s3, fun g hg => ?_⟩, trivial, trivial, fun _ => by rw [s4]; simp, ?_⟩
      · exact s7 _ rfl (by simp) (noLoc_bump _ _ (hi.hfresh g hg))
      · intro j k hjk
        rw [dropLast_append_getLastD _ hk.1] at s6
        exact s6 j k hjk
    · have e1 : placeEntry ps (.decl n) rule nest trim isSelf e = (ps, .ok) := by
        simp [placeEntry, hacc, hd, hnone]
      simp only [ps', e1]
      refine ⟨trivial, hi, trivial, trivial, fun _ => ?_, fun _ _ _ => trivial⟩
      simp only [Desper.Tree.get, hkp] at hnone
      intro h; rw [h] at hnone; simp at hnone
  · have e1 : placeEntry ps (.decl n) rule nest trim isSelf e = (ps, .ok) := by
      simp [placeEntry, hacc]
    simp only [ps', e1]
    exact ⟨trivial, hi, trivial, trivial, fun h => absurd h hacc, fun _ _ _ => trivial⟩

theorem assign_h_lower (st : St) (t j : MId) (g : HId) (k : String) :
    ((assign st t k (.handle g)).m j).lower = (st.m j).lower ∧
    ((assign st t k (.handle g)).m j).layer0
      = (if j = t then Dict.set (st.m t).layer0 k g else (st.m j).layer0) := by
  have := assign_h_layers st t j g k
  simp only [layers_def] at this
  by_cases e : j = t
  · subst e; simp only [if_true, List.cons.injEq] at this ⊢; exact ⟨this.2, this.1⟩
  · simp only [e, if_false, List.cons.injEq] at this ⊢; exact ⟨this.2, this.1⟩

/-- **a key that is already taken by a handle** -/
theorem placeEntry_conflict (ps : PSt) (n : Nat) (rule : Rule) (nest trim isSelf : Bool) (e : Entry)
    (hi : PopInv ps n) (hacc : accepts rule isSelf e = true) (hf : e.2 = false)
    (hk : KeyOk (entryKey trim e)) (h : HId)
    (hget : getPath ps.tree (.decl n) (entryKey trim e).dropLast ((entryKey trim e).getLastD "")
      = some (.handle h)) :
    ∃ ps' tt, placeEntry ps (.decl n) rule nest trim isSelf e = (ps', .ok) ∧
      walk ps.tree (.decl n) (entryKey trim e).dropLast = some tt ∧
      walk ps'.tree (.decl n) (entryKey trim e).dropLast = some tt ∧
      h ≠ ps.hnext ∧
      (nest = true → ∃ l ∈ (ps'.tree.m tt).lower, Dict.get? l ((entryKey trim e).getLastD "") = some h) ∧
      (nest = false → ∀ l ∈ (ps'.tree.m tt).layers, Dict.get? l ((entryKey trim e).getLastD "") ≠ some h) := by
  have hkp := keyPath_of_keyOk _ hk
  obtain ⟨tt, hw, hcg, hpar, hkey⟩ := get_handle_link ps.tree hi.links _ _ _ h hget
  have hget' : Tree.get ps.tree (.decl n) (joinKey (entryKey trim e)) = some (.handle h) := by
    simp only [Desper.Tree.get, hkp]; exact hget
  -- the older handle is not the one about to be created
  have hne : h ≠ ps.hnext := by
    intro e'
    obtain ⟨l, h1, h2⟩ := chainGet_some _ _ _ hcg
    exact hi.hfresh ps.hnext (Nat.le_refl _) tt l _ h1 (e' ▸ h2)
  -- what `prepare` returns
  have prep : ∃ t1, prepare ps.tree (.decl n) (joinKey (entryKey trim e)) nest = some t1 ∧
      (∀ j, (t1.m j).maps = (ps.tree.m j).maps) ∧
      (nest = true → ∃ l ∈ (t1.m tt).lower, Dict.get? l ((entryKey trim e).getLastD "") = some h) ∧
      (nest = false → ∀ l ∈ (t1.m tt).layers, Dict.get? l ((entryKey trim e).getLastD "") ≠ some h) := by
    cases nest with
    | true =>
      simp only [prepare, if_true, hget', hpar, hkey, Option.bind_some]
      by_cases hc : Dict.get? (ps.tree.m tt).layer0 ((entryKey trim e).getLastD "") = some h
      · have hcond : Option.map Ref.handle (Dict.get? (ps.tree.m tt).layer0 ((entryKey trim e).getLastD ""))
            = some (Ref.handle h) := by rw [hc]; rfl
        refine ⟨addLayer ps.tree tt, by rw [if_pos hcond], fun j => (addLayer_m _ _ j).1, fun _ => ?_,
          fun x => by simp at x⟩
        have := (addLayer_m ps.tree tt tt).2.1
        simp only [if_true, layers_def, List.cons.injEq] at this
        exact ⟨(ps.tree.m tt).layer0, by rw [this.2]; exact List.mem_cons_self, hc⟩
      · have hcond : ¬ Option.map Ref.handle (Dict.get? (ps.tree.m tt).layer0 ((entryKey trim e).getLastD ""))
            = some (Ref.handle h) := by
          intro x
          simp only [Option.map_eq_some_iff, Ref.handle.injEq] at x
          obtain ⟨a, ha, rfl⟩ := x
          exact hc ha
        refine ⟨ps.tree, by rw [if_neg hcond], fun _ => rfl, fun _ => ?_, fun x => by simp at x⟩
        rw [layers_def, chainGet_cons] at hcg
        cases hl0 : Dict.get? (ps.tree.m tt).layer0 ((entryKey trim e).getLastD "") with
        | some h' => rw [hl0] at hcg; simp only [Option.some.injEq] at hcg; subst hcg; exact absurd hl0 hc
        | none => rw [hl0] at hcg; exact chainGet_some _ _ _ hcg
    | false =>
      simp only [prepare, Bool.false_eq_true, if_false, hget', hpar, hkey]
      refine ⟨_, rfl, fun j => (dropHandle_fields _ _ _ _ j).1, fun x => by simp at x, fun _ l hl hg => ?_⟩
      obtain ⟨_, _, _, hno⟩ := dropHandle_mem _ _ _ _ _ _ _ l hl hg
      exact hno ⟨rfl, rfl, rfl⟩
  obtain ⟨t1, hp, tmaps, pn, pf⟩ := prep
  have hok : placeEntry ps (.decl n) rule nest trim isSelf e =
      ((⟨setItem t1 (.decl n) (joinKey (entryKey trim e)) (.handle ps.hnext), ps.hnext + 1,
        { h := ps.hnext, factory := rule.factory, path := e.1, args := rule.args } :: ps.made⟩ : PSt),
        POutcome.ok) := by
    simp [placeEntry, hacc, hf, hp]
  refine ⟨_, tt, hok, hw, ?_, hne, ?_, ?_⟩
  all_goals simp only [setItem, hkp, setItemPath]
  · -- the assignment is at tt: the walk still arrives there
    obtain ⟨ti, _, _⟩ := prepare_inv ps.tree n ps.hnext _ nest t1 hi.tree hp
    have spec := setItemPath_spec t1 n (entryKey trim e).dropLast ((entryKey trim e).getLastD "")
      (.handle ps.hnext) ti.links ti.one ti.root (ti.hfresh _ (Nat.le_refl _)) (Or.inl rfl) (by simp)
    have hw1 : walk t1 (.decl n) (entryKey trim e).dropLast = some tt := by
      rw [walk_of_maps_eq ps.tree t1 tmaps]; exact hw
    have := spec.2.2.2.2.1
    rw [(descend_existing _ _ _ _ hw1).1] at this
    exact this
  · intro hn
    have hw1 : walk t1 (.decl n) (entryKey trim e).dropLast = some tt := by
      rw [walk_of_maps_eq ps.tree t1 tmaps]; exact hw
    obtain ⟨d1, _, _, d4⟩ := descend_existing _ _ _ _ hw1
    obtain ⟨l, hl, hg⟩ := pn hn
    refine ⟨l, ?_, hg⟩
    rw [(assign_h_lower _ _ _ _ _).1, (d4 tt).2.1]; exact hl
  · intro hn l hl hg
    have hw1 : walk t1 (.decl n) (entryKey trim e).dropLast = some tt := by
      rw [walk_of_maps_eq ps.tree t1 tmaps]; exact hw
    obtain ⟨d1, _, _, d4⟩ := descend_existing _ _ _ _ hw1
    rw [layers_def, (assign_h_lower _ _ _ _ _).1, (assign_h_lower _ _ _ _ _).2, d1] at hl
    simp only [if_true, List.mem_cons] at hl
    rcases hl with rfl | hl
    · rw [dget_set] at hg
      simp only [if_true, Option.some.injEq] at hg
      exact hne hg.symm
    · rw [(d4 tt).2.1] at hl
      exact pf hn l (by rw [layers_def]; exact List.mem_cons_of_mem _ hl) hg

/-! ### names -/

theorem splitextC_stem_subset (name : List Char) : ∀ c ∈ (splitextC name).1, c ∈ name := by
  intro c hc
  unfold splitextC at hc
  simp only at hc
  split at hc
  · exact hc
  · rename_i d stemRev hd
    split at hc
    · have h1 : c ∈ stemRev := by simpa using hc
      have h2 : c ∈ d :: stemRev := List.mem_cons_of_mem _ h1
      rw [← hd] at h2
      have := (List.dropWhile_sublist (fun x => x ≠ '.')).subset h2
      simpa using this
    · exact hc

theorem noSlash_stem (name : String) (h : NoSlash name) : NoSlash (splitext name).1 := by
  unfold NoSlash at *
  intro hm
  simp only [splitext, String.toList_ofList] at hm
  exact h (splitextC_stem_subset _ _ hm)

/-- no component of the entry's path contains a '/' (file names cannot) -/
def NamesOk (e : Entry) : Prop := ∀ c ∈ e.1, NoSlash c

theorem noSlash_dot : NoSlash "." := by unfold NoSlash; decide

theorem keyOk_entryKey (trim : Bool) (e : Entry) (h : NamesOk e) : KeyOk (entryKey trim e) := by
  have hk : KeyOk (keyComps e.1) := by
    unfold keyComps
    split
    · exact ⟨by simp, by intro c hc; simp at hc; subst hc; exact noSlash_dot⟩
    · rename_i hne
      exact ⟨by intro x; simp [x] at hne, h⟩
  unfold entryKey
  simp only []
  split
  · refine ⟨by simp, ?_⟩
    intro c hc
    simp only [List.mem_append, List.mem_singleton] at hc
    rcases hc with hc | rfl
    · exact hk.2 c (List.dropLast_subset _ hc)
    · refine noSlash_stem _ ?_
      rcases List.eq_nil_or_concat (keyComps e.1) with h0 | ⟨init, a, h0⟩
      · exact absurd h0 hk.1
      · have ha : NoSlash a := hk.2 a (by rw [h0]; simp)
        rw [h0]
        simpa using ha
  · exact hk

/-! ### whole listings, whole populations -/

theorem placeEntry_inv (ps : PSt) (n : Nat) (rule : Rule) (nest trim isSelf : Bool) (e : Entry)
    (hi : PopInv ps n) (hk : NamesOk e) (ps' : PSt)
    (hok : placeEntry ps (.decl n) rule nest trim isSelf e = (ps', .ok)) : PopInv ps' n := by
  have hko := keyOk_entryKey trim e hk
  cases hd : e.2 with
  | true =>
    have := placeEntry_dir ps n rule nest trim isSelf e hi hd hko
    simp only [hok] at this
    exact this.2.1
  | false =>
    by_cases hacc : accepts rule isSelf e = true
    · exact (placeEntry_file ps n rule nest trim isSelf e hi hacc hd hko ps' hok).1
    · have : placeEntry ps (.decl n) rule nest trim isSelf e = (ps, .ok) := by simp [placeEntry, hacc]
      rw [this] at hok
      simp only [Prod.mk.injEq, and_true] at hok
      subst hok; exact hi

/-- the handles an entry makes the factory build: one for an accepted file, none otherwise -/
def madeBy (rule : Rule) (isSelf : Bool) (e : Entry) (g : HId) : List Made :=
  if accepts rule isSelf e && !e.2 then
    [{ h := g, factory := rule.factory, path := e.1, args := rule.args }] else []

theorem placeEntry_made (ps : PSt) (m : MId) (rule : Rule) (nest trim isSelf : Bool) (e : Entry) :
    (placeEntry ps m rule nest trim isSelf e).1.made = madeBy rule isSelf e ps.hnext ++ ps.made ∧
    (placeEntry ps m rule nest trim isSelf e).1.hnext = ps.hnext + (madeBy rule isSelf e ps.hnext).length := by
  unfold placeEntry madeBy
  by_cases hacc : accepts rule isSelf e = true
  · cases hd : e.2 with
    | true =>
      simp only [hacc, Bool.not_true, Bool.false_eq_true, if_false, if_true, Bool.and_false]
      split <;> simp
    | false =>
      simp only [hacc, Bool.not_true, Bool.false_eq_true, if_false, Bool.not_false, Bool.and_true, if_true]
      split <;> simp
  · simp [hacc]

/-- the accepted files of a listing, with the handle each one gets (numbered from `g`) -/
def madeByAll (rule : Rule) : Bool → List Entry → HId → List Made
  | _, [], _ => []
  | isSelf, e :: rest, g =>
    madeByAll rule false rest (g + (madeBy rule isSelf e g).length) ++ madeBy rule isSelf e g

theorem placeAll_made (ps : PSt) (m : MId) (rule : Rule) (nest trim isSelf : Bool) (l : List Entry)
    (ps' : PSt) (hok : placeAll ps m rule nest trim isSelf l = (ps', .ok)) :
    ps'.made = madeByAll rule isSelf l ps.hnext ++ ps.made := by
  induction l generalizing ps isSelf with
  | nil => simp only [placeAll, Prod.mk.injEq, and_true] at hok; subst hok; simp [madeByAll]
  | cons e l ih =>
    simp only [placeAll] at hok
    obtain ⟨m1, m2⟩ := placeEntry_made ps m rule nest trim isSelf e
    rcases hp : placeEntry ps m rule nest trim isSelf e with ⟨ps1, o⟩
    rw [hp] at hok m1 m2
    cases o with
    | ok =>
      simp only at hok m1 m2
      rw [ih ps1 false hok, m1, m2, madeByAll]
      simp
    | raised x => simp only [Prod.mk.injEq] at hok; cases hok.2

theorem placeAll_inv (ps : PSt) (n : Nat) (rule : Rule) (nest trim isSelf : Bool) (l : List Entry)
    (hi : PopInv ps n) (hk : ∀ e ∈ l, NamesOk e) (ps' : PSt)
    (hok : placeAll ps (.decl n) rule nest trim isSelf l = (ps', .ok)) : PopInv ps' n := by
  induction l generalizing ps isSelf with
  | nil => simp only [placeAll, Prod.mk.injEq, and_true] at hok; subst hok; exact hi
  | cons e l ih =>
    simp only [placeAll] at hok
    rcases hp : placeEntry ps (.decl n) rule nest trim isSelf e with ⟨ps1, o⟩
    rw [hp] at hok
    cases o with
    | ok =>
      exact ih ps1 false (placeEntry_inv ps n rule nest trim isSelf e hi (hk e (by simp)) ps1 hp)
        (fun x hx => hk x (by simp [hx])) hok
    | raised x => simp only [Prod.mk.injEq] at hok; cases hok.2

theorem populate_append (ps : PSt) (m : MId) (nest trim : Bool) (a b : List (Rule × Status)) :
    populate ps m nest trim (a ++ b) =
      match populate ps m nest trim a with
      | (ps', .ok) => populate ps' m nest trim b
      | r => r := by
  induction a generalizing ps with
  | nil => simp [populate]
  | cons rs a ih =>
    obtain ⟨rule, status⟩ := rs
    cases status with
    | missing => simp only [List.cons_append, populate]; exact ih ps
    | notDir => simp [populate]
    | dir listing =>
      simp only [List.cons_append, populate]
      rcases placeAll ps m rule nest trim true listing with ⟨ps1, o⟩
      cases o with
      | ok => exact ih ps1
      | raised x => rfl

/-- the invariant holds for a population that starts on an empty map, whatever the handle counter -/
theorem PopInv_init (n hnext : Nat) : PopInv { hnext := hnext } n :=
  ⟨Links_init, OneKind_init, rfl, fun g _ i l k hl => by
    simp [MapNode.layers] at hl; subst hl; simp⟩

end Desper.Pop
