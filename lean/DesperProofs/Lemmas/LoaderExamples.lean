import DesperModel.Loader
import DesperProofs.Lemmas.LoaderLoad
/-
  A concrete universe and description used by the non-vacuity examples of Props/C15.lean.
-/
namespace Desper.Loader

/-- a program with a processor class 2 (`on_add` → `padd`, priority -1), a component class 3
(`on_add` → `cadd`, `on_world_load` → `wl`), a plain component class 4, an object `m.o`, a string
`m.s` that looks like a resource reference, and a resource tree with a handle 5 at `a/r` -/
def exU : Universe where
  resolve := fun n =>
    if n = "m.P".toList then .ok (.cls 2)
    else if n = "m.K".toList then .ok (.cls 3)
    else if n = "m.C".toList then .ok (.cls 4)
    else if n = "m.o".toList then .ok (.obj 7)
    else if n = "m.s".toList then .ok (.json (.str "$res{a.r}".toList))
    else .error "AttributeError"
  getItem := fun p => if p = "a/r".toList then .ok (.loaded 5 1) else .error "KeyError"
  getHandle := fun p => if p = "a/r".toList then .handle 5 else .json .null
  inTree := true
  userInfo := fun c =>
    if c = 2 then some { isProc := true, events := some [(onAdd, "padd".toList)], priority := -1 }
    else if c = 3 then
      some { isProc := false, events := some [(onAdd, "cadd".toList), (onWorldLoad, "wl".toList)],
             priority := 0 }
    else if c = 4 then some { isProc := false, events := none, priority := 0 }
    else none

def exStr (s : String) : Val := .json (.str s.toList)

/-- one processor, an entity without identifier (two components) and an entity `"foo"` -/
def exDesc : Desc where
  processors := [⟨0, exStr "m.P", [.json (.int 5)], []⟩]
  entities := [
    (none, [⟨1, exStr "m.K", [exStr "${m.o}", exStr "$res{a.r}", exStr "x y", .json (.list [.str "${m.o}".toList])],
              [("z".toList, exStr "$handle{a.r}")]⟩,
            ⟨2, exStr "m.C", [], []⟩]),
    (some (.str "foo".toList), [⟨3, exStr "m.K", [], []⟩])]

def exTd : Desc where
  processors := [⟨0, .cls 2, [.json (.int 5)], []⟩]
  entities := [
    (none, [⟨1, .cls 3, [.obj 7, .loaded 5 1, exStr "x y", .json (.list [.str "${m.o}".toList])],
              [("z".toList, .handle 5)]⟩,
            ⟨2, .cls 4, [], []⟩]),
    (some (.str "foo".toList), [⟨3, .cls 3, [], []⟩])]

end Desper.Loader
