import DesperProofs.Lemmas.WorldInv
/-
  helper lemmas for the query theorems of C01
-/
namespace Desper.World
open Desper

/-- number of keys `≥ n` -/
private def cnt (keys : List Nat) (n : Nat) : Nat := (keys.filter (fun k => decide (n ≤ k))).length

private theorem cnt_succ_le (keys : List Nat) (n : Nat) : cnt keys (n + 1) ≤ cnt keys n := by
  induction keys with
  | nil => simp [cnt]
  | cons a l ih =>
    simp only [cnt, List.filter_cons] at ih ⊢
    by_cases h1 : n + 1 ≤ a
    · have h2 : n ≤ a := by omega
      simp only [h1, h2, decide_true, if_true, List.length_cons]; omega
    · by_cases h2 : n ≤ a
      · simp only [h1, h2, decide_true, decide_false, if_true, List.length_cons]
        simp; omega
      · simp only [h1, h2, decide_false]; simpa using ih

private theorem cnt_succ_lt (keys : List Nat) (n : Nat) (h : n ∈ keys) : cnt keys (n + 1) < cnt keys n := by
  induction keys with
  | nil => simp at h
  | cons a l ih =>
    simp only [List.mem_cons] at h
    have hle := cnt_succ_le l n
    simp only [cnt, List.filter_cons] at ih hle ⊢
    rcases h with rfl | hm
    · have h1 : ¬ n + 1 ≤ n := by omega
      simp only [h1, decide_false, Nat.le_refl, decide_true, if_true, List.length_cons]
      simp; omega
    · have := ih hm
      by_cases h1 : n + 1 ≤ a
      · have h2 : n ≤ a := by omega
        simp only [h1, h2, decide_true, if_true, List.length_cons]; omega
      · by_cases h2 : n ≤ a
        · simp only [h1, h2, decide_true, decide_false, if_true, List.length_cons]
          simp; omega
        · simp only [h1, h2, decide_false]; simpa using this

/-- the id generator loop of `create_entity` stops at an identifier that is not in use -/
theorem freshFrom_not_mem (keys : List Nat) (fuel n : Nat)
    (h : (keys.filter (fun k => decide (n ≤ k))).length < fuel) : freshFrom keys fuel n ∉ keys := by
  induction fuel generalizing n with
  | zero => omega
  | succ fuel ih =>
    simp only [freshFrom]
    split
    · rename_i hc
      have hmem : n ∈ keys := by simpa using hc
      apply ih (n + 1)
      have := cnt_succ_lt keys n hmem
      simp only [cnt] at this
      omega
    · rename_i hc
      simpa using hc

theorem mem_dedup (l : List Ty) (x : Ty) : x ∈ dedup l ↔ x ∈ l := by
  induction l with
  | nil => simp [dedup]
  | cons a l ih =>
    simp only [dedup, List.mem_cons, List.mem_filter, ih]
    by_cases h : x = a <;> simp [h]

theorem nodup_dedup (l : List Ty) : (dedup l).Nodup := by
  induction l with
  | nil => simp [dedup]
  | cons a l ih =>
    simp only [dedup, List.nodup_cons, List.mem_filter, not_and]
    refine ⟨fun _ => by simp, ih.sublist List.filter_sublist⟩


end Desper.World
