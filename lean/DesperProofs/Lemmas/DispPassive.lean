import DesperProofs.Lemmas.DispProps
namespace Desper.Disp
open Desper

/-- callbacks that do nothing (the listeners of C03's "calls nothing else", C20's listeners) -/
def Passive (U : Universe) : Prop := ∀ o m k, U.reaction o m k = []

/-- the log entry of a delivery: receiver, the function its class resolves the mapped method name to, arguments -/
def cbEntry (U : Universe) (args : String) (p : Obj × String) : Entry := .cb (some p.1) (U.impl p.1 p.2) args

/-- states that differ only in log, hints and call counters -/
structure SameCore (s s' : St) : Prop where
  events : s'.events = s.events
  handlers : s'.handlers = s.handlers
  enabled : s'.enabled = s.enabled
  queue : s'.queue = s.queue
  held : s'.held = s.held
  pinned : s'.pinned = s.pinned
  dying : s'.dying = s.dying
  enqueued : s'.enqueued = s.enqueued
  released : s'.released = s.released

theorem SameCore.refl (s : St) : SameCore s s := ⟨rfl, rfl, rfl, rfl, rfl, rfl, rfl, rfl, rfl⟩

theorem SameCore.trans {a b c : St} (h1 : SameCore a b) (h2 : SameCore b c) : SameCore a c :=
  ⟨h2.events.trans h1.events, h2.handlers.trans h1.handlers, h2.enabled.trans h1.enabled,
   h2.queue.trans h1.queue, h2.held.trans h1.held, h2.pinned.trans h1.pinned,
   h2.dying.trans h1.dying, h2.enqueued.trans h1.enqueued, h2.released.trans h1.released⟩

theorem SameCore.alive {s s' : St} (h : SameCore s s') (r : Obj) : s'.alive r = s.alive r := by
  simp [St.alive, h.held, h.pinned]

theorem deliver_passive {U : Universe} (hp : Passive U) (fuel : Nat) (s : St)
    (rem : List (Obj × String)) (args : String) (hdy : s.dying = [])
    (hok : (deliver U fuel s rem args).2 = .ok) :
    ∃ called : List (Obj × String),
      (deliver U fuel s rem args).1.log = (called.map (cbEntry U args)).reverse ++ s.log ∧
      called.Nodup ∧ (∀ p, p ∈ called ↔ p ∈ rem ∧ s.alive p.1 = true) ∧
      SameCore s (deliver U fuel s rem args).1 := by
  induction fuel generalizing s rem with
  | zero => simp [deliver] at hok
  | succ fuel ih =>
    rw [deliver] at hok ⊢
    by_cases hl : (rem.filter (fun p => s.alive p.1)).isEmpty = true
    · simp only [hl, if_true]
      refine ⟨[], by simp, by simp, ?_, SameCore.refl s⟩
      intro p
      simp only [List.not_mem_nil, false_iff, not_and]
      intro hm ha
      have : p ∈ rem.filter (fun p => s.alive p.1) := List.mem_filter.mpr ⟨hm, ha⟩
      simp only [List.isEmpty_iff] at hl
      rw [hl] at this; simp at this
    · simp only [hl, Bool.false_eq_true, if_false] at hok ⊢
      cases hh : s.hints with
      | nil => simp [hh] at hok
      | cons h hs =>
        simp only [hh] at hok ⊢
        cases hf : (rem.filter (fun p => s.alive p.1)).find? (fun p => p.1 = h) with
        | none => simp [hf] at hok
        | some rm =>
          obtain ⟨r, m⟩ := rm
          simp only [hf] at hok ⊢
          have hmem : (r, m) ∈ rem.filter (fun p => s.alive p.1) := List.mem_of_find?_eq_some hf
          obtain ⟨hmrem, hal⟩ := List.mem_filter.mp hmem
          simp only at hal
          rw [hp r m] at hok ⊢
          cases fuel with
          | zero => simp [execOps] at hok
          | succ fuel' =>
            simp only [execOps] at hok ⊢
            -- the state after the (empty) callback returned
            have hun : ∀ (st : St), st.pinned = r :: s.pinned → st.dying = [] →
                unpin st r = { st with pinned := s.pinned } := by
              intro st h1 h2
              simp [unpin, h1, h2]
            have hun' := hun { s with hints := hs, calls := Dict.set s.calls (r, m) ((Dict.get? s.calls (r, m)).getD 0 + 1), pinned := r :: s.pinned, log := Entry.cb (some r) (U.impl r m) args :: s.log } rfl hdy
            rw [hun'] at hok ⊢
            obtain ⟨called, hlog, hnd, hmemc, hsame⟩ := ih
              { s with hints := hs, calls := Dict.set s.calls (r, m) ((Dict.get? s.calls (r, m)).getD 0 + 1),
                       pinned := s.pinned, log := Entry.cb (some r) (U.impl r m) args :: s.log }
              (rem.filter (· ≠ (r, m))) hdy hok
            refine ⟨(r, m) :: called, ?_, ?_, ?_, ?_⟩
            · rw [hlog]; simp [cbEntry]
            · refine List.nodup_cons.mpr ⟨?_, hnd⟩
              intro hc
              have := (hmemc (r, m)).mp hc
              simp at this
            · intro p
              simp only [List.mem_cons, hmemc, List.mem_filter]
              have hal' : ∀ x, St.alive { s with hints := hs, calls := Dict.set s.calls (r, m) ((Dict.get? s.calls (r, m)).getD 0 + 1), pinned := s.pinned, log := Entry.cb (some r) (U.impl r m) args :: s.log } x = s.alive x := by
                intro x; simp [St.alive]
              rw [hal']
              constructor
              · rintro (e | ⟨⟨h1, _⟩, h2⟩)
                · subst e; exact ⟨hmrem, hal⟩
                · exact ⟨h1, h2⟩
              · rintro ⟨h1, h2⟩
                by_cases e : p = (r, m)
                · exact .inl e
                · exact .inr ⟨⟨h1, by simpa using e⟩, h2⟩
            · exact ⟨hsame.events, hsame.handlers, hsame.enabled, hsame.queue, hsame.held, hsame.pinned,
                hsame.dying, hsame.enqueued, hsame.released⟩

end Desper.Disp

namespace Desper.Disp
open Desper

/-- element-wise relation between two lists of the same length -/
inductive Forall2 {α β : Type} (R : α → β → Prop) : List α → List β → Prop
  | nil : Forall2 R [] []
  | cons {a b l₁ l₂} : R a b → Forall2 R l₁ l₂ → Forall2 R (a :: l₁) (b :: l₂)

theorem Forall2.imp {α β : Type} {R S : α → β → Prop} (h : ∀ a b, R a b → S a b)
    {l₁ : List α} {l₂ : List β} (f : Forall2 R l₁ l₂) : Forall2 S l₁ l₂ := by
  induction f with
  | nil => exact .nil
  | cons hab _ ih => exact .cons (h _ _ hab) ih

/-- what "delivered exactly once to each live registered listener" means for one event -/
def DeliveredOnce (s : St) (ev : String) (called : List (Obj × String)) : Prop :=
  called.Nodup ∧ ∀ p, p ∈ called ↔ p ∈ evl s ev ∧ s.alive p.1 = true

theorem dispatch_passive {U : Universe} (hp : Passive U) (fuel : Nat) (s : St) (ev args : String)
    (hdy : s.dying = []) (hen : s.enabled = true)
    (hok : (execOp U fuel s (.dispatch ev args)).2 = .ok) :
    ∃ called, (execOp U fuel s (.dispatch ev args)).1.log = (called.map (cbEntry U args)).reverse ++ s.log ∧
      DeliveredOnce s ev called ∧ SameCore s (execOp U fuel s (.dispatch ev args)).1 := by
  cases fuel with
  | zero => simp [execOp] at hok
  | succ fuel =>
    rw [execOp] at hok ⊢
    cases hg : Dict.get? s.events ev with
    | none =>
      simp only [hg]
      refine ⟨[], by simp, ⟨by simp, ?_⟩, SameCore.refl s⟩
      intro p; simp [evl, hg]
    | some l =>
      simp only [hg, hen, Bool.not_true, Bool.false_eq_true, if_false] at hok ⊢
      obtain ⟨called, h1, h2, h3, h4⟩ := deliver_passive hp fuel s l args hdy hok
      refine ⟨called, h1, ⟨h2, ?_⟩, h4⟩
      intro p; rw [h3]; simp [evl, hg]

theorem release_passive {U : Universe} (hp : Passive U) (fuel : Nat) (s : St)
    (hdy : s.dying = []) (hen : s.enabled = true) (hok : (release U fuel s).2 = .ok) :
    ∃ lists : List (List (Obj × String)),
      Forall2 (fun e c => DeliveredOnce s e.1 c) s.queue lists ∧
      (release U fuel s).1.log =
        ((List.zipWith (fun e c => c.map (cbEntry U e.2)) s.queue lists).flatten).reverse ++ s.log ∧
      (release U fuel s).1.queue = [] ∧
      (release U fuel s).1.released = s.released ++ s.queue := by
  induction fuel generalizing s with
  | zero => simp [release] at hok
  | succ fuel ih =>
    rw [release] at hok ⊢
    cases hq : s.queue with
    | nil =>
      simp only [hq]
      exact ⟨[], .nil, by simp, by simp⟩
    | cons e q =>
      obtain ⟨ev, args⟩ := e
      simp only [hq] at hok ⊢
      have key := dispatch_passive hp fuel { s with queue := q, released := s.released ++ [(ev, args)] }
        ev args hdy hen
      generalize execOp U fuel { s with queue := q, released := s.released ++ [(ev, args)] }
          (.dispatch ev args) = res at key hok ⊢
      simp only [hen, Bool.not_true, Bool.false_eq_true, if_false] at hok ⊢
      obtain ⟨s', o⟩ := res
      cases o with
      | ok =>
        simp only at hok ⊢
        obtain ⟨called, h1, h2, h3⟩ := key rfl
        have hdy' : s'.dying = [] := by rw [h3.dying]; exact hdy
        have hen' : s'.enabled = true := by rw [h3.enabled]; exact hen
        obtain ⟨lists, f, l2, l3, l4⟩ := ih s' hdy' hen' hok
        have hq' : s'.queue = q := h3.queue
        have hev : ∀ ev', evl s' ev' = evl s ev' := by
          intro ev'
          have : s'.events = s.events := h3.events
          simp only [evl, this]
        have hal : ∀ x, s'.alive x = s.alive x := by
          intro x; rw [h3.alive]; simp [St.alive]
        refine ⟨called :: lists, ?_, ?_, l3, ?_⟩
        · refine .cons ?_ ?_
          · obtain ⟨a, b⟩ := h2
            refine ⟨a, ?_⟩
            intro p; rw [b]; simp [evl, St.alive]
          · rw [hq'] at f
            refine Forall2.imp ?_ f
            intro a b hab
            obtain ⟨x, y⟩ := hab
            refine ⟨x, ?_⟩
            intro p; rw [y, hev, hal]
        · rw [l2, hq', h1]
          simp
        · rw [l4, hq', h3.released]; simp
      | raised e => simp at hok
      | outOfFuel => simp at hok
      | badHint => simp at hok

end Desper.Disp
