import DesperProofs.Lemmas.LoopRun
/-
  Exact characterisations: which actions return normally, what `switch()` leaves behind when its
  on_switch_out callback returns normally, what the loop does when it serves the request.
-/
namespace Desper.Loop

/-- the state right after a delivery has been logged -/
abbrev logEv (s : St) (i : Inst) (e : Ev) (a : Args) : St :=
  { s with delivered := s.delivered + 1, log := .ev i e a :: s.log }

theorem quitWith_ne_ok (U : Universe) (k : St → Act → St × Outcome) (s : St) (i : Inst) :
    (quitWith U k s i).2 ≠ .ok := by
  unfold quitWith
  cases h : dispatchWith U k s i .quit .unit with
  | mk s1 o1 => cases o1 <;> simp

theorem switchIn_ne_ok (U : Universe) (k : St → Act → St × Outcome) (s : St) (frm : Option Inst)
    (to : Inst) (h : Handle) (cc : Bool) : (switchIn U k s frm to h cc).2 ≠ .ok := by
  unfold switchIn
  cases hd : disable s to with
  | mk s4 o4 =>
    cases o4 with
    | ok =>
      simp only
      cases hdw : dispatchWith U k s4 to .switchIn (.worlds frm to) with
      | mk s5 o5 => cases o5 <;> simp
    | raised x => simp
    | outOfFuel => simp

theorem doSwitch_ne_ok (U : Universe) (k : St → Act → St × Outcome) (s : St) (h : Handle)
    (cc cn : Bool) : (doSwitch U k s h cc cn).2 ≠ .ok := by
  unfold doSwitch
  simp only
  cases ho : switchOut U k _ s.current _ with
  | mk s3 o3 =>
    cases o3 with
    | ok => exact switchIn_ne_ok _ _ _ _ _ _ _
    | raised x => simp
    | outOfFuel => simp

/-- only the empty action returns normally -/
theorem act_ok (U : Universe) {fuel : Nat} {s s' : St} {a : Act}
    (h : act U fuel s a = (s', .ok)) : a = .none ∧ s' = s := by
  cases fuel with
  | zero => simp [act] at h
  | succ fuel =>
    cases a with
    | none => simp only [act, Prod.mk.injEq] at h; exact ⟨rfl, h.1.symm⟩
    | raiseQuit => simp [act] at h
    | raiseOther => simp [act] at h
    | raiseSwitch h' cc cn => simp [act] at h
    | quit =>
      simp only [act] at h
      split at h
      · simp at h
      · exact absurd (congrArg Prod.snd h) (quitWith_ne_ok _ _ _ _)
    | quitTo h' =>
      simp only [act] at h
      exact absurd (congrArg Prod.snd h) (quitWith_ne_ok _ _ _ _)
    | switch h' cc cn =>
      simp only [act] at h
      exact absurd (congrArg Prod.snd h) (doSwitch_ne_ok _ _ _ _ _ _)

theorem act_none (U : Universe) (fuel : Nat) (s : St) : act U (fuel + 1) s .none = (s, .ok) := by
  simp [act]

/-- a dispatch in a muted world holds the event -/
theorem dispatchWith_muted (U : Universe) (k : St → Act → St × Outcome) {s : St} {i : Inst}
    {w : World} (e : Ev) (a : Args) (hw : s.worlds i = some w) (hen : w.enabled = false) :
    dispatchWith U k s i e a = (setWorld s i { w with queue := w.queue ++ [(e, a)] }, .ok) := by
  simp [dispatchWith, hw, hen]

/-- a dispatch in an enabled world logs the delivery and runs the reaction -/
theorem dispatchWith_enabled (U : Universe) (k : St → Act → St × Outcome) {s : St} {i : Inst}
    {w : World} (e : Ev) (a : Args) (hw : s.worlds i = some w) (hen : w.enabled = true) :
    dispatchWith U k s i e a =
      k { s with delivered := s.delivered + 1, log := .ev i e a :: s.log } (U.react s.delivered) := by
  simp [dispatchWith, hw, hen]

/-- a dispatch returns normally only if the event was held or the callback did nothing -/
theorem dispatch_ok (U : Universe) {fuel : Nat} {s s' : St} {i : Inst} {e : Ev} {a : Args}
    (h : dispatch U fuel s i e a = (s', .ok)) :
    ∃ w, s.worlds i = some w ∧
      ((w.enabled = false ∧ s' = setWorld s i { w with queue := w.queue ++ [(e, a)] }) ∨
       (w.enabled = true ∧ U.react s.delivered = .none ∧
        s' = { s with delivered := s.delivered + 1, log := .ev i e a :: s.log })) := by
  unfold dispatch dispatchWith at h
  split at h
  · simp at h
  · rename_i w hw
    refine ⟨w, hw, ?_⟩
    split at h
    · rename_i hen
      simp only [Prod.mk.injEq, and_true] at h
      exact Or.inl ⟨by simpa using hen, h.symm⟩
    · rename_i hen
      obtain ⟨ha, hs⟩ := act_ok U h
      exact Or.inr ⟨by simpa using hen, ha, hs⟩

theorem upd_upd {α β : Type} [DecidableEq α] (f : α → β) (a : α) (b c : β) :
    upd (upd f a b) a c = upd f a c := by
  funext x; by_cases h : x = a <;> simp [upd, h]

theorem setWorld_setWorld (s : St) (i : Inst) (w w' : World) :
    setWorld (setWorld s i w) i w' = setWorld s i w' := by
  simp [setWorld, upd_upd]

/-- the second half of `switch()`: the target is muted and holds on_switch_in -/
theorem switchIn_muting (U : Universe) (k : St → Act → St × Outcome) {s : St} {to : Inst}
    {w : World} (frm : Option Inst) (h : Handle) (cc : Bool) (hw : s.worlds to = some w) :
    switchIn U k s frm to h cc =
      (setWorld s to ⟨false, w.queue ++ [(.switchIn, .worlds frm to)], w.dead⟩,
        .raised (.switch h cc false)) := by
  unfold switchIn
  simp only [disable, hw]
  rw [dispatchWith_muted U k _ _ (w := { w with enabled := false }) (by simp [setWorld]) rfl]
  simp only [setWorld_setWorld]

/-- `callHandle` leaves every existing world alone -/
theorem callHandle_worlds (U : Universe) {s s' : St} {h : Handle} {i : Inst} (wf : WF s)
    (hc : callHandle U s h = (s', i)) {j : Inst} {w : World} (hw : s.worlds j = some w) :
    s'.worlds j = some w := by
  unfold callHandle at hc
  split at hc
  · simp only [Prod.mk.injEq] at hc; obtain ⟨rfl, _⟩ := hc; exact hw
  · simp only [Prod.mk.injEq] at hc; obtain ⟨rfl, _⟩ := hc
    have e : j ≠ ⟨h, s.loads h + 1⟩ := by
      intro c; subst c; rw [wf.fresh h _ (Nat.lt_succ_self _)] at hw; cases hw
    simp only [upd_ne _ _ e]; exact hw

/-- the handle call of `switch()`: which instance it yields and what it logs -/
theorem callHandle_cases (U : Universe) (s : St) (h : Handle) :
    (∃ n, s.cache h = some n ∧ callHandle U s h = (s, ⟨h, n⟩)) ∨
    (s.cache h = none ∧ ∃ s', callHandle U s h = (s', ⟨h, s.loads h + 1⟩) ∧
      s'.log = .load ⟨h, s.loads h + 1⟩ :: s.log ∧ s'.loads h = s.loads h + 1 ∧
      (∀ h', h' ≠ h → s'.loads h' = s.loads h') ∧
      s'.worlds ⟨h, s.loads h + 1⟩ =
        some ⟨false, U.loadEvents h ++ [(.worldLoad, .loaded h ⟨h, s.loads h + 1⟩)], []⟩ ∧
      s'.cache h = some (s.loads h + 1) ∧ (∀ h', h' ≠ h → s'.cache h' = s.cache h') ∧
      s'.delivered = s.delivered ∧ s'.current = s.current ∧ s'.currentHandle = s.currentHandle) := by
  unfold callHandle
  cases hc : s.cache h with
  | some n => exact Or.inl ⟨n, rfl, rfl⟩
  | none =>
    refine Or.inr ⟨rfl, _, rfl, rfl, by simp, ?_, by simp, by simp, ?_, rfl, rfl, rfl⟩
    · intro h' hne; simp [upd_ne _ _ hne]
    · intro h' hne; simp [upd_ne _ _ hne]

/-- What `switch(h, cc, cn)` leaves behind when the on_switch_out callback returns normally:
`s1`, `to` are the state and instance after the handle call. -/
theorem doSwitch_passive (U : Universe) (k : St → Act → St × Outcome) {s s1 : St} {h : Handle}
    {cc cn : Bool} {frm to : Inst} {wfrm wto : World} (wf : WF s)
    (hcur : s.current = some frm) (hw : s.worlds frm = some wfrm) (hen : wfrm.enabled = true)
    (hc : callHandle U (if (cn || restartOf s h cc) = true then clearHandle s h else s) h = (s1, to))
    (hwto : s1.worlds to = some wto)
    (hk : ∀ t, k t (U.react s.delivered) = (t, .ok)) :
    ∃ s5, doSwitch U k s h cc cn = (s5, .raised (.switch h (cc && !restartOf s h cc) false)) ∧
      s5.log = .ev frm .switchOut (.worlds (some frm) to) :: s1.log ∧
      s5.delivered = s.delivered + 1 ∧ s5.cache = s1.cache ∧ s5.loads = s1.loads ∧
      s5.current = s.current ∧ s5.currentHandle = s.currentHandle ∧
      s5.running = s.running ∧ s5.last = s.last ∧
      s5.worlds to =
        some ⟨false, wto.queue ++ [(.switchIn, .worlds (some frm) to)], wto.dead⟩ ∧
      (frm ≠ to → s5.worlds frm = some { wfrm with enabled := false }) ∧
      (∀ j, j ≠ frm → j ≠ to → s5.worlds j = s1.worlds j) := by
  have wf0 : WF (if (cn || restartOf s h cc) = true then clearHandle s h else s) := by
    split
    · exact clearHandle_wf _ wf
    · exact wf
  have hw0 : (if (cn || restartOf s h cc) = true then clearHandle s h else s).worlds frm
      = some wfrm := by split <;> exact hw
  have hd0 : (if (cn || restartOf s h cc) = true then clearHandle s h else s).delivered
      = s.delivered := by split <;> rfl
  obtain ⟨wf1, e1, _, _, _, hdel⟩ := callHandle_spec U wf0 hc
  have hw1 : s1.worlds frm = some wfrm := callHandle_worlds U wf0 hc hw0
  have hcur1 : s1.current = s.current := by
    rw [e1.current]; split <;> rfl
  have hch1 : s1.currentHandle = s.currentHandle := by
    rw [e1.currentHandle]; split <;> rfl
  have hrun1 : s1.running = s.running := by
    rw [e1.running]; split <;> rfl
  have hlast1 : s1.last = s.last := by
    rw [e1.last]; split <;> rfl
  have hdel1 : s1.delivered = s.delivered := hdel.trans hd0
  unfold doSwitch
  simp only [hc, hcur]
  -- on_switch_out in the world being left
  have hout : switchOut U k s1 (some frm) to =
      (setWorld (logEv s1 frm .switchOut (.worlds (some frm) to)) frm
        { wfrm with enabled := false }, .ok) := by
    unfold switchOut
    simp only
    rw [dispatchWith_enabled U k _ _ hw1 hen, hdel1, hk]
    simp only [disable]
    rw [show (logEv s1 frm .switchOut (.worlds (some frm) to)).worlds frm = some wfrm from hw1]
    simp only [logEv, hdel1]
  rw [hout]
  simp only
  by_cases hft : frm = to
  · subst hft
    rw [hw1] at hwto; cases hwto
    rw [switchIn_muting U k (some frm) h _ (w := { wfrm with enabled := false })
      (by simp [setWorld])]
    refine ⟨_, rfl, ?_⟩
    simp only [setWorld_setWorld]
    and_intros
    all_goals first
      | rfl
      | (intro c; exact absurd rfl c)
      | (intro j hj _; simp [setWorld, upd_ne _ _ hj]; done)
      | (simp [setWorld, hdel1, hcur1, hcur, hch1, hrun1, hlast1]; done)
  · have hto3 : (setWorld (logEv s1 frm .switchOut (.worlds (some frm) to)) frm
          { wfrm with enabled := false }).worlds to = some wto := by
      have : to ≠ frm := fun c => hft c.symm
      simp only [setWorld, upd_ne _ _ this]; exact hwto
    rw [switchIn_muting U k (some frm) h _ hto3]
    refine ⟨_, rfl, ?_⟩
    and_intros
    all_goals first
      | rfl
      | (intro _; simp [setWorld, upd_ne _ _ hft]; done)
      | (intro j hj1 hj2; simp [setWorld, upd_ne _ _ hj1, upd_ne _ _ hj2]; done)
      | (simp [setWorld, hdel1, hcur1, hcur, hch1, hrun1, hlast1]; done)

end Desper.Loop

namespace Desper.Loop

/-- the deliveries of held events, newest first -/
def heldLog (i : Inst) (q : List (Ev × Args)) : List Entry :=
  (q.map fun p => Entry.ev i p.1 p.2).reverse

/-- everything but the worlds table, the delivery counter and the log is the same -/
structure SameRest (s s' : St) : Prop where
  cache : s'.cache = s.cache
  loads : s'.loads = s.loads
  current : s'.current = s.current
  currentHandle : s'.currentHandle = s.currentHandle
  running : s'.running = s.running
  last : s'.last = s.last

/-- Releasing the held events of an enabled world whose callbacks all return normally: they are
delivered once each, in the order they were held, and nothing else happens. -/
theorem release_passive (U : Universe) (fuel : Nat) (i : Inst) :
    ∀ (q : List (Ev × Args)) (n : Nat) (s : St) (w : World), s.worlds i = some w →
      w.enabled = true → w.queue = q → q.length < n →
      (∀ m, m < q.length → U.react (s.delivered + m) = .none) →
      ∃ s', release U (fuel + 1) n s i = (s', .ok) ∧ s'.log = heldLog i q ++ s.log ∧
        s'.worlds = upd s.worlds i (some { w with queue := [] }) ∧
        s'.delivered = s.delivered + q.length ∧ SameRest s s' := by
  intro q
  induction q with
  | nil =>
    intro n s w hw hen hq hn _
    cases n with
    | zero => cases hn
    | succ n =>
      refine ⟨s, ?_, by simp [heldLog], ?_, rfl, ⟨rfl, rfl, rfl, rfl, rfl, rfl⟩⟩
      · simp [release, hw, hq]
      · funext j
        by_cases hj : j = i
        · subst hj; simp [hw, ← hq]
        · simp [upd_ne _ _ hj]
  | cons ea q ih =>
    intro n s w hw hen hq hn hp
    obtain ⟨e, a⟩ := ea
    obtain ⟨en, qq, dd⟩ := w
    simp only at hen hq
    subst hen hq
    cases n with
    | zero => cases hn
    | succ n =>
      have h0 : U.react s.delivered = .none := by simpa using hp 0 (by simp)
      have hd : dispatch U (fuel + 1) (setWorld s i ⟨true, q, dd⟩) i e a =
          (logEv (setWorld s i ⟨true, q, dd⟩) i e a, .ok) := by
        unfold dispatch
        rw [dispatchWith_enabled U _ e a (w := ⟨true, q, dd⟩) (by simp [setWorld]) rfl]
        simp only [setWorld, h0, act_none]
      obtain ⟨s', hr, hlog, hwor, hdel, hrest⟩ :=
        ih n (logEv (setWorld s i ⟨true, q, dd⟩) i e a) ⟨true, q, dd⟩
          (by simp [setWorld]) rfl rfl (by simp at hn; omega)
          (by
            intro m hm
            have := hp (m + 1) (by simp; omega)
            simpa [setWorld, Nat.add_assoc, Nat.add_comm 1 m] using this)
      refine ⟨s', ?_, ?_, ?_, ?_, ?_⟩
      · simp only [release, hw, Bool.not_true, Bool.false_eq_true, ↓reduceIte, hd]
        exact hr
      · rw [hlog]; simp [heldLog, setWorld]
      · rw [hwor]; simp [setWorld, upd_upd]
      · rw [hdel]; simp [setWorld]; omega
      · exact ⟨hrest.cache, hrest.loads, hrest.current, hrest.currentHandle, hrest.running,
          hrest.last⟩

end Desper.Loop

namespace Desper.Loop

/-- `enable` of a world whose held callbacks all return normally -/
theorem enable_passive (U : Universe) (fuel : Nat) {s : St} {i : Inst} {w : World}
    (hw : s.worlds i = some w) (hfuel : w.queue.length < fuel + 1)
    (hp : ∀ m, m < w.queue.length → U.react (s.delivered + m) = .none) :
    ∃ s', enable U (fuel + 1) s i = (s', .ok) ∧ s'.log = heldLog i w.queue ++ s.log ∧
      s'.worlds = upd s.worlds i (some ⟨true, [], w.dead⟩) ∧
      s'.delivered = s.delivered + w.queue.length ∧ SameRest s s' := by
  obtain ⟨s', hr, hlog, hwor, hdel, hrest⟩ :=
    release_passive U fuel i w.queue (fuel + 1) (setWorld s i { w with enabled := true })
      { w with enabled := true } (by simp [setWorld]) rfl rfl hfuel (by simpa [setWorld] using hp)
  refine ⟨s', ?_, by simpa [setWorld] using hlog, ?_, by simpa [setWorld] using hdel, ?_⟩
  · simp only [enable, hw]; exact hr
  · rw [hwor]; simp [setWorld, upd_upd]
  · exact ⟨hrest.cache, hrest.loads, hrest.current, hrest.currentHandle, hrest.running, hrest.last⟩

/-- `Loop.switch` when the target handle is cached and is not the handle being cleared -/
theorem loopSwitch_cached (U : Universe) {s : St} {h : Handle} {n : Nat} {cc : Bool}
    (hcache : s.cache h = some n) (hguard : cc = true → s.currentHandle ≠ some h) :
    let s' := loopSwitch U s h cc false
    s'.log = .enter ⟨h, n⟩ :: s.log ∧ s'.worlds = s.worlds ∧ s'.delivered = s.delivered ∧
      s'.loads = s.loads ∧ s'.current = some ⟨h, n⟩ ∧ s'.currentHandle = some h ∧
      s'.running = s.running ∧ s'.last = s.last ∧ s'.cache h = some n ∧
      (∀ ch, cc = true → s.currentHandle = some ch → s'.cache ch = none) ∧
      (∀ h', (cc = true → s.currentHandle ≠ some h') → s'.cache h' = s.cache h') := by
  cases cc with
  | false =>
    simp [loopSwitch, callHandle, hcache]
  | true =>
    cases hch : s.currentHandle with
    | none => simp [loopSwitch, callHandle, hcache, hch]
    | some ch =>
      have hne : h ≠ ch := by
        intro c; subst c; exact hguard rfl hch
      have h1 : upd s.cache ch none h = some n := by rw [upd_ne _ _ hne]; exact hcache
      simp only [loopSwitch, hch, clearHandle, callHandle, h1, Bool.false_eq_true, ↓reduceIte,
        true_and, forall_const, Option.some.injEq]
      refine ⟨?_, ?_⟩
      · intro ch' hc; subst hc; simp
      · intro h' hh'
        have : h' ≠ ch := fun c => hh' (by rw [c])
        rw [upd_ne _ _ this]

theorem simpleSwitch_passive (U : Universe) (fuel : Nat) {s : St} {h : Handle} {n : Nat}
    {cc : Bool} {wto : World} (hcache : s.cache h = some n) (hw : s.worlds ⟨h, n⟩ = some wto)
    (hguard : cc = true → s.currentHandle ≠ some h) (hfuel : wto.queue.length < fuel + 1)
    (hp : ∀ m, m < wto.queue.length → U.react (s.delivered + m) = .none) :
    ∃ s', simpleSwitch U (fuel + 1) s h cc false = (s', .ok) ∧
      s'.log = heldLog ⟨h, n⟩ wto.queue ++ .enter ⟨h, n⟩ :: s.log ∧
      s'.worlds = upd s.worlds ⟨h, n⟩ (some ⟨true, [], wto.dead⟩) ∧
      s'.delivered = s.delivered + wto.queue.length ∧
      s'.loads = s.loads ∧ s'.current = some ⟨h, n⟩ ∧ s'.currentHandle = some h ∧
      s'.running = s.running ∧ s'.last = s.last ∧ s'.cache h = some n ∧
      (∀ ch, cc = true → s.currentHandle = some ch → s'.cache ch = none) ∧
      (∀ h', (cc = true → s.currentHandle ≠ some h') → s'.cache h' = s.cache h') := by
  obtain ⟨l1, l2, l3, l4, l5, l6, l7, l8, l9, l10, l11⟩ := loopSwitch_cached U hcache hguard
  unfold simpleSwitch
  generalize loopSwitch U s h cc false = s1 at *
  have hc : callHandle U s1 h = (s1, ⟨h, n⟩) := by simp [callHandle, l9]
  simp only [hc]
  obtain ⟨s', hr, hlog, hwor, hdel, hrest⟩ :=
    enable_passive U fuel (s := s1) (i := ⟨h, n⟩) (w := wto) (by rw [l2]; exact hw) hfuel
      (by rw [l3]; exact hp)
  refine ⟨s', hr, by rw [hlog, l1], by rw [hwor, l2], by rw [hdel, l3], by rw [hrest.loads, l4],
    by rw [hrest.current, l5], by rw [hrest.currentHandle, l6], by rw [hrest.running, l7],
    by rw [hrest.last, l8], by rw [hrest.cache, l9], ?_, ?_⟩
  · intro ch a b; rw [hrest.cache]; exact l10 ch a b
  · intro h' a; rw [hrest.cache]; exact l11 h' a

end Desper.Loop
