import DesperModel.Loader
import DesperProofs.Lemmas.LoaderRegex
/-
  Lemmas about the world side of the loader model: what `populate` leaves in the tables, in the
  queue of postponed events and in the callback log, for well-formed descriptions.
-/
namespace Desper.Loader
open Desper

/-! ### dictionaries: a fresh key is appended -/
section dict
variable {κ ν : Type} [DecidableEq κ]

theorem dget_none {d : Dict κ ν} {k : κ} (h : k ∉ Dict.keys d) : Dict.get? d k = none := by
  induction d with
  | nil => rfl
  | cons p r ih =>
    obtain ⟨a, b⟩ := p
    simp only [Dict.keys, List.map_cons, List.mem_cons, not_or] at h
    simp only [Dict.get?]
    rw [if_neg (fun e => h.1 e.symm)]
    exact ih (by simpa [Dict.keys] using h.2)

theorem dcontains_false {d : Dict κ ν} {k : κ} (h : k ∉ Dict.keys d) : Dict.contains d k = false := by
  simp [Dict.contains, dget_none h]

theorem dset_fresh {d : Dict κ ν} {k : κ} {v : ν} (h : k ∉ Dict.keys d) :
    Dict.set d k v = d ++ [(k, v)] := by
  induction d with
  | nil => rfl
  | cons p r ih =>
    obtain ⟨a, b⟩ := p
    simp only [Dict.keys, List.map_cons, List.mem_cons, not_or] at h
    simp only [Dict.set]
    rw [if_neg (fun e => h.1 e.symm)]
    rw [ih (by simpa [Dict.keys] using h.2)]
    rfl

theorem dget_last {d : Dict κ ν} {k : κ} {v : ν} (h : k ∉ Dict.keys d) :
    Dict.get? (d ++ [(k, v)]) k = some v := by
  induction d with
  | nil => simp [Dict.get?]
  | cons p r ih =>
    obtain ⟨a, b⟩ := p
    simp only [Dict.keys, List.map_cons, List.mem_cons, not_or] at h
    simp only [List.cons_append, Dict.get?]
    rw [if_neg (fun e => h.1 e.symm)]
    exact ih (by simpa [Dict.keys] using h.2)

theorem dset_last {d : Dict κ ν} {k : κ} {v v' : ν} (h : k ∉ Dict.keys d) :
    Dict.set (d ++ [(k, v)]) k v' = d ++ [(k, v')] := by
  induction d with
  | nil => simp [Dict.set]
  | cons p r ih =>
    obtain ⟨a, b⟩ := p
    simp only [Dict.keys, List.map_cons, List.mem_cons, not_or] at h
    simp only [List.cons_append, Dict.set]
    rw [if_neg (fun e => h.1 e.symm)]
    rw [ih (by simpa [Dict.keys] using h.2)]

theorem dkeys_append (d e : Dict κ ν) : Dict.keys (d ++ e) = Dict.keys d ++ Dict.keys e := by
  simp [Dict.keys]

end dict

/-! ### specification side: what a description says -/

def isCls (d : Item) : Bool :=
  match d.type with
  | .cls _ => true
  | _ => false

def clsOf (d : Item) : Nat :=
  match d.type with
  | .cls c => c
  | _ => 0

/-- the instance a dictionary `{'type': C, 'args': .., 'kwargs': ..}` describes -/
def toInst (d : Item) : Inst := instOf d (clsOf d)

/-- identifiers of the listed entities: the given one, else the next of 1, 2, 3, .. -/
def withIds : Nat → List (Option EntId × List Item) → List (EntId × List Item)
  | _, [] => []
  | n, (some e, cs) :: r => (e, cs) :: withIds n r
  | n, (none, cs) :: r => (.int n, cs) :: withIds (n + 1) r

def autoAfter : Nat → List (Option EntId × List Item) → Nat
  | n, [] => n
  | n, (some _, _) :: r => autoAfter n r
  | n, (none, _) :: r => autoAfter (n + 1) r

/-- Well-formedness of a description whose types are classes (after the type transformer, or as
given to `populate_world_from_dict`) and whose constructor calls do not raise.  `pre`: processor types present before (the default ones). -/
def WellFormed (U : Universe) (pre : List Nat) (td : Desc) : Prop :=
  (∀ d ∈ td.processors, (isCls d = true ∧ U.ctorRaises d.label = false) ∧ isProc U (clsOf d) = true) ∧
  (∀ e ∈ td.entities, ∀ d ∈ e.2, isCls d = true ∧ U.ctorRaises d.label = false) ∧
  (pre ++ td.processors.map clsOf).Nodup ∧
  (∀ e ∈ td.entities, (e.2.map clsOf).Nodup) ∧
  ((withIds 1 td.entities).map (·.1)).Nodup

instance (U : Universe) (pre : List Nat) (td : Desc) : Decidable (WellFormed U pre td) := by
  unfold WellFormed; infer_instance

def methOf (U : Universe) (c : Nat) (ev : Str) : Option Str :=
  (eventsOf U c).bind (fun m => Dict.get? m ev)

def handlerOf (U : Universe) (i : Inst) : List Inst :=
  if (eventsOf U i.cls).isSome then [i] else []

def onAddEntry (U : Universe) (a : CbArgs) (i : Inst) : List Entry :=
  match methOf U i.cls onAdd with
  | some m => [⟨i.label, m, a⟩]
  | none => []

def onAddEv (U : Universe) (a : CbArgs) (i : Inst) : List Ev :=
  if (methOf U i.cls onAdd).isSome then [.single onAdd i a] else []

def worldLoadEntry (U : Universe) (i : Inst) : List Entry :=
  match methOf U i.cls onWorldLoad with
  | some m => [⟨i.label, m, .handleWorld⟩]
  | none => []

def rowOf (e : EntId) (cs : List Inst) : List (EntId × Dict Nat Inst) :=
  match cs with
  | [] => []
  | _ :: _ => [(e, cs.map (fun c => (c.cls, c)))]

/-- `World._entities` a description asks for: one row per listed entity that has components -/
def expectedEntities (l : List (EntId × List Item)) : List (EntId × Dict Nat Inst) :=
  l.flatMap (fun p => rowOf p.1 (p.2.map toInst))

def entInsts (l : List (EntId × List Item)) : List Inst := l.flatMap (fun p => p.2.map toInst)

def entQueue (U : Universe) (l : List (EntId × List Item)) : List Ev :=
  l.flatMap (fun p => (p.2.map toInst).flatMap (onAddEv U (.entWorld p.1)))

def entLog (U : Universe) (l : List (EntId × List Item)) : List Entry :=
  l.flatMap (fun p => (p.2.map toInst).flatMap (onAddEntry U (.entWorld p.1)))

/-! ### frame: callbacks only touch the log -/

theorem callMapped_some {U : Universe} {w : World} {ev : Str} {h : Inst} {a : CbArgs} {m : Str}
    (hm : methOf U h.cls ev = some m) :
    callMapped U w ev h a = { w with log := w.log ++ [⟨h.label, m, a⟩] } := by
  unfold callMapped
  unfold methOf at hm
  rw [hm]

/-! ### one component / one processor -/

theorem registerComp_eq (U : Universe) (e : EntId) (w : World) (c : Inst) :
    registerComp U e w c =
      { w with handlers := w.handlers ++ handlerOf U c,
               queue := w.queue ++ (if w.enabled then [] else onAddEv U (.entWorld e) c),
               log := w.log ++ (if w.enabled then onAddEntry U (.entWorld e) c else []) } := by
  obtain ⟨sorted, procs, entities, nextAuto, enabled, queue, handlers, log, failed⟩ := w
  unfold registerComp
  cases hev : eventsOf U c.cls with
  | none => simp [handlerOf, onAddEv, onAddEntry, methOf, hev]
  | some m =>
    cases hm : Dict.get? m onAdd with
    | none => simp [handlerOf, onAddEv, onAddEntry, methOf, hev, hm]
    | some meth =>
      have hmo : methOf U c.cls onAdd = some meth := by simp [methOf, hev, hm]
      cases enabled with
      | true => simp [handlerOf, onAddEv, onAddEntry, hev, hm, hmo, emit, callMapped_some hmo]
      | false => simp [handlerOf, onAddEv, onAddEntry, hev, hm, hmo, emit]

theorem foldl_registerComp (U : Universe) (e : EntId) (cs : List Inst) (w : World) :
    cs.foldl (registerComp U e) w =
      { w with handlers := w.handlers ++ cs.flatMap (handlerOf U),
               queue := w.queue ++ (if w.enabled then [] else cs.flatMap (onAddEv U (.entWorld e))),
               log := w.log ++ (if w.enabled then cs.flatMap (onAddEntry U (.entWorld e)) else []) } := by
  induction cs generalizing w with
  | nil =>
    obtain ⟨sorted, procs, entities, nextAuto, enabled, queue, handlers, log, failed⟩ := w
    cases enabled <;> simp
  | cons c cs ih =>
    rw [List.foldl_cons, ih, registerComp_eq]
    obtain ⟨sorted, procs, entities, nextAuto, enabled, queue, handlers, log, failed⟩ := w
    cases enabled <;> simp [List.append_assoc]

theorem addProcessor_fresh (U : Universe) (w : World) (p : Inst)
    (hc : p.cls ∉ Dict.keys w.procs) :
    addProcessor U w p =
      { w with sorted := insort U w.sorted p,
               procs := w.procs ++ [(p.cls, p)],
               handlers := w.handlers ++ handlerOf U p,
               queue := w.queue ++ (if w.enabled then [] else onAddEv U .none p),
               log := w.log ++ (if w.enabled then onAddEntry U .none p else []) } := by
  obtain ⟨sorted, procs, entities, nextAuto, enabled, queue, handlers, log, failed⟩ := w
  simp only at hc
  unfold addProcessor
  simp only [dcontains_false hc, Bool.false_eq_true, ite_false, dset_fresh hc]
  cases hev : eventsOf U p.cls with
  | none => simp [handlerOf, onAddEv, onAddEntry, methOf, hev]
  | some m =>
    cases hm : Dict.get? m onAdd with
    | none => simp [handlerOf, onAddEv, onAddEntry, methOf, hev, hm]
    | some meth =>
      have hmo : methOf U p.cls onAdd = some meth := by simp [methOf, hev, hm]
      cases enabled with
      | true => simp [handlerOf, onAddEv, onAddEntry, hev, hm, hmo, emit, callMapped_some hmo]
      | false => simp [handlerOf, onAddEv, onAddEntry, hev, hm, hmo, emit]

theorem foldl_addProcessor (U : Universe) (ps : List Inst) (w : World)
    (hn : (Dict.keys w.procs ++ ps.map (·.cls)).Nodup) :
    ps.foldl (addProcessor U) w =
      { w with sorted := ps.foldl (insort U) w.sorted,
               procs := w.procs ++ ps.map (fun p => (p.cls, p)),
               handlers := w.handlers ++ ps.flatMap (handlerOf U),
               queue := w.queue ++ (if w.enabled then [] else ps.flatMap (onAddEv U .none)),
               log := w.log ++ (if w.enabled then ps.flatMap (onAddEntry U .none) else []) } := by
  induction ps generalizing w with
  | nil =>
    obtain ⟨sorted, procs, entities, nextAuto, enabled, queue, handlers, log, failed⟩ := w
    cases enabled <;> simp
  | cons p ps ih =>
    have hfresh : p.cls ∉ Dict.keys w.procs := by
      intro hmem
      rw [List.map_cons, List.nodup_append] at hn
      exact hn.2.2 _ hmem _ (List.mem_cons_self ..) rfl
    rw [List.foldl_cons, addProcessor_fresh U w p hfresh]
    rw [ih]
    · obtain ⟨sorted, procs, entities, nextAuto, enabled, queue, handlers, log, failed⟩ := w
      cases enabled <;> simp [List.append_assoc]
    · simp only [dkeys_append, Dict.keys, List.map_cons, List.map_nil, List.append_assoc,
        List.singleton_append]
      simpa [Dict.keys] using hn

/-! ### one entity -/

theorem foldl_setComp_row (e : EntId) (ents : Dict EntId (Dict Nat Inst)) (row : Dict Nat Inst)
    (cs : List Inst) (he : e ∉ Dict.keys ents) (hn : (Dict.keys row ++ cs.map (·.cls)).Nodup) :
    cs.foldl (fun ents c => setComp ents e c) (ents ++ [(e, row)]) =
      ents ++ [(e, row ++ cs.map (fun c => (c.cls, c)))] := by
  induction cs generalizing row with
  | nil => simp
  | cons c cs ih =>
    have hfresh : c.cls ∉ Dict.keys row := by
      intro hmem
      rw [List.map_cons, List.nodup_append] at hn
      exact hn.2.2 _ hmem _ (List.mem_cons_self ..) rfl
    rw [List.foldl_cons]
    have : setComp (ents ++ [(e, row)]) e c = ents ++ [(e, row ++ [(c.cls, c)])] := by
      unfold setComp
      rw [dget_last he, Option.getD_some, dset_fresh hfresh, dset_last he]
    rw [this, ih]
    · simp [List.append_assoc]
    · simp only [dkeys_append, Dict.keys, List.map_cons, List.map_nil, List.append_assoc,
        List.singleton_append]
      simpa [Dict.keys] using hn

theorem foldl_setComp_fresh (e : EntId) (ents : Dict EntId (Dict Nat Inst)) (cs : List Inst)
    (he : e ∉ Dict.keys ents) (hn : (cs.map (·.cls)).Nodup) :
    cs.foldl (fun ents c => setComp ents e c) ents = ents ++ rowOf e cs := by
  cases cs with
  | nil => simp [rowOf]
  | cons c cs =>
    rw [List.foldl_cons]
    have : setComp ents e c = ents ++ [(e, [(c.cls, c)])] := by
      unfold setComp
      rw [dget_none he]
      simp only [Option.getD_none]
      rw [dset_fresh he]
      rfl
    rw [this, foldl_setComp_row e ents [(c.cls, c)] cs he (by simpa [Dict.keys] using hn)]
    simp [rowOf]

theorem nextFree_fresh {ents : Dict EntId (Dict Nat Inst)} {n : Nat} (fuel : Nat)
    (h : EntId.int n ∉ Dict.keys ents) : nextFree ents n fuel = n := by
  cases fuel with
  | zero => rfl
  | succ f => simp [nextFree, dcontains_false h]

/-- the identifier `create_entity` uses -/
def idFor (w : World) (eid : Option EntId) : EntId := eid.getD (.int w.nextAuto)

theorem createEntity_fresh (U : Universe) (w : World) (eid : Option EntId) (cs : List Inst)
    (hf : idFor w eid ∉ Dict.keys w.entities) (hn : (cs.map (·.cls)).Nodup) :
    createEntity U w eid cs =
      { w with nextAuto := if eid.isSome then w.nextAuto else w.nextAuto + 1,
               entities := w.entities ++ rowOf (idFor w eid) cs,
               handlers := w.handlers ++ cs.flatMap (handlerOf U),
               queue := w.queue ++ (if w.enabled then [] else cs.flatMap (onAddEv U (.entWorld (idFor w eid)))),
               log := w.log ++ (if w.enabled then cs.flatMap (onAddEntry U (.entWorld (idFor w eid))) else []) } := by
  obtain ⟨sorted, procs, entities, nextAuto, enabled, queue, handlers, log, failed⟩ := w
  cases eid with
  | some e =>
    simp only [idFor, Option.getD_some] at hf ⊢
    unfold createEntity
    simp only [dget_none hf, Option.getD_none, Dict.keys, List.map_nil, List.filter_nil,
      List.foldl_nil, foldl_registerComp, foldl_setComp_fresh e entities cs hf hn]
    simp
  | none =>
    simp only [idFor, Option.getD_none] at hf ⊢
    unfold createEntity
    simp only [nextFree_fresh _ hf, dget_none hf, Option.getD_none, Dict.keys, List.map_nil,
      List.filter_nil, List.foldl_nil, foldl_registerComp,
      foldl_setComp_fresh (.int nextAuto) entities cs hf hn]
    simp

/-! ### all entities -/

def entStep (U : Universe) (w : World) (e : Option EntId × List Item) : World :=
  createEntity U w e.1 (e.2.map toInst)

theorem map_toInst_cls (cs : List Item) : (cs.map toInst).map (·.cls) = cs.map clsOf := by
  simp [toInst, instOf]

theorem keys_rowOf_sublist (e : EntId) (cs : List Inst) :
    (Dict.keys (rowOf e cs)).Sublist [e] := by
  cases cs <;> simp [rowOf, Dict.keys]

theorem foldl_entStep (U : Universe) (es : List (Option EntId × List Item)) (w : World)
    (hn : (Dict.keys w.entities ++ (withIds w.nextAuto es).map (·.1)).Nodup)
    (hc : ∀ e ∈ es, (e.2.map clsOf).Nodup) :
    es.foldl (entStep U) w =
      { w with nextAuto := autoAfter w.nextAuto es,
               entities := w.entities ++ expectedEntities (withIds w.nextAuto es),
               handlers := w.handlers ++ (entInsts (withIds w.nextAuto es)).flatMap (handlerOf U),
               queue := w.queue ++ (if w.enabled then [] else entQueue U (withIds w.nextAuto es)),
               log := w.log ++ (if w.enabled then entLog U (withIds w.nextAuto es) else []) } := by
  induction es generalizing w with
  | nil =>
    obtain ⟨sorted, procs, entities, nextAuto, enabled, queue, handlers, log, failed⟩ := w
    cases enabled <;> simp [withIds, autoAfter, expectedEntities, entInsts, entQueue, entLog]
  | cons e es ih =>
    obtain ⟨eid, cs⟩ := e
    have hcs : ((cs.map toInst).map (·.cls)).Nodup := by
      rw [map_toInst_cls]; exact hc _ (List.mem_cons_self ..)
    have hc' : ∀ e ∈ es, (e.2.map clsOf).Nodup := fun e he => hc e (List.mem_cons_of_mem _ he)
    rw [List.foldl_cons]
    unfold entStep
    cases eid with
    | some x =>
      simp only [withIds, List.map_cons] at hn
      have hf : idFor w (some x) ∉ Dict.keys w.entities := by
        intro hmem
        rw [List.nodup_append] at hn
        exact hn.2.2 _ hmem _ (List.mem_cons_self ..) rfl
      rw [createEntity_fresh U w (some x) _ hf hcs]
      have hn' : (Dict.keys (w.entities ++ rowOf x (cs.map toInst)) ++
          (withIds w.nextAuto es).map (·.1)).Nodup := by
        refine List.Nodup.sublist ?_ hn
        rw [dkeys_append, List.append_assoc]
        refine List.Sublist.append (List.Sublist.refl _) ?_
        exact List.Sublist.append (keys_rowOf_sublist x _) (List.Sublist.refl _)
      have := ih { w with nextAuto := w.nextAuto,
                          entities := w.entities ++ rowOf x (cs.map toInst),
                          handlers := w.handlers ++ (cs.map toInst).flatMap (handlerOf U),
                          queue := w.queue ++ (if w.enabled then [] else (cs.map toInst).flatMap (onAddEv U (.entWorld x))),
                          log := w.log ++ (if w.enabled then (cs.map toInst).flatMap (onAddEntry U (.entWorld x)) else []) }
        hn' hc'
      obtain ⟨sorted, procs, entities, nextAuto, enabled, queue, handlers, log, failed⟩ := w
      simp only [idFor, Option.getD_some, Option.isSome_some, ite_true] at this ⊢
      unfold entStep at this
      rw [this]
      cases enabled <;>
        simp [withIds, autoAfter, expectedEntities, entInsts, entQueue, entLog, List.append_assoc]
    | none =>
      simp only [withIds, List.map_cons] at hn
      have hf : idFor w none ∉ Dict.keys w.entities := by
        intro hmem
        rw [List.nodup_append] at hn
        exact hn.2.2 _ hmem _ (List.mem_cons_self ..) rfl
      rw [createEntity_fresh U w none _ hf hcs]
      have hn' : (Dict.keys (w.entities ++ rowOf (.int w.nextAuto) (cs.map toInst)) ++
          (withIds (w.nextAuto + 1) es).map (·.1)).Nodup := by
        refine List.Nodup.sublist ?_ hn
        rw [dkeys_append, List.append_assoc]
        refine List.Sublist.append (List.Sublist.refl _) ?_
        exact List.Sublist.append (keys_rowOf_sublist _ _) (List.Sublist.refl _)
      have := ih { w with nextAuto := w.nextAuto + 1,
                          entities := w.entities ++ rowOf (.int w.nextAuto) (cs.map toInst),
                          handlers := w.handlers ++ (cs.map toInst).flatMap (handlerOf U),
                          queue := w.queue ++ (if w.enabled then [] else (cs.map toInst).flatMap (onAddEv U (.entWorld (.int w.nextAuto)))),
                          log := w.log ++ (if w.enabled then (cs.map toInst).flatMap (onAddEntry U (.entWorld (.int w.nextAuto))) else []) }
        hn' hc'
      obtain ⟨sorted, procs, entities, nextAuto, enabled, queue, handlers, log, failed⟩ := w
      simp only [idFor, Option.getD_none, Option.isSome_none, Bool.false_eq_true, ite_false] at this ⊢
      unfold entStep at this
      rw [this]
      cases enabled <;>
        simp [withIds, autoAfter, expectedEntities, entInsts, entQueue, entLog, List.append_assoc]

end Desper.Loader
