/-
  Helper lemmas for C18 over ℝ: Euclidean length of scalar multiples, the polar form of a
  2-vector (`Complex.arg`).  Hand-written; about the textbook definitions of `MathSpec` only -
  nothing here depends on desper's code.
-/
import DesperProofs.Lemmas.MathSpec
import Mathlib.Tactic.Ring
import Mathlib.Tactic.Linarith
import Mathlib.Tactic.Positivity
import Mathlib.Tactic.FieldSimp
import Mathlib.Tactic.LinearCombination
import Mathlib.Analysis.Real.Sqrt
import Mathlib.Analysis.SpecialFunctions.Complex.Arg
import Mathlib.Analysis.Complex.Norm

namespace Desper.MathLemmas
open Desper.MathGen Desper.MathSpec

theorem sq2_zero {x y : ℝ} (h : x ^ 2 + y ^ 2 = 0) : x = 0 ∧ y = 0 := by
  constructor <;> nlinarith [sq_nonneg x, sq_nonneg y]

theorem sq3_zero {x y z : ℝ} (h : x ^ 2 + y ^ 2 + z ^ 2 = 0) : x = 0 ∧ y = 0 ∧ z = 0 := by
  refine ⟨?_, ?_, ?_⟩ <;> nlinarith [sq_nonneg x, sq_nonneg y, sq_nonneg z]

theorem sq4_zero {x y z w : ℝ} (h : x ^ 2 + y ^ 2 + z ^ 2 + w ^ 2 = 0) :
    x = 0 ∧ y = 0 ∧ z = 0 ∧ w = 0 := by
  refine ⟨?_, ?_, ?_, ?_⟩ <;> nlinarith [sq_nonneg x, sq_nonneg y, sq_nonneg z, sq_nonneg w]

/-! ### length, dimension 2 -/

theorem norm2_nonneg (v : Vec2 ℝ) : 0 ≤ norm2 v := Real.sqrt_nonneg _

theorem norm2_eq_zero {v : Vec2 ℝ} : norm2 v = 0 ↔ v = ⟨0, 0⟩ := by
  constructor
  · intro h
    obtain ⟨hx, hy⟩ := sq2_zero ((Real.sqrt_eq_zero (by positivity)).mp h)
    ext <;> assumption
  · rintro rfl; simp [norm2]

theorem norm2_pos {v : Vec2 ℝ} (h : v ≠ ⟨0, 0⟩) : 0 < norm2 v :=
  lt_of_le_of_ne (norm2_nonneg v) (fun h0 => h (norm2_eq_zero.mp h0.symm))

theorem norm2_smul (c : ℝ) (v : Vec2 ℝ) : norm2 (smul2 c v) = |c| * norm2 v := by
  unfold norm2 smul2
  rw [show (c * v.x) ^ 2 + (c * v.y) ^ 2 = c ^ 2 * (v.x ^ 2 + v.y ^ 2) by ring,
    Real.sqrt_mul (sq_nonneg c), Real.sqrt_sq_eq_abs]

theorem norm2_rescale {v : Vec2 ℝ} (h : v ≠ ⟨0, 0⟩) (m : ℝ) :
    norm2 (smul2 (m / norm2 v) v) = |m| := by
  have hp := norm2_pos h
  rw [norm2_smul, abs_div, abs_of_pos hp]
  field_simp

theorem norm2_le_iff (v : Vec2 ℝ) {m : ℝ} (hm : 0 ≤ m) :
    norm2 v ≤ m ↔ v.x ^ 2 + v.y ^ 2 ≤ m * m := by
  unfold norm2
  rw [Real.sqrt_le_left hm, show m ^ 2 = m * m by ring]

/-! ### length, dimension 3 -/

theorem norm3_nonneg (v : Vec3 ℝ) : 0 ≤ norm3 v := Real.sqrt_nonneg _

theorem norm3_eq_zero {v : Vec3 ℝ} : norm3 v = 0 ↔ v = ⟨0, 0, 0⟩ := by
  constructor
  · intro h
    obtain ⟨hx, hy, hz⟩ := sq3_zero ((Real.sqrt_eq_zero (by positivity)).mp h)
    ext <;> assumption
  · rintro rfl; simp [norm3]

theorem norm3_pos {v : Vec3 ℝ} (h : v ≠ ⟨0, 0, 0⟩) : 0 < norm3 v :=
  lt_of_le_of_ne (norm3_nonneg v) (fun h0 => h (norm3_eq_zero.mp h0.symm))

theorem norm3_smul (c : ℝ) (v : Vec3 ℝ) : norm3 (smul3 c v) = |c| * norm3 v := by
  unfold norm3 smul3
  rw [show (c * v.x) ^ 2 + (c * v.y) ^ 2 + (c * v.z) ^ 2 = c ^ 2 * (v.x ^ 2 + v.y ^ 2 + v.z ^ 2)
    by ring, Real.sqrt_mul (sq_nonneg c), Real.sqrt_sq_eq_abs]

theorem norm3_rescale {v : Vec3 ℝ} (h : v ≠ ⟨0, 0, 0⟩) (m : ℝ) :
    norm3 (smul3 (m / norm3 v) v) = |m| := by
  have hp := norm3_pos h
  rw [norm3_smul, abs_div, abs_of_pos hp]
  field_simp

theorem norm3_le_iff (v : Vec3 ℝ) {m : ℝ} (hm : 0 ≤ m) :
    norm3 v ≤ m ↔ v.x ^ 2 + v.y ^ 2 + v.z ^ 2 ≤ m * m := by
  unfold norm3
  rw [Real.sqrt_le_left hm, show m ^ 2 = m * m by ring]

/-! ### length, dimension 4 -/

theorem norm4_nonneg (v : Vec4 ℝ) : 0 ≤ norm4 v := Real.sqrt_nonneg _

theorem norm4_eq_zero {v : Vec4 ℝ} : norm4 v = 0 ↔ v = ⟨0, 0, 0, 0⟩ := by
  constructor
  · intro h
    obtain ⟨hx, hy, hz, hw⟩ := sq4_zero ((Real.sqrt_eq_zero (by positivity)).mp h)
    ext <;> assumption
  · rintro rfl; simp [norm4]

theorem norm4_pos {v : Vec4 ℝ} (h : v ≠ ⟨0, 0, 0, 0⟩) : 0 < norm4 v :=
  lt_of_le_of_ne (norm4_nonneg v) (fun h0 => h (norm4_eq_zero.mp h0.symm))

theorem norm4_smul (c : ℝ) (v : Vec4 ℝ) : norm4 (smul4 c v) = |c| * norm4 v := by
  unfold norm4 smul4
  rw [show (c * v.x) ^ 2 + (c * v.y) ^ 2 + (c * v.z) ^ 2 + (c * v.w) ^ 2
      = c ^ 2 * (v.x ^ 2 + v.y ^ 2 + v.z ^ 2 + v.w ^ 2) by ring,
    Real.sqrt_mul (sq_nonneg c), Real.sqrt_sq_eq_abs]

theorem norm4_rescale {v : Vec4 ℝ} (h : v ≠ ⟨0, 0, 0, 0⟩) (m : ℝ) :
    norm4 (smul4 (m / norm4 v) v) = |m| := by
  have hp := norm4_pos h
  rw [norm4_smul, abs_div, abs_of_pos hp]
  field_simp

/-! ### polar form of a 2-vector -/

theorem mk_eq_polar (r θ : ℝ) :
    (⟨r * Real.cos θ, r * Real.sin θ⟩ : ℂ)
      = (r : ℂ) * (Complex.cos θ + Complex.sin θ * Complex.I) := by
  apply Complex.ext <;>
    simp [Complex.cos_ofReal_re, Complex.sin_ofReal_re, Complex.cos_ofReal_im,
      Complex.sin_ofReal_im]

/-- the direction of `(r cos θ, r sin θ)`, `r > 0`, is `θ` (as an angle) -/
theorem angle2_polar {r : ℝ} (hr : 0 < r) (θ : ℝ) :
    angle2 ⟨r * Real.cos θ, r * Real.sin θ⟩ = (θ : Real.Angle) := by
  unfold angle2
  dsimp only
  rw [mk_eq_polar]
  have := Complex.arg_mul_cos_add_sin_mul_I_coe_angle hr (θ : Real.Angle)
  simpa using this

/-- ... and the real number `θ` itself when `θ ∈ (-π, π]` -/
theorem arg_polar {r : ℝ} (hr : 0 < r) {θ : ℝ} (hθ : θ ∈ Set.Ioc (-Real.pi) Real.pi) :
    Complex.arg ⟨r * Real.cos θ, r * Real.sin θ⟩ = θ := by
  rw [mk_eq_polar]
  exact Complex.arg_mul_cos_add_sin_mul_I hr hθ

/-- the length of `(r cos θ, r sin θ)` is `|r|` -/
theorem norm2_polar (r θ : ℝ) : norm2 ⟨r * Real.cos θ, r * Real.sin θ⟩ = |r| := by
  unfold norm2
  dsimp only
  rw [show (r * Real.cos θ) ^ 2 + (r * Real.sin θ) ^ 2
      = r ^ 2 * (Real.cos θ ^ 2 + Real.sin θ ^ 2) by ring,
    Real.cos_sq_add_sin_sq, mul_one, Real.sqrt_sq_eq_abs]

/-- a positive multiple has the same direction -/
theorem angle2_smul {c : ℝ} (hc : 0 < c) (v : Vec2 ℝ) : angle2 (smul2 c v) = angle2 v := by
  unfold angle2 smul2
  dsimp only
  have : (⟨c * v.x, c * v.y⟩ : ℂ) = (c : ℂ) * ⟨v.x, v.y⟩ := by
    apply Complex.ext <;> simp
  rw [this, Complex.arg_real_mul _ hc]

theorem norm_mk (x y : ℝ) : ‖(⟨x, y⟩ : ℂ)‖ = Real.sqrt (x ^ 2 + y ^ 2) := by
  rw [Complex.norm_def, Complex.normSq_mk]; congr 1; ring

/-- `|v| cos(arg v) = x` and `|v| sin(arg v) = y` (also for the zero vector) -/
theorem norm_mul_cos_arg (x y : ℝ) :
    Real.sqrt (x ^ 2 + y ^ 2) * Real.cos (Complex.arg ⟨x, y⟩) = x := by
  by_cases h : (⟨x, y⟩ : ℂ) = 0
  · have hx : x = 0 := by simpa using congrArg Complex.re h
    have hy : y = 0 := by simpa using congrArg Complex.im h
    subst hx hy; simp
  · rw [Complex.cos_arg h, norm_mk]
    have : Real.sqrt (x ^ 2 + y ^ 2) ≠ 0 := by rw [← norm_mk]; exact norm_ne_zero_iff.mpr h
    field_simp

theorem norm_mul_sin_arg (x y : ℝ) :
    Real.sqrt (x ^ 2 + y ^ 2) * Real.sin (Complex.arg ⟨x, y⟩) = y := by
  by_cases h : (⟨x, y⟩ : ℂ) = 0
  · have hx : x = 0 := by simpa using congrArg Complex.re h
    have hy : y = 0 := by simpa using congrArg Complex.im h
    subst hx hy; simp
  · rw [Complex.sin_arg, norm_mk]
    have : Real.sqrt (x ^ 2 + y ^ 2) ≠ 0 := by rw [← norm_mk]; exact norm_ne_zero_iff.mpr h
    field_simp

end Desper.MathLemmas
