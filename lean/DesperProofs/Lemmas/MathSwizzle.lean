/-
  Helper lemmas for C18 (swizzling): the generated `VecN.swizzle` against the textbook
  `MathSpec.swizzleSpec`.  Hand-written; re-checked against the regenerated definitions.
-/
import DesperProofs.Lemmas.MathSpec

set_option linter.unusedSimpArgs false

namespace Desper.MathLemmas
open Desper.MathGen Desper.MathSpec

theorem collect_map {α β : Type} (f : α → Option β) (l : List α) :
    collect (l.map f) = l.mapM f := by
  induction l with
  | nil => rfl
  | cons a t ih =>
    simp only [List.map_cons, List.mapM_cons]
    cases h : f a with
    | none => simp [collect]
    | some b => simp [collect, ih, Option.map_eq_bind]

/-- the letter table of `Vec2.__getattr__` is the textbook one -/
theorem swizzleComp2 {K : Type} (v : Vec2 K) (c : Char) :
    v.swizzleComp c = (letterIndex c).bind (nth2 v) := by
  unfold Vec2.swizzleComp letterIndex
  repeat' split
  all_goals first | rfl | simp_all [nth2]

theorem swizzleComp3 {K : Type} (v : Vec3 K) (c : Char) :
    v.swizzleComp c = (letterIndex c).bind (nth3 v) := by
  unfold Vec3.swizzleComp letterIndex
  repeat' split
  all_goals first | rfl | simp_all [nth3]

theorem swizzleComp4 {K : Type} (v : Vec4 K) (c : Char) :
    v.swizzleComp c = (letterIndex c).bind (nth4 v) := by
  unfold Vec4.swizzleComp letterIndex
  repeat' split
  all_goals first | rfl | simp_all [nth4]

theorem swizzle2_eq {K : Type} (v : Vec2 K) (attrs : List Char) :
    Vec2.swizzle v attrs = swizzleSpec (nth2 v) attrs := by
  unfold Vec2.swizzle swizzleSpec
  rw [collect_map, funext (swizzleComp2 v)]
  generalize List.mapM (m := Option) _ attrs = o
  rcases o with _ | (_ | ⟨a, _ | ⟨b, _ | ⟨c, _ | ⟨d, _ | ⟨e, t⟩⟩⟩⟩⟩) <;> rfl

theorem swizzle3_eq {K : Type} (v : Vec3 K) (attrs : List Char) :
    Vec3.swizzle v attrs = swizzleSpec (nth3 v) attrs := by
  unfold Vec3.swizzle swizzleSpec
  rw [collect_map, funext (swizzleComp3 v)]
  generalize List.mapM (m := Option) _ attrs = o
  rcases o with _ | (_ | ⟨a, _ | ⟨b, _ | ⟨c, _ | ⟨d, _ | ⟨e, t⟩⟩⟩⟩⟩) <;> rfl

theorem swizzle4_eq {K : Type} (v : Vec4 K) (attrs : List Char) :
    Vec4.swizzle v attrs = swizzleSpec (nth4 v) attrs := by
  unfold Vec4.swizzle swizzleSpec
  rw [collect_map, funext (swizzleComp4 v)]
  generalize List.mapM (m := Option) _ attrs = o
  rcases o with _ | (_ | ⟨a, _ | ⟨b, _ | ⟨c, _ | ⟨d, _ | ⟨e, t⟩⟩⟩⟩⟩) <;> rfl

/-! What the textbook `swizzleSpec` means, spelled out (facts about the specification only). -/

theorem mapM_length {α β : Type} (f : α → Option β) :
    ∀ (l : List α) (r : List β), l.mapM f = some r → r.length = l.length
  | [], r, h => by simp at h; subst h; rfl
  | a :: t, r, h => by
    rw [List.mapM_cons] at h
    cases ha : f a with
    | none => simp [ha] at h
    | some b =>
      cases ht : t.mapM f with
      | none => simp [ha, ht] at h
      | some r' =>
        simp [ha, ht] at h
        subst h
        simp [mapM_length f t r' ht]

theorem mapM_getElem {α β : Type} (f : α → Option β) :
    ∀ (l : List α) (r : List β), l.mapM f = some r →
      ∀ i (hi : i < l.length) (hr : i < r.length), f l[i] = some r[i]
  | [], r, h, i, hi, _ => by simp at hi
  | a :: t, r, h, i, hi, hr => by
    rw [List.mapM_cons] at h
    cases ha : f a with
    | none => simp [ha] at h
    | some b =>
      cases ht : t.mapM f with
      | none => simp [ha, ht] at h
      | some r' =>
        simp [ha, ht] at h
        subst h
        cases i with
        | zero => simpa using ha
        | succ j =>
          simp only [List.getElem_cons_succ]
          exact mapM_getElem f t r' ht j (by simpa using hi) (by simpa using hr)

theorem mapM_none {α β : Type} (f : α → Option β) (l : List α) (c : α) (hc : c ∈ l)
    (hf : f c = none) : l.mapM f = none := by
  induction l with
  | nil => cases hc
  | cons a t ih =>
    rw [List.mapM_cons]
    rcases List.mem_cons.mp hc with rfl | h
    · simp [hf]
    · cases f a <;> simp [ih h]

/-- a swizzle that succeeds has one entry per letter, entry `i` being the component the `i`-th
    letter names -/
theorem swizzleSpec_ok {K : Type} (nth : Nat → Option K) (attrs : List Char) (comps : List K)
    (h : attrs.mapM (fun c => (letterIndex c).bind nth) = some comps) :
    swizzleSpec nth attrs = ofList comps ∧ comps.length = attrs.length ∧
      ∀ i (hi : i < attrs.length) (hr : i < comps.length),
        (letterIndex attrs[i]).bind nth = some comps[i] := by
  refine ⟨by unfold swizzleSpec; rw [h], mapM_length _ _ _ h, ?_⟩
  intro i hi hr
  exact mapM_getElem _ attrs comps h i hi hr

/-- a letter that names no component of the vector makes the access an AttributeError -/
theorem swizzleSpec_bad_letter {K : Type} (nth : Nat → Option K) (attrs : List Char) (c : Char)
    (hc : c ∈ attrs) (hbad : (letterIndex c).bind nth = none) :
    swizzleSpec nth attrs = .attributeError := by
  unfold swizzleSpec
  rw [mapM_none _ attrs c hc hbad]

/-- fewer than 2 or more than 4 letters make the access an AttributeError -/
theorem swizzleSpec_bad_length {K : Type} (nth : Nat → Option K) (attrs : List Char)
    (hlen : attrs.length < 2 ∨ 4 < attrs.length) :
    swizzleSpec nth attrs = .attributeError := by
  unfold swizzleSpec
  cases h : attrs.mapM (fun c => (letterIndex c).bind nth) with
  | none => rfl
  | some comps =>
    have hl := mapM_length _ _ _ h
    rcases comps with _ | ⟨a, _ | ⟨b, _ | ⟨c, _ | ⟨d, _ | ⟨e, t⟩⟩⟩⟩⟩ <;>
      simp only [List.length_cons, List.length_nil] at hl <;>
      first | rfl | (exfalso; omega)

end Desper.MathLemmas
