import DesperProofs.Lemmas.WorldReg
/-
  Registered as a listener exactly while attached (C02): the invariant and its preservation.
-/
namespace Desper.World
open Desper

/-- `o` is attached to some entity -/
def Attached (s : St) (o : Obj) : Prop := ∃ e t, Dict.get? (row s e) t = some o

/-- an instance is attached at most once -/
def OneOwner (s : St) : Prop :=
  ∀ e t e' t' o, Dict.get? (row s e) t = some o → Dict.get? (row s e') t' = some o → e = e' ∧ t = t'

structure RegInv (U : Universe) (s : St) : Prop where
  /-- a handler object is registered iff it is an attached component or an added processor -/
  reg : ∀ o, (U.mapOf o).isSome → (o ∈ s.registered ↔ (Attached s o ∨ o ∈ s.sorted))
  one : OneOwner s
  /-- components and processors are different objects -/
  disj : ∀ o, Attached s o → o ∉ s.sorted

theorem attached_of_rows {s s' : St} (h : ∀ e, row s' e = row s e) (o : Obj) :
    Attached s' o ↔ Attached s o := by
  simp only [Attached, h]

theorem attached_sameTables {s s' : St} (h : SameTables U s s') (o : Obj) : Attached s' o ↔ Attached s o :=
  attached_of_rows (fun e => row_of_ents h.ents e) o

theorem oneOwner_of_rows {s s' : St} (h : ∀ e, row s' e = row s e) (ho : OneOwner s) : OneOwner s' := by
  intro e t e' t' o h1 h2
  rw [h] at h1 h2
  exact ho e t e' t' o h1 h2

/-- detaching the component at `(e, st)`: it is no longer attached (it was attached only there),
everything else keeps its attachment -/
theorem attached_detach {s : St} (ho : OneOwner s) (e : Ent) (st : Ty) (c : Obj)
    (hc : Dict.get? (row s e) st = some c) (o : Obj) :
    Attached (detach s e st) o ↔ (Attached s o ∧ o ≠ c) := by
  constructor
  · rintro ⟨e', t', h⟩
    rw [row_detach] at h
    split at h
    · simp at h
    · rename_i hne
      refine ⟨⟨e', t', h⟩, ?_⟩
      intro heq; subst heq
      have := ho e st e' t' o hc h
      exact hne ⟨this.1, this.2⟩
  · rintro ⟨⟨e', t', h⟩, hne⟩
    refine ⟨e', t', ?_⟩
    rw [row_detach]
    split
    · rename_i hh
      obtain ⟨rfl, rfl⟩ := hh
      rw [hc] at h; simp at h; exact absurd h.symm hne
    · exact h

theorem oneOwner_detach {s : St} (ho : OneOwner s) (e : Ent) (st : Ty) : OneOwner (detach s e st) := by
  intro e1 t1 e2 t2 o h1 h2
  rw [row_detach] at h1 h2
  split at h1
  · simp at h1
  · split at h2
    · simp at h2
    · exact ho e1 t1 e2 t2 o h1 h2

/-- attaching a fresh object into an empty slot -/
theorem attached_attachTables (U : Universe) {s : St} (e : Ent) (c : Obj)
    (hslot : Dict.get? (row s e) (tyOf U c) = none) (o : Obj) :
    Attached (attachTables U s e c) o ↔ (Attached s o ∨ o = c) := by
  constructor
  · rintro ⟨e', t', h⟩
    rw [row_attachTables] at h
    split at h
    · simp at h; exact .inr h.symm
    · exact .inl ⟨e', t', h⟩
  · rintro (⟨e', t', h⟩ | rfl)
    · refine ⟨e', t', ?_⟩
      rw [row_attachTables]
      split
      · rename_i hh
        obtain ⟨rfl, rfl⟩ := hh
        rw [hslot] at h; simp at h
      · exact h
    · exact ⟨e, tyOf U o, by rw [row_attachTables]; simp⟩

theorem oneOwner_attachTables (U : Universe) {s : St} (ho : OneOwner s) (e : Ent) (c : Obj)
    (hslot : Dict.get? (row s e) (tyOf U c) = none) (hfresh : ¬ Attached s c) :
    OneOwner (attachTables U s e c) := by
  intro e1 t1 e2 t2 o h1 h2
  rw [row_attachTables] at h1 h2
  split at h1
  · rename_i hh1
    simp at h1; subst h1
    split at h2
    · rename_i hh2
      exact ⟨hh1.1.symm.trans hh2.1, hh1.2.symm.trans hh2.2⟩
    · exact absurd ⟨e2, t2, h2⟩ hfresh
  · split at h2
    · simp at h2; subst h2
      exact absurd ⟨e1, t1, h1⟩ hfresh
    · exact ho e1 t1 e2 t2 o h1 h2

end Desper.World

namespace Desper.World
open Desper

/-- complete description of `remove_component` when no callback raises -/
theorem removeComponent_full {U : Universe} [U.Passive] (hn : NoRaise U) (s : St) (e : Ent) (t : Ty) :
    ((visit U t).find? (fun st => (Dict.get? (row s e) st).isSome) = none ∧
        removeComponent U s e t = (s, .ok, none)) ∨
    (∃ st c, (visit U t).find? (fun st => (Dict.get? (row s e) st).isSome) = some st ∧
        Dict.get? (row s e) st = some c ∧ (removeComponent U s e t).2.1 = .ok ∧
        (removeComponent U s e t).2.2 = some c ∧
        SameTables U (detach s e st) (removeComponent U s e t).1 ∧
        (removeComponent U s e t).1.registered =
          if (U.mapOf c).isSome then s.registered.filter (· ≠ c) else s.registered) := by
  unfold removeComponent
  cases hf : (visit U t).find? (fun st => (Dict.get? (row s e) st).isSome) with
  | none => left; exact ⟨rfl, rfl⟩
  | some st =>
    right
    have hsome := List.find?_some hf
    simp only [Option.isSome_iff_exists] at hsome
    obtain ⟨c, hc⟩ := hsome
    refine ⟨st, c, rfl, hc, ?_⟩
    simp only [hc]
    cases hm : U.mapOf c with
    | none =>
      simp only [Option.isSome_none, Bool.false_eq_true, if_false]
      exact ⟨trivial, trivial, .refl _, detach_reg s e st⟩
    | some m =>
      simp only [Option.isSome_some, if_true]
      have h1 := lifecycle_tables U (detach s e st) onRemove c m (some e)
      have h2 := lifecycle_ok hn (detach s e st) onRemove c m (some e)
      have h3 := lifecycle_reg U (detach s e st) onRemove c m (some e)
      cases hl : lifecycle U (detach s e st) onRemove c m (some e) with
      | mk s' o =>
        rw [hl] at h1 h2 h3
        simp only at h2; subst h2
        refine ⟨rfl, rfl, SameTables.trans h1 (removeHandler_tables s' c), ?_⟩
        show s'.registered.filter (· ≠ c) = _
        rw [h3, detach_reg]

theorem regInv_removeComponent {U : Universe} [U.Passive] (hn : NoRaise U) {s : St} (h : RegInv U s) (e : Ent)
    (t : Ty) : RegInv U (removeComponent U s e t).1 := by
  rcases removeComponent_full hn s e t with ⟨_, heq⟩ | ⟨st, c, _, hc, _, _, hsame, hreg⟩
  · rw [heq]; exact h
  · have hatt : ∀ o, Attached (removeComponent U s e t).1 o ↔ (Attached s o ∧ o ≠ c) := by
      intro o
      rw [attached_sameTables hsame, attached_detach h.one e st c hc]
    have hsorted : (removeComponent U s e t).1.sorted = s.sorted := by
      rw [hsame.sorted]; exact (detach_procs s e st).sorted
    have hcatt : Attached s c := ⟨e, st, hc⟩
    refine ⟨?_, ?_, ?_⟩
    · intro o ho
      rw [hreg, hatt, hsorted]
      by_cases hoc : o = c
      · subst hoc
        simp only [ho, if_true, List.mem_filter, ne_eq, not_true_eq_false, decide_false, and_false,
          Bool.false_eq_true, false_or, false_iff]
        exact h.disj o hcatt
      · have hr := h.reg o ho
        split
        · simp only [List.mem_filter, ne_eq, hoc, not_false_eq_true, decide_true, and_true]
          exact hr
        · simp only [ne_eq, hoc, not_false_eq_true, and_true]
          exact hr
    · exact oneOwner_of_rows (fun e' => row_of_ents hsame.ents e') (oneOwner_detach h.one e st)
    · intro o ho
      rw [hsorted]
      exact h.disj o ((hatt o).mp ho).1

theorem regInv_removeTypes {U : Universe} [U.Passive] (hn : NoRaise U) {s : St} (h : RegInv U s) (e : Ent)
    (ts : List Ty) : RegInv U (removeTypes U s e ts).1 := by
  induction ts generalizing s with
  | nil => exact h
  | cons t ts ih =>
    simp only [removeTypes]
    have h1 := regInv_removeComponent hn h e t
    cases hx : removeComponent U s e t with
    | mk s' r =>
      obtain ⟨o, c⟩ := r
      rw [hx] at h1
      cases o <;> simp only
      · exact ih h1
      all_goals exact h1

end Desper.World

namespace Desper.World
open Desper

theorem attachEvents_registered (U : Universe) [U.NoReenter] (s : St) (o : Obj) (ent : Option Ent) :
    (attachEvents U s o ent).1.registered =
      if (U.mapOf o).isSome then insertSorted s.registered o else s.registered := by
  unfold attachEvents
  cases hm : U.mapOf o with
  | none => simp
  | some m =>
    simp only [Option.isSome_some, if_true]
    rw [lifecycle_reg]; rfl

/-- attached but not yet registered: the state inside `create_entity` between the table loop and
the event loop (world.py:94-121) -/
structure PreReg (U : Universe) (s : St) (pending : List Obj) : Prop where
  reg : ∀ o, (U.mapOf o).isSome →
    (o ∈ s.registered ↔ ((Attached s o ∧ o ∉ pending) ∨ o ∈ s.sorted))
  one : OneOwner s
  disj : ∀ o, Attached s o → o ∉ s.sorted
  pendAtt : ∀ o, o ∈ pending → Attached s o

theorem preReg_of_regInv {U : Universe} {s : St} (h : RegInv U s) : PreReg U s [] :=
  ⟨fun o ho => by simpa using h.reg o ho, h.one, h.disj, by simp⟩

theorem regInv_of_preReg {U : Universe} {s : St} (h : PreReg U s []) : RegInv U s :=
  ⟨fun o ho => by simpa using h.reg o ho, h.one, h.disj⟩

/-- table loop: one more object attached, pending registration -/
theorem preReg_attachTables {U : Universe} {s : St} {pending : List Obj} (h : PreReg U s pending)
    (e : Ent) (c : Obj) (hslot : Dict.get? (row s e) (tyOf U c) = none) (hfresh : ¬ Attached s c)
    (hns : c ∉ s.sorted) : PreReg U (attachTables U s e c) (c :: pending) := by
  have hatt := attached_attachTables U (s := s) e c hslot
  refine ⟨?_, oneOwner_attachTables U h.one e c hslot hfresh, ?_, ?_⟩
  · intro o ho
    have hr := h.reg o ho
    show o ∈ s.registered ↔ _
    rw [hr, hatt]
    simp only [List.mem_cons, not_or]
    constructor
    · rintro (⟨h1, h2⟩ | h1)
      · refine .inl ⟨.inl h1, ?_, h2⟩
        intro e'; subst e'; exact hfresh h1
      · exact .inr h1
    · rintro (⟨h1 | h1, h2, h3⟩ | h1)
      · exact .inl ⟨h1, h3⟩
      · exact absurd h1 h2
      · exact .inr h1
  · intro o ho
    rcases (hatt o).mp ho with h1 | h1
    · exact h.disj o h1
    · subst h1; exact hns
  · intro o ho
    simp only [List.mem_cons] at ho
    rcases ho with rfl | ho
    · exact (hatt _).mpr (.inr rfl)
    · exact (hatt o).mpr (.inl (h.pendAtt o ho))

/-- event loop: one pending object gets registered -/
theorem preReg_attachEvents {U : Universe} [U.NoReenter] {s : St} {pending : List Obj} (c : Obj) (e : Ent)
    (h : PreReg U s pending) (hc : c ∈ pending) :
    PreReg U (attachEvents U s c (some e)).1 (pending.filter (· ≠ c)) := by
  have ht := attachEvents_tables U s c (some e)
  have hr := attachEvents_registered U s c (some e)
  have hatt : ∀ o, Attached (attachEvents U s c (some e)).1 o ↔ Attached s o := attached_sameTables ht
  refine ⟨?_, oneOwner_of_rows (fun e' => row_of_ents ht.ents e') h.one, ?_, ?_⟩
  · intro o ho
    rw [hr, hatt, ht.sorted]
    have hreg := h.reg o ho
    by_cases hoc : o = c
    · subst hoc
      simp only [ho, if_true, mem_insertSorted, or_true, true_iff]
      exact .inl ⟨h.pendAtt o hc, by simp⟩
    · have hmem : o ∈ pending.filter (· ≠ c) ↔ o ∈ pending := by simp [hoc]
      split
      · rw [mem_insertSorted, hreg, hmem]
        simp only [hoc, or_false]
      · rw [hreg, hmem]
  · intro o ho; rw [ht.sorted]; exact h.disj o ((hatt o).mp ho)
  · intro o ho
    exact (hatt o).mpr (h.pendAtt o (List.mem_filter.mp ho).1)

theorem preReg_foldAttach {U : Universe} (e : Ent) (cs : List Obj) :
    ∀ (s : St) (pending : List Obj), PreReg U s pending → cs.Nodup → (cs.map (tyOf U)).Nodup →
      (∀ c ∈ cs, Dict.get? (row s e) (tyOf U c) = none ∧ ¬ Attached s c ∧ c ∉ s.sorted) →
      ∃ pending', PreReg U (cs.foldl (fun s c => attachTables U s e c) s) pending' ∧
        ∀ o, o ∈ pending' ↔ (o ∈ pending ∨ o ∈ cs) := by
  induction cs with
  | nil => intro s pending h _ _ _; exact ⟨pending, h, by simp⟩
  | cons c cs ih =>
    intro s pending h hnd htnd hfresh
    rw [List.nodup_cons] at hnd
    simp only [List.map_cons, List.nodup_cons, List.mem_map, not_exists, not_and] at htnd
    obtain ⟨hslot, hna, hns⟩ := hfresh c (by simp)
    have h1 := preReg_attachTables h e c hslot hna hns
    have hatt := attached_attachTables U (s := s) e c hslot
    obtain ⟨p', hp', hmem⟩ := ih (attachTables U s e c) (c :: pending) h1 hnd.2 htnd.2 (by
      intro c' hc'
      obtain ⟨a1, a2, a3⟩ := hfresh c' (by simp [hc'])
      refine ⟨?_, ?_, a3⟩
      · rw [row_attachTables]
        split
        · rename_i hh
          exact absurd hh.2.symm (htnd.1 c' hc')
        · exact a1
      · rw [hatt]
        rintro (h2 | h2)
        · exact a2 h2
        · subst h2; exact hnd.1 hc')
    refine ⟨p', hp', ?_⟩
    intro o; rw [hmem]; simp only [List.mem_cons]
    constructor
    · rintro ((h2 | h2) | h2)
      · exact .inr (.inl h2)
      · exact .inl h2
      · exact .inr (.inr h2)
    · rintro (h2 | h2 | h2)
      · exact .inl (.inr h2)
      · exact .inl (.inl h2)
      · exact .inr h2

theorem preReg_attachAll {U : Universe} [U.Passive] (hn : NoRaise U) (e : Ent) (cs : List Obj) :
    ∀ (s : St) (pending : List Obj), PreReg U s pending → cs.Nodup → (∀ c ∈ cs, c ∈ pending) →
      (attachAll U s e cs).2 = .ok ∧
      PreReg U (attachAll U s e cs).1 (pending.filter (fun o => !cs.contains o)) := by
  induction cs with
  | nil =>
    intro s pending h _ _
    refine ⟨rfl, ?_⟩
    have : pending.filter (fun o => !([] : List Obj).contains o) = pending := by simp
    rw [this]; exact h
  | cons c cs ih =>
    intro s pending h hnd hsub
    rw [List.nodup_cons] at hnd
    simp only [attachAll]
    have h1 := preReg_attachEvents c e h (hsub c (by simp))
    have hok : (attachEvents U s c (some e)).2 = .ok := by
      unfold attachEvents
      split
      · rfl
      · exact lifecycle_ok hn _ _ _ _ _
    cases hx : attachEvents U s c (some e) with
    | mk s' o =>
      rw [hx] at h1 hok
      simp only at hok; subst hok
      simp only
      obtain ⟨i1, i2⟩ := ih s' (pending.filter (· ≠ c)) h1 hnd.2 (by
        intro c' hc'
        refine List.mem_filter.mpr ⟨hsub c' (by simp [hc']), ?_⟩
        have : c' ≠ c := fun e' => hnd.1 (e' ▸ hc')
        simpa using this)
      refine ⟨i1, ?_⟩
      have : (pending.filter (· ≠ c)).filter (fun o => !cs.contains o) =
          pending.filter (fun o => !(c :: cs).contains o) := by
        rw [List.filter_filter]
        congr 1
        funext o
        by_cases hoc : o = c <;> simp [hoc]
      rw [← this]; exact i2

end Desper.World

namespace Desper.World
open Desper

theorem attached_removeComponent_sub {U : Universe} [U.Passive] (hn : NoRaise U) {s : St} (h : OneOwner s) (e : Ent)
    (t : Ty) (o : Obj) : Attached (removeComponent U s e t).1 o → Attached s o := by
  rcases removeComponent_full hn s e t with ⟨_, heq⟩ | ⟨st, c, _, hc, _, _, hsame, _⟩
  · rw [heq]; exact id
  · intro ha
    rw [attached_sameTables hsame, attached_detach h e st c hc] at ha
    exact ha.1

theorem removeComponent_sorted (U : Universe) [U.NoReenter] (s : St) (e : Ent) (t : Ty) :
    (removeComponent U s e t).1.sorted = s.sorted := (removeComponent_procs U s e t).sorted

theorem attached_removeTypes_sub {U : Universe} [U.Passive] (hn : NoRaise U) (e : Ent) (ts : List Ty) :
    ∀ s : St, RegInv U s → ∀ o, Attached (removeTypes U s e ts).1 o → Attached s o := by
  induction ts with
  | nil => intro s _ o h; exact h
  | cons t ts ih =>
    intro s hs o
    simp only [removeTypes]
    have h1 := regInv_removeComponent hn hs e t
    have h2 := attached_removeComponent_sub hn hs.one e t o
    cases hx : removeComponent U s e t with
    | mk s' r =>
      obtain ⟨oc, c⟩ := r
      rw [hx] at h1 h2
      cases oc <;> simp only
      · intro ha; exact h2 (ih s' h1 o ha)
      all_goals exact h2

/-- the precondition under which `create_entity(…, entity_id=e)` keeps "registered iff attached":
distinct fresh instances of pairwise distinct types (the known finding D5a is the violation of the
type condition) -/
def FreshCreate (U : Universe) (s : St) (cs : List Obj) : Prop :=
  cs.Nodup ∧ (cs.map (tyOf U)).Nodup ∧ ∀ c ∈ cs, ¬ Attached s c ∧ c ∉ s.sorted

theorem regInv_createAt {U : Universe} [U.Passive] (hn : NoRaise U) {s : St} (ht : TabInv U s) (h : RegInv U s)
    (e : Ent) (cs : List Obj) (hf : FreshCreate U s cs) :
    RegInv U (match removeTypes U s e ((Dict.keys (row s e)).filter
          (fun t => cs.any (fun c => tyOf U c = t))) with
        | (s, .ok) =>
          match attachAll U (cs.foldl (fun s c => attachTables U s e c) s) e cs with
          | (s, o) => (s, o, e)
        | (s, o) => (s, o, e)).1 := by
  obtain ⟨hnd, htnd, hfr⟩ := hf
  have hrnd : ((Dict.keys (row s e)).filter (fun t => cs.any (fun c => tyOf U c = t))).Nodup :=
    (ht.rowKeys e).sublist List.filter_sublist
  have hrpres : ∀ t ∈ (Dict.keys (row s e)).filter (fun t => cs.any (fun c => tyOf U c = t)),
      (Dict.get? (row s e) t).isSome := by
    intro t ht'
    exact (Dict.mem_keys_iff _ t).mp (List.mem_filter.mp ht').1
  obtain ⟨r1, r2, _⟩ := removeTypes_all hn e _ s hrnd hrpres
  have hreg1 := regInv_removeTypes hn h e ((Dict.keys (row s e)).filter (fun t => cs.any (fun c => tyOf U c = t)))
  have hsub := attached_removeTypes_sub hn e ((Dict.keys (row s e)).filter (fun t => cs.any (fun c => tyOf U c = t))) s h
  have hsorted := (removeTypes_procs U s e ((Dict.keys (row s e)).filter (fun t => cs.any (fun c => tyOf U c = t)))).sorted
  cases hx : removeTypes U s e ((Dict.keys (row s e)).filter (fun t => cs.any (fun c => tyOf U c = t))) with
  | mk s1 o1 =>
    rw [hx] at r1 r2 hreg1 hsub hsorted
    simp only at r1; subst r1
    simp only
    have hfresh1 : ∀ c ∈ cs, Dict.get? (row s1 e) (tyOf U c) = none ∧ ¬ Attached s1 c ∧ c ∉ s1.sorted := by
      intro c hc
      refine ⟨?_, fun ha => (hfr c hc).1 (hsub c ha), by rw [hsorted]; exact (hfr c hc).2⟩
      rw [r2]
      split
      · rfl
      · rename_i hnm
        cases hg : Dict.get? (row s e) (tyOf U c) with
        | none => rfl
        | some v =>
          exfalso; apply hnm
          refine List.mem_filter.mpr ⟨(Dict.mem_keys_iff _ _).mpr (by simp [hg]), ?_⟩
          simp only [List.any_eq_true, decide_eq_true_eq]
          exact ⟨c, hc, rfl⟩
    obtain ⟨p', hp', hmem⟩ := preReg_foldAttach e cs s1 [] (preReg_of_regInv hreg1) hnd htnd hfresh1
    obtain ⟨a1, a2⟩ := preReg_attachAll hn e cs _ p' hp' hnd (fun c hc => (hmem c).mpr (.inr hc))
    have hempty : p'.filter (fun o => !cs.contains o) = [] := by
      rw [List.filter_eq_nil_iff]
      intro o ho
      have := (hmem o).mp ho
      simp only [List.not_mem_nil, false_or] at this
      simp [this]
    rw [hempty] at a2
    cases hy : attachAll U (cs.foldl (fun s c => attachTables U s e c) s1) e cs with
    | mk s2 o2 =>
      rw [hy] at a2
      exact regInv_of_preReg a2

theorem regInv_fields {U : Universe} {s s' : St} (h : RegInv U s) (he : s'.ents = s.ents)
    (hr : s'.registered = s.registered) (hs : s'.sorted = s.sorted) : RegInv U s' := by
  have hatt : ∀ o, Attached s' o ↔ Attached s o := attached_of_rows (fun e => row_of_ents he e)
  refine ⟨?_, oneOwner_of_rows (fun e => row_of_ents he e) h.one, ?_⟩
  · intro o ho; rw [hr, hatt, hs]; exact h.reg o ho
  · intro o ho; rw [hs]; exact h.disj o ((hatt o).mp ho)

theorem regInv_createEntity {U : Universe} [U.Passive] (hn : NoRaise U) {s : St} (ht : TabInv U s) (h : RegInv U s)
    (id? : Option Ent) (cs : List Obj) (hf : FreshCreate U s cs) :
    RegInv U (createEntity U s id? cs).1 := by
  unfold createEntity
  cases id? with
  | some e => exact regInv_createAt hn ht h e cs hf
  | none =>
    simp only
    generalize freshFrom (Dict.keys s.ents) ((Dict.keys s.ents).length + 1) s.nextId = n
    have ht' : TabInv U { s with nextId := n + 1 } := tabInv_of_tables ht rfl rfl
    have h' : RegInv U { s with nextId := n + 1 } := regInv_fields h rfl rfl rfl
    exact regInv_createAt hn ht' h' n cs hf

end Desper.World

namespace Desper.World
open Desper

theorem regInv_attachOne {U : Universe} [U.NoReenter] (hn : NoRaise U) {s : St} (h : RegInv U s) (e : Ent) (c : Obj)
    (hslot : Dict.get? (row s e) (tyOf U c) = none) (hfresh : ¬ Attached s c) (hns : c ∉ s.sorted) :
    RegInv U (attachEvents U (attachTables U s e c) c (some e)).1 := by
  have h1 := preReg_attachTables (preReg_of_regInv h) e c hslot hfresh hns
  have h2 := preReg_attachEvents c e h1 (by simp)
  have : ([c] : List Obj).filter (· ≠ c) = [] := by simp
  rw [this] at h2
  exact regInv_of_preReg h2

theorem regInv_addComponent {U : Universe} [U.Passive] (hn : NoRaise U) {s : St} (h : RegInv U s) (e : Ent)
    (c : Obj) (hfresh : ¬ Attached s c) (hns : c ∉ s.sorted) : RegInv U (addComponent U s e c).1 := by
  unfold addComponent
  simp only
  cases hg : Dict.get? (row s e) (tyOf U c) with
  | none =>
    simp only [Option.isSome_none, Bool.false_eq_true, if_false]
    exact regInv_attachOne hn h e c hg hfresh hns
  | some old =>
    simp only [Option.isSome_some, if_true]
    obtain ⟨hok, hsame⟩ := removeComponent_exact hn s e (tyOf U c) old hg
    have hreg := regInv_removeComponent hn h e (tyOf U c)
    have hsub := attached_removeComponent_sub hn h.one e (tyOf U c) c
    have hsorted := removeComponent_sorted U s e (tyOf U c)
    cases hx : removeComponent U s e (tyOf U c) with
    | mk s1 r =>
      obtain ⟨o1, c1⟩ := r
      rw [hx] at hok hsame hreg hsub hsorted
      simp only at hok; subst hok
      simp only
      have hslot : Dict.get? (row s1 e) (tyOf U c) = none := by
        rw [row_of_ents hsame.ents, row_detach]; simp
      exact regInv_attachOne hn hreg e c hslot (fun ha => hfresh (hsub ha)) (by rw [hsorted]; exact hns)

theorem regInv_deleteEntity {U : Universe} [U.Passive] (hn : NoRaise U) {s : St} (h : RegInv U s) (e : Ent)
    (imm : Bool) : RegInv U (deleteEntity U s e imm).1 := by
  unfold deleteEntity
  split
  · split
    · exact h
    · exact regInv_removeTypes hn h e _
  · exact regInv_fields h rfl rfl rfl

theorem regInv_sweep {U : Universe} [U.Passive] (hn : NoRaise U) {s : St} (h : RegInv U s) (es : List Ent) :
    RegInv U (sweep U s es).1 := by
  induction es generalizing s with
  | nil => exact h
  | cons e es ih =>
    simp only [sweep]
    split
    · exact h
    · rename_i r hr
      have h1 := regInv_removeTypes hn h e (Dict.keys r)
      cases hx : removeTypes U s e (Dict.keys r) with
      | mk s' o =>
        rw [hx] at h1
        cases o <;> simp only
        · exact ih h1
        all_goals exact h1

theorem regInv_process {U : Universe} [U.Passive] (hn : NoRaise U) {s : St} (h : RegInv U s) (dt : String) :
    RegInv U (process U s dt).1 := by
  unfold process
  have h1 : RegInv U (clearDead U s).1 := by
    unfold clearDead
    split
    · exact h
    · exact regInv_sweep hn (s := { s with dead := [], sweepHints := s.sweepHints.drop 1 })
        (regInv_fields h rfl rfl rfl) _
  cases hx : clearDead U s with
  | mk s' o =>
    rw [hx] at h1
    cases o <;> simp only
    · exact regInv_fields h1 (runProcs_tables U s' dt _).ents (runProcs_reg U s' dt _)
        (runProcs_tables U s' dt _).sorted
    all_goals exact h1

end Desper.World

namespace Desper.World
open Desper

theorem removeProcessor_full {U : Universe} [U.Passive] (hn : NoRaise U) (s : St) (t : Ty) :
    ((visit U t).find? (fun st => (Dict.get? s.procs st).isSome) = none ∧
        removeProcessor U s t = (s, .ok, none)) ∨
    (∃ st p, Dict.get? s.procs st = some p ∧ (removeProcessor U s t).2.1 = .ok ∧
        SameTables U (dropProc U s st) (removeProcessor U s t).1 ∧
        (removeProcessor U s t).1.registered =
          if (U.mapOf p).isSome then s.registered.filter (· ≠ p) else s.registered) := by
  unfold removeProcessor
  cases hf : (visit U t).find? (fun st => (Dict.get? s.procs st).isSome) with
  | none => left; exact ⟨rfl, rfl⟩
  | some st =>
    right
    have hsome := List.find?_some hf
    simp only [Option.isSome_iff_exists] at hsome
    obtain ⟨p, hp⟩ := hsome
    refine ⟨st, p, hp, ?_⟩
    simp only [hp]
    cases hm : U.mapOf p with
    | none =>
      simp only [Option.isSome_none, Bool.false_eq_true, if_false]
      exact ⟨trivial, .refl _, rfl⟩
    | some m =>
      simp only [Option.isSome_some, if_true]
      have h1 := lifecycle_tables U (dropProc U s st) onRemove p m none
      have h2 := lifecycle_ok hn (dropProc U s st) onRemove p m none
      have h3 := lifecycle_reg U (dropProc U s st) onRemove p m none
      cases hl : lifecycle U (dropProc U s st) onRemove p m none with
      | mk s' o =>
        rw [hl] at h1 h2 h3
        simp only at h2; subst h2
        refine ⟨rfl, SameTables.trans h1 (removeHandler_tables s' p), ?_⟩
        show s'.registered.filter (· ≠ p) = _
        rw [h3]; rfl

theorem regInv_removeProcessor {U : Universe} [U.Passive] (hn : NoRaise U) {s : St} (hp : PInv U s)
    (h : RegInv U s) (t : Ty) : RegInv U (removeProcessor U s t).1 := by
  rcases removeProcessor_full hn s t with ⟨_, heq⟩ | ⟨st, p, hg, _, hsame, hreg⟩
  · rw [heq]; exact h
  · have hpin := (hp.procsIff st p).mp hg
    have hsorted : ∀ q, q ∈ (removeProcessor U s t).1.sorted ↔ (q ∈ s.sorted ∧ q ≠ p) := by
      intro q
      rw [hsame.sorted]
      simp only [dropProc, List.mem_filter]
      constructor
      · rintro ⟨h1, h2⟩
        refine ⟨h1, ?_⟩
        intro e; subst e
        simp [hpin.2] at h2
      · rintro ⟨h1, h2⟩
        refine ⟨h1, ?_⟩
        simp only [ne_eq, decide_not, Bool.not_eq_eq_eq_not, Bool.not_true, decide_eq_false_iff_not]
        intro hty
        exact h2 (hp.onePerType h1 hpin.1 (hty.trans hpin.2.symm))
    have hatt : ∀ o, Attached (removeProcessor U s t).1 o ↔ Attached s o :=
      attached_of_rows (fun e => row_of_ents (hsame.ents.trans rfl) e)
    have hnotatt : ¬ Attached s p := fun ha => h.disj p ha hpin.1
    refine ⟨?_, oneOwner_of_rows (fun e => row_of_ents (hsame.ents.trans rfl) e) h.one, ?_⟩
    · intro o ho
      rw [hreg, hatt, hsorted]
      have hr := h.reg o ho
      by_cases hop : o = p
      · subst hop
        simp only [ho, if_true, List.mem_filter, ne_eq, not_true_eq_false, decide_false, and_false,
          Bool.false_eq_true, or_false, false_iff]
        exact hnotatt
      · split
        · simp only [List.mem_filter, ne_eq, hop, not_false_eq_true, decide_true, and_true]
          exact hr
        · simp only [ne_eq, hop, not_false_eq_true, and_true]
          exact hr
    · intro o ho hm
      exact h.disj o ((hatt o).mp ho) ((hsorted o).mp hm).1

theorem regInv_addProcessor {U : Universe} [U.Passive] (hn : NoRaise U) {s : St} (hp : PInv U s) (h : RegInv U s)
    (p : Obj) (prio? : Option Int) (hfresh : ¬ Attached s p) :
    RegInv U (addProcessor U s p prio?).1 := by
  unfold addProcessor
  simp only
  -- the state after the optional replacement
  have key : ∀ s1 : St, RegInv U s1 → ¬ Attached s1 p → p ∉ s1.sorted →
      RegInv U (attachEvents U (insertProc U (setPrio s1 p prio?) p) p none).1 := by
    intro s1 h1 hna hns
    have ht := attachEvents_tables U (insertProc U (setPrio s1 p prio?) p) p none
    have hr := attachEvents_registered U (insertProc U (setPrio s1 p prio?) p) p none
    have hents : (insertProc U (setPrio s1 p prio?) p).ents = s1.ents := by cases prio? <;> rfl
    have hregs : (insertProc U (setPrio s1 p prio?) p).registered = s1.registered := by cases prio? <;> rfl
    have hsorted : ∀ q, q ∈ (insertProc U (setPrio s1 p prio?) p).sorted ↔ (q = p ∨ q ∈ s1.sorted) := by
      intro q
      have : (setPrio s1 p prio?).sorted = s1.sorted := by cases prio? <;> rfl
      show q ∈ insort U (setPrio s1 p prio?) p ↔ _
      rw [mem_insort, this]
    have hatt : ∀ o, Attached (attachEvents U (insertProc U (setPrio s1 p prio?) p) p none).1 o ↔ Attached s1 o :=
      attached_of_rows (fun e => row_of_ents (ht.ents.trans hents) e)
    refine ⟨?_, oneOwner_of_rows (fun e => row_of_ents (ht.ents.trans hents) e) h1.one, ?_⟩
    · intro o ho
      rw [hr, hatt, ht.sorted, hsorted, hregs]
      have hreg := h1.reg o ho
      by_cases hop : o = p
      · subst hop
        simp only [ho, if_true, mem_insertSorted, or_true, true_or]
      · split
        · rw [mem_insertSorted, hreg]; simp only [hop, or_false, false_or]
        · rw [hreg]; simp only [hop, false_or]
    · intro o ho hm
      rw [ht.sorted, hsorted] at hm
      rcases hm with rfl | hm
      · exact hna ((hatt _).mp ho)
      · exact h1.disj o ((hatt o).mp ho) hm
  split
  · rename_i s1 hx
    split at hx
    · rename_i hsome
      obtain ⟨q, hq⟩ := Option.isSome_iff_exists.mp hsome
      have hreg := regInv_removeProcessor hn hp h (tyOf U p)
      have hex := removeProcessor_exact U hp (tyOf U p) q hq
      have hents := (removeProcessor_ents U s (tyOf U p)).1
      simp only [Prod.mk.injEq] at hx
      rw [hx.1] at hreg hex hents
      refine key s1 hreg ?_ (fun hm => hex.2 p hm rfl)
      intro ha
      exact hfresh ((attached_of_rows (fun e => row_of_ents hents e) p).mp ha)
    · rename_i hnone
      simp only [Prod.mk.injEq] at hx
      rw [← hx.1]
      refine key s h hfresh ?_
      intro hm
      have := (hp.procsIff (tyOf U p) p).mpr ⟨hm, rfl⟩
      simp [this] at hnone
  · rename_i r hne
    split
    · exact regInv_removeProcessor hn hp h (tyOf U p)
    · exact h

end Desper.World

namespace Desper.World
open Desper

theorem deleteAll_eq_sweep (U : Universe) (s : St) (es : List Ent) :
    deleteAll U s es = sweep U s es := by
  induction es generalizing s with
  | nil => rfl
  | cons e es ih =>
    simp only [deleteAll, sweep, deleteEntity, if_true]
    cases hg : Dict.get? s.ents e with
    | none => rfl
    | some r =>
      simp only
      cases hx : removeTypes U s e (Dict.keys r) with
      | mk s' o => cases o <;> simp only [ih]

/-- removing the processors one by one (the loop of `clear`) leaves none -/
theorem removeProcs_empties {U : Universe} [U.Passive] (hn : NoRaise U) (ps : List Obj) :
    ∀ s : St, PInv U s → ps.Nodup → (∀ q, q ∈ s.sorted ↔ q ∈ ps) →
      (removeProcs U s ps).2 = .ok ∧ (removeProcs U s ps).1.sorted = [] := by
  induction ps with
  | nil =>
    intro s _ _ hm
    refine ⟨rfl, ?_⟩
    show s.sorted = []
    cases hs : s.sorted with
    | nil => rfl
    | cons a l => exact absurd ((hm a).mp (by rw [hs]; simp)) (by simp)
  | cons p ps ih =>
    intro s hp hnd hm
    rw [List.nodup_cons] at hnd
    have hpin : p ∈ s.sorted := (hm p).mpr (by simp)
    have hg := (hp.procsIff (tyOf U p) p).mpr ⟨hpin, rfl⟩
    have hinv := pinv_removeProcessor hp (tyOf U p)
    simp only [removeProcs]
    rcases removeProcessor_full hn s (tyOf U p) with ⟨hf, _⟩ | ⟨st, p', hg', hok, hsame, _⟩
    · obtain ⟨rest, hr⟩ := visit_head U (tyOf U p)
      rw [hr, List.find?_cons] at hf
      simp [hg] at hf
    · have hex := removeProcessor_exact U hp (tyOf U p) p hg
      cases hx : removeProcessor U s (tyOf U p) with
      | mk s' r =>
        obtain ⟨o, c⟩ := r
        rw [hx] at hok hinv hex hsame
        simp only at hok; subst hok
        simp only
        refine ih s' hinv hnd.2 ?_
        intro q
        -- which st was removed: the exact type of p
        have hst : st = tyOf U p := by
          have h1 : Dict.get? s'.procs (tyOf U p) = none := hex.1
          rw [hsame.procs] at h1
          simp only [dropProc, Dict.get?_erase] at h1
          by_cases hne : st = tyOf U p
          · exact hne
          · rw [if_neg hne, hg] at h1; simp at h1
        subst hst
        rw [hsame.sorted]
        simp only [dropProc, List.mem_filter]
        constructor
        · rintro ⟨h1, h2⟩
          have := (hm q).mp h1
          simp only [List.mem_cons] at this
          rcases this with rfl | h3
          · simp at h2
          · exact h3
        · intro h1
          have hq : q ∈ s.sorted := (hm q).mpr (by simp [h1])
          refine ⟨hq, ?_⟩
          simp only [ne_eq, decide_not, Bool.not_eq_eq_eq_not, Bool.not_true, decide_eq_false_iff_not]
          intro hty
          have := hp.onePerType hq hpin hty
          subst this; exact hnd.1 h1

end Desper.World

namespace Desper.World
open Desper

theorem removeProcs_ents (U : Universe) [U.NoReenter] (s : St) (ps : List Obj) :
    (removeProcs U s ps).1.ents = s.ents := by
  induction ps generalizing s with
  | nil => rfl
  | cons p ps ih =>
    simp only [removeProcs]
    have h1 := (removeProcessor_ents U s (tyOf U p)).1
    cases hx : removeProcessor U s (tyOf U p) with
    | mk s' r =>
      obtain ⟨o, c⟩ := r
      rw [hx] at h1
      cases o <;> simp only
      · rw [ih, h1]
      all_goals exact h1

theorem regInv_empty {U : Universe} {s : St} (hrows : ∀ e, (Dict.get? s.ents e).getD [] = [])
    (hreg : s.registered = []) (hsorted : s.sorted = []) : RegInv U s := by
  have hnoatt : ∀ o, ¬ Attached s o := by
    rintro o ⟨e, t, h1⟩
    have : row s e = [] := hrows e
    rw [this] at h1; simp at h1
  refine ⟨?_, ?_, ?_⟩
  · intro o _
    rw [hreg, hsorted]
    constructor
    · intro h1; simp at h1
    · rintro (h1 | h1)
      · exact absurd h1 (hnoatt o)
      · simp at h1
  · intro e t e' t' o h1 _
    exact absurd ⟨e, t, h1⟩ (hnoatt o)
  · intro o h1; exact absurd h1 (hnoatt o)

theorem regInv_clear {U : Universe} [U.Passive] (hn : NoRaise U) {s : St} (ht : TabInv U s) (hp : PInv U s) :
    RegInv U (clear U s).1 := by
  unfold clear
  rw [deleteAll_eq_sweep]
  have hpres : ∀ e ∈ Dict.keys s.ents, (Dict.get? s.ents e).isSome :=
    fun e he => (Dict.mem_keys_iff _ e).mp he
  obtain ⟨t1, t2, t3⟩ := sweep_total hn (Dict.keys s.ents) s ht ht.entKeys hpres
  have hps := pinv_sameProcs hp (sweep_procs U s (Dict.keys s.ents))
  cases hx : sweep U s (Dict.keys s.ents) with
  | mk s1 o1 =>
    rw [hx] at t1 t2 t3 hps
    simp only at t1; subst t1
    simp only
    have hrows : ∀ e, (Dict.get? s1.ents e).getD [] = [] := by
      intro e
      by_cases he : e ∈ Dict.keys s.ents
      · exact t2 e he
      · have h1 := t3 e he
        have h2 : Dict.get? s.ents e = none := by
          cases hg : Dict.get? s.ents e with
          | none => rfl
          | some r => exact absurd ((Dict.mem_keys_iff _ e).mpr (by simp [hg])) he
        simp [row, h1, h2]
    have hps' : PInv U { s1 with dead := [] } := pinv_of_tables hps rfl rfl rfl
    obtain ⟨r1, r2⟩ := removeProcs_empties hn { s1 with dead := [] }.sorted { s1 with dead := [] } hps'
      hps'.nodup (fun q => Iff.rfl)
    have hents := removeProcs_ents U { s1 with dead := [] } { s1 with dead := [] }.sorted
    cases hy : removeProcs U { s1 with dead := [] } { s1 with dead := [] }.sorted with
    | mk s2 o2 =>
      rw [hy] at r1 r2 hents
      simp only at r1; subst r1
      simp only
      exact regInv_empty (by rw [hents]; exact hrows) rfl r2

/-- the guard under which "registered iff attached" is an invariant: instances are attached fresh
(not attached anywhere, not a processor), a `create_entity` gets distinct instances of pairwise
distinct types (D5a is outside), and processors are not components -/
def opFresh (U : Universe) (s : St) : Op → Prop
  | .create _ cs => FreshCreate U s cs
  | .add _ c => ¬ Attached s c ∧ c ∉ s.sorted
  | .addProc p _ => ¬ Attached s p
  | _ => True

theorem regInv_step {U : Universe} [U.Passive] (hn : NoRaise U) {s : St} (ht : TabInv U s) (hp : PInv U s)
    (h : RegInv U s) (op : Op) (hf : opFresh U s op) : RegInv U (step U s op).1 := by
  cases op with
  | create id? cs => exact regInv_createEntity hn ht h id? cs hf
  | add e c => exact regInv_addComponent hn h e c hf.1 hf.2
  | remove e t => exact regInv_removeComponent hn h e t
  | delete e imm => exact regInv_deleteEntity hn h e imm
  | process dt => exact regInv_process hn h dt
  | clear => exact regInv_clear hn ht hp
  | addProc p prio? => exact regInv_addProcessor hn hp h p prio? hf
  | rmProc t => exact regInv_removeProcessor hn hp h t
  | enable b =>
    have ht' := setEnabled_tables U s b
    have hr : (setEnabled U s b).1.registered = s.registered := by
      unfold setEnabled; simp only
      split
      · exact releaseQ_reg U _ _
      · rfl
    exact regInv_fields h ht'.ents hr ht'.sorted
  | dispatch ev args =>
    exact regInv_fields h (dispatchPlain_tables U s ev args).ents (dispatchPlain_reg U s ev args)
      (dispatchPlain_tables U s ev args).sorted

/-- every operation of the history meets `opFresh` in the state it is applied to -/
def FreshHist (U : Universe) : St → List Op → Prop
  | _, [] => True
  | s, op :: ops => opFresh U s op ∧ FreshHist U (step U s op).1 ops

theorem regInv_run_from {U : Universe} [U.Passive] (hn : NoRaise U) (ops : List Op) :
    ∀ s : St, TabInv U s → PInv U s → RegInv U s → FreshHist U s ops → RegInv U (run U s ops) := by
  induction ops with
  | nil => intro s _ _ h _; exact h
  | cons op ops ih =>
    intro s ht hp h hf
    exact ih (step U s op).1 (tabInv_step ht op) (pinv_step hp op) (regInv_step hn ht hp h op hf.1) hf.2

theorem regInv_run {U : Universe} [U.Passive] (hn : NoRaise U) (hints : List (List Ent)) (ops : List Op)
    (hf : FreshHist U { sweepHints := hints } ops) : RegInv U (run U { sweepHints := hints } ops) :=
  regInv_run_from hn ops _ (tabInv_init U hints) (pinv_init U hints)
    (regInv_empty (by intro e; rfl) rfl rfl) hf

end Desper.World

namespace Desper.World
open Desper

/-- decidable over-approximation of `Attached`, for concrete states -/
def attachedB (s : St) (o : Obj) : Bool := s.ents.any (fun er => er.2.any (fun tc => tc.2 == o))

theorem not_attached_of_attachedB {s : St} {o : Obj} (h : attachedB s o = false) : ¬ Attached s o := by
  rintro ⟨e, t, hg⟩
  have hmem := Dict.get?_some_mem hg
  cases hr : Dict.get? s.ents e with
  | none => simp [row, hr] at hmem
  | some r =>
    have hrow : row s e = r := row_eq_of_get? hr
    rw [hrow] at hmem
    have her := Dict.get?_some_mem hr
    have : attachedB s o = true := by
      simp only [attachedB, List.any_eq_true]
      exact ⟨(e, r), her, (t, o), hmem, by simp⟩
    rw [h] at this; exact absurd this (by simp)

end Desper.World
