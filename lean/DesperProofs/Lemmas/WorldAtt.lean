import DesperProofs.Lemmas.WorldReg
/-
  Registered as a listener exactly while attached (C02): the invariant and its preservation.
-/
namespace Desper.World
open Desper

/-- `o` is attached to some entity -/
def Attached (s : St) (o : Obj) : Prop := ∃ e t, Dict.get? (row s e) t = some o

/-- an instance is attached at most once -/
def OneOwner (s : St) : Prop :=
  ∀ e t e' t' o, Dict.get? (row s e) t = some o → Dict.get? (row s e') t' = some o → e = e' ∧ t = t'

structure RegInv (U : Universe) (s : St) : Prop where
  /-- a handler object is registered iff it is an attached component or an added processor -/
  reg : ∀ o, (U.mapOf o).isSome → (o ∈ s.registered ↔ (Attached s o ∨ o ∈ s.sorted))
  one : OneOwner s
  /-- components and processors are different objects -/
  disj : ∀ o, Attached s o → o ∉ s.sorted

theorem attached_of_rows {s s' : St} (h : ∀ e, row s' e = row s e) (o : Obj) :
    Attached s' o ↔ Attached s o := by
  simp only [Attached, h]

theorem attached_sameTables {s s' : St} (h : SameTables s s') (o : Obj) : Attached s' o ↔ Attached s o :=
  attached_of_rows (fun e => row_of_ents h.ents e) o

theorem oneOwner_of_rows {s s' : St} (h : ∀ e, row s' e = row s e) (ho : OneOwner s) : OneOwner s' := by
  intro e t e' t' o h1 h2
  rw [h] at h1 h2
  exact ho e t e' t' o h1 h2

/-- detaching the component at `(e, st)`: it is no longer attached (it was attached only there),
everything else keeps its attachment -/
theorem attached_detach {s : St} (ho : OneOwner s) (e : Ent) (st : Ty) (c : Obj)
    (hc : Dict.get? (row s e) st = some c) (o : Obj) :
    Attached (detach s e st) o ↔ (Attached s o ∧ o ≠ c) := by
  constructor
  · rintro ⟨e', t', h⟩
    rw [row_detach] at h
    split at h
    · simp at h
    · rename_i hne
      refine ⟨⟨e', t', h⟩, ?_⟩
      intro heq; subst heq
      have := ho e st e' t' o hc h
      exact hne ⟨this.1, this.2⟩
  · rintro ⟨⟨e', t', h⟩, hne⟩
    refine ⟨e', t', ?_⟩
    rw [row_detach]
    split
    · rename_i hh
      obtain ⟨rfl, rfl⟩ := hh
      rw [hc] at h; simp at h; exact absurd h.symm hne
    · exact h

theorem oneOwner_detach {s : St} (ho : OneOwner s) (e : Ent) (st : Ty) : OneOwner (detach s e st) := by
  intro e1 t1 e2 t2 o h1 h2
  rw [row_detach] at h1 h2
  split at h1
  · simp at h1
  · split at h2
    · simp at h2
    · exact ho e1 t1 e2 t2 o h1 h2

/-- attaching a fresh object into an empty slot -/
theorem attached_attachTables (U : Universe) {s : St} (e : Ent) (c : Obj)
    (hslot : Dict.get? (row s e) (tyOf U c) = none) (o : Obj) :
    Attached (attachTables U s e c) o ↔ (Attached s o ∨ o = c) := by
  constructor
  · rintro ⟨e', t', h⟩
    rw [row_attachTables] at h
    split at h
    · simp at h; exact .inr h.symm
    · exact .inl ⟨e', t', h⟩
  · rintro (⟨e', t', h⟩ | rfl)
    · refine ⟨e', t', ?_⟩
      rw [row_attachTables]
      split
      · rename_i hh
        obtain ⟨rfl, rfl⟩ := hh
        rw [hslot] at h; simp at h
      · exact h
    · exact ⟨e, tyOf U o, by rw [row_attachTables]; simp⟩

theorem oneOwner_attachTables (U : Universe) {s : St} (ho : OneOwner s) (e : Ent) (c : Obj)
    (hslot : Dict.get? (row s e) (tyOf U c) = none) (hfresh : ¬ Attached s c) :
    OneOwner (attachTables U s e c) := by
  intro e1 t1 e2 t2 o h1 h2
  rw [row_attachTables] at h1 h2
  split at h1
  · rename_i hh1
    simp at h1; subst h1
    split at h2
    · rename_i hh2
      exact ⟨hh1.1.symm.trans hh2.1, hh1.2.symm.trans hh2.2⟩
    · exact absurd ⟨e2, t2, h2⟩ hfresh
  · split at h2
    · simp at h2; subst h2
      exact absurd ⟨e1, t1, h1⟩ hfresh
    · exact ho e1 t1 e2 t2 o h1 h2

end Desper.World

namespace Desper.World
open Desper

/-- complete description of `remove_component` when no callback raises -/
theorem removeComponent_full {U : Universe} (hn : NoRaise U) (s : St) (e : Ent) (t : Ty) :
    ((visit U t).find? (fun st => (Dict.get? (row s e) st).isSome) = none ∧
        removeComponent U s e t = (s, .ok, none)) ∨
    (∃ st c, (visit U t).find? (fun st => (Dict.get? (row s e) st).isSome) = some st ∧
        Dict.get? (row s e) st = some c ∧ (removeComponent U s e t).2.1 = .ok ∧
        (removeComponent U s e t).2.2 = some c ∧
        SameTables (detach s e st) (removeComponent U s e t).1 ∧
        (removeComponent U s e t).1.registered =
          if (U.mapOf c).isSome then s.registered.filter (· ≠ c) else s.registered) := by
  unfold removeComponent
  cases hf : (visit U t).find? (fun st => (Dict.get? (row s e) st).isSome) with
  | none => left; exact ⟨rfl, rfl⟩
  | some st =>
    right
    have hsome := List.find?_some hf
    simp only [Option.isSome_iff_exists] at hsome
    obtain ⟨c, hc⟩ := hsome
    refine ⟨st, c, rfl, hc, ?_⟩
    simp only [hc]
    cases hm : U.mapOf c with
    | none =>
      simp only [Option.isSome_none, Bool.false_eq_true, if_false]
      exact ⟨trivial, trivial, .refl _, detach_reg s e st⟩
    | some m =>
      simp only [Option.isSome_some, if_true]
      have h1 := lifecycle_tables U (detach s e st) onRemove c m (some e)
      have h2 := lifecycle_ok hn (detach s e st) onRemove c m (some e)
      have h3 := lifecycle_reg U (detach s e st) onRemove c m (some e)
      cases hl : lifecycle U (detach s e st) onRemove c m (some e) with
      | mk s' o =>
        rw [hl] at h1 h2 h3
        simp only at h2; subst h2
        refine ⟨rfl, rfl, SameTables.trans h1 (removeHandler_tables s' c), ?_⟩
        show s'.registered.filter (· ≠ c) = _
        rw [h3, detach_reg]

theorem regInv_removeComponent {U : Universe} (hn : NoRaise U) {s : St} (h : RegInv U s) (e : Ent)
    (t : Ty) : RegInv U (removeComponent U s e t).1 := by
  rcases removeComponent_full hn s e t with ⟨_, heq⟩ | ⟨st, c, _, hc, _, _, hsame, hreg⟩
  · rw [heq]; exact h
  · have hatt : ∀ o, Attached (removeComponent U s e t).1 o ↔ (Attached s o ∧ o ≠ c) := by
      intro o
      rw [attached_sameTables hsame, attached_detach h.one e st c hc]
    have hsorted : (removeComponent U s e t).1.sorted = s.sorted := by
      rw [hsame.sorted]; exact (detach_procs s e st).sorted
    have hcatt : Attached s c := ⟨e, st, hc⟩
    refine ⟨?_, ?_, ?_⟩
    · intro o ho
      rw [hreg, hatt, hsorted]
      by_cases hoc : o = c
      · subst hoc
        simp only [ho, if_true, List.mem_filter, ne_eq, not_true_eq_false, decide_false, and_false,
          Bool.false_eq_true, false_or, false_iff]
        exact h.disj o hcatt
      · have hr := h.reg o ho
        split
        · simp only [List.mem_filter, ne_eq, hoc, not_false_eq_true, decide_true, and_true]
          exact hr
        · simp only [ne_eq, hoc, not_false_eq_true, and_true]
          exact hr
    · exact oneOwner_of_rows (fun e' => row_of_ents hsame.ents e') (oneOwner_detach h.one e st)
    · intro o ho
      rw [hsorted]
      exact h.disj o ((hatt o).mp ho).1

theorem regInv_removeTypes {U : Universe} (hn : NoRaise U) {s : St} (h : RegInv U s) (e : Ent)
    (ts : List Ty) : RegInv U (removeTypes U s e ts).1 := by
  induction ts generalizing s with
  | nil => exact h
  | cons t ts ih =>
    simp only [removeTypes]
    have h1 := regInv_removeComponent hn h e t
    cases hx : removeComponent U s e t with
    | mk s' r =>
      obtain ⟨o, c⟩ := r
      rw [hx] at h1
      cases o <;> simp only
      · exact ih h1
      all_goals exact h1

end Desper.World
