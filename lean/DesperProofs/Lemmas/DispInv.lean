import DesperProofs.Lemmas.Dict
import DesperProofs.Lemmas.DispReach
/-
  Table lemmas and the dispatcher invariant, proved per primitive step.
-/
namespace Desper.Disp
open Desper

/-- listeners of an event (the `_events[ev]` set, empty when the key is absent) -/
def evl (s : St) (ev : String) : List (Obj × String) := (Dict.get? s.events ev).getD []
/-- `(event, method)` pairs recorded for a handler (`_handlers[ref]`) -/
def hl (s : St) (r : Obj) : List (String × String) := (Dict.get? s.handlers r).getD []

/-- the fold of `add_handler` over the mapping -/
def addFold (r : Obj) (m : Mapping) (E : Dict String (List (Obj × String))) :=
  m.foldl (fun ev p => Dict.set ev p.1 (setAdd ((Dict.get? ev p.1).getD []) (r, p.2))) E

theorem mem_addFold (r : Obj) (m : Mapping) (E : Dict String (List (Obj × String)))
    (e : String) (x : Obj × String) :
    x ∈ (Dict.get? (addFold r m E) e).getD [] ↔
      x ∈ (Dict.get? E e).getD [] ∨ (x.1 = r ∧ (e, x.2) ∈ m) := by
  induction m generalizing E with
  | nil => simp [addFold]
  | cons p rest ih =>
    have : addFold r (p :: rest) E =
        addFold r rest (Dict.set E p.1 (setAdd ((Dict.get? E p.1).getD []) (r, p.2))) := rfl
    rw [this, ih, Dict.get?_set]
    obtain ⟨pe, pm⟩ := p
    obtain ⟨xr, xm⟩ := x
    by_cases h : pe = e
    · subst h
      simp only [if_true, Option.getD_some, mem_setAdd, List.mem_cons, Prod.mk.injEq]
      grind
    · have h' : ¬ e = pe := fun a => h a.symm
      simp only [h, if_false, List.mem_cons, Prod.mk.injEq, h']
      grind

theorem isSome_addFold (r : Obj) (m : Mapping) (E : Dict String (List (Obj × String)))
    (e : String) : (Dict.get? E e).isSome → (Dict.get? (addFold r m E) e).isSome := by
  induction m generalizing E with
  | nil => simp [addFold]
  | cons p rest ih =>
    intro h
    have : addFold r (p :: rest) E =
        addFold r rest (Dict.set E p.1 (setAdd ((Dict.get? E p.1).getD []) (r, p.2))) := rfl
    rw [this]; apply ih; rw [Dict.get?_set]; split <;> simp_all

/-- when every entry is present (which the invariant guarantees) the fold succeeds and removes
exactly the entries of `r` -/
theorem remFold_ok (r : Obj) (entries : List (String × String))
    (E : Dict String (List (Obj × String)))
    (hnd : entries.Nodup)
    (hpres : ∀ p ∈ entries, (r, p.2) ∈ (Dict.get? E p.1).getD []) :
    (entries.foldl (remStep r) (E, Outcome.ok)).2 = .ok ∧
    ∀ e x, x ∈ (Dict.get? (entries.foldl (remStep r) (E, Outcome.ok)).1 e).getD [] ↔
      x ∈ (Dict.get? E e).getD [] ∧ ¬ (x.1 = r ∧ (e, x.2) ∈ entries) := by
  induction entries generalizing E with
  | nil => simp
  | cons p rest ih =>
    obtain ⟨pe, pm⟩ := p
    have hp := hpres (pe, pm) (by simp)
    simp only at hp
    cases hg : Dict.get? E pe with
    | none => simp [hg] at hp
    | some l =>
      simp only [hg, Option.getD_some] at hp
      have hstep : remStep r (E, Outcome.ok) (pe, pm) =
          (Dict.set E pe (l.filter (· ≠ (r, pm))), Outcome.ok) := by
        simp [remStep, hg, hp]
      rw [List.foldl_cons, hstep]
      have hnd' : rest.Nodup := (List.nodup_cons.mp hnd).2
      have hnotin : (pe, pm) ∉ rest := (List.nodup_cons.mp hnd).1
      have hpres' : ∀ q ∈ rest, (r, q.2) ∈
          (Dict.get? (Dict.set E pe (l.filter (· ≠ (r, pm)))) q.1).getD [] := by
        intro q hq
        have := hpres q (List.mem_cons_of_mem _ hq)
        rw [Dict.get?_set]
        split
        · rename_i h; subst h
          simp only [hg, Option.getD_some] at this
          simp only [Option.getD_some, List.mem_filter, this, true_and]
          simp only [ne_eq, Prod.mk.injEq, true_and, decide_not, Bool.not_eq_eq_eq_not,
            Bool.not_true, decide_eq_false_iff_not]
          intro h2; apply hnotin; rw [← h2]; exact hq
        · exact this
      obtain ⟨ih1, ih2⟩ := ih _ hnd' hpres'
      refine ⟨ih1, ?_⟩
      intro e x
      rw [ih2, Dict.get?_set]
      obtain ⟨xr, xm⟩ := x
      by_cases h : pe = e
      · subst h
        simp only [if_true, Option.getD_some, hg, List.mem_filter, List.mem_cons, Prod.mk.injEq]
        simp only [ne_eq, Prod.mk.injEq, decide_not, Bool.not_eq_eq_eq_not, Bool.not_true,
          decide_eq_false_iff_not]
        grind
      · have h' : ¬ e = pe := fun a => h a.symm
        simp only [h, if_false, List.mem_cons, Prod.mk.injEq, h']
        grind

end Desper.Disp

namespace Desper.Disp
open Desper

theorem nodup_of_map {α β : Type} (f : α → β) (l : List α) (h : (l.map f).Nodup) : l.Nodup := by
  induction l with
  | nil => simp
  | cons a l ih =>
    simp only [List.map_cons, List.nodup_cons, List.mem_map, not_exists, not_and] at h ⊢
    exact ⟨fun hm => h.1 a hm rfl, ih h.2⟩

/-- Python dicts have unique keys -/
structure Universe.WF (U : Universe) : Prop where
  nodupKeys : ∀ o m, U.mapping o = some m → (m.map (·.1)).Nodup

/-- the table part of the dispatcher invariant -/
structure TInv (U : Universe) (s : St) : Prop where
  /-- `_events` and `_handlers` are inverse tables (events.py:50-95) -/
  inverse : ∀ r ev m, (r, m) ∈ evl s ev ↔ (ev, m) ∈ hl s r
  /-- what is recorded for a handler is its class mapping -/
  mapping : ∀ r l, Dict.get? s.handlers r = some l → U.mapping r = some l

/-- the dispatcher invariant -/
structure Inv (U : Universe) (s : St) : Prop extends TInv U s where
  /-- the tables mention live objects only (weak references, events.py:59,77-88) -/
  alive : ∀ r l, Dict.get? s.handlers r = some l → s.alive r = true
  dying : ∀ r, r ∈ s.dying → r ∈ s.pinned ∧ r ∉ s.held
  pinnedOk : ∀ r, r ∈ s.pinned → r ∈ s.held ∨ r ∈ s.dying

theorem inv_init (U : Universe) (held hints : List Obj) :
    Inv U { held := held, hints := hints } := by
  refine ⟨⟨?_, ?_⟩, ?_, ?_, ?_⟩ <;> simp [evl, hl]

theorem St.alive_iff (s : St) (r : Obj) : s.alive r = true ↔ r ∈ s.held ∨ r ∈ s.pinned := by
  simp [St.alive]

theorem removeWeak_none {s : St} {o : Obj} (hg : Dict.get? s.handlers o = none) :
    removeWeak s o = (s, .ok) := by
  unfold removeWeak; rw [hg]

theorem removeWeak_some {s : St} {o : Obj} {entries : List (String × String)}
    (hg : Dict.get? s.handlers o = some entries)
    (hok : (entries.foldl (remStep o) (s.events, Outcome.ok)).2 = .ok) :
    removeWeak s o = ({ s with events := (entries.foldl (remStep o) (s.events, Outcome.ok)).1,
                               handlers := Dict.erase s.handlers o }, .ok) := by
  unfold removeWeak; rw [hg]; simp only [hok]

theorem inv_removeWeak {U : Universe} (hU : U.WF) {s : St} (h : TInv U s) (o : Obj) :
    (removeWeak s o).2 = .ok ∧
    (∀ ev x, x ∈ evl (removeWeak s o).1 ev ↔ x ∈ evl s ev ∧ x.1 ≠ o) ∧
    (∀ r, Dict.get? (removeWeak s o).1.handlers r = if o = r then none else Dict.get? s.handlers r) ∧
    (removeWeak s o).1.held = s.held ∧ (removeWeak s o).1.pinned = s.pinned ∧
    (removeWeak s o).1.dying = s.dying ∧ (removeWeak s o).1.log = s.log ∧
    (removeWeak s o).1.queue = s.queue ∧ (removeWeak s o).1.enabled = s.enabled ∧
    (removeWeak s o).1.hints = s.hints ∧ (removeWeak s o).1.calls = s.calls := by
  cases hg : Dict.get? s.handlers o with
  | none =>
    rw [removeWeak_none hg]
    refine ⟨rfl, ?_, ?_, rfl, rfl, rfl, rfl, rfl, rfl, rfl, rfl⟩
    · intro ev x
      constructor
      · intro hx
        refine ⟨hx, ?_⟩
        intro he
        obtain ⟨xr, xm⟩ := x
        simp only at he; subst he
        have := (h.inverse xr ev xm).mp hx
        simp [hl, hg] at this
      · exact fun hx => hx.1
    · intro r; split
      · rename_i e; subst e; exact hg
      · rfl
  | some entries =>
    have hmap := h.mapping o entries hg
    have hnd : entries.Nodup := nodup_of_map _ _ (hU.nodupKeys o entries hmap)
    have hpres : ∀ p ∈ entries, (o, p.2) ∈ (Dict.get? s.events p.1).getD [] := by
      intro p hp
      have := (h.inverse o p.1 p.2).mpr (by simp [hl, hg, hp])
      exact this
    obtain ⟨h1, h2⟩ := remFold_ok o entries s.events hnd hpres
    rw [removeWeak_some hg h1]
    refine ⟨rfl, ?_, ?_, rfl, rfl, rfl, rfl, rfl, rfl, rfl, rfl⟩
    · intro ev x
      simp only [evl]
      rw [h2]
      obtain ⟨xr, xm⟩ := x
      constructor
      · rintro ⟨hx, hn⟩
        refine ⟨hx, ?_⟩
        intro he; simp only at he; subst he
        apply hn
        refine ⟨rfl, ?_⟩
        have := (h.inverse xr ev xm).mp hx
        simpa [hl, hg] using this
      · rintro ⟨hx, hn⟩
        exact ⟨hx, fun hc => hn hc.1⟩
    · intro r
      simp only [Dict.get?_erase]

theorem inv_removeWeak_inv {U : Universe} (hU : U.WF) {s : St} (h : Inv U s) (o : Obj) :
    Inv U (removeWeak s o).1 := by
  obtain ⟨_, hev, hh, hheld, hpin, hdy, _, _, _, _, _⟩ := inv_removeWeak hU h.toTInv o
  refine ⟨⟨?_, ?_⟩, ?_, ?_, ?_⟩
  · intro r ev m
    rw [hev]
    simp only [hl, hh]
    split
    · rename_i e; subst e; simp
    · rename_i e
      have := h.inverse r ev m
      simp only [hl] at this
      rw [this]
      simp only [ne_eq, and_iff_left_iff_imp]
      intro _ hc; exact e hc.symm
  · intro r l; rw [hh]; split
    · simp
    · exact h.mapping r l
  · intro r l; rw [hh]; split
    · simp
    · intro hg
      have := h.alive r l hg
      simp only [St.alive, hheld, hpin] at this ⊢
      exact this
  · intro r; rw [hdy, hpin, hheld]; exact h.dying r
  · intro r; rw [hdy, hpin, hheld]; exact h.pinnedOk r

end Desper.Disp

namespace Desper.Disp
open Desper

theorem finalize_spec {U : Universe} (hU : U.WF) {s : St} (h : TInv U s) (o : Obj) :
    (∀ ev x, x ∈ evl (finalize s o) ev ↔ x ∈ evl s ev ∧ x.1 ≠ o) ∧
    (∀ r, Dict.get? (finalize s o).handlers r = if o = r then none else Dict.get? s.handlers r) ∧
    (finalize s o).held = s.held ∧ (finalize s o).pinned = s.pinned ∧
    (finalize s o).dying = s.dying.filter (· ≠ o) ∧ (finalize s o).log = s.log ∧
    (finalize s o).queue = s.queue ∧ (finalize s o).enabled = s.enabled ∧
    (finalize s o).hints = s.hints ∧ (finalize s o).calls = s.calls := by
  have h' : TInv U { s with dying := s.dying.filter (· ≠ o) } := ⟨h.inverse, h.mapping⟩
  obtain ⟨_, a, b, c, d, e, f, g, i, j, k⟩ := inv_removeWeak hU h' o
  exact ⟨a, b, c, d, e, f, g, i, j, k⟩

theorem tinv_of_tables {U : Universe} {s s' : St} (h : TInv U s)
    (he : s'.events = s.events) (hh : s'.handlers = s.handlers) : TInv U s' := by
  constructor
  · intro r ev m; simp only [evl, hl, he, hh]; exact h.inverse r ev m
  · intro r l; rw [hh]; exact h.mapping r l

theorem inv_finalize' {U : Universe} (hU : U.WF) {s : St} (o : Obj) (ht : TInv U s)
    (hal : ∀ r l, r ≠ o → Dict.get? s.handlers r = some l → s.alive r = true)
    (hdying : ∀ r, r ∈ s.dying → r ≠ o → r ∈ s.pinned ∧ r ∉ s.held)
    (hpo : ∀ r, r ∈ s.pinned → r ∈ s.held ∨ r ∈ s.dying)
    (hpin : o ∉ s.pinned) : Inv U (finalize s o) := by
  obtain ⟨hev, hh, hheld, hpn, hdy, _⟩ := finalize_spec hU ht o
  refine ⟨⟨?_, ?_⟩, ?_, ?_, ?_⟩
  · intro r ev m
    rw [hev]; simp only [hl, hh]
    split
    · rename_i e; subst e; simp
    · rename_i e
      have := ht.inverse r ev m
      simp only [hl] at this
      rw [this]
      simp only [ne_eq, and_iff_left_iff_imp]
      intro _ hc; exact e hc.symm
  · intro r l; rw [hh]; split
    · simp
    · exact ht.mapping r l
  · intro r l; rw [hh]; split
    · simp
    · rename_i e
      intro hg
      have := hal r l (fun c => e c.symm) hg
      simp only [St.alive, hheld, hpn] at this ⊢
      exact this
  · intro r; rw [hdy, hpn, hheld]
    intro hr
    simp only [List.mem_filter] at hr
    exact hdying r hr.1 (by simpa using hr.2)
  · intro r; rw [hdy, hpn, hheld]
    intro hr
    rcases hpo r hr with h1 | h1
    · exact .inl h1
    · right
      simp only [List.mem_filter, h1, true_and]
      simp only [ne_eq, decide_not, Bool.not_eq_eq_eq_not, Bool.not_true, decide_eq_false_iff_not]
      intro e; subst e; exact hpin hr

theorem inv_finalize {U : Universe} (hU : U.WF) {s : St} (h : Inv U s) (o : Obj)
    (hpin : o ∉ s.pinned) : Inv U (finalize s o) :=
  inv_finalize' hU o h.toTInv (fun r l _ => h.alive r l) (fun r hr _ => h.dying r hr) h.pinnedOk hpin

end Desper.Disp

namespace Desper.Disp
open Desper

theorem addHandler_spec (s : St) (o : Obj) (m : Mapping) :
    (∀ ev x, x ∈ evl (addHandler s o m) ev ↔ x ∈ evl s ev ∨ (x.1 = o ∧ (ev, x.2) ∈ m)) ∧
    (∀ r, Dict.get? (addHandler s o m).handlers r = if o = r then some m else Dict.get? s.handlers r) ∧
    (addHandler s o m).held = s.held ∧ (addHandler s o m).pinned = s.pinned ∧
    (addHandler s o m).dying = s.dying ∧ (addHandler s o m).log = s.log ∧
    (addHandler s o m).queue = s.queue ∧ (addHandler s o m).enabled = s.enabled ∧
    (addHandler s o m).hints = s.hints ∧ (addHandler s o m).calls = s.calls := by
  refine ⟨?_, ?_, rfl, rfl, rfl, rfl, rfl, rfl, rfl, rfl⟩
  · intro ev x
    exact mem_addFold o m s.events ev x
  · intro r
    simp only [addHandler, Dict.get?_set]

theorem inv_addHandler {U : Universe} {s : St} (h : Inv U s) (o : Obj) (m : Mapping)
    (hh : s.held.contains o = true) (hm : U.mapping o = some m) : Inv U (addHandler s o m) := by
  obtain ⟨hev, hhd, hheld, hpin, hdy, _⟩ := addHandler_spec s o m
  refine ⟨⟨?_, ?_⟩, ?_, ?_, ?_⟩
  · intro r ev mm
    rw [hev]; simp only [hl, hhd]
    split
    · rename_i e; subst e
      simp only [Option.getD_some, true_and]
      constructor
      · rintro (h1 | h1)
        · have := (h.inverse o ev mm).mp h1
          simp only [hl] at this
          cases hg : Dict.get? s.handlers o with
          | none => simp [hg] at this
          | some l =>
            have := h.mapping o l hg
            simp_all
        · exact h1
      · exact fun h1 => .inr h1
    · rename_i e
      have := h.inverse r ev mm
      simp only [hl] at this
      rw [← this]
      constructor
      · rintro (h1 | h1)
        · exact h1
        · exact absurd h1.1.symm e
      · exact fun h1 => .inl h1
  · intro r l; rw [hhd]; split
    · rename_i e; subst e; intro h1; simp at h1; subst h1; exact hm
    · exact h.mapping r l
  · intro r l; rw [hhd]; split
    · rename_i e; subst e; intro _
      simp only [St.alive, hheld, hh, Bool.true_or]
    · intro hg
      have := h.alive r l hg
      simp only [St.alive, hheld, hpin] at this ⊢
      exact this
  · intro r; rw [hdy, hpin, hheld]; exact h.dying r
  · intro r; rw [hdy, hpin, hheld]; exact h.pinnedOk r

theorem inv_fields {U : Universe} {s s' : St} (h : Inv U s)
    (he : s'.events = s.events) (hh : s'.handlers = s.handlers) (hheld : s'.held = s.held)
    (hpin : s'.pinned = s.pinned) (hdy : s'.dying = s.dying) : Inv U s' := by
  refine ⟨tinv_of_tables h.toTInv he hh, ?_, ?_, ?_⟩
  · intro r l; rw [hh]; intro hg
    have := h.alive r l hg
    simp only [St.alive, hheld, hpin] at this ⊢
    exact this
  · intro r; rw [hdy, hpin, hheld]; exact h.dying r
  · intro r; rw [hdy, hpin, hheld]; exact h.pinnedOk r

theorem inv_prim {U : Universe} (hU : U.WF) {s s' : St} (h : Inv U s) (p : Prim U s s') :
    Inv U s' := by
  cases p with
  | push e _ => exact inv_fields h rfl rfl rfl rfl rfl
  | add o m hh hm => exact inv_addHandler h o m hh hm
  | removeWeak o => exact inv_removeWeak_inv hU h o
  | drop o hh =>
    unfold dropObj
    simp only
    split
    · rename_i hp
      -- stays registered while pinned; becomes dying
      refine ⟨tinv_of_tables h.toTInv rfl rfl, ?_, ?_, ?_⟩
      · intro r l hg
        have := h.alive r l hg
        simp only [St.alive, Bool.or_eq_true, List.contains_iff_mem, List.mem_filter] at this ⊢
        rcases this with h2 | h2
        · by_cases e : r = o
          · subst e; right; simpa using hp
          · left; exact ⟨h2, by simpa using e⟩
        · exact .inr h2
      · intro r hr
        simp only [List.mem_cons] at hr
        rcases hr with e | hr
        · subst e
          refine ⟨by simpa using hp, ?_⟩
          simp
        · have := h.dying r hr
          refine ⟨this.1, ?_⟩
          simp only [List.mem_filter, not_and]
          intro h3; exact absurd h3 this.2
      · intro r hr
        rcases h.pinnedOk r hr with h2 | h2
        · by_cases e : r = o
          · subst e; right; simp
          · left; simp only [List.mem_filter]; exact ⟨h2, by simpa using e⟩
        · right; exact List.mem_cons_of_mem _ h2
    · rename_i hp
      have hp' : o ∉ s.pinned := by simpa using hp
      refine inv_finalize' hU o
        (tinv_of_tables h.toTInv rfl rfl : TInv U { s with held := s.held.filter (· ≠ o) })
        ?_ ?_ ?_ ?_
      · intro r l hne hg
        have := h.alive r l hg
        simp only [St.alive, Bool.or_eq_true, List.contains_iff_mem, List.mem_filter] at this ⊢
        rcases this with h2 | h2
        · left; exact ⟨h2, by simpa using hne⟩
        · exact .inr h2
      · intro r hr _
        have := h.dying r hr
        refine ⟨this.1, ?_⟩
        simp only [List.mem_filter, not_and]
        intro h3; exact absurd h3 this.2
      · intro r hr
        rcases h.pinnedOk r hr with h2 | h2
        · left
          simp only [List.mem_filter]
          refine ⟨h2, ?_⟩
          have : r ≠ o := fun e => hp' (e ▸ hr)
          simpa using this
        · exact .inr h2
      · exact hp'
  | clear =>
    refine ⟨⟨?_, ?_⟩, ?_, ?_, ?_⟩
    · intro r ev m; simp [evl, hl]
    · intro r l; simp
    · intro r l; simp
    · exact h.dying
    · exact h.pinnedOk
  | enqueue ev args _ _ => exact inv_fields h rfl rfl rfl rfl rfl
  | setEnabled b => exact inv_fields h rfl rfl rfl rfl rfl
  | pop ev args q _ _ => exact inv_fields h rfl rfl rfl rfl rfl
  | call r m lm args hs k halive hh =>
    refine ⟨tinv_of_tables h.toTInv rfl rfl, ?_, ?_, ?_⟩
    · intro x l hg
      have := h.alive x l hg
      simp only [St.alive, Bool.or_eq_true, List.contains_iff_mem, List.mem_cons] at this ⊢
      rcases this with h2 | h2
      · exact .inl h2
      · exact .inr (.inr h2)
    · intro x hx
      have := h.dying x hx
      exact ⟨List.mem_cons_of_mem _ this.1, this.2⟩
    · intro x hx
      simp only [List.mem_cons] at hx
      rcases hx with e | hx
      · subst e
        rcases (St.alive_iff s x).mp halive with h2 | h2
        · exact .inl h2
        · exact h.pinnedOk x h2
      · exact h.pinnedOk x hx
  | unpin r =>
    unfold unpin
    simp only
    split
    · rename_i hc
      simp only [Bool.and_eq_true, List.contains_iff_mem, Bool.not_eq_eq_eq_not, Bool.not_true] at hc
      obtain ⟨hd, hnp⟩ := hc
      have hnp' : r ∉ s.pinned.erase r := by
        intro hm
        have : (s.pinned.erase r).contains r = true := by simpa using hm
        rw [this] at hnp; exact absurd hnp (by simp)
      refine inv_finalize' hU r
        (tinv_of_tables h.toTInv rfl rfl : TInv U { s with pinned := s.pinned.erase r })
        ?_ ?_ ?_ ?_
      · intro x l hne hg
        have := h.alive x l hg
        simp only [St.alive, Bool.or_eq_true, List.contains_iff_mem] at this ⊢
        rcases this with h2 | h2
        · exact .inl h2
        · exact .inr ((List.mem_erase_of_ne hne).mpr h2)
      · intro x hx hne
        have := h.dying x hx
        exact ⟨(List.mem_erase_of_ne hne).mpr this.1, this.2⟩
      · intro x hx
        exact h.pinnedOk x (List.mem_of_mem_erase hx)
      · exact hnp'
    · rename_i hc
      refine ⟨tinv_of_tables h.toTInv rfl rfl, ?_, ?_, ?_⟩
      · intro x l hg
        have := h.alive x l hg
        simp only [St.alive, Bool.or_eq_true, List.contains_iff_mem] at this ⊢
        rcases this with h2 | h2
        · exact .inl h2
        · by_cases e : x = r
          · subst e
            by_cases hp : x ∈ s.pinned.erase x
            · exact .inr hp
            · rcases h.pinnedOk x h2 with h3 | h3
              · exact .inl h3
              · exfalso; apply hc
                simp [h3]; exact hp
          · exact .inr ((List.mem_erase_of_ne e).mpr h2)
      · intro x hx
        have := h.dying x hx
        refine ⟨?_, this.2⟩
        by_cases e : x = r
        · subst e
          by_cases hp : x ∈ s.pinned.erase x
          · exact hp
          · exfalso; apply hc
            have hx' : x ∈ s.dying := hx
            simp [hx']; exact hp
        · exact (List.mem_erase_of_ne e).mpr this.1
      · intro x hx
        exact h.pinnedOk x (List.mem_of_mem_erase hx)

/-- the invariant holds in every state a run can reach -/
theorem inv_reach {U : Universe} (hU : U.WF) {s s' : St} (h : Inv U s) (r : Reach U s s') :
    Inv U s' :=
  Star.invariant (P := Inv U) (fun _ _ ha p => inv_prim hU ha p) r h

end Desper.Disp
