import DesperProofs.Lemmas.TreeBasic
/-
  C12: the cache cell of a handle.  Every operation of the model touches the cell of a handle
  only through `callH` (and `clearH` for `Handle.clear`); everything else follows from that.
-/
namespace Desper.Tree
open Desper

/-- the cache cell of handle `h` -/
def cell (st : St) (h : HId) : Bool × Val × Nat := ((st.h h).cached, (st.h h).cache, (st.h h).loads)

/-- no handle's cache cell changed -/
def SameCells (st st' : St) : Prop := ∀ h, cell st' h = cell st h

/-- the cell of `h` did not change, or it was empty and was filled by exactly one load -/
def CacheStep (h : HId) (st st' : St) : Prop :=
  cell st' h = cell st h ∨
  ((st.h h).cached = false ∧ cell st' h = (true, Val.tok h ((st.h h).loads + 1), (st.h h).loads + 1))

/-- a cached handle holds the object of its latest load -/
def HInv (st : St) : Prop := ∀ h, (st.h h).cached = true → (st.h h).cache = .tok h (st.h h).loads

/-- `v` is the object the latest load of some handle produced, and that handle is cached -/
def ValOut (st : St) (v : Val) : Prop := ∃ g, v = .tok g (st.h g).loads ∧ (st.h g).cached = true

theorem SameCells.refl (st : St) : SameCells st st := fun _ => rfl
theorem SameCells.trans {a b c : St} (h1 : SameCells a b) (h2 : SameCells b c) : SameCells a c :=
  fun h => (h2 h).trans (h1 h)

theorem CacheStep.refl (h : HId) (st : St) : CacheStep h st st := Or.inl rfl
theorem CacheStep.of_same {h : HId} {st st' : St} (e : SameCells st st') : CacheStep h st st' :=
  Or.inl (e h)

theorem CacheStep.trans {h : HId} {a b c : St} (h1 : CacheStep h a b) (h2 : CacheStep h b c) :
    CacheStep h a c := by
  unfold CacheStep cell at *
  rcases h1 with h1 | ⟨h1a, h1b⟩ <;> rcases h2 with h2 | ⟨h2a, h2b⟩
  · left; rw [h2, h1]
  · right
    simp only [Prod.mk.injEq] at h1
    refine ⟨by rw [← h1.1]; exact h2a, ?_⟩
    rw [h2b, h1.2.2]
  · right; exact ⟨h1a, by rw [h2, h1b]⟩
  · simp only [Prod.mk.injEq] at h1b
    rw [h1b.1] at h2a; cases h2a

theorem HInv.of_same {st st' : St} (e : SameCells st st') (hi : HInv st) : HInv st' := by
  intro h hc
  have := e h
  simp only [cell, Prod.mk.injEq] at this
  rw [this.1] at hc
  rw [this.2.1, this.2.2]
  exact hi h hc

/-! ### callH / clearH -/

theorem callH_step (st : St) (g h : HId) : CacheStep h st (callH st g).1 := by
  unfold callH
  by_cases hc : (st.h g).cached = true
  · simp [hc, CacheStep.refl]
  · by_cases hf : st.failing g ((st.h g).tries + 1) = true
    · -- the loader raised: only the invocation counter moved
      rw [if_neg hc, if_pos hf]
      left
      by_cases e : g = h
      · subst e; simp [cell]
      · simp [cell, e]
    · simp only [hc, hf]
      by_cases e : g = h
      · subst e
        right
        simp only [Bool.not_eq_true] at hc
        simp [cell, hc]
      · left; simp [cell, e]

theorem callH_inv (st : St) (g : HId) (hi : HInv st) : HInv (callH st g).1 := by
  unfold callH
  by_cases hc : (st.h g).cached = true
  · simpa [hc] using hi
  · by_cases hf : st.failing g ((st.h g).tries + 1) = true
    · rw [if_neg hc, if_pos hf]
      intro h
      by_cases e : g = h
      · subst e; intro hx; simp at hx; exact absurd hx hc
      · simpa [e] using hi h
    · simp only [hc, hf]
      intro h
      by_cases e : g = h
      · subst e; simp
      · simpa [e] using hi h

/-- what a call hands out, unless the loader raised, is the object of the latest load that returned -/
theorem callH_val (st : St) (g : HId) (hi : HInv st) (hne : ∀ a n, (callH st g).2 ≠ .exc a n) :
    ValOut (callH st g).1 (callH st g).2 := by
  unfold callH at hne ⊢
  by_cases hc : (st.h g).cached = true
  · simp only [hc, if_true]
    exact ⟨g, hi g hc, hc⟩
  · by_cases hf : st.failing g ((st.h g).tries + 1) = true
    · simp only [hc, hf, if_true] at hne
      exact absurd rfl (hne _ _)
    · simp only [hc, hf]
      exact ⟨g, by simp, by simp⟩

theorem itemOf_ok (x v : Val) (h : itemOf x = .ok (.val v)) : x = v ∧ ∀ a n, x ≠ .exc a n := by
  cases x with
  | none => simp only [itemOf, Outcome.ok.injEq, Item.val.injEq] at h; exact ⟨h, fun _ _ e => by cases e⟩
  | tok g k => simp only [itemOf, Outcome.ok.injEq, Item.val.injEq] at h; exact ⟨h, fun _ _ e => by cases e⟩
  | exc g k => simp [itemOf] at h

theorem itemOf_not_map (x : Val) (c : MId) : itemOf x ≠ .ok (.map c) := by
  cases x <;> simp [itemOf]

theorem itemOf_not_smap (x : Val) (c : Nat) : itemOf x ≠ .ok (.smap c) := by
  cases x <;> simp [itemOf]

theorem clearH_other (st : St) (g h : HId) (e : g ≠ h) : cell (clearH st g) h = cell st h := by
  simp [clearH, cell, e]

theorem clearH_inv (st : St) (g : HId) (hi : HInv st) : HInv (clearH st g) := by
  intro h
  by_cases e : g = h
  · subst e; simp [clearH]
  · simpa [clearH, e] using hi h

/-! ### the tree operations do not touch cache cells -/

theorem assign_same (st : St) (t : MId) (k : String) (v : Ref) : SameCells st (assign st t k v) := by
  intro h
  cases v with
  | map c => simp [assign, cell]
  | handle g =>
    by_cases e : g = h
    · subst e; simp [assign, cell]
    · simp [assign, cell, e]

theorem descend_same (st : St) (t : MId) (ks : List String) : SameCells st (descend st t ks).1 := by
  induction ks generalizing st t with
  | nil => exact SameCells.refl st
  | cons k ks ih =>
    simp only [descend]
    split
    · refine SameCells.trans ?_ (ih _ _)
      intro h; simp [cell]
    · refine SameCells.trans ?_ (ih _ _)
      refine SameCells.trans ?_ (assign_same _ _ _ _)
      intro h; simp [cell]

theorem setItem_same (st : St) (i : MId) (key : String) (v : Ref) :
    SameCells st (setItem st i key v) := by
  unfold setItem setItemPath
  exact SameCells.trans (descend_same _ _ _) (assign_same _ _ _ _)

theorem addLayer_same (st : St) (i : MId) : SameCells st (addLayer st i) := by
  intro h; simp [addLayer, cell]

theorem detachH_same (i : MId) (st : St) (g : HId) : SameCells st (detachH i st g) := by
  intro h
  unfold detachH
  split
  · by_cases e : g = h
    · subst e; simp [cell]
    · simp [cell, e]
  · rfl

theorem detachM_same (i : MId) (st : St) (c : MId) : SameCells st (detachM i st c) := by
  intro h
  unfold detachM
  split <;> simp [cell]

theorem foldl_same {α : Type} (f : St → α → St) (hf : ∀ st a, SameCells st (f st a)) (l : List α)
    (st : St) : SameCells st (l.foldl f st) := by
  induction l generalizing st with
  | nil => exact SameCells.refl st
  | cons a l ih => exact SameCells.trans (hf st a) (ih _)

theorem clearMap_same (st : St) (i : MId) : SameCells st (clearMap st i) := by
  unfold clearMap
  have h1 := foldl_same _ (detachH_same i) ((st.m i).layers.flatMap Dict.values) st
  have h2 := foldl_same _ (detachM_same i) (Dict.values (st.m i).maps)
    (((st.m i).layers.flatMap Dict.values).foldl (detachH i) st)
  refine SameCells.trans h1 (SameCells.trans h2 ?_)
  intro h; simp [cell]

/-- the part of the state that `get_static_map` must leave alone -/
def SameHeap (st st' : St) : Prop :=
  st'.mapsD = st.mapsD ∧ st'.hsD = st.hsD ∧ st'.next = st.next

theorem snapStep_fold_frame (rec : St → MId → St × Option Nat)
    (hrec : ∀ st i, SameHeap st (rec st i).1) (l : List (String × MId))
    (acc : St × Option (Dict String SAttr)) : SameHeap acc.1 (l.foldl (snapStep rec) acc).1 := by
  induction l generalizing acc with
  | nil => exact ⟨rfl, rfl, rfl⟩
  | cons kc l ih =>
    simp only [List.foldl_cons]
    have h2 := ih (snapStep rec acc kc)
    have h1 : SameHeap acc.1 (snapStep rec acc kc).1 := by
      unfold snapStep
      cases acc.2 with
      | none => exact ⟨rfl, rfl, rfl⟩
      | some a =>
        simp only []
        have := hrec acc.1 kc.2
        rcases hs : rec acc.1 kc.2 with ⟨st', _ | s⟩ <;> rw [hs] at this <;> exact this
    exact ⟨h2.1.trans h1.1, h2.2.1.trans h1.2.1, h2.2.2.trans h1.2.2⟩

/-- `get_static_map` only allocates snapshot objects -/
theorem snapshot_frame (fuel : Nat) (st : St) (i : MId) : SameHeap st (snapshot fuel st i).1 := by
  induction fuel generalizing st i with
  | zero => exact ⟨rfl, rfl, rfl⟩
  | succ fuel ih =>
    simp only [snapshot]
    have k0 := snapStep_fold_frame (snapshot fuel) ih (st.m i).maps (st, some (handleAttrs (st.m i)))
    split
    · exact k0
    · exact k0

theorem snapshot_same (fuel : Nat) (st : St) (i : MId) : SameCells st (snapshot fuel st i).1 := by
  intro h
  have := (snapshot_frame fuel st i).2.1
  simp [cell, St.h, this]

theorem snapshot_m (fuel : Nat) (st : St) (i j : MId) : (snapshot fuel st i).1.m j = st.m j := by
  simp [St.m, (snapshot_frame fuel st i).1]

theorem snapshot_h (fuel : Nat) (st : St) (i : MId) (g : HId) : (snapshot fuel st i).1.h g = st.h g := by
  simp [St.h, (snapshot_frame fuel st i).2.1]

/-! ### the access paths -/

theorem getItemPath_step (st : St) (i : MId) (ps : List String) (last : String) (h : HId) :
    CacheStep h st (getItemPath st i ps last).1 := by
  unfold getItemPath
  split
  · exact CacheStep.refl h st
  · split
    · exact callH_step st _ h
    · split <;> exact CacheStep.refl h st

theorem getItemPath_inv (st : St) (i : MId) (ps : List String) (last : String) (hi : HInv st) :
    HInv (getItemPath st i ps last).1 := by
  unfold getItemPath
  split
  · exact hi
  · split
    · exact callH_inv st _ hi
    · split <;> exact hi

theorem getItemPath_val (st : St) (i : MId) (ps : List String) (last : String) (hi : HInv st)
    (v : Val) (hv : (getItemPath st i ps last).2 = .ok (.val v)) :
    ValOut (getItemPath st i ps last).1 v := by
  unfold getItemPath at hv ⊢
  split at hv
  · cases hv
  · split at hv
    · rename_i t _ g hg
      obtain ⟨e, hne⟩ := itemOf_ok _ _ hv
      rw [← e]
      exact callH_val st g hi hne
    · split at hv <;> cases hv

theorem getItemPath_map (st : St) (i : MId) (ps : List String) (last : String) (st' : St) (c : MId)
    (h : getItemPath st i ps last = (st', .ok (.map c))) : st' = st := by
  unfold getItemPath at h
  split at h
  · cases h
  · split at h
    · simp only [Prod.mk.injEq] at h; exact absurd h.2 (itemOf_not_map _ _)
    · split at h
      · simp only [Prod.mk.injEq] at h; exact h.1.symm
      · cases h

theorem chainItems_props (st : St) (i : MId) (ks : List String) (hi : HInv st) :
    (∀ h, CacheStep h st (chainItems st i ks).1) ∧ HInv (chainItems st i ks).1 ∧
    (∀ v, (chainItems st i ks).2 = .ok (.val v) → ValOut (chainItems st i ks).1 v) := by
  induction ks generalizing st i with
  | nil => exact ⟨fun h => CacheStep.refl h st, hi, fun v hv => by simp [chainItems] at hv⟩
  | cons k ks ih =>
    have s1 := fun h => getItemPath_step st i [] k h
    have i1 := getItemPath_inv st i [] k hi
    have v1 := getItemPath_val st i [] k hi
    simp only [chainItems]
    rcases hg : getItemPath st i [] k with ⟨st', o⟩
    rw [hg] at s1 i1 v1
    simp only at s1 i1 v1
    cases o with
    | ok it =>
      cases it with
      | map c =>
        simp only []
        obtain ⟨a, b, c'⟩ := ih st' c i1
        exact ⟨fun h => (s1 h).trans (a h), b, c'⟩
      | val v =>
        simp only []
        by_cases he : ks.isEmpty = true
        · simp only [he, if_true]
          exact ⟨s1, i1, fun w hw => by
            simp only [Outcome.ok.injEq, Item.val.injEq] at hw; subst hw; exact v1 v rfl⟩
        · simp only [he]
          exact ⟨s1, i1, fun w hw => by simp at hw⟩
      | smap s =>
        simp only []
        by_cases he : ks.isEmpty = true
        · simp only [he, if_true]
          exact ⟨s1, i1, fun w hw => by simp at hw⟩
        · simp only [he]
          exact ⟨s1, i1, fun w hw => by simp at hw⟩
    | raised e => exact ⟨s1, i1, fun w hw => by simp at hw⟩
    | stuck => exact ⟨s1, i1, fun w hw => by simp at hw⟩

theorem sGetAttr1_props (st : St) (s : Nat) (k : String) (hi : HInv st) :
    (∀ h, CacheStep h st (sGetAttr1 st s k).1) ∧ HInv (sGetAttr1 st s k).1 ∧
    (∀ v, (sGetAttr1 st s k).2 = .ok (.val v) → ValOut (sGetAttr1 st s k).1 v) := by
  unfold sGetAttr1
  split
  · split
    · rename_i g hg
      refine ⟨fun h => callH_step st g h, callH_inv st g hi, fun v hv => ?_⟩
      obtain ⟨e, hne⟩ := itemOf_ok _ _ hv
      rw [← e]
      exact callH_val st g hi hne
    · exact ⟨fun h => CacheStep.refl h st, hi, fun v hv => by simp at hv⟩
    · exact ⟨fun h => CacheStep.refl h st, hi, fun v hv => by simp at hv⟩
  · split
    · exact ⟨fun h => CacheStep.refl h st, hi, fun v hv => by simp at hv⟩
    · exact ⟨fun h => CacheStep.refl h st, hi, fun v hv => by simp at hv⟩
    · exact ⟨fun h => CacheStep.refl h st, hi, fun v hv => by simp at hv⟩

theorem sItems_props (st : St) (s : Nat) (ks : List String) (hi : HInv st) :
    (∀ h, CacheStep h st (sItems st s ks).1) ∧ HInv (sItems st s ks).1 ∧
    (∀ v, (sItems st s ks).2 = .ok (.val v) → ValOut (sItems st s ks).1 v) := by
  induction ks generalizing st s with
  | nil => exact ⟨fun h => CacheStep.refl h st, hi, fun v hv => by simp [sItems] at hv⟩
  | cons k ks ih =>
    obtain ⟨s1, i1, v1⟩ := sGetAttr1_props st s k hi
    simp only [sItems]
    rcases hg : sGetAttr1 st s k with ⟨st', o⟩
    rw [hg] at s1 i1 v1
    simp only at s1 i1 v1
    cases o with
    | ok it =>
      cases it with
      | smap c =>
        simp only []
        obtain ⟨a, b, c'⟩ := ih st' c i1
        exact ⟨fun h => (s1 h).trans (a h), b, c'⟩
      | val v =>
        simp only []
        by_cases he : ks.isEmpty = true
        · simp only [he, if_true]
          exact ⟨s1, i1, fun w hw => by
            simp only [Outcome.ok.injEq, Item.val.injEq] at hw; subst hw; exact v1 v rfl⟩
        · simp only [he]
          exact ⟨s1, i1, fun w hw => by simp at hw⟩
      | map s =>
        simp only []
        by_cases he : ks.isEmpty = true
        · simp only [he, if_true]
          exact ⟨s1, i1, fun w hw => by simp at hw⟩
        · simp only [he]
          exact ⟨s1, i1, fun w hw => by simp at hw⟩
    | raised e => exact ⟨s1, i1, fun w hw => by simp at hw⟩
    | stuck => exact ⟨s1, i1, fun w hw => by simp at hw⟩

/-! ### histories -/

/-- the loaded resource an operation handed to the program, if any -/
def valOf : Out → Option Val
  | .val (.exc _ _) => none
  | .val v => some v
  | .item (.ok (.val v)) => some v
  | _ => none

theorem step_props (st : St) (op : Op) (hi : HInv st) :
    (∀ h, op ≠ .hclear h → CacheStep h st (step st op).1) ∧ HInv (step st op).1 ∧
    (∀ v, valOf (step st op).2 = some v → ValOut (step st op).1 v) := by
  cases op with
  | set m key v =>
    exact ⟨fun h _ => CacheStep.of_same (setItem_same st m key v),
      HInv.of_same (setItem_same st m key v) hi, fun v hv => by simp [step, valOf] at hv⟩
  | reject m => exact ⟨fun h _ => CacheStep.refl h st, hi, fun v hv => by simp [step, valOf] at hv⟩
  | layer m =>
    exact ⟨fun h _ => CacheStep.of_same (addLayer_same st m),
      HInv.of_same (addLayer_same st m) hi, fun v hv => by simp [step, valOf] at hv⟩
  | clear m =>
    exact ⟨fun h _ => CacheStep.of_same (clearMap_same st m),
      HInv.of_same (clearMap_same st m) hi, fun v hv => by simp [step, valOf] at hv⟩
  | getitem m key =>
    refine ⟨fun h _ => getItemPath_step st m _ _ h, getItemPath_inv st m _ _ hi, fun v hv => ?_⟩
    simp only [step, getItem] at hv ⊢
    cases ho : (getItemPath st m (keyPath key).1 (keyPath key).2).2 with
    | ok it =>
      cases it with
      | val w =>
        rw [ho] at hv; simp only [valOf, Option.some.injEq] at hv; subst hv
        exact getItemPath_val st m _ _ hi w ho
      | map c => rw [ho] at hv; simp [valOf] at hv
      | smap c => rw [ho] at hv; simp [valOf] at hv
    | raised e => rw [ho] at hv; simp [valOf] at hv
    | stuck => rw [ho] at hv; simp [valOf] at hv
  | get m key => exact ⟨fun h _ => CacheStep.refl h st, hi, fun v hv => by simp [step, valOf] at hv⟩
  | chain m ks =>
    obtain ⟨a, b, c⟩ := chainItems_props st m ks hi
    refine ⟨fun h _ => a h, b, fun v hv => ?_⟩
    simp only [step] at hv ⊢
    cases ho : (chainItems st m ks).2 with
    | ok it =>
      cases it with
      | val w =>
        rw [ho] at hv; simp only [valOf, Option.some.injEq] at hv; subst hv
        exact c w ho
      | map c => rw [ho] at hv; simp [valOf] at hv
      | smap c => rw [ho] at hv; simp [valOf] at hv
    | raised e => rw [ho] at hv; simp [valOf] at hv
    | stuck => rw [ho] at hv; simp [valOf] at hv
  | call g =>
    refine ⟨fun h _ => callH_step st g h, callH_inv st g hi, fun v hv => ?_⟩
    simp only [step] at hv ⊢
    cases hx : (callH st g).2 with
    | exc a n => rw [hx] at hv; simp [valOf] at hv
    | none =>
      rw [hx] at hv; simp only [valOf, Option.some.injEq] at hv; subst hv
      rw [← hx]; exact callH_val st g hi (fun a n e => by rw [hx] at e; cases e)
    | tok a n =>
      rw [hx] at hv; simp only [valOf, Option.some.injEq] at hv; subst hv
      rw [← hx]; exact callH_val st g hi (fun a n e => by rw [hx] at e; cases e)
  | hclear g =>
    refine ⟨fun h hne => ?_, clearH_inv st g hi, fun v hv => by simp [step, valOf] at hv⟩
    have : g ≠ h := fun e => hne (by rw [e])
    exact Or.inl (clearH_other st g h this)
  | cached g => exact ⟨fun h _ => CacheStep.refl h st, hi, fun v hv => by simp [step, valOf] at hv⟩
  | snap m =>
    exact ⟨fun h _ => CacheStep.of_same (snapshot_same _ st m),
      HInv.of_same (snapshot_same _ st m) hi, fun v hv => by simp [step, valOf] at hv⟩
  | sitems s ks =>
    obtain ⟨a, b, c⟩ := sItems_props st s ks hi
    refine ⟨fun h _ => a h, b, fun v hv => ?_⟩
    simp only [step] at hv ⊢
    cases ho : (sItems st s ks).2 with
    | ok it =>
      cases it with
      | val w =>
        rw [ho] at hv; simp only [valOf, Option.some.injEq] at hv; subst hv
        exact c w ho
      | map c => rw [ho] at hv; simp [valOf] at hv
      | smap c => rw [ho] at hv; simp [valOf] at hv
    | raised e => rw [ho] at hv; simp [valOf] at hv
    | stuck => rw [ho] at hv; simp [valOf] at hv
  | sget s ks => exact ⟨fun h _ => CacheStep.refl h st, hi, fun v hv => by simp [step, valOf] at hv⟩
  | ssetattr s k =>
    exact ⟨fun h _ => CacheStep.refl h st, hi, fun v hv => by simp [step, valOf] at hv⟩
  | sdelattr s k =>
    exact ⟨fun h _ => CacheStep.refl h st, hi, fun v hv => by simp [step, valOf] at hv⟩

theorem exec_cons (st : St) (op : Op) (ops : List Op) :
    exec st (op :: ops) = exec (step st op).1 ops := rfl

theorem exec_append (st : St) (a b : List Op) : exec st (a ++ b) = exec (exec st a) b := by
  induction a generalizing st with
  | nil => rfl
  | cons op a ih => simp only [List.cons_append, exec_cons, ih]

theorem run_cons (st : St) (op : Op) (ops : List Op) :
    (run st (op :: ops)).2 = (step st op).2 :: (run (step st op).1 ops).2 := rfl

theorem exec_inv (st : St) (ops : List Op) (hi : HInv st) : HInv (exec st ops) := by
  induction ops generalizing st with
  | nil => exact hi
  | cons op ops ih => exact ih _ (step_props st op hi).2.1

theorem HInv_init : HInv {} := by intro h hc; simp at hc
theorem HInv_initF (F : HId → Nat → Bool) : HInv (init F) := by intro h hc; simp at hc

theorem exec_step (st : St) (ops : List Op) (h : HId) (hi : HInv st) (hc : Op.hclear h ∉ ops) :
    CacheStep h st (exec st ops) := by
  induction ops generalizing st with
  | nil => exact CacheStep.refl h st
  | cons op ops ih =>
    simp only [List.mem_cons, not_or] at hc
    have s1 := (step_props st op hi).1 h (fun e => hc.1 e.symm)
    exact s1.trans (ih _ (step_props st op hi).2.1 hc.2)

/-- every resource of `h` handed out during a clear-free history is the object of the load
that is current at its end -/
theorem run_vals (st : St) (ops : List Op) (h : HId) (a : Nat) (hi : HInv st)
    (hc : Op.hclear h ∉ ops) (ha : Val.tok h a ∈ (run st ops).2.filterMap valOf) :
    a = ((exec st ops).h h).loads ∧ ((exec st ops).h h).cached = true := by
  induction ops generalizing st with
  | nil => simp [run] at ha
  | cons op ops ih =>
    simp only [List.mem_cons, not_or] at hc
    obtain ⟨_, i1, v1⟩ := step_props st op hi
    rw [run_cons, List.filterMap_cons] at ha
    rw [exec_cons]
    have rest : Val.tok h a ∈ (run (step st op).1 ops).2.filterMap valOf →
        a = ((exec (step st op).1 ops).h h).loads ∧ ((exec (step st op).1 ops).h h).cached = true :=
      ih _ i1 hc.2
    cases hv : valOf (step st op).2 with
    | none => rw [hv] at ha; exact rest ha
    | some v =>
      rw [hv] at ha
      simp only [List.mem_cons] at ha
      rcases ha with ha | ha
      · subst ha
        obtain ⟨g, hg, hcg⟩ := v1 _ hv
        simp only [Val.tok.injEq] at hg
        obtain ⟨rfl, rfl⟩ := hg
        have cs := exec_step (step st op).1 ops h i1 hc.2
        rcases cs with cs | ⟨cs, _⟩
        · simp only [cell, Prod.mk.injEq] at cs
          exact ⟨cs.2.2.symm, by rw [cs.1]; exact hcg⟩
        · rw [hcg] at cs; cases cs
      · exact rest ha

/-! ### the load counter never decreases (without the invariant) -/

theorem loads_le_of_step {h : HId} {st st' : St} (c : CacheStep h st st') :
    (st.h h).loads ≤ (st'.h h).loads := by
  rcases c with c | ⟨_, c⟩ <;> simp only [cell, Prod.mk.injEq] at c <;> omega

theorem chainItems_steps (st : St) (i : MId) (ks : List String) (h : HId) :
    CacheStep h st (chainItems st i ks).1 := by
  induction ks generalizing st i with
  | nil => exact CacheStep.refl h st
  | cons k ks ih =>
    have s1 := getItemPath_step st i [] k h
    simp only [chainItems]
    rcases hg : getItemPath st i [] k with ⟨st', o⟩
    rw [hg] at s1
    cases o with
    | ok it =>
      cases it with
      | map c => exact s1.trans (ih st' c)
      | val v => simp only []; split <;> exact s1
      | smap s => simp only []; split <;> exact s1
    | raised e => exact s1
    | stuck => exact s1

theorem sGetAttr1_step (st : St) (s : Nat) (k : String) (h : HId) :
    CacheStep h st (sGetAttr1 st s k).1 := by
  unfold sGetAttr1
  split
  · split
    · exact callH_step st _ h
    · exact CacheStep.refl h st
    · exact CacheStep.refl h st
  · split <;> exact CacheStep.refl h st

theorem sItems_steps (st : St) (s : Nat) (ks : List String) (h : HId) :
    CacheStep h st (sItems st s ks).1 := by
  induction ks generalizing st s with
  | nil => exact CacheStep.refl h st
  | cons k ks ih =>
    have s1 := sGetAttr1_step st s k h
    simp only [sItems]
    rcases hg : sGetAttr1 st s k with ⟨st', o⟩
    rw [hg] at s1
    cases o with
    | ok it =>
      cases it with
      | smap c => exact s1.trans (ih st' c)
      | val v => simp only []; split <;> exact s1
      | map s => simp only []; split <;> exact s1
    | raised e => exact s1
    | stuck => exact s1

theorem step_loads_le (st : St) (op : Op) (h : HId) : (st.h h).loads ≤ ((step st op).1.h h).loads := by
  have same : ∀ st', SameCells st st' → (st.h h).loads ≤ (st'.h h).loads := by
    intro st' e
    have := e h
    simp only [cell, Prod.mk.injEq] at this
    omega
  cases op with
  | set m key v => exact same _ (setItem_same st m key v)
  | reject m => exact Nat.le_refl _
  | layer m => exact same _ (addLayer_same st m)
  | clear m => exact same _ (clearMap_same st m)
  | snap m => exact same _ (snapshot_same (snapFuel st) st m)
  | get m key => exact Nat.le_refl _
  | cached g => exact Nat.le_refl _
  | sget s' ks => exact Nat.le_refl _
  | ssetattr s' k => exact Nat.le_refl _
  | sdelattr s' k => exact Nat.le_refl _
  | hclear g =>
    by_cases e : g = h
    · subst e; simp [step, clearH]
    · have := clearH_other st g h e
      simp only [cell, Prod.mk.injEq] at this
      simp only [step]; omega
  | call g => exact loads_le_of_step (callH_step st g h)
  | getitem m key => exact loads_le_of_step (getItemPath_step st m _ _ h)
  | chain m ks => exact loads_le_of_step (chainItems_steps st m ks h)
  | sitems s' ks => exact loads_le_of_step (sItems_steps st s' ks h)

/-- the load counter of a handle never decreases -/
theorem exec_loads_le (st : St) (ops : List Op) (h : HId) : (st.h h).loads ≤ ((exec st ops).h h).loads := by
  induction ops generalizing st with
  | nil => exact Nat.le_refl _
  | cons op ops ih => rw [exec_cons]; exact Nat.le_trans (step_loads_le st op h) (ih _)

/-- a resource of `h` that was handed out carries a load number the counter has reached -/
theorem run_vals_le (st : St) (ops : List Op) (h : HId) (a : Nat) (hi : HInv st)
    (hm : Val.tok h a ∈ (run st ops).2.filterMap valOf) : a ≤ ((exec st ops).h h).loads := by
  induction ops generalizing st with
  | nil => simp [run] at hm
  | cons op ops ih =>
    obtain ⟨_, i1, v1⟩ := step_props st op hi
    rw [run_cons, List.filterMap_cons] at hm
    rw [exec_cons]
    cases hv : valOf (step st op).2 with
    | none => rw [hv] at hm; exact ih _ i1 hm
    | some v =>
      rw [hv] at hm
      simp only [List.mem_cons] at hm
      rcases hm with hm | hm
      · subst hm
        obtain ⟨g, hg, _⟩ := v1 _ hv
        simp only [Val.tok.injEq] at hg
        obtain ⟨rfl, rfl⟩ := hg
        exact exec_loads_le _ ops _
      · exact ih _ i1 hm

/-- an empty script does nothing -/
theorem execOpsR_nil (S : Scripts) (fuel : Nat) (rs : RSt) : execOpsR S fuel rs [] = rs := by
  cases fuel <;> simp [execOpsR]

end Desper.Tree
