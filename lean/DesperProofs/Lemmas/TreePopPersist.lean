import DesperProofs.Lemmas.TreePop
/-
  C16: what a placement put under a key is still there after later placements whose keys do not
  clash with it.  Needs: in a back-linked tree, the path from a root to a map is unique.
-/
namespace Desper.Tree
open Desper

/-- the names read off the back-links while climbing n steps -/
def keysUp (st : St) : Nat → MId → Option (List String)
  | 0, _ => some []
  | n + 1, x =>
    match (st.m x).parent, (st.m x).key with
    | some p, some k => (keysUp st n p).map (· ++ [k])
    | _, _ => none

theorem keysUp_walk_aux (st : St) (hl : Links st) (i : MId) (ks : List String) (t : MId) (n : Nat)
    (hw : walk st i ks = some t) :
    keysUp st (ks.length + n) t = (keysUp st n i).map (· ++ ks) := by
  induction ks generalizing i n with
  | nil =>
    simp only [walk, Option.some.injEq] at hw
    subst hw
    simp only [List.length_nil, Nat.zero_add]
    cases h : keysUp st n i <;> simp
  | cons k ks ih =>
    simp only [walk] at hw
    cases hc : Dict.get? (st.m i).maps k with
    | none => rw [hc] at hw; cases hw
    | some c =>
      rw [hc] at hw
      obtain ⟨p1, p2⟩ := hl.maps i k c hc
      have := ih c (n + 1) hw
      have e : (k :: ks).length + n = ks.length + (n + 1) := by simp only [List.length_cons]; omega
      rw [e, this]
      simp only [keysUp, p1, p2]
      cases keysUp st n i <;> simp

theorem keysUp_walk (st : St) (hl : Links st) (i : MId) (ks : List String) (t : MId)
    (hw : walk st i ks = some t) : keysUp st ks.length t = some ks := by
  have := keysUp_walk_aux st hl i ks t 0 hw
  simpa [keysUp] using this

/-- in a back-linked tree there is one path from a root to a map -/
theorem walk_unique (st : St) (hl : Links st) (root : MId) (hr : (st.m root).parent = none)
    (a b : List String) (x : MId) (ha : walk st root a = some x) (hb : walk st root b = some x) :
    a = b := by
  have ca := climb_walk st hl root a x ha
  have cb := climb_walk st hl root b x hb
  have len : a.length = b.length := by
    rcases Nat.lt_trichotomy a.length b.length with h | h | h
    · obtain ⟨d, hd⟩ := Nat.exists_eq_add_of_lt h
      rw [hd, Nat.add_assoc, climb_add, ca] at cb
      simp only [Option.bind_some] at cb
      rw [Nat.add_comm d 1, Nat.add_comm 1 d, climb_root st root hr] at cb
      cases cb
    · exact h
    · obtain ⟨d, hd⟩ := Nat.exists_eq_add_of_lt h
      rw [hd, Nat.add_assoc, climb_add, cb] at ca
      simp only [Option.bind_some] at ca
      rw [Nat.add_comm d 1, Nat.add_comm 1 d, climb_root st root hr] at ca
      cases ca
  have ka := keysUp_walk st hl root a x ha
  have kb := keysUp_walk st hl root b x hb
  rw [len] at ka
  rw [ka] at kb
  exact Option.some.inj kb

/-- sub-map entries other than `e` survive: a walk that avoids `e` still arrives -/
theorem walk_mono_except (st st' : St) (e : MId × String)
    (hm : ∀ j k c, (j, k) ≠ e → Dict.get? (st.m j).maps k = some c → Dict.get? (st'.m j).maps k = some c)
    (i : MId) (ks : List String) (t : MId) (hw : walk st i ks = some t)
    (he : e ∉ walkEntries st i ks) : walk st' i ks = some t := by
  induction ks generalizing i with
  | nil => exact hw
  | cons k ks ih =>
    simp only [walk] at hw ⊢
    simp only [walkEntries] at he
    cases hc : Dict.get? (st.m i).maps k with
    | none => rw [hc] at hw; cases hw
    | some c =>
      rw [hc] at hw he
      simp only [List.mem_cons, not_or] at he
      rw [hm i k c (fun x => he.1 x.symm) hc]
      exact ih c hw he.2

/-- `m[key] = v` keeps every sub-map entry except the one it assigns -/
theorem setItemPath_mono (st : St) (i : MId) (ps : List String) (last : String) (v : Ref)
    (j : MId) (k : String) (c : MId) (hne : (j, k) ≠ ((descend st i ps).2, last))
    (h : Dict.get? (st.m j).maps k = some c) :
    Dict.get? ((setItemPath st i ps last v).m j).maps k = some c := by
  unfold setItemPath
  rw [assign_sameMaps _ _ _ _ j k hne]
  exact descend_mono st i ps j k c h

/-- `q` is a prefix of `p` (as lists of names) -/
def IsPrefix (q p : List String) : Prop := ∃ r, p = q ++ r

/-- neither key is a prefix of the other -/
def Indep (p q : List String) : Prop := ¬ IsPrefix p q ∧ ¬ IsPrefix q p

theorem walk_mono (st st' : St)
    (hm : ∀ j k c, Dict.get? (st.m j).maps k = some c → Dict.get? (st'.m j).maps k = some c)
    (i : MId) (ks : List String) (t : MId) (hw : walk st i ks = some t) : walk st' i ks = some t := by
  induction ks generalizing i with
  | nil => exact hw
  | cons k ks ih =>
    simp only [walk] at hw ⊢
    cases hc : Dict.get? (st.m i).maps k with
    | none => rw [hc] at hw; cases hw
    | some c => rw [hc] at hw; rw [hm i k c hc]; exact ih c hw

/-- **what a key denotes survives an assignment under an independent key** -/
theorem setItemPath_persist (st : St) (n : Nat) (ps : List String) (last : String) (v : Ref)
    (hl : Links st) (ho : OneKind st) (hroot : (st.m (.decl n)).parent = none)
    (hv : NoLoc st v) (hd : v.declared = true ∨ ∃ a, v = .map (.anon a) ∧ a < st.next)
    (hne : v ≠ .map (.decl n))
    (P : List String) (pl : String) (w : Ref) (hind : Indep (P ++ [pl]) (ps ++ [last]))
    (hget : getPath st (.decl n) P pl = some w) :
    getPath (setItemPath st (.decl n) ps last v) (.decl n) P pl = some w := by
  obtain ⟨l', _, r', _, w', f', _⟩ := setItemPath_spec st n ps last v hl ho hroot hv hd hne
  simp only [getPath] at hget
  cases hwP : walk st (.decl n) P with
  | none => rw [hwP] at hget; cases hget
  | some tP =>
    rw [hwP] at hget
    simp only at hget
    obtain ⟨d1, _⟩ := descend_links st (.decl n) ps hl
    have hw1 := walk_descend st (.decl n) ps
    have hroot1 := descend_root st (.decl n) ps n hroot
    -- 1. the walk along P after the loop over keys[:-1]
    have hwP1 : walk (descend st (.decl n) ps).1 (.decl n) P = some tP :=
      walk_mono st _ (fun j k c h => descend_mono st _ ps j k c h) _ P tP hwP
    -- 2. the assigned entry is not on it
    have hnot : ((descend st (.decl n) ps).2, last) ∉ walkEntries (descend st (.decl n) ps).1 (.decl n) P := by
      intro hm
      obtain ⟨pre, suf, e, hp⟩ := walkEntries_prefix _ _ P tP _ last hwP1 hm
      have := walk_unique _ d1 (.decl n) hroot1 pre ps _ hp hw1
      subst this
      exact hind.2 ⟨suf ++ [pl], by rw [e]; simp⟩
    -- 3. the walk along P after the assignment
    have hwP' : walk (setItemPath st (.decl n) ps last v) (.decl n) P = some tP := by
      refine walk_mono_except (descend st (.decl n) ps).1 _ ((descend st (.decl n) ps).2, last)
        (fun j k c hne' h => ?_) _ P tP hwP1 hnot
      show Dict.get? ((assign (descend st (.decl n) ps).1 (descend st (.decl n) ps).2 last v).m j).maps k = some c
      rw [assign_sameMaps _ _ _ _ j k hne']; exact h
    -- 4. what (tP, pl) denotes did not change
    have hlk : lookup (setItemPath st (.decl n) ps last v) tP pl = lookup st tP pl := by
      refine f' tP pl ?_
      rw [walkEntries_snoc _ _ _ _ _ w']
      simp only [List.mem_append, List.mem_singleton, not_or]
      constructor
      · intro hm
        obtain ⟨pre, suf, e, hp⟩ := walkEntries_prefix _ _ ps _ tP pl w' hm
        have := walk_unique _ l' (.decl n) r' pre P _ hp hwP'
        subst this
        exact hind.1 ⟨suf ++ [last], by rw [e]; simp⟩
      · intro heq
        simp only [Prod.mk.injEq] at heq
        obtain ⟨rfl, rfl⟩ := heq
        have := walk_unique _ l' (.decl n) r' P ps _ hwP' w'
        subst this
        exact hind.1 ⟨[], by simp⟩
    simp only [getPath, hwP', hlk]
    exact hget

end Desper.Tree

namespace Desper.Pop
open Desper Desper.Tree

theorem getPath_of_maps_lookup (st st' : St) (hm : ∀ j, (st'.m j).maps = (st.m j).maps)
    (m : MId) (P : List String) (pl : String) (tP : MId) (hw : walk st m P = some tP)
    (hl : lookup st' tP pl = lookup st tP pl) : getPath st' m P pl = getPath st m P pl := by
  simp only [getPath, walk_of_maps_eq st st' hm, hw, hl]

theorem walk_bump (st : St) (m : MId) (P : List String) : walk st.bump m P = walk st m P := by
  induction P generalizing m with
  | nil => rfl
  | cons k ks ih =>
    simp only [walk, m_bump]
    cases Dict.get? (st.m m).maps k with
    | none => rfl
    | some c => exact ih c

theorem getPath_bump (st : St) (m : MId) (P : List String) (pl : String) :
    getPath st.bump m P pl = getPath st m P pl := by
  simp only [getPath, walk_bump, lookup, m_bump]

/-- **a placement keeps what an independent key denotes** -/
theorem placeEntry_persist (ps : PSt) (n : Nat) (rule : Rule) (nest trim isSelf : Bool) (e' : Entry)
    (hi : PopInv ps n) (hn : NamesOk e') (ps' : PSt)
    (hok : placeEntry ps (.decl n) rule nest trim isSelf e' = (ps', .ok))
    (P : List String) (pl : String) (w : Ref)
    (hind : accepts rule isSelf e' = true → Indep (P ++ [pl]) (entryKey trim e'))
    (hget : getPath ps.tree (.decl n) P pl = some w) :
    getPath ps'.tree (.decl n) P pl = some w := by
  have hko := keyOk_entryKey trim e' hn
  have hkp := keyPath_of_keyOk _ hko
  by_cases hacc : accepts rule isSelf e' = true
  · have hind' := hind hacc
    rw [← dropLast_append_getLastD _ hko.1] at hind'
    cases hd : e'.2 with
    | true =>
      by_cases hnone : (Tree.get ps.tree (.decl n) (joinKey (entryKey trim e'))).isNone = true
      · have e1 : placeEntry ps (.decl n) rule nest trim isSelf e' =
            ((⟨setItem ps.tree.bump (.decl n) (joinKey (entryKey trim e')) (.map (.anon ps.tree.next)),
              ps.hnext, ps.made⟩ : PSt), POutcome.ok) := by
          simp [placeEntry, hacc, hd, hnone]
        rw [e1] at hok
        simp only [Prod.mk.injEq, and_true] at hok
        subst hok
        simp only [setItem, hkp]
        have fresh : NoLoc ps.tree.bump (.map (.anon ps.tree.next)) := by
          intro i k hc; exact Nat.lt_irrefl _ (hi.links.alloc i k _ hc)
        exact setItemPath_persist ps.tree.bump n _ _ _ (bump_links _ hi.links) (fun i k h => hi.one i k h)
          hi.root fresh (Or.inr ⟨_, rfl, by simp⟩) (by simp) P pl w hind' (by rw [getPath_bump]; exact hget)
      · have e1 : placeEntry ps (.decl n) rule nest trim isSelf e' = (ps, .ok) := by
          simp [placeEntry, hacc, hd, hnone]
        rw [e1] at hok
        simp only [Prod.mk.injEq, and_true] at hok
        subst hok; exact hget
    | false =>
      simp only [placeEntry, hacc, hd, Bool.not_true, Bool.false_eq_true, if_false] at hok
      cases hp : prepare ps.tree (.decl n) (joinKey (entryKey trim e')) nest with
      | none => rw [hp] at hok; simp at hok
      | some t1 =>
        rw [hp] at hok
        simp only [Prod.mk.injEq, and_true] at hok
        subst hok
        obtain ⟨ti, _, tmaps⟩ := prepare_inv ps.tree n ps.hnext _ nest t1 hi.tree hp
        -- what P denotes after `prepare`
        have hget1 : getPath t1 (.decl n) P pl = some w := by
          simp only [getPath] at hget
          cases hwP : walk ps.tree (.decl n) P with
          | none => rw [hwP] at hget; cases hget
          | some tP =>
            rw [← hget]
            rw [hwP]
            refine (getPath_of_maps_lookup ps.tree t1 tmaps _ P pl tP hwP ?_).trans (by simp [getPath, hwP])
            rcases prepare_cases _ _ _ nest t1 hp with rfl | ⟨_, p, rfl⟩ | ⟨_, h, p, hg, hpar, rfl⟩
            · rfl
            · exact lookup_addLayer _ _ _ _
            · simp only [Desper.Tree.get, hkp] at hg
              obtain ⟨tt, hw, _, hpp, hkk⟩ := get_handle_link ps.tree hi.links _ _ _ h hg
              rw [hpar] at hpp
              simp only [Option.some.injEq] at hpp
              subst hpp
              rw [hkk]
              refine lookup_dropHandle_other _ _ _ _ _ _ ?_
              intro heq
              simp only [Prod.mk.injEq] at heq
              obtain ⟨rfl, rfl⟩ := heq
              have := walk_unique ps.tree hi.links (.decl n) hi.root P _ _ hwP hw
              subst this
              exact hind'.1 ⟨[], by simp⟩
        simp only [setItem, hkp]
        exact setItemPath_persist t1 n _ _ _ ti.links ti.one ti.root (ti.hfresh _ (Nat.le_refl _))
          (Or.inl rfl) (by simp) P pl w hind' hget1
  · have e1 : placeEntry ps (.decl n) rule nest trim isSelf e' = (ps, .ok) := by simp [placeEntry, hacc]
    rw [e1] at hok
    simp only [Prod.mk.injEq, and_true] at hok
    subst hok; exact hget

/-- no accepted entry of the listing has a key that clashes with `K` -/
def ClearOf (K : List String) (rule : Rule) (trim : Bool) (l : List Entry) : Prop :=
  ∀ e' ∈ l, ∀ b, accepts rule b e' = true → Indep K (entryKey trim e')

theorem placeAll_persist (ps : PSt) (n : Nat) (rule : Rule) (nest trim isSelf : Bool) (l : List Entry)
    (hi : PopInv ps n) (hn : ∀ e ∈ l, NamesOk e) (ps' : PSt)
    (hok : placeAll ps (.decl n) rule nest trim isSelf l = (ps', .ok))
    (P : List String) (pl : String) (w : Ref) (hc : ClearOf (P ++ [pl]) rule trim l)
    (hget : getPath ps.tree (.decl n) P pl = some w) :
    getPath ps'.tree (.decl n) P pl = some w := by
  induction l generalizing ps isSelf with
  | nil => simp only [placeAll, Prod.mk.injEq, and_true] at hok; subst hok; exact hget
  | cons e l ih =>
    simp only [placeAll] at hok
    rcases hp : placeEntry ps (.decl n) rule nest trim isSelf e with ⟨ps1, o⟩
    rw [hp] at hok
    cases o with
    | ok =>
      refine ih ps1 false (placeEntry_inv ps n rule nest trim isSelf e hi (hn e (by simp)) ps1 hp)
        (fun x hx => hn x (by simp [hx])) hok (fun x hx => hc x (by simp [hx])) ?_
      exact placeEntry_persist ps n rule nest trim isSelf e hi (hn e (by simp)) ps1 hp P pl w
        (hc e (by simp) isSelf) hget
    | raised x => simp only [Prod.mk.injEq] at hok; cases hok.2

/-- every name in every listing is a file name -/
def AllNamesOk (rules : List (Rule × Status)) : Prop :=
  ∀ rs ∈ rules, ∀ l, rs.2 = .dir l → ∀ e ∈ l, NamesOk e

/-- no accepted entry of any listing of these rules has a key that clashes with `K` -/
def ClearOfRules (K : List String) (trim : Bool) (rules : List (Rule × Status)) : Prop :=
  ∀ rs ∈ rules, ∀ l, rs.2 = .dir l → ClearOf K rs.1 trim l

theorem populate_inv_persist (ps : PSt) (n : Nat) (nest trim : Bool) (rules : List (Rule × Status))
    (hi : PopInv ps n) (hn : AllNamesOk rules) (ps' : PSt)
    (hok : populate ps (.decl n) nest trim rules = (ps', .ok)) :
    PopInv ps' n ∧ (∀ x ∈ ps.made, x ∈ ps'.made) ∧
    ∀ (P : List String) (pl : String) (w : Ref), ClearOfRules (P ++ [pl]) trim rules →
      getPath ps.tree (.decl n) P pl = some w → getPath ps'.tree (.decl n) P pl = some w := by
  induction rules generalizing ps with
  | nil =>
    simp only [populate, Prod.mk.injEq, and_true] at hok; subst hok
    exact ⟨hi, fun _ h => h, fun _ _ _ _ h => h⟩
  | cons rs rules ih =>
    obtain ⟨rule, status⟩ := rs
    have hn' : AllNamesOk rules := fun x hx => hn x (by simp [hx])
    cases status with
    | missing =>
      simp only [populate] at hok
      obtain ⟨a, b, c⟩ := ih ps hi hn' hok
      exact ⟨a, b, fun P pl w hc => c P pl w (fun x hx => hc x (by simp [hx]))⟩
    | notDir => simp [populate] at hok
    | dir listing =>
      simp only [populate] at hok
      rcases hp : placeAll ps (.decl n) rule nest trim true listing with ⟨ps1, o⟩
      rw [hp] at hok
      cases o with
      | raised x => simp only [Prod.mk.injEq] at hok; cases hok.2
      | ok =>
        have hnl : ∀ e ∈ listing, NamesOk e := hn (rule, .dir listing) (by simp) listing rfl
        have hi1 := placeAll_inv ps n rule nest trim true listing hi hnl ps1 hp
        obtain ⟨a, b, c⟩ := ih ps1 hi1 hn' hok
        have hmade := placeAll_made ps (.decl n) rule nest trim true listing ps1 hp
        refine ⟨a, fun x hx => b x (by rw [hmade]; simp [hx]), fun P pl w hc hget => ?_⟩
        refine c P pl w (fun x hx => hc x (by simp [hx])) ?_
        exact placeAll_persist ps n rule nest trim true listing hi hnl ps1 hp P pl w
          (hc (rule, .dir listing) (by simp) listing rfl) hget

theorem placeAll_append (ps : PSt) (m : MId) (rule : Rule) (nest trim isSelf : Bool) (a b : List Entry) :
    placeAll ps m rule nest trim isSelf (a ++ b) =
      match placeAll ps m rule nest trim isSelf a with
      | (ps1, .ok) => placeAll ps1 m rule nest trim (isSelf && a.isEmpty) b
      | r => r := by
  induction a generalizing ps isSelf with
  | nil => simp [placeAll]
  | cons e a ih =>
    simp only [List.cons_append, placeAll]
    rcases placeEntry ps m rule nest trim isSelf e with ⟨ps1, o⟩
    cases o with
    | ok => simp only [List.isEmpty_cons, Bool.and_false]; rw [ih ps1 false]; simp
    | raised x => rfl

end Desper.Pop
