import DesperProofs.Lemmas.WorldInv
/-
  Re-entrant callbacks (`Universe.runReact`, tied to `step` by `Universe.tie`): the table invariant
  (index ⇄ rows, exact typing, no empty row, unique keys) is preserved by every operation whatever the
  callbacks do back to the world, provided what they do preserves it — which it does when it is made
  of operations itself.  Invariant style: every function is "table step, callback, table step, …" and
  each table step re-establishes `TabInv` from `TabInv`.
-/
namespace Desper.World
open Desper

/-- what callbacks do back to the world preserves the table invariant -/
def ReactInv (U : Universe) : Prop :=
  ∀ s o m k x, TabInv U s → TabInv U (U.runReact s o m k x).1

variable {U : Universe}

private theorem inv_fields {s s' : St} (h : TabInv U s) (he : s'.ents = s.ents) (hc : s'.comps = s.comps) :
    TabInv U s' := tabInv_of_tables h he hc

theorem callCb_inv (hR : ReactInv U) {s : St} (h : TabInv U s) (o : Obj) (m : String) (e : Entry) :
    TabInv U (callCb U s o m e).1 := by
  unfold callCb
  simp only
  split
  · rename_i s' heq
    have h3 : TabInv U s' := by
      have this := congrArg Prod.fst heq
      simp only at this
      rw [← this]
      apply hR
      split <;> exact inv_fields h rfl rfl
    split <;> exact h3
  · apply hR
    split <;> exact inv_fields h rfl rfl

theorem ctrlRecord_inv {s : St} (h : TabInv U s) (ev : String) (o : Obj) (ent : Option Ent) :
    TabInv U (ctrlRecord U s ev o ent) := by
  unfold ctrlRecord
  split
  · split
    · exact inv_fields h rfl rfl
    · exact h
  · exact h

theorem lifecycle_inv (hR : ReactInv U) {s : St} (h : TabInv U s) (ev : String) (o : Obj) (m : Mapping)
    (ent : Option Ent) : TabInv U (lifecycle U s ev o m ent).1 := by
  unfold lifecycle
  split
  · exact h
  · split
    · exact callCb_inv hR (ctrlRecord_inv h ev o ent) o _ _
    · split
      · exact inv_fields h rfl rfl
      · exact h

theorem attachEvents_inv (hR : ReactInv U) {s : St} (h : TabInv U s) (o : Obj) (ent : Option Ent) :
    TabInv U (attachEvents U s o ent).1 := by
  unfold attachEvents
  split
  · exact h
  · rename_i m _
    exact lifecycle_inv hR (s := addHandler s o m) (inv_fields h rfl rfl) onAdd o m ent

theorem attachAll_inv (hR : ReactInv U) {s : St} (h : TabInv U s) (e : Ent) (cs : List Obj) :
    TabInv U (attachAll U s e cs).1 := by
  induction cs generalizing s with
  | nil => exact h
  | cons c cs ih =>
    simp only [attachAll]
    have h1 := attachEvents_inv hR h c (some e)
    split
    · rename_i s' hx; rw [hx] at h1; exact ih h1
    · exact h1

theorem removeComponent_inv (hR : ReactInv U) {s : St} (h : TabInv U s) (e : Ent) (t : Ty) :
    TabInv U (removeComponent U s e t).1 := by
  unfold removeComponent
  cases hf : (visit U t).find? (fun st => (Dict.get? (row s e) st).isSome) with
  | none => exact h
  | some st =>
    cases hg : Dict.get? (row s e) st with
    | none => simp only [hg]; exact h
    | some removed =>
      simp only [hg]
      have hd := tabInv_detach h e st
      cases hm : U.mapOf removed with
      | none => exact hd
      | some m =>
        simp only
        have hl := lifecycle_inv hR hd onRemove removed m (some e)
        generalize lifecycle U (detach s e st) onRemove removed m (some e) = r at hl
        obtain ⟨s', o⟩ := r
        cases o <;> try dsimp only
        · exact inv_fields hl rfl rfl
        all_goals exact hl

theorem removeTypes_inv (hR : ReactInv U) {s : St} (h : TabInv U s) (e : Ent) (ts : List Ty) :
    TabInv U (removeTypes U s e ts).1 := by
  induction ts generalizing s with
  | nil => exact h
  | cons t ts ih =>
    simp only [removeTypes]
    have h1 := removeComponent_inv hR h e t
    generalize removeComponent U s e t = r at h1
    obtain ⟨s', o, c⟩ := r
    cases o <;> try dsimp only
    · exact ih h1
    all_goals exact h1

theorem sweep_inv (hR : ReactInv U) {s : St} (h : TabInv U s) (es : List Ent) :
    TabInv U (sweep U s es).1 := by
  induction es generalizing s with
  | nil => exact h
  | cons e es ih =>
    simp only [sweep]
    split
    · exact h
    · rename_i r _
      have h1 := removeTypes_inv hR h e (Dict.keys r)
      generalize removeTypes U s e (Dict.keys r) = x at h1
      obtain ⟨s', o⟩ := x
      cases o <;> try dsimp only
      · exact ih h1
      all_goals exact h1

theorem clearDead_inv (hR : ReactInv U) {s : St} (h : TabInv U s) : TabInv U (clearDead U s).1 := by
  unfold clearDead
  split
  · exact h
  · exact sweep_inv hR (s := { s with dead := [], sweepHints := s.sweepHints.drop 1 }) (inv_fields h rfl rfl) _

theorem createEntity_inv (hR : ReactInv U) {s : St} (h : TabInv U s) (id? : Option Ent) (cs : List Obj) :
    TabInv U (createEntity U s id? cs).1 := by
  unfold createEntity
  have key : ∀ (s0 : St) (e : Ent), TabInv U s0 →
      TabInv U (match removeTypes U s0 e ((Dict.keys (row s0 e)).filter
          (fun t => cs.any (fun c => tyOf U c = t))) with
        | (s, .ok) =>
          match attachAll U (cs.foldl (fun s c => attachTables U s e c) s) e cs with
          | (s, o) => (s, o, e)
        | (s, o) => (s, o, e)).1 := by
    intro s0 e h0
    have h1 := removeTypes_inv hR h0 e ((Dict.keys (row s0 e)).filter
      (fun t => cs.any (fun c => tyOf U c = t)))
    cases hx : removeTypes U s0 e ((Dict.keys (row s0 e)).filter
        (fun t => cs.any (fun c => tyOf U c = t))) with
    | mk s' o =>
      rw [hx] at h1
      cases o <;> simp only
      · exact attachAll_inv hR (tabInv_foldAttach e cs h1) e cs
      all_goals exact h1
  cases id? with
  | some e => exact key s e h
  | none =>
    simp only
    exact key _ _ (tabInv_of_tables h rfl rfl)

theorem addComponent_inv (hR : ReactInv U) {s : St} (h : TabInv U s) (e : Ent) (c : Obj) :
    TabInv U (addComponent U s e c).1 := by
  unfold addComponent
  simp only
  generalize hr : (if (Dict.get? (row s e) (tyOf U c)).isSome then
      ((removeComponent U s e (tyOf U c)).1, (removeComponent U s e (tyOf U c)).2.1)
    else (s, Disp.Outcome.ok)) = r
  have h1 : TabInv U r.1 := by
    subst hr; split
    · exact removeComponent_inv hR h e _
    · exact h
  obtain ⟨s1, o⟩ := r
  cases o <;> try dsimp only
  · exact attachEvents_inv hR (tabInv_attachTables h1 e c) c (some e)
  all_goals exact h1

theorem deleteEntity_inv (hR : ReactInv U) {s : St} (h : TabInv U s) (e : Ent) (imm : Bool) :
    TabInv U (deleteEntity U s e imm).1 := by
  unfold deleteEntity
  split
  · split
    · exact h
    · exact removeTypes_inv hR h e _
  · exact inv_fields h rfl rfl

theorem deliverPlain_inv (hR : ReactInv U) {s : St} (h : TabInv U s) (ev args : String) :
    TabInv U (deliverPlain U s ev args).1 := by
  unfold deliverPlain
  generalize s.registered = l
  suffices H : ∀ (acc : St × Outcome), TabInv U acc.1 →
      TabInv U (l.foldl (fun (acc : St × Outcome) o =>
        match acc.2 with
        | .ok =>
          match (U.mapOf o).bind (fun m => Dict.get? m ev) with
          | some meth => callCb U acc.1 o meth (.probe o meth args)
          | none => acc
        | _ => acc) acc).1 from H (s, .ok) h
  induction l with
  | nil => intro acc ha; exact ha
  | cons o l ih =>
    intro acc ha
    simp only [List.foldl_cons]
    apply ih
    obtain ⟨a1, a2⟩ := acc
    cases a2 <;> try dsimp only
    · split
      · exact callCb_inv hR ha o _ _
      · exact ha
    all_goals exact ha

theorem dispatchPlain_inv (hR : ReactInv U) {s : St} (h : TabInv U s) (ev args : String) :
    TabInv U (dispatchPlain U s ev args).1 := by
  unfold dispatchPlain
  split
  · exact h
  · split
    · exact inv_fields h rfl rfl
    · exact deliverPlain_inv hR h ev args

theorem runProcs_inv (hR : ReactInv U) {s : St} (h : TabInv U s) (dt : String) (ps : List Obj) :
    TabInv U (runProcs U s dt ps).1 := by
  induction ps generalizing s with
  | nil => exact h
  | cons p ps ih =>
    simp only [runProcs]
    have h1 := callCb_inv hR h p "process" (.proc p dt)
    generalize callCb U s p "process" (.proc p dt) = r at h1
    obtain ⟨s', o⟩ := r
    cases o <;> try dsimp only
    · generalize hr2 : (if (U.cls (tyOf U p)).isOnUpdate then dispatchPlain U s' "on_update" dt
          else (s', Disp.Outcome.ok)) = r2
      have h2 : TabInv U r2.1 := by
        subst hr2; split
        · exact dispatchPlain_inv hR h1 _ _
        · exact h1
      obtain ⟨s'', o2⟩ := r2
      cases o2 <;> try dsimp only
      · exact ih h2
      all_goals exact h2
    all_goals exact h1

theorem process_inv (hR : ReactInv U) {s : St} (h : TabInv U s) (dt : String) :
    TabInv U (process U s dt).1 := by
  unfold process
  have h1 := clearDead_inv hR h
  generalize clearDead U s = r at h1
  obtain ⟨s', o⟩ := r
  cases o <;> try dsimp only
  · exact runProcs_inv hR h1 dt _
  all_goals exact h1

theorem removeProcessor_inv (hR : ReactInv U) {s : St} (h : TabInv U s) (t : Ty) :
    TabInv U (removeProcessor U s t).1 := by
  unfold removeProcessor
  cases hf : (visit U t).find? (fun st => (Dict.get? s.procs st).isSome) with
  | none => exact h
  | some st =>
    cases hg : Dict.get? s.procs st with
    | none => simp only [hg]; exact h
    | some removed =>
      simp only [hg]
      have hd : TabInv U (dropProc U s st) := inv_fields h rfl rfl
      cases hm : U.mapOf removed with
      | none => exact hd
      | some m =>
        simp only
        have hl := lifecycle_inv hR hd onRemove removed m none
        generalize lifecycle U (dropProc U s st) onRemove removed m none = r at hl
        obtain ⟨s', o⟩ := r
        cases o <;> try dsimp only
        · exact inv_fields hl rfl rfl
        all_goals exact hl

theorem addProcessor_inv (hR : ReactInv U) {s : St} (h : TabInv U s) (p : Obj) (prio? : Option Int) :
    TabInv U (addProcessor U s p prio?).1 := by
  unfold addProcessor
  simp only
  generalize hr : (if (Dict.get? s.procs (tyOf U p)).isSome then
      ((removeProcessor U s (tyOf U p)).1, (removeProcessor U s (tyOf U p)).2.1)
    else (s, Disp.Outcome.ok)) = r
  have h1 : TabInv U r.1 := by
    subst hr; split
    · exact removeProcessor_inv hR h _
    · exact h
  obtain ⟨s1, o⟩ := r
  cases o <;> try dsimp only
  · have h2 : TabInv U (insertProc U (setPrio s1 p prio?) p) := by
      refine inv_fields (s := setPrio s1 p prio?) ?_ rfl rfl
      cases prio? <;> first | exact h1 | exact inv_fields h1 rfl rfl
    exact attachEvents_inv hR h2 p none
  all_goals exact h1

theorem removeProcs_inv (hR : ReactInv U) {s : St} (h : TabInv U s) (ps : List Obj) :
    TabInv U (removeProcs U s ps).1 := by
  induction ps generalizing s with
  | nil => exact h
  | cons p ps ih =>
    simp only [removeProcs]
    have h1 := removeProcessor_inv hR h (tyOf U p)
    generalize removeProcessor U s (tyOf U p) = r at h1
    obtain ⟨s', o, c⟩ := r
    cases o <;> try dsimp only
    · exact ih h1
    all_goals exact h1

theorem deleteAll_inv (hR : ReactInv U) {s : St} (h : TabInv U s) (es : List Ent) :
    TabInv U (deleteAll U s es).1 := by
  induction es generalizing s with
  | nil => exact h
  | cons e es ih =>
    simp only [deleteAll]
    have h1 := deleteEntity_inv hR h e true
    generalize deleteEntity U s e true = r at h1
    obtain ⟨s', o⟩ := r
    cases o <;> try dsimp only
    · exact ih h1
    all_goals exact h1

theorem clear_inv (hR : ReactInv U) {s : St} (h : TabInv U s) : TabInv U (clear U s).1 := by
  unfold clear
  have h1 := deleteAll_inv hR h (Dict.keys s.ents)
  generalize deleteAll U s (Dict.keys s.ents) = r at h1
  obtain ⟨s1, o⟩ := r
  cases o <;> try dsimp only
  · have h2 := removeProcs_inv hR (s := { s1 with dead := [] }) (inv_fields h1 rfl rfl) ({ s1 with dead := [] } : St).sorted
    generalize removeProcs U { s1 with dead := [] } ({ s1 with dead := [] } : St).sorted = r2 at h2
    obtain ⟨s2, o2⟩ := r2
    cases o2 <;> try dsimp only
    · exact inv_fields h2 rfl rfl
    all_goals exact h2
  all_goals exact h1

theorem deliverQ_inv (hR : ReactInv U) {s : St} (h : TabInv U s) (q : QEv) :
    TabInv U (deliverQ U s q).1 := by
  cases q with
  | plain ev args =>
    simp only [deliverQ]
    split
    · exact deliverPlain_inv hR h ev args
    · exact h
  | relay event hd ent =>
    simp only [deliverQ, deliverRelay]
    split
    · exact h
    · split
      · exact h
      · exact callCb_inv hR (ctrlRecord_inv h event hd ent) hd _ _

theorem releaseQ_inv (hR : ReactInv U) {s : St} (h : TabInv U s) (qs : List QEv) :
    TabInv U (releaseQ U s qs).1 := by
  induction qs generalizing s with
  | nil => exact inv_fields h rfl rfl
  | cons q qs ih =>
    simp only [releaseQ]
    have h1 := deliverQ_inv hR (s := { s with queue := qs }) (inv_fields h rfl rfl) q
    generalize deliverQ U { s with queue := qs } q = r at h1
    obtain ⟨s', o⟩ := r
    cases o <;> try dsimp only
    · exact ih h1
    all_goals exact h1

theorem setEnabled_inv (hR : ReactInv U) {s : St} (h : TabInv U s) (b : Bool) :
    TabInv U (setEnabled U s b).1 := by
  unfold setEnabled
  simp only
  split
  · exact releaseQ_inv hR (s := { s with enabled := b }) (inv_fields h rfl rfl) _
  · exact inv_fields h rfl rfl

theorem step_inv (hR : ReactInv U) {s : St} (h : TabInv U s) (op : Op) : TabInv U (step U s op).1 := by
  cases op with
  | create id? cs => exact createEntity_inv hR h id? cs
  | add e c => exact addComponent_inv hR h e c
  | remove e t => exact removeComponent_inv hR h e t
  | delete e imm => exact deleteEntity_inv hR h e imm
  | process dt => exact process_inv hR h dt
  | clear => exact clear_inv hR h
  | addProc p prio? => exact addProcessor_inv hR h p prio?
  | rmProc t => exact removeProcessor_inv hR h t
  | enable b => exact setEnabled_inv hR h b
  | dispatch ev args => exact dispatchPlain_inv hR h ev args

theorem runOps_inv (hR : ReactInv U) {s : St} (h : TabInv U s) (ops : List Op) :
    TabInv U (runOps U s ops).1 := by
  induction ops generalizing s with
  | nil => exact h
  | cons op ops ih =>
    simp only [runOps]
    have h1 := step_inv hR h op
    generalize step U s op = r at h1
    obtain ⟨s', o, v⟩ := r
    cases o <;> try dsimp only
    · exact ih h1
    all_goals exact h1

theorem run_inv (hR : ReactInv U) {s : St} (h : TabInv U s) (ops : List Op) : TabInv U (run U s ops) := by
  unfold run
  induction ops generalizing s with
  | nil => exact h
  | cons op ops ih => exact ih (step_inv hR h op)

/-- the invariant only looks at the class of each object -/
theorem tabInv_congr {U U' : Universe} (hty : U'.objTy = U.objTy) {s : St} (h : TabInv U s) : TabInv U' s := by
  refine ⟨h.transpose, h.idxNodup, ?_, h.noEmptyRow, h.entKeys, h.rowKeys⟩
  intro e t c hc
  have := h.rowTyped e t c hc
  simpa [tyOf, hty] using this

theorem tie_objTy (U : Universe) (script : Obj → String → Nat → List Op) (n : Nat) :
    (U.tie script n).objTy = U.objTy := by
  cases n <;> rfl

/-- every tied universe reacts by operations, hence preserves the invariant -/
theorem reactInv_tie (U : Universe) (script : Obj → String → Nat → List Op) (n : Nat) :
    ReactInv (U.tie script n) := by
  induction n with
  | zero =>
    intro s o m k x h
    show TabInv _ (if (script o m k).isEmpty then (s, Disp.Outcome.ok) else (s, Disp.Outcome.raised "RecursionError")).1
    split <;> exact h
  | succ n ih =>
    intro s o m k x h
    show TabInv _ (runOps (U.tie script n) s ((script o m k).map (Op.forEntity x))).1
    have hty : (U.tie script n).objTy = (U.tie script (n + 1)).objTy := by
      rw [tie_objTy, tie_objTy]
    have h' : TabInv (U.tie script n) s := tabInv_congr hty h
    exact tabInv_congr hty.symm (runOps_inv ih h' _)

end Desper.World
