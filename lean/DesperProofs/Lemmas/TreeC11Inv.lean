import DesperProofs.Lemmas.TreeC11
/-
  C11: the invariants (one kind per name; back-links) and their preservation by every operation.
-/
namespace Desper.Tree
open Desper

/-! ### operations that do not touch the tree -/

/-- same maps, same back-links of handles, same allocation counter -/
def SameTree (st st' : St) : Prop :=
  (∀ j, st'.m j = st.m j) ∧
  (∀ g, (st'.h g).parent = (st.h g).parent ∧ (st'.h g).key = (st.h g).key) ∧ st'.next = st.next

theorem SameTree.refl (st : St) : SameTree st st := ⟨fun _ => rfl, fun _ => ⟨rfl, rfl⟩, rfl⟩

theorem SameTree.trans {a b c : St} (h1 : SameTree a b) (h2 : SameTree b c) : SameTree a c :=
  ⟨fun j => (h2.1 j).trans (h1.1 j),
   fun g => ⟨((h2.2.1 g).1).trans (h1.2.1 g).1, ((h2.2.1 g).2).trans (h1.2.1 g).2⟩,
   h2.2.2.trans h1.2.2⟩

theorem callH_tree (st : St) (g : HId) : SameTree st (callH st g).1 := by
  unfold callH
  by_cases hc : (st.h g).cached = true
  · rw [if_pos hc]; exact SameTree.refl st
  · rw [if_neg hc]
    by_cases hf : st.failing g ((st.h g).tries + 1) = true
    · rw [if_pos hf]
      refine ⟨fun j => by simp, fun g' => ?_, by simp⟩
      by_cases e : g = g'
      · subst e; simp
      · simp [e]
    · rw [if_neg hf]
      refine ⟨fun j => by simp, fun g' => ?_, by simp⟩
      by_cases e : g = g'
      · subst e; simp
      · simp [e]

theorem clearH_tree (st : St) (g : HId) : SameTree st (clearH st g) := by
  refine ⟨fun j => by simp [clearH], fun g' => ?_, by simp [clearH]⟩
  by_cases e : g = g'
  · subst e; simp [clearH]
  · simp [clearH, e]

theorem getItemPath_tree (st : St) (i : MId) (ps : List String) (last : String) :
    SameTree st (getItemPath st i ps last).1 := by
  unfold getItemPath
  split
  · exact SameTree.refl st
  · split
    · exact callH_tree st _
    · split <;> exact SameTree.refl st

theorem chainItems_tree (st : St) (i : MId) (ks : List String) : SameTree st (chainItems st i ks).1 := by
  induction ks generalizing st i with
  | nil => exact SameTree.refl st
  | cons k ks ih =>
    have s1 := getItemPath_tree st i [] k
    simp only [chainItems]
    rcases hg : getItemPath st i [] k with ⟨st', o⟩
    rw [hg] at s1
    cases o with
    | ok it =>
      cases it with
      | map c => exact s1.trans (ih st' c)
      | val v => simp only []; split <;> exact s1
      | smap s => simp only []; split <;> exact s1
    | raised e => exact s1
    | stuck => exact s1

theorem sGetAttr1_tree (st : St) (s : Nat) (k : String) : SameTree st (sGetAttr1 st s k).1 := by
  unfold sGetAttr1
  split
  · split
    · exact callH_tree st _
    · exact SameTree.refl st
    · exact SameTree.refl st
  · split <;> exact SameTree.refl st

theorem sItems_tree (st : St) (s : Nat) (ks : List String) : SameTree st (sItems st s ks).1 := by
  induction ks generalizing st s with
  | nil => exact SameTree.refl st
  | cons k ks ih =>
    have s1 := sGetAttr1_tree st s k
    simp only [sItems]
    rcases hg : sGetAttr1 st s k with ⟨st', o⟩
    rw [hg] at s1
    cases o with
    | ok it =>
      cases it with
      | smap c => exact s1.trans (ih st' c)
      | val v => simp only []; split <;> exact s1
      | map s => simp only []; split <;> exact s1
    | raised e => exact s1
    | stuck => exact s1

theorem snapshot_tree (fuel : Nat) (st : St) (i : MId) : SameTree st (snapshot fuel st i).1 :=
  ⟨fun j => snapshot_m fuel st i j, fun g => by rw [snapshot_h]; exact ⟨rfl, rfl⟩, (snapshot_frame fuel st i).2.2⟩

/-- is this operation one of the three that change the tree? -/
def Op.mutates : Op → Bool
  | .set .. => true
  | .layer _ => true
  | .clear _ => true
  | _ => false

theorem step_tree (st : St) (op : Op) (h : op.mutates = false) : SameTree st (step st op).1 := by
  cases op with
  | set m key v => cases h
  | layer m => cases h
  | clear m => cases h
  | reject m => exact SameTree.refl st
  | getitem m key => exact getItemPath_tree st m _ _
  | get m key => exact SameTree.refl st
  | chain m ks => exact chainItems_tree st m ks
  | call g => exact callH_tree st g
  | hclear g => exact clearH_tree st g
  | cached g => exact SameTree.refl st
  | snap m => exact snapshot_tree _ st m
  | sitems s ks => exact sItems_tree st s ks
  | sget s ks => exact SameTree.refl st
  | ssetattr s k => exact SameTree.refl st
  | sdelattr s k => exact SameTree.refl st

/-! ### one kind per name -/

/-- under one map no name is both a sub-map and a handle (in any layer) -/
def OneKind (st : St) : Prop :=
  ∀ i k, Dict.get? (st.m i).maps k ≠ none → chainGet? (st.m i).layers k = none

theorem OneKind.of_tree {st st' : St} (e : SameTree st st') (h : OneKind st) : OneKind st' := by
  intro i k hk
  rw [e.1 i] at hk ⊢
  exact h i k hk

theorem assign_oneKind (st : St) (t : MId) (k : String) (v : Ref) (h : OneKind st) :
    OneKind (assign st t k v) := by
  intro i k' hk
  cases v with
  | map c =>
    rw [assign_map_maps] at hk
    rw [assign_map_layers]
    by_cases e : i = t
    · subst e
      simp only [if_true] at hk ⊢
      by_cases ek : k = k'
      · subst ek; exact chainGet_erase_self _ _
      · rw [chainGet_erase_other _ _ _ ek]
        rw [dget_set, if_neg ek] at hk
        exact h i k' hk
    · simp only [e, if_false] at hk ⊢
      exact h i k' hk
  | handle g =>
    rw [assign_h_maps] at hk
    rw [assign_h_layers]
    by_cases e : i = t
    · subst e
      simp only [if_true] at hk ⊢
      rw [dget_erase] at hk
      by_cases ek : k = k'
      · simp [ek] at hk
      · simp only [ek, if_false] at hk
        have := h i k' hk
        rw [layers_def, chainGet_cons] at this
        rw [chainGet_cons, dget_set, if_neg ek]
        exact this
    · simp only [e, if_false] at hk ⊢
      exact h i k' hk

theorem popLayer0_oneKind (st : St) (t : MId) (k : String) (h : OneKind st) :
    OneKind (st.setM t { st.m t with layer0 := Dict.erase (st.m t).layer0 k }) := by
  intro i k' hk
  by_cases e : t = i
  · subst e
    simp only [m_setM, if_true] at hk ⊢
    have := h t k' hk
    rw [chainGet_none] at this ⊢
    intro l hl
    simp only [layers_def, List.mem_cons] at hl this
    rcases hl with rfl | hl
    · rw [dget_erase]; split
      · rfl
      · exact this _ (Or.inl rfl)
    · exact this l (Or.inr hl)
  · simp only [m_setM, e, if_false] at hk ⊢
    exact h i k' hk

theorem descend_oneKind (st : St) (t : MId) (ks : List String) (h : OneKind st) :
    OneKind (descend st t ks).1 := by
  induction ks generalizing st t with
  | nil => exact h
  | cons k ks ih =>
    simp only [descend]
    have h1 := popLayer0_oneKind st t k h
    split
    · exact ih _ _ h1
    · refine ih _ _ (assign_oneKind _ _ _ _ ?_)
      intro i k' hk
      exact h1 i k' hk

theorem setItem_oneKind (st : St) (i : MId) (key : String) (v : Ref) (h : OneKind st) :
    OneKind (setItem st i key v) :=
  assign_oneKind _ _ _ _ (descend_oneKind _ _ _ h)

theorem addLayer_oneKind (st : St) (i : MId) (h : OneKind st) : OneKind (addLayer st i) := by
  intro j k hk
  obtain ⟨a, b, _, _⟩ := addLayer_m st i j
  rw [a] at hk
  rw [b]
  by_cases e : j = i
  · subst e
    simp only [if_true]
    rw [chainGet_cons]
    simpa using h j k hk
  · simp only [e, if_false]; exact h j k hk

theorem clearMap_oneKind (st : St) (i : MId) (h : OneKind st) : OneKind (clearMap st i) := by
  intro j k hk
  obtain ⟨a, b, _, _⟩ := clearMap_m st i j
  rw [a] at hk
  rw [b]
  by_cases e : j = i
  · simp [e] at hk
  · simp only [e, if_false] at hk ⊢; exact h j k hk

theorem step_oneKind (st : St) (op : Op) (h : OneKind st) : OneKind (step st op).1 := by
  cases hm : op.mutates with
  | false => exact OneKind.of_tree (step_tree st op hm) h
  | true =>
    cases op with
    | set m key v => exact setItem_oneKind st m key v h
    | layer m => exact addLayer_oneKind st m h
    | clear m => exact clearMap_oneKind st m h
    | _ => cases hm

theorem exec_oneKind (st : St) (ops : List Op) (h : OneKind st) : OneKind (exec st ops) := by
  induction ops generalizing st with
  | nil => exact h
  | cons op ops ih => exact ih _ (step_oneKind st op h)

theorem OneKind_init : OneKind {} := by intro i k hk; simp at hk
theorem OneKind_initF (F : HId → Nat → Bool) : OneKind (init F) := by intro i k hk; simp at hk

/-! ### back-links -/

/-- every entry of every map points to an object that records this map and this name -/
structure Links (st : St) : Prop where
  maps : ∀ i k c, Dict.get? (st.m i).maps k = some c →
    (st.m c).parent = some i ∧ (st.m c).key = some k
  handles : ∀ i l k g, l ∈ (st.m i).layers → Dict.get? l k = some g →
    (st.h g).parent = some i ∧ (st.h g).key = some k
  alloc : ∀ i k n, Dict.get? (st.m i).maps k = some (.anon n) → n < st.next

/-- the object is stored nowhere -/
def NoLoc (st : St) : Ref → Prop
  | .map c => ∀ i k, Dict.get? (st.m i).maps k ≠ some c
  | .handle g => ∀ i l k, l ∈ (st.m i).layers → Dict.get? l k ≠ some g

/-- a value the program can hold before it is stored: not a map that `__setitem__` creates -/
def Ref.declared : Ref → Bool
  | .map (.anon _) => false
  | _ => true

theorem Links.of_tree {st st' : St} (e : SameTree st st') (h : Links st) : Links st' := by
  refine ⟨fun i k c hc => ?_, fun i l k g hl hg => ?_, fun i k n hn => ?_⟩
  · rw [e.1 i] at hc; rw [e.1 c]; exact h.maps i k c hc
  · rw [e.1 i] at hl; rw [(e.2.1 g).1, (e.2.1 g).2]; exact h.handles i l k g hl hg
  · rw [e.1 i] at hn; rw [e.2.2]; exact h.alloc i k n hn

theorem NoLoc.of_tree {st st' : St} (e : SameTree st st') (v : Ref) (h : NoLoc st v) : NoLoc st' v := by
  cases v with
  | map c => intro i k; rw [e.1 i]; exact h i k
  | handle g => intro i l k hl; rw [e.1 i] at hl; exact h i l k hl

theorem assign_links (st : St) (t : MId) (k : String) (v : Ref) (h : Links st) (hv : NoLoc st v)
    (ha : ∀ n, v = .map (.anon n) → n < st.next) : Links (assign st t k v) := by
  cases v with
  | map c =>
    refine ⟨fun i k' c' hc => ?_, fun i l k' g hl hg => ?_, fun i k' n hn => ?_⟩
    · rw [assign_map_maps] at hc
      rw [assign_map_parent, assign_map_key]
      by_cases e : i = t
      · subst e
        simp only [if_true, dget_set] at hc
        by_cases ek : k = k'
        · subst ek
          simp only [if_true, Option.some.injEq] at hc
          subst hc; simp
        · simp only [ek, if_false] at hc
          have : c' ≠ c := fun e => hv i k' (e ▸ hc)
          simp only [this, if_false]
          exact h.maps i k' c' hc
      · simp only [e, if_false] at hc
        have : c' ≠ c := fun e => hv i k' (e ▸ hc)
        simp only [this, if_false]
        exact h.maps i k' c' hc
    · rw [assign_map_layers] at hl
      rw [assign_map_h]
      by_cases e : i = t
      · subst e
        simp only [if_true, List.mem_map] at hl
        obtain ⟨l0, hl0, rfl⟩ := hl
        rw [dget_erase] at hg
        by_cases ek : k = k'
        · simp [ek] at hg
        · simp only [ek, if_false] at hg
          exact h.handles i l0 k' g hl0 hg
      · simp only [e, if_false] at hl
        exact h.handles i l k' g hl hg
    · rw [assign_map_maps] at hn
      rw [assign_next]
      by_cases e : i = t
      · subst e
        simp only [if_true, dget_set] at hn
        by_cases ek : k = k'
        · simp only [ek, if_true, Option.some.injEq] at hn
          exact ha n (by rw [hn])
        · simp only [ek, if_false] at hn; exact h.alloc i k' n hn
      · simp only [e, if_false] at hn; exact h.alloc i k' n hn
  | handle g =>
    refine ⟨fun i k' c' hc => ?_, fun i l k' g' hl hg => ?_, fun i k' n hn => ?_⟩
    · rw [assign_h_maps] at hc
      rw [(assign_h_parent st t c' g k).1, (assign_h_parent st t c' g k).2]
      by_cases e : i = t
      · subst e
        simp only [if_true, dget_erase] at hc
        by_cases ek : k = k'
        · simp [ek] at hc
        · simp only [ek, if_false] at hc; exact h.maps i k' c' hc
      · simp only [e, if_false] at hc; exact h.maps i k' c' hc
    · rw [assign_h_layers] at hl
      rw [(assign_h_h st t g g' k).1, (assign_h_h st t g g' k).2]
      by_cases e : i = t
      · subst e
        simp only [if_true, List.mem_cons] at hl
        rcases hl with rfl | hl
        · rw [dget_set] at hg
          by_cases ek : k = k'
          · simp only [ek, if_true, Option.some.injEq] at hg
            subst hg; subst ek; simp
          · simp only [ek, if_false] at hg
            have : g' ≠ g := fun e => hv i _ k' (by simp [layers_def]) (e ▸ hg)
            simp only [this, if_false]
            exact h.handles i _ k' g' (by simp [layers_def]) hg
        · have hl' : l ∈ (st.m i).layers := by simp [layers_def, hl]
          have : g' ≠ g := fun e => hv i l k' hl' (e ▸ hg)
          simp only [this, if_false]
          exact h.handles i l k' g' hl' hg
      · simp only [e, if_false] at hl
        have : g' ≠ g := fun e => hv i l k' hl (e ▸ hg)
        simp only [this, if_false]
        exact h.handles i l k' g' hl hg
    · rw [assign_h_maps] at hn
      rw [assign_next]
      by_cases e : i = t
      · subst e
        simp only [if_true, dget_erase] at hn
        by_cases ek : k = k'
        · simp [ek] at hn
        · simp only [ek, if_false] at hn; exact h.alloc i k' n hn
      · simp only [e, if_false] at hn; exact h.alloc i k' n hn

theorem assign_noLoc (st : St) (t : MId) (k : String) (v w : Ref) (hw : NoLoc st w) (ne : w ≠ v) :
    NoLoc (assign st t k v) w := by
  cases v with
  | map c =>
    cases w with
    | map c' =>
      intro i k' hc
      rw [assign_map_maps] at hc
      by_cases e : i = t
      · subst e
        simp only [if_true, dget_set] at hc
        by_cases ek : k = k'
        · simp only [ek, if_true, Option.some.injEq] at hc
          exact ne (by rw [hc])
        · simp only [ek, if_false] at hc; exact hw i k' hc
      · simp only [e, if_false] at hc; exact hw i k' hc
    | handle g' =>
      intro i l k' hl hg
      rw [assign_map_layers] at hl
      by_cases e : i = t
      · subst e
        simp only [if_true, List.mem_map] at hl
        obtain ⟨l0, hl0, rfl⟩ := hl
        rw [dget_erase] at hg
        by_cases ek : k = k'
        · simp [ek] at hg
        · simp only [ek, if_false] at hg; exact hw i l0 k' hl0 hg
      · simp only [e, if_false] at hl; exact hw i l k' hl hg
  | handle g =>
    cases w with
    | map c' =>
      intro i k' hc
      rw [assign_h_maps] at hc
      by_cases e : i = t
      · subst e
        simp only [if_true, dget_erase] at hc
        by_cases ek : k = k'
        · simp [ek] at hc
        · simp only [ek, if_false] at hc; exact hw i k' hc
      · simp only [e, if_false] at hc; exact hw i k' hc
    | handle g' =>
      intro i l k' hl hg
      rw [assign_h_layers] at hl
      by_cases e : i = t
      · subst e
        simp only [if_true, List.mem_cons] at hl
        rcases hl with rfl | hl
        · rw [dget_set] at hg
          by_cases ek : k = k'
          · simp only [ek, if_true, Option.some.injEq] at hg
            exact ne (by rw [hg])
          · simp only [ek, if_false] at hg
            exact hw i _ k' (by simp [layers_def]) hg
        · exact hw i l k' (by simp [layers_def, hl]) hg
      · simp only [e, if_false] at hl; exact hw i l k' hl hg

/-- `target_map.handles.pop(subkey, None)` -/
def popLayer0 (st : St) (t : MId) (k : String) : St :=
  st.setM t { st.m t with layer0 := Dict.erase (st.m t).layer0 k }

theorem popLayer0_fields (st : St) (t j : MId) (k : String) :
    ((popLayer0 st t k).m j).maps = (st.m j).maps ∧
    ((popLayer0 st t k).m j).parent = (st.m j).parent ∧ ((popLayer0 st t k).m j).key = (st.m j).key ∧
    ((popLayer0 st t k).m j).layers
      = (if j = t then Dict.erase (st.m t).layer0 k :: (st.m t).lower else (st.m j).layers) := by
  simp only [popLayer0, m_setM, layers_def]
  by_cases e : t = j <;> simp_all <;> grind

theorem popLayer0_mem (st : St) (t j : MId) (k k' : String) (l : Dict String HId) (g : HId)
    (hl : l ∈ ((popLayer0 st t k).m j).layers) (hg : Dict.get? l k' = some g) :
    ∃ l0 ∈ (st.m j).layers, Dict.get? l0 k' = some g := by
  rw [(popLayer0_fields st t j k).2.2.2] at hl
  by_cases e : j = t
  · subst e
    simp only [if_true, List.mem_cons] at hl
    rcases hl with rfl | hl
    · rw [dget_erase] at hg
      by_cases ek : k = k'
      · simp [ek] at hg
      · simp only [ek, if_false] at hg
        exact ⟨_, by simp [layers_def], hg⟩
    · exact ⟨l, by simp [layers_def, hl], hg⟩
  · simp only [e, if_false] at hl; exact ⟨l, hl, hg⟩

theorem popLayer0_links (st : St) (t : MId) (k : String) (h : Links st) : Links (popLayer0 st t k) := by
  refine ⟨fun i k' c hc => ?_, fun i l k' g hl hg => ?_, fun i k' n hn => ?_⟩
  · rw [(popLayer0_fields st t i k).1] at hc
    rw [(popLayer0_fields st t c k).2.1, (popLayer0_fields st t c k).2.2.1]
    exact h.maps i k' c hc
  · obtain ⟨l0, h1, h2⟩ := popLayer0_mem st t i k k' l g hl hg
    have := h.handles i l0 k' g h1 h2
    simpa [popLayer0] using this
  · rw [(popLayer0_fields st t i k).1] at hn
    have := h.alloc i k' n hn
    simpa [popLayer0] using this

theorem popLayer0_noLoc (st : St) (t : MId) (k : String) (w : Ref) (hw : NoLoc st w) :
    NoLoc (popLayer0 st t k) w := by
  cases w with
  | map c => intro i k'; rw [(popLayer0_fields st t i k).1]; exact hw i k'
  | handle g =>
    intro i l k' hl hg
    obtain ⟨l0, h1, h2⟩ := popLayer0_mem st t i k k' l g hl hg
    exact hw i l0 k' h1 h2

theorem bump_links (st : St) (h : Links st) : Links st.bump :=
  ⟨h.maps, h.handles, fun i k n hn => Nat.lt_succ_of_lt (h.alloc i k n hn)⟩

theorem noLoc_bump (st : St) (w : Ref) (hw : NoLoc st w) : NoLoc st.bump w := by
  cases w <;> exact hw

theorem descend_eq (st : St) (t : MId) (k : String) (ks : List String) :
    descend st t (k :: ks) =
      match Dict.get? ((popLayer0 st t k).m t).maps k with
      | some c => descend (popLayer0 st t k) c ks
      | none => descend (assign (popLayer0 st t k).bump t k (.map (.anon (popLayer0 st t k).next)))
          (.anon (popLayer0 st t k).next) ks := rfl

theorem descend_links (st : St) (t : MId) (ks : List String) (h : Links st) :
    Links (descend st t ks).1 ∧
    (∀ w, w.declared = true → NoLoc st w → NoLoc (descend st t ks).1 w) := by
  induction ks generalizing st t with
  | nil => exact ⟨h, fun _ _ hw => hw⟩
  | cons k ks ih =>
    rw [descend_eq]
    have h1 := popLayer0_links st t k h
    split
    · obtain ⟨a, b⟩ := ih _ _ h1
      exact ⟨a, fun w hd hw => b w hd (popLayer0_noLoc st t k w hw)⟩
    · have fresh : NoLoc (popLayer0 st t k).bump (.map (.anon (popLayer0 st t k).next)) := by
        intro i k' hc
        have := h1.alloc i k' _ hc
        exact Nat.lt_irrefl _ this
      have h2 := assign_links (popLayer0 st t k).bump t k (.map (.anon (popLayer0 st t k).next))
        (bump_links _ h1) fresh (by intro n hn; simp only [Ref.map.injEq, MId.anon.injEq] at hn; simp [hn])
      obtain ⟨a, b⟩ := ih _ _ h2
      refine ⟨a, fun w hd hw => b w hd ?_⟩
      refine assign_noLoc _ _ _ _ w ?_ ?_
      · exact noLoc_bump _ w (popLayer0_noLoc st t k w hw)
      · intro e; subst e; simp [Ref.declared] at hd

end Desper.Tree
