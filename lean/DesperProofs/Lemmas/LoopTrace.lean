import DesperProofs.Lemmas.LoopExact
/-
  Trace lemmas: which processors a frame logs, which frames a run logs and with which deltas,
  what a served switch leaves as current world; reachability of well-formed states.
-/
namespace Desper.Loop

/-- processor numbers of the `proc` entries of a log segment, oldest first -/
def procIdx (ext : List Entry) : List Nat :=
  ext.reverse.filterMap fun
    | .proc _ p _ => some p
    | _ => none

/-- deltas of the `frame` entries (the `World.process(dt)` calls) of a log segment, oldest first -/
def frameDts (ext : List Entry) : List Int :=
  ext.reverse.filterMap fun
    | .frame _ dt => some dt
    | _ => none

/-- the readings the loop took (its `tick` entries), oldest first -/
def ticks (ext : List Entry) : List Int :=
  ext.reverse.filterMap fun
    | .tick r => some r
    | _ => none

/-- the deltas the property demands for consecutive readings: 0 first if there is no previous
reading, then differences -/
def deltas : Option Int → List Int → List Int
  | _, [] => []
  | last, r :: rs => dtOf last r :: deltas (some r) rs

/-- `rs` are readings of a prefix of `frames`, each taken from one of the two time functions -/
def fromFrames : List Frame → List Int → Bool
  | _, [] => true
  | [], _ :: _ => false
  | f :: fs, r :: rs => (decide (r = f.reading) || decide (r = f.alt)) && fromFrames fs rs

theorem procIdx_append (a b : List Entry) : procIdx (a ++ b) = procIdx b ++ procIdx a := by
  simp [procIdx, List.filterMap_append]

theorem frameDts_append (a b : List Entry) : frameDts (a ++ b) = frameDts b ++ frameDts a := by
  simp [frameDts, List.filterMap_append]

theorem ticks_append (a b : List Entry) : ticks (a ++ b) = ticks b ++ ticks a := by
  simp [ticks, List.filterMap_append]

/-- entries of the processors of a frame of `i`, direct `loop.switch` calls included -/
abbrev PsP (i : Inst) (dt : Int) : Entry → Prop := fun e => PrP i dt e ∨ SwP e

theorem procIdx_swP {ext : List Entry} (h : ∀ e ∈ ext, SwP e) : procIdx ext = [] := by
  simp only [procIdx, List.filterMap_eq_nil_iff, List.mem_reverse]
  intro e he
  rcases h e he with h | ⟨j, rfl⟩
  · cases e <;> simp_all [Entry.quiet]
  · rfl

theorem frameDts_of_noframe {ext : List Entry} (h : ∀ e ∈ ext, ∀ i dt, e ≠ .frame i dt) :
    frameDts ext = [] := by
  simp only [frameDts, List.filterMap_eq_nil_iff, List.mem_reverse]
  intro e he
  have := h e he
  cases e with
  | frame i dt => exact absurd rfl (this i dt)
  | _ => rfl

theorem ticks_of_notick {ext : List Entry} (h : ∀ e ∈ ext, ∀ r, e ≠ .tick r) : ticks ext = [] := by
  simp only [ticks, List.filterMap_eq_nil_iff, List.mem_reverse]
  intro e he
  have := h e he
  cases e with
  | tick r => exact absurd rfl (this r)
  | _ => rfl

theorem swP_shape {e : Entry} (h : SwP e) : (∀ i dt, e ≠ .frame i dt) ∧ (∀ r, e ≠ .tick r) := by
  rcases h with h | ⟨j, rfl⟩
  · cases e <;> simp_all [Entry.quiet]
  · exact ⟨fun _ _ c => (by cases c), fun _ c => (by cases c)⟩

theorem psP_shape {i : Inst} {dt : Int} {e : Entry} (h : PsP i dt e) :
    (∀ j d, e ≠ .frame j d) ∧ (∀ r, e ≠ .tick r) := by
  rcases h with (h | ⟨p, rfl⟩) | h
  · exact swP_shape (Or.inl h)
  · exact ⟨fun _ _ c => (by cases c), fun _ c => (by cases c)⟩
  · exact swP_shape h

/-- one processor: its own entry first, then what its action logs -/
theorem runProc_log (U : Universe) (fuel : Nat) {s s' : St} {i : Inst} {dt : Int} {p : Nat}
    {k : ProcKind} {a : PAct} {o : Outcome} (wf : WF s)
    (h : runProc U fuel s i dt p k a = (s', o)) :
    ∃ ext, s'.log = ext ++ .proc i p dt :: s.log ∧ ∀ e ∈ ext, SwP e := by
  have wf1 : WF { s with log := .proc i p dt :: s.log } := ⟨wf.fresh, wf.cached, wf.cur⟩
  have fromExt : ∀ {t : St}, Ext Quiet { s with log := .proc i p dt :: s.log } t →
      ∃ ext, t.log = ext ++ .proc i p dt :: s.log ∧ ∀ e ∈ ext, SwP e := by
    intro t e
    obtain ⟨ext, h1, h2, _⟩ := e.log
    exact ⟨ext, h1, fun x hx => Or.inl (h2 x hx)⟩
  -- a processor action from the state with the processor's own entry
  have fromPact : ∀ {t : St} {o' : Outcome},
      pact U fuel { s with log := .proc i p dt :: s.log } a = (t, o') →
      WF t ∧ ∃ ext, t.log = ext ++ .proc i p dt :: s.log ∧ ∀ e ∈ ext, SwP e := by
    intro t o' hp
    cases a with
    | loopSwitch h' cc cn =>
      simp only [pact] at hp
      obtain ⟨wf2, ⟨ext, h1, h2, _⟩, _⟩ := simpleSwitch_spec U fuel wf1 hp
      exact ⟨wf2, ext, h1, h2⟩
    | user a =>
      obtain ⟨wf2, e2⟩ := pact_spec U fuel wf1 (a := .user a) rfl hp; exact ⟨wf2, fromExt e2⟩
    | setClock c =>
      obtain ⟨wf2, e2⟩ := pact_spec U fuel wf1 (a := .setClock c) rfl hp; exact ⟨wf2, fromExt e2⟩
    | peek =>
      obtain ⟨wf2, e2⟩ := pact_spec U fuel wf1 (a := .peek) rfl hp; exact ⟨wf2, fromExt e2⟩
  unfold runProc at h
  cases k with
  | plain => exact (fromPact h).2
  | update => exact fromExt (dispatchWith_spec U (act_spec U fuel) wf1 h).2
  | coro =>
    simp only at h
    split at h
    · simp only [Prod.mk.injEq] at h; obtain ⟨rfl, _⟩ := h; exact ⟨[], by simp⟩
    · split at h
      · simp only [Prod.mk.injEq] at h; obtain ⟨rfl, _⟩ := h; exact ⟨[], by simp⟩
      · cases ha : pact U fuel { s with log := .proc i p dt :: s.log } a with
        | mk s2 o2 =>
          obtain ⟨wf2, r2⟩ := fromPact ha
          rw [ha] at h
          cases o2 with
          | ok => simp only [Prod.mk.injEq] at h; obtain ⟨rfl, _⟩ := h; exact r2
          | outOfFuel => simp only [Prod.mk.injEq] at h; obtain ⟨rfl, _⟩ := h; exact r2
          | raised x =>
            simp only [Prod.mk.injEq] at h; obtain ⟨rfl, _⟩ := h
            obtain ⟨ext, h1, h2⟩ := r2
            obtain ⟨ext3, h3, _⟩ := (markDead_spec Quiet i p wf2).2.log
            have : ext3 = [] := by
              unfold markDead at h3
              split at h3 <;> simpa [setWorld] using h3
            subst this
            exact ⟨ext, by simpa [h1] using h3, h2⟩

/-- The processors of a frame run in order, each at most once, and none after one that raised:
the processors logged are `p, p+1, …, p+m-1`; all of them iff the frame completed. -/
theorem runProcs_idx (U : Universe) (fuel : Nat) (i : Inst) (dt : Int) :
    ∀ (ks : List ProcKind) (s : St) (p : Nat) (acts : List PAct) (s' : St) (o : Outcome), WF s →
      runProcs U fuel i dt s p ks acts = (s', o) →
      ∃ ext m, s'.log = ext ++ s.log ∧ procIdx ext = List.range' p m ∧ m ≤ ks.length ∧
        (o = .ok → m = ks.length) ∧ (o ≠ .ok → 0 < m) ∧
        (∀ e ∈ ext, PsP i dt e) := by
  intro ks
  induction ks with
  | nil =>
    intro s p acts s' o wf h
    simp only [runProcs, Prod.mk.injEq] at h; obtain ⟨rfl, rfl⟩ := h
    exact ⟨[], 0, by simp, by simp [procIdx], by simp, by simp, by simp, by simp⟩
  | cons k ks ih =>
    intro s p acts s' o wf h
    simp only [runProcs] at h
    cases hr : runProc U fuel s i dt p k (acts.headD (.user .none)) with
    | mk s1 o1 =>
      have wf1 := (runProc_step U fuel wf hr).wf
      obtain ⟨ext1, hl1, hq1⟩ := runProc_log U fuel wf hr
      have hidx1 : procIdx (ext1 ++ [.proc i p dt]) = [p] := by
        rw [procIdx_append, procIdx_swP hq1]; simp [procIdx]
      have hP1 : ∀ e ∈ ext1 ++ [Entry.proc i p dt], PsP i dt e := by
        intro e he
        rcases List.mem_append.mp he with h | h
        · exact Or.inr (hq1 e h)
        · simp only [List.mem_singleton] at h; exact Or.inl (Or.inr ⟨p, h⟩)
      rw [hr] at h
      have stop : (s1, o1) = (s', o) → o1 ≠ .ok → ∃ ext m, s'.log = ext ++ s.log ∧
          procIdx ext = List.range' p m ∧ m ≤ (k :: ks).length ∧ (o = .ok → m = (k :: ks).length) ∧
          (o ≠ .ok → 0 < m) ∧ (∀ e ∈ ext, PsP i dt e) := by
        intro he hne
        simp only [Prod.mk.injEq] at he; obtain ⟨rfl, rfl⟩ := he
        exact ⟨ext1 ++ [.proc i p dt], 1, by simp [hl1], by simp [hidx1, List.range'], by simp,
          fun c => absurd c hne, fun _ => Nat.one_pos, hP1⟩
      cases o1 with
      | ok =>
        obtain ⟨ext2, m, hl2, hi2, hm2, hok2, hne2, hP2⟩ := ih _ _ _ _ _ wf1 h
        refine ⟨ext2 ++ (ext1 ++ [.proc i p dt]), m + 1, by simp [hl2, hl1], ?_, by simp; omega,
          fun c => by simp [hok2 c], fun _ => Nat.succ_pos _, ?_⟩
        · rw [procIdx_append, hidx1, hi2]; simp [List.range'_succ]
        · intro e he
          rcases List.mem_append.mp he with h | h
          · exact hP2 e h
          · exact hP1 e h
      | raised x => exact stop h (by simp)
      | outOfFuel => exact stop h (by simp)

/-- one `World.process(dt)`: the call itself is logged first, then the processors -/
theorem processWorld_log (U : Universe) (fuel : Nat) {s s' : St} {i : Inst} {dt : Int}
    {acts : List PAct} {o : Outcome} (wf : WF s)
    (h : processWorld U fuel s i dt acts = (s', o)) :
    ∃ ext m, s'.log = ext ++ .frame i dt :: s.log ∧ procIdx ext = List.range m ∧
      m ≤ (U.procs i.h).length ∧ (o = .ok → m = (U.procs i.h).length) ∧ (o ≠ .ok → 0 < m) ∧
      (∀ e ∈ ext, PsP i dt e) := by
  unfold processWorld at h
  have wf1 : WF { s with log := .frame i dt :: s.log } := ⟨wf.fresh, wf.cached, wf.cur⟩
  obtain ⟨ext, m, h1, h2, h3, h4, h5, h6⟩ := runProcs_idx U fuel i dt _ _ _ _ _ _ wf1 h
  exact ⟨ext, m, h1, by simpa [List.range_eq_range'] using h2, h3, h4, h5, h6⟩

theorem frameDts_psP {i : Inst} {dt : Int} {ext : List Entry} (h : ∀ e ∈ ext, PsP i dt e) :
    frameDts ext = [] :=
  frameDts_of_noframe fun e he => (psP_shape (h e he)).1

theorem frameDts_swP {ext : List Entry} (h : ∀ e ∈ ext, SwP e) : frameDts ext = [] :=
  frameDts_of_noframe fun e he => (swP_shape (h e he)).1

theorem ticks_psP {i : Inst} {dt : Int} {ext : List Entry} (h : ∀ e ∈ ext, PsP i dt e) :
    ticks ext = [] :=
  ticks_of_notick fun e he => (psP_shape (h e he)).2

theorem ticks_swP {ext : List Entry} (h : ∀ e ∈ ext, SwP e) : ticks ext = [] :=
  ticks_of_notick fun e he => (swP_shape (h e he)).2

/-- One iteration reads the clock that is installed now (`tick`), calls `process` of the world that
is current now exactly once, with the delta of that reading, and remembers the reading whatever
happens afterwards in the frame. -/
theorem loopStep_trace (U : Universe) (fuel : Nat) {s s' : St} {f : Frame} {o : Outcome}
    (wf : WF s) (h : loopStep U fuel s f = (s', o)) :
    s'.last = some (readingOf s.clock f) ∧
    ((s.current = none ∧ s'.log = .tick (readingOf s.clock f) :: s.log ∧
        o = .raised .attributeError) ∨
     ∃ i ext1 ext2 m, s.current = some i ∧
       s'.log = ext2 ++ ext1 ++ .frame i (dtOf s.last (readingOf s.clock f)) ::
         .tick (readingOf s.clock f) :: s.log ∧
       (∀ e ∈ ext1, PsP i (dtOf s.last (readingOf s.clock f)) e) ∧ procIdx ext1 = List.range m ∧
       m ≤ (U.procs i.h).length ∧ (∀ e ∈ ext2, SwP e) ∧ (o = .ok → s'.current ≠ none)) := by
  rcases loopStep_cases U fuel h with ⟨hc, rfl, rfl⟩ | ⟨i, hc, s1, o1, hp, hrest⟩
  · exact ⟨rfl, Or.inl ⟨hc, rfl, rfl⟩⟩
  · have wf0 := tickSt_wf (readingOf s.clock f) wf
    obtain ⟨wf1, _, sc1, hcur1⟩ := processWorld_step U fuel wf0 hc hp
    obtain ⟨ext1, m, hl1, hi1, hm1, _, _, hP1⟩ := processWorld_log U fuel wf0 hp
    rcases hrest with ⟨h', cc, cn, _, hs⟩ | ⟨_, rfl, _⟩
    · obtain ⟨wf2, ⟨ext2, hl2, hP2, _⟩, sc2, hcur2⟩ :=
        handleSwitch_spec U fuel fuel _ _ _ _ _ _ wf1 hs
      refine ⟨by rw [sc2.last, sc1.last]; rfl,
        Or.inr ⟨i, ext1, ext2, m, hc, ?_, hP1, hi1, hm1, hP2, ?_⟩⟩
      · rw [hl2, hl1]; simp [tickSt]
      · intro ho
        cases fuel with
        | zero => subst ho; simp [handleSwitch] at hs
        | succ n => obtain ⟨j, hj⟩ := hcur2 (Nat.succ_ne_zero _); rw [hj]; simp
    · exact ⟨by rw [sc1.last]; rfl,
        Or.inr ⟨i, ext1, [], m, hc, by simp [hl1, tickSt], hP1, hi1, hm1, by simp, fun _ => hcur1⟩⟩

theorem frameDts_step {i : Inst} {dt r : Int} {ext1 ext2 : List Entry}
    (h1 : ∀ e ∈ ext1, PsP i dt e) (h2 : ∀ e ∈ ext2, SwP e) :
    frameDts (ext2 ++ ext1 ++ [.frame i dt, .tick r]) = [dt] ∧
    ticks (ext2 ++ ext1 ++ [.frame i dt, .tick r]) = [r] := by
  refine ⟨?_, ?_⟩
  · rw [frameDts_append, frameDts_append, frameDts_psP h1, frameDts_swP h2]; simp [frameDts]
  · rw [ticks_append, ticks_append, ticks_psP h1, ticks_swP h2]; simp [ticks]

/-- The deltas of a run: the readings the loop took (`ticks`, each the reading of one of the two
time functions for the corresponding iteration) and, as long as the loop has a current world, one
`process` call per reading with exactly the deltas of those readings. -/
theorem loopRun_dts (U : Universe) (fuel : Nat) :
    ∀ (frames : List Frame) (s s' : St) (o : Outcome), WF s →
      loopRun U fuel s frames = (s', o) →
      ∃ ext, s'.log = ext ++ s.log ∧ fromFrames frames (ticks ext) = true ∧
        (frames ≠ [] → ticks ext ≠ []) ∧
        (s.current ≠ none → frameDts ext = deltas s.last (ticks ext)) := by
  intro frames
  induction frames with
  | nil =>
    intro s s' o wf h
    simp only [loopRun, Prod.mk.injEq] at h; obtain ⟨rfl, _⟩ := h
    exact ⟨[], by simp, by simp [ticks, fromFrames], by simp, by simp [frameDts, ticks, deltas]⟩
  | cons f fs ih =>
    intro s s' o wf h
    simp only [loopRun] at h
    cases hl : loopStep U fuel s f with
    | mk s1 o1 =>
      obtain ⟨wf1, _, _, _⟩ := loopStep_spec U fuel wf hl
      obtain ⟨hlast, htr⟩ := loopStep_trace U fuel wf hl
      have hrd : (decide (readingOf s.clock f = f.reading) || decide (readingOf s.clock f = f.alt))
          = true := by
        unfold readingOf; split <;> simp
      rw [hl] at h
      rcases htr with ⟨hc, hlog, rfl⟩ | ⟨i, ext1, ext2, m, hc, hlog, hP1, _, _, hP2, hcur⟩
      · simp only [Prod.mk.injEq] at h; obtain ⟨rfl, _⟩ := h
        exact ⟨[.tick (readingOf s.clock f)], by simp [hlog], by simp [ticks, fromFrames, hrd],
          by simp [ticks], fun c => absurd hc c⟩
      · obtain ⟨hd, ht⟩ := frameDts_step (r := readingOf s.clock f) hP1 hP2
        have stop : (s1, o1) = (s', o) → ∃ ext, s'.log = ext ++ s.log ∧
            fromFrames (f :: fs) (ticks ext) = true ∧ (f :: fs ≠ [] → ticks ext ≠ []) ∧
            (s.current ≠ none → frameDts ext = deltas s.last (ticks ext)) := by
          intro he
          simp only [Prod.mk.injEq] at he; obtain ⟨rfl, rfl⟩ := he
          exact ⟨ext2 ++ ext1 ++ [.frame i (dtOf s.last (readingOf s.clock f)),
            .tick (readingOf s.clock f)], by simp [hlog], by rw [ht]; simp [fromFrames, hrd],
            by rw [ht]; simp, fun _ => by rw [hd, ht]; simp [deltas]⟩
        cases o1 with
        | ok =>
          obtain ⟨ext, hl2, hff, _, hdts⟩ := ih _ _ _ wf1 h
          refine ⟨ext ++ (ext2 ++ ext1 ++ [.frame i (dtOf s.last (readingOf s.clock f)),
            .tick (readingOf s.clock f)]), by simp [hl2, hlog], ?_, ?_, fun _ => ?_⟩
          · rw [ticks_append, ht]; simp [fromFrames, hrd, hff]
          · rw [ticks_append, ht]; simp
          · rw [frameDts_append, ticks_append, hd, ht, hdts (hcur rfl), hlast]; simp [deltas]
        | raised x => exact stop h
        | outOfFuel => exact stop h

end Desper.Loop

namespace Desper.Loop

theorem SameRest.refl (s : St) : SameRest s s := ⟨rfl, rfl, rfl, rfl, rfl, rfl⟩

theorem SameRest.trans {a b c : St} (x : SameRest a b) (y : SameRest b c) : SameRest a c :=
  ⟨y.cache.trans x.cache, y.loads.trans x.loads, y.current.trans x.current,
    y.currentHandle.trans x.currentHandle, y.running.trans x.running, y.last.trans x.last⟩

/-- a release that completes normally touched nothing but worlds, counter and log -/
theorem release_ok_rest (U : Universe) (fuel : Nat) (i : Inst) :
    ∀ (n : Nat) (s s' : St), release U fuel n s i = (s', .ok) → SameRest s s' := by
  intro n
  induction n with
  | zero => intro s s' h; simp [release] at h
  | succ n ih =>
    intro s s' h
    simp only [release] at h
    split at h
    · simp at h
    · rename_i w hw
      split at h
      · simp only [Prod.mk.injEq, and_true] at h; subst h; exact SameRest.refl _
      · rename_i e a q hq
        split at h
        · simp only [Prod.mk.injEq, and_true] at h; subst h; exact SameRest.refl _
        · cases hd : dispatch U fuel (setWorld s i { w with queue := q }) i e a with
          | mk s2 o2 =>
            rw [hd] at h
            cases o2 with
            | ok =>
              have r2 := ih _ _ h
              obtain ⟨w', _, hcase⟩ := dispatch_ok U hd
              have r1 : SameRest s s2 := by
                rcases hcase with ⟨_, rfl⟩ | ⟨_, _, rfl⟩ <;> exact ⟨rfl, rfl, rfl, rfl, rfl, rfl⟩
              exact r1.trans r2
            | raised x => simp at h
            | outOfFuel => simp at h

/-- after a switch that completed normally the current world is what the target handle yields -/
theorem simpleSwitch_ok (U : Universe) (fuel : Nat) {s s' : St} {h : Handle} {cc cn : Bool}
    (wf : WF s) (hs : simpleSwitch U fuel s h cc cn = (s', .ok)) :
    s'.currentHandle = some h ∧ ∃ n, s'.cache h = some n ∧ s'.current = some ⟨h, n⟩ := by
  unfold simpleSwitch at hs
  obtain ⟨wf1, _, _, hch, n, hcache, hcur⟩ := loopSwitch_spec U h cc cn wf
  generalize loopSwitch U s h cc cn = s1 at *
  have hc : callHandle U s1 h = (s1, ⟨h, n⟩) := by simp [callHandle, hcache]
  simp only [hc] at hs
  unfold enable at hs
  split at hs
  · simp at hs
  · rename_i w hw
    have r := release_ok_rest U fuel _ _ _ _ hs
    refine ⟨by rw [r.currentHandle]; exact hch, n, by rw [r.cache]; exact hcache,
      by rw [r.current]; exact hcur⟩

theorem handleSwitch_ok (U : Universe) (fuel : Nat) :
    ∀ (n : Nat) (s s' : St) (h : Handle) (cc cn : Bool), WF s →
      handleSwitch U fuel n s h cc cn = (s', .ok) →
      ∃ h' m, s'.currentHandle = some h' ∧ s'.cache h' = some m ∧ s'.current = some ⟨h', m⟩ := by
  intro n
  induction n with
  | zero => intro s s' h cc cn _ hs; simp [handleSwitch] at hs
  | succ n ih =>
    intro s s' h cc cn wf hs
    simp only [handleSwitch] at hs
    cases hss : simpleSwitch U fuel s h cc cn with
    | mk s1 o1 =>
      obtain ⟨wf1, _⟩ := simpleSwitch_spec U fuel wf hss
      rw [hss] at hs
      cases o1 with
      | ok =>
        simp only [Prod.mk.injEq, and_true] at hs; subst hs
        obtain ⟨a, m, b, c⟩ := simpleSwitch_ok U fuel wf hss
        exact ⟨h, m, a, b, c⟩
      | outOfFuel => simp at hs
      | raised x =>
        cases x with
        | switch h' cc' cn' => exact ih _ _ _ _ _ wf1 hs
        | quit => simp at hs
        | other => simp at hs
        | attributeError => simp at hs
        | clockExhausted => simp at hs
        | noWorld => simp at hs

/-! ### reachable states -/

theorem start_spec (U : Universe) (fuel : Nat) {s s' : St} {frames : List Frame} {o : Outcome}
    (wf : WF s) (h : start U fuel s frames = (s', o)) :
    WF s' ∧ s'.running = false ∧ s'.last = none := by
  unfold start at h
  cases hl : loopRun U fuel { s with running := true } frames with
  | mk s1 o1 =>
    have wf0 : WF { s with running := true } := ⟨wf.fresh, wf.cached, wf.cur⟩
    obtain ⟨wf1, _, _⟩ := loopRun_spec U fuel _ _ _ _ wf0 hl
    rw [hl] at h
    simp only at h
    have : s' = { s1 with running := false, last := none } := by
      split at h <;> simp only [Prod.mk.injEq] at h <;> exact h.1.symm
    subst this
    exact ⟨⟨wf1.fresh, wf1.cached, wf1.cur⟩, rfl, rfl⟩

/-- what holds between the top-level operations of any test program -/
structure Idle (s : St) : Prop where
  wf : WF s
  running : s.running = false
  last : s.last = none

theorem topOp_idle (U : Universe) (fuel : Nat) {s : St} (op : Op) (hi : Idle s) :
    Idle (topOp U fuel s op) := by
  cases op with
  | load h =>
    simp only [topOp]
    cases hc : callHandle U s h with
    | mk s1 i =>
      obtain ⟨wf1, e1, _⟩ := callHandle_spec U hi.wf hc
      exact ⟨⟨wf1.fresh, wf1.cached, wf1.cur⟩, e1.running.trans hi.running, e1.last.trans hi.last⟩
  | switch h cc cn =>
    simp only [topOp]
    cases hs : simpleSwitch U fuel s h cc cn with
    | mk s1 o1 =>
      obtain ⟨wf1, _, sc1, _⟩ := simpleSwitch_spec U fuel hi.wf hs
      exact ⟨⟨wf1.fresh, wf1.cached, wf1.cur⟩, sc1.running.trans hi.running,
        sc1.last.trans hi.last⟩
  | start frames =>
    simp only [topOp]
    cases hs : start U fuel s frames with
    | mk s1 o1 =>
      obtain ⟨wf1, r1, l1⟩ := start_spec U fuel hi.wf hs
      exact ⟨⟨wf1.fresh, wf1.cached, wf1.cur⟩, r1, l1⟩

theorem run_idle (U : Universe) (fuel : Nat) (ops : List Op) : ∀ (s : St), Idle s →
    Idle (run U fuel s ops) := by
  induction ops with
  | nil => intro s hi; exact hi
  | cons op ops ih => intro s hi; exact ih _ (topOp_idle U fuel op hi)

theorem idle_init : Idle ({} : St) := ⟨wf_init, rfl, rfl⟩

/-! ### telescoping -/

/-- the last reading of `r0 :: rs` -/
def lastReading (r0 : Int) (rs : List Int) : Int := rs.foldl (fun _ x => x) r0

theorem deltas_sum_some : ∀ (rs : List Int) (r0 : Int),
    (deltas (some r0) rs).sum = lastReading r0 rs - r0 := by
  intro rs
  induction rs with
  | nil => intro r0; simp [deltas, lastReading]
  | cons r rs ih =>
    intro r0
    simp only [deltas, dtOf, List.sum_cons, ih r, lastReading, List.foldl_cons]
    omega

theorem deltas_sum_none (r : Int) (rs : List Int) :
    (deltas none (r :: rs)).sum = lastReading r rs - r := by
  simp only [deltas, dtOf, List.sum_cons, deltas_sum_some rs r]
  omega

end Desper.Loop
